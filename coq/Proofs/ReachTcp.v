(* C13, part 2 (TCP, generic in the database):
     zero_wins            an entry at distance 0 exists  =>  find_best_match reports the FIRST entry at distance 0
     zero_conforms   (Z)  distance 0 to the p0f rendering of a packet  =>  the packet conforms to that entry
     live_zero       (L)  live_tcp_b s, packet conforms to s, outside the known classes  =>  distance 0
     reach_tcp_live       the three together: the reported label is admissible. *)
From Coq Require Import List NArith Bool Lia ZifyBool ZifyN.
From Coq Require Import Strings.Byte.
From HN Require Import Base.Bytes Model.SigAst Model.Match Model.Pnet Model.TcpExtract Model.Reach
  Spec.ScanSpec Spec.P0fTcp Spec.InstanceSpec Spec.ConformSpec Spec.ReachSpec
  Proofs.MatchProofs Proofs.ScanProofs Proofs.C03Bytes Proofs.C03Fields Proofs.C03Options Proofs.C03Quirks Proofs.C03Main
  Proofs.ReachObs.
Import ListNotations.
Open Scope N_scope.

(* ================================================================ (a) zero wins *)
Definition is_zero (d : option N) : bool := match d with Some 0 => true | _ => false end.

Section ZeroWins.
  Context {L S O : Type}.
  Variable distance : S -> O -> option N.
  Variable score : N -> N.

  Definition first_zero (db : list (L * list S)) (o : O) : option (N * N * S) :=
    find (fun p => is_zero (distance (snd p) o)) (positions db).

  Let acc_of (o : O) (p : N * N * S) : list (N * N * N) :=
    match distance (snd p) o with Some d => [(fst (fst p), snd (fst p), d)] | None => [] end.

  Lemma find_zero_acc o (ps : list (N * N * S)) :
    find (fun a => dist_of a =? 0) (flat_map (acc_of o) ps)
    = option_map (fun p => (fst (fst p), snd (fst p), 0)) (find (fun p => is_zero (distance (snd p) o)) ps).
  Proof.
    induction ps as [|p ps IH]; [reflexivity|].
    cbn [flat_map find]. unfold acc_of at 1. destruct (distance (snd p) o) as [d|] eqn:D; cbn [is_zero app].
    - cbn [find]. unfold dist_of at 1. cbn [snd]. destruct d as [|d']; cbn [N.eqb is_zero].
      + reflexivity.
      + change (N.pos d' =? 0) with false. cbv iota. exact IH.
    - exact IH.
  Qed.

  Lemma fold_min_zero l x : x = 0 \/ In 0 l -> fold_left N.min l x = 0.
  Proof.
    revert x; induction l as [|y l IH]; intros x H; cbn [fold_left].
    - destruct H as [H|[]]. exact H.
    - apply IH. destruct H as [H|[H|H]]; [left; lia | left; lia | right; exact H].
  Qed.

  Lemma smallest_zero (l : list (N * N * N)) a : In a l -> dist_of a = 0 -> smallest l = Some 0.
  Proof.
    destruct l as [|b r]; [contradiction|]. intros H D. unfold smallest. f_equal.
    apply fold_min_zero. destruct H as [H|H]; [left; subst; exact D|].
    right. rewrite <- D. apply in_map. exact H.
  Qed.

  Theorem scan_first_zero db o li si s :
    first_zero db o = Some (li, si, s) -> scan distance score db o = FSome li si 0 (score 0).
  Proof.
    intros F. unfold first_zero in F. unfold scan, accepting.
    change (fun p : N * N * S => match distance (snd p) o with Some d => [(fst (fst p), snd (fst p), d)] | None => [] end)
      with (acc_of o).
    pose proof (find_zero_acc o (positions db)) as FA. rewrite F in FA. cbn [option_map fst snd] in FA.
    assert (SM : smallest (flat_map (acc_of o) (positions db)) = Some 0).
    { apply find_some in FA. destruct FA as [IN DZ]. eapply smallest_zero; [exact IN|]. reflexivity. }
    rewrite SM, FA. reflexivity.
  Qed.

  Lemma first_zero_exists db o p :
    In p (positions db) -> distance (snd p) o = Some 0 -> exists y, first_zero db o = Some y.
  Proof.
    intros IN D. unfold first_zero. destruct (find _ (positions db)) as [y|] eqn:F; [eexists; reflexivity|].
    eapply find_none in F; [|exact IN]. cbv beta in F. rewrite D in F. discriminate.
  Qed.
End ZeroWins.

Lemma find_own_or_before {A} (stop f : A -> bool) (l : list A) x0 y :
  find stop l = Some x0 -> f x0 = true -> find f l = Some y -> y = x0 \/ In y (prefix_before stop l).
Proof.
  induction l as [|x l IH]; [discriminate|]. cbn [find prefix_before]. intros FS FX FF.
  destruct (stop x) eqn:SX.
  - inversion FS; subst. rewrite FX in FF. inversion FF. left; reflexivity.
  - destruct (f x) eqn:FXX.
    + inversion FF; subst. right; left; reflexivity.
    + destruct (IH FS FX FF) as [H|H]; [left; exact H | right; right; exact H].
Qed.
Lemma prefix_before_incl {A} (stop : A -> bool) l y : In y (prefix_before stop l) -> In y l.
Proof.
  induction l as [|x l IH]; [contradiction|]. cbn [prefix_before]. destruct (stop x); [contradiction|].
  intros [H|H]; [left; exact H | right; apply IH; exact H].
Qed.

(* positions carry the label index of an existing entry *)
Lemma positions_label {L S} (tbl : list (L * list S)) li si s :
  In (li, si, s) (positions tbl) -> exists e, nth_error tbl (N.to_nat li) = Some e.
Proof.
  unfold positions. intros H. apply in_flat_map in H. destruct H as [[i e] [IN H]].
  apply in_map_iff in H. destruct H as [[j t] [EQ _]]. cbn [fst snd] in EQ. inversion EQ; subst.
  apply number_from_nth in IN. destruct IN as [_ IN]. rewrite N.sub_0_r in IN. eexists; exact IN.
Qed.

Lemma label_eqb_refl l : label_eqb l l = true.
Proof.
  unfold label_eqb, opt_bytes_eqb.
  assert (B : forall b, bytes_eqb b b = true) by (intros b; apply (eqb_refl_of bytes_eqb); apply bytes_eqb_eq).
  assert (OB : forall o, option_eqb bytes_eqb o o = true) by (intros [o|]; cbn; [apply B | reflexivity]).
  rewrite !OB, B. destruct (l_ty l); reflexivity.
Qed.

(* the first zero-distance entry is admissible for every zero-distance own entry, given (Z) for the entries in front *)
Lemma first_zero_admissible {S} (tbl : list (label * list S)) (conf z : S -> bool) li si s lj sj t d q :
  entry_at tbl li si = Some (li, si, s) -> z s = true ->
  find (fun p => z (snd p)) (positions tbl) = Some (lj, sj, t) ->
  (forall u, z u = true -> conf u = true) ->
  admissible tbl conf li si (FSome lj sj d q).
Proof.
  intros EA ZS FZ ZC. unfold admissible, admissible_b.
  destruct (find_own_or_before (pos_is li si) (fun p => z (snd p)) (positions tbl) (li, si, s) (lj, sj, t) EA ZS FZ) as [E|PB].
  - inversion E; subst. apply find_some in EA. destruct EA as [IN _].
    destruct (positions_label _ _ _ _ IN) as [e NE]. unfold label_at at 1. rewrite NE. cbn [option_map].
    unfold admissible_labels, label_at at 1. rewrite NE. cbn [option_map app existsb]. rewrite label_eqb_refl. reflexivity.
  - pose proof (prefix_before_incl _ _ _ PB) as IN.
    destruct (positions_label _ _ _ _ IN) as [e NE]. unfold label_at at 1. rewrite NE. cbn [option_map].
    unfold admissible_labels. rewrite existsb_app. apply orb_true_iff. right.
    apply existsb_exists. exists (fst e). split; [|apply label_eqb_refl].
    apply in_flat_map. exists (lj, sj, t). split; [exact PB|]. cbn [fst snd].
    apply find_some in FZ. destruct FZ as [_ ZT]. cbn [snd] in ZT. rewrite (ZC _ ZT).
    unfold label_at. rewrite NE. left; reflexivity.
Qed.

(* ================================================================ segments that come from packets *)
Definition seg_wf (g : segment) : Prop :=
  (seg_ver g = IpV4 \/ seg_ver g = IpV6) /\ ih_ttl (sg_ip g) < 256
  /\ (seg_ver g = IpV6 -> ih_df (sg_ip g) = false /\ ih_mbz (sg_ip g) = false)
  /\ (seg_ver g = IpV4 -> ih_flow (sg_ip g) = 0).
Lemma seg_of_wf x g : seg_of x = Some g -> seg_wf g.
Proof.
  destruct x as [p|p]; cbn [seg_of]; intros H; unfold seg_wf, seg_ver.
  - pose proof (decode4_inv p g H) as INV. cbv zeta in INV. destruct INV as (_ & _ & _ & _ & _ & _ & _ & HIP).
    rewrite HIP. cbn [ih_ver ih_ttl ih_df ih_mbz ih_flow]. repeat split; try (left; reflexivity); try discriminate.
    apply byte_at_lt.
  - destruct (decode6_inv p g H) as (_ & _ & _ & _ & HIP).
    rewrite HIP. cbn [ih_ver ih_ttl ih_df ih_mbz ih_flow]. repeat split; try (right; reflexivity); try discriminate.
    apply byte_at_lt.
Qed.

Lemma spec_sig_concrete g : seg_wf g -> concrete_obs (spec_sig g).
Proof.
  intros (V & _). unfold concrete_obs, spec_sig. cbn [t_version t_pclass]. split; [exact V|].
  destruct (sg_payload_len g =? 0); [left | right]; reflexivity.
Qed.

(* ================================================================ small facts about the p0f rendering *)
Lemma sat_add8_small a b : a + b <= 255 -> sat_add8 a b = a + b.
Proof. unfold sat_add8. lia. Qed.

Lemma spec_window_value v w mss ts a : spec_window v w mss ts = WValue a -> a = w.
Proof.
  unfold spec_window.
  destruct ((w =? 0) || ((match mss with Some m => m | None => 0 end) <? 100)); [intros H; inversion H; reflexivity|].
  destruct (first_some _); [discriminate|].
  destruct (filter _ _); [|discriminate].
  destruct (first_some _); [discriminate|]. intros H; inversion H; reflexivity.
Qed.
Lemma spec_window_mod v w mss ts a : spec_window v w mss ts = WMod a -> 0 < a /\ w mod a = 0.
Proof.
  unfold spec_window.
  destruct ((w =? 0) || ((match mss with Some m => m | None => 0 end) <? 100)); [discriminate|].
  destruct (first_some _); [discriminate|].
  destruct (filter (fun d => w mod d =? 0) [4096; 2048; 1024; 512; 256]) as [|d r] eqn:F.
  - destruct (first_some _); discriminate.
  - intros H; inversion H; subst.
    assert (IN : In a (filter (fun d => w mod d =? 0) [4096; 2048; 1024; 512; 256])) by (rewrite F; left; reflexivity).
    apply filter_In in IN. destruct IN as [IN M]. cbn [In] in IN. split; [|lia].
    repeat (destruct IN as [IN|IN]; [subst; lia|]). contradiction.
Qed.
Lemma spec_window_none v w ts : spec_window v w None ts = spec_window v w (Some 0) ts.
Proof. reflexivity. Qed.

Lemma qmem_filter q f l : qmem q (filter f l) = f q && qmem q l.
Proof.
  induction l as [|x l IH]; [cbn; rewrite andb_false_r; reflexivity|].
  cbn [filter]. destruct (f x) eqn:FX; unfold qmem in *; cbn [existsb]; rewrite IH.
  - destruct (quirk_eqb q x) eqn:E; [apply quirk_eqb_eq in E; subst; rewrite FX; reflexivity|]. reflexivity.
  - destruct (quirk_eqb q x) eqn:E; [apply quirk_eqb_eq in E; subst; rewrite FX; reflexivity|]. reflexivity.
Qed.
Lemma qmem_canonical q : qmem q canonical_quirks = true.
Proof. destruct q; reflexivity. Qed.
Lemma qmem_spec_quirks g items q : qmem q (spec_quirks g items) = quirk_holds g items q.
Proof. unfold spec_quirks. rewrite qmem_filter, qmem_canonical, andb_true_r. reflexivity. Qed.
Lemma qmem_In q l : qmem q l = true <-> In q l.
Proof. exact (memq_In q l). Qed.

(* the fields of the rendering *)
Lemma spec_sig_fields g :
  t_version (spec_sig g) = seg_ver g /\ t_ittl (spec_sig g) = spec_ittl (ih_ttl (sg_ip g))
  /\ t_olen (spec_sig g) = seg_olen g /\ t_mss (spec_sig g) = spec_mss (seg_items g)
  /\ t_wsize (spec_sig g) = spec_window (seg_ver g) (th_win (sg_tcp g)) (spec_mss (seg_items g)) (has_ts (seg_items g))
  /\ t_wscale (spec_sig g) = spec_wscale (seg_items g) /\ t_olayout (spec_sig g) = spec_layout (seg_items g)
  /\ t_quirks (spec_sig g) = spec_quirks g (seg_items g) /\ t_pclass (spec_sig g) = seg_pclass g.
Proof. repeat split. Qed.

(* ================================================================ (Z) distance 0 => conforms *)
Lemma ttl_zero_conf t st : t < 256 -> distance_ttl (spec_ittl t) st = Some 0 -> conf_ttl st t = true.
Proof.
  intros Ht. unfold spec_ittl, initial_ttls. destruct (t =? 0) eqn:T0.
  - destruct st; cbn [distance_ttl]; try discriminate. unfold high_or, tq_high, tq_low.
    destruct (0 =? t0) eqn:E; [|discriminate]. intros _. unfold conf_ttl. lia.
  - cbn [find].
    destruct (t <=? 32) eqn:C1; [|destruct (t <=? 64) eqn:C2; [|destruct (t <=? 128) eqn:C3; [|destruct (t <=? 255) eqn:C4]]].
    all: try match goal with |- context [if ?c then TtlDistance _ _ else _] => destruct c eqn:CD end.
    all: destruct st; cbn [distance_ttl]; try discriminate; unfold high_or, tq_high, tq_low.
    all: try match goal with |- context [if ?c then _ else _] => destruct c eqn:EQ; try discriminate end.
    all: intros _; unfold conf_ttl, ttl_initial, max_hops; unfold sat_add8 in *; lia.
Qed.

Lemma win_zero_conf sw ver w mss ts :
  distance_window_size (spec_window ver w mss ts) sw mss = Some 0 -> conf_win sw ver w mss ts = true.
Proof.
  destruct (spec_window ver w mss ts) as [a|a|a|a|] eqn:SW; destruct sw as [b|b|b|b|]; cbn [distance_window_size conf_win];
    unfold high_or, tq_high, tq_low; try discriminate; try reflexivity.
  - (* Mss, Mss *) destruct (a =? b) eqn:E; [|discriminate]. intros _. rewrite SW. cbn [window_size_eqb]. rewrite E. reflexivity.
  - (* Mtu, Mtu *) destruct (a =? b) eqn:E; [|discriminate]. intros _. rewrite SW. cbn [window_size_eqb]. rewrite E. reflexivity.
  - (* Value, Mss *)
    apply spec_window_value in SW. subst a. destruct mss as [m|]; [|discriminate].
    unfold checked_div, checked_rem. destruct (m =? 0) eqn:M0; [discriminate|].
    cbn [option_eqb]. intros H. apply orb_true_iff. right.
    destruct ((b =? w / m) && (w mod m =? 0)) eqn:E; [|discriminate].
    rewrite div_exact in E by lia. rewrite E. lia.
  - (* Value, Value *)
    apply spec_window_value in SW. subst a. destruct (w =? b) eqn:E; [|discriminate]. reflexivity.
  - (* Value, Mod *)
    apply spec_window_value in SW. subst a. unfold checked_rem. destruct (b =? 0) eqn:B0; cbn [option_eqb]; [discriminate|].
    destruct (w mod b =? 0) eqn:E; [|discriminate]. intros _. lia.
  - (* Mod, Mod *)
    destruct (a =? b) eqn:E; [|discriminate]. intros _. apply spec_window_mod in SW. assert (a = b) by lia. subst. lia.
Qed.

Theorem zero_conforms (k : tkind) (t : tcp_sig) (g : segment) :
  seg_wf g -> conf_role k g = true -> tcp_distance t (spec_sig g) = Some 0 -> conforms_seg_b k t g = true.
Proof.
  intros (V & TT & _) R D. rewrite tcp_distance_sum in D.
  destruct (tcp_decisive_mismatch_b t (spec_sig g)) eqn:DM; [discriminate|].
  unfold tcp_decisive_mismatch_b in DM. repeat (apply orb_false_iff in DM; destruct DM as [DM ?]).
  repeat match goal with H : negb _ = false |- _ => apply negb_false_iff in H end.
  destruct (distance_ttl _ _) as [dt|] eqn:DT; [|discriminate]. cbn [obind] in D.
  destruct (distance_window_size _ _ _) as [dw|] eqn:DW; [|discriminate]. cbn [obind] in D.
  inversion D as [SUM]. clear D.
  assert (dt = 0 /\ c_olen t (spec_sig g) = 0 /\ c_mss t (spec_sig g) = 0 /\ dw = 0 /\ c_wscale t (spec_sig g) = 0) by lia.
  destruct H2 as (-> & CO & CM & -> & CW).
  destruct (spec_sig_fields g) as (F1 & F2 & F3 & F4 & F5 & F6 & F7 & F8 & F9).
  rewrite ?F1, ?F2, ?F3, ?F4, ?F5, ?F6, ?F7, ?F8, ?F9 in *.
  unfold conforms_seg_b. rewrite R. cbn [andb].
  rewrite DM. cbn [andb].
  rewrite (ttl_zero_conf _ _ TT DT). cbn [andb].
  unfold c_olen in CO. rewrite F3 in CO. destruct (seg_olen g =? t_olen t) eqn:EO; [|unfold pen_olen in CO; discriminate]. cbn [andb].
  assert (OF : forall sv ov, optfield_inst_b sv ov = true -> conf_optfield sv ov = true).
  { intros [v|] ov; cbn [optfield_inst_b conf_optfield]; [|reflexivity]. intros E. apply optN_eqb_eq in E. subst. lia. }
  unfold c_mss in CM. rewrite F4 in CM. destruct (optfield_inst_b (t_mss t) _) eqn:EM; [|unfold pen_mss in CM; discriminate].
  rewrite (OF _ _ EM). cbn [andb].
  rewrite (win_zero_conf _ _ _ _ _ DW). cbn [andb].
  unfold c_wscale in CW. rewrite F6 in CW. destruct (optfield_inst_b (t_wscale t) _) eqn:EW; [|unfold pen_wscale in CW; discriminate].
  rewrite (OF _ _ EW). cbn [andb].
  rewrite H1. cbn [andb].
  rewrite H. rewrite andb_true_r.
  (* quirks *)
  apply quirks_eqb_eq in H0. unfold conf_quirks.
  apply forallb_forall. intros q _.
  destruct (quirk_applies (seg_ver g) q) eqn:AP; [|reflexivity]. cbn [negb orb].
  rewrite <- qmem_spec_quirks, H0. unfold sig_quirks_for. rewrite qmem_filter, AP. cbn [andb].
  apply eqb_reflx.
Qed.

(* ================================================================ (L) live + conforms => distance 0 *)
Lemma ttl_live_zero st t : t < 256 -> ttl_live st = true -> conf_ttl st t = true -> distance_ttl (spec_ittl t) st = Some 0.
Proof.
  intros T256. destruct st as [i| | |i]; cbn [ttl_live]; try discriminate.
  - unfold initial_ttls. cbn [existsb].
    intros L C. unfold conf_ttl, ttl_initial, max_hops in C.
    assert (I : i = 32 \/ i = 64 \/ i = 128 \/ i = 255) by lia.
    unfold spec_ittl, initial_ttls. replace (t =? 0) with false by lia. cbn [find].
    destruct I as [-> | [-> | [-> | ->]]].
    + replace (t <=? 32) with true by lia. replace (32 - t <=? 30) with true by lia.
      cbn [distance_ttl]. unfold high_or, sat_add8. replace (N.min 255 (t + (32 - t)) =? 32) with true by lia. reflexivity.
    + replace (t <=? 32) with false by lia. replace (t <=? 64) with true by lia. replace (64 - t <=? 30) with true by lia.
      cbn [distance_ttl]. unfold high_or, sat_add8. replace (N.min 255 (t + (64 - t)) =? 64) with true by lia. reflexivity.
    + replace (t <=? 32) with false by lia. replace (t <=? 64) with false by lia. replace (t <=? 128) with true by lia.
      replace (128 - t <=? 30) with true by lia.
      cbn [distance_ttl]. unfold high_or, sat_add8. replace (N.min 255 (t + (128 - t)) =? 128) with true by lia. reflexivity.
    + replace (t <=? 32) with false by lia. replace (t <=? 64) with false by lia. replace (t <=? 128) with false by lia.
      replace (t <=? 255) with true by lia. replace (255 - t <=? 30) with true by lia.
      cbn [distance_ttl]. unfold high_or, sat_add8. replace (N.min 255 (t + (255 - t)) =? 255) with true by lia. reflexivity.
  - (* NN- : any TTL from 1 to NN (0 only for `0-`) *)
    intros _ C. unfold conf_ttl in C. unfold spec_ittl, initial_ttls.
    destruct (t =? 0) eqn:T0.
    + cbn [distance_ttl]. unfold high_or. replace (0 =? i) with true by lia. reflexivity.
    + cbn [find].
      destruct (t <=? 32) eqn:C1; [|destruct (t <=? 64) eqn:C2; [|destruct (t <=? 128) eqn:C3; [|destruct (t <=? 255) eqn:C4]]].
      all: try match goal with |- context [if ?c then TtlDistance _ _ else _] => destruct c eqn:CD end.
      all: cbn [distance_ttl]; replace (t <=? i) with true by lia; reflexivity.
Qed.

(* an option kind listed in the layout of well-formed options carries its value *)
Lemma fold_some_mss items v : exists v', fold_left (fun acc i => match i with IMss x => Some x | _ => acc end) items (Some v) = Some v'.
Proof. revert v; induction items as [|i items IH]; intros v; cbn [fold_left]; [eexists; reflexivity|]. destruct i; apply IH. Qed.
Lemma fold_some_ws items v : exists v', fold_left (fun acc i => match i with IWs x => Some x | _ => acc end) items (Some v) = Some v'.
Proof. revert v; induction items as [|i items IH]; intros v; cbn [fold_left]; [eexists; reflexivity|]. destruct i; apply IH. Qed.
Lemma layout_mss_some items : opts_bad items = false -> existsb (tcp_option_eqb OMss) (spec_layout items) = true ->
  exists v, spec_mss items = Some v.
Proof.
  unfold spec_mss, spec_layout. generalize (@None N) as acc.
  induction items as [|i items IH]; intros acc B E; [discriminate|].
  cbn [opts_bad existsb] in B. apply orb_false_iff in B. destruct B as [Bi B]. fold (opts_bad items) in B.
  cbn [map existsb] in E. cbn [fold_left].
  destruct (tcp_option_eqb OMss (item_option i)) eqn:EI.
  - destruct i; cbn [item_option] in EI; try discriminate. apply fold_some_mss.
  - cbn [orb] in E. apply IH; assumption.
Qed.
Lemma layout_ws_some items : opts_bad items = false -> existsb (tcp_option_eqb OWs) (spec_layout items) = true ->
  exists v, spec_wscale items = Some v.
Proof.
  unfold spec_wscale, spec_layout. generalize (@None N) as acc.
  induction items as [|i items IH]; intros acc B E; [discriminate|].
  cbn [opts_bad existsb] in B. apply orb_false_iff in B. destruct B as [Bi B]. fold (opts_bad items) in B.
  cbn [map existsb] in E. cbn [fold_left].
  destruct (tcp_option_eqb OWs (item_option i)) eqn:EI.
  - destruct i; cbn [item_option] in EI; try discriminate. apply fold_some_ws.
  - cbn [orb] in E. apply IH; assumption.
Qed.

Lemma optzero_inst sv ov o l :
  optzero_live sv o l = true -> conf_optfield sv ov = true ->
  (existsb (tcp_option_eqb o) l = true -> exists v, ov = Some v) ->
  optfield_inst_b sv ov = true.
Proof.
  destruct sv as [v|]; [|reflexivity]. cbn [optzero_live conf_optfield optfield_inst_b]. intros LZ C EX.
  destruct ov as [x|]; [apply optN_eqb_eq; f_equal; lia|].
  assert (v = 0) by lia. subst. destruct (EX LZ) as [x X]. discriminate.
Qed.

Lemma in_live_versions s g : seg_wf g -> version_inst_b (t_version s) (seg_ver g) = true ->
  In (seg_ver g) (live_versions s).
Proof.
  intros (V & _) VI. unfold live_versions.
  unfold version_inst_b in VI. destruct V as [V|V]; rewrite V in *; destruct (t_version s); cbn in *; try discriminate; tauto.
Qed.

(* the signature's quirks that apply to the packet's version are exactly the quirks that hold *)
Lemma conf_quirks_for s g : seg_wf g -> quirks_live (t_quirks s) = true -> conf_quirks (t_quirks s) g = true ->
  spec_quirks g (seg_items g) = sig_quirks_for (seg_ver g) (t_quirks s).
Proof.
  intros (V & TT & V6 & V4) QL CQ. symmetry. unfold sig_quirks_for. apply sinc_ext.
  - apply sinc_filter. exact QL.
  - apply sinc_filter. reflexivity.
  - intros q. rewrite <- !qmem_In, qmem_spec_quirks, qmem_filter.
    unfold conf_quirks in CQ. rewrite forallb_forall in CQ. specialize (CQ q (canonical_all q)).
    apply orb_true_iff in CQ. destruct CQ as [NA|EQ].
    + apply negb_true_iff in NA. rewrite NA. cbn [andb].
      assert (NH : quirk_holds g (seg_items g) q = false).
      { unfold quirk_applies in NA. destruct V as [VV|VV]; unfold seg_ver in *; rewrite VV in NA.
        - destruct q; try discriminate. unfold quirk_holds. rewrite (V4 VV). reflexivity.
        - destruct (V6 VV) as [DF MB]. destruct q; try discriminate; unfold quirk_holds; rewrite ?DF, ?MB, ?VV; reflexivity. }
      rewrite NH. split; discriminate.
    + apply eqb_prop in EQ. rewrite EQ.
      destruct (quirk_applies (seg_ver g) q) eqn:AP; cbn [andb]; [tauto|].
      assert (NH : quirk_holds g (seg_items g) q = false).
      { unfold quirk_applies in AP. destruct V as [VV|VV]; unfold seg_ver in *; rewrite VV in AP.
        - destruct q; try discriminate. unfold quirk_holds. rewrite (V4 VV). reflexivity.
        - destruct (V6 VV) as [DF MB]. destruct q; try discriminate; unfold quirk_holds; rewrite ?DF, ?MB, ?VV; reflexivity. }
      rewrite NH. tauto.
Qed.

Lemma window_live_zero s ver w mss ts :
  window_live s = true -> In ver (live_versions s) -> ts = layout_ts (t_olayout s) ->
  conf_optfield (t_mss s) mss = true ->
  conf_win (t_wsize s) ver w mss ts = true ->
  distance_window_size (spec_window ver w mss ts) (t_wsize s) mss = Some 0.
Proof.
  intros WL IN TS CM CW. unfold window_live in WL. rewrite <- TS in WL.
  destruct (t_wsize s) as [k|k|v|n|] eqn:SW; cbn [conf_win] in CW.
  - (* mss*k *)
    apply orb_true_iff in CW. destruct CW as [CW|CW].
    + apply window_size_eqb_eq in CW. rewrite CW. cbn [distance_window_size]. unfold high_or. rewrite N.eqb_refl. reflexivity.
    + destruct mss as [m|]; [|discriminate]. apply andb_true_iff in CW. destruct CW as [M0 WK].
      apply win_instance_zero. unfold spec_window.
      destruct ((w =? 0) || (m <? 100)) eqn:C.
      * right. right. left. exists k, m. repeat split; try lia. f_equal. lia.
      * right. left. unfold mss_divisors. cbn [map first_some fold_right].
        assert (MO : multiple_of w m = Some k).
        { unfold multiple_of. replace (m =? 0) with false by lia.
          assert (w = k * m) by lia. subst w. rewrite N.mod_mul by lia. rewrite N.div_mul by lia.
          cbn [N.eqb andb]. replace (0 =? 0) with true by reflexivity. replace (k <=? 255) with true by lia. reflexivity. }
        rewrite MO. reflexivity.
  - (* mtu*k *)
    destruct (t_mss s) as [m|] eqn:SM; [|discriminate].
    apply orb_true_iff in CW. destruct CW as [CW|CW].
    + apply window_size_eqb_eq in CW. rewrite CW. cbn [distance_window_size]. unfold high_or. rewrite N.eqb_refl. reflexivity.
    + destruct mss as [m'|]; [|discriminate]. apply andb_true_iff in CW. destruct CW as [M0 WK].
      cbn [conf_optfield] in CM. assert (m' = m) by lia. subst m'.
      rewrite forallb_forall in WL. specialize (WL _ IN). apply window_size_eqb_eq in WL.
      assert (w = k * (m + min_headers ver)) by lia. subst w. rewrite WL.
      cbn [distance_window_size]. unfold high_or. rewrite N.eqb_refl. reflexivity.
  - (* literal *)
    assert (w = v) by lia. subst w.
    apply orb_true_iff in WL. destruct WL as [V0|WL].
    + assert (v = 0) by lia. subst. unfold spec_window. cbn [N.eqb orb]. change (0 =? 0) with true. cbn [orb].
      cbn [distance_window_size]. unfold high_or. reflexivity.
    + destruct (t_mss s) as [m|] eqn:SM; [|discriminate].
      rewrite forallb_forall in WL. specialize (WL _ IN). apply window_size_eqb_eq in WL.
      cbn [conf_optfield] in CM.
      assert (SWE : spec_window ver v mss ts = spec_window ver v (Some m) ts).
      { destruct mss as [m'|]; [f_equal; f_equal; lia|]. rewrite spec_window_none. f_equal. f_equal. lia. }
      rewrite SWE, WL. cbn [distance_window_size]. unfold high_or. rewrite N.eqb_refl. reflexivity.
  - discriminate.
  - destruct (spec_window ver w mss ts); reflexivity.
Qed.

Theorem live_zero (k : tkind) (s : tcp_sig) (g : segment) :
  seg_wf g -> live_tcp_b s = true -> conforms_seg_b k s g = true -> K5 g = false ->
  tcp_distance s (spec_sig g) = Some 0.
Proof.
  intros WF LV C K5F. assert (WF' := WF). destruct WF' as (V & TT & V6 & V4).
  unfold live_tcp_b in LV. repeat (apply andb_true_iff in LV; destruct LV as [LV ?]).
  rename H into WL, H0 into ZW, H1 into ZM, H2 into QL, H3 into LL. rename LV into TL.
  unfold conforms_seg_b in C. cbv zeta in C. repeat (apply andb_true_iff in C; destruct C as [C ?]).
  rename H into CP, H0 into CQ, H1 into CL, H2 into CWS, H3 into CW, H4 into CM, H5 into CO, H6 into CT, H7 into CV.
  assert (OB : opts_bad (seg_items g) = false).
  { unfold K5 in K5F. apply orb_false_iff in K5F. destruct K5F as [B _]. exact B. }
  apply olayout_eqb_eq in CL.
  rewrite tcp_distance_sum.
  destruct (spec_sig_fields g) as (F1 & F2 & F3 & F4 & F5 & F6 & F7 & F8 & F9).
  (* quirks: the part of the signature's list that applies to the packet's version is the listing of the quirks that hold *)
  pose proof (conf_quirks_for s g WF QL CQ) as QE.
  assert (DM : tcp_decisive_mismatch_b s (spec_sig g) = false).
  { unfold tcp_decisive_mismatch_b. rewrite F1, F7, F8, F9, CV, CL, QE, CP.
    rewrite (eqb_refl_of _ olayout_eqb_eq), (eqb_refl_of _ quirks_eqb_eq). reflexivity. }
  rewrite DM. rewrite F2, F4, F5.
  rewrite (ttl_live_zero _ _ TT TL CT). cbn [obind].
  assert (TSE : has_ts (seg_items g) = layout_ts (t_olayout s)).
  { rewrite <- CL. unfold layout_ts, spec_layout. symmetry. apply has_ts_layout. exact OB. }
  rewrite (window_live_zero s (seg_ver g) (th_win (sg_tcp g)) (spec_mss (seg_items g)) (has_ts (seg_items g)) WL
             (in_live_versions s g WF CV) TSE CM CW).
  cbn [obind]. f_equal.
  unfold c_olen, c_mss, c_wscale. rewrite F3, F4, F6, CO.
  rewrite (optzero_inst _ _ _ _ ZM CM) by (rewrite <- CL; apply layout_mss_some; exact OB).
  rewrite (optzero_inst _ _ _ _ ZW CWS) by (rewrite <- CL; apply layout_ws_some; exact OB).
  reflexivity.
Qed.

(* ================================================================ the composition *)
Lemma reach_of_obs db k out o g :
  out = Ok o -> o_syn o = syn_of k g -> o_synack o = synack_of k g ->
  reach_of_tcp_out db out = RMatch (tcp_table_id k) (tcp_find_best_match (tcp_table db k) g).
Proof. intros -> S A. unfold reach_of_tcp_out. rewrite S, A. destruct k; reflexivity. Qed.

Theorem reach_tcp_live (db : database) (k : tkind) (li si : N) (s : tcp_sig) (x : tcp_traffic) :
  entry_at (tcp_table db k) li si = Some (li, si, s) ->
  live_tcp_b s = true -> conforms_tcp k s x -> known_tcp_traffic db s x = false ->
  exists f, reach_tcp db x = RMatch (tcp_table_id k) f
            /\ admissible (tcp_table db k) (fun t => conforms_tcp_b k t x) li si f.
Proof.
  intros EA LV C KN. unfold conforms_tcp, conforms_tcp_b in C. unfold known_tcp_traffic in KN.
  destruct (seg_of x) as [g|] eqn:SG; [|discriminate].
  pose proof (seg_of_wf x g SG) as WF.
  unfold known_tcp13 in KN. rename KN into KC.
  assert (R : conf_role k g = true).
  { destruct (conf_role k g) eqn:RR; [reflexivity|]. unfold conforms_seg_b in C. cbv zeta in C. rewrite RR in C. discriminate. }
  assert (K5F : K5 g = false).
  { unfold known_c03 in KC. repeat (apply orb_false_iff in KC; destruct KC as [KC ?]). assumption. }
  assert (OBS : exists o, tcp_out_of db x = Ok o /\ o_syn o = syn_of k (spec_sig g) /\ o_synack o = synack_of k (spec_sig g)).
  { destruct x as [p|p]; cbn [seg_of tcp_out_of] in *; [apply obs_v4 | apply obs_v6]; assumption. }
  destruct OBS as (o & OUT & SY & SA).
  unfold reach_tcp. rewrite (reach_of_obs db k _ o (spec_sig g) OUT SY SA).
  pose proof (live_zero k s g WF LV C K5F) as D0.
  assert (IN : In (li, si, s) (positions (tcp_table db k))) by (apply find_some in EA; tauto).
  destruct (first_zero_exists tcp_distance (tcp_table db k) (spec_sig g) (li, si, s) IN D0) as [[[lj sj] t] FZ].
  rewrite tcp_find_best_match_is_scan by (apply spec_sig_concrete; exact WF).
  unfold tcp_scan. rewrite (scan_first_zero tcp_distance tcp_score _ _ lj sj t FZ).
  eexists. split; [reflexivity|].
  apply (first_zero_admissible (tcp_table db k) (fun t => conforms_tcp_b k t x)
           (fun u => is_zero (tcp_distance u (spec_sig g))) li si s lj sj t).
  - exact EA.
  - rewrite D0. reflexivity.
  - exact FZ.
  - intros u ZU. unfold conforms_tcp_b. rewrite SG. apply zero_conforms; [exact WF | exact R |].
    destruct (tcp_distance u (spec_sig g)) as [[|d]|]; try discriminate. reflexivity.
Qed.

(* ================================================================ (a) as a statement about find_best_match *)
Theorem zero_wins_tcp {L} (db : list (L * list tcp_sig)) (o : tcp_sig) (p : N * N * tcp_sig) :
  concrete_obs o -> In p (positions db) -> tcp_distance (snd p) o = Some 0 ->
  exists li si s, first_zero tcp_distance db o = Some (li, si, s)
                  /\ tcp_find_best_match db o = FSome li si 0 100.
Proof.
  intros CO IN D. destruct (first_zero_exists tcp_distance db o p IN D) as [[[li si] s] FZ].
  exists li, si, s. split; [exact FZ|].
  rewrite tcp_find_best_match_is_scan by exact CO. unfold tcp_scan.
  rewrite (scan_first_zero tcp_distance tcp_score db o li si s FZ). reflexivity.
Qed.
Theorem zero_wins_http {L} (db : list (L * list http_sig)) (o : http_sig) (p : N * N * http_sig) :
  concrete_http o -> In p (positions db) -> http_distance (snd p) o = Some 0 ->
  exists li si s, first_zero http_distance db o = Some (li, si, s)
                  /\ http_find_best_match db o = FSome li si 0 100.
Proof.
  intros CO IN D. destruct (first_zero_exists http_distance db o p IN D) as [[[li si] s] FZ].
  exists li, si, s. split; [exact FZ|].
  rewrite http_find_best_match_is_scan by exact CO. unfold http_scan.
  rewrite (scan_first_zero http_distance http_score db o li si s FZ). reflexivity.
Qed.
