(* Lemmas about the HTTP/2 frame splitter (Model/H2Frames.v) and the RFC 7540 wire encoding
   (Spec/AkamaiSpec.v: wire1 / wire / visible).  Shared by C16 and C17. *)
From Coq Require Import List NArith ZArith Bool Lia ZifyBool ZifyN Arith.
From Coq Require Import Strings.Byte.
From HN Require Import Base.Bytes Model.H2Text Model.H2Frames Spec.H2Wire.
Import ListNotations.
Open Scope N_scope.

Ltac Zify.zify_post_hook ::= Z.div_mod_to_equations.

(* ---------- big-endian numbers ---------- *)
Lemma be_N_3 a b c : be_N [a; b; c] = b2n a * 65536 + b2n b * 256 + b2n c.
Proof. unfold be_N. cbn [fold_left]. lia. Qed.
Lemma be_N_4 a b c d : be_N [a; b; c; d] = b2n a * 16777216 + b2n b * 65536 + b2n c * 256 + b2n d.
Proof. unfold be_N. cbn [fold_left]. lia. Qed.
Lemma be_N_2 a b : be_N [a; b] = b2n a * 256 + b2n b.
Proof. unfold be_N. cbn [fold_left]. lia. Qed.
Lemma be_N_1 a : be_N [a] = b2n a.
Proof. unfold be_N. cbn [fold_left]. lia. Qed.

Lemma be_bytes_3 n : be_bytes 3 n = [n2b ((n / 65536) mod 256); n2b ((n / 256) mod 256); n2b (n mod 256)].
Proof.
  cbn [be_bytes]. change (256 ^ N.of_nat 2) with 65536. change (256 ^ N.of_nat 1) with 256.
  change (256 ^ N.of_nat 0) with 1. now rewrite N.div_1_r.
Qed.
Lemma be_bytes_4 n : be_bytes 4 n = [n2b ((n / 16777216) mod 256); n2b ((n / 65536) mod 256);
                                      n2b ((n / 256) mod 256); n2b (n mod 256)].
Proof.
  cbn [be_bytes]. change (256 ^ N.of_nat 3) with 16777216. change (256 ^ N.of_nat 2) with 65536.
  change (256 ^ N.of_nat 1) with 256. change (256 ^ N.of_nat 0) with 1. now rewrite N.div_1_r.
Qed.

Lemma b2n_n2b_mod n : b2n (n2b (n mod 256)) = n mod 256.
Proof. apply b2n_n2b. lia. Qed.

Lemma be_N_be_bytes_3 n : n < 16777216 -> be_N (be_bytes 3 n) = n.
Proof. intros H. rewrite be_bytes_3, be_N_3, !b2n_n2b_mod. lia. Qed.
Lemma be_N_be_bytes_4 n : n < 4294967296 -> be_N (be_bytes 4 n) = n.
Proof. intros H. rewrite be_bytes_4, be_N_4, !b2n_n2b_mod. lia. Qed.

(* ---------- the splitter ---------- *)
Lemma blen_app a b : blen (a ++ b) = blen a + blen b.
Proof. unfold blen. rewrite app_length. lia. Qed.
Lemma blen_cons x a : blen (x :: a) = 1 + blen a.
Proof. unfold blen. cbn [length]. lia. Qed.
Lemma blen_nil : blen [] = 0.
Proof. reflexivity. Qed.

Lemma parse_one_len data f rest :
  parse_one data = Some (f, rest) -> (length rest + 9 <= length data)%nat.
Proof.
  unfold parse_one.
  destruct data as [|l0 [|l1 [|l2 [|ty [|fl [|s0 [|s1 [|s2 [|s3 r]]]]]]]]]; try discriminate.
  destruct (blen r <? be_N [l0; l1; l2]) eqn:E1; try discriminate.
  destruct (max_frame_size <? be_N [l0; l1; l2]) eqn:E2; try discriminate.
  intros H. inversion H; subst. cbn [length]. rewrite skipn_length. lia.
Qed.

Lemma parse_frames_fuel_any f1 : forall f2 data,
  (length data <= f1)%nat -> (length data <= f2)%nat ->
  parse_frames_fuel f1 data = parse_frames_fuel f2 data.
Proof.
  induction f1 as [|f1 IH]; intros f2 data H1 H2.
  - destruct data; [|cbn in H1; lia]. destruct f2; reflexivity.
  - destruct f2 as [|f2].
    + destruct data; [|cbn in H2; lia]. reflexivity.
    + cbn [parse_frames_fuel]. destruct (parse_one data) as [[fr rest]|] eqn:E; [|reflexivity].
      apply parse_one_len in E. f_equal. apply IH; lia.
Qed.

(* the loop equation of parse_frames (fuel never runs out) *)
Lemma parse_frames_eq data :
  parse_frames data = match parse_one data with
                      | Some (f, rest) => f :: parse_frames rest
                      | None => []
                      end.
Proof.
  unfold parse_frames. destruct data as [|b data'].
  - reflexivity.
  - cbn [length parse_frames_fuel]. destruct (parse_one (b :: data')) as [[fr rest]|] eqn:E; [|reflexivity].
    apply parse_one_len in E. cbn [length] in E. f_equal. apply parse_frames_fuel_any; lia.
Qed.

Lemma parse_frames_short data : (length data < 9)%nat -> parse_frames data = [].
Proof.
  intros H. rewrite parse_frames_eq. unfold parse_one.
  destruct data as [|l0 [|l1 [|l2 [|ty [|fl [|s0 [|s1 [|s2 [|s3 r]]]]]]]]]; try reflexivity.
  cbn [length] in H. lia.
Qed.

(* ---------- wire format ---------- *)
Lemma wire1_length rf : blen (wire1 rf) = 9 + blen (f_payload (snd rf)).
Proof.
  unfold wire1. rewrite !blen_app, be_bytes_3, be_bytes_4, !blen_cons, !blen_nil. lia.
Qed.

Lemma firstn_blen (l t : bytes) : firstn (N.to_nat (blen l)) (l ++ t) = l.
Proof.
  unfold blen. rewrite Nnat.Nat2N.id.
  rewrite firstn_app, Nat.sub_diag, firstn_all. cbn [firstn]. apply app_nil_r.
Qed.
Lemma skipn_blen (l t : bytes) : skipn (N.to_nat (blen l)) (l ++ t) = t.
Proof.
  unfold blen. rewrite Nnat.Nat2N.id.
  rewrite skipn_app, Nat.sub_diag, skipn_all. reflexivity.
Qed.

Lemma wire_ok_bounds rf : wire_ok rf = true ->
  f_type (snd rf) < 256 /\ f_flags (snd rf) < 256 /\ f_stream (snd rf) < 2 ^ 31 /\
  blen (f_payload (snd rf)) <= 16384.
Proof.
  unfold wire_ok. cbv zeta. intros H. change (2 ^ 31) with 2147483648 in *.
  rewrite !andb_true_iff in H. destruct H as [[[H1 H2] H3] H4]. repeat split; lia.
Qed.

(* a complete frame followed by anything is split off exactly *)
Lemma parse_one_wire1 rf tail :
  wire_ok rf = true -> parse_one (wire1 rf ++ tail) = Some (snd rf, tail).
Proof.
  intros Hok. apply wire_ok_bounds in Hok. destruct Hok as (Hty & Hfl & Hst & Hlen).
  destruct rf as [r [ty fl st pl]]. cbn [snd fst f_type f_flags f_stream f_payload] in *.
  unfold wire1. cbn [snd fst f_type f_flags f_stream f_payload].
  rewrite be_bytes_3, be_bytes_4. cbn [app].
  unfold parse_one.
  change (2 ^ 31) with 2147483648 in *.
  rewrite <- be_bytes_3, be_N_be_bytes_3 by lia.
  rewrite <- be_bytes_4, be_N_be_bytes_4 by (destruct r; lia).
  rewrite blen_app.
  replace (blen pl + blen tail <? blen pl) with false by lia.
  unfold max_frame_size. replace (16384 <? blen pl) with false by lia.
  rewrite firstn_blen, skipn_blen, !b2n_n2b by lia.
  f_equal. f_equal. f_equal. destruct r; lia.
Qed.

(* a proper prefix of a frame is never split off *)
Lemma parse_one_partial rf (n : nat) :
  wire_ok rf = true -> (n < length (wire1 rf))%nat -> parse_one (firstn n (wire1 rf)) = None.
Proof.
  intros Hok Hn. pose proof (wire1_length rf) as HL. unfold blen in HL.
  apply wire_ok_bounds in Hok. destruct Hok as (Hty & Hfl & Hst & Hlen).
  destruct rf as [r [ty fl st pl]]. cbn [snd fst f_type f_flags f_stream f_payload] in *.
  unfold wire1 in *. cbn [snd fst f_type f_flags f_stream f_payload] in *.
  rewrite be_bytes_3, be_bytes_4 in *. cbn [app] in *.
  do 9 (destruct n as [|n]; [reflexivity|]). cbn [firstn].
  unfold parse_one.
  rewrite <- be_bytes_3, be_N_be_bytes_3 by lia.
  cbn [length] in Hn.
  assert (Hlt : blen (firstn n pl) <? blen pl = true).
  { unfold blen. rewrite firstn_length. lia. }
  now rewrite Hlt.
Qed.

Lemma wire_cons rf frs : wire (rf :: frs) = wire1 rf ++ wire frs.
Proof. reflexivity. Qed.

(* what the splitter returns on the first n octets of a frame sequence *)
Lemma parse_frames_prefix frs : forall n,
  forallb wire_ok frs = true ->
  parse_frames (firstn (N.to_nat n) (wire frs)) = visible frs n.
Proof.
  induction frs as [|rf frs IH]; intros n Hok.
  - cbn [wire flat_map visible]. rewrite firstn_nil. reflexivity.
  - cbn [forallb] in Hok. apply andb_true_iff in Hok. destruct Hok as [Hrf Hrest].
    rewrite wire_cons. cbn [visible]. pose proof (wire1_length rf) as HL.
    destruct (9 + blen (f_payload (snd rf)) <=? n) eqn:E.
    + rewrite firstn_app. rewrite firstn_all2 by (unfold blen in *; lia).
      rewrite parse_frames_eq, parse_one_wire1 by assumption.
      f_equal. replace (N.to_nat n - length (wire1 rf))%nat with (N.to_nat (n - (9 + blen (f_payload (snd rf)))))
        by (unfold blen in *; lia).
      now apply IH.
    + rewrite firstn_app.
      replace (N.to_nat n - length (wire1 rf))%nat with 0%nat by (unfold blen in *; lia).
      cbn [firstn]. rewrite app_nil_r.
      rewrite parse_frames_eq, parse_one_partial; [reflexivity|assumption|unfold blen in *; lia].
Qed.

Lemma parse_frames_wire frs :
  forallb wire_ok frs = true -> parse_frames (wire frs) = map snd frs.
Proof.
  intros Hok. induction frs as [|rf frs IH]; [reflexivity|].
  cbn [forallb] in Hok. apply andb_true_iff in Hok. destruct Hok as [Hrf Hrest].
  rewrite wire_cons, parse_frames_eq, parse_one_wire1 by assumption. cbn [map]. f_equal. auto.
Qed.

(* ---------- the client preface ---------- *)
Lemma preface_length : length preface = 24%nat.
Proof. reflexivity. Qed.

Lemma strip_prefix_app (p l : bytes) : strip_prefix p (p ++ l) = Some l.
Proof. induction p as [|x p IH]; [reflexivity|]. cbn. assert (beqb x x = true) by now apply beqb_eq. now rewrite H. Qed.

Lemma skip_preface_app l : skip_preface (preface ++ l) = l.
Proof. unfold skip_preface. now rewrite strip_prefix_app. Qed.

(* every proper prefix of the preface yields no frame *)
Lemma preface_prefix_no_frames :
  forallb (fun n => match parse_frames_skip_preface (firstn n preface) with [] => true | _ => false end)
          (seq 0 24) = true.
Proof. vm_compute. reflexivity. Qed.

Lemma skip_preface_not_P (data : bytes) :
  match data with b :: _ => b2n b <> 80 | [] => True end -> skip_preface data = data.
Proof.
  unfold skip_preface. destruct data as [|b r]; [reflexivity|].
  intros H. unfold preface. cbn [bs bs_to app strip_prefix].
  destruct (beqb "P" b) eqn:E; [|reflexivity].
  apply beqb_eq in E. subst b. exfalso. apply H. reflexivity.
Qed.

Lemma wire_first_byte frs n :
  forallb wire_ok frs = true ->
  match firstn n (wire frs) with b :: _ => b2n b <> 80 | [] => True end.
Proof.
  intros Hok. destruct frs as [|rf frs]; [cbn; now rewrite firstn_nil|].
  cbn [forallb] in Hok. apply andb_true_iff in Hok. destruct Hok as [Hrf _].
  apply wire_ok_bounds in Hrf. destruct Hrf as (_ & _ & _ & Hlen).
  rewrite wire_cons. unfold wire1. rewrite be_bytes_3. cbn [app].
  destruct n as [|n]; [exact I|]. cbn [firstn].
  replace (blen (f_payload (snd rf)) / 65536) with 0 by lia.
  change (0 mod 256) with 0. rewrite b2n_n2b by lia. lia.
Qed.

(* frames seen after the first n octets of a connection start = `visible_at` *)
Lemma parse_skip_preface_prefix pre frs n :
  forallb wire_ok frs = true ->
  parse_frames_skip_preface (firstn (N.to_nat n) (stream_start pre frs)) = visible_at pre frs n.
Proof.
  intros Hok. unfold stream_start, visible_at, parse_frames_skip_preface. destruct pre.
  - destruct (n <? 24) eqn:E.
    + rewrite firstn_app. replace (N.to_nat n - length preface)%nat with 0%nat by (rewrite preface_length; lia).
      cbn [firstn]. rewrite app_nil_r.
      pose proof preface_prefix_no_frames as H. rewrite forallb_forall in H.
      specialize (H (N.to_nat n)). unfold parse_frames_skip_preface in H.
      destruct (parse_frames (skip_preface (firstn (N.to_nat n) preface))); [reflexivity|].
      assert (In (N.to_nat n) (seq 0 24)) by (apply in_seq; lia). apply H in H0. discriminate.
    + rewrite firstn_app, firstn_all2 by (rewrite preface_length; lia).
      rewrite skip_preface_app, preface_length.
      replace (N.to_nat n - 24)%nat with (N.to_nat (n - 24)) by lia.
      now apply parse_frames_prefix.
  - cbn [app]. rewrite skip_preface_not_P by now apply wire_first_byte.
    now apply parse_frames_prefix.
Qed.
