(* Proofs for C17: MODEL (akamai_extractor.rs / akamai.rs / http2_fingerprint_extractor.rs
   transcription) = SPEC (Akamai format on abstract frames), outside the known classes. *)
From Coq Require Import List NArith ZArith Bool Lia ZifyBool ZifyN Arith.
From Coq Require Import Strings.Byte.
From HN Require Import Base.Bytes Model.H2Text Model.H2Frames Model.Hpack Model.H2Msg Model.Akamai Model.AkamaiInc
     Spec.H2Wire Spec.AkamaiSpec Proofs.H2FramesProofs Proofs.HpackProofs.
Import ListNotations.
Open Scope N_scope.

Ltac Zify.zify_post_hook ::= Z.div_mod_to_equations.

(* ================= S: settings ================= *)
Lemma setting_roundtrip id : setting_as_u16 (setting_from id) = id.
Proof.
  unfold setting_from.
  destruct (id =? 1) eqn:E1; [cbn; lia|]. destruct (id =? 2) eqn:E2; [cbn; lia|].
  destruct (id =? 3) eqn:E3; [cbn; lia|]. destruct (id =? 4) eqn:E4; [cbn; lia|].
  destruct (id =? 5) eqn:E5; [cbn; lia|]. destruct (id =? 6) eqn:E6; [cbn; lia|].
  destruct (id =? 9) eqn:E9; [cbn; lia|]. reflexivity.
Qed.

Definition conv (s : setting_id * N) : N * N := (setting_as_u16 (fst s), snd s).

Lemma six_ind (P : bytes -> Prop) :
  (forall p, (length p < 6)%nat -> P p) ->
  (forall a b c d e f r, P r -> P (a :: b :: c :: d :: e :: f :: r)) -> forall p, P p.
Proof.
  intros Hs Hc. fix IH 1. intros p.
  destruct p as [|a [|b [|c [|d [|e [|f r]]]]]]; try (apply Hs; cbn [length]; lia).
  apply Hc. apply IH.
Qed.

Lemma settings_pairs_short p : (length p < 6)%nat -> settings_pairs p = [].
Proof. intros H. unfold settings_pairs. rewrite Nat.div_small by exact H. reflexivity. Qed.

Lemma settings_pairs_step a b c d e f r :
  settings_pairs (a :: b :: c :: d :: e :: f :: r) = (be_N [a; b], be_N [c; d; e; f]) :: settings_pairs r.
Proof.
  unfold settings_pairs.
  replace (length (a :: b :: c :: d :: e :: f :: r)) with (1 * 6 + length r)%nat by (cbn [length]; lia).
  rewrite Nat.div_add_l by lia. cbn [Nat.add seq map]. f_equal.
  rewrite <- seq_shift, map_map. apply map_ext. intros i.
  unfold nth_setting, sub.
  replace (6 * S i)%nat with (6 + 6 * i)%nat by lia.
  replace (6 + 6 * i + 2)%nat with (6 + (6 * i + 2))%nat by lia.
  reflexivity.
Qed.

Lemma settings_model_spec p : map conv (parse_settings_payload p) = settings_pairs p.
Proof.
  induction p as [p Hp | a b c d e f r IH] using six_ind.
  - rewrite settings_pairs_short by exact Hp.
    destruct p as [|a [|b [|c [|d [|e [|f r]]]]]]; try reflexivity. cbn [length] in Hp. lia.
  - rewrite settings_pairs_step. cbn [parse_settings_payload map]. rewrite IH.
    unfold conv at 1. cbn [fst snd]. now rewrite setting_roundtrip.
Qed.

Lemma S_part_model l :
  join (bs ";") (map show_setting l) = S_part (map conv l).
Proof. unfold S_part. rewrite map_map. reflexivity. Qed.

Lemma parse_settings_nil_iff p : parse_settings_payload p = [] <-> (length p < 6)%nat.
Proof.
  destruct p as [|a [|b [|c [|d [|e [|f r]]]]]]; cbn [parse_settings_payload length];
    split; intros H; try reflexivity; try lia; discriminate.
Qed.

(* ================= WU ================= *)
Lemma mask31 a b c d :
  be_N [n2b (b2n a mod 128); b; c; d] = be_N [a; b; c; d] mod 2 ^ 31.
Proof.
  rewrite !be_N_4. pose proof (b2n_lt a). pose proof (b2n_lt b). pose proof (b2n_lt c). pose proof (b2n_lt d).
  rewrite b2n_n2b by lia. change (2 ^ 31) with 2147483648. lia.
Qed.

Lemma top_bit a b c d :
  be_N [a; b; c; d] / 2 ^ 31 = if 128 <=? b2n a then 1 else 0.
Proof.
  rewrite be_N_4. pose proof (b2n_lt a). pose proof (b2n_lt b). pose proof (b2n_lt c). pose proof (b2n_lt d).
  change (2 ^ 31) with 2147483648. destruct (128 <=? b2n a) eqn:E; lia.
Qed.

Definition wu_wf (frames : list frame) : bool :=
  match find wu_frame frames with
  | Some f => Nat.eqb (length (f_payload f)) 4 && negb (wu_increment (f_payload f) =? 0)
  | None => true
  end.

Lemma wu_model_spec frames :
  wu_wf frames = true ->
  (if extract_window_update frames =? 0 then bs "00" else show_N (extract_window_update frames))
  = WU_part frames.
Proof.
  unfold wu_wf, extract_window_update, WU_part. change is_wu0 with wu_frame.
  destruct (find wu_frame frames) as [f|]; [|reflexivity].
  intros H. apply andb_true_iff in H. destruct H as [Hl Hn].
  apply Nat.eqb_eq in Hl.
  destruct (f_payload f) as [|a [|b [|c [|d [|e r]]]]]; try (cbn [length] in Hl; lia).
  cbn [parse_window_update_payload]. unfold wu_increment in *. cbn [firstn] in *.
  rewrite mask31. destruct (be_N [a; b; c; d] mod 2 ^ 31 =? 0) eqn:E; [discriminate|reflexivity].
Qed.

(* ================= P ================= *)
Definition prio_wf (frames : list frame) : bool :=
  forallb (fun f => Nat.eqb (length (f_payload f)) 5) (filter priority_frame frames).

Lemma show_N_0 : show_N 0 = bs "0". Proof. reflexivity. Qed.
Lemma show_N_1 : show_N 1 = bs "1". Proof. reflexivity. Qed.

Lemma prio_item_eq f a b c d w :
  f_payload f = [a; b; c; d; w] ->
  show_priority {| p_stream := f_stream f; p_excl := 128 <=? b2n a;
                   p_dep := be_N [n2b (b2n a mod 128); b; c; d]; p_weight := b2n w |} = P_item f.
Proof.
  intros Ep. unfold show_priority, P_item, sub. rewrite Ep.
  cbn [p_stream p_excl p_dep p_weight firstn skipn].
  rewrite mask31, top_bit, be_N_1.
  destruct (128 <=? b2n a); [rewrite show_N_1|rewrite show_N_0]; reflexivity.
Qed.

Lemma prio_items frames :
  prio_wf frames = true ->
  map show_priority (extract_priority_frames frames) = map P_item (filter priority_frame frames).
Proof.
  unfold prio_wf. induction frames as [|f r IH]; [reflexivity|].
  cbn [extract_priority_frames filter]. change (priority_frame f) with (f_type f =? 2). change T_PRIORITY with 2.
  destruct (f_type f =? 2) eqn:E.
  - cbn [forallb]. intros H. apply andb_true_iff in H. destruct H as [Hl Hr].
    apply Nat.eqb_eq in Hl.
    destruct (f_payload f) as [|a [|b [|c [|d [|w [|x t]]]]]] eqn:Ep; try (cbn [length] in Hl; lia).
    cbn [parse_priority_payload]. rewrite !map_cons, (IH Hr). f_equal. now apply prio_item_eq.
  - intros H. now apply IH.
Qed.

Lemma P_part_model frames :
  prio_wf frames = true ->
  match extract_priority_frames frames with
  | [] => bs "0"
  | _ => join (bs ",") (map show_priority (extract_priority_frames frames))
  end = P_part frames.
Proof.
  intros H. pose proof (prio_items frames H) as E. unfold P_part.
  destruct (extract_priority_frames frames) as [|x xs]; destruct (filter priority_frame frames) as [|y ys];
    try discriminate; [reflexivity|]. now rewrite E.
Qed.

(* ================= PS ================= *)
Lemma beqb_colon b : beqb b colon = (b2n b =? 58).
Proof. destruct b; reflexivity. Qed.

Lemma starts_colon_is_pseudo h : starts_with_colon (fst h) = is_pseudo h.
Proof. unfold starts_with_colon, is_pseudo. destruct (fst h) as [|b r]; [reflexivity|apply beqb_colon]. Qed.

Lemma find_first_headers frames : find_headers_pos frames = first_headers frames.
Proof.
  induction frames as [|f r IH]; [reflexivity|].
  cbn [find_headers_pos first_headers]. unfold is_headers_pos. change T_HEADERS with 1.
  replace (0 <? f_stream f) with (negb (f_stream f =? 0)) by lia.
  destruct ((f_type f =? 1) && negb (f_stream f =? 0)); [reflexivity|exact IH].
Qed.

(* flags & 2^k != 0  is bit k *)
Lemma land_pow2 a k : N.land a (2 ^ k) = if N.testbit a k then 2 ^ k else 0.
Proof.
  apply N.bits_inj. intros m. rewrite N.land_spec, N.pow2_bits_eqb.
  destruct (N.testbit a k) eqn:E.
  - rewrite N.pow2_bits_eqb. destruct (N.eqb_spec k m) as [->|Hne]; [now rewrite E|apply andb_false_r].
  - rewrite N.bits_0. destruct (N.eqb_spec k m) as [->|Hne]; [now rewrite E|apply andb_false_r].
Qed.
Lemma has_flag_testbit a k : has_flag a (2 ^ k) = N.testbit a k.
Proof.
  unfold has_flag. rewrite land_pow2. destruct (N.testbit a k); [|reflexivity].
  assert (2 ^ k <> 0) by (apply N.pow_nonzero; lia). destruct (N.eqb_spec (2 ^ k) 0); [contradiction|reflexivity].
Qed.

(* Http2Parser::headers_fragment computes the header block fragment of RFC 7540 6.2 *)
Lemma headers_fragment_spec f : headers_fragment f = headers_block_fragment f.
Proof.
  unfold headers_fragment, headers_block_fragment, flag.
  change FLAG_PADDED with (2 ^ PADDED_bit). change FLAG_PRIORITY with (2 ^ PRIORITY_bit).
  rewrite !has_flag_testbit.
  assert (Hlast : forall (p2 : bytes) padlen,
            (if blen p2 <? padlen then None else Some (firstn (N.to_nat (blen p2 - padlen)) p2))
            = (if blen p2 <? padlen then None else Some (firstn (length p2 - N.to_nat padlen)%nat p2))).
  { intros p2 padlen. destruct (blen p2 <? padlen) eqn:E; [reflexivity|].
    do 2 f_equal. unfold blen in *. lia. }
  assert (Hprio : forall (p1 : bytes), (blen p1 <? 5) = Nat.ltb (length p1) 5).
  { intros p1. unfold blen. destruct (Nat.ltb_spec (length p1) 5); lia. }
  destruct (N.testbit (f_flags f) PADDED_bit).
  - destruct (f_payload f) as [|b r]; [reflexivity|].
    destruct (N.testbit (f_flags f) PRIORITY_bit).
    + rewrite Hprio. destruct (Nat.ltb (length r) 5); [reflexivity|apply Hlast].
    + apply Hlast.
  - destruct (N.testbit (f_flags f) PRIORITY_bit).
    + rewrite Hprio. destruct (Nat.ltb (length (f_payload f)) 5); [reflexivity|apply Hlast].
    + apply Hlast.
Qed.

Lemma collect_spec sid : forall r blk t,
  continuation sid r = Some t -> collect_continuations sid r blk = blk ++ t.
Proof.
  induction r as [|f r IH]; intros blk t H; [discriminate|].
  cbn [continuation collect_continuations] in *. change T_CONTINUATION with 9.
  destruct ((f_type f =? 9) && (f_stream f =? sid)) eqn:E; [|discriminate].
  apply andb_true_iff in E. destruct E as [E1 E2]. rewrite E1, E2. cbn [negb orb].
  change FLAG_END_HEADERS with (2 ^ END_HEADERS_bit). rewrite has_flag_testbit. unfold flag in H.
  destruct (N.testbit (f_flags f) END_HEADERS_bit).
  - now inversion H.
  - destruct (continuation sid r) as [t'|]; [|discriminate]. inversion H; subst.
    rewrite (IH _ t' eq_refl). now rewrite app_assoc.
Qed.

Lemma letter_utf8 name : (match ps_letter name with Some _ => true | None => false end) = true -> utf8_valid name = true.
Proof.
  unfold ps_letter.
  destruct (bytes_eqb name (bs ":method")) eqn:E1; [apply bytes_eqb_eq in E1; now subst|].
  destruct (bytes_eqb name (bs ":authority")) eqn:E2; [apply bytes_eqb_eq in E2; now subst|].
  destruct (bytes_eqb name (bs ":scheme")) eqn:E3; [apply bytes_eqb_eq in E3; now subst|].
  destruct (bytes_eqb name (bs ":path")) eqn:E4; [apply bytes_eqb_eq in E4; now subst|discriminate].
Qed.

(* the request pseudo-header names are text, so dropping headers with non-UTF-8 names loses none of them *)
Lemma filter_filter_pseudo (hs : list header) :
  forallb (fun h : bytes * bytes => match ps_letter (fst h) with Some _ => true | None => false end) (filter is_pseudo hs) = true ->
  filter (fun h : bytes * bytes => starts_with_colon (fst h))
         (filter (fun h : bytes * bytes => utf8_valid (fst h)) hs) = filter is_pseudo hs.
Proof.
  induction hs as [|h r IH]; [reflexivity|].
  cbn [filter]. destruct (is_pseudo h) eqn:Ep.
  - cbn [forallb]. intros H. apply andb_true_iff in H. destruct H as [Hu Hr].
    rewrite (letter_utf8 _ Hu). cbn [filter]. rewrite starts_colon_is_pseudo, Ep.
    f_equal. now apply IH.
  - intros H. destruct (utf8_valid (fst h));
      [cbn [filter]; rewrite starts_colon_is_pseudo, Ep|]; now apply IH.
Qed.

Lemma letter_model name l :
  ps_letter name = Some l -> pseudo_show (pseudo_from name) = l.
Proof.
  unfold ps_letter, pseudo_from.
  destruct (bytes_eqb name (bs ":method")) eqn:E1.
  { intros H; inversion H; reflexivity. }
  destruct (bytes_eqb name (bs ":authority")) eqn:E2.
  { apply bytes_eqb_eq in E2. subst name. intros H; inversion H; reflexivity. }
  destruct (bytes_eqb name (bs ":scheme")) eqn:E3.
  { apply bytes_eqb_eq in E3. subst name. intros H; inversion H; reflexivity. }
  destruct (bytes_eqb name (bs ":path")) eqn:E4.
  { intros H; inversion H; reflexivity. }
  discriminate.
Qed.

Definition ps_wf_list (l : list header) : bool :=
  forallb (fun h => match ps_letter (fst h) with Some _ => true | None => false end) l.

Lemma letters_model l :
  ps_wf_list l = true ->
  map pseudo_show (map (fun h => pseudo_from (fst h)) l)
  = map (fun h => match ps_letter (fst h) with Some x => x | None => bs "?" end) l.
Proof.
  induction l as [|h r IH]; [reflexivity|].
  cbn [ps_wf_list forallb map]. intros H. apply andb_true_iff in H. destruct H as [Hh Hr].
  destruct (ps_letter (fst h)) as [x|] eqn:E; [|discriminate].
  rewrite (letter_model _ _ E). f_equal. now apply IH.
Qed.

Lemma ps_model_spec frames :
  block_complete frames = true ->
  ps_wf_list (filter is_pseudo (first_block_headers frames)) = true ->
  exists ps, extract_pseudo_header_order frames = Val ps /\
             join (bs ",") (map pseudo_show ps) = PS_part frames.
Proof.
  unfold block_complete, extract_pseudo_header_order, PS_part, first_block_headers, first_block.
  rewrite find_first_headers.
  destruct (first_headers frames) as [[f r]|].
  2:{ intros _ _. exists []. split; reflexivity. }
  rewrite headers_fragment_spec.
  destruct (headers_block_fragment f) as [frag|].
  2:{ intros _ _. exists []. split; reflexivity. }
  change FLAG_END_HEADERS with (2 ^ END_HEADERS_bit). rewrite has_flag_testbit. unfold flag.
  intros K2 Hwf.
  assert (Hblock : exists block,
            (if N.testbit (f_flags f) END_HEADERS_bit then frag else collect_continuations (f_stream f) r frag) = block /\
            (if N.testbit (f_flags f) END_HEADERS_bit then Some frag
             else option_map (fun t => frag ++ t) (continuation (f_stream f) r)) = Some block).
  { destruct (N.testbit (f_flags f) END_HEADERS_bit); [eauto|].
    destruct (continuation (f_stream f) r) as [t|] eqn:Ec; [|discriminate].
    exists (frag ++ t). split; [now apply collect_spec|reflexivity]. }
  destruct Hblock as (block & -> & Hs). unfold flag in *. rewrite Hs in *.
  unfold pseudo_order_of_payload.
  pose proof (hpack_decode_no_panic block) as Hnp.
  destruct (hpack_decode dt_new block) as [hs t| | |].
  - eexists. split; [reflexivity|].
    rewrite (filter_filter_pseudo hs Hwf).
    now rewrite letters_model.
  - exists []. split; reflexivity.
  - congruence.
  - exists []. split; reflexivity.
Qed.

(* ================= the fingerprint ================= *)
Lemma wf_frames_split frames :
  wf_frames frames = true ->
  wu_wf frames = true /\ prio_wf frames = true /\
  ps_wf_list (filter is_pseudo (first_block_headers frames)) = true /\ block_complete frames = true.
Proof.
  unfold wf_frames. intros H. apply andb_true_iff in H. destruct H as [H H4].
  apply andb_true_iff in H. destruct H as [H H3].
  apply andb_true_iff in H. destruct H as [H1 H2]. auto.
Qed.

Theorem akamai_model_spec frames :
  wf_frames frames = true -> known frames = false ->
  extract_akamai_fingerprint frames = Val (fp frames).
Proof.
  intros Hwf Hk. apply wf_frames_split in Hwf. destruct Hwf as (Hwu & Hpr & Hps & K2).
  unfold known in Hk. rename Hk into K1.
  destruct (ps_model_spec frames K2 Hps) as (ps & Eps & Hjoin).
  unfold extract_akamai_fingerprint, fp. rewrite Eps.
  unfold extract_settings_parameters, first_settings, k_empty_settings in *.
  change is_settings0 with settings_frame.
  destruct (find settings_frame frames) as [f|]; cbn [option_map]; [|reflexivity].
  destruct (parse_settings_payload (f_payload f)) as [|s ss] eqn:Es.
  - apply parse_settings_nil_iff in Es. apply Nat.ltb_lt in Es. congruence.
  - rewrite <- Es. do 2 f_equal. unfold fingerprint_string.
    rewrite S_part_model, settings_model_spec, (wu_model_spec frames Hwu), Hjoin.
    rewrite (P_part_model frames Hpr). reflexivity.
Qed.

Corollary akamai_bytes_model_spec pre frs :
  forallb wire_ok frs = true ->
  wf_frames (map snd frs) = true -> known (map snd frs) = false ->
  extract_akamai_fingerprint_from_bytes (stream_start pre frs) = Val (fp (map snd frs)).
Proof.
  intros Hok Hwf Hk. unfold extract_akamai_fingerprint_from_bytes, parse_frames_skip_preface, stream_start.
  replace (parse_frames (skip_preface ((if pre then preface else []) ++ wire frs))) with (map snd frs).
  - now apply akamai_model_spec.
  - destruct pre.
    + rewrite skip_preface_app. symmetry. now apply parse_frames_wire.
    + cbn [app]. rewrite skip_preface_not_P.
      * symmetry. now apply parse_frames_wire.
      * pose proof (wire_first_byte frs (length (wire frs)) Hok) as H. now rewrite firstn_all in H.
Qed.

Lemma extract_no_panic frames : extract_akamai_fingerprint frames <> Panicked.
Proof.
  unfold extract_akamai_fingerprint, extract_pseudo_header_order.
  destruct (find_headers_pos frames) as [[f r]|].
  - destruct (headers_fragment f) as [frag|]; [|destruct (extract_settings_parameters frames); discriminate].
    unfold pseudo_order_of_payload.
    match goal with |- context [hpack_decode dt_new ?b] => pose proof (hpack_decode_no_panic b) as H; destruct (hpack_decode dt_new b) end;
      try congruence; destruct (extract_settings_parameters frames); discriminate.
  - destruct (extract_settings_parameters frames); discriminate.
Qed.

(* ================= incremental extractor ================= *)
Lemma starts_with_strip p l : starts_with p l = true -> strip_prefix p l = Some (skipn (length p) l).
Proof.
  revert l. induction p as [|x p IH]; intros l H; [reflexivity|].
  destruct l as [|y l]; [discriminate|]. cbn [starts_with] in H. apply andb_true_iff in H.
  destruct H as [H1 H2]. cbn [strip_prefix length skipn]. rewrite H1. now apply IH.
Qed.
Lemma starts_with_strip_none p l : starts_with p l = false -> strip_prefix p l = None.
Proof.
  revert l. induction p as [|x p IH]; intros l H; [discriminate|].
  destruct l as [|y l]; [reflexivity|]. cbn [starts_with] in H. cbn [strip_prefix].
  destruct (beqb x y); [cbn [andb] in H; now apply IH|reflexivity].
Qed.

Lemma starts_with_length p : forall l, starts_with p l = true -> (length p <= length l)%nat.
Proof.
  induction p as [|x p IH]; intros l H; [cbn; lia|].
  destruct l as [|y l]; [discriminate|]. cbn [starts_with] in H. apply andb_true_iff in H.
  destruct H as [_ H]. apply IH in H. cbn [length]. lia.
Qed.

Lemma run_done st chunks : e_fp st <> None -> run_chunks st chunks = map (fun _ => RNone) chunks.
Proof.
  revert st. induction chunks as [|c r IH]; intros st H; [reflexivity|].
  cbn [run_chunks map]. unfold add_bytes. destruct (e_fp st) eqn:E; [|congruence].
  f_equal. apply IH. congruence.
Qed.

Lemma extract_nil : extract_akamai_fingerprint [] = Val None.
Proof. reflexivity. Qed.

(* one call of add_bytes on an extractor that has not reported yet = one-shot extraction on the
   whole buffer *)
Lemma add_bytes_fresh buf c :
  let st := {| e_buffer := buf; e_parsed_offset := 0; e_fp := None |} in
  let buffer := buf ++ c in
  match extract_akamai_fingerprint_from_bytes buffer with
  | Val (Some t) => exists off, add_bytes st c = ({| e_buffer := buffer; e_parsed_offset := off; e_fp := Some t |}, RSome t)
  | Val None => add_bytes st c = ({| e_buffer := buffer; e_parsed_offset := 0; e_fp := None |}, RNone)
  | Panicked => add_bytes st c = ({| e_buffer := buffer; e_parsed_offset := 0; e_fp := None |}, RPanic)
  end.
Proof.
  intros st buffer. unfold add_bytes, st. cbn [e_fp e_buffer e_parsed_offset].
  change (0 =? 0) with true. cbn [andb]. fold buffer.
  unfold extract_akamai_fingerprint_from_bytes, parse_frames_skip_preface.
  set (start := if starts_with preface buffer then blen preface else 0).
  assert (Hfd : skipn (N.to_nat start) buffer = skip_preface buffer /\ (blen buffer <? start) = false).
  { unfold start, skip_preface. destruct (starts_with preface buffer) eqn:Esw.
    - rewrite (starts_with_strip _ _ Esw). apply starts_with_length in Esw.
      split; [reflexivity|]. unfold blen. lia.
    - rewrite (starts_with_strip_none _ _ Esw). split; [reflexivity|]. lia. }
  destruct Hfd as [Hfd Hlt]. rewrite Hlt, Hfd.
  set (fd := skip_preface buffer).
  destruct (9 <=? blen fd) eqn:E9.
  - unfold parse_frames_with_offset.
    destruct (parse_frames fd) as [|f fs] eqn:Ef.
    + rewrite extract_nil. reflexivity.
    + destruct (extract_akamai_fingerprint (f :: fs)) as [[t|]|]; [eexists|..]; reflexivity.
  - rewrite parse_frames_short by (unfold blen in E9; lia). rewrite extract_nil. reflexivity.
Qed.

Lemma oneshot_prefixes_length chunks : forall buf, length (oneshot_prefixes buf chunks) = length chunks.
Proof. induction chunks as [|c r IH]; intros buf; [reflexivity|]. cbn [oneshot_prefixes length]. now rewrite IH. Qed.

Lemma map_const_length {A B C} (x : C) (l1 : list A) (l2 : list B) :
  length l1 = length l2 -> map (fun _ => x) l1 = map (fun _ => x) l2.
Proof.
  revert l2. induction l1 as [|a l1 IH]; intros [|b l2] H; try discriminate; [reflexivity|].
  cbn [map]. f_equal. apply IH. now inversion H.
Qed.

Lemma run_chunks_prefixes chunks : forall buf,
  run_chunks {| e_buffer := buf; e_parsed_offset := 0; e_fp := None |} chunks
  = report_first (oneshot_prefixes buf chunks).
Proof.
  induction chunks as [|c r IH]; intros buf; [reflexivity|].
  cbn [run_chunks oneshot_prefixes]. pose proof (add_bytes_fresh buf c) as H. cbv zeta in H.
  destruct (extract_akamai_fingerprint_from_bytes (buf ++ c)) as [[t|]|].
  - destruct H as [off ->]. cbn [report_first]. f_equal.
    rewrite run_done by (cbn; discriminate). apply map_const_length. now rewrite oneshot_prefixes_length.
  - rewrite H. cbn [report_first]. f_equal. apply IH.
  - rewrite H. cbn [report_first]. f_equal. apply IH.
Qed.

(* chunk-independence of the extractor, for every byte string and every chunking *)
Theorem inc_is_first_oneshot chunks :
  inc_outs chunks = report_first (oneshot_prefixes [] chunks).
Proof. apply run_chunks_prefixes. Qed.

(* ================= incremental extractor vs. incremental specification ================= *)
Lemma starts_with_app_l (a b l : bytes) : starts_with (a ++ b) l = true -> starts_with a l = true.
Proof.
  revert l. induction a as [|x a IH]; intros l H; [reflexivity|].
  destruct l as [|y l]; [discriminate|]. cbn [app starts_with] in *. apply andb_true_iff in H.
  destruct H as [H1 H2]. rewrite H1. cbn [andb]. now apply IH.
Qed.
Lemma starts_with_firstn (a l : bytes) : starts_with a l = true -> a = firstn (length a) l.
Proof.
  revert l. induction a as [|x a IH]; intros l H; [reflexivity|].
  destruct l as [|y l]; [discriminate|]. cbn [starts_with] in H. apply andb_true_iff in H.
  destruct H as [H1 H2]. apply beqb_eq in H1. subst y. cbn [length firstn]. f_equal. now apply IH.
Qed.

Lemma visible_is_prefix frs : forall n, exists k, visible frs n = firstn k (map snd frs).
Proof.
  induction frs as [|rf frs IH]; intros n; [exists 0%nat; reflexivity|].
  cbn [visible]. destruct (9 + blen (f_payload (snd rf)) <=? n).
  - destruct (IH (n - (9 + blen (f_payload (snd rf))))) as [k Hk]. exists (S k). cbn [map firstn]. now rewrite Hk.
  - exists 0%nat. reflexivity.
Qed.
Lemma visible_at_is_prefix pre frs n : exists k, visible_at pre frs n = firstn k (map snd frs).
Proof.
  unfold visible_at. destruct pre; [destruct (n <? 24); [exists 0%nat; reflexivity|]|]; apply visible_is_prefix.
Qed.


Lemma inc_spec_done pre frs chunks : forall received,
  inc_spec_from pre frs received true chunks = map (fun _ => None) chunks.
Proof. induction chunks as [|c r IH]; intros received; [reflexivity|]. cbn [inc_spec_from map]. now rewrite IH. Qed.

Section Incremental.
  Variables (pre : bool) (frs : list (bool * frame)).
  Hypothesis Hok : forallb wire_ok frs = true.

  Lemma oneshot_on_prefix (data : bytes) :
    starts_with data (stream_start pre frs) = true ->
    wf_frames (visible_at pre frs (blen data)) = true -> known (visible_at pre frs (blen data)) = false ->
    extract_akamai_fingerprint_from_bytes data = Val (fp (visible_at pre frs (blen data))).
  Proof.
    intros Hpre Hwf Hk. apply starts_with_firstn in Hpre.
    unfold extract_akamai_fingerprint_from_bytes. rewrite Hpre at 1.
    replace (length data) with (N.to_nat (blen data)) by (unfold blen; lia).
    rewrite parse_skip_preface_prefix by exact Hok.
    now apply akamai_model_spec.
  Qed.

  (* only the frame lists seen at the chunk boundaries up to the report have to be in the domain *)
  Lemma prefixes_spec chunks : forall buf,
    starts_with (buf ++ concat chunks) (stream_start pre frs) = true ->
    Forall (fun vis => wf_frames vis = true /\ known vis = false) (boundaries pre frs (blen buf) chunks) ->
    report_first (oneshot_prefixes buf chunks) = map to_add (inc_spec_from pre frs (blen buf) false chunks).
  Proof.
    induction chunks as [|c r IH]; intros buf Hpre Hdom; [reflexivity|].
    cbn [oneshot_prefixes inc_spec_from concat boundaries] in *. rewrite app_assoc in Hpre.
    rewrite <- blen_app in *.
    assert (Hhead : wf_frames (visible_at pre frs (blen (buf ++ c))) = true /\ known (visible_at pre frs (blen (buf ++ c))) = false).
    { destruct (fp (visible_at pre frs (blen (buf ++ c)))); inversion Hdom; subst; assumption. }
    destruct Hhead as [Hwf Hk].
    rewrite (oneshot_on_prefix (buf ++ c)) by (try assumption; eapply starts_with_app_l; exact Hpre).
    destruct (fp (visible_at pre frs (blen (buf ++ c)))) as [t|].
    - cbn [report_first map to_add]. f_equal. rewrite inc_spec_done, map_map.
      apply map_const_length. apply oneshot_prefixes_length.
    - cbn [report_first map to_add]. f_equal. apply IH; [exact Hpre|]. now inversion Hdom.
  Qed.

  Theorem inc_model_spec chunks :
    starts_with (concat chunks) (stream_start pre frs) = true ->
    Forall (fun vis => wf_frames vis = true /\ known vis = false) (boundaries pre frs 0 chunks) ->
    inc_outs chunks = map to_add (inc_spec pre frs chunks).
  Proof.
    intros Hpre Hdom. rewrite inc_is_first_oneshot. unfold inc_spec.
    change 0 with (blen []) in *. now apply prefixes_spec.
  Qed.
End Incremental.

(* ================= refutation witnesses for the known classes ================= *)
Definition hx (s : bs_lit) : bytes := match read_hex (bs s) with Some b => b | None => [] end.
Arguments hx _%bs.
Definition mkf (ty fl st : N) (p : bytes) : frame := {| f_type := ty; f_flags := fl; f_stream := st; f_payload := p |}.

(* K1: empty first SETTINGS frame, then WINDOW_UPDATE: the format gives "|15663105|0|", the code nothing *)
Definition w_empty_settings : list frame := [mkf 4 0 0 []; mkf 8 0 0 (hx "00ef0001")].
(* HEADERS without END_HEADERS carrying 82 (:method GET), its CONTINUATION not (yet) there: no complete
   first header block, outside wf_frames; the code reports m *)
Definition w_incomplete : list frame :=
  [mkf 4 0 0 (hx "000300000064"); mkf 1 0 1 (hx "82")].
(* formerly deviating inputs (fixed by 89b3393), now inside the theorem's domain:
   Chrome-style HEADERS with the PRIORITY flag, PADDED HEADERS, HEADERS + CONTINUATION *)
Definition w_headers_priority : list frame :=
  [mkf 4 0 0 (hx "000300000064"); mkf 1 37 1 (hx "80000000ff" ++ hx "82418a089d5c0b8170dc780f038784")].
Definition w_headers_padded : list frame :=
  [mkf 4 0 0 (hx "000300000064"); mkf 1 12 1 (hx "02" ++ hx "82418a089d5c0b8170dc780f038784" ++ hx "0000")].
Definition w_continued : list frame :=
  [mkf 4 0 0 (hx "000300000064"); mkf 1 0 1 (hx "82"); mkf 9 4 1 (hx "418a089d5c0b8170dc780f038784")].
(* former K2: :path with a value that is not UTF-8 (literal, 2f ff) between :method and :scheme *)
Definition w_nonutf8 : list frame :=
  [mkf 4 0 0 (hx "000300000064"); mkf 1 4 1 (hx "8204022fff87")].

Lemma Known_empty_settings_refuted :
  exists frames, wf_frames frames = true /\ k_empty_settings frames = true /\
                 extract_akamai_fingerprint frames <> Val (fp frames).
Proof. exists w_empty_settings. vm_compute. repeat split; discriminate. Qed.
(* remark (not a defect: outside the format's domain): on an incomplete first block the code decodes
   the fragments collected so far and reports their pseudo-headers *)
Lemma incomplete_block_reports_partial_order :
  block_complete w_incomplete = false /\ wf_frames w_incomplete = false /\
  extract_akamai_fingerprint w_incomplete = Val (Some (bs "3:100|00|0|m")).
Proof. vm_compute. repeat split; reflexivity. Qed.
(* the three former witnesses are in the domain and agree now *)
Lemma former_witnesses_agree :
  Forall (fun frames => wf_frames frames = true /\ known frames = false /\
                        extract_akamai_fingerprint frames = Val (Some (bs "3:100|00|0|m,a,s,p")))
         [w_headers_priority; w_headers_padded; w_continued].
Proof. repeat constructor; vm_compute; reflexivity. Qed.
(* the former witness of the non-UTF-8 class (value /\xff of :path) is in the domain and agrees now *)
Lemma nonutf8_former_witness_agrees :
  wf_frames w_nonutf8 = true /\ known w_nonutf8 = false /\
  extract_akamai_fingerprint w_nonutf8 = Val (fp w_nonutf8) /\ fp w_nonutf8 = Some (bs "3:100|00|0|m,p,s").
Proof. vm_compute. repeat split; reflexivity. Qed.

(* the hypotheses of the two property theorems are satisfiable on a non-trivial input:
   SETTINGS, WINDOW_UPDATE (reserved bit set), two PRIORITY frames, HEADERS m,a,s,p *)
Definition ex_frames : list (bool * frame) :=
  [(false, mkf 4 0 0 (hx "000100010000000300000064000400600000"));
   (true, mkf 8 0 0 (hx "80ef0001"));
   (false, mkf 2 0 3 (hx "80000000c8")); (false, mkf 2 0 5 (hx "0000000364"));
   (false, mkf 1 41 1 (hx "02" ++ hx "80000000ff" ++ hx "82418a089d5c" ++ hx "0000"));
   (false, mkf 9 4 1 (hx "0b8170dc780f038784"))].
