(* Proofs for C04, part 1: the tls-parser model decodes what Ja4Spec.encode_hello encodes
   (round trip by induction over the cipher, name and extension lists). *)
From Coq Require Import List NArith ZArith Bool Lia ZifyBool ZifyN ZifyNat Arith.
From Coq Require Import Strings.Byte.
From HN Require Import Base.Bytes Model.TlsHello Model.Ja4 Spec.Ja4Spec.
Import ListNotations.
Open Scope N_scope.

Ltac Zify.zify_post_hook ::= Z.to_euclidean_division_equations.

Ltac llia := unfold len, lenN in *; lia.
Ltac fold_len := change (@len byte) with (@lenN byte) in *; change (@len N) with (@lenN N) in *.

Lemma len_lenN {A} (l : list A) : len l = lenN l.
Proof. reflexivity. Qed.
Lemma lenN_app {A} (a b : list A) : lenN (a ++ b) = lenN a + lenN b.
Proof. unfold lenN. rewrite app_length. lia. Qed.
Lemma lenN_cons {A} (x : A) l : lenN (x :: l) = 1 + lenN l.
Proof. unfold lenN. cbn [length]. lia. Qed.
Lemma lenN_nil {A} : lenN (@nil A) = 0.
Proof. reflexivity. Qed.
Lemma lenN_length {A} (l : list A) : N.to_nat (lenN l) = length l.
Proof. unfold lenN. apply Nat2N.id. Qed.

(* ---------- integers ---------- *)
Lemma enc16_eq n : enc16 n = [n2b ((n / 256) mod 256); n2b (n mod 256)].
Proof.
  unfold enc16. cbn [be_bytes]. change (N.of_nat 1) with 1. change (N.of_nat 0) with 0.
  rewrite N.pow_1_r, N.pow_0_r, N.div_1_r. reflexivity.
Qed.
Lemma enc24_eq n : enc24 n = [n2b ((n / 65536) mod 256); n2b ((n / 256) mod 256); n2b (n mod 256)].
Proof.
  unfold enc24. cbn [be_bytes]. change (N.of_nat 2) with 2. change (N.of_nat 1) with 1. change (N.of_nat 0) with 0.
  rewrite N.pow_1_r, N.pow_0_r, N.div_1_r. change (256 ^ 2) with 65536. reflexivity.
Qed.
Lemma lenN_enc16 n : lenN (enc16 n) = 2.
Proof. rewrite enc16_eq. reflexivity. Qed.

Lemma u8_enc n k : n < 256 -> u8 (enc8 n ++ k) = Some (n, k).
Proof. intros H. unfold enc8. cbn [app u8]. now rewrite b2n_n2b. Qed.
Lemma u16_enc n k : n < 65536 -> u16 (enc16 n ++ k) = Some (n, k).
Proof.
  intros H. rewrite enc16_eq. cbn [app u16]. rewrite !b2n_n2b by lia. do 2 f_equal. lia.
Qed.
Lemma u24_enc n k : n < 16777216 -> u24 (enc24 n ++ k) = Some (n, k).
Proof.
  intros H. rewrite enc24_eq. cbn [app u24]. rewrite !b2n_n2b by lia. do 2 f_equal. lia.
Qed.

Lemma split_at_app a k : split_at (lenN a) (a ++ k) = Some (a, k).
Proof.
  unfold split_at. rewrite lenN_app. destruct (lenN a + lenN k <? lenN a) eqn:E; [lia|].
  rewrite lenN_length. rewrite firstn_app, firstn_all, Nat.sub_diag. cbn [firstn]. rewrite app_nil_r.
  rewrite skipn_app, skipn_all, Nat.sub_diag. reflexivity.
Qed.
Lemma split_at_all a : split_at (lenN a) a = Some (a, []).
Proof. rewrite <- (app_nil_r a) at 2. apply split_at_app. Qed.

Lemma ld8_enc a k : lenN a < 256 -> ld8 (enc8 (len a) ++ a ++ k) = Some (a, k).
Proof. intros H. unfold ld8. rewrite u8_enc by exact H. apply split_at_app. Qed.
Lemma ld16_enc a k : lenN a < 65536 -> ld16 (enc16 (len a) ++ a ++ k) = Some (a, k).
Proof. intros H. unfold ld16. rewrite u16_enc by exact H. apply split_at_app. Qed.
Lemma ld24_enc a k : lenN a < 16777216 -> ld24 (enc24 (len a) ++ a ++ k) = Some (a, k).
Proof. intros H. unfold ld24. rewrite u24_enc by exact H. apply split_at_app. Qed.

(* ---------- lists of 16-bit values ---------- *)
Lemma forallb_u16 l : forallb u16_ok l = true -> Forall (fun v => v < 65536) l.
Proof. intros H. apply Forall_forall. intros x Hx. rewrite forallb_forall in H. specialize (H x Hx). unfold u16_ok in H. lia. Qed.

Lemma enc16s_cons x l : enc16s (x :: l) = enc16 x ++ enc16s l.
Proof. reflexivity. Qed.
Lemma lenN_enc16s l : lenN (enc16s l) = 2 * lenN l.
Proof.
  induction l as [|x l IH]; [reflexivity|]. rewrite enc16s_cons, lenN_app, lenN_enc16, IH, lenN_cons. lia.
Qed.
Lemma u16s_enc l : Forall (fun v => v < 65536) l -> u16s (enc16s l) = l.
Proof.
  induction 1 as [|x l Hx Hl IH]; [reflexivity|].
  rewrite enc16s_cons, enc16_eq. cbn [app u16s]. rewrite !b2n_n2b by lia. rewrite IH. f_equal. lia.
Qed.

Lemma parse_u16_vec_enc l k :
  Forall (fun v => v < 65536) l -> parse_u16_vec (enc16s l ++ k) (2 * lenN l) = Some (l, k).
Proof.
  intros H. unfold parse_u16_vec. destruct (2 * lenN l =? 0) eqn:E.
  - assert (l = []) by (destruct l; [reflexivity | rewrite lenN_cons in E; lia]). subst. reflexivity.
  - replace (N.odd (2 * lenN l)) with false by (symmetry; rewrite N.odd_mul; reflexivity).
    rewrite lenN_app, lenN_enc16s. cbn [orb].
    destruct (2 * lenN l + lenN k <? 2 * lenN l) eqn:E2; [lia|].
    rewrite <- lenN_enc16s, split_at_app. now rewrite u16s_enc.
Qed.
Lemma parse_u8_vec_enc a k : parse_u8_vec (a ++ k) (lenN a) = Some (a, k).
Proof.
  unfold parse_u8_vec. destruct (lenN a =? 0) eqn:E.
  - assert (a = []) by (destruct a; [reflexivity | rewrite lenN_cons in E; lia]). subst. reflexivity.
  - apply split_at_app.
Qed.

(* ---------- extension bodies ---------- *)
Definition item_of (b : ext_body) : ext_item :=
  match b with
  | BSni n => ExtSni n | BAlpn p => ExtAlpn p | BVersions v => ExtVersions v
  | BSigAlgs l => ExtSigAlgs l | BGroups l => ExtGroups l | BPointFormats f => ExtPointFormats f
  | BRaw _ => ExtOther
  end.

Definition sni_name_ok (n : N * bytes) : bool := (fst n <? 256) && u16_ok (len (snd n)).

Lemma sni_names_enc names : forall fuel,
  forallb sni_name_ok names = true -> (length names <= fuel)%nat ->
  sni_names fuel (concat (map encode_sni_name names)) = names.
Proof.
  induction names as [|[t v] names IH]; intros fuel W L.
  - destruct fuel; reflexivity.
  - destruct fuel as [|f]; [cbn [length] in L; lia|].
    cbn [forallb] in W. apply andb_prop in W as [W1 W2]. unfold sni_name_ok, u16_ok in W1. cbn [fst snd] in W1.
    cbn [map concat sni_names]. unfold encode_sni_name at 1. cbn [fst snd]. rewrite <- !app_assoc.
    rewrite u8_enc by lia. rewrite ld16_enc by llia.
    rewrite IH; [reflexivity | exact W2 | cbn [length] in L; lia].
Qed.
Lemma alpn_names_enc ps : forall fuel,
  forallb (fun p => len p <? 256) ps = true -> (length ps <= fuel)%nat ->
  alpn_names fuel (concat (map encode_proto ps)) = ps.
Proof.
  induction ps as [|p ps IH]; intros fuel W L.
  - destruct fuel; reflexivity.
  - destruct fuel as [|f]; [cbn [length] in L; lia|].
    cbn [forallb] in W. apply andb_prop in W as [W1 W2].
    cbn [map concat alpn_names]. unfold encode_proto at 1. rewrite <- !app_assoc.
    rewrite ld8_enc by llia.
    rewrite IH; [reflexivity | exact W2 | cbn [length] in L; lia].
Qed.

Lemma length_concat_ge {A B} (f : A -> list B) (l : list A) :
  (forall x, (1 <= length (f x))%nat) -> (length l <= length (concat (map f l)))%nat.
Proof.
  intros H. induction l as [|x l IH]; [cbn; lia|]. cbn [map concat length]. rewrite app_length. specialize (H x). lia.
Qed.

(* evaluate equality tests between numerals *)
Ltac ceval :=
  repeat match goal with
  | |- context [N.eqb (Npos ?a) (Npos ?b)] =>
      let v := eval vm_compute in (N.eqb (Npos a) (Npos b)) in change (N.eqb (Npos a) (Npos b)) with v
  | |- context [N.eqb N0 N0] => change (N.eqb N0 N0) with true
  | H : context [N.eqb N0 N0] |- _ => change (N.eqb N0 N0) with true in H
  | |- context [N.eqb N0 (Npos ?b)] => change (N.eqb N0 (Npos b)) with false
  | |- context [N.eqb (Npos ?b) N0] => change (N.eqb (Npos b) N0) with false
  | H : context [N.eqb (Npos ?a) (Npos ?b)] |- _ =>
      let v := eval vm_compute in (N.eqb (Npos a) (Npos b)) in change (N.eqb (Npos a) (Npos b)) with v in H
  | H : context [N.eqb N0 (Npos ?b)] |- _ => change (N.eqb N0 (Npos b)) with false in H
  | H : context [N.eqb (Npos ?b) N0] |- _ => change (N.eqb (Npos b) N0) with false in H
  end; cbn [orb andb negb] in *.

Definition structured (t : N) : bool := existsb (N.eqb t) [0; 16; 43; 13; 10; 11].

(* opaque extensions with an RFC-conformant body pass their tls-parser content parser *)
Ltac case_t t R fin :=
  match goal with
  | |- context [t =? ?k] =>
      let E := fresh "E" in
      destruct (t =? k) eqn:E;
      [ apply N.eqb_eq in E; subst t; ceval; fin | rewrite ?E in R; clear E ]
  end.
Ltac fin_raw R :=
  first
  [ reflexivity
  | discriminate R
  | match goal with |- (if ?c then _ else _) = _ => destruct c eqn:?; [reflexivity | lia] end
  | match goal with |- (if is_some (ld8 ?d) then _ else _) = _ =>
      destruct d as [|n rest]; [discriminate R|];
      unfold ld8, u8, split_at; rewrite len_lenN in R;
      destruct (lenN rest <? b2n n) eqn:?; [lia | reflexivity] end ].

Lemma ext_content_raw t d :
  structured t = false -> rfc_body_ok t d = true -> ext_content t d = Some ExtOther.
Proof.
  unfold structured. cbn [existsb]. intros S R.
  repeat (apply orb_false_elim in S as [? S]).
  unfold ext_content, rfc_body_ok in *. rewrite !len_lenN in R.
  repeat match goal with H : (t =? _) = false |- _ => rewrite H; clear H end.
  repeat (case_t t R ltac:(fin_raw R); cbn [orb andb] in * ).
  reflexivity.
Qed.

(* every well-formed extension body passes its content parser and comes back as it was *)
Lemma ext_content_ok e :
  ext_wf e = true -> ext_content (fst e) (encode_body (snd e)) = Some (item_of (snd e)).
Proof.
  destruct e as [t b]. unfold ext_wf. cbn [fst snd]. intros W.
  apply andb_prop in W as [W W3]. apply andb_prop in W as [W1 W2]. unfold u16_ok in W1, W2.
  destruct b as [names|ps|vs|l|l|f|body]; cbn [item_of].
  - (* SNI *)
    apply andb_prop in W3 as [W3 W5]. apply andb_prop in W3 as [W3 W4].
    apply N.eqb_eq in W3. subst t. unfold ext_content. ceval. cbn [encode_body] in *.
    set (lst := concat (map encode_sni_name names)) in *.
    assert (L : lenN lst < 65536) by (rewrite len_lenN, lenN_app, lenN_enc16 in W2; lia).
    remember (enc16 (len lst) ++ lst) as d eqn:Ed.
    destruct d as [|x y]; [exfalso; rewrite enc16_eq in Ed; discriminate|]. rewrite Ed.
    rewrite <- (app_nil_r lst) at 2. rewrite ld16_enc by exact L.
    f_equal. f_equal. apply sni_names_enc; [exact W4|].
    subst lst. apply length_concat_ge. intros [ty nm]. unfold encode_sni_name, enc8. cbn [app length]. lia.
  - (* ALPN *)
    apply andb_prop in W3 as [W3 W4]. apply N.eqb_eq in W3. subst t. unfold ext_content. ceval. cbn [encode_body] in *.
    set (lst := concat (map encode_proto ps)) in *.
    assert (L : lenN lst < 65536) by (rewrite len_lenN, lenN_app, lenN_enc16 in W2; lia).
    rewrite <- (app_nil_r lst) at 2. rewrite ld16_enc by exact L.
    f_equal. f_equal. apply alpn_names_enc; [exact W4|].
    subst lst. apply length_concat_ge. intros p. unfold encode_proto, enc8. cbn [app length]. lia.
  - (* supported_versions *)
    apply andb_prop in W3 as [W3 W6]. apply andb_prop in W3 as [W3 W5]. apply andb_prop in W3 as [W3 W4].
    apply N.eqb_eq in W3. subst t. unfold ext_content. ceval. cbn [encode_body] in *.
    unfold enc8. cbn [app]. rewrite lenN_cons, lenN_enc16s.
    destruct (1 + 2 * lenN vs =? 2) eqn:E; [lia|].
    replace (N.odd (2 * lenN vs)) with false by (symmetry; rewrite N.odd_mul; reflexivity).
    rewrite u16s_enc by now apply forallb_u16. reflexivity.
  - (* signature_algorithms *)
    apply andb_prop in W3 as [W3 W4]. apply N.eqb_eq in W3. subst t. unfold ext_content. ceval. cbn [encode_body] in *.
    rewrite len_lenN, lenN_app, lenN_enc16, lenN_enc16s in W2.
    replace (enc16 (2 * len l) ++ enc16s l) with (enc16 (len (enc16s l)) ++ enc16s l ++ [])
      by (rewrite app_nil_r, !len_lenN, lenN_enc16s; reflexivity).
    rewrite ld16_enc by (rewrite lenN_enc16s; lia).
    rewrite u16s_enc by now apply forallb_u16. reflexivity.
  - (* supported_groups *)
    apply andb_prop in W3 as [W3 W4]. apply N.eqb_eq in W3. subst t. unfold ext_content. ceval. cbn [encode_body] in *.
    rewrite len_lenN, lenN_app, lenN_enc16, lenN_enc16s in W2.
    replace (enc16 (2 * len l) ++ enc16s l) with (enc16 (len (enc16s l)) ++ enc16s l ++ [])
      by (rewrite app_nil_r, !len_lenN, lenN_enc16s; reflexivity).
    rewrite ld16_enc by (rewrite lenN_enc16s; lia).
    rewrite lenN_enc16s. replace (N.odd (2 * lenN l)) with false by (symmetry; rewrite N.odd_mul; reflexivity).
    rewrite u16s_enc by now apply forallb_u16. reflexivity.
  - (* ec_point_formats *)
    apply andb_prop in W3 as [W3 W4]. apply N.eqb_eq in W3. subst t. unfold ext_content. ceval. cbn [encode_body] in *.
    replace (enc8 (len f) ++ f) with (enc8 (len f) ++ f ++ []) by now rewrite app_nil_r.
    rewrite ld8_enc by llia. reflexivity.
  - (* opaque *)
    apply andb_prop in W3 as [W3 W4]. apply negb_true_iff in W3. cbn [encode_body].
    now apply ext_content_raw.
Qed.

(* ---------- the extension list ---------- *)
(* what the extraction loop sees of one extension: the wire type; no content for GREASE-looking types *)
Definition view (e : N * ext_body) : N * ext_item :=
  if grease_mask (fst e) then (fst e, ExtOther) else (fst e, item_of (snd e)).

Lemma encode_exts_cons e l : encode_exts (e :: l) = encode_ext e ++ encode_exts l.
Proof. reflexivity. Qed.

Lemma parse_extensions_enc exts : forall fuel,
  forallb ext_wf exts = true -> (length (encode_exts exts) <= fuel)%nat ->
  parse_extensions fuel (encode_exts exts) = map view exts.
Proof.
  induction exts as [|e exts IH]; intros fuel W L.
  - destruct fuel; reflexivity.
  - cbn [forallb] in W. apply andb_prop in W as [We W].
    rewrite encode_exts_cons in *. unfold encode_ext in *.
    assert (We' := We). unfold ext_wf in We'. apply andb_prop in We' as [We' _]. apply andb_prop in We' as [T B].
    unfold u16_ok in T, B.
    destruct fuel as [|f].
    { rewrite !app_length in L. rewrite enc16_eq in L. cbn [length] in L. lia. }
    cbn [parse_extensions]. rewrite <- !app_assoc. rewrite u16_enc by lia.
    rewrite ld16_enc by llia.
    cbn [map]. unfold view at 1.
    assert (Lf : (length (encode_exts exts) <= f)%nat).
    { rewrite !app_length in L. rewrite !enc16_eq in L. cbn [length] in L. lia. }
    destruct (grease_mask (fst e)).
    + now rewrite IH.
    + rewrite ext_content_ok by exact We. now rewrite IH.
Qed.

(* ---------- ClientHello, handshake message, record ---------- *)
Definition ch_of (h : hello) : client_hello :=
  {| ch_version := h_version h; ch_random := h_random h; ch_sid := h_sid h; ch_ciphers := h_ciphers h;
     ch_comp := h_comp h;
     ch_ext := match h_exts h, h_omit_ext_block h with
               | [], true => None
               | es, _ => Some (encode_exts es)
               end |}.

Record wf_parts (h : hello) : Prop := {
  wp_rec : h_rec_version h < 65536; wp_ver : h_version h < 65536; wp_rand : lenN (h_random h) = 32;
  wp_sid : lenN (h_sid h) <= 32; wp_ciph : Forall (fun v => v < 65536) (h_ciphers h);
  wp_clen : 2 * lenN (h_ciphers h) < 65536; wp_comp : lenN (h_comp h) < 256;
  wp_exts : forallb ext_wf (h_exts h) = true; wp_uniq : unique_structured h = true;
  wp_elen : lenN (encode_exts (h_exts h)) < 65536; wp_hlen : lenN (encode_handshake h) <= 16384 }.

Lemma wf_split h : wf h = true -> wf_parts h.
Proof.
  unfold wf, u16_ok. rewrite !len_lenN. intros W.
  repeat match type of W with (_ && _) = true => let W2 := fresh "W" in apply andb_prop in W as [W W2] end.
  constructor; try assumption; try (unfold lenN, len in *; lia). now apply forallb_u16.
Qed.

Lemma split_at_app' n a k : lenN a = n -> split_at n (a ++ k) = Some (a, k).
Proof. intros <-. apply split_at_app. Qed.

Lemma parse_client_hello_gen version random sid ciphers comp tailb :
  version < 65536 -> lenN random = 32 -> lenN sid <= 32 -> Forall (fun v => v < 65536) ciphers ->
  2 * lenN ciphers < 65536 -> lenN comp < 256 ->
  parse_client_hello (enc16 version ++ random ++ enc8 (lenN sid) ++ sid ++ enc16 (2 * lenN ciphers)
                      ++ enc16s ciphers ++ enc8 (lenN comp) ++ comp ++ tailb)
  = Some {| ch_version := version; ch_random := random; ch_sid := sid; ch_ciphers := ciphers; ch_comp := comp;
            ch_ext := match ld16 tailb with Some (e, _) => Some e | None => None end |}.
Proof.
  intros Hv Hrand Hsid Hc Hcl Hcomp. unfold parse_client_hello.
  rewrite u16_enc by exact Hv.
  rewrite (split_at_app' 32 random) by exact Hrand.
  rewrite u8_enc by lia.
  destruct (32 <? lenN sid) eqn:E32; [lia|].
  destruct (0 <? lenN sid) eqn:E0.
  - rewrite split_at_app. rewrite u16_enc by exact Hcl. rewrite parse_u16_vec_enc by exact Hc.
    rewrite u8_enc by exact Hcomp. rewrite parse_u8_vec_enc. reflexivity.
  - assert (sid = []) by (destruct sid; [reflexivity | rewrite lenN_cons in E0; lia]). subst sid. cbn [app].
    rewrite u16_enc by exact Hcl. rewrite parse_u16_vec_enc by exact Hc.
    rewrite u8_enc by exact Hcomp. rewrite parse_u8_vec_enc. reflexivity.
Qed.

Lemma parse_client_hello_enc h : wf h = true -> parse_client_hello (encode_ch_body h) = Some (ch_of h).
Proof.
  intros W. destruct (wf_split h W) as [Hr Hv Hrand Hsid Hc Hcl Hcomp He Hu Hel Hhl].
  unfold encode_ch_body. fold_len.
  rewrite parse_client_hello_gen by assumption.
  unfold ch_of. f_equal. f_equal.
  destruct (h_exts h) as [|e0 es] eqn:EX.
  - destruct (h_omit_ext_block h); [reflexivity|].
    cbv zeta. change (encode_exts []) with (@nil byte). cbn [app]. rewrite enc16_eq. reflexivity.
  - cbv zeta. rewrite <- EX in *.
    replace (enc16 (lenN (encode_exts (h_exts h))) ++ encode_exts (h_exts h))
      with (enc16 (len (encode_exts (h_exts h))) ++ encode_exts (h_exts h) ++ []) by now rewrite app_nil_r.
    rewrite ld16_enc by exact Hel. rewrite EX. destruct (h_omit_ext_block h); reflexivity.
Qed.

Lemma parse_plaintext_enc h :
  wf h = true -> parse_tls_plaintext_hello (encode_hello h) = PHello (ch_of h).
Proof.
  intros W. destruct (wf_split h W) as [Hr Hv Hrand Hsid Hc Hcl Hcomp He Hu Hel Hhl].
  unfold encode_hello. cbv zeta. unfold parse_tls_plaintext_hello.
  rewrite u8_enc by lia. rewrite u16_enc by exact Hr.
  replace (enc16 (len (encode_handshake h)) ++ encode_handshake h)
    with (enc16 (lenN (encode_handshake h)) ++ encode_handshake h ++ []) by now rewrite app_nil_r.
  rewrite u16_enc by lia.
  unfold MAX_RECORD_LEN. destruct (16640 <? lenN (encode_handshake h)) eqn:EM; [lia|].
  rewrite split_at_app. ceval.
  (* the handshake message *)
  unfold encode_handshake in *. cbv zeta in *.
  assert (LB : lenN (encode_ch_body h) < 16777216).
  { rewrite !lenN_app in Hhl. lia. }
  set (msg := enc8 1 ++ enc24 (len (encode_ch_body h)) ++ encode_ch_body h).
  assert (PM : parse_handshake_msg msg = Some (HsClientHello (ch_of h), [])).
  { subst msg. unfold parse_handshake_msg. rewrite u8_enc by lia.
    rewrite <- (app_nil_r (encode_ch_body h)) at 2. rewrite u24_enc by (fold_len; exact LB).
    fold_len. rewrite split_at_app. unfold hs_body. ceval. rewrite parse_client_hello_enc by exact W. reflexivity. }
  destruct (length msg) as [|f] eqn:EL.
  { subst msg. unfold enc8 in EL. cbn [app length] in EL. lia. }
  cbn [hs_walk]. rewrite PM. reflexivity.
Qed.

(* the signature the implementation extracts, in terms of the abstract hello *)
Definition sig_of (h : hello) : signature :=
  signature_of (h_version h) (h_ciphers h) (map view (h_exts h)).

Theorem parse_encode h : wf h = true -> parse_tls_client_hello (encode_hello h) = RSig (sig_of h).
Proof.
  intros W. destruct (wf_split h W) as [Hr Hv Hrand Hsid Hc Hcl Hcomp He Hu Hel Hhl].
  unfold parse_tls_client_hello.
  assert (SH : exists v1 v2 l1 l2, encode_hello h = x16 :: v1 :: v2 :: l1 :: l2 :: encode_handshake h
                /\ b2n l1 * 256 + b2n l2 = lenN (encode_handshake h)).
  { unfold encode_hello. cbv zeta. rewrite !enc16_eq. unfold enc8. cbn [app].
    do 4 eexists. split; [reflexivity|]. rewrite !b2n_n2b by llia. llia. }
  destruct SH as (v1 & v2 & l1 & l2 & EH & EL).
  assert (LD : lenN (encode_hello h) = lenN (encode_handshake h) + 5) by (rewrite EH, !lenN_cons; lia).
  destruct (lenN (encode_hello h) <? 5) eqn:E5; [lia|].
  assert (RL : u16 (skipn 3 (encode_hello h)) = Some (lenN (encode_handshake h), encode_handshake h)).
  { rewrite EH. cbn [skipn u16]. now rewrite EL. }
  rewrite RL. rewrite <- LD.
  destruct (lenN (encode_hello h) <=? lenN (encode_hello h)) eqn:EN; [|lia].
  rewrite lenN_length, firstn_all.
  rewrite parse_plaintext_enc by exact W.
  f_equal. unfold extract_signature, sig_of, ch_of. cbn [ch_version ch_ciphers ch_ext].
  destruct (h_exts h) as [|e0 es] eqn:EX.
  - destruct (h_omit_ext_block h); reflexivity.
  - rewrite <- EX in *. replace (match h_exts h with [] => if h_omit_ext_block h then None else Some (encode_exts (h_exts h)) | _ :: _ => Some (encode_exts (h_exts h)) end) with (Some (encode_exts (h_exts h))) by (rewrite EX; reflexivity).
    rewrite parse_extensions_enc; [reflexivity | exact He | lia].
Qed.
