(* Ties between the hand-written models and the constants / literal tables regenerated from /repo's
   sources on every run (coq/Gen/Consts.v, tools/gen/consts.py).  An edit of one of these values in the
   Rust source changes Gen/Consts.v and breaks the corresponding lemma here (a proof obligation of the
   property that uses the model), independently of what the case generators happen to sample. *)
From Coq Require Import List NArith ZArith Bool Lia.
From HN Require Import Base.Bytes Gen.Consts.
From HN Require Model.Uptime.
Import ListNotations.

(* ---- C19: uptime.rs ---- *)
Lemma uptime_constants_tie :
  Uptime.MIN_TWAIT = src_uptime_MIN_TWAIT /\ Uptime.MAX_TWAIT = src_uptime_MAX_TWAIT /\
  Uptime.MIN_TS_DIFF = src_uptime_MIN_TS_DIFF /\ Uptime.TSTAMP_GRACE = src_uptime_TSTAMP_GRACE /\
  (Uptime.MAX_FINAL_HZ * 1000 = src_uptime_MAX_FINAL_HZ_milli)%Z /\
  (Uptime.MIN_FINAL_HZ * 1000 = src_uptime_MIN_FINAL_HZ_milli)%Z /\
  (Uptime.GUESS_HZ_1K * 1000 = src_uptime_GUESS_HZ_1K_milli)%Z /\
  (Uptime.GUESS_HZ_100 * 1000 = src_uptime_GUESS_HZ_100_milli)%Z /\
  (* GUESS_TOLERANCE = 0.10 is inlined in the model as the factor 10 in `10 * |n - b| <= b` *)
  (10 * src_uptime_GUESS_TOLERANCE_milli = 1000)%Z.
Proof. repeat split; reflexivity. Qed.

