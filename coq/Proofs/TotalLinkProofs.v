(* C01 -- the link-layer step (parse_packet, detect_datalink_format) never panics. *)
From Coq Require Import List NArith Bool Lia ZifyBool ZifyN.
From Coq Require Import Strings.Byte.
From HN Require Import Base.Bytes Model.TotalBase Model.TotalLink Spec.TotalSpec Proofs.TotalBaseProofs.
Import ListNotations.
Open Scope N_scope.

Lemma try_ethernet_format_ok p : exists o, try_ethernet_format p = Ok o.
Proof.
  unfold try_ethernet_format. destruct (len p <? 14) eqn:E; [eauto|].
  ok_slice p 14 (len p). ok_idx p 12. ok_idx p 13.
  destruct (_ =? 2048); [eauto|]. destruct (_ =? 34525); eauto.
Qed.
Lemma try_raw_ip_format_ok p : exists o, try_raw_ip_format p = Ok o.
Proof.
  unfold try_raw_ip_format. destruct (len p <? 20) eqn:E; [eauto|]. ok_idx p 0.
  destruct (_ =? 4); [eauto|]. destruct (_ =? 6); eauto.
Qed.
Lemma null_sig_ok p : exists s, null_sig p = Ok s /\ (s = true -> 24 <= len p).
Proof.
  unfold null_sig. destruct (len p <? 24) eqn:E; [exists false; split; [reflexivity|discriminate]|].
  ok_idx p 0. destruct (negb (b2n b =? 30)); [exists false; split; [reflexivity|discriminate]|].
  ok_idx p 1. eexists; split; [reflexivity|intros; lia].
Qed.
Lemma try_null_datalink_format_ok p : exists o, try_null_datalink_format p = Ok o.
Proof.
  unfold try_null_datalink_format. destruct (null_sig_ok p) as (s & -> & Hs). cbn [bind].
  destruct s; cbn [negb]; [|eauto]. specialize (Hs eq_refl).
  ok_slice p 4 (len p). ok_idx s 0. destruct (_ =? 4); [eauto|]. destruct (_ =? 6); eauto.
Qed.
Lemma parse_packet_ok p : exists o, parse_packet p = Ok o.
Proof.
  unfold parse_packet. destruct (try_ethernet_format_ok p) as (a & ->). cbn [bind]. destruct a; [eauto|].
  destruct (try_raw_ip_format_ok p) as (b & ->). cbn [bind]. destruct b; [eauto|]. apply try_null_datalink_format_ok.
Qed.

Lemma detect_null_ok p : exists o, detect_null p = Ok o.
Proof.
  unfold detect_null. destruct (null_sig_ok p) as (s & -> & Hs). cbn [bind].
  destruct s; cbn [negb]; [|eauto]. specialize (Hs eq_refl). ok_slice p 4 (len p). ok_idx s 0. eauto.
Qed.
Lemma detect_raw_ok p : exists o, detect_raw p = Ok o.
Proof.
  unfold detect_raw. destruct (len p <? 20) eqn:E; [eauto|]. ok_idx p 0.
  destruct (_ =? 4); [cbn [bind]; eauto|]. destruct (_ =? 6); eauto.
Qed.
Lemma detect_eth_ok p : exists o, detect_eth p = Ok o.
Proof.
  unfold detect_eth. destruct (len p <? 14) eqn:E; [eauto|]. ok_idx p 12. ok_idx p 13.
  destruct (_ || _); [|eauto]. ok_slice p 14 (len p). destruct s as [|x s]; [eauto|].
  destruct (idx_ok (x :: s) 0) as (c & Ec); [rewrite len_cons; lia|]. rewrite Ec. cbn [bind]. eauto.
Qed.
Lemma detect_datalink_format_ok p : exists o, detect_datalink_format p = Ok o.
Proof.
  unfold detect_datalink_format. destruct (detect_null_ok p) as (n & ->). cbn [bind]. destruct n; [eauto|].
  destruct (detect_raw_ok p) as (r & ->). cbn [bind]. destruct r; [eauto|].
  destruct (detect_eth_ok p) as (e & ->). cbn [bind]. eauto.
Qed.

Lemma parse_packet_total p : total (parse_packet p).
Proof. destruct (parse_packet_ok p) as (o & ->). split; discriminate. Qed.
Lemma detect_datalink_format_total p : total (detect_datalink_format p).
Proof. destruct (detect_datalink_format_ok p) as (o & ->). split; discriminate. Qed.
