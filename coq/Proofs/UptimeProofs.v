(* Proofs for C19: MODEL (uptime.rs / tcp_process.rs transcription, exact arithmetic) against the
   SPEC of Spec/UptimeSpec.v, for all observation pairs and all histories. *)
From Coq Require Import List ZArith Bool Lia.
From HN Require Import Model.Uptime Spec.UptimeSpec.
Import ListNotations.
Open Scope Z_scope.

(* ------------------------------------------------------------------ arithmetic helpers *)

Lemma div_unique_pos' a b k : 0 < b -> k * b <= a < (k + 1) * b -> a / b = k.
Proof.
  intros Hb H. symmetry. apply (Z.div_unique_pos a b k (a - k * b)); lia.
Qed.

Lemma div_bounds a b : 0 < b -> (a / b) * b <= a < (a / b + 1) * b.
Proof.
  intros Hb. pose proof (Z.div_mod a b ltac:(lia)). pose proof (Z.mod_pos_bound a b Hb). lia.
Qed.

(* (a mod (b*c)) / b = (a/b) mod c : the "real remainder then divide" of the Rust code *)
Lemma mod_mul_div a b c : 0 < b -> 0 < c -> (a mod (b * c)) / b = (a / b) mod c.
Proof.
  intros Hb Hc. rewrite Z.rem_mul_r by lia.
  rewrite (Z.mul_comm b ((a / b) mod c)), Z.div_add by lia.
  rewrite Z.div_small by (apply Z.mod_pos_bound; lia). lia.
Qed.

(* wrap period: (2^32 - 1) / (86400 f) = 2^32 / (86400 f) because 86400 f never divides 2^32 *)
Lemma wrap_period_eq f : 1 <= f -> U32_MAX / (f * 60 * 60 * 24) = (TWO32 / f) / 86400.
Proof.
  intros Hf. rewrite Z.div_div by lia.
  replace (f * 60 * 60 * 24) with (f * 86400) by lia.
  set (m := f * 86400). assert (Hm : 0 < m) by (unfold m; lia).
  pose proof (div_bounds TWO32 m Hm) as HB.
  set (k := TWO32 / m) in *.
  apply div_unique_pos'; [exact Hm|].
  unfold U32_MAX, TWO32 in *.
  assert (k * m <> 4294967296).
  { unfold m. intros E. assert (E' : 4294967296 = 86400 * (k * f)) by lia. clear - E'. lia. }
  lia.
Qed.

(* ------------------------------------------------------------------ uptime decomposition *)

Definition wf_obs (t v : Z) : Prop := 0 <= t < 18446744073709551616 /\ 0 <= v < 4294967296.

Lemma sat32_id x : x <= U32_MAX -> sat32 x = x.
Proof. unfold sat32. lia. Qed.

Lemma uptime_model_spec v f :
  0 <= v < 4294967296 -> 1 <= f ->
  calculate_uptime_from_frequency v f = spec_uptime v f.
Proof.
  intros Hv Hf. unfold calculate_uptime_from_frequency, spec_uptime.
  assert (Hsecs : 0 <= v / f <= v).
  { split; [apply Z.div_pos; lia|]. apply Z.div_le_upper_bound; nia. }
  f_equal.
  - rewrite <- Z.div_div by lia. apply sat32_id. unfold U32_MAX.
    assert (v / f / 86400 <= v / f) by (apply Z.div_le_upper_bound; lia). lia.
  - replace (f * 86400) with ((f * 3600) * 24) by lia.
    rewrite mod_mul_div by lia. rewrite <- Z.div_div by lia.
    apply sat32_id. unfold U32_MAX. pose proof (Z.mod_pos_bound (v / f / 3600) 24 ltac:(lia)). lia.
  - replace (f * 3600) with ((f * 60) * 60) by lia.
    rewrite mod_mul_div by lia. rewrite <- Z.div_div by lia.
    apply sat32_id. unfold U32_MAX. pose proof (Z.mod_pos_bound (v / f / 60) 60 ltac:(lia)). lia.
  - rewrite wrap_period_eq by lia. apply sat32_id. unfold U32_MAX, TWO32.
    assert (4294967296 / f <= 4294967296) by (apply Z.div_le_upper_bound; nia).
    assert (4294967296 / f / 86400 <= 4294967296 / f / 1).
    { apply Z.div_le_compat_l; [apply Z.div_pos; lia | lia]. }
    rewrite Z.div_1_r in *.
    assert (0 <= 4294967296 / f) by (apply Z.div_pos; lia).
    assert (4294967296 / f / 86400 * 86400 <= 4294967296 / f) by (pose proof (div_bounds (4294967296 / f) 86400); lia).
    lia.
Qed.

(* the days/hours/minutes of the SPEC are the mixed-radix digits of the whole seconds *)
Lemma spec_uptime_digits v f :
  0 <= v -> 1 <= f ->
  let u := spec_uptime v f in
  0 <= u_hours u < 24 /\ 0 <= u_min u < 60 /\ 0 <= u_days u /\
  v / f = 86400 * u_days u + 3600 * u_hours u + 60 * u_min u + (v / f) mod 60.
Proof.
  intros Hv Hf. cbn [spec_uptime u_hours u_min u_days].
  assert (0 <= v / f) by (apply Z.div_pos; lia).
  set (s := v / f) in *.
  pose proof (Z.mod_pos_bound (s / 3600) 24 ltac:(lia)).
  pose proof (Z.mod_pos_bound (s / 60) 60 ltac:(lia)).
  assert (0 <= s / 86400) by (apply Z.div_pos; lia).
  repeat split; try lia.
  Z.div_mod_to_equations. lia.
Qed.

(* ------------------------------------------------------------------ snapping *)

Lemma guess_snap n dd base :
  0 < n -> 0 < dd -> 0 < base ->
  guess_frequency {| qn := n; qd := dd |} base = snap base n dd.
Proof.
  intros Hn Hd Hb. unfold guess_frequency, snap, q_round. cbn [qn qd].
  replace (2 * (dd * base)) with (2 * base * dd) by lia.
  replace (2 * n + dd * base) with (2 * n + base * dd) by lia.
  set (k := (2 * n + base * dd) / (2 * base * dd)).
  destruct (Z.leb_spec n 0); [lia|]. destruct (Z.leb_spec base 0); [lia|]. cbn [orb].
  destruct (Z.leb_spec k 0) as [Hk|Hk]; destruct (Z.leb_spec 1 k) as [Hk'|Hk']; try lia; cbn [andb]; [reflexivity|].
  assert (Hp : 0 < base * (dd * k)) by nia.
  destruct (Z.leb_spec (10 * Z.abs (n - base * (dd * k))) (base * (dd * k))) as [A|A];
    destruct (Z.leb_spec (9 * (k * base) * dd) (10 * n)) as [B|B];
    destruct (Z.leb_spec (10 * n) (11 * (k * base) * dd)) as [C|C]; cbn [andb]; try lia; try reflexivity.
  f_equal. lia.
Qed.

Lemma snap_pos base n dd f : 0 < base -> snap base n dd = Some f -> 1 <= f.
Proof.
  unfold snap. intros Hb.
  set (k := (2 * n + base * dd) / (2 * base * dd)).
  destruct (Z.leb_spec 1 k); cbn [andb]; [|discriminate].
  destruct (_ && _); [|discriminate]. intros E; inversion E. nia.
Qed.

(* ------------------------------------------------------------------ banded rounding *)

Lemma floor_lt n dd c : 0 < dd -> n < c * dd -> n / dd < c.
Proof. intros. apply Z.div_lt_upper_bound; lia. Qed.
Lemma floor_ge n dd c : 0 < dd -> c * dd <= n -> c <= n / dd.
Proof. intros. apply Z.div_le_lower_bound; lia. Qed.

(* round_frequency_p0f_style (u32 saturating arithmetic) is the documented banded rule on the integer part *)
Lemma round_documented n dd :
  0 < dd -> dd <= n <= 1500 * dd ->
  round_frequency_p0f_style {| qn := n; qd := dd |} = documented_round (n / dd).
Proof.
  intros Hd Hn. unfold round_frequency_p0f_style, documented_round, q_floor. cbn [qn qd].
  pose proof (floor_ge n dd 1 Hd ltac:(lia)) as F1.
  pose proof (floor_lt n dd 1501 Hd ltac:(lia)) as F2.
  set (f := n / dd) in *.
  rewrite (sat32_id f) by (unfold U32_MAX; lia).
  cbn [bands band_round]. rewrite Z.add_0_r, Z.div_1_r, Z.mul_1_r.
  unfold sat32, U32_MAX.
  destruct (Z.eqb_spec f 0); [reflexivity|].
  destruct (Z.leb_spec f 10); [reflexivity|].
  destruct (Z.leb_spec f 50); [Z.div_mod_to_equations; lia|].
  destruct (Z.leb_spec f 100); [Z.div_mod_to_equations; lia|].
  destruct (Z.leb_spec f 500); Z.div_mod_to_equations; lia.
Qed.

(* every value of the documented rule on 1..1500 is a grid point *)
Definition rates_1_1500 : list Z := map Z.of_nat (seq 1 1500).
Lemma documented_round_on_grid_all :
  forallb (fun f => existsb (Z.eqb (documented_round f)) grid_points) rates_1_1500 = true.
Proof. vm_compute. reflexivity. Qed.
Lemma documented_round_on_grid f : 1 <= f <= 1500 -> In (documented_round f) grid_points.
Proof.
  intros H.
  assert (Hin : In f rates_1_1500).
  { unfold rates_1_1500. replace f with (Z.of_nat (Z.to_nat f)) by lia. apply in_map, in_seq. lia. }
  pose proof (proj1 (forallb_forall _ _) documented_round_on_grid_all f Hin) as E.
  apply existsb_exists in E. destruct E as (g & Hg & Eg). apply Z.eqb_eq in Eg. now rewrite Eg.
Qed.
