(* Worked inputs for the concrete instances of C15 / C01 / C20 (hypotheses satisfiable, results non-trivial). *)
From Coq Require Import List NArith ZArith Bool Lia.
From Coq Require Import Strings.Byte.
From HN Require Import Base.Bytes Base.Keyed Model.Filter Model.RawFrame Model.FilterGlue Spec.FilterSpec Spec.CommuteSpec
                       Proofs.CommuteProofs Model.TlsHello Model.Ja4 Model.TlsReader Model.TlsAnalyzer Model.AnalyzerReports
                       Proofs.ReaderProofs Proofs.KeyedInstances Proofs.KeyedExamples Proofs.DischargeInstances
                       Model.Unified Spec.UnifiedSpec Proofs.UnifiedProofs.
From HN Require Model.TcpExtract Model.TcpAnalyzer Model.Uptime.
Import ListNotations.
Open Scope N_scope.

(* ---- C15: a filter that admits destination port 443 only; flow A (port 443) around a ClientHello to port
        8443 and a frame without endpoints (14 zero bytes) ---- *)
Definition tlsX : bytes := frame4 ip_c2 ip_srv 40001 8443 24 [] tiny_hello.
Definition junk : bytes := repeat x00 14.
Definition c15_trace : list bytes := [tlsA1; tlsX; junk; tlsA2].

Lemma c15_tls_example :
  cfg_wf only_dst_443 = true /\ analyzer_endpoints junk = None /\
  admitted_subtrace only_dst_443 c15_trace = [tlsA1; tlsA2] /\
  map is_report (snd (run (tls_report_step 8) [] c15_trace)) = [true; true] /\
  map is_report (snd (run (with_filter (build only_dst_443) (tls_report_step 8)) [] c15_trace)) = [true].
Proof. repeat split; vm_compute; reflexivity. Qed.

Import TcpAnalyzer.
Definition only_dst_80 : cfg_src := {| c_deny := false; c_port := Some [PDst 80]; c_ip := None; c_sub := None |}.
(* connection A towards port 80, connection X towards port 22 (rejected), a frame without endpoints *)
Definition tcpX1 : tcp_event := (frame4 ip_c2 ip_srv 40000 22 2 (ts_opt 9000 0) [], 1010%Z).
Definition tcpX2 : tcp_event := (frame4 ip_c2 ip_srv 40000 22 16 (ts_opt 9100 7) [], 2010%Z).
Definition c15_tcp_trace : list tcp_event := [tcpA1; tcpX1; (junk, 1500%Z); tcpA2; tcpX2].

Lemma c15_tcp_example :
  cfg_wf only_dst_80 = true /\
  filter (fun e => spec_admits only_dst_80 (fst e)) c15_tcp_trace = [tcpA1; tcpA2] /\
  map up_freq (snd (run_ev tcp_event tcp_state tcp_result
                      (with_filter_ev tcp_event tcp_state tcp_result fst (tcp_report_step_ev [] 8) (build only_dst_80)) [] c15_tcp_trace))
  = [None; Some 1000%Z] /\
  length (snd (run_ev tcp_event tcp_state tcp_result (tcp_report_step_ev [] 8) [] c15_tcp_trace)) = 4%nat.
Proof. repeat split; vm_compute; reflexivity. Qed.

(* ---- C01: a history of junk, truncated and foreign frames, then the probe connection A ---- *)
Definition c01_history : list bytes := [junk; tlsB1; firstn 40 tlsB1; tlsX; tlsB1; repeat xff 60].
Lemma c01_tls_example :
  (forall f, In f c01_history -> tls_key f <> tls_kA) /\ (forall f, In f [tlsA1; tlsA2] -> tls_key f = tls_kA) /\
  tls_within_capacityb 8 [] (c01_history ++ [tlsA1; tlsA2]) = true /\ tls_within_capacityb 8 [] [tlsA1; tlsA2] = true /\
  map is_report (snd (tls_run 8 [] [tlsA1; tlsA2])) = [false; true].
Proof.
  split. { intros f [<-|[<-|[<-|[<-|[<-|[<-|[]]]]]]]; apply N.eqb_neq; vm_compute; reflexivity. }
  split. { intros f [<-|[<-|[]]]; vm_compute; reflexivity. }
  repeat split; vm_compute; reflexivity.
Qed.

Definition c01_tcp_history : list tcp_event := [(junk, 5%Z); tcpB1; (firstn 40 (fst tcpB1), 7%Z); tcpX1; tcpB2; tcpX2].
Lemma c01_tcp_example :
  (forall e, In e c01_tcp_history -> tcp_key [] e <> tcp_kA) /\ (forall e, In e [tcpA1; tcpA2] -> tcp_key [] e = tcp_kA) /\
  tcp_within_capacityb [] 8 [] (c01_tcp_history ++ [tcpA1; tcpA2]) = true /\
  tcp_within_capacityb [] 8 [] [tcpA1; tcpA2] = true /\
  map up_freq (snd (tcp_run [] 8 [] [tcpA1; tcpA2])) = [None; Some 1000%Z].
Proof.
  split. { intros e [<-|[<-|[<-|[<-|[<-|[<-|[]]]]]]] H; apply UptimeTrackProofs.key_eqb_eq in H; vm_compute in H; discriminate. }
  split. { intros e [<-|[<-|[]]]; vm_compute; reflexivity. }
  repeat split; vm_compute; reflexivity.
Qed.

(* ---- C20: TCP and TLS enabled, HTTP disabled (an HTTP analyzer that is never asked), matcher off ---- *)
Definition c20_cfg : cfg := {| tcp_en := true; http_en := false; tls_en := true; matcher_en := false; db_present := false |}.
Definition no_http (s : unit) (e : tcp_event) : unit * pres := (s, Some (absent 2)).
(* SYN and ACK of connection A (timestamps at 1000 Hz), then a whole ClientHello of flow B *)
Definition c20_trace : list tcp_event := [tcpA1; tcpA2; (tlsB1, 3000%Z)].
Definition shown_mask (l : list shown) : list bool := map (fun s => match s with Some _ => true | None => false end) l.

Lemma c20_example :
  ctor_ok c20_cfg = true /\
  (forall e, In e c20_trace -> TcpExtract.process_frame [] (fst e) <> TcpExtract.Err) /\
  map shown_mask (unified_run tcp_event tcp_state unit (tcp_ustep [] 8) no_http tls_ufn c20_cfg ([], tt) c20_trace)
  = [ [true; false; false; false; false; false; false; false];     (* SYN (no MSS option): syn signature *)
      [false; true; false; true; false; false; false; false];      (* ACK: "syn_ack" signature (as the code labels it) + client uptime *)
      [false; true; false; false; false; false; false; true] ].    (* ClientHello segment: signature + tls_client *)
Proof.
  split; [reflexivity|]. split.
  { intros e [<-|[<-|[<-|[]]]]; vm_compute; discriminate. }
  vm_compute. reflexivity.
Qed.
