(* C07, concrete instance 3: the packet-level HTTP analyzer (Model/HttpAnalyzer.v) is a keyed machine.
   key  = the CONNECTION: the 4-tuple irrespective of direction (norm_key); both directions share one slot;
   slot = the entries of the flow table whose key is one of the two directed keys of that connection (the code
          keeps at most one, under the direction of the first SYN it saw);
   local step = process_tcp_packet run on a table that holds that slot only.
   Parametric in the two parsers (pure functions of the bytes). *)
From Coq Require Import List NArith Bool Lia.
From Coq Require Import Strings.Byte.
From HN Require Import Base.Bytes Base.Cache Base.Tcp Base.Keyed Proofs.KeyedProofs Proofs.KeyedInstances
                       Model.Pnet Model.HttpFlow Model.HttpAnalyzer Proofs.HttpPlan.
From HN Require Model.TlsHello.
Import ListNotations.
Open Scope N_scope.

Notation ents := (list (fkey * tcpflow)).
Definition cls_of (K k : fkey) : bool := fkey_eqb (norm_key k) K.
Definition to_slot (l : ents) : option ents := match l with [] => None | _ => Some l end.
Definition slot_ents (s : option ents) : ents := match s with Some l => l | None => [] end.
Lemma slot_ents_to_slot l : slot_ents (to_slot l) = l.
Proof. now destruct l. Qed.

Section HttpKeyed.
  Context {Req Resp : Type}.
  Variable parse_req : bytes -> option Req.
  Variable parse_resp : bytes -> option Resp.
  Notation hres := (@http_out Req Resp).
  Notation step := (HttpFlow.step parse_req parse_resp).
  Notation pstep := (http_packet_step parse_req parse_resp).
  Notation presults := (http_packet_results parse_req parse_resp).
  Notation plan := (plan parse_req parse_resp).

  Definition http_abs (st : http_state) (K : fkey) : option ents := to_slot (fcls (cls_of K) (c_entries st)).
  Definition estep (es : ents) (g : segment) : ents * hout Req Resp :=
    let '(st', o) := step (mkCache (len_N es + 1) es) g in (c_entries st', o).
  Definition http_lstep (slot : option ents) (f : bytes) : option ents * list hres :=
    match http_frame_class f with
    | HCErr => (slot, [HErr])
    | HCNone => (slot, [HOut ONone])
    | HCSeg g => let '(es', o) := estep (slot_ents slot) g in (to_slot es', [HOut o])
    end.

  (* the step on entry lists, given that no insert evicts *)
  Lemma step_entries st g :
    (cache_get fkey_eqb st (seg_key g) = None -> cache_get fkey_eqb st (flip_key (seg_key g)) = None -> cache_len st < c_cap st) ->
    let pl := plan (cache_get fkey_eqb st (seg_key g)) (cache_get fkey_eqb st (flip_key (seg_key g))) g in
    c_entries (fst (step st g)) = eexec (fst pl) (c_entries st) /\ c_cap (fst (step st g)) = c_cap st /\ snd (step st g) = snd pl.
  Proof.
    intro Hcap. cbv zeta. rewrite (step_plan parse_req parse_resp st g). cbn [fst snd].
    destruct (plan_shape parse_req parse_resp (cache_get fkey_eqb st (seg_key g)) (cache_get fkey_eqb st (flip_key (seg_key g))) g)
      as [Hn | (F & R & E)].
    - assert (Hn' : Forall (fun o => is_ins o = false) (fst (plan (cache_get fkey_eqb st (seg_key g)) (cache_get fkey_eqb st (flip_key (seg_key g))) g))).
      { eapply Forall_impl; [|exact Hn]. cbn. tauto. }
      destruct (exec_noins _ st Hn') as [A B]. auto.
    - rewrite E. destruct (exec_ins st (seg_key g) (flow_init g) (Hcap F R)) as [A B]. auto.
  Qed.

  Lemma cls_fk g : cls_of (norm_key (seg_key g)) (seg_key g) = true.
  Proof. apply fkey_eqb_refl. Qed.
  Lemma cls_rk g : cls_of (norm_key (seg_key g)) (flip_key (seg_key g)) = true.
  Proof. unfold cls_of. rewrite norm_flip. apply fkey_eqb_refl. Qed.

  Lemma plan_keys_in g fo ro :
    Forall (fun o => cls_of (norm_key (seg_key g)) (op_key o) = true) (fst (plan fo ro g)).
  Proof.
    destruct (plan_shape parse_req parse_resp fo ro g) as [Hn | (_ & _ & E)].
    - eapply Forall_impl; [|exact Hn]. cbn. intros o [[-> | ->] _]; [apply cls_fk | apply cls_rk].
    - rewrite E. constructor; [apply cls_fk | constructor].
  Qed.
  Lemma plan_keys_out g fo ro K' : K' <> norm_key (seg_key g) ->
    Forall (fun o => cls_of K' (op_key o) = false) (fst (plan fo ro g)).
  Proof.
    intro Hne. eapply Forall_impl; [|apply (plan_keys_in g fo ro)]. cbn. intros o H.
    unfold cls_of in *. apply fkey_eqb_eq in H. rewrite H. apply fkey_eqb_neq. congruence.
  Qed.

  (* one-step simulation *)
  Lemma http_step_sim st f : http_fits st f = true ->
    snd (presults st f) = snd (http_lstep (http_abs st (http_key f)) f) /\
    forall K, http_abs (fst (presults st f)) K
              = Keyed.upd fkey ents fkey_eqb (http_abs st) (http_key f) (fst (http_lstep (http_abs st (http_key f)) f)) K.
  Proof.
    unfold http_fits, http_packet_results, http_packet_step, http_lstep, http_key.
    assert (Hsame : forall K0 K, http_abs st K = Keyed.upd fkey ents fkey_eqb (http_abs st) K0 (http_abs st K0) K).
    { intros K0 K. unfold Keyed.upd. destruct (fkey_eqb K K0) eqn:E; [apply fkey_eqb_eq in E; now subst | reflexivity]. }
    destruct (http_frame_class f) as [| |g]; intro Hf; cbn [fst snd]; [split; [reflexivity | apply Hsame] ..|].
    set (K := norm_key (seg_key g)). set (es := c_entries st). set (es2 := fcls (cls_of K) es).
    assert (Hcap : cache_get fkey_eqb st (seg_key g) = None -> cache_get fkey_eqb st (flip_key (seg_key g)) = None -> cache_len st < c_cap st).
    { intros G1 G2. unfold cache_contains in Hf. rewrite G1, G2 in Hf. cbn [orb] in Hf. now apply N.ltb_lt. }
    destruct (step_entries st g Hcap) as (E1 & _ & O1).
    (* the same step on the table that holds the slot only *)
    set (st2 := mkCache (len_N es2 + 1) es2).
    assert (G1 : cache_get fkey_eqb st2 (seg_key g) = cache_get fkey_eqb st (seg_key g)).
    { unfold cache_get. cbn [c_entries]. apply get_fcls. apply cls_fk. }
    assert (G2 : cache_get fkey_eqb st2 (flip_key (seg_key g)) = cache_get fkey_eqb st (flip_key (seg_key g))).
    { unfold cache_get. cbn [c_entries]. apply get_fcls. apply cls_rk. }
    assert (Hcap2 : cache_get fkey_eqb st2 (seg_key g) = None -> cache_get fkey_eqb st2 (flip_key (seg_key g)) = None -> cache_len st2 < c_cap st2).
    { intros _ _. unfold st2, cache_len. cbn [c_entries c_cap]. lia. }
    destruct (step_entries st2 g Hcap2) as (E2 & _ & O2). rewrite G1, G2 in E2, O2. change (c_entries st2) with es2 in E2.
    replace (http_abs st K) with (to_slot es2) by reflexivity. rewrite slot_ents_to_slot. unfold estep.
    change (mkCache (len_N es2 + 1) es2) with st2.
    destruct (step st g) as [st' o] eqn:Es. destruct (step st2 g) as [st2' o2] eqn:Es2. cbn [fst snd] in *.
    split; [now rewrite O1, O2|].
    intro K'. unfold http_abs at 1. rewrite E1. unfold Keyed.upd. destruct (fkey_eqb K' K) eqn:EK.
    - apply fkey_eqb_eq in EK. subst K'. rewrite E2.
      now rewrite (eexec_in (cls_of K) _ es (plan_keys_in g _ _)).
    - assert (Hne : K' <> K) by (intros ->; rewrite fkey_eqb_refl in EK; discriminate).
      now rewrite (eexec_out (cls_of K') _ es (plan_keys_out g _ _ K' Hne)).
  Qed.

  (* ---- lengths: a packet adds at most one entry; capacity by count ---- *)
  Lemma assoc_update_len (es : ents) k f : length (assoc_update fkey_eqb es k f) = length es.
  Proof. induction es as [|[k0 v0] es IH]; cbn [assoc_update]; [reflexivity|]. destruct (fkey_eqb k0 k); cbn [length]; lia. Qed.
  Lemma eexec_noins_len ops : forall es : ents, Forall (fun o => is_ins o = false) ops -> (length (eexec ops es) <= length es)%nat.
  Proof.
    induction ops as [|o ops IH]; intros es H; [cbn; lia|]. inversion H as [|? ? Ho Hr]; subst.
    unfold eexec in *. cbn [fold_left]. specialize (IH (eexec_op es o) Hr).
    destruct o as [k f|k|k f]; try discriminate; cbn [eexec_op] in *.
    - rewrite assoc_update_len in IH. lia.
    - pose proof (assoc_remove_len es k). lia.
  Qed.
  Lemma http_step_len st f : http_fits st f = true ->
    cache_len (fst (presults st f)) <= cache_len st + 1 /\ c_cap (fst (presults st f)) = c_cap st.
  Proof.
    unfold http_fits, http_packet_results, http_packet_step.
    destruct (http_frame_class f) as [| |g]; intro Hf; cbn [fst]; [split; [lia | reflexivity] ..|].
    assert (Hcap : cache_get fkey_eqb st (seg_key g) = None -> cache_get fkey_eqb st (flip_key (seg_key g)) = None -> cache_len st < c_cap st).
    { intros G1 G2. unfold cache_contains in Hf. rewrite G1, G2 in Hf. cbn [orb] in Hf. now apply N.ltb_lt. }
    destruct (step_entries st g Hcap) as (E1 & C1 & _). destruct (step st g) as [st' o]. cbn [fst] in *.
    split; [|exact C1]. unfold cache_len, len_N. rewrite E1.
    destruct (plan_shape parse_req parse_resp (cache_get fkey_eqb st (seg_key g)) (cache_get fkey_eqb st (flip_key (seg_key g))) g)
      as [Hn | (_ & _ & E)].
    - assert (Hn' : Forall (fun o => is_ins o = false) (fst (plan (cache_get fkey_eqb st (seg_key g)) (cache_get fkey_eqb st (flip_key (seg_key g))) g))).
      { eapply Forall_impl; [|exact Hn]. cbn. tauto. }
      pose proof (eexec_noins_len _ (c_entries st) Hn'). lia.
    - rewrite E. cbn. rewrite app_length. cbn [length]. pose proof (assoc_remove_len (c_entries st) (seg_key g)). lia.
  Qed.

  Definition http_crun := crun bytes fkey hres http_state http_key presults.
  Definition http_within := within bytes hres http_state presults http_fits.

  Lemma http_results_crun : forall tr st, http_results parse_req parse_resp st tr = snd (http_crun st tr).
  Proof.
    unfold http_results, http_crun. induction tr as [|f tr IH]; intro st; [reflexivity|].
    cbn [http_run crun map]. unfold http_packet_results.
    destruct (pstep st f) as [st1 o]. specialize (IH st1).
    destruct (http_run parse_req parse_resp st1 tr) as [st2 os].
    destruct (crun bytes fkey hres http_state http_key
                (fun st0 f0 => let '(st', o0) := pstep st0 f0 in (st', [o0])) st1 tr) as [c2 o2] eqn:E.
    cbn [snd combine map app] in *. unfold http_packet_results in IH. rewrite E in IH. cbn [snd] in IH.
    now rewrite IH.
  Qed.
  Lemma http_within_b : forall tr st, http_within_capacityb parse_req parse_resp st tr = true <-> http_within st tr.
  Proof.
    unfold http_within. induction tr as [|f tr IH]; intro st; cbn [http_within_capacityb within]; [tauto|].
    rewrite andb_true_iff.
    assert (E : fst (presults st f) = fst (pstep st f)).
    { unfold http_packet_results. now destruct (pstep st f). }
    rewrite E, IH. tauto.
  Qed.

  Lemma http_within_by_length : forall tr st, cache_len st + TlsHello.lenN tr <= c_cap st -> http_within st tr.
  Proof.
    unfold http_within. induction tr as [|f tr IH]; intros st H; cbn [within]; [exact I|].
    unfold TlsHello.lenN in H. cbn [length] in H.
    assert (Hf : http_fits st f = true).
    { unfold http_fits. destruct (http_frame_class f); try reflexivity.
      assert (cache_len st <? c_cap st = true) as -> by (apply N.ltb_lt; lia). apply orb_true_r. }
    split; [exact Hf|]. destruct (http_step_len st f Hf) as [L C]. apply IH. rewrite C. unfold TlsHello.lenN. lia.
  Qed.

  (* ---- the instance theorems ---- *)
  Notation http_proj := (Keyed.proj fkey hres fkey_eqb).
  Notation http_fk := (Keyed.fk bytes fkey http_key fkey_eqb).
  Notation hresults := (http_results parse_req parse_resp).
  Notation hwithinb := (http_within_capacityb parse_req parse_resp).

  Theorem http_is_keyed tr st : hwithinb st tr = true ->
    hresults st tr = snd (Keyed.run bytes fkey ents hres http_key fkey_eqb http_lstep (http_abs st) tr).
  Proof.
    intro W. apply http_within_b in W. rewrite http_results_crun.
    exact (sim_run_abs bytes fkey ents hres http_state http_key fkey_eqb http_lstep presults http_abs http_fits
             http_step_sim tr st W).
  Qed.

  Theorem http_isolation tr st K :
    hwithinb st tr = true -> hwithinb st (http_fk K tr) = true ->
    http_proj K (hresults st tr) = http_proj K (hresults st (http_fk K tr))
    /\ http_proj K (hresults st tr) = snd (http_run parse_req parse_resp st (http_fk K tr)).
  Proof.
    intros W Wk. apply http_within_b in W. apply http_within_b in Wk. rewrite !http_results_crun. split.
    - exact (concrete_isolation bytes fkey ents hres http_state http_key fkey_eqb fkey_eqb_eq http_lstep presults
               http_abs http_fits http_step_sim tr st K W Wk).
    - unfold http_crun.
      rewrite (concrete_isolation_alone bytes fkey ents hres http_state http_key fkey_eqb fkey_eqb_eq http_lstep presults
               http_abs http_fits http_step_sim tr st K W Wk).
      pose proof (http_results_crun (http_fk K tr) st) as E. unfold http_crun in E. rewrite <- E. clear E.
      unfold http_results.
      assert (L : forall (a : list fkey) (b : list hres), length a = length b -> map snd (combine a b) = b).
      { induction a as [|x a IH]; intros [|y b] H; cbn in *; try reflexivity; try discriminate. f_equal. apply IH. lia. }
      apply L. rewrite map_length.
      generalize (http_fk K tr) st. intro l. induction l as [|f l IH]; intro st0; [reflexivity|].
      cbn [http_run]. destruct (pstep st0 f) as [st1 o]. specialize (IH st1).
      destruct (http_run parse_req parse_resp st1 l) as [st2 os]. cbn [snd length] in *. now rewrite IH.
  Qed.

  Theorem http_interleaving_invariant tr tr' st :
    hwithinb st tr = true -> hwithinb st tr' = true ->
    (forall K, http_fk K tr = http_fk K tr') ->
    forall K, http_proj K (hresults st tr) = http_proj K (hresults st tr').
  Proof.
    intros W W' H K. apply http_within_b in W. apply http_within_b in W'. rewrite !http_results_crun.
    exact (concrete_interleaving_invariant bytes fkey ents hres http_state http_key fkey_eqb fkey_eqb_eq http_lstep presults
             http_abs http_fits http_step_sim tr tr' st W W' H K).
  Qed.

  Theorem http_no_disable h probe st K :
    hwithinb st (h ++ probe) = true -> hwithinb st probe = true ->
    (forall f, In f h -> http_key f <> K) ->
    http_proj K (hresults st (h ++ probe)) = http_proj K (hresults st probe).
  Proof.
    intros W W' H. apply http_within_b in W. apply http_within_b in W'. rewrite !http_results_crun.
    apply (concrete_no_disable bytes fkey ents hres http_state http_key fkey_eqb fkey_eqb_eq http_lstep presults
             http_abs http_fits http_step_sim h probe st K W W').
    intros f Hf. apply fkey_eqb_neq. now apply H.
  Qed.

  Theorem http_capacity_by_count tr st K :
    cache_len st + TlsHello.lenN tr <= c_cap st ->
    hwithinb st tr = true /\ hwithinb st (http_fk K tr) = true.
  Proof.
    intro H. split; apply http_within_b; apply http_within_by_length; [exact H|].
    pose proof (fk_len http_key fkey_eqb K tr). lia.
  Qed.

  (* recovery (C01): the probe connection after an arbitrary history *)
  Theorem http_recovers h probe st K :
    (forall f, In f h -> http_key f <> K) -> (forall f, In f probe -> http_key f = K) ->
    hwithinb st (h ++ probe) = true -> hwithinb st probe = true ->
    http_proj K (hresults st (h ++ probe)) = snd (http_run parse_req parse_resp st probe).
  Proof.
    intros Hh Hp W Wp.
    assert (E : http_fk K (h ++ probe) = probe).
    { unfold Keyed.fk. rewrite filter_app.
      assert (E1 : filter (fun p => fkey_eqb (http_key p) K) h = []).
      { clear W. induction h as [|x h' IH]; [reflexivity|]. cbn [filter]. rewrite (fkey_eqb_neq _ _ (Hh x (or_introl eq_refl))).
        apply IH. intros p Hin. apply Hh. now right. }
      assert (E2 : filter (fun p => fkey_eqb (http_key p) K) probe = probe).
      { clear W Wp. induction probe as [|x t IH]; [reflexivity|]. cbn [filter]. rewrite (Hp x (or_introl eq_refl)), fkey_eqb_refl. f_equal.
        apply IH. intros p Hin. apply Hp. now right. }
      now rewrite E1, E2. }
    pose proof (http_isolation (h ++ probe) st K W) as Hiso. rewrite E in Hiso. exact (proj2 (Hiso Wp)).
  Qed.
End HttpKeyed.
