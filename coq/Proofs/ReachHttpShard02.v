(* C13: shard 2 of the HTTP abstraction check on the bundled database (lines nth 2 http_shards of Spec/ReachLists.v). *)
From Coq Require Import List NArith Bool.
From HN Require Import Base.Bytes Model.SigAst Spec.BundledSpec Spec.ReachSpec Spec.ReachLists Proofs.ReachHttpLines.
Import ListNotations.
Lemma shard_ok : http_lines_ok bundled_db http_entry (nth 2 http_shards []) = true.
Proof. vm_compute. reflexivity. Qed.
