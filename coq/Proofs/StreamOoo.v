(* C09, out-of-order arrival: what the flow model rebuilds does not depend on the order in which the
   stored segments arrived, provided their raw sequence numbers are distinct; in particular, once
   all segments of a gap-free, non-overlapping, non-wrapping stream are stored -- in ANY arrival
   order -- the rebuilt stream is the in-order stream.  (What can go wrong before that point, while
   the stored set still has a hole, is the `gap` defect.) *)
From Coq Require Import List NArith Bool Lia Permutation Sorted.
From Coq Require Import Strings.Byte.
From HN Require Import Base.Bytes Base.Cache Base.Tcp Model.HttpFlow Proofs.CacheProofs Proofs.StreamProofs Proofs.CostProofs.
Import ListNotations.
Open Scope N_scope.

(* the accumulator of sort_td is kept in descending order (stable: of equal keys the later one first) *)
Fixpoint descending (l : list tcpdata) : Prop :=
  match l with
  | [] => True
  | x :: r => (forall y, In y r -> td_seq y <= td_seq x) /\ descending r
  end.

Lemma insert_rev_in x acc y : In y (insert_rev x acc) <-> y = x \/ In y acc.
Proof.
  induction acc as [|z r IH]; cbn; [intuition|].
  destruct (td_seq x <? td_seq z); cbn; [rewrite IH|]; intuition.
Qed.

Lemma insert_rev_descending x acc : descending acc -> descending (insert_rev x acc).
Proof.
  induction acc as [|z r IH]; cbn; intros H; [split; [intros y []|exact I]|].
  destruct H as [Hz Hr].
  destruct (td_seq x <? td_seq z) eqn:E.
  - cbn. split; [|now apply IH].
    intros y Hy. apply insert_rev_in in Hy. destruct Hy as [->|Hy]; [apply N.ltb_lt in E; lia | now apply Hz].
  - apply N.ltb_ge in E. cbn. split; [|split; assumption].
    intros y [<-|Hy]; [exact E | specialize (Hz y Hy); lia].
Qed.

Lemma fold_insert_descending l : forall acc, descending acc ->
  descending (fold_left (fun acc x => insert_rev x acc) l acc).
Proof. induction l as [|x l IH]; intros acc H; cbn; [exact H | apply IH, insert_rev_descending, H]. Qed.

(* two descending lists with the same elements and pairwise distinct keys are equal *)
Lemma descending_unique l : forall l',
  descending l -> descending l' -> Permutation l l' -> NoDup (map td_seq l) -> l = l'.
Proof.
  induction l as [|x l IH]; intros l' D D' P ND.
  - apply Permutation_nil in P. now subst.
  - destruct l' as [|x' l']; [apply Permutation_sym, Permutation_nil in P; discriminate|].
    destruct D as [Dx Dl], D' as [Dx' Dl'].
    assert (ND' : NoDup (map td_seq (x' :: l'))).
    { eapply Permutation_NoDup; [apply Permutation_map; exact P | exact ND]. }
    assert (Hx : x = x').
    { assert (In x (x' :: l')) as I1 by (eapply Permutation_in; [exact P | now left]).
      assert (In x' (x :: l)) as I2 by (eapply Permutation_in; [apply Permutation_sym; exact P | now left]).
      destruct I1 as [->|I1]; [reflexivity|]. destruct I2 as [->|I2]; [reflexivity|].
      specialize (Dx x' I2). specialize (Dx' x I1).
      assert (td_seq x = td_seq x') as E by lia.
      (* equal keys, distinct positions in (x :: l): contradiction with NoDup *)
      exfalso. inversion ND as [|? ? Hn _]; subst. apply Hn. rewrite E. now apply in_map. }
    subst x'. f_equal. apply IH; auto.
    + now apply Permutation_cons_inv in P.
    + now inversion ND.
Qed.

Lemma sort_td_perm_eq l l' : Permutation l l' -> NoDup (map td_seq l) -> sort_td l = sort_td l'.
Proof.
  intros P ND. unfold sort_td. rewrite !frev_rev. f_equal.
  apply descending_unique.
  - apply fold_insert_descending. exact I.
  - apply fold_insert_descending. exact I.
  - etransitivity; [apply fold_insert_perm|]. etransitivity; [|apply Permutation_sym, fold_insert_perm].
    now apply Permutation_app_tail.
  - eapply Permutation_NoDup; [|exact ND]. apply Permutation_map, Permutation_sym.
    etransitivity; [apply fold_insert_perm|]. now rewrite app_nil_r.
Qed.

Theorem rebuild_order_invariant l l' :
  Permutation l l' -> NoDup (map td_seq l) -> full_data l = full_data l'.
Proof. intros P ND. unfold full_data. now rewrite (sort_td_perm_eq l l' P ND). Qed.

(* a gap-free chain of non-empty segments has strictly increasing sequence numbers *)
Lemma chain_seqs_above ps : forall s y, In y (map td_seq (chain_tds s ps)) -> s <= y.
Proof.
  intros s y H. apply in_map_iff in H. destruct H as (td & <- & H). now apply chain_lower in H.
Qed.
Lemma chain_nodup ps : forall s, Forall (fun p => p <> []) ps -> NoDup (map td_seq (chain_tds s ps)).
Proof.
  induction ps as [|p ps IH]; intros s H; cbn; [constructor|].
  inversion H as [|? ? Hp Hps]; subst. constructor; [|now apply IH].
  intros Hin. apply chain_seqs_above in Hin.
  assert (0 < len_N p) by (unfold len_N; destruct p; [congruence | cbn; lia]). lia.
Qed.

(* all segments stored, in any arrival order: the rebuilt stream is the in-order stream *)
Theorem rebuild_any_order isn data0 ps stored :
  data0_ok isn data0 -> Forall (fun p => p <> []) ps ->
  Permutation stored (data0 ++ chain_tds (isn + 1) ps) ->
  full_data stored = concat ps.
Proof.
  intros H0 Hne P. rewrite <- (full_data_chain data0 isn ps H0).
  apply rebuild_order_invariant; [exact P|].
  eapply Permutation_NoDup; [apply Permutation_map, Permutation_sym; exact P|].
  rewrite map_app. destruct H0 as [-> | ->]; cbn [map app].
  - now apply chain_nodup.
  - constructor; [|now apply chain_nodup]. intros Hin. apply chain_seqs_above in Hin. cbn in Hin. lia.
Qed.
