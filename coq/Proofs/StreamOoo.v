(* C09, out-of-order arrival: what the flow model rebuilds does not depend on the order in which the
   stored segments arrived, provided their raw sequence numbers are distinct; in particular, once
   all segments of a gap-free, non-overlapping, non-wrapping stream are stored -- in ANY arrival
   order -- the rebuilt stream is the in-order stream.  (What can go wrong before that point, while
   the stored set still has a hole, is the `gap` defect.) *)
From Coq Require Import List NArith Bool Lia Permutation Sorted.
From Coq Require Import Strings.Byte.
From HN Require Import Base.Bytes Base.Cache Base.Tcp Model.HttpFlow Proofs.CacheProofs Proofs.Serial32 Proofs.StreamProofs Proofs.CostProofs.
Import ListNotations.
Open Scope N_scope.

(* the accumulator of sort_td is kept in descending order of the sort key (stable: of equal keys the later one first) *)
Fixpoint descending_k (k : tcpdata -> N) (l : list tcpdata) : Prop :=
  match l with
  | [] => True
  | x :: r => (forall y, In y r -> k y <= k x) /\ descending_k k r
  end.

Lemma insert_rev_in k x acc y : In y (insert_rev k x acc) <-> y = x \/ In y acc.
Proof.
  induction acc as [|z r IH]; cbn; [intuition|].
  destruct (k x <? k z); cbn; [rewrite IH|]; intuition.
Qed.

Lemma insert_rev_descending k x acc : descending_k k acc -> descending_k k (insert_rev k x acc).
Proof.
  induction acc as [|z r IH]; cbn; intros H; [split; [intros y []|exact I]|].
  destruct H as [Hz Hr].
  destruct (k x <? k z) eqn:E.
  - cbn. split; [|now apply IH].
    intros y Hy. apply insert_rev_in in Hy. destruct Hy as [->|Hy]; [apply N.ltb_lt in E; lia | now apply Hz].
  - apply N.ltb_ge in E. cbn. split; [|split; assumption].
    intros y [<-|Hy]; [exact E | specialize (Hz y Hy); lia].
Qed.

Lemma fold_insert_descending k l : forall acc, descending_k k acc ->
  descending_k k (fold_left (fun acc x => insert_rev k x acc) l acc).
Proof. induction l as [|x l IH]; intros acc H; cbn; [exact H | apply IH, insert_rev_descending, H]. Qed.

Lemma descending_k_impl k k' acc :
  (forall x y, In x acc -> In y acc -> k' y <= k' x -> k y <= k x) -> descending_k k' acc -> descending_k k acc.
Proof.
  induction acc as [|x acc IH]; intros H D; [exact I|]. destruct D as [Dx Da]. split.
  - intros y Hy. apply H; [now left | now right | now apply Dx].
  - apply IH; auto. intros a b Ha Hb. apply H; now right.
Qed.

(* two descending lists with the same elements and pairwise distinct keys are equal *)
Lemma descending_unique k l : forall l',
  descending_k k l -> descending_k k l' -> Permutation l l' -> NoDup (map k l) -> l = l'.
Proof.
  induction l as [|x l IH]; intros l' D D' P ND.
  - apply Permutation_nil in P. now subst.
  - destruct l' as [|x' l']; [apply Permutation_sym, Permutation_nil in P; discriminate|].
    destruct D as [Dx Dl], D' as [Dx' Dl'].
    assert (Hx : x = x').
    { assert (In x (x' :: l')) as I1 by (eapply Permutation_in; [exact P | now left]).
      assert (In x' (x :: l)) as I2 by (eapply Permutation_in; [apply Permutation_sym; exact P | now left]).
      destruct I1 as [->|I1]; [reflexivity|]. destruct I2 as [->|I2]; [reflexivity|].
      specialize (Dx x' I2). specialize (Dx' x I1).
      assert (k x = k x') as E by lia.
      exfalso. inversion ND as [|? ? Hn _]; subst. apply Hn. rewrite E. now apply in_map. }
    subst x'. f_equal. apply IH; auto.
    + now apply Permutation_cons_inv in P.
    + now inversion ND.
Qed.

(* the window: every stored sequence number is a u32 within 2^31 of the reference point r *)
Definition win (r : N) (l : list tcpdata) : Prop :=
  Forall (fun d => td_seq d < two32 /\ off32 r (td_seq d) < two31) l.

Lemma sort_base_in l x : In x l -> exists b, In b l /\ sort_base l = td_seq b.
Proof. destruct l as [|b l]; [intros []|]. intros _. exists b. split; [now left | reflexivity]. Qed.

(* inside the window the sort key orders by offset from r, whichever stored segment is the base *)
Lemma sort_key_le r l x y : r < two32 -> win r l -> In x l -> In y l ->
  (sort_key l x <= sort_key l y <-> off32 r (td_seq x) <= off32 r (td_seq y)).
Proof.
  intros Hr W Hx Hy. destruct (sort_base_in l x Hx) as (b & Hb & Eb). unfold sort_key. rewrite Eb.
  unfold win in W. rewrite Forall_forall in W.
  destruct (W b Hb), (W x Hx), (W y Hy). now apply skey32_le.
Qed.
Lemma sort_key_inj r l x y : r < two32 -> win r l -> In x l -> In y l ->
  sort_key l x = sort_key l y -> td_seq x = td_seq y.
Proof.
  intros Hr W Hx Hy E.
  assert (off32 r (td_seq x) = off32 r (td_seq y)).
  { pose proof (proj1 (sort_key_le r l x y Hr W Hx Hy)). pose proof (proj1 (sort_key_le r l y x Hr W Hy Hx)). lia. }
  unfold win in W. rewrite Forall_forall in W. destruct (W x Hx) as [X1 X2], (W y Hy) as [Y1 Y2].
  exact (off32_inj r _ _ Hr X1 Y1 H).
Qed.

Lemma nodup_map_impl {A} (f g : A -> N) l :
  (forall x y, In x l -> In y l -> f x = f y -> g x = g y) -> NoDup (map g l) -> NoDup (map f l).
Proof.
  induction l as [|x l IH]; cbn; intros H ND; [constructor|].
  inversion ND as [|? ? Hn Hl]; subst. constructor.
  - intros Hin. apply in_map_iff in Hin. destruct Hin as (y & Ey & Hy). apply Hn.
    apply in_map_iff. exists y. split; [|exact Hy]. symmetry. apply H; [now left | now right | now symmetry].
  - apply IH; [|exact Hl]. intros a b Ha Hb. apply H; now right.
Qed.

Lemma sort_td_perm_eq r l l' :
  Permutation l l' -> r < two32 -> win r l -> NoDup (map td_seq l) -> sort_td l = sort_td l'.
Proof.
  intros P Hr W ND. unfold sort_td. rewrite !frev_rev. f_equal.
  assert (W' : win r l') by (eapply Permutation_Forall; eauto).
  assert (P1 : Permutation (fold_left (fun acc x => insert_rev (sort_key l) x acc) l []) l).
  { etransitivity; [apply fold_insert_perm|]. now rewrite app_nil_r. }
  assert (P2 : Permutation (fold_left (fun acc x => insert_rev (sort_key l') x acc) l' []) l').
  { etransitivity; [apply fold_insert_perm|]. now rewrite app_nil_r. }
  apply (descending_unique (sort_key l)).
  - apply fold_insert_descending. exact I.
  - eapply descending_k_impl; [|apply fold_insert_descending; exact I].
    intros x y Hx Hy H.
    assert (Hx' : In x l') by (eapply Permutation_in; eauto).
    assert (Hy' : In y l') by (eapply Permutation_in; eauto).
    assert (Hxl : In x l) by (eapply Permutation_in; [apply Permutation_sym; exact P | exact Hx']).
    assert (Hyl : In y l) by (eapply Permutation_in; [apply Permutation_sym; exact P | exact Hy']).
    apply (sort_key_le r l y x Hr W Hyl Hxl). now apply (sort_key_le r l' y x Hr W' Hy' Hx').
  - etransitivity; [exact P1|]. etransitivity; [exact P|]. now apply Permutation_sym.
  - eapply Permutation_NoDup; [apply Permutation_map, Permutation_sym; exact P1|].
    eapply nodup_map_impl; [|exact ND]. intros x y Hx Hy. now apply (sort_key_inj r l).
Qed.

(* what is rebuilt does not depend on the arrival order, provided the stored sequence numbers are
   distinct and all lie within 2^31 of one reference point (then every choice of base orders alike) *)
Theorem rebuild_order_invariant r l l' :
  Permutation l l' -> r < two32 -> win r l -> NoDup (map td_seq l) -> full_data l = full_data l'.
Proof. intros P Hr W ND. unfold full_data. now rewrite (sort_td_perm_eq r l l' P Hr W ND). Qed.

Lemma near_win isn l : near isn l -> win isn l.
Proof.
  unfold near, win. intros H. eapply Forall_impl; [|exact H]. cbn. intros d (H1 & H2 & H3).
  split; [exact H3|]. rewrite off32_plain by assumption. lia.
Qed.

(* a gap-free chain of non-empty segments has strictly increasing sequence numbers *)
Lemma chain_seqs_above ps : forall s y, In y (map td_seq (chain_tds s ps)) -> s <= y.
Proof.
  intros s y H. apply in_map_iff in H. destruct H as (td & <- & H). now apply chain_lower in H.
Qed.
Lemma chain_nodup ps : forall s, Forall (fun p => p <> []) ps -> NoDup (map td_seq (chain_tds s ps)).
Proof.
  induction ps as [|p ps IH]; intros s H; cbn; [constructor|].
  inversion H as [|? ? Hp Hps]; subst. constructor; [|now apply IH].
  intros Hin. apply chain_seqs_above in Hin.
  assert (0 < len_N p) by (unfold len_N; destruct p; [congruence | cbn; lia]). lia.
Qed.

(* all segments stored, in any arrival order: the rebuilt stream is the in-order stream *)
Theorem rebuild_any_order isn data0 ps stored :
  data0_ok isn data0 -> Forall (fun p => p <> []) ps ->
  isn < two32 -> near isn (data0 ++ chain_tds (isn + 1) ps) ->
  Permutation stored (data0 ++ chain_tds (isn + 1) ps) ->
  full_data stored = concat ps.
Proof.
  intros H0 Hne Hi Hn P. rewrite <- (full_data_chain data0 isn ps H0 Hi Hn).
  apply (rebuild_order_invariant isn); [exact P | exact Hi | |].
  - apply near_win. eapply Permutation_Forall; [apply Permutation_sym; exact P | exact Hn].
  - eapply Permutation_NoDup; [apply Permutation_map, Permutation_sym; exact P|].
    rewrite map_app. destruct H0 as [-> | ->]; cbn [map app].
    + now apply chain_nodup.
    + constructor; [|now apply chain_nodup]. intros Hin. apply chain_seqs_above in Hin. cbn in Hin. lia.
Qed.
