(* C07, concrete instances: the packet-level models of the real analyzers ARE keyed machines.
   Part 1 (generic): a concrete machine `cstep : C -> P -> C * list O` that, on every packet that
     "fits" (no eviction), agrees with Keyed.step on the abstraction `abs : C -> K -> option S`
     inherits run_local / isolation / interleaving_invariant / no_disable of Base/Keyed.v.
   Part 2: the TLS analyzer (Model/TlsAnalyzer.v): key = directed 4-tuple, slot = ClientHello reader.
   The TCP analyzer is in Proofs/KeyedInstancesTcp.v. *)
From Coq Require Import List NArith Bool Lia.
From Coq Require Import Strings.Byte.
From HN Require Import Base.Bytes Base.Keyed Proofs.KeyedProofs
                       Model.Pnet Model.TlsHello Model.Ja4 Model.TlsReader Model.TlsAnalyzer
                       Proofs.ReaderProofs.
Import ListNotations.
Open Scope N_scope.

(* ================================================================== Part 1: generic simulation *)
Section Sim.
  Variables (P K S O C : Type).
  Variable key : P -> K.
  Variable keqb : K -> K -> bool.
  Hypothesis keqb_eq : forall a b, keqb a b = true <-> a = b.
  Variable lstep : option S -> P -> option S * list O.
  Variable cstep : C -> P -> C * list O.          (* the concrete machine *)
  Variable abs : C -> K -> option S.              (* its table, read as a function of the key *)
  Variable fits : C -> P -> bool.                 (* the packet does not overflow the table *)

  Notation run := (Keyed.run P K S O key keqb lstep).
  Notation step := (Keyed.step P K S O key keqb lstep).
  Notation upd := (Keyed.upd K S keqb).
  Notation proj := (Keyed.proj K O keqb).
  Notation fk := (Keyed.fk P K key keqb).

  (* one-step simulation: same outputs, abs commutes with the step *)
  Hypothesis sim : forall c p, fits c p = true ->
    snd (cstep c p) = snd (lstep (abs c (key p)) p) /\
    forall k, abs (fst (cstep c p)) k = upd (abs c) (key p) (fst (lstep (abs c (key p)) p)) k.

  Fixpoint crun (c : C) (tr : list P) : C * list (K * O) :=
    match tr with
    | [] => (c, [])
    | p :: r => let '(c1, o1) := cstep c p in
                let '(c2, o2) := crun c1 r in (c2, map (fun x => (key p, x)) o1 ++ o2)
    end.
  Fixpoint within (c : C) (tr : list P) : Prop :=
    match tr with
    | [] => True
    | p :: r => fits c p = true /\ within (fst (cstep c p)) r
    end.

  (* Keyed.run only looks at the state pointwise *)
  Lemma run_ext : forall tr s s', (forall k, s k = s' k) ->
    snd (run s tr) = snd (run s' tr) /\ forall k, fst (run s tr) k = fst (run s' tr) k.
  Proof.
    induction tr as [|p tr IH]; intros s s' H; cbn [Keyed.run].
    - split; [reflexivity | exact H].
    - unfold Keyed.step. rewrite (H (key p)).
      destruct (lstep (s' (key p)) p) as [v o].
      assert (Hu : forall k, upd s (key p) v k = upd s' (key p) v k).
      { intro k. unfold Keyed.upd. destruct (keqb k (key p)); [reflexivity | apply H]. }
      specialize (IH _ _ Hu).
      destruct (run (upd s (key p) v) tr) as [s2 o2], (run (upd s' (key p) v) tr) as [s2' o2'].
      cbn [fst snd] in *. destruct IH as [IH1 IH2]. split; [now rewrite IH1 | exact IH2].
  Qed.

  (* the concrete run IS the keyed run of the abstraction *)
  Theorem sim_run : forall tr c s, within c tr -> (forall k, abs c k = s k) ->
    snd (crun c tr) = snd (run s tr) /\ forall k, abs (fst (crun c tr)) k = fst (run s tr) k.
  Proof.
    induction tr as [|p tr IH]; intros c s W H; cbn [crun Keyed.run].
    - split; [reflexivity | exact H].
    - destruct W as [Wf Wr]. destruct (sim c p Wf) as [So Sa].
      unfold Keyed.step. rewrite <- (H (key p)).
      destruct (cstep c p) as [c1 o1]. destruct (lstep (abs c (key p)) p) as [v o].
      cbn [fst snd] in *. subst o1.
      assert (Hu : forall k, abs c1 k = upd s (key p) v k).
      { intro k. rewrite Sa. unfold Keyed.upd. destruct (keqb k (key p)); [reflexivity | apply H]. }
      specialize (IH c1 _ Wr Hu).
      destruct (crun c1 tr) as [c2 o2], (run (upd s (key p) v) tr) as [s2 o2'].
      cbn [fst snd] in *. destruct IH as [IH1 IH2]. split; [now rewrite IH1 | exact IH2].
  Qed.

  Corollary sim_run_abs : forall tr c, within c tr -> snd (crun c tr) = snd (run (abs c) tr).
  Proof. intros tr c W. apply (sim_run tr c (abs c) W). reflexivity. Qed.

  (* ---- the generic C07 theorems, transported to the concrete machine ---- *)
  Theorem concrete_isolation : forall tr c k,
    within c tr -> within c (fk k tr) ->
    proj k (snd (crun c tr)) = proj k (snd (crun c (fk k tr))).
  Proof.
    intros tr c k W Wk. rewrite (sim_run_abs _ _ W), (sim_run_abs _ _ Wk).
    apply (Keyed.isolation P K S O key keqb keqb_eq lstep).
  Qed.

  Theorem concrete_interleaving_invariant : forall tr tr' c,
    within c tr -> within c tr' -> (forall k, fk k tr = fk k tr') ->
    forall k, proj k (snd (crun c tr)) = proj k (snd (crun c tr')).
  Proof.
    intros tr tr' c W W' H k. rewrite (sim_run_abs _ _ W), (sim_run_abs _ _ W').
    now apply (Keyed.interleaving_invariant P K S O key keqb keqb_eq lstep).
  Qed.

  Theorem concrete_no_disable : forall h probe c k,
    within c (h ++ probe) -> within c probe ->
    (forall p, In p h -> keqb (key p) k = false) ->
    proj k (snd (crun c (h ++ probe))) = proj k (snd (crun c probe)).
  Proof.
    intros h probe c k W W' H. rewrite (sim_run_abs _ _ W), (sim_run_abs _ _ W').
    now apply (no_disable P K S O key keqb keqb_eq lstep).
  Qed.

  (* when every packet of the trace has key k, the projection on k is the whole output *)
  Lemma proj_all : forall tr c k, (forall p, In p tr -> key p = k) ->
    proj k (snd (crun c tr)) = map snd (snd (crun c tr)).
  Proof.
    induction tr as [|p tr IH]; intros c k H; cbn [crun]; [reflexivity|].
    destruct (cstep c p) as [c1 o1]. specialize (IH c1 k (fun q Hq => H q (or_intror Hq))).
    destruct (crun c1 tr) as [c2 o2]. cbn [snd] in *.
    rewrite (Keyed.proj_app K O keqb), map_app, IH. f_equal.
    rewrite (H p (or_introl eq_refl)). rewrite (Keyed.proj_tag_same K O keqb keqb_eq).
    rewrite map_map. cbn [snd]. now rewrite map_id.
  Qed.
  Lemma fk_keys : forall tr k p, In p (fk k tr) -> key p = k.
  Proof.
    intros tr k p H. unfold Keyed.fk in H. apply filter_In in H. destruct H as [_ H]. now apply keqb_eq.
  Qed.
  (* isolation, read without tags: what connection k is told in the interleaved run is, in order,
     everything the analyzer says when it sees the packets of k alone *)
  Corollary concrete_isolation_alone : forall tr c k,
    within c tr -> within c (fk k tr) ->
    proj k (snd (crun c tr)) = map snd (snd (crun c (fk k tr))).
  Proof.
    intros tr c k W Wk. rewrite (concrete_isolation tr c k W Wk).
    apply proj_all. intros p Hp. exact (fk_keys tr k p Hp).
  Qed.

  (* ---- "within capacity" from a census of keys: if all keys that the table holds or the trace can
          insert come from a list U of at most cap keys, no packet overflows the table ---- *)
  Variable keys : C -> list K.                    (* the keys the table holds *)
  Variable tracked : P -> bool.                   (* the packet may insert its key *)
  Variable cap : nat.
  Hypothesis keys_step : forall c p, fits c p = true -> NoDup (keys c) ->
    NoDup (keys (fst (cstep c p))) /\
    incl (keys (fst (cstep c p))) (if tracked p then key p :: keys c else keys c).
  Hypothesis fits_fails : forall c p, fits c p = false ->
    tracked p = true /\ ~ In (key p) (keys c) /\ (cap <= length (keys c))%nat.

  Theorem within_by_census : forall (U : list K) tr c,
    NoDup (keys c) -> incl (keys c) U ->
    (forall p, In p tr -> tracked p = true -> In (key p) U) ->
    (length U <= cap)%nat -> within c tr.
  Proof.
    intros U. induction tr as [|p tr IH]; intros c Hnd Hin Htr Hlen; cbn [within]; [exact I|].
    assert (Hf : fits c p = true).
    { destruct (fits c p) eqn:E; [reflexivity|]. destruct (fits_fails c p E) as [Ht [Hni Hc]].
      assert (Hnd' : NoDup (key p :: keys c)) by (constructor; assumption).
      assert (Hin' : incl (key p :: keys c) U).
      { intros x [<-|Hx]; [apply (Htr p (or_introl eq_refl) Ht) | now apply Hin]. }
      pose proof (NoDup_incl_length Hnd' Hin') as L. cbn [length] in L. lia. }
    split; [exact Hf|]. destruct (keys_step c p Hf Hnd) as [Hnd1 Hin1]. apply IH.
    - exact Hnd1.
    - intros x Hx. apply Hin1 in Hx. destruct (tracked p) eqn:Et.
      + destruct Hx as [<-|Hx]; [apply (Htr p (or_introl eq_refl) Et) | now apply Hin].
      + now apply Hin.
    - intros q Hq. apply Htr. now right.
    - exact Hlen.
  Qed.
End Sim.

(* ================================================================== Part 2: the TLS analyzer *)

(* ---- the flow table read as a function of the key ---- *)
Lemma flow_get_remove_k fl k k' :
  flow_get (flow_remove fl k) k' = if k' =? k then None else flow_get fl k'.
Proof.
  unfold flow_remove. induction fl as [|[k0 r0] t IH]; cbn [filter fst flow_get].
  - now destruct (k' =? k).
  - destruct (k0 =? k) eqn:E0; cbn [negb flow_get].
    + apply N.eqb_eq in E0. subst k0. rewrite IH.
      destruct (k' =? k) eqn:E; [reflexivity|]. rewrite N.eqb_sym, E. reflexivity.
    + rewrite IH. destruct (k0 =? k') eqn:E1; [|reflexivity].
      apply N.eqb_eq in E1. subst k0. rewrite E0. reflexivity.
Qed.
Lemma flow_get_set_k fl k rd rd0 k' :
  flow_get fl k = Some rd0 ->
  flow_get (flow_set fl k rd) k' = if k' =? k then Some rd else flow_get fl k'.
Proof.
  induction fl as [|[k0 r0] t IH]; cbn [flow_get flow_set]; [discriminate|].
  destruct (k0 =? k) eqn:E0; cbn [flow_get]; intro H.
  - apply N.eqb_eq in E0. subst k0. rewrite (N.eqb_sym k k'). now destruct (k' =? k).
  - destruct (k0 =? k') eqn:E1.
    + apply N.eqb_eq in E1. subst k0. now rewrite E0.
    + now apply IH.
Qed.
Lemma flow_get_app_k fl k rd k' :
  flow_get fl k = None ->
  flow_get (fl ++ [(k, rd)]) k' = if k' =? k then Some rd else flow_get fl k'.
Proof.
  induction fl as [|[k0 r0] t IH]; cbn [flow_get app]; intro H.
  - rewrite (N.eqb_sym k k'). now destruct (k' =? k).
  - destruct (k0 =? k) eqn:E0; [discriminate|].
    destruct (k0 =? k') eqn:E1.
    + apply N.eqb_eq in E1. subst k0. now rewrite E0.
    + now apply IH.
Qed.

(* ---- the local step: process_tcp_packet as a function of the slot of its own flow ---- *)
Definition flow_lstep (slot : option reader) (payload : bytes) : option reader * tls_result :=
  match payload with
  | [] => (slot, RNone)
  | _ =>
      let is_tls := match slot with Some _ => true | None => is_tls_traffic payload end in
      if negb is_tls then (slot, RNone)
      else
        let rd := match slot with Some r => r | None => reader_new end in
        match add_bytes rd payload with
        | (_, RSig s) => (None, RSig s)
        | (rd', RNone) => (Some rd', RNone)
        | (_, RErr) => (None, RNone)
        end
  end.

Lemma flow_step_sim cap fl k payload :
  (flow_get fl k = None -> lenN fl < cap) ->
  snd (flow_step cap fl k payload) = snd (flow_lstep (flow_get fl k) payload) /\
  forall k', flow_get (fst (flow_step cap fl k payload)) k'
             = if k' =? k then fst (flow_lstep (flow_get fl k) payload) else flow_get fl k'.
Proof.
  intro Hcap.
  assert (Hid : forall k', flow_get fl k' = if k' =? k then flow_get fl k else flow_get fl k').
  { intro k'. destruct (k' =? k) eqn:E; [apply N.eqb_eq in E; now subst|reflexivity]. }
  unfold flow_step, flow_lstep. destruct payload as [|b0 pl]; [split; [reflexivity|exact Hid]|].
  set (payload := b0 :: pl).
  destruct (flow_get fl k) as [rd0|] eqn:G.
  - cbn [negb]. rewrite G.
    destruct (add_bytes rd0 payload) as [rd' r]. destruct r as [s| |]; cbn [fst snd].
    + split; [reflexivity|]. intro k'. apply flow_get_remove_k.
    + split; [reflexivity|]. intro k'. now apply (flow_get_set_k fl k rd' rd0).
    + split; [reflexivity|]. intro k'. apply flow_get_remove_k.
  - destruct (is_tls_traffic payload); cbn [negb]; [|split; [reflexivity|exact Hid]].
    specialize (Hcap eq_refl).
    assert (Hins : flow_insert cap fl k reader_new = fl ++ [(k, reader_new)]).
    { unfold flow_insert. destruct (cap <? lenN (fl ++ [(k, reader_new)])) eqn:E; [|reflexivity].
      apply N.ltb_lt in E. rewrite lenN_app, lenN_cons, lenN_nil in E. lia. }
    rewrite Hins. rewrite (flow_get_app_new fl k reader_new G).
    destruct (add_bytes reader_new payload) as [rd' r]. destruct r as [s| |]; cbn [fst snd].
    + split; [reflexivity|]. intro k'. rewrite flow_get_remove_k.
      destruct (k' =? k) eqn:E; [reflexivity|]. rewrite (flow_get_app_k fl k reader_new k' G), E. reflexivity.
    + split; [reflexivity|]. intro k'.
      rewrite (flow_get_set_k _ k rd' reader_new k' (flow_get_app_new fl k reader_new G)).
      destruct (k' =? k) eqn:E; [reflexivity|]. rewrite (flow_get_app_k fl k reader_new k' G), E. reflexivity.
    + split; [reflexivity|]. intro k'. rewrite flow_get_remove_k.
      destruct (k' =? k) eqn:E; [reflexivity|]. rewrite (flow_get_app_k fl k reader_new k' G), E. reflexivity.
Qed.

(* ---- the TLS analyzer as a keyed machine over frames ---- *)
Definition tls_lstep (slot : option reader) (f : bytes) : option reader * list tls_out :=
  match tls_frame_class f with
  | CErr => (slot, [TOErr])
  | CNoTcp => (slot, [TONone])
  | CSeg g => let '(v, r) := flow_lstep slot (g_payload g) in (v, [tls_out_of g r])
  end.
Definition tls_abs (fl : tls_state) : N -> option reader := flow_get fl.

Lemma Neqb_iff : forall a b : N, N.eqb a b = true <-> a = b.
Proof. intros. apply N.eqb_eq. Qed.

Lemma tls_step_sim cap fl f : tls_fits cap fl f = true ->
  snd (tls_packet_results cap fl f) = snd (tls_lstep (tls_abs fl (tls_key f)) f) /\
  forall k, tls_abs (fst (tls_packet_results cap fl f)) k
            = Keyed.upd N reader N.eqb (tls_abs fl) (tls_key f) (fst (tls_lstep (tls_abs fl (tls_key f)) f)) k.
Proof.
  unfold tls_fits, tls_packet_results, tls_packet_step, tls_lstep, tls_key, tls_abs, Keyed.upd.
  destruct (tls_frame_class f) as [| |g]; intro Hf; cbn [fst snd].
  - split; [reflexivity|]. intro k. destruct (k =? 0) eqn:E; [apply N.eqb_eq in E; now subst|reflexivity].
  - split; [reflexivity|]. intro k. destruct (k =? 0) eqn:E; [apply N.eqb_eq in E; now subst|reflexivity].
  - assert (Hcap : flow_get fl (g_key g) = None -> lenN fl < cap).
    { intro G. rewrite G in Hf. now apply N.ltb_lt. }
    destruct (flow_step_sim cap fl (g_key g) (g_payload g) Hcap) as [So Sa].
    destruct (flow_step cap fl (g_key g) (g_payload g)) as [fl' r].
    destruct (flow_lstep (flow_get fl (g_key g)) (g_payload g)) as [v r'].
    cbn [fst snd] in *. subst r'. split; [reflexivity | exact Sa].
Qed.

(* the concrete tagged run of Part 1, instantiated *)
Definition tls_crun (cap : N) := crun bytes N tls_out tls_state tls_key (tls_packet_results cap).
Definition tls_within (cap : N) := within bytes tls_out tls_state (tls_packet_results cap) (tls_fits cap).

Lemma tls_results_crun cap : forall tr fl, tls_results cap fl tr = snd (tls_crun cap fl tr).
Proof.
  unfold tls_results, tls_crun. induction tr as [|f tr IH]; intro fl; [reflexivity|].
  cbn [tls_run crun map]. unfold tls_packet_results.
  destruct (tls_packet_step cap fl f) as [fl1 o]. specialize (IH fl1).
  destruct (tls_run cap fl1 tr) as [fl2 os].
  destruct (crun bytes N tls_out tls_state tls_key
              (fun fl0 f0 => let '(fl', o0) := tls_packet_step cap fl0 f0 in (fl', [o0])) fl1 tr) as [c2 o2] eqn:E.
  cbn [snd combine map app] in *. unfold tls_packet_results in IH. rewrite E in IH. cbn [snd] in IH.
  now rewrite IH.
Qed.

Lemma tls_within_b cap : forall tr fl, tls_within_capacityb cap fl tr = true <-> tls_within cap fl tr.
Proof.
  unfold tls_within. induction tr as [|f tr IH]; intro fl; cbn [tls_within_capacityb within]; [tauto|].
  rewrite andb_true_iff.
  assert (E : fst (tls_packet_results cap fl f) = fst (tls_packet_step cap fl f)).
  { unfold tls_packet_results. now destruct (tls_packet_step cap fl f). }
  rewrite E, IH. tauto.
Qed.

(* a sufficient condition that does not mention the run: table entries plus packets still to come do
   not exceed the capacity (every packet adds at most one entry) *)
Lemma flow_remove_len fl k : lenN (flow_remove fl k) <= lenN fl.
Proof.
  unfold flow_remove, lenN. induction fl as [|e t IH]; cbn [filter]; [lia|].
  destruct (negb (fst e =? k)); cbn [length]; lia.
Qed.
Lemma flow_set_len fl k rd : lenN (flow_set fl k rd) = lenN fl.
Proof.
  unfold lenN. induction fl as [|[k0 r0] t IH]; cbn [flow_set]; [reflexivity|].
  destruct (k0 =? k); cbn [length]; lia.
Qed.
Lemma flow_insert_len cap fl k rd : lenN (flow_insert cap fl k rd) <= lenN fl + 1.
Proof.
  unfold flow_insert. destruct (cap <? lenN (fl ++ [(k, rd)])).
  - destruct fl as [|e t]; cbn [app tl]; rewrite ?lenN_app, ?lenN_cons, ?lenN_nil; lia.
  - rewrite lenN_app, lenN_cons, lenN_nil. lia.
Qed.
Lemma flow_step_len cap fl k payload : lenN (fst (flow_step cap fl k payload)) <= lenN fl + 1.
Proof.
  unfold flow_step. destruct payload as [|b0 pl]; cbn [fst]; [lia|].
  set (payload := b0 :: pl).
  destruct (negb match flow_get fl k with Some _ => true | None => is_tls_traffic payload end); cbn [fst]; [lia|].
  set (fl1 := match flow_get fl k with Some _ => fl | None => flow_insert cap fl k reader_new end).
  assert (H1 : lenN fl1 <= lenN fl + 1).
  { unfold fl1. destruct (flow_get fl k); [lia | apply flow_insert_len]. }
  destruct (flow_get fl1 k) as [rd|]; cbn [fst]; [|exact H1].
  destruct (add_bytes rd payload) as [rd' r]. destruct r; cbn [fst].
  - pose proof (flow_remove_len fl1 k). lia.
  - rewrite flow_set_len. exact H1.
  - pose proof (flow_remove_len fl1 k). lia.
Qed.
Lemma tls_step_len cap fl f : lenN (fst (tls_packet_results cap fl f)) <= lenN fl + 1.
Proof.
  unfold tls_packet_results, tls_packet_step. destruct (tls_frame_class f) as [| |g]; cbn [fst]; try lia.
  pose proof (flow_step_len cap fl (g_key g) (g_payload g)) as H.
  destruct (flow_step cap fl (g_key g) (g_payload g)) as [fl' r]. exact H.
Qed.
Lemma tls_within_by_length cap : forall tr fl, lenN fl + lenN tr <= cap -> tls_within cap fl tr.
Proof.
  unfold tls_within. induction tr as [|f tr IH]; intros fl H; cbn [within]; [exact I|].
  rewrite lenN_cons in H. split.
  - unfold tls_fits. destruct (tls_frame_class f) as [| |g]; try reflexivity.
    destruct (flow_get fl (g_key g)); [reflexivity|]. apply N.ltb_lt. lia.
  - apply IH. pose proof (tls_step_len cap fl f). lia.
Qed.
Lemma fk_len {P K} (key : P -> K) keqb k (tr : list P) : lenN (Keyed.fk P K key keqb k tr) <= lenN tr.
Proof.
  unfold Keyed.fk, lenN. induction tr as [|p t IH]; cbn [filter]; [lia|].
  destruct (keqb (key p) k); cbn [length]; lia.
Qed.

(* a sufficient condition in terms of flows: every key in the table or inserted by the trace belongs to a
   list U of at most cap flow keys ("at most cap live flows") *)
Definition tls_keys (fl : tls_state) : list N := map fst fl.
Definition tls_tracked (f : bytes) : bool := match tls_frame_class f with CSeg _ => true | _ => false end.

Lemma flow_get_none_keys fl k : flow_get fl k = None <-> ~ In k (tls_keys fl).
Proof.
  unfold tls_keys. induction fl as [|[k0 r0] t IH]; cbn [flow_get map fst In]; [tauto|].
  destruct (k0 =? k) eqn:E.
  - apply N.eqb_eq in E. split; [discriminate | intro H; exfalso; apply H; now left].
  - apply N.eqb_neq in E. rewrite IH. tauto.
Qed.
Lemma keys_remove fl k : tls_keys (flow_remove fl k) = filter (fun x => negb (x =? k)) (tls_keys fl).
Proof.
  unfold tls_keys, flow_remove. induction fl as [|[k0 r0] t IH]; cbn [filter map fst]; [reflexivity|].
  destruct (negb (k0 =? k)); cbn [map fst]; now rewrite IH.
Qed.
Lemma keys_set fl k rd : tls_keys (flow_set fl k rd) = tls_keys fl.
Proof.
  unfold tls_keys. induction fl as [|[k0 r0] t IH]; cbn [flow_set map fst]; [reflexivity|].
  destruct (k0 =? k) eqn:E; cbn [map fst]; [apply N.eqb_eq in E; now subst | now rewrite IH].
Qed.
Lemma keys_remove_ok fl k : NoDup (tls_keys fl) ->
  NoDup (tls_keys (flow_remove fl k)) /\ incl (tls_keys (flow_remove fl k)) (tls_keys fl).
Proof. intro H. rewrite keys_remove. split; [now apply NoDup_filter | apply incl_filter]. Qed.

Lemma NoDup_snoc {A} (l : list A) (x : A) : NoDup l -> ~ In x l -> NoDup (l ++ [x]).
Proof.
  induction l as [|y l IH]; cbn [app]; intros Hnd Hni; [constructor; [intros []|constructor]|].
  apply NoDup_cons_iff in Hnd. destruct Hnd as [Hy Hl]. constructor.
  - intro H. apply in_app_or in H. destruct H as [H|[<-|[]]]; [contradiction | apply Hni; now left].
  - apply IH; [exact Hl | intro H; apply Hni; now right].
Qed.

Lemma flow_step_keys cap fl k payload :
  (flow_get fl k = None -> lenN fl < cap) -> NoDup (tls_keys fl) ->
  NoDup (tls_keys (fst (flow_step cap fl k payload))) /\
  incl (tls_keys (fst (flow_step cap fl k payload))) (k :: tls_keys fl).
Proof.
  intros Hcap Hnd. unfold flow_step. destruct payload as [|b0 pl]; cbn [fst]; [split; [exact Hnd | apply incl_tl, incl_refl]|].
  set (payload := b0 :: pl).
  destruct (negb match flow_get fl k with Some _ => true | None => is_tls_traffic payload end); cbn [fst];
    [split; [exact Hnd | apply incl_tl, incl_refl]|].
  set (fl1 := match flow_get fl k with Some _ => fl | None => flow_insert cap fl k reader_new end).
  assert (H1 : NoDup (tls_keys fl1) /\ incl (tls_keys fl1) (k :: tls_keys fl)).
  { unfold fl1. destruct (flow_get fl k) eqn:G; [split; [exact Hnd | apply incl_tl, incl_refl]|].
    specialize (Hcap eq_refl). unfold flow_insert.
    destruct (cap <? lenN (fl ++ [(k, reader_new)])) eqn:E.
    { apply N.ltb_lt in E. rewrite lenN_app, lenN_cons, lenN_nil in E. lia. }
    unfold tls_keys. rewrite map_app. cbn [map fst]. split.
    - apply NoDup_snoc; [exact Hnd | now apply flow_get_none_keys].
    - intros x Hx. apply in_app_or in Hx. destruct Hx as [Hx|[<-|[]]]; [now right | now left]. }
  destruct H1 as [N1 I1].
  destruct (flow_get fl1 k) as [rd|]; cbn [fst]; [|split; assumption].
  destruct (add_bytes rd payload) as [rd' r]. destruct r; cbn [fst].
  - destruct (keys_remove_ok fl1 k N1) as [A B]. split; [exact A | eapply incl_tran; eassumption].
  - rewrite keys_set. split; assumption.
  - destruct (keys_remove_ok fl1 k N1) as [A B]. split; [exact A | eapply incl_tran; eassumption].
Qed.

Lemma tls_keys_step cap fl f : tls_fits cap fl f = true -> NoDup (tls_keys fl) ->
  NoDup (tls_keys (fst (tls_packet_results cap fl f))) /\
  incl (tls_keys (fst (tls_packet_results cap fl f))) (if tls_tracked f then tls_key f :: tls_keys fl else tls_keys fl).
Proof.
  unfold tls_fits, tls_packet_results, tls_packet_step, tls_tracked, tls_key.
  destruct (tls_frame_class f) as [| |g]; intros Hf Hnd; cbn [fst]; try (split; [exact Hnd | apply incl_refl]).
  assert (Hcap : flow_get fl (g_key g) = None -> lenN fl < cap).
  { intro G. rewrite G in Hf. now apply N.ltb_lt. }
  pose proof (flow_step_keys cap fl (g_key g) (g_payload g) Hcap Hnd) as H.
  destruct (flow_step cap fl (g_key g) (g_payload g)) as [fl' r]. exact H.
Qed.
Lemma tls_fits_fails cap fl f : tls_fits cap fl f = false ->
  tls_tracked f = true /\ ~ In (tls_key f) (tls_keys fl) /\ (N.to_nat cap <= length (tls_keys fl))%nat.
Proof.
  unfold tls_fits, tls_tracked, tls_key. destruct (tls_frame_class f) as [| |g]; try discriminate.
  destruct (flow_get fl (g_key g)) eqn:G; [discriminate|]. intro H. apply N.ltb_ge in H.
  split; [reflexivity|]. split; [now apply flow_get_none_keys|].
  unfold tls_keys. rewrite map_length. unfold lenN in H. lia.
Qed.

Theorem tls_within_by_census cap (U : list N) tr fl :
  NoDup (tls_keys fl) -> incl (tls_keys fl) U ->
  (forall f, In f tr -> tls_tracked f = true -> In (tls_key f) U) ->
  lenN U <= cap -> tls_within_capacityb cap fl tr = true.
Proof.
  intros Hnd Hin Htr Hlen. apply tls_within_b.
  apply (within_by_census bytes N reader tls_out tls_state tls_key N.eqb tls_lstep (tls_packet_results cap) tls_abs
           (tls_fits cap) (tls_step_sim cap) tls_keys tls_tracked (N.to_nat cap) (tls_keys_step cap)
           (tls_fits_fails cap) U tr fl Hnd Hin Htr).
  unfold lenN in Hlen. lia.
Qed.

(* ---- the instance theorems ---- *)
Notation tls_proj := (Keyed.proj N tls_out N.eqb).
Notation tls_fk := (Keyed.fk bytes N tls_key N.eqb).

(* the TLS analyzer model is the keyed machine (tls_key, tls_lstep) over its flow table *)
Theorem tls_is_keyed cap tr fl : tls_within_capacityb cap fl tr = true ->
  tls_results cap fl tr = snd (Keyed.run bytes N reader tls_out tls_key N.eqb tls_lstep (tls_abs fl) tr).
Proof.
  intro W. apply tls_within_b in W. rewrite tls_results_crun.
  exact (sim_run_abs bytes N reader tls_out tls_state tls_key N.eqb tls_lstep (tls_packet_results cap)
           tls_abs (tls_fits cap) (tls_step_sim cap) tr fl W).
Qed.

Theorem tls_isolation cap tr fl k :
  tls_within_capacityb cap fl tr = true -> tls_within_capacityb cap fl (tls_fk k tr) = true ->
  tls_proj k (tls_results cap fl tr) = tls_proj k (tls_results cap fl (tls_fk k tr))
  /\ tls_proj k (tls_results cap fl tr) = snd (tls_run cap fl (tls_fk k tr)).
Proof.
  intros W Wk. apply tls_within_b in W. apply tls_within_b in Wk. rewrite !tls_results_crun. split.
  - exact (concrete_isolation bytes N reader tls_out tls_state tls_key N.eqb Neqb_iff tls_lstep
             (tls_packet_results cap) tls_abs (tls_fits cap) (tls_step_sim cap) tr fl k W Wk).
  - unfold tls_crun.
    rewrite (concrete_isolation_alone bytes N reader tls_out tls_state tls_key N.eqb Neqb_iff tls_lstep
             (tls_packet_results cap) tls_abs (tls_fits cap) (tls_step_sim cap) tr fl k W Wk).
    pose proof (tls_results_crun cap (tls_fk k tr) fl) as E. unfold tls_crun in E. rewrite <- E. clear E.
    unfold tls_results.
    assert (L : forall (a : list N) (b : list tls_out), length a = length b -> map snd (combine a b) = b).
    { induction a as [|x a IH]; intros [|y b] H; cbn in *; try reflexivity; try discriminate. f_equal. apply IH. lia. }
    apply L. rewrite map_length.
    generalize (tls_fk k tr) fl. intro l. induction l as [|f l IH]; intro fl0; [reflexivity|].
    cbn [tls_run]. destruct (tls_packet_step cap fl0 f) as [fl1 o]. specialize (IH fl1).
    destruct (tls_run cap fl1 l) as [fl2 os]. cbn [snd length] in *. now rewrite IH.
Qed.

Theorem tls_interleaving_invariant cap tr tr' fl :
  tls_within_capacityb cap fl tr = true -> tls_within_capacityb cap fl tr' = true ->
  (forall k, tls_fk k tr = tls_fk k tr') ->
  forall k, tls_proj k (tls_results cap fl tr) = tls_proj k (tls_results cap fl tr').
Proof.
  intros W W' H k. apply tls_within_b in W. apply tls_within_b in W'. rewrite !tls_results_crun.
  exact (concrete_interleaving_invariant bytes N reader tls_out tls_state tls_key N.eqb Neqb_iff tls_lstep
           (tls_packet_results cap) tls_abs (tls_fits cap) (tls_step_sim cap) tr tr' fl W W' H k).
Qed.

Theorem tls_no_disable cap h probe fl k :
  tls_within_capacityb cap fl (h ++ probe) = true -> tls_within_capacityb cap fl probe = true ->
  (forall f, In f h -> tls_key f <> k) ->
  tls_proj k (tls_results cap fl (h ++ probe)) = tls_proj k (tls_results cap fl probe).
Proof.
  intros W W' H. apply tls_within_b in W. apply tls_within_b in W'. rewrite !tls_results_crun.
  apply (concrete_no_disable bytes N reader tls_out tls_state tls_key N.eqb Neqb_iff tls_lstep
           (tls_packet_results cap) tls_abs (tls_fits cap) (tls_step_sim cap) h probe fl k W W').
  intros f Hf. apply N.eqb_neq. now apply H.
Qed.

(* the capacity hypotheses follow from a plain count *)
Theorem tls_capacity_by_count cap tr fl k :
  lenN fl + lenN tr <= cap ->
  tls_within_capacityb cap fl tr = true /\ tls_within_capacityb cap fl (tls_fk k tr) = true.
Proof.
  intro H. split; apply tls_within_b; apply tls_within_by_length; [exact H|].
  pose proof (fk_len tls_key N.eqb k tr). lia.
Qed.

Theorem tls_capacity_by_census cap (U : list N) tr fl k :
  NoDup (tls_keys fl) -> incl (tls_keys fl) U ->
  (forall f, In f tr -> tls_tracked f = true -> In (tls_key f) U) ->
  lenN U <= cap ->
  tls_within_capacityb cap fl tr = true /\ tls_within_capacityb cap fl (tls_fk k tr) = true.
Proof.
  intros Hnd Hin Htr Hlen. split; apply (tls_within_by_census cap U); try assumption.
  intros f Hf. apply Htr. unfold Keyed.fk in Hf. apply filter_In in Hf. tauto.
Qed.

(* ---- the key is the directed 4-tuple: distinct tuples, distinct keys; no flow has key 0 ---- *)
Lemma be16_at_lt l i : be16_at l i < 65536.
Proof. unfold be16_at, byte_at. pose proof (b2n_lt (nth (N.to_nat i) l x00)). pose proof (b2n_lt (nth (N.to_nat (i + 1)) l x00)). lia. Qed.
Lemma be32_at_lt l i : be32_at l i < 4294967296.
Proof. unfold be32_at. pose proof (be16_at_lt l i). pose proof (be16_at_lt l (i + 2)). lia. Qed.
Lemma v4_addr_lt p i : v4_addr p i < P128.
Proof. unfold v4_addr, P128. pose proof (be32_at_lt p i). lia. Qed.
Lemma v6_addr_lt p i : v6_addr p i < P128.
Proof.
  unfold v6_addr, P128, P32.
  pose proof (be32_at_lt p i). pose proof (be32_at_lt p (i + 4)).
  pose proof (be32_at_lt p (i + 8)). pose proof (be32_at_lt p (i + 12)). lia.
Qed.
Theorem tls_flow_key_injective v s d sp dp v' s' d' sp' dp' :
  s < P128 -> d < P128 -> sp < 65536 -> dp < 65536 ->
  s' < P128 -> d' < P128 -> sp' < 65536 -> dp' < 65536 ->
  tls_flow_key v s d sp dp = tls_flow_key v' s' d' sp' dp' ->
  v = v' /\ s = s' /\ d = d' /\ sp = sp' /\ dp = dp'.
Proof. unfold tls_flow_key, P128. lia. Qed.
Lemma tls_flow_key_nonzero v s d sp dp : 0 < v -> tls_flow_key v s d sp dp <> 0.
Proof. unfold tls_flow_key, P128. lia. Qed.
