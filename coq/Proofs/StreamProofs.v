(* C09: the flow model (Model/HttpFlow.v) reports what the stream specification (Spec/StreamSpec.v)
   demands on every trace outside the known-defect classes, i.e. when each direction's segments
   arrive in order, without overlap and without sequence wrap until its head is reported, and no
   client data segment carries FIN/RST before both heads are reported. *)
From Coq Require Import List NArith Bool Lia.
From Coq Require Import Strings.Byte.
From HN Require Import Base.Bytes Base.Cache Base.Tcp Model.HttpFlow Spec.StreamSpec Proofs.CacheProofs Proofs.Serial32.
Import ListNotations.
Open Scope N_scope.

(* ------------------------------------------------------------------ sorting *)
Fixpoint ascending_k (k : tcpdata -> N) (l : list tcpdata) : Prop :=
  match l with
  | [] => True
  | x :: r => (forall y, In y r -> k x <= k y) /\ ascending_k k r
  end.
Notation ascending := (ascending_k td_seq).

Lemma fold_insert_ascending k l : forall acc,
  (forall a y, In a acc -> In y l -> k a <= k y) -> ascending_k k l ->
  fold_left (fun acc x => insert_rev k x acc) l acc = rev l ++ acc.
Proof.
  induction l as [|x l IH]; intros acc Hacc Hasc; cbn; [reflexivity|].
  destruct Hasc as [Hx Hl].
  assert (E : insert_rev k x acc = x :: acc).
  { destruct acc as [|y r]; [reflexivity|]. cbn.
    destruct (k x <? k y) eqn:E; [|reflexivity].
    apply N.ltb_lt in E. specialize (Hacc y x (or_introl eq_refl) (or_introl eq_refl)). lia. }
  rewrite E, IH; [now rewrite <- app_assoc | | exact Hl].
  intros a y [<-|Ha] Hy; [now apply Hx | apply Hacc; [exact Ha | now right]].
Qed.

(* a list that is already ascending in the key the sort uses is left as it is *)
Lemma sort_td_ascending l : ascending_k (sort_key l) l -> sort_td l = l.
Proof.
  intros H. unfold sort_td. rewrite frev_rev. rewrite fold_insert_ascending; auto.
  - now rewrite app_nil_r, rev_involutive.
  - intros a y [].
Qed.

(* all sequence numbers within 2^31 above the reference point, no wrap: the sort key orders like the raw value *)
Definition near (isn : N) (l : list tcpdata) : Prop :=
  Forall (fun d => isn <= td_seq d /\ td_seq d < isn + two31 /\ td_seq d < two32) l.

Lemma near_sort_key isn l x y :
  isn < two32 -> near isn l -> In x l -> In y l -> td_seq x <= td_seq y -> sort_key l x <= sort_key l y.
Proof.
  intros Hi Hn Hx Hy Hle. unfold near in Hn. rewrite Forall_forall in Hn.
  destruct l as [|b l']; [destruct Hx|]. unfold sort_key. cbn [sort_base].
  destruct (Hn b (or_introl eq_refl)) as (B1 & B2 & B3), (Hn x Hx) as (X1 & X2 & X3), (Hn y Hy) as (Y1 & Y2 & Y3).
  apply (skey32_le isn); auto; rewrite ?off32_plain by assumption; lia.
Qed.

Lemma ascending_near isn l : isn < two32 -> near isn l -> ascending l -> ascending_k (sort_key l) l.
Proof.
  intros Hi Hn. assert (G : forall l', (forall x, In x l' -> In x l) -> ascending l' -> ascending_k (sort_key l) l').
  { induction l' as [|x l' IH]; intros Hsub Ha; [exact I|]. destruct Ha as [Hx Hl]. split.
    - intros y Hy. apply (near_sort_key isn); auto; [apply Hsub; now left | apply Hsub; now right].
    - apply IH; auto. intros z Hz. apply Hsub. now right. }
  apply G. auto.
Qed.

(* ------------------------------------------------------------------ chains of in-order segments *)
Fixpoint chain_tds (s : N) (ps : list bytes) : list tcpdata :=
  match ps with
  | [] => []
  | p :: r => mkTd s p :: chain_tds (s + len_N p) r
  end.

Lemma len_N_app {A} (a b : list A) : len_N (a ++ b) = len_N a + len_N b.
Proof. unfold len_N. rewrite app_length. lia. Qed.

Lemma chain_app ps : forall s p,
  chain_tds s (ps ++ [p]) = chain_tds s ps ++ [mkTd (s + len_N (concat ps)) p].
Proof.
  induction ps as [|q ps IH]; intros s p; cbn.
  - unfold len_N. cbn. now rewrite N.add_0_r.
  - rewrite IH. rewrite len_N_app. now rewrite N.add_assoc.
Qed.

Lemma chain_data ps : forall s, concat (map td_data (chain_tds s ps)) = concat ps.
Proof. induction ps as [|q ps IH]; intros s; cbn; [reflexivity | now rewrite IH]. Qed.

Lemma chain_lower ps : forall s y, In y (chain_tds s ps) -> s <= td_seq y.
Proof.
  induction ps as [|q ps IH]; intros s y; cbn; [tauto|].
  intros [<-|H]; cbn; [lia|]. apply IH in H. lia.
Qed.

Lemma chain_ascending ps : forall s, ascending (chain_tds s ps).
Proof.
  induction ps as [|q ps IH]; intros s; cbn; [exact I|]. split; [|apply IH].
  intros y Hy. apply chain_lower in Hy. lia.
Qed.

Lemma concat_app_single (ps : list bytes) p : concat (ps ++ [p]) = concat ps ++ p.
Proof. rewrite concat_app. cbn. now rewrite app_nil_r. Qed.

(* ------------------------------------------------------------------ the specification's byte map *)
Definition map_is (m : smap) (B : bytes) : Prop := forall i, m i = nth_error B (N.to_nat i).

Lemma map_is_empty : map_is smap_empty [].
Proof. intros i. unfold smap_empty. now destruct (N.to_nat i). Qed.

Lemma map_is_place m B p : map_is m B -> map_is (place m (len_N B) p) (B ++ p).
Proof.
  intros H i. unfold place. rewrite H.
  destruct (nth_error B (N.to_nat i)) eqn:E.
  - symmetry. rewrite nth_error_app1; [exact E|]. apply nth_error_Some. congruence.
  - apply nth_error_None in E. rewrite nth_error_app2 by exact E.
    unfold len_N in *.
    destruct ((N.of_nat (length B) <=? i) && (i <? N.of_nat (length B) + N.of_nat (length p))) eqn:C.
    + f_equal. lia.
    + symmetry. apply nth_error_None.
      apply andb_false_iff in C. destruct C as [C|C]; [apply N.leb_gt in C | apply N.ltb_ge in C]; lia.
Qed.

Lemma prefix_map_is m B : map_is m B -> forall fuel k,
  prefix_from m fuel (N.of_nat k) = firstn fuel (skipn k B).
Proof.
  intros H fuel. induction fuel as [|f IH]; intros k; cbn; [reflexivity|].
  rewrite H, Nnat.Nat2N.id.
  destruct (nth_error B k) eqn:E.
  - assert (skipn k B = b :: skipn (S k) B) as ->.
    { clear -E. revert B E. induction k as [|k IH]; intros [|x B]; cbn; try discriminate.
      - intros [= ->]. reflexivity.
      - intros E. now apply IH. }
    cbn. f_equal. replace (N.of_nat k + 1) with (N.of_nat (Datatypes.S k)) by lia. apply IH.
  - apply nth_error_None in E. rewrite skipn_all2 by exact E. reflexivity.
Qed.

Lemma prefix_full m B : map_is m B -> prefix_from m (length B) 0 = B.
Proof. intros H. change 0 with (N.of_nat 0). rewrite (prefix_map_is m B H). cbn. apply firstn_all. Qed.

(* ------------------------------------------------------------------ one direction, one in-order segment *)
Definition drel (data0 : list tcpdata) (d : sdir) (isn : N) (tds : list tcpdata) : Prop :=
  exists ps, tds = data0 ++ chain_tds (isn + 1) ps /\ map_is (d_map d) (concat ps) /\ d_recv d = length (concat ps) /\
             isn < two32 /\ near isn tds.
Definition data0_ok (isn : N) (data0 : list tcpdata) : Prop := data0 = [] \/ data0 = [mkTd isn []].

Lemma seq_offset_nowrap isn seq : isn < seq -> seq < two32 -> seq_offset isn seq = seq - isn - 1.
Proof.
  intros H1 H2. unfold seq_offset. symmetry. apply N.mod_unique with (q := 1); [lia|].
  unfold two32 in *. lia.
Qed.

Lemma seq_offset_lt isn seq : seq_offset isn seq < two32.
Proof. unfold seq_offset. apply N.mod_lt. unfold two32. lia. Qed.

Lemma classify_dir_strict_inorder d isn seq pay B :
  d_done d = false -> map_is (d_map d) B -> d_recv d = length B -> pay <> [] -> seq < two32 ->
  classify_dir_strict d isn seq pay = (false, false, false) ->
  seq = isn + 1 + len_N B /\ seq_offset isn seq = len_N B /\ len_N B < two31 - 1.
Proof.
  intros Hd Hm Hr Hp Hs. unfold classify_dir_strict, stream_prefix. rewrite Hd, Hr, (prefix_full _ _ Hm).
  intros E. injection E as E1 E2 E3.
  apply orb_false_iff in E1. destruct E1 as [E1 E0]. apply N.leb_gt in E0.
  apply N.leb_gt in E1. apply N.ltb_ge in E2.
  destruct pay as [|b pay]; [congruence|]. cbn in E3. apply orb_false_iff in E3. destruct E3 as [E3 _].
  rewrite Hm in E3. destruct (nth_error B (N.to_nat (seq_offset isn seq))) eqn:E4; [discriminate|].
  apply nth_error_None in E4.
  assert (seq_offset isn seq = len_N B) as Hoff by (unfold len_N in *; lia).
  split; [|split; [exact Hoff | rewrite <- Hoff; exact E0]].
  rewrite seq_offset_nowrap in Hoff by assumption. lia.
Qed.

Lemma full_data_chain data0 isn ps :
  data0_ok isn data0 -> isn < two32 -> near isn (data0 ++ chain_tds (isn + 1) ps) ->
  full_data (data0 ++ chain_tds (isn + 1) ps) = concat ps.
Proof.
  intros H0 Hi Hn. unfold full_data. rewrite sort_td_ascending.
  - rewrite map_app, concat_app, chain_data. destruct H0 as [-> | ->]; reflexivity.
  - apply (ascending_near isn); auto.
    destruct H0 as [-> | ->]; cbn; [apply chain_ascending|]. split; [|apply chain_ascending].
    intros y Hy. apply chain_lower in Hy. cbn. lia.
Qed.

Lemma any_not_all m off n : any_placed m off (S n) = false -> all_placed m off (S n) = false.
Proof. cbn. intros H. apply orb_false_iff in H. destruct H as [H _]. now rewrite H. Qed.

Lemma chain_upper ps : forall s y, In y (chain_tds s ps) -> td_seq y + len_N (td_data y) <= s + len_N (concat ps).
Proof.
  induction ps as [|q ps IH]; intros s y; cbn; [tauto|].
  rewrite len_N_app. intros [<-|H]; cbn; [lia|]. apply IH in H. lia.
Qed.

Lemma chain_no_retrans data0 isn ps seq (pay : bytes) :
  data0_ok isn data0 -> seq = isn + 1 + len_N (concat ps) -> pay <> [] ->
  is_retrans (data0 ++ chain_tds (isn + 1) ps) (mkTd seq pay) = false.
Proof.
  intros H0 Hs Hp. unfold is_retrans. destruct (existsb _ _) eqn:E; [|reflexivity]. exfalso.
  apply existsb_exists in E. destruct E as (x & Hin & Hx). cbn [td_seq td_data] in Hx.
  apply andb_true_iff in Hx. destruct Hx as [H1 H2]. apply N.eqb_eq in H1. apply bytes_eqb_eq in H2.
  apply in_app_or in Hin. destruct Hin as [Hin|Hin].
  - destruct H0 as [-> | ->]; [destruct Hin|]. destruct Hin as [<-|[]]. cbn in H1. lia.
  - apply chain_upper in Hin. rewrite H2 in Hin.
    assert (0 < len_N pay) by (unfold len_N; destruct pay; [congruence | cbn; lia]). lia.
Qed.

Lemma dir_advance data0 d isn tds seq pay :
  data0_ok isn data0 -> seq < two32 -> pay <> [] -> d_done d = false ->
  drel data0 d isn tds -> classify_dir_strict d isn seq pay = (false, false, false) ->
  let m := place (d_map d) (seq_offset isn seq) pay in
  let n := (d_recv d + length pay)%nat in
  full_data (tds ++ [mkTd seq pay]) = prefix_from m n 0 /\
  (forall done, drel data0 (mkDir (d_isn d) m n done (d_segs d ++ [(seq_offset isn seq, pay)])) isn (tds ++ [mkTd seq pay])) /\
  is_retrans tds (mkTd seq pay) = false /\
  all_placed (d_map d) (seq_offset isn seq) (length pay) = false.
Proof.
  intros H0 Hs Hp Hd (ps & Ht & Hm & Hr & Hi & Hnear) Hc m n.
  destruct (classify_dir_strict_inorder d isn seq pay (concat ps) Hd Hm Hr Hp Hs Hc) as (Hseq & Hoff & Hfar).
  assert (Hnear' : near isn (tds ++ [mkTd seq pay])).
  { apply Forall_app. split; [exact Hnear|]. constructor; [|constructor]. cbn. unfold two31 in *. lia. }
  assert (Ht' : tds ++ [mkTd seq pay] = data0 ++ chain_tds (isn + 1) (ps ++ [pay])).
  { rewrite Ht, chain_app, <- app_assoc, Hseq. reflexivity. }
  assert (Hm' : map_is m (concat (ps ++ [pay]))).
  { rewrite concat_app_single. subst m. rewrite Hoff. now apply map_is_place. }
  assert (Hn : n = length (concat (ps ++ [pay]))).
  { subst n. rewrite concat_app_single, app_length. lia. }
  split; [|split; [|split]].
  - rewrite Ht'. rewrite full_data_chain; [| exact H0 | exact Hi | now rewrite <- Ht']. rewrite Hn. symmetry. now apply prefix_full.
  - intros done. exists (ps ++ [pay]). cbn. auto 10.
  - rewrite Ht. now apply chain_no_retrans.
  - unfold classify_dir_strict in Hc. rewrite Hd in Hc. injection Hc as _ _ Hc.
    destruct pay as [|b0 pay]; [congruence|]. now apply any_not_all.
Qed.

(* ------------------------------------------------------------------ keys and the wire image *)
Definition cip (id : N) : N := wire_cip id.
Definition sip : N := wire_sip.
Definition cport (id : N) : N := 40000 + id.
Definition ckey (id : N) : fkey := (cip id, sip, cport id, 80).
Definition skey (id : N) : fkey := (sip, cip id, 80, cport id).

Lemma fkey_eqb_eq a b : fkey_eqb a b = true <-> a = b.
Proof.
  destruct a as [[[a1 a2] a3] a4], b as [[[b1 b2] b3] b4]. unfold fkey_eqb.
  rewrite !andb_true_iff, !N.eqb_eq. split.
  - intros [[[-> ->] ->] ->]. reflexivity.
  - intros [= -> -> -> ->]. auto.
Qed.
Lemma ckey_inj a b : ckey a = ckey b -> a = b.
Proof. unfold ckey, cport. intros [= _ H]. lia. Qed.
Lemma skey_not_ckey a b : skey a <> ckey b.
Proof. unfold skey, ckey, cport. intros [= _ _ H]. lia. Qed.

Lemma wire_client e : e_client e = true ->
  wire e = mkSeg (cip (e_conn e)) sip (cport (e_conn e)) 80 (e_syn e) (e_fin e) (e_rst e) (e_seq e) (e_pay e).
Proof. intros H. unfold wire. now rewrite H. Qed.
Lemma wire_server e : e_client e = false ->
  wire e = mkSeg sip (cip (e_conn e)) 80 (cport (e_conn e)) (e_syn e) (e_fin e) (e_rst e) (e_seq e) (e_pay e).
Proof. intros H. unfold wire. now rewrite H. Qed.

(* ------------------------------------------------------------------ specification state lemmas *)
Lemma lookup_id id cs c : conn_lookup id cs = Some c -> sc_id c = id.
Proof.
  induction cs as [|c' cs IH]; cbn; [discriminate|].
  destruct (sc_id c' =? id) eqn:E; [intros [= <-]; now apply N.eqb_eq | exact IH].
Qed.
Lemma lookup_replace_same id cs c0 c :
  conn_lookup id cs = Some c0 -> sc_id c = id -> conn_lookup id (conn_replace c cs) = Some c.
Proof.
  intros L <-. induction cs as [|c' cs IH]; cbn in *; [discriminate|].
  destruct (sc_id c' =? sc_id c) eqn:E; cbn.
  - now rewrite N.eqb_refl.
  - rewrite E. auto.
Qed.
Lemma lookup_replace_other id cs c :
  sc_id c <> id -> conn_lookup id (conn_replace c cs) = conn_lookup id cs.
Proof.
  intros N. induction cs as [|c' cs IH]; cbn; [reflexivity|].
  destruct (sc_id c' =? sc_id c) eqn:E; cbn.
  - apply N.eqb_eq in E. rewrite E. apply N.eqb_neq in N. now rewrite N.
  - destruct (sc_id c' =? id); [reflexivity | exact IH].
Qed.
Lemma length_replace c cs : length (conn_replace c cs) = length cs.
Proof. induction cs as [|c' cs IH]; cbn; [reflexivity|]. destruct (sc_id c' =? sc_id c); cbn; congruence. Qed.

(* ------------------------------------------------------------------ the simulation relation *)
Definition crel (d : sdir) (tds : list tcpdata) : Prop :=
  d_done d = false -> exists isn, d_isn d = Some isn /\ drel [mkTd isn []] d isn tds.
Definition srel (d : sdir) (tds : list tcpdata) : Prop :=
  d_done d = false ->
  match d_isn d with
  | None => tds = [] /\ map_is (d_map d) [] /\ d_recv d = O
  | Some isn => drel [] d isn tds
  end.

Definition flow_rel (id : N) (c : sconn) (f : tcpflow) : Prop :=
  f_cip f = cip id /\ f_sip f = sip /\ f_cport f = cport id /\ f_sport f = 80 /\
  f_cparsed f = d_done (sc_c c) /\ f_sparsed f = d_done (sc_s c) /\
  crel (sc_c c) (f_cdata f) /\ srel (sc_s c) (f_sdata f) /\
  (d_done (sc_s c) = true -> d_isn (sc_s c) <> None).

Definition rel (id : N) (oc : option sconn) (fo : option tcpflow) : Prop :=
  match oc, fo with
  | None, None => True
  | None, Some _ => False
  | Some c, None => d_done (sc_c c) = true /\ d_done (sc_s c) = true /\ d_isn (sc_s c) <> None
  | Some c, Some f => flow_rel id c f
  end.

Definition keys_ok (st : state) : Prop := forall k v, In (k, v) (c_entries st) -> exists id, k = ckey id.

Definition Inv (st : state) (cs : list sconn) : Prop :=
  keys_ok st /\ (length (c_entries st) <= length cs)%nat /\
  forall id, rel id (conn_lookup id cs) (cache_get fkey_eqb st (ckey id)).

Lemma assoc_get_absent (es : list (fkey * tcpflow)) k :
  (forall k' v, In (k', v) es -> k' <> k) -> assoc_get fkey_eqb es k = None.
Proof.
  induction es as [|[k0 v0] es IH]; cbn; intros H; [reflexivity|].
  destruct (fkey_eqb k0 k) eqn:E.
  - apply fkey_eqb_eq in E. exfalso. eapply H; [left; reflexivity | exact E].
  - apply IH. intros k' v Hin. apply (H k' v). now right.
Qed.
Lemma get_skey st id : keys_ok st -> cache_get fkey_eqb st (skey id) = None.
Proof.
  intros H. apply assoc_get_absent. intros k' v Hin E. destruct (H _ _ Hin) as [id' ->].
  symmetry in E. now apply skey_not_ckey in E.
Qed.

Lemma keys_ok_update st k f : keys_ok st -> keys_ok (cache_update fkey_eqb st k f).
Proof. intros H k0 v0 Hin. apply keys_update in Hin. destruct Hin as [v1 Hin]. eapply H; exact Hin. Qed.
Lemma keys_ok_remove st k : keys_ok st -> keys_ok (cache_remove fkey_eqb st k).
Proof. intros H k0 v0 Hin. apply keys_remove in Hin. eapply H; exact Hin. Qed.

Lemma remove_skey st id : keys_ok st -> cache_remove fkey_eqb st (skey id) = st.
Proof. intros H. apply cache_remove_absent. now apply get_skey. Qed.

(* frame lemmas: the cache operations on connection id leave the other connections alone *)
Lemma frame_update (st : state) id (f : tcpflow) id' : id' <> id ->
  cache_get fkey_eqb (cache_update fkey_eqb st (ckey id) f) (ckey id') = cache_get fkey_eqb st (ckey id').
Proof. intros N. apply get_update_other; [exact fkey_eqb_eq|]. intros E. apply ckey_inj in E. congruence. Qed.
Lemma frame_remove (st : state) id id' : id' <> id ->
  cache_get fkey_eqb (cache_remove fkey_eqb st (ckey id)) (ckey id') = cache_get fkey_eqb st (ckey id').
Proof. intros N. apply get_remove_other; [exact fkey_eqb_eq|]. intros E. apply ckey_inj in E. congruence. Qed.
Lemma get_remove_ckey (st : state) id : cache_get fkey_eqb (cache_remove fkey_eqb st (ckey id)) (ckey id) = None.
Proof. apply get_remove_same. Qed.
Lemma get_update_ckey (st : state) id (f f0 : tcpflow) : cache_get fkey_eqb st (ckey id) = Some f0 ->
  cache_get fkey_eqb (cache_update fkey_eqb st (ckey id) f) (ckey id) = Some f.
Proof. apply get_update_same. Qed.
Lemma len_update (st : state) k (f : tcpflow) : length (c_entries (cache_update fkey_eqb st k f)) = length (c_entries st).
Proof. apply length_update. Qed.
Lemma len_remove (st : state) k : (length (c_entries (cache_remove fkey_eqb st k)) <= length (c_entries st))%nat.
Proof. apply length_remove. Qed.

Lemma Inv_replace st st1 cs c c' id :
  Inv st cs -> conn_lookup id cs = Some c -> sc_id c' = id ->
  keys_ok st1 -> (length (c_entries st1) <= length (c_entries st))%nat ->
  (forall id', id' <> id -> cache_get fkey_eqb st1 (ckey id') = cache_get fkey_eqb st (ckey id')) ->
  rel id (Some c') (cache_get fkey_eqb st1 (ckey id)) ->
  Inv st1 (conn_replace c' cs).
Proof.
  intros (K & Len & R) L Hid K1 Len1 Fr Rid. split; [exact K1|]. split; [rewrite length_replace; lia|].
  intros id'. destruct (N.eq_dec id' id) as [->|N].
  - rewrite (lookup_replace_same id cs c c' L Hid). exact Rid.
  - rewrite lookup_replace_other by congruence. rewrite Fr by exact N. apply R.
Qed.

(* closes goals `rst || fin && negb b = false` from the trace hypothesis on FIN/RST *)
Ltac fin_tac H :=
  cbn [g_rst g_fin f_cparsed f_sparsed negb andb] in *;
  repeat match type of H with
         | context [e_rst ?e] => destruct (e_rst e)
         | context [e_fin ?e] => destruct (e_fin e)
         end; cbn in *; try reflexivity; try discriminate; try congruence.

Section Sim.
  Context {Req Resp : Type}.
  Variable parse_req : bytes -> option Req.
  Variable parse_resp : bytes -> option Resp.
  Hypothesis req_min : forall d r, parse_req d = Some r -> 4 <= len_N d.
  Hypothesis resp_min : forall d r, parse_resp d = Some r -> 4 <= len_N d.

  Lemma gate_req d : (if has_complete parse_req parse_resp d then parse_req d else None) = parse_req d.
  Proof.
    unfold has_complete. rewrite (shorter_than_spec 4 d). change (N.of_nat 4) with 4.
    destruct (parse_req d) eqn:E; [|now destruct (if len_N d <? 4 then _ else _)].
    apply req_min in E. destruct (len_N d <? 4) eqn:L; [apply N.ltb_lt in L; lia | reflexivity].
  Qed.
  Lemma gate_resp d : (if has_complete parse_req parse_resp d then parse_resp d else None) = parse_resp d.
  Proof.
    unfold has_complete. rewrite (shorter_than_spec 4 d). change (N.of_nat 4) with 4.
    destruct (parse_resp d) eqn:E; [|now destruct (if len_N d <? 4 then _ else _)].
    apply resp_min in E. destruct (len_N d <? 4) eqn:L; [apply N.ltb_lt in L; lia|].
    cbn. now rewrite orb_true_r.
  Qed.

  (* ---- model side: the flow branch for a client / server data packet ---- *)
  Lemma on_flow_client st id syn fin rst seq b r f :
    f_cip f = cip id -> f_cport f = cport id ->
    on_flow parse_req parse_resp st (mkSeg (cip id) sip (cport id) 80 syn fin rst seq (b :: r)) (ckey id) (ckey id) f true =
    if negb (f_cparsed f) && negb (is_retrans (f_cdata f) (mkTd seq (b :: r))) then
      let cd := f_cdata f ++ [mkTd seq (b :: r)] in
      match parse_req (full_data cd) with
      | Some q => let f2 := mkFlow (f_cip f) (f_sip f) (f_cport f) (f_sport f) cd (f_sdata f) true (f_sparsed f) in
                  (finish (set_flow st (ckey id) f2) (ckey id) f2 (mkSeg (cip id) sip (cport id) 80 syn fin rst seq (b :: r)), OReq q)
      | None => let f1 := mkFlow (f_cip f) (f_sip f) (f_cport f) (f_sport f) cd (f_sdata f) false (f_sparsed f) in
                (finish (set_flow st (ckey id) f1) (ckey id) f1 (mkSeg (cip id) sip (cport id) 80 syn fin rst seq (b :: r)), ONone)
      end
    else (finish st (ckey id) f (mkSeg (cip id) sip (cport id) 80 syn fin rst seq (b :: r)), ONone).
  Proof.
    intros H1 H2. unfold on_flow. cbn [g_pay g_src g_sport g_seq]. rewrite H1, H2, !N.eqb_refl. cbn [andb].
    destruct (negb (f_cparsed f) && _); [|reflexivity]. cbv zeta. rewrite gate_req. reflexivity.
  Qed.

  Lemma on_flow_server st id syn fin rst seq b r f :
    f_sip f = sip -> f_sport f = 80 ->
    on_flow parse_req parse_resp st (mkSeg sip (cip id) 80 (cport id) syn fin rst seq (b :: r)) (skey id) (ckey id) f false =
    if negb (f_sparsed f) && negb (is_retrans (f_sdata f) (mkTd seq (b :: r))) then
      let sd := f_sdata f ++ [mkTd seq (b :: r)] in
      match parse_resp (full_data sd) with
      | Some q => let f2 := mkFlow (f_cip f) (f_sip f) (f_cport f) (f_sport f) (f_cdata f) sd (f_cparsed f) true in
                  (finish (set_flow st (ckey id) f2) (skey id) f2 (mkSeg sip (cip id) 80 (cport id) syn fin rst seq (b :: r)), OResp q)
      | None => let f1 := mkFlow (f_cip f) (f_sip f) (f_cport f) (f_sport f) (f_cdata f) sd (f_cparsed f) false in
                (finish (set_flow st (ckey id) f1) (skey id) f1 (mkSeg sip (cip id) 80 (cport id) syn fin rst seq (b :: r)), ONone)
      end
    else (finish st (skey id) f (mkSeg sip (cip id) 80 (cport id) syn fin rst seq (b :: r)), ONone).
  Proof.
    intros H1 H2. unfold on_flow. cbn [g_pay g_src g_sport g_seq andb]. rewrite H1, H2, !N.eqb_refl. cbn [andb].
    destruct (negb (f_sparsed f) && _); [|reflexivity]. cbv zeta. rewrite gate_resp. reflexivity.
  Qed.

  (* finish on a server-direction packet never changes the cache: the remove misses *)
  Lemma finish_server st id f p : keys_ok st -> finish st (skey id) f p = st.
  Proof.
    intros K. unfold finish. destruct (f_cparsed f && f_sparsed f); [now apply remove_skey|].
    destruct (g_rst p || _); [now apply remove_skey | reflexivity].
  Qed.

  Notation stepM := (step parse_req parse_resp).

  Lemma both_done_replace id cs c0 c' :
    conn_lookup id cs = Some c0 -> sc_id c' = id ->
    both_done id (conn_replace c' cs) = d_done (sc_c c') && d_done (sc_s c').
  Proof. intros L H. unfold both_done. now rewrite (lookup_replace_same id cs c0 c' L H). Qed.

  Lemma client_done_replace id cs c0 c' :
    conn_lookup id cs = Some c0 -> sc_id c' = id ->
    client_done id (conn_replace c' cs) = d_done (sc_c c').
  Proof. intros L H. unfold client_done. now rewrite (lookup_replace_same id cs c0 c' L H). Qed.

  Lemma finish_both st k f p : f_cparsed f = true -> f_sparsed f = true -> finish st k f p = cache_remove fkey_eqb st k.
  Proof. intros H1 H2. unfold finish. now rewrite H1, H2. Qed.
  Lemma finish_keep st k f p :
    (f_cparsed f = false \/ f_sparsed f = false) ->
    g_rst p || (g_fin p && negb (f_cparsed f)) = false -> finish st k f p = st.
  Proof.
    intros H1 H2. unfold finish. destruct (f_cparsed f), (f_sparsed f), (g_rst p), (g_fin p); cbn in *; try reflexivity; try discriminate; destruct H1; discriminate.
  Qed.

  (* ---- a client data segment of a known connection ---- *)
  Lemma sim_client_data st cs e c isn d ro b r :
    Inv st cs -> conn_lookup (e_conn e) cs = Some c ->
    e_client e = true -> e_syn e = false -> e_pay e = b :: r -> e_seq e < two32 ->
    d_isn (sc_c c) = Some isn ->
    dir_data parse_req (sc_c c) isn (e_seq e) (e_pay e) = (d, ro) ->
    let cs1 := conn_replace (mkConn (sc_id c) d (sc_s c)) cs in
    classify_dir_strict (sc_c c) isn (e_seq e) (e_pay e) = (false, false, false) ->
    (e_rst e || (e_fin e && negb (client_done (e_conn e) cs1))) && negb (both_done (e_conn e) cs1) = false ->
    exists st1, stepM st (wire e) = (st1, match ro with Some q => OReq q | None => ONone end)
                /\ Inv st1 cs1 /\ c_cap st1 = c_cap st.
  Proof.
    intros HI L Hc Hsyn Hpay Hseq Hisn Hdd cs1 Hcl Hfin.
    set (id := e_conn e) in *.
    pose proof (lookup_id _ _ _ L) as Hid.
    assert (BD : both_done id cs1 = d_done d && d_done (sc_s c)).
    { unfold cs1. erewrite both_done_replace; [reflexivity | exact L | exact Hid]. }
    assert (CD : client_done id cs1 = d_done d).
    { unfold cs1. erewrite client_done_replace; [reflexivity | exact L | exact Hid]. }
    rewrite BD, CD in Hfin. clear BD CD.
    pose proof HI as (K & Len & R). specialize (R id). rewrite L in R.
    rewrite (wire_client e Hc). fold id. unfold step. cbn [g_src g_dst g_sport g_dport g_syn].
    change (cip id, sip, cport id, 80) with (ckey id). change (sip, cip id, 80, cport id) with (skey id).
    destruct (cache_get fkey_eqb st (ckey id)) as [f|] eqn:G; cbn [rel] in R.
    - destruct R as (F1 & F2 & F3 & F4 & F5 & F6 & Rc & Rs & Rn).
      rewrite Hpay. rewrite (on_flow_client st id _ _ _ _ b r f F1 F3).
      unfold dir_data in Hdd.
      destruct (d_done (sc_c c)) eqn:Dc.
      + (* request already reported: the segment is discarded *)
        injection Hdd as <- <-. rewrite F5. cbn [negb andb]. rewrite Dc in Hfin.
        destruct (d_done (sc_s c)) eqn:Ds.
        * rewrite finish_both; [|exact F5|exact F6]. eexists. split; [reflexivity|]. split; [|reflexivity].
          eapply Inv_replace; try eassumption.
          -- now apply keys_ok_remove.
          -- apply len_remove.
          -- intros id' N. now apply frame_remove.
          -- rewrite get_remove_ckey. cbn. auto.
        * rewrite finish_keep; [|right; exact F6|rewrite F5; fin_tac Hfin].
          eexists. split; [reflexivity|]. split; [|reflexivity].
          eapply Inv_replace; try eassumption; [lia | reflexivity |].
          rewrite G. cbn. unfold flow_rel. cbn [sc_c sc_s]. rewrite Dc, Ds. repeat split; auto; congruence.
      + (* request not yet reported: store, rebuild, parse *)
        destruct (Rc Dc) as (isn0 & Hisn0 & Hdrel). rewrite Hisn in Hisn0. injection Hisn0 as <-.
        rewrite F5. cbn [negb]. cbv zeta.
        assert (Hne : e_pay e <> []) by (rewrite Hpay; discriminate).
        destruct (dir_advance [mkTd isn []] (sc_c c) isn (f_cdata f) (e_seq e) (e_pay e)
                    (or_intror eq_refl) Hseq Hne Dc Hdrel Hcl) as (Hfull & Hnew & Hret & Hall).
        rewrite Hpay in Hfull, Hnew, Hdd, Hret, Hall. rewrite Hall in Hdd. rewrite Hret. cbn [negb andb]. rewrite Hfull.
        destruct (parse_req (prefix_from _ _ 0)) as [q|] eqn:P.
        * injection Hdd as <- <-. cbn [d_done] in Hfin.
          destruct (d_done (sc_s c)) eqn:Ds.
          -- rewrite finish_both; [|reflexivity|exact F6]. eexists. split; [reflexivity|]. split; [|reflexivity].
             eapply Inv_replace; try eassumption.
             ++ apply keys_ok_remove. now apply keys_ok_update.
             ++ etransitivity; [apply len_remove|]. unfold set_flow. rewrite len_update. lia.
             ++ intros id' N. unfold set_flow. rewrite frame_remove by exact N. now apply frame_update.
             ++ rewrite get_remove_ckey. cbn. auto.
          -- rewrite finish_keep; [|right; exact F6|fin_tac Hfin].
             eexists. split; [reflexivity|]. split; [|reflexivity].
             eapply Inv_replace; try eassumption.
             ++ now apply keys_ok_update.
             ++ unfold set_flow. rewrite len_update. lia.
             ++ intros id' N. now apply frame_update.
             ++ unfold set_flow. rewrite (get_update_ckey st id _ f G). cbn. unfold flow_rel. cbn.
                rewrite Ds. repeat split; auto; try congruence. intros X. discriminate.
        * injection Hdd as <- <-. cbn [d_done] in Hfin.
          rewrite finish_keep; [|left; reflexivity|fin_tac Hfin].
          eexists. split; [reflexivity|]. split; [|reflexivity].
          eapply Inv_replace; try eassumption.
          -- now apply keys_ok_update.
          -- unfold set_flow. rewrite len_update. lia.
          -- intros id' N. now apply frame_update.
          -- unfold set_flow. rewrite (get_update_ckey st id _ f G). cbn. unfold flow_rel. cbn.
             repeat split; auto. intros _. exists isn. split; [exact Hisn|]. apply Hnew.
    - (* the flow was already removed: both heads reported earlier *)
      destruct R as (Dc & Ds & Dn).
      rewrite (get_skey st id K). cbn [g_syn]. rewrite Hsyn.
      unfold dir_data in Hdd. rewrite Dc in Hdd. injection Hdd as <- <-.
      eexists. split; [reflexivity|]. split; [|reflexivity].
      eapply Inv_replace; try eassumption; [lia | reflexivity |].
      rewrite G. cbn. auto.
  Qed.

  (* ---- a server data segment of a known connection ---- *)
  Lemma sim_server_data st cs e c isn d ro b r :
    Inv st cs -> conn_lookup (e_conn e) cs = Some c ->
    e_client e = false -> e_syn e = false -> e_pay e = b :: r -> e_seq e < two32 ->
    d_isn (sc_s c) = Some isn ->
    dir_data parse_resp (sc_s c) isn (e_seq e) (e_pay e) = (d, ro) ->
    let cs1 := conn_replace (mkConn (sc_id c) (sc_c c) d) cs in
    classify_dir_strict (sc_s c) isn (e_seq e) (e_pay e) = (false, false, false) ->
    exists st1, stepM st (wire e) = (st1, match ro with Some q => OResp q | None => ONone end)
                /\ Inv st1 cs1 /\ c_cap st1 = c_cap st.
  Proof.
    intros HI L Hc Hsyn Hpay Hseq Hisn Hdd cs1 Hcl.
    set (id := e_conn e) in *.
    pose proof (lookup_id _ _ _ L) as Hid.
    pose proof HI as (K & Len & R). specialize (R id). rewrite L in R.
    rewrite (wire_server e Hc). fold id. unfold step. cbn [g_src g_dst g_sport g_dport g_syn].
    change (cip id, sip, cport id, 80) with (ckey id). change (sip, cip id, 80, cport id) with (skey id).
    rewrite (get_skey st id K).
    destruct (cache_get fkey_eqb st (ckey id)) as [f|] eqn:G; cbn [rel] in R.
    - destruct R as (F1 & F2 & F3 & F4 & F5 & F6 & Rc & Rs & Rn).
      rewrite Hpay. rewrite (on_flow_server st id _ _ _ _ b r f F2 F4).
      unfold dir_data in Hdd.
      destruct (d_done (sc_s c)) eqn:Ds.
      + injection Hdd as <- <-. rewrite F6. cbn [negb andb]. rewrite (finish_server st id f _ K).
        eexists. split; [reflexivity|]. split; [|reflexivity].
        eapply Inv_replace; try eassumption; [lia | reflexivity |].
        rewrite G. cbn. unfold flow_rel. cbn [sc_c sc_s]. rewrite Ds. repeat split; auto.
      + pose proof (Rs Ds) as Hdrel. rewrite Hisn in Hdrel.
        rewrite F6. cbn [negb]. cbv zeta.
        assert (Hne : e_pay e <> []) by (rewrite Hpay; discriminate).
        destruct (dir_advance [] (sc_s c) isn (f_sdata f) (e_seq e) (e_pay e)
                    (or_introl eq_refl) Hseq Hne Ds Hdrel Hcl) as (Hfull & Hnew & Hret & Hall).
        rewrite Hpay in Hfull, Hnew, Hdd, Hret, Hall. rewrite Hall in Hdd. rewrite Hret. cbn [negb andb]. rewrite Hfull.
        destruct (parse_resp (prefix_from _ _ 0)) as [q|] eqn:P.
        * injection Hdd as <- <-.
          rewrite finish_server by (now apply keys_ok_update).
          eexists. split; [reflexivity|]. split; [|reflexivity].
          eapply Inv_replace; try eassumption.
          -- now apply keys_ok_update.
          -- unfold set_flow. rewrite len_update. lia.
          -- intros id' N. now apply frame_update.
          -- unfold set_flow. rewrite (get_update_ckey st id _ f G). cbn. unfold flow_rel. cbn.
             repeat split; auto; try congruence. intros X. discriminate.
        * injection Hdd as <- <-.
          rewrite finish_server by (now apply keys_ok_update).
          eexists. split; [reflexivity|]. split; [|reflexivity].
          eapply Inv_replace; try eassumption.
          -- now apply keys_ok_update.
          -- unfold set_flow. rewrite len_update. lia.
          -- intros id' N. now apply frame_update.
          -- unfold set_flow. rewrite (get_update_ckey st id _ f G). cbn. unfold flow_rel. cbn.
             repeat split; auto; try discriminate. intros _. specialize (Hnew false). rewrite Hisn in Hnew |- *. exact Hnew.
    - destruct R as (Dc & Ds & Dn).
      cbn [g_syn]. rewrite Hsyn.
      unfold dir_data in Hdd. rewrite Ds in Hdd. injection Hdd as <- <-.
      eexists. split; [reflexivity|]. split; [|reflexivity].
      eapply Inv_replace; try eassumption; [lia | reflexivity |].
      rewrite G. cbn. auto.
  Qed.

  (* ---- packets that carry no payload, on a known connection ---- *)
  Lemma sim_no_payload st cs e :
    Inv st cs -> e_syn e = false -> e_pay e = [] ->
    stepM st (wire e) = (st, ONone).
  Proof.
    intros (K & Len & R) Hsyn Hpay. set (id := e_conn e).
    destruct (e_client e) eqn:Hc.
    - rewrite (wire_client e Hc). fold id. unfold step. cbn [g_src g_dst g_sport g_dport g_syn].
      change (cip id, sip, cport id, 80) with (ckey id). change (sip, cip id, 80, cport id) with (skey id).
      destruct (cache_get fkey_eqb st (ckey id)) as [f|].
      + unfold on_flow. cbn [g_pay]. now rewrite Hpay.
      + rewrite (get_skey st id K). now rewrite Hsyn.
    - rewrite (wire_server e Hc). fold id. unfold step. cbn [g_src g_dst g_sport g_dport g_syn].
      change (cip id, sip, cport id, 80) with (ckey id). change (sip, cip id, 80, cport id) with (skey id).
      rewrite (get_skey st id K).
      destruct (cache_get fkey_eqb st (ckey id)) as [f|].
      + unfold on_flow. cbn [g_pay]. now rewrite Hpay.
      + now rewrite Hsyn.
  Qed.

  (* ---- the opening SYN of a new connection ---- *)
  Lemma sim_open st cs e :
    Inv st cs -> conn_lookup (e_conn e) cs = None ->
    e_client e = true -> e_syn e = true -> e_pay e = [] -> e_seq e < two32 ->
    N.of_nat (S (length cs)) <= c_cap st ->
    let cs1 := mkConn (e_conn e) (dir_new (Some (e_seq e))) (dir_new None) :: cs in
    exists st1, stepM st (wire e) = (st1, ONone) /\ Inv st1 cs1 /\ c_cap st1 = c_cap st.
  Proof.
    intros (K & Len & R) L Hc Hsyn Hpay Hseq Hcap cs1. set (id := e_conn e) in *.
    pose proof (R id) as Rid. rewrite L in Rid.
    destruct (cache_get fkey_eqb st (ckey id)) as [f|] eqn:G; [contradiction|].
    rewrite (wire_client e Hc). fold id. unfold step. cbn [g_src g_dst g_sport g_dport g_syn].
    change (cip id, sip, cport id, 80) with (ckey id). change (sip, cip id, 80, cport id) with (skey id).
    rewrite G, (get_skey st id K), Hsyn.
    eexists. split; [reflexivity|]. split; [|reflexivity].
    assert (E : c_entries (cache_insert fkey_eqb st (ckey id)
                  (flow_init (mkSeg (cip id) sip (cport id) 80 true (e_fin e) (e_rst e) (e_seq e) (e_pay e))))
                = c_entries st ++ [(ckey id, flow_init (mkSeg (cip id) sip (cport id) 80 true (e_fin e) (e_rst e) (e_seq e) (e_pay e)))]).
    { rewrite insert_no_evict by lia. rewrite remove_absent; [reflexivity | exact G]. }
    split; [|split].
    - intros k v Hin. rewrite E in Hin. apply in_app_or in Hin. destruct Hin as [Hin|[[= Hk _]|[]]]; [eapply K; exact Hin | exists id; now symmetry].
    - rewrite E, app_length. cbn. lia.
    - intros id'. unfold cache_get. rewrite E, get_app_last. fold (cache_get fkey_eqb st (ckey id')).
      cbn [conn_lookup sc_id cs1]. specialize (R id').
      destruct (id =? id') eqn:Eid.
      + apply N.eqb_eq in Eid. subst id'. rewrite G. rewrite (keqb_refl fkey_eqb fkey_eqb_eq).
        cbn. unfold flow_rel, flow_init. cbn. rewrite Hpay. repeat split; auto; try discriminate.
        * intros _. exists (e_seq e). split; [reflexivity|]. exists []. cbn. repeat split; auto using map_is_empty.
          constructor; [cbn; unfold two31; lia | constructor].
        * apply map_is_empty.
      + destruct (cache_get fkey_eqb st (ckey id')); [exact R|].
        rewrite (keqb_neq fkey_eqb fkey_eqb_eq); [exact R|].
        intros X. apply ckey_inj in X. apply N.eqb_neq in Eid. contradiction.
  Qed.

  (* ---- the server's SYN of a known connection ---- *)
  Lemma sim_synack st cs e c :
    Inv st cs -> conn_lookup (e_conn e) cs = Some c ->
    e_client e = false -> e_pay e = [] -> d_isn (sc_s c) = None -> e_seq e < two32 ->
    let cs1 := conn_replace (mkConn (sc_id c) (sc_c c)
                 (mkDir (Some (e_seq e)) (d_map (sc_s c)) (d_recv (sc_s c)) (d_done (sc_s c)) (d_segs (sc_s c)))) cs in
    stepM st (wire e) = (st, ONone) /\ Inv st cs1.
  Proof.
    intros HI L Hc Hpay Hn Hseq cs1. set (id := e_conn e) in *.
    pose proof (lookup_id _ _ _ L) as Hid.
    pose proof HI as (K & Len & R). specialize (R id). rewrite L in R.
    rewrite (wire_server e Hc). fold id. unfold step. cbn [g_src g_dst g_sport g_dport g_syn].
    change (cip id, sip, cport id, 80) with (ckey id). change (sip, cip id, 80, cport id) with (skey id).
    rewrite (get_skey st id K).
    destruct (cache_get fkey_eqb st (ckey id)) as [f|] eqn:G; cbn [rel] in R.
    - split; [unfold on_flow; cbn [g_pay]; now rewrite Hpay|].
      destruct R as (F1 & F2 & F3 & F4 & F5 & F6 & Rc & Rs & Rn).
      eapply Inv_replace; try eassumption; [lia | reflexivity |].
      rewrite G. cbn. unfold flow_rel. cbn [sc_c sc_s d_done d_isn d_map d_recv].
      repeat split; auto; try discriminate.
      intros Ds. specialize (Rs Ds). rewrite Hn in Rs. destruct Rs as (-> & Hm & Hr).
      exists []. cbn. repeat split; auto. constructor.
    - destruct R as (_ & _ & X). contradiction.
  Qed.

  (* ---- one event ---- *)
  Lemma step_sim st cs e cs1 o :
    Inv st cs -> e_seq e < two32 ->
    sstep parse_req parse_resp cs e = (cs1, o, true) ->
    classify_strict cs e cs1 = (false, false, false, false) ->
    N.of_nat (length cs1) <= c_cap st ->
    exists st1, stepM st (wire e) = (st1, o) /\ Inv st1 cs1 /\ c_cap st1 = c_cap st.
  Proof.
    intros HI Hseq Hs Hk Hcap. unfold sstep in Hs. unfold classify_strict in Hk.
    destruct (conn_lookup (e_conn e) cs) as [c|] eqn:L.
    - destruct (e_syn e) eqn:Hsyn.
      + (* SYN on a known connection: only the server's first SYN is inside the domain *)
        destruct (e_client e) eqn:Hc; [now inversion Hs|].
        destruct (d_isn (sc_s c)) eqn:Hn; [now inversion Hs|].
        destruct (e_pay e) eqn:Hpay; [|now inversion Hs].
        injection Hs as <- <-.
        destruct (sim_synack st cs e c HI L Hc Hpay Hn Hseq) as [E I1].
        exists st. auto.
      + destruct (e_pay e) as [|b r] eqn:Hpay.
        * injection Hs as <- <-. exists st. split; [exact (sim_no_payload st cs e HI Hsyn Hpay)|]. auto.
        * destruct (e_client e) eqn:Hc.
          -- destruct (d_isn (sc_c c)) as [isn|] eqn:Hisn; [|now inversion Hs].
             destruct (dir_data parse_req (sc_c c) isn (e_seq e) (b :: r)) as [d ro] eqn:Hdd.
             injection Hs as <- <-.
             destruct (classify_dir_strict (sc_c c) isn (e_seq e) (b :: r)) as [[w g] u] eqn:Hcd.
             injection Hk as -> -> -> Hfin.
             rewrite <- Hpay in Hdd, Hcd.
             eapply sim_client_data; eauto.
          -- destruct (d_isn (sc_s c)) as [isn|] eqn:Hisn; [|now inversion Hs].
             destruct (dir_data parse_resp (sc_s c) isn (e_seq e) (b :: r)) as [d ro] eqn:Hdd.
             injection Hs as <- <-.
             destruct (classify_dir_strict (sc_s c) isn (e_seq e) (b :: r)) as [[w g] u] eqn:Hcd.
             injection Hk as -> -> ->.
             rewrite <- Hpay in Hdd, Hcd.
             eapply sim_server_data; eauto.
    - destruct (e_client e) eqn:Hc; [|now inversion Hs].
      destruct (e_syn e) eqn:Hsyn; [|now inversion Hs].
      destruct (e_pay e) eqn:Hpay; [|now inversion Hs].
      cbn in Hs. destruct (negb (e_fin e) && negb (e_rst e)); [|now inversion Hs].
      injection Hs as <- <-. cbn [length] in Hcap.
      eapply sim_open; eauto.
  Qed.

  (* ---- traces ---- *)
  Lemma sfinal_grows tr : forall cs, (length cs <= length (sfinal parse_req parse_resp cs tr))%nat.
  Proof.
    induction tr as [|e tr IH]; intros cs; cbn; [lia|].
    etransitivity; [|apply IH].
    unfold sstep. destruct (conn_lookup (e_conn e) cs) as [c|].
    - destruct (e_syn e).
      + destruct (e_client e), (d_isn (sc_s c)), (e_pay e); cbn; rewrite ?length_replace; lia.
      + destruct (e_pay e); [cbn; lia|].
        destruct (e_client e).
        * destruct (d_isn (sc_c c)); [|cbn; lia]. destruct (dir_data _ _ _ _ _). cbn. rewrite length_replace. lia.
        * destruct (d_isn (sc_s c)); [|cbn; lia]. destruct (dir_data _ _ _ _ _). cbn. rewrite length_replace. lia.
    - destruct (_ && _); cbn; lia.
  Qed.

  Lemma run_sim tr : forall st cs,
    Inv st cs -> (forall e, In e tr -> e_seq e < two32) ->
    snd (srun parse_req parse_resp cs tr) = true ->
    krun_strict parse_req parse_resp cs tr = (false, false, false, false) ->
    N.of_nat (length (sfinal parse_req parse_resp cs tr)) <= c_cap st ->
    snd (run parse_req parse_resp st (map wire tr)) = fst (srun parse_req parse_resp cs tr).
  Proof.
    induction tr as [|e tr IH]; intros st cs HI Hseq Hwf Hk Hcap; cbn; [reflexivity|].
    cbn in Hwf, Hk, Hcap.
    destruct (sstep parse_req parse_resp cs e) as [[cs1 o] ok] eqn:Hs. cbn [fst] in Hcap.
    destruct (srun parse_req parse_resp cs1 tr) as [os ok2] eqn:Hr. cbn in Hwf.
    apply andb_true_iff in Hwf. destruct Hwf as [-> ->].
    destruct (classify_strict cs e cs1) as [[[w g] u] f] eqn:Hc.
    destruct (krun_strict parse_req parse_resp cs1 tr) as [[[w2 g2] u2] f2] eqn:Hk2.
    injection Hk as Hw Hg Hu Hf.
    apply orb_false_iff in Hw, Hg, Hu, Hf.
    destruct Hw as [-> ->], Hg as [-> ->], Hu as [-> ->], Hf as [-> ->].
    destruct (step_sim st cs e cs1 o HI (Hseq e (or_introl eq_refl)) Hs Hc) as (st1 & E & I1 & C1).
    { etransitivity; [|exact Hcap]. pose proof (sfinal_grows tr cs1). lia. }
    rewrite E.
    specialize (IH st1 cs1 I1 (fun e' H => Hseq e' (or_intror H))).
    rewrite Hr, Hk2, C1 in IH. specialize (IH eq_refl eq_refl Hcap).
    destruct (run parse_req parse_resp st1 (map wire tr)) as [st2 os']. cbn in *. now rewrite IH.
  Qed.

  Lemma Inv_init cap : Inv (cache_new cap) [].
  Proof. split; [intros k v []|]. split; [cbn; lia|]. intros id. exact I. Qed.

  Theorem inorder_model_spec cap tr :
    (forall e, In e tr -> e_seq e < two32) ->
    spec_wf parse_req parse_resp tr = true ->
    known_strict parse_req parse_resp tr = false ->
    spec_conn_count parse_req parse_resp tr <= cap ->
    outs parse_req parse_resp cap (map wire tr) = spec_outs parse_req parse_resp tr.
  Proof.
    intros Hseq Hwf Hk Hcap. unfold outs, spec_outs.
    apply run_sim; auto using Inv_init.
    unfold known_strict, strict_classes in Hk.
    destruct (krun_strict parse_req parse_resp [] tr) as [[[w g] u] f].
    apply orb_false_iff in Hk. destruct Hk as [Hk ->].
    apply orb_false_iff in Hk. destruct Hk as [Hk ->].
    apply orb_false_iff in Hk. destruct Hk as [-> ->]. reflexivity.
  Qed.
End Sim.
