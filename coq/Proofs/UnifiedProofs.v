From Coq Require Import List Arith NArith Bool Lia.
From HN Require Import Base.Bytes Model.Unified Spec.UnifiedSpec.
Import ListNotations.

Lemma show_spec c g : show_grp c g = spec_show c g.
Proof. destruct g as [g|]; [|reflexivity]. unfold show_grp, spec_show, disabled_form. reflexivity. Qed.

Lemma map_show_absent c n : map (show_grp c) (absent n) = repeat None n.
Proof. unfold absent. induction n as [|n IH]; cbn; [reflexivity| now rewrite IH]. Qed.

Lemma map_show_spec c l : map (show_grp c) l = map (spec_show c) l.
Proof. apply map_ext. apply show_spec. Qed.

(* one packet: composition = union + mask, whenever every enabled analyzer accepts *)
Theorem packet_union c t h l out :
  spec_packet c t h l = Some out -> analyze_packet c t h l = out.
Proof.
  unfold spec_packet, all_accept, accepts, analyze_packet, stage, proto_part.
  destruct (tcp_en c), (http_en c), (tls_en c); destruct t as [tg|], h as [hg|], l as [lg|];
    cbn [negb orb andb groups_of]; intro H; try discriminate; injection H as <-;
    rewrite ?map_app, ?map_show_absent, ?map_show_spec; reflexivity.
Qed.

(* disabling a protocol removes exactly its groups and leaves the others as they were *)
Theorem mask_http c t h l o1 o2 :
  shape_ok 5 t = true -> shape_ok 2 h = true ->
  http_en c = true ->
  spec_packet c t h l = Some o1 ->
  spec_packet {| tcp_en := tcp_en c; http_en := false; tls_en := tls_en c; matcher_en := matcher_en c; db_present := db_present c |} t h l = Some o2 ->
  firstn 5 o1 = firstn 5 o2 /\ skipn 7 o1 = skipn 7 o2 /\ firstn 2 (skipn 5 o2) = [None; None].
Proof.
  intros St Sh He. unfold spec_packet, all_accept, accepts, proto_part; cbn [tcp_en http_en tls_en matcher_en].
  rewrite He. destruct (tcp_en c) eqn:Et, (tls_en c) eqn:El; destruct t as [tg|], h as [hg|], l as [lg|];
    cbn [negb orb andb groups_of]; intros H1 H2; try discriminate; injection H1 as <-; injection H2 as <-;
    cbn [shape_ok] in St, Sh; try apply Nat.eqb_eq in St; try apply Nat.eqb_eq in Sh;
    try (do 6 (destruct tg as [|? tg]; try discriminate St)); try (do 3 (destruct hg as [|? hg]; try discriminate Sh));
    cbn; auto.
Qed.

(* matcher off: every raw signature part unchanged, every match part in disabled form *)
Definition sig_of (s : shown) : option bytes := option_map fst s.
Definition disabled_part (s : shown) : bool :=
  match s with None => true | Some (_, m) => no_match_part m || starts_with (bs "D") m end.

Lemma spec_show_sig c c' g : sig_of (spec_show c g) = sig_of (spec_show c' g).
Proof. destruct g; reflexivity. Qed.
Lemma spec_show_disabled c g : matcher_en c = false -> disabled_part (spec_show c g) = true.
Proof.
  intro H. destruct g as [g|]; [|reflexivity]. unfold spec_show. rewrite H. cbn [disabled_part].
  destruct (no_match_part (g_off g)) eqn:E; [rewrite E; reflexivity|]. vm_compute. reflexivity.
Qed.

Theorem mask_matcher c t h l o1 o2 :
  matcher_en c = true ->
  spec_packet c t h l = Some o1 ->
  spec_packet {| tcp_en := tcp_en c; http_en := http_en c; tls_en := tls_en c; matcher_en := false; db_present := db_present c |} t h l = Some o2 ->
  map sig_of o1 = map sig_of o2 /\ forallb disabled_part o2 = true.
Proof.
  intros Hm. unfold spec_packet, all_accept; cbn [tcp_en http_en tls_en].
  destruct (accepts (tcp_en c) t && accepts (http_en c) h && accepts (tls_en c) l); intros H1 H2; try discriminate.
  injection H1 as <-. injection H2 as <-.
  set (c' := {| tcp_en := tcp_en c; http_en := http_en c; tls_en := tls_en c; matcher_en := false; db_present := db_present c |}).
  assert (P1 : forall en n r, map sig_of (proto_part c en n r) = map sig_of (proto_part c' en n r)).
  { intros en n r. unfold proto_part. destruct en; [|reflexivity]. rewrite !map_map. apply map_ext. intro g. apply spec_show_sig. }
  assert (P2 : forall en n r, forallb disabled_part (proto_part c' en n r) = true).
  { intros en n r. unfold proto_part. destruct en.
    - apply forallb_forall. intros x Hx. apply in_map_iff in Hx as (g & <- & _). apply spec_show_disabled. reflexivity.
    - induction n; cbn; auto. }
  split.
  - rewrite !map_app, !P1. reflexivity.
  - rewrite !forallb_app, !P2. reflexivity.
Qed.

(* ---- trace level: state of each protocol analyzer inside the unified analyzer = state on its own ---- *)
Section Trace.
  Variables (P ST SH : Type).
  Variable tcp_step : ST -> P -> ST * pres.
  Variable http_step : SH -> P -> SH * pres.
  Variable tls_fn : P -> pres.

  (* every enabled analyzer accepts every packet of the trace (run on its own) *)
  Fixpoint trace_accepts (c : cfg) (st : ST) (sh : SH) (tr : list P) : Prop :=
    match tr with
    | [] => True
    | p :: r =>
        all_accept c (snd (tcp_step st p)) (snd (http_step sh p)) (tls_fn p) = true /\
        trace_accepts c (if tcp_en c then fst (tcp_step st p) else st) (if http_en c then fst (http_step sh p) else sh) r
    end.

  Fixpoint spec_run (c : cfg) (st : ST) (sh : SH) (tr : list P) : list (option (list shown)) :=
    match tr with
    | [] => []
    | p :: r => spec_packet c (snd (tcp_step st p)) (snd (http_step sh p)) (tls_fn p)
                :: spec_run c (fst (tcp_step st p)) (fst (http_step sh p)) r
    end.

  (* the standalone protocol analyzers see every packet; inside the unified analyzer a disabled
     protocol sees none -- so the statement runs the standalone analyzers of the enabled protocols *)
  Fixpoint spec_run_enabled (c : cfg) (st : ST) (sh : SH) (tr : list P) : list (option (list shown)) :=
    match tr with
    | [] => []
    | p :: r => spec_packet c (snd (tcp_step st p)) (snd (http_step sh p)) (tls_fn p)
                :: spec_run_enabled c (if tcp_en c then fst (tcp_step st p) else st)
                                      (if http_en c then fst (http_step sh p) else sh) r
    end.

  Theorem trace_union c : forall tr st sh,
    trace_accepts c st sh tr ->
    map Some (unified_run P ST SH tcp_step http_step tls_fn c (st, sh) tr) = spec_run_enabled c st sh tr.
  Proof.
    induction tr as [|p tr IH]; intros st sh Hacc; cbn [unified_run spec_run_enabled map]; [reflexivity|].
    destruct Hacc as [Ha Hrest].
    pose proof (packet_union c (snd (tcp_step st p)) (snd (http_step sh p)) (tls_fn p)) as PU.
    unfold spec_packet in *. rewrite Ha in *. specialize (PU _ eq_refl).
    unfold unified_step.
    destruct (http_step sh p) as [sh' h] eqn:Eh. destruct (tcp_step st p) as [st' t] eqn:Et.
    cbn [fst snd] in *.
    unfold all_accept, accepts in Ha. unfold analyze_packet, stage in PU.
    destruct (http_en c), (tcp_en c), (tls_en c); destruct h as [hg|], t as [tg|]; destruct (tls_fn p) as [lg|];
      cbn in Ha; try discriminate Ha; cbn [map]; rewrite PU; (f_equal; apply IH; exact Hrest).
  Qed.
End Trace.

Example union_example :
  let g := {| g_sig := bs "sig"; g_on := bs "M41+42"; g_off := bs "D+43" |} in
  let c := {| tcp_en := true; http_en := false; tls_en := true; matcher_en := false; db_present := false |} in
  ctor_ok c = true /\
  spec_packet c (Some [Some g; None; None; None; None]) None (Some [None])
  = Some [Some (bs "sig", bs "D+43"); None; None; None; None; None; None; None].
Proof. vm_compute. split; reflexivity. Qed.
