(* C19, whole histories: the MODEL tracker (keyed by connection, direction and role) reports exactly
   what the SPEC tracker (keyed by connection and direction) reports, outside the known classes. *)
From Coq Require Import List ZArith Bool Lia.
From HN Require Import Model.Uptime Spec.UptimeSpec Proofs.UptimeProofs Proofs.UptimeEstProofs Proofs.UptimeTrackProofs.
Import ListNotations.
Open Scope Z_scope.

Definition to_sresult (r : seg_result) : sresult :=
  match r with
  | RErr => SErr
  | ROut None None => SNone
  | ROut (Some u) None => SEst Client u
  | ROut None (Some u) => SEst Server u
  | ROut (Some _) (Some _) => SErr      (* never produced, see role_labelling *)
  end.

Definition wf_event (e : segment * Z) : Prop :=
  0 <= sg_flags (fst e) < 256 /\ wf_obs (snd e) (sg_tsval (fst e)).

Definition role_bool (r : role) : bool := match r with Client => true | Server => false end.
Lemma role_bool_of_bool b : role_bool (role_of_bool b) = b.
Proof. now destruct b. Qed.
Lemma role_eqb_eq a b : role_eqb a b = true -> a = b.
Proof. destruct a, b; cbn; congruence. Qed.

Definition entry_rel (me : option tcp_timestamp) (se : option sentry) : Prop :=
  match me, se with
  | None, None => True
  | Some e, Some SBad => is_bad_frequency e = true
  | Some e, Some (SRef t v) => is_bad_frequency e = false /\ recv_time_ms e = t /\ ts_val e = v /\ wf_obs t v
  | _, _ => False
  end.

Definition inv (seen : list (connection * role)) (tr : cache) (st : stracker) : Prop :=
  forall c, match role_of_conn seen c with
            | None => s_get st c = None /\ forall r, cache_get tr (c, r) = None
            | Some ro => entry_rel (cache_get tr (c, role_bool ro)) (s_get st c)
            end.

Lemma s_get_set st c e c' : s_get (s_set st c e) c' = if conn_eqb c c' then Some e else s_get st c'.
Proof.
  induction st as [|[c0 e0] st IH]; cbn [s_set s_get].
  - now destruct (conn_eqb c c').
  - destruct (conn_eqb c0 c) eqn:E0.
    + apply conn_eqb_eq in E0. subst c0. cbn [s_get]. destruct (conn_eqb c c'); reflexivity.
    + cbn [s_get]. destruct (conn_eqb c0 c') eqn:E1.
      * apply conn_eqb_eq in E1. subst c0. destruct (conn_eqb c c') eqn:E2; [|reflexivity].
        apply conn_eqb_eq in E2. subst c. rewrite conn_eqb_refl in E0. discriminate.
      * exact IH.
Qed.

(* the invariant is kept by a step that changes only the entries of connection c *)
Lemma inv_update seen tr st tr' st' c ro :
  inv seen tr st ->
  (forall k', fst k' <> c -> cache_get tr' k' = cache_get tr k') ->
  (forall c', conn_eqb c c' = false -> s_get st' c' = s_get st c') ->
  entry_rel (cache_get tr' (c, role_bool ro)) (s_get st' c) ->
  (role_of_conn seen c = Some ro \/ role_of_conn seen c = None) ->
  inv (match role_of_conn seen c with Some _ => seen | None => (c, ro) :: seen end) tr' st'.
Proof.
  intros I Ftr Fst R Hro c'.
  destruct (conn_eqb c c') eqn:E.
  - apply conn_eqb_eq in E. subst c'.
    destruct Hro as [Hro|Hro]; rewrite Hro.
    + rewrite Hro. exact R.
    + cbn [role_of_conn]. rewrite conn_eqb_refl. exact R.
  - assert (Hne : c' <> c) by (intros ->; rewrite conn_eqb_refl in E; discriminate).
    assert (Hroc : role_of_conn (match role_of_conn seen c with Some _ => seen | None => (c, ro) :: seen end) c'
                   = role_of_conn seen c').
    { destruct (role_of_conn seen c); [reflexivity|]. cbn [role_of_conn]. now rewrite E. }
    rewrite Hroc. specialize (I c'). rewrite (Fst c' E).
    destruct (role_of_conn seen c').
    + rewrite Ftr by (cbn [fst]; exact Hne). exact I.
    + destruct I as [I1 I2]. split; [exact I1|]. intros r. rewrite Ftr by (cbn [fst]; exact Hne). apply I2.
Qed.

Lemma process_frame_conn tr s now k' :
  fst k' <> sg_conn s -> cache_get (fst (process_segment tr s now)) k' = cache_get tr k'.
Proof. intros H. apply process_frame. intros ->. apply H. reflexivity. Qed.

Lemma process_bad_valid tr s now e :
  seg_valid s = true -> cache_get tr (seg_key s) = Some e -> is_bad_frequency e = true ->
  process_segment tr s now = (tr, ROut None None).
Proof.
  intros V G B. rewrite process_unfold, V. cbn [negb]. unfold seg_key in G.
  rewrite (check_bad _ _ _ _ _ _ G B). reflexivity.
Qed.

Lemma spec_history_cons st s now h :
  spec_history st ((s, now) :: h) = snd (spec_segment st s now) :: spec_history (fst (spec_segment st s now)) h.
Proof. cbn [spec_history]. now destruct (spec_segment st s now). Qed.

Theorem history_sim h : forall seen tr st,
  Forall wf_event h -> inv seen tr st ->
  known_role_split_from seen h = false -> known_pairs_history st h = false ->
  map to_sresult (run_history tr h) = spec_history st h.
Proof.
  induction h as [|[s now] h IH]; intros seen tr st W I Ksplit Kpairs; [reflexivity|].
  inversion W as [|? ? [Hfl Hobs] W']; subst. cbn [fst snd] in Hfl, Hobs.
  rewrite run_history_cons, spec_history_cons. cbn [map].
  cbn [known_role_split_from] in Ksplit. cbn [known_pairs_history] in Kpairs.
  apply orb_false_elim in Kpairs. destruct Kpairs as [Khere Krest].
  pose proof (seg_valid_spec s Hfl) as V.
  unfold spec_segment in *.
  destruct (spec_analysed (sg_flags s)) eqn:A; cbn [negb] in *.
  2:{ (* rejected segment: no state change on either side *)
      rewrite process_unfold, V. cbn [negb fst snd to_sresult]. f_equal.
      apply (IH seen); assumption. }
  set (c := sg_conn s) in *.
  set (ro := spec_role (sg_flags s) (src_port c) (dst_port c)) in *.
  pose proof (role_rule (sg_flags s) (src_port c) (dst_port c) Hfl) as R. fold ro in R.
  change (role_of_bool (seg_role s) = ro) in R.
  assert (Hkey : seg_key s = (c, role_bool ro)) by (unfold seg_key; rewrite <- R, role_bool_of_bool; reflexivity).
  pose proof (I c) as Ic.
  (* the role recorded for this direction, if any, is the role of this segment *)
  assert (Hro : role_of_conn seen c = Some ro \/ role_of_conn seen c = None).
  { destruct (role_of_conn seen c) as [r0|] eqn:E; [|now right]. left.
    destruct (role_eqb r0 ro) eqn:E2; [apply role_eqb_eq in E2; now subst | discriminate]. }
  assert (Ksplit' : known_role_split_from (match role_of_conn seen c with Some _ => seen | None => (c, ro) :: seen end) h = false).
  { destruct (role_of_conn seen c) as [r0|]; [|exact Ksplit]. destruct (role_eqb r0 ro); [exact Ksplit | discriminate]. }
  assert (Rel : entry_rel (cache_get tr (seg_key s)) (s_get st c)).
  { rewrite Hkey. destruct Hro as [E|E]; rewrite E in Ic; [exact Ic|].
    destruct Ic as [I1 I2]. rewrite I1, I2. cbn [entry_rel]. trivial. }
  clear Ic.
  destruct (cache_get tr (seg_key s)) as [e|] eqn:G; destruct (s_get st c) as [[t v|]|] eqn:S; cbn [entry_rel] in Rel; try contradiction.
  - (* a reference is stored: evaluate *)
    destruct Rel as (B & <- & <- & Wref).
    cbn [andb] in Khere.
    pose proof (estimate_model_spec _ _ _ _ Wref Hobs Khere) as EQ.
    pose proof (eval_model_spec _ _ _ _ Wref Hobs Khere) as EQ'.
    destruct (spec_estimate (recv_time_ms e) (ts_val e) now (sg_tsval s)) as [u|] eqn:SE.
    + rewrite (process_eval tr s now e ltac:(congruence) G B u EQ). cbn [fst snd].
      f_equal.
      * rewrite <- R. destruct (seg_role s); reflexivity.
      * eapply IH; [exact W' | | exact Ksplit' | exact Krest].
        apply (inv_update seen tr st); [exact I | reflexivity | reflexivity | | exact Hro].
        rewrite <- Hkey, G, S. cbn [entry_rel]. auto.
    + cbn [eval_of_spec] in EQ'.
      destruct (process_failed_eval tr s now e ltac:(congruence) G B EQ') as [O C].
      rewrite O. cbn [fst snd to_sresult]. f_equal.
      eapply IH; [exact W' | | exact Ksplit' | exact Krest].
      apply (inv_update seen tr st); [exact I | | | | exact Hro].
      * intros k' Hk. apply process_frame_conn. exact Hk.
      * intros c' Hc. rewrite s_get_set, Hc. reflexivity.
      * rewrite <- Hkey, C, s_get_set, conn_eqb_refl. reflexivity.
  - (* marker *)
    rewrite (process_bad_valid tr s now e ltac:(congruence) G Rel). cbn [fst snd to_sresult]. f_equal.
    eapply IH; [exact W' | | exact Ksplit' | exact Krest].
    apply (inv_update seen tr st); [exact I | reflexivity | reflexivity | | exact Hro].
    rewrite <- Hkey, G, S. exact Rel.
  - (* first segment of this direction *)
    destruct (process_first tr s now ltac:(congruence) G) as [O C].
    rewrite O. cbn [fst snd to_sresult]. f_equal.
    eapply IH; [exact W' | | exact Ksplit' | exact Krest].
    apply (inv_update seen tr st); [exact I | | | | exact Hro].
    + intros k' Hk. apply process_frame_conn. exact Hk.
    + intros c' Hc. rewrite s_get_set, Hc. reflexivity.
    + rewrite <- Hkey, C, s_get_set, conn_eqb_refl. cbn. repeat split; auto; apply Hobs.
Qed.

Theorem history_model_spec h :
  Forall wf_event h -> known_history h = false ->
  map to_sresult (run_history [] h) = spec_history [] h.
Proof.
  intros W K. unfold known_history in K. apply orb_false_elim in K. destruct K as [K1 K2].
  apply (history_sim h [] [] []); try assumption.
  intros c. cbn. split; [reflexivity | intros; reflexivity].
Qed.

(* K4 witness: SYN to port 8080, then an ACK of the same endpoint one second and 1000 ticks later *)
Definition split_conn : connection := {| src_ip := 167772161; src_port := 40000; dst_ip := 167772162; dst_port := 8080 |}.
Definition split_history : list (segment * Z) :=
  [({| sg_flags := 2; sg_conn := split_conn; sg_tsval := 1000; sg_tsecr := 0 |}, 0);
   ({| sg_flags := 16; sg_conn := split_conn; sg_tsval := 2000; sg_tsecr := 0 |}, 1000)].
Lemma Known_role_split_refuted :
  exists h, Forall wf_event h /\ known_role_split h = true /\
            map to_sresult (run_history [] h) <> spec_history [] h.
Proof.
  exists split_history. split; [|split].
  - repeat constructor; cbn; lia.
  - vm_compute. reflexivity.
  - vm_compute. discriminate.
Qed.

Example history_model_spec_ex :
  let c := {| src_ip := 167772161; src_port := 40000; dst_ip := 167772162; dst_port := 80 |} in
  let d := {| src_ip := 167772162; src_port := 80; dst_ip := 167772161; dst_port := 40000 |} in
  let h := [({| sg_flags := 2; sg_conn := c; sg_tsval := 5000; sg_tsecr := 0 |}, 1000);
            ({| sg_flags := 18; sg_conn := d; sg_tsval := 777000; sg_tsecr := 5000 |}, 1010);
            ({| sg_flags := 16; sg_conn := c; sg_tsval := 6000; sg_tsecr := 777000 |}, 2000);
            ({| sg_flags := 16; sg_conn := d; sg_tsval := 777250; sg_tsecr := 6000 |}, 2010)] in
  known_history h = false /\
  spec_history [] h = [SNone; SNone;
                       SEst Client {| u_freq := 1000; u_days := 0; u_hours := 0; u_min := 0; u_mod_days := 49 |};
                       SEst Server {| u_freq := 250; u_days := 0; u_hours := 0; u_min := 51; u_mod_days := 198 |}].
Proof. vm_compute. auto. Qed.
