(* Proofs for C16, part 1: framing.  For every header block and every framing of it (padding, priority
   fields, CONTINUATION splits at any byte, extra flag bits, preceding control frames, trailing frames
   of other streams) `build_stream` hands exactly the block to the HPACK decoder, once. *)
From Coq Require Import List NArith ZArith Bool Lia ZifyBool ZifyN Arith.
From Coq Require Import Strings.Byte.
From HN Require Import Base.Bytes Model.H2Text Model.H2Frames Model.Hpack Model.H2Msg
     Spec.H2Wire Spec.H2Spec Proofs.H2FramesProofs Proofs.HpackProofs.
Import ListNotations.
Open Scope N_scope.

(* ---------- flag arithmetic, by exhaustion over the 256 flag octets ---------- *)
Definition flag_check (l p q : bool) (e : N) : bool :=
  implb (N.land e 44 =? 0)
        (let fl := e + flag_if l 4 + flag_if p 8 + flag_if q 32 in
         Bool.eqb (has_flag fl FLAG_END_HEADERS) l && Bool.eqb (has_flag fl FLAG_PADDED) p
         && Bool.eqb (has_flag fl FLAG_PRIORITY) q && (fl <? 256)).
Definition cflag_check (l : bool) (e : N) : bool :=
  implb (N.land e 4 =? 0)
        (let fl := e + flag_if l 4 in Bool.eqb (has_flag fl FLAG_END_HEADERS) l && (fl <? 256)).

Lemma octet_forall (P : N -> bool) :
  forallb (fun n => P (N.of_nat n)) (seq 0 256) = true -> forall e, e < 256 -> P e = true.
Proof.
  intros A e He. rewrite forallb_forall in A.
  specialize (A (N.to_nat e)). rewrite Nnat.N2Nat.id in A. apply A. apply in_seq. lia.
Qed.

Lemma flags_all l p q e : e < 256 -> flag_check l p q e = true.
Proof. apply octet_forall. destruct l, p, q; vm_compute; reflexivity. Qed.
Lemma cflags_all l e : e < 256 -> cflag_check l e = true.
Proof. apply octet_forall. destruct l; vm_compute; reflexivity. Qed.

Lemma hflags e l p q :
  e < 256 -> N.land e 44 = 0 ->
  let fl := e + flag_if l 4 + flag_if p 8 + flag_if q 32 in
  has_flag fl FLAG_END_HEADERS = l /\ has_flag fl FLAG_PADDED = p /\ has_flag fl FLAG_PRIORITY = q /\ fl < 256.
Proof.
  intros He Hl. pose proof (flags_all l p q e He) as A. unfold flag_check in A.
  rewrite Hl in A. change (0 =? 0) with true in A. cbn [implb] in A. cbv zeta in *.
  rewrite !andb_true_iff in A. destruct A as [[[A1 A2] A3] A4].
  apply eqb_prop in A1, A2, A3. repeat split; try assumption. lia.
Qed.

Lemma cflags e l :
  e < 256 -> N.land e 4 = 0 ->
  has_flag (e + flag_if l 4) FLAG_END_HEADERS = l /\ e + flag_if l 4 < 256.
Proof.
  intros He Hl. pose proof (cflags_all l e He) as A. unfold cflag_check in A.
  rewrite Hl in A. change (0 =? 0) with true in A. cbn [implb] in A. cbv zeta in *.
  rewrite !andb_true_iff in A. destruct A as [A1 A2]. apply eqb_prop in A1. split; [assumption|lia].
Qed.

(* ---------- what build_stream does once the block is complete ---------- *)
Definition decode_then (t : dtable) (block : bytes) (s : stream) : bres :=
  match hpack_decode t block with
  | DOk hs _ => BOk (absorb s (to_http_headers hs 0))
  | DErr => BErr
  | DPanic => BPanic
  | DFuel => BErr
  end.

Record framing_props (fr : framing) : Prop := {
  fp_pad : blen (opt_bytes (fr_pad fr)) < 256;
  fp_prio : match fr_prio fr with Some q => blen q = 5 | None => True end;
  fp_eh : fr_extra_h fr < 256 /\ N.land (fr_extra_h fr) 44 = 0;
  fp_ec : fr_extra_c fr < 256 /\ N.land (fr_extra_c fr) 4 = 0 }.

Lemma framing_ok_props fr frags : framing_ok fr frags = true -> framing_props fr /\ frags <> [].
Proof.
  unfold framing_ok. rewrite !andb_true_iff. intros [[[[[[[H0 H1] H2] H3] H4] H5] H6] H7].
  split.
  - constructor.
    + lia.
    + destruct (fr_prio fr); [lia|exact I].
    + split; lia.
    + split; lia.
  - destruct frags; [discriminate|discriminate].
Qed.

(* the header block fragment of the HEADERS frame built by the specification *)
Lemma headers_fragment_frame sid fr frag last :
  framing_props fr -> headers_fragment (headers_frame sid fr frag last) = Some frag.
Proof.
  intros [Hpad Hprio [He1 He2] _].
  unfold headers_fragment, headers_frame. cbn [f_flags f_payload].
  destruct (hflags (fr_extra_h fr) last (is_some (fr_pad fr)) (is_some (fr_prio fr)) He1 He2) as (_ & Hp & Hq & _).
  cbv zeta in Hp, Hq. rewrite Hp, Hq.
  destruct (fr_pad fr) as [pad|]; destruct (fr_prio fr) as [q|]; cbn [is_some opt_bytes app] in *.
  - rewrite b2n_n2b by lia.
    replace (blen (q ++ frag ++ pad) <? 5) with false by (rewrite blen_app; lia).
    replace 5%nat with (N.to_nat (blen q)) by lia. rewrite skipn_blen.
    replace (blen (frag ++ pad) <? blen pad) with false by (rewrite blen_app; lia).
    replace (blen (frag ++ pad) - blen pad) with (blen frag) by (rewrite blen_app; lia).
    now rewrite firstn_blen.
  - rewrite b2n_n2b by lia.
    replace (blen (frag ++ pad) <? blen pad) with false by (rewrite blen_app; lia).
    replace (blen (frag ++ pad) - blen pad) with (blen frag) by (rewrite blen_app; lia).
    now rewrite firstn_blen.
  - rewrite app_nil_r.
    replace (blen (q ++ frag) <? 5) with false by (rewrite blen_app; lia).
    replace 5%nat with (N.to_nat (blen q)) by lia. rewrite skipn_blen.
    replace (blen frag <? 0) with false by lia. rewrite N.sub_0_r.
    rewrite <- (app_nil_r frag) at 2. now rewrite firstn_blen.
  - rewrite app_nil_r. replace (blen frag <? 0) with false by lia. rewrite N.sub_0_r.
    rewrite <- (app_nil_r frag) at 2. now rewrite firstn_blen.
Qed.

Lemma build_loop_nil block t s : build_loop [] block t s = BOk s.
Proof. reflexivity. Qed.

Lemma cont_more sid fr g r :
  match continuation_frames sid fr (g :: r) with next :: _ => f_type next =? T_CONTINUATION | [] => false end = true.
Proof. destruct r; reflexivity. Qed.
Lemma cont_notlast sid fr g r :
  match continuation_frames sid fr (g :: r) with [] => true | _ :: _ => false end = false.
Proof. destruct r; reflexivity. Qed.

(* CONTINUATION frames: fragments are appended until END_HEADERS, then the block is decoded *)
Lemma build_loop_continuations sid fr : framing_props fr ->
  forall frags blk t s, frags <> [] ->
  build_loop (continuation_frames sid fr frags) blk t s = decode_then t (blk ++ concat frags) s.
Proof.
  intros [_ _ _ [Hc1 Hc2]]. induction frags as [|f r IH]; intros blk t s Hne; [congruence|].
  destruct r as [|g r'].
  - cbn [continuation_frames build_loop continuation_frame f_type f_flags f_payload concat].
    change (9 =? T_HEADERS) with false. change (9 =? T_CONTINUATION) with true. cbn [orb].
    destruct (cflags (fr_extra_c fr) true Hc1 Hc2) as [Hf _]. rewrite Hf. cbn [negb andb].
    rewrite app_nil_r. unfold decode_then.
    destruct (hpack_decode t (blk ++ f)); reflexivity.
  - change (continuation_frames sid fr (f :: g :: r'))
      with (continuation_frame sid fr f false :: continuation_frames sid fr (g :: r')).
    cbn [build_loop continuation_frame f_type f_flags f_payload].
    change (9 =? T_HEADERS) with false. change (9 =? T_CONTINUATION) with true. cbn [orb].
    destruct (cflags (fr_extra_c fr) false Hc1 Hc2) as [Hf _]. rewrite Hf, cont_more, cont_notlast.
    cbn [negb andb].
    rewrite IH by discriminate. cbn [concat]. now rewrite <- app_assoc.
Qed.

(* framing theorem: HEADERS (+ CONTINUATION) frames of a block, however padded, prioritised and
   split, make build_stream decode exactly the concatenation of the fragments *)
Theorem framing_theorem sid fr frags t s :
  framing_ok fr frags = true ->
  build_loop (frames_of sid fr frags) [] t s = decode_then t (concat frags) s.
Proof.
  intros Hok. destruct (framing_ok_props fr frags Hok) as [Hp Hne].
  destruct frags as [|f0 rest]; [congruence|].
  pose proof Hp as [_ _ [He1 He2] _].
  unfold frames_of. cbn [build_loop].
  change (f_type (headers_frame sid fr f0 _)) with 1.
  change (1 =? T_HEADERS) with true. cbn [orb].
  rewrite (headers_fragment_frame sid fr f0 _ Hp). cbn [app].
  destruct rest as [|g r].
  - destruct (hflags (fr_extra_h fr) true (is_some (fr_pad fr)) (is_some (fr_prio fr)) He1 He2) as (Hl & _).
    cbv zeta in Hl. unfold headers_frame at 1. cbn [f_flags]. rewrite Hl. cbn [negb andb concat].
    rewrite app_nil_r. unfold decode_then. destruct (hpack_decode t f0); reflexivity.
  - destruct (hflags (fr_extra_h fr) false (is_some (fr_pad fr)) (is_some (fr_prio fr)) He1 He2) as (Hl & _).
    cbv zeta in Hl. unfold headers_frame at 1. cbn [f_flags]. rewrite Hl.
    rewrite cont_more, cont_notlast. cbn [negb andb].
    rewrite (build_loop_continuations sid fr Hp) by discriminate. reflexivity.
Qed.

(* ---------- from the bytes of a connection start to the decoded block ---------- *)
Lemma frames_of_nonempty sid fr frags : frags <> [] -> frames_of sid fr frags <> [].
Proof. destruct frags; [congruence|discriminate]. Qed.

Lemma continuation_frames_props sid fr frags :
  framing_props fr -> sid < 2 ^ 31 ->
  Forall (fun f => f_type f = 9 /\ f_stream f = sid /\ f_flags f < 256) (continuation_frames sid fr frags).
Proof.
  intros [_ _ _ [Hc1 Hc2]] Hs. induction frags as [|f r IH]; [constructor|].
  destruct r as [|g r'].
  - constructor; [|constructor]. cbn. repeat split. apply (cflags _ true Hc1 Hc2).
  - change (continuation_frames sid fr (f :: g :: r'))
      with (continuation_frame sid fr f false :: continuation_frames sid fr (g :: r')).
    constructor; [|exact IH]. cbn. repeat split. apply (cflags _ false Hc1 Hc2).
Qed.

Lemma continuation_payloads sid fr frags :
  map f_payload (continuation_frames sid fr frags) = frags.
Proof.
  induction frags as [|f r IH]; [reflexivity|]. destruct r as [|g r']; [reflexivity|].
  change (continuation_frames sid fr (f :: g :: r'))
    with (continuation_frame sid fr f false :: continuation_frames sid fr (g :: r')).
  cbn [map continuation_frame f_payload]. now rewrite IH.
Qed.

Lemma frames_of_payloads sid sid' fr frags :
  map f_payload (frames_of sid fr frags) = map f_payload (frames_of sid' fr frags).
Proof.
  destruct frags as [|f0 rest]; [reflexivity|]. unfold frames_of. cbn [map].
  now rewrite !continuation_payloads.
Qed.

Lemma frames_of_props sid fr frags :
  framing_ok fr frags = true -> 0 < sid -> sid < 2 ^ 31 ->
  Forall (fun f => f_stream f = sid /\ f_type f < 256 /\ f_flags f < 256 /\ blen (f_payload f) <= 16384)
         (frames_of sid fr frags)
  /\ exists h rest, frames_of sid fr frags = h :: rest /\ f_type h = 1.
Proof.
  intros Hok H0 Hs. destruct (framing_ok_props fr frags Hok) as [Hp Hne].
  assert (Hpay : Forall (fun p => blen p <= 16384) (map f_payload (frames_of sid fr frags))).
  { rewrite (frames_of_payloads sid 1). unfold framing_ok in Hok. rewrite !andb_true_iff in Hok.
    destruct Hok as [_ Hall]. rewrite forallb_forall in Hall. apply Forall_forall. intros p Hin.
    apply in_map_iff in Hin. destruct Hin as (f & <- & Hin). apply Hall in Hin. lia. }
  destruct frags as [|f0 rest]; [congruence|].
  split.
  - unfold frames_of in *. cbn [map] in Hpay. inversion Hpay as [|? ? Hp0 Hprest]; subst.
    constructor.
    + pose proof Hp as [_ _ [He1 He2] _].
      destruct (hflags (fr_extra_h fr) (match rest with [] => true | _ => false end)
                       (is_some (fr_pad fr)) (is_some (fr_prio fr)) He1 He2) as (_ & _ & _ & Hlt).
      cbn [headers_frame f_stream f_type f_flags]. repeat split; try assumption; lia.
    + pose proof (continuation_frames_props sid fr rest Hp Hs) as Hc.
      rewrite Forall_forall in *. intros f Hin. destruct (Hc f Hin) as (Ht & Hst & Hfl).
      repeat split; try assumption; try lia. apply Hprest. now apply in_map.
  - unfold frames_of. eexists; eexists; split; reflexivity.
Qed.

Lemma find_primary_app_skip l r :
  Forall (fun f => (0 <? f_stream f) && (f_type f =? 1) = false) l ->
  find_primary_stream (l ++ r) = find_primary_stream r.
Proof.
  induction 1 as [|f l Hf _ IH]; [reflexivity|].
  cbn [app find_primary_stream]. change T_HEADERS with 1. now rewrite Hf.
Qed.

Lemma filter_none {A} (p : A -> bool) l : Forall (fun x => p x = false) l -> filter p l = [].
Proof. induction 1 as [|x l Hx _ IH]; [reflexivity|]. cbn [filter]. now rewrite Hx. Qed.
Lemma filter_all {A} (p : A -> bool) l : Forall (fun x => p x = true) l -> filter p l = l.
Proof. induction 1 as [|x l Hx _ IH]; [reflexivity|]. cbn [filter]. rewrite Hx. now f_equal. Qed.

Section Pipeline.
  Variables (ctl trail : list (bool * frame)) (sid : N) (fr : framing) (frags : list bytes).
  Hypothesis Hctl : forallb (ctl_ok sid) ctl = true.
  Hypothesis Htrail : forallb (trail_ok sid) trail = true.
  Hypothesis Hfr : framing_ok fr frags = true.
  Hypothesis Hsid : 0 < sid /\ sid < 2 ^ 31.

  Let block_frames := frames_of sid fr frags.
  Let all_frames := ctl ++ map (fun f => (fr_rsv fr, f)) block_frames ++ trail.

  Lemma all_wire_ok : forallb wire_ok all_frames = true.
  Proof.
    unfold all_frames. rewrite !forallb_app. rewrite !andb_true_iff. repeat split.
    - rewrite forallb_forall in *. intros x Hx. specialize (Hctl x Hx). unfold ctl_ok in Hctl.
      rewrite !andb_true_iff in Hctl. tauto.
    - destruct (frames_of_props sid fr frags Hfr (proj1 Hsid) (proj2 Hsid)) as [Hall _].
      rewrite forallb_forall. intros x Hx. apply in_map_iff in Hx. destruct Hx as (f & <- & Hin).
      rewrite Forall_forall in Hall. destruct (Hall f Hin) as (Hst & Hty & Hfl & Hpl).
      unfold wire_ok. cbn [snd]. destruct Hsid. rewrite Hst. change (2 ^ 31) with 2147483648 in *. lia.
    - rewrite forallb_forall in *. intros x Hx. specialize (Htrail x Hx). unfold trail_ok in Htrail.
      rewrite !andb_true_iff in Htrail. tauto.
  Qed.

  Lemma all_parsed : parse_frames (wire all_frames) = map snd all_frames.
  Proof. apply parse_frames_wire, all_wire_ok. Qed.

  Lemma all_frames_list : map snd all_frames = map snd ctl ++ block_frames ++ map snd trail.
  Proof.
    unfold all_frames. rewrite !map_app, map_map. cbn [snd]. now rewrite map_id.
  Qed.

  Lemma primary_is_sid : find_primary_stream (map snd all_frames) = Some sid.
  Proof.
    rewrite all_frames_list. rewrite find_primary_app_skip.
    - destruct (frames_of_props sid fr frags Hfr (proj1 Hsid) (proj2 Hsid)) as [Hall (h & rest & E & Ht)].
      unfold block_frames. rewrite E in *. cbn [app find_primary_stream].
      inversion Hall as [|? ? Hh _]; subst. destruct Hh as (Hst & _). rewrite Hst, Ht. change T_HEADERS with 1.
      destruct Hsid. replace (0 <? sid) with true by lia. reflexivity.
    - apply Forall_forall. intros f Hin. apply in_map_iff in Hin. destruct Hin as (rf & <- & Hin).
      rewrite forallb_forall in Hctl. specialize (Hctl rf Hin). unfold ctl_ok in Hctl.
      rewrite !andb_true_iff in Hctl. destruct Hctl as [_ Hn]. now apply negb_true_iff in Hn.
  Qed.

  Lemma stream_frames_are_block :
    filter (fun f => f_stream f =? sid) (map snd all_frames) = block_frames.
  Proof.
    rewrite all_frames_list, !filter_app.
    rewrite (filter_none _ (map snd ctl)), (filter_none _ (map snd trail)), filter_all.
    - now rewrite app_nil_r.
    - destruct (frames_of_props sid fr frags Hfr (proj1 Hsid) (proj2 Hsid)) as [Hall _].
      eapply Forall_impl; [|exact Hall]. intros f (Hst & _). cbv beta. lia.
    - apply Forall_forall. intros f Hin. apply in_map_iff in Hin. destruct Hin as (rf & <- & Hin).
      rewrite forallb_forall in Htrail. specialize (Htrail rf Hin). unfold trail_ok in Htrail.
      rewrite !andb_true_iff in Htrail. destruct Htrail as [_ Hn]. now apply negb_true_iff in Hn.
    - apply Forall_forall. intros f Hin. apply in_map_iff in Hin. destruct Hin as (rf & <- & Hin).
      rewrite forallb_forall in Hctl. specialize (Hctl rf Hin). unfold ctl_ok in Hctl.
      rewrite !andb_true_iff in Hctl. destruct Hctl as [[_ Hn] _]. now apply negb_true_iff in Hn.
  Qed.

  (* C16_framing at the level of build_stream: whatever the framing, the decoder gets the block *)
  Lemma build_stream_block :
    build_stream sid (map snd all_frames) = decode_then dt_new (concat frags) stream_empty.
  Proof. unfold build_stream. rewrite stream_frames_are_block. now apply framing_theorem. Qed.

  Lemma all_frames_nonempty : map snd all_frames <> [].
  Proof.
    rewrite all_frames_list. destruct (frames_of_props sid fr frags Hfr (proj1 Hsid) (proj2 Hsid)) as [_ (h & rest & E & _)].
    unfold block_frames. rewrite E. destruct (map snd ctl); discriminate.
  Qed.
End Pipeline.
