(* C07, concrete instance 2: the packet-level TCP analyzer (Model/TcpAnalyzer.v) is a keyed machine.
   key = (connection, role) as uptime::check_ts_tcp builds it, slot = the stored TcpTimestamp;
   the signature / MTU part of the result is a function of the frame alone (TcpExtract.process_frame). *)
From Coq Require Import List NArith ZArith Bool Lia.
From Coq Require Import Strings.Byte.
From HN Require Import Base.Bytes Base.Keyed Proofs.KeyedProofs Proofs.KeyedInstances
                       Model.SigAst Model.Pnet Model.TcpExtract Model.TcpAnalyzer.
From HN Require Model.Uptime Proofs.UptimeTrackProofs.
From HN Require Import Model.TlsHello.  (* lenN *)
Import ListNotations.
Open Scope N_scope.

Notation ckey := Uptime.connection_key.
Notation key_eqb := Uptime.key_eqb.
Notation cache_get := Uptime.cache_get.
Notation tstamp := Uptime.tcp_timestamp.
Notation uptime := Uptime.uptime.

Lemma key_eqb_sym (a b : ckey) : key_eqb a b = key_eqb b a.
Proof.
  destruct (key_eqb a b) eqn:E1, (key_eqb b a) eqn:E2; try reflexivity.
  - apply UptimeTrackProofs.key_eqb_eq in E1. subst. now rewrite UptimeTrackProofs.key_eqb_refl in E2.
  - apply UptimeTrackProofs.key_eqb_eq in E2. subst. now rewrite UptimeTrackProofs.key_eqb_refl in E1.
Qed.

(* ---- check_ts_tcp as a function of the slot of its own key ---- *)
Definition local_check (slot : option tstamp) (fc : bool) (tsv now : Z)
  : option tstamp * (option uptime * option uptime) :=
  match slot with
  | Some ref =>
      if Uptime.is_bad_frequency ref then (slot, (None, None))
      else match Uptime.calculate_frequency_p0f_style (Uptime.ts_now tsv now) ref with
           | Uptime.FreqOk raw =>
               let u := Uptime.calculate_uptime_from_frequency tsv (Uptime.final_frequency raw) in
               (slot, if fc then (Some u, None) else (None, Some u))
           | Uptime.FreqWait => (slot, (None, None))
           | Uptime.FreqErr => (Some Uptime.bad_frequency_marker, (None, None))
           end
  | None => (Some (Uptime.ts_now tsv now), (None, None))
  end.
Fixpoint local_updates (slot : option tstamp) (fc : bool) (tsvals : list Z) (now : Z)
                       (acc : option uptime * option uptime) : option tstamp * (option uptime * option uptime) :=
  match tsvals with
  | [] => (slot, acc)
  | v :: r => let '(s', res) := local_check slot fc v now in local_updates s' fc r now res
  end.

Lemma check_sim tr conn fc v now :
  snd (Uptime.check_ts_tcp tr conn fc v now) = snd (local_check (cache_get tr (conn, fc)) fc v now) /\
  forall k', cache_get (fst (Uptime.check_ts_tcp tr conn fc v now)) k'
             = if key_eqb k' (conn, fc) then fst (local_check (cache_get tr (conn, fc)) fc v now) else cache_get tr k'.
Proof.
  assert (Hid : forall k', cache_get tr k' = if key_eqb k' (conn, fc) then cache_get tr (conn, fc) else cache_get tr k').
  { intro k'. destruct (key_eqb k' (conn, fc)) eqn:E; [apply UptimeTrackProofs.key_eqb_eq in E; now subst|reflexivity]. }
  unfold Uptime.check_ts_tcp, local_check.
  destruct (cache_get tr (conn, fc)) as [ref|] eqn:G.
  - destruct (Uptime.is_bad_frequency ref); cbn [fst snd]; [split; [reflexivity | exact Hid]|].
    destruct (Uptime.calculate_frequency_p0f_style (Uptime.ts_now v now) ref); cbn [fst snd].
    + split; [reflexivity | exact Hid].
    + split; [reflexivity | exact Hid].
    + split; [reflexivity|]. intro k'. rewrite UptimeTrackProofs.cache_get_insert, key_eqb_sym. reflexivity.
  - cbn [fst snd]. split; [reflexivity|]. intro k'. rewrite UptimeTrackProofs.cache_get_insert, key_eqb_sym. reflexivity.
Qed.

(* ---- lengths: an insert of a tracked key does not grow the table ---- *)
Lemma clen_app c x : clen (c ++ [x]) = clen c + 1.
Proof. unfold clen. rewrite app_length. cbn [length]. lia. Qed.
Lemma cache_remove_absent c k : cache_get c k = None -> Uptime.cache_remove c k = c.
Proof.
  induction c as [|[k0 v0] c IH]; cbn [Uptime.cache_get Uptime.cache_remove]; [reflexivity|].
  destruct (key_eqb k0 k); [discriminate|]. intro H. now rewrite IH.
Qed.
Lemma cache_remove_len c k : clen (Uptime.cache_remove c k) <= clen c.
Proof.
  unfold clen. induction c as [|[k0 v0] c IH]; cbn [Uptime.cache_remove]; [lia|].
  destruct (key_eqb k0 k); cbn [length]; lia.
Qed.
Lemma cache_remove_present c k v : cache_get c k = Some v -> clen (Uptime.cache_remove c k) + 1 <= clen c.
Proof.
  induction c as [|[k0 v0] c IH]; cbn [Uptime.cache_get Uptime.cache_remove]; [discriminate|].
  destruct (key_eqb k0 k); intro H.
  - pose proof (cache_remove_len c k). unfold clen in *. cbn [length]. lia.
  - specialize (IH H). unfold clen in *. cbn [length]. lia.
Qed.
Lemma cache_insert_len c k v :
  clen (Uptime.cache_insert c k v) <= clen c + match cache_get c k with Some _ => 0 | None => 1 end.
Proof.
  unfold Uptime.cache_insert. rewrite clen_app. destruct (cache_get c k) eqn:G.
  - pose proof (cache_remove_present c k _ G). lia.
  - rewrite (cache_remove_absent c k G). lia.
Qed.

Lemma check_len tr conn fc v now :
  clen (fst (Uptime.check_ts_tcp tr conn fc v now))
    <= clen tr + match cache_get tr (conn, fc) with Some _ => 0 | None => 1 end
  /\ cache_get (fst (Uptime.check_ts_tcp tr conn fc v now)) (conn, fc) <> None.
Proof.
  split.
  - unfold Uptime.check_ts_tcp. pose proof (cache_insert_len tr (conn, fc)) as L.
    destruct (cache_get tr (conn, fc)) as [ref|] eqn:G.
    + destruct (Uptime.is_bad_frequency ref); cbn [fst]; [lia|].
      destruct (Uptime.calculate_frequency_p0f_style _ ref); cbn [fst]; [lia|lia|]. apply L.
    + cbn [fst]. apply L.
  - rewrite (proj2 (check_sim tr conn fc v now)), UptimeTrackProofs.key_eqb_refl.
    unfold local_check. destruct (cache_get tr (conn, fc)) as [ref|] eqn:G; [|discriminate].
    destruct (Uptime.is_bad_frequency ref); [discriminate|].
    destruct (Uptime.calculate_frequency_p0f_style _ ref); discriminate.
Qed.

Definition slot_fits (cap : N) (tr : tcp_state) (k : ckey) : Prop :=
  clen tr <= cap /\ (cache_get tr k = None -> clen tr < cap).

Lemma check_cap_noevict cap tr conn fc v now : slot_fits cap tr (conn, fc) ->
  check_ts_cap cap tr conn fc v now = Uptime.check_ts_tcp tr conn fc v now
  /\ slot_fits cap (fst (Uptime.check_ts_tcp tr conn fc v now)) (conn, fc)
  /\ clen (fst (Uptime.check_ts_tcp tr conn fc v now))
       <= clen tr + match cache_get tr (conn, fc) with Some _ => 0 | None => 1 end.
Proof.
  intros [H1 H2]. destruct (check_len tr conn fc v now) as [L Pn].
  assert (Lc : clen (fst (Uptime.check_ts_tcp tr conn fc v now)) <= cap).
  { destruct (cache_get tr (conn, fc)); [lia|]. specialize (H2 eq_refl). lia. }
  split; [|split; [split; [exact Lc | intro E; contradiction] | exact L]].
  unfold check_ts_cap. destruct (Uptime.check_ts_tcp tr conn fc v now) as [tr' res]. cbn [fst] in *.
  unfold evict. destruct (cap <? clen tr') eqn:E; [apply N.ltb_lt in E; lia | reflexivity].
Qed.

Lemma ts_updates_sim cap conn fc now : forall vs tr acc,
  slot_fits cap tr (conn, fc) ->
  snd (ts_updates cap tr conn fc vs now acc) = snd (local_updates (cache_get tr (conn, fc)) fc vs now acc) /\
  (forall k', cache_get (fst (ts_updates cap tr conn fc vs now acc)) k'
              = if key_eqb k' (conn, fc) then fst (local_updates (cache_get tr (conn, fc)) fc vs now acc)
                else cache_get tr k') /\
  clen (fst (ts_updates cap tr conn fc vs now acc))
    <= clen tr + match cache_get tr (conn, fc) with Some _ => 0 | None => 1 end.
Proof.
  induction vs as [|v vs IH]; intros tr acc F; cbn [ts_updates local_updates fst snd].
  - split; [reflexivity|]. split.
    + intro k'. destruct (key_eqb k' (conn, fc)) eqn:E; [apply UptimeTrackProofs.key_eqb_eq in E; now subst|reflexivity].
    + destruct (cache_get tr (conn, fc)); lia.
  - destruct (check_cap_noevict cap tr conn fc v now F) as [E [F' L]]. rewrite E.
    destruct (check_sim tr conn fc v now) as [So Sa]. destruct (check_len tr conn fc v now) as [_ Pn].
    destruct (Uptime.check_ts_tcp tr conn fc v now) as [tr' res].
    destruct (local_check (cache_get tr (conn, fc)) fc v now) as [s' res'].
    cbn [fst snd] in *. subst res'.
    specialize (IH tr' res F').
    assert (G' : cache_get tr' (conn, fc) = s').
    { rewrite Sa, UptimeTrackProofs.key_eqb_refl. reflexivity. }
    rewrite G' in IH. destruct IH as [I1 [I2 I3]]. split; [exact I1|]. split.
    + intro k'. rewrite I2. destruct (key_eqb k' (conn, fc)) eqn:Ek; [reflexivity|]. rewrite Sa, Ek. reflexivity.
    + destruct s' as [x|]; [|rewrite <- G' in Pn; contradiction]. lia.
Qed.

(* ---- the TCP analyzer as a keyed machine over packet events ---- *)
Definition tcp_lstep db (slot : option tstamp) (e : tcp_event) : option tstamp * list tcp_result :=
  let '(f, now) := e in
  match process_frame db f with
  | Err => (slot, [TRErr])
  | Ok o =>
      match frame_segment f with
      | None => (slot, [TROk o None None])
      | Some q =>
          let '(s', (cli, srv)) := local_updates slot (q_from_client q) (q_tsvals q) now (None, None) in
          (s', [TROk o cli srv])
      end
  end.
Definition tcp_abs (tr : tcp_state) : ckey -> option tstamp := cache_get tr.

Lemma upd_same (s : ckey -> option tstamp) k0 k : Keyed.upd ckey tstamp key_eqb s k0 (s k0) k = s k.
Proof.
  unfold Keyed.upd. destruct (key_eqb k k0) eqn:E; [apply UptimeTrackProofs.key_eqb_eq in E; now subst|reflexivity].
Qed.

Lemma tcp_step_sim db cap tr e : tcp_fits db cap tr e = true ->
  (snd (tcp_packet_results db cap tr e) = snd (tcp_lstep db (tcp_abs tr (tcp_key db e)) e) /\
   forall k, tcp_abs (fst (tcp_packet_results db cap tr e)) k
             = Keyed.upd ckey tstamp key_eqb (tcp_abs tr) (tcp_key db e) (fst (tcp_lstep db (tcp_abs tr (tcp_key db e)) e)) k)
  /\ clen (fst (tcp_packet_results db cap tr e)) <= clen tr + 1.
Proof.
  destruct e as [f now].
  unfold tcp_fits, tcp_packet_results, tcp_packet_step, tcp_lstep, tcp_key, tcp_abs. cbn [fst snd].
  destruct (process_frame db f) as [|o]; intro Hf; cbn [fst snd].
  - split; [split; [reflexivity | intro k; now rewrite upd_same] | lia].
  - destruct (frame_segment f) as [q|]; cbn [fst snd].
    2:{ split; [split; [reflexivity | intro k; now rewrite upd_same] | lia]. }
    destruct (q_tsvals q) as [|v vs] eqn:Ev.
    { cbn [ts_updates local_updates fst snd]. split; [split; [reflexivity | intro k; now rewrite upd_same] | lia]. }
    rewrite <- Ev in *. clear Ev.
    assert (F : slot_fits cap tr (q_conn q, q_from_client q)).
    { apply andb_true_iff in Hf. destruct Hf as [H1 H2]. apply N.leb_le in H1. split; [exact H1|].
      intro G. rewrite G in H2. now apply N.ltb_lt. }
    destruct (ts_updates_sim cap (q_conn q) (q_from_client q) now (q_tsvals q) tr (None, None) F) as [I1 [I2 I3]].
    destruct (ts_updates cap tr (q_conn q) (q_from_client q) (q_tsvals q) now (None, None)) as [tr' [cli srv]].
    destruct (local_updates (cache_get tr (q_conn q, q_from_client q)) (q_from_client q) (q_tsvals q) now (None, None))
      as [s' [cli' srv']].
    cbn [fst snd] in *. inversion I1; subst cli' srv'. split; [split; [reflexivity|]|].
    + intro k. rewrite I2. unfold Keyed.upd. reflexivity.
    + destruct (cache_get tr (q_conn q, q_from_client q)); lia.
Qed.

Definition tcp_crun db (cap : N) :=
  crun tcp_event ckey tcp_result tcp_state (tcp_key db) (tcp_packet_results db cap).
Definition tcp_within db (cap : N) :=
  within tcp_event tcp_result tcp_state (tcp_packet_results db cap) (tcp_fits db cap).

Lemma tcp_results_crun db cap : forall es tr, tcp_results db cap tr es = snd (tcp_crun db cap tr es).
Proof.
  unfold tcp_results, tcp_crun. induction es as [|e es IH]; intro tr; [reflexivity|].
  cbn [tcp_run crun map]. unfold tcp_packet_results.
  destruct (tcp_packet_step db cap tr e) as [tr1 o]. specialize (IH tr1).
  destruct (tcp_run db cap tr1 es) as [tr2 os].
  destruct (crun tcp_event ckey tcp_result tcp_state (tcp_key db)
              (fun tr0 e0 => let '(tr', o0) := tcp_packet_step db cap tr0 e0 in (tr', [o0])) tr1 es) as [c2 o2] eqn:E.
  cbn [snd combine map app] in *. unfold tcp_packet_results in IH. rewrite E in IH. cbn [snd] in IH.
  now rewrite IH.
Qed.

Lemma tcp_within_b db cap : forall es tr, tcp_within_capacityb db cap tr es = true <-> tcp_within db cap tr es.
Proof.
  unfold tcp_within. induction es as [|e es IH]; intro tr; cbn [tcp_within_capacityb within]; [tauto|].
  rewrite andb_true_iff.
  assert (E : fst (tcp_packet_results db cap tr e) = fst (tcp_packet_step db cap tr e)).
  { unfold tcp_packet_results. now destruct (tcp_packet_step db cap tr e). }
  rewrite E, IH. tauto.
Qed.

Lemma tcp_sim db cap : forall tr e, tcp_fits db cap tr e = true ->
  snd (tcp_packet_results db cap tr e) = snd (tcp_lstep db (tcp_abs tr (tcp_key db e)) e) /\
  forall k, tcp_abs (fst (tcp_packet_results db cap tr e)) k
            = Keyed.upd ckey tstamp key_eqb (tcp_abs tr) (tcp_key db e) (fst (tcp_lstep db (tcp_abs tr (tcp_key db e)) e)) k.
Proof. intros tr e H. exact (proj1 (tcp_step_sim db cap tr e H)). Qed.

Lemma tcp_within_by_length db cap : forall es tr, clen tr + lenN es <= cap -> tcp_within db cap tr es.
Proof.
  unfold tcp_within. induction es as [|e es IH]; intros tr H; cbn [within]; [exact I|].
  unfold lenN in H. cbn [length] in H.
  assert (Hf : tcp_fits db cap tr e = true).
  { unfold tcp_fits. destruct (process_frame db (fst e)); [reflexivity|].
    destruct (frame_segment (fst e)) as [q|]; [|reflexivity]. destruct (q_tsvals q); [reflexivity|].
    apply andb_true_iff. split; [apply N.leb_le; lia|].
    destruct (cache_get tr (q_conn q, q_from_client q)); [reflexivity|]. apply N.ltb_lt. lia. }
  split; [exact Hf|]. apply IH. pose proof (proj2 (tcp_step_sim db cap tr e Hf)). unfold lenN. lia.
Qed.

(* ---- "within capacity" from a census of tracker keys ---- *)
Definition tcp_keys (tr : tcp_state) : list ckey := map fst tr.
Definition tcp_tracked db (e : tcp_event) : bool :=
  match process_frame db (fst e) with
  | Err => false
  | Ok _ => match frame_segment (fst e) with
            | Some q => match q_tsvals q with [] => false | _ => true end
            | None => false
            end
  end.

Lemma cache_get_none_keys c k : cache_get c k = None <-> ~ In k (tcp_keys c).
Proof.
  unfold tcp_keys. induction c as [|[k0 v0] c IH]; cbn [Uptime.cache_get map fst In]; [tauto|].
  destruct (key_eqb k0 k) eqn:E.
  - apply UptimeTrackProofs.key_eqb_eq in E. split; [discriminate | intro H; exfalso; apply H; now left].
  - rewrite IH. split; [intros H [H1|H1]; [subst; now rewrite UptimeTrackProofs.key_eqb_refl in E | contradiction] | tauto].
Qed.
Lemma keys_cache_remove c k : tcp_keys (Uptime.cache_remove c k) = filter (fun x => negb (key_eqb x k)) (tcp_keys c).
Proof.
  unfold tcp_keys. induction c as [|[k0 v0] c IH]; cbn [Uptime.cache_remove filter map fst]; [reflexivity|].
  destruct (key_eqb k0 k); cbn [negb map fst]; now rewrite IH.
Qed.
Lemma keys_cache_insert_eq c k v :
  tcp_keys (Uptime.cache_insert c k v) = filter (fun x => negb (key_eqb x k)) (tcp_keys c) ++ [k].
Proof.
  rewrite <- keys_cache_remove. unfold Uptime.cache_insert, tcp_keys. rewrite map_app. reflexivity.
Qed.
Lemma keys_cache_insert c k v : NoDup (tcp_keys c) ->
  NoDup (tcp_keys (Uptime.cache_insert c k v)) /\ incl (tcp_keys (Uptime.cache_insert c k v)) (k :: tcp_keys c).
Proof.
  intro H. rewrite keys_cache_insert_eq. split.
  - apply NoDup_snoc; [now apply NoDup_filter|]. intro Hin. apply filter_In in Hin. destruct Hin as [_ Hin].
    now rewrite UptimeTrackProofs.key_eqb_refl in Hin.
  - intros x Hx. apply in_app_or in Hx. destruct Hx as [Hx|[<-|[]]]; [|now left].
    right. apply filter_In in Hx. tauto.
Qed.
Lemma check_keys tr conn fc v now : NoDup (tcp_keys tr) ->
  NoDup (tcp_keys (fst (Uptime.check_ts_tcp tr conn fc v now))) /\
  incl (tcp_keys (fst (Uptime.check_ts_tcp tr conn fc v now))) ((conn, fc) :: tcp_keys tr).
Proof.
  intro H. assert (Hsame : NoDup (tcp_keys tr) /\ incl (tcp_keys tr) ((conn, fc) :: tcp_keys tr)).
  { split; [exact H | apply incl_tl, incl_refl]. }
  unfold Uptime.check_ts_tcp. destruct (cache_get tr (conn, fc)) as [ref|].
  - destruct (Uptime.is_bad_frequency ref); cbn [fst]; [exact Hsame|].
    destruct (Uptime.calculate_frequency_p0f_style _ ref); cbn [fst]; [exact Hsame|exact Hsame|]. now apply keys_cache_insert.
  - cbn [fst]. now apply keys_cache_insert.
Qed.
Lemma ts_updates_keys cap conn fc now : forall vs tr acc,
  slot_fits cap tr (conn, fc) -> NoDup (tcp_keys tr) ->
  NoDup (tcp_keys (fst (ts_updates cap tr conn fc vs now acc))) /\
  incl (tcp_keys (fst (ts_updates cap tr conn fc vs now acc))) ((conn, fc) :: tcp_keys tr).
Proof.
  induction vs as [|v vs IH]; intros tr acc F Hnd; cbn [ts_updates fst].
  - split; [exact Hnd | apply incl_tl, incl_refl].
  - destruct (check_cap_noevict cap tr conn fc v now F) as [E [F' _]]. rewrite E.
    destruct (check_keys tr conn fc v now Hnd) as [N1 I1].
    destruct (Uptime.check_ts_tcp tr conn fc v now) as [tr' res]. cbn [fst] in *.
    destruct (IH tr' res F' N1) as [N2 I2]. split; [exact N2|].
    intros x Hx. apply I2 in Hx. destruct Hx as [<-|Hx]; [now left | now apply I1].
Qed.

Lemma tcp_keys_step db cap tr e : tcp_fits db cap tr e = true -> NoDup (tcp_keys tr) ->
  NoDup (tcp_keys (fst (tcp_packet_results db cap tr e))) /\
  incl (tcp_keys (fst (tcp_packet_results db cap tr e)))
       (if tcp_tracked db e then tcp_key db e :: tcp_keys tr else tcp_keys tr).
Proof.
  destruct e as [f now].
  unfold tcp_fits, tcp_packet_results, tcp_packet_step, tcp_tracked, tcp_key. cbn [fst snd].
  destruct (process_frame db f) as [|o]; intros Hf Hnd; cbn [fst]; [split; [exact Hnd | apply incl_refl]|].
  destruct (frame_segment f) as [q|]; cbn [fst]; [|split; [exact Hnd | apply incl_refl]].
  destruct (q_tsvals q) as [|v vs] eqn:Ev; [cbn [ts_updates fst]; split; [exact Hnd | apply incl_refl]|].
  rewrite <- Ev. clear Ev.
  assert (F : slot_fits cap tr (q_conn q, q_from_client q)).
  { apply andb_true_iff in Hf. destruct Hf as [H1 H2]. apply N.leb_le in H1. split; [exact H1|].
    intro G. rewrite G in H2. now apply N.ltb_lt. }
  pose proof (ts_updates_keys cap (q_conn q) (q_from_client q) now (q_tsvals q) tr (None, None) F Hnd) as H.
  destruct (ts_updates cap tr (q_conn q) (q_from_client q) (q_tsvals q) now (None, None)) as [tr' [cli srv]].
  exact H.
Qed.
Lemma tcp_fits_fails db cap tr e : NoDup (tcp_keys tr) -> clen tr <= cap -> tcp_fits db cap tr e = false ->
  tcp_tracked db e = true /\ ~ In (tcp_key db e) (tcp_keys tr) /\ (N.to_nat cap <= length (tcp_keys tr))%nat.
Proof.
  unfold tcp_fits, tcp_tracked, tcp_key. intros _ Hle.
  destruct (process_frame db (fst e)); [discriminate|].
  destruct (frame_segment (fst e)) as [q|]; [|discriminate].
  destruct (q_tsvals q); [discriminate|].
  apply N.leb_le in Hle. rewrite Hle. cbn [andb].
  destruct (cache_get tr (q_conn q, q_from_client q)) eqn:G; [discriminate|]. intro H. apply N.ltb_ge in H.
  split; [reflexivity|]. split; [now apply cache_get_none_keys|].
  unfold tcp_keys. rewrite map_length. unfold clen in H. lia.
Qed.

(* the generic census lemma wants fits_fails without side conditions; the TCP fits test also asks that the
   table is not over-full, so the census argument is run here with the extra invariant clen tr <= cap *)
Theorem tcp_within_by_census db cap (U : list ckey) : forall es tr,
  NoDup (tcp_keys tr) -> incl (tcp_keys tr) U ->
  (forall e, In e es -> tcp_tracked db e = true -> In (tcp_key db e) U) ->
  lenN U <= cap -> tcp_within_capacityb db cap tr es = true.
Proof.
  intros es tr Hnd Hin Htr Hlen. apply tcp_within_b. unfold tcp_within.
  assert (Hle : clen tr <= cap).
  { pose proof (NoDup_incl_length Hnd Hin) as L. unfold tcp_keys in L. rewrite map_length in L.
    unfold clen, lenN in *. lia. }
  revert tr Hnd Hin Hle Htr. induction es as [|e es IH]; intros tr Hnd Hin Hle Htr; cbn [within]; [exact I|].
  assert (Hf : tcp_fits db cap tr e = true).
  { destruct (tcp_fits db cap tr e) eqn:E; [reflexivity|].
    destruct (tcp_fits_fails db cap tr e Hnd Hle E) as [Ht [Hni Hc]].
    assert (Hnd' : NoDup (tcp_key db e :: tcp_keys tr)) by (constructor; assumption).
    assert (Hin' : incl (tcp_key db e :: tcp_keys tr) U).
    { intros x [<-|Hx]; [apply (Htr e (or_introl eq_refl) Ht) | now apply Hin]. }
    pose proof (NoDup_incl_length Hnd' Hin') as L. cbn [length] in L. unfold lenN in Hlen. lia. }
  split; [exact Hf|]. destruct (tcp_keys_step db cap tr e Hf Hnd) as [Hnd1 Hin1].
  assert (Hin2 : incl (tcp_keys (fst (tcp_packet_results db cap tr e))) U).
  { intros x Hx. apply Hin1 in Hx. destruct (tcp_tracked db e) eqn:Et.
    - destruct Hx as [<-|Hx]; [apply (Htr e (or_introl eq_refl) Et) | now apply Hin].
    - now apply Hin. }
  apply IH; [exact Hnd1 | exact Hin2 | | intros q Hq; apply Htr; now right].
  pose proof (NoDup_incl_length Hnd1 Hin2) as L. unfold tcp_keys in L. rewrite map_length in L.
  unfold clen, lenN in *. lia.
Qed.

(* ---- the instance theorems ---- *)
Notation tcp_proj := (Keyed.proj ckey tcp_result key_eqb).
Notation tcp_fk db := (Keyed.fk tcp_event ckey (tcp_key db) key_eqb).

Theorem tcp_is_keyed db cap es tr : tcp_within_capacityb db cap tr es = true ->
  tcp_results db cap tr es
  = snd (Keyed.run tcp_event ckey tstamp tcp_result (tcp_key db) key_eqb (tcp_lstep db) (tcp_abs tr) es).
Proof.
  intro W. apply tcp_within_b in W. rewrite tcp_results_crun.
  exact (sim_run_abs tcp_event ckey tstamp tcp_result tcp_state (tcp_key db) key_eqb (tcp_lstep db)
           (tcp_packet_results db cap) tcp_abs (tcp_fits db cap) (tcp_sim db cap) es tr W).
Qed.

Theorem tcp_isolation db cap es tr k :
  tcp_within_capacityb db cap tr es = true -> tcp_within_capacityb db cap tr (tcp_fk db k es) = true ->
  tcp_proj k (tcp_results db cap tr es) = tcp_proj k (tcp_results db cap tr (tcp_fk db k es))
  /\ tcp_proj k (tcp_results db cap tr es) = snd (tcp_run db cap tr (tcp_fk db k es)).
Proof.
  intros W Wk. apply tcp_within_b in W. apply tcp_within_b in Wk. rewrite !tcp_results_crun. split.
  - exact (concrete_isolation tcp_event ckey tstamp tcp_result tcp_state (tcp_key db) key_eqb
             UptimeTrackProofs.key_eqb_eq (tcp_lstep db) (tcp_packet_results db cap) tcp_abs (tcp_fits db cap)
             (tcp_sim db cap) es tr k W Wk).
  - unfold tcp_crun.
    rewrite (concrete_isolation_alone tcp_event ckey tstamp tcp_result tcp_state (tcp_key db) key_eqb
             UptimeTrackProofs.key_eqb_eq (tcp_lstep db) (tcp_packet_results db cap) tcp_abs (tcp_fits db cap)
             (tcp_sim db cap) es tr k W Wk).
    pose proof (tcp_results_crun db cap (tcp_fk db k es) tr) as E. unfold tcp_crun in E. rewrite <- E. clear E.
    unfold tcp_results.
    assert (L : forall (a : list ckey) (b : list tcp_result), length a = length b -> map snd (combine a b) = b).
    { induction a as [|x a IH]; intros [|y b] H; cbn in *; try reflexivity; try discriminate. f_equal. apply IH. lia. }
    apply L. rewrite map_length.
    generalize (tcp_fk db k es) tr. intro l. induction l as [|e l IH]; intro tr0; [reflexivity|].
    cbn [tcp_run]. destruct (tcp_packet_step db cap tr0 e) as [tr1 o]. specialize (IH tr1).
    destruct (tcp_run db cap tr1 l) as [tr2 os]. cbn [snd length] in *. now rewrite IH.
Qed.

Theorem tcp_interleaving_invariant db cap es es' tr :
  tcp_within_capacityb db cap tr es = true -> tcp_within_capacityb db cap tr es' = true ->
  (forall k, tcp_fk db k es = tcp_fk db k es') ->
  forall k, tcp_proj k (tcp_results db cap tr es) = tcp_proj k (tcp_results db cap tr es').
Proof.
  intros W W' H k. apply tcp_within_b in W. apply tcp_within_b in W'. rewrite !tcp_results_crun.
  exact (concrete_interleaving_invariant tcp_event ckey tstamp tcp_result tcp_state (tcp_key db) key_eqb
           UptimeTrackProofs.key_eqb_eq (tcp_lstep db) (tcp_packet_results db cap) tcp_abs (tcp_fits db cap)
           (tcp_sim db cap) es es' tr W W' H k).
Qed.

Theorem tcp_no_disable db cap h probe tr k :
  tcp_within_capacityb db cap tr (h ++ probe) = true -> tcp_within_capacityb db cap tr probe = true ->
  (forall e, In e h -> tcp_key db e <> k) ->
  tcp_proj k (tcp_results db cap tr (h ++ probe)) = tcp_proj k (tcp_results db cap tr probe).
Proof.
  intros W W' H. apply tcp_within_b in W. apply tcp_within_b in W'. rewrite !tcp_results_crun.
  apply (concrete_no_disable tcp_event ckey tstamp tcp_result tcp_state (tcp_key db) key_eqb
           UptimeTrackProofs.key_eqb_eq (tcp_lstep db) (tcp_packet_results db cap) tcp_abs (tcp_fits db cap)
           (tcp_sim db cap) h probe tr k W W').
  intros e He. apply UptimeTrackProofs.key_eqb_neq. now apply H.
Qed.

Theorem tcp_capacity_by_count db cap es tr k :
  clen tr + lenN es <= cap ->
  tcp_within_capacityb db cap tr es = true /\ tcp_within_capacityb db cap tr (tcp_fk db k es) = true.
Proof.
  intro H. split; apply tcp_within_b; apply tcp_within_by_length; [exact H|].
  pose proof (fk_len (tcp_key db) key_eqb k es). lia.
Qed.

Theorem tcp_capacity_by_census db cap (U : list ckey) es tr k :
  NoDup (tcp_keys tr) -> incl (tcp_keys tr) U ->
  (forall e, In e es -> tcp_tracked db e = true -> In (tcp_key db e) U) ->
  lenN U <= cap ->
  tcp_within_capacityb db cap tr es = true /\ tcp_within_capacityb db cap tr (tcp_fk db k es) = true.
Proof.
  intros Hnd Hin Htr Hlen. split; apply (tcp_within_by_census db cap U); try assumption.
  intros e He. apply Htr. unfold Keyed.fk in He. apply filter_In in He. tauto.
Qed.

(* the signature / MTU part of every result is a function of the frame alone *)
Theorem tcp_signature_stateless db cap tr tr' f now now' :
  match snd (tcp_packet_step db cap tr (f, now)), snd (tcp_packet_step db cap tr' (f, now')) with
  | TRErr, TRErr => True
  | TROk o _ _, TROk o' _ _ => o = o' /\ process_frame db f = Ok o
  | _, _ => False
  end.
Proof.
  unfold tcp_packet_step. destruct (process_frame db f) as [|o]; cbn [snd]; [exact I|].
  destruct (frame_segment f) as [q|]; cbn [snd]; [|auto].
  destruct (ts_updates cap tr _ _ _ now _) as [t1 [c1 s1]], (ts_updates cap tr' _ _ _ now' _) as [t2 [c2 s2]].
  cbn [snd]. auto.
Qed.

(* role separation: a client-role key and a server-role key are different keys *)
Lemma tcp_roles_distinct (c1 c2 : Uptime.connection) : (c1, true) <> (c2, false).
Proof. congruence. Qed.
