(* C11: bounds on what the analyzer models retain and on the work per packet. *)
From Coq Require Import List NArith Bool Lia Permutation Arith PeanoNat.
From Coq Require Import Strings.Byte.
From HN Require Import Base.Bytes Base.Cache Base.Tcp Model.HttpFlow Model.TlsFlow Model.Tracker Model.Cost
  Proofs.CacheProofs.
Import ListNotations.
Open Scope N_scope.

Lemma sum_bound {A} (f : A -> N) (L : N) (l : list A) :
  Forall (fun x => f x <= L) l -> sum_N (map f l) <= len_N l * L.
Proof.
  unfold len_N. induction 1 as [|x l Hx Hl IH]; cbn [map sum_N fold_right length]; [cbn; lia|].
  fold (sum_N (map f l)). lia.
Qed.

(* ------------------------------------------------------------------ TCP uptime tracker *)
Section TrackerBound.
  Variable freq_ok : tsrec -> tsrec -> bool.

  Lemma check_ts_within t k cur : within t -> within (fst (check_ts freq_ok t k cur)).
  Proof.
    intros W. unfold check_ts. destruct (cache_get ckey_eqb t k) as [ref|].
    - destruct (ts_bad ref); [exact W|]. destruct (freq_ok cur ref); [exact W|]. now apply within_insert.
    - now apply within_insert.
  Qed.
  Lemma check_ts_cap t k cur : c_cap (fst (check_ts freq_ok t k cur)) = c_cap t.
  Proof.
    unfold check_ts. destruct (cache_get ckey_eqb t k) as [ref|]; [|reflexivity].
    destruct (ts_bad ref); [reflexivity|]. destruct (freq_ok cur ref); reflexivity.
  Qed.

  Theorem tracker_bounded ops : forall t, within t ->
    retained_tcp (tracker_run freq_ok t ops) <= c_cap t.
  Proof.
    induction ops as [|[k cur] ops IH]; intros t W; cbn.
    - exact W.
    - rewrite <- (check_ts_cap t k cur). apply IH. now apply check_ts_within.
  Qed.
End TrackerBound.

(* ------------------------------------------------------------------ TLS reader and flow table *)
Definition buf_limit : N := 65539.

Lemma needed_le buf : needed buf <= 65540.
Proof.
  unfold needed, byte_at.
  assert (forall i, match nth_error buf i with Some b => b2n b | None => 0 end < 256) as H.
  { intros i. destruct (nth_error buf i); [apply b2n_lt | lia]. }
  pose proof (H 3%nat). pose proof (H 4%nat). lia.
Qed.

Section TlsBound.
  Variable parse : bytes -> tls_parse.

  Definition rok (r : reader) : Prop := len_N (r_buf r) <= buf_limit /\ r_sig r = false.

  Lemma rok_new : rok reader_new.
  Proof. split; [unfold len_N, buf_limit; cbn; lia | reflexivity]. Qed.

  (* whenever add_bytes answers Ok(None) the reader it leaves behind is small *)
  Lemma add_bytes_none r data r' :
    r_sig r = false -> add_bytes parse r data = (r', RNone) -> rok r'.
  Proof.
    intros Hs. unfold add_bytes. rewrite Hs. rewrite (shorter_than_spec 5). change (N.of_nat 5) with 5.
    destruct (len_N (r_buf r ++ data) <? 5) eqn:E1.
    { intros [= <-]. split; [|reflexivity]. apply N.ltb_lt in E1. unfold buf_limit. cbn. lia. }
    destruct (negb (byte_at (r_buf r ++ data) 0 =? 22)).
    { intros [= <-]. apply rok_new. }
    destruct (len_N (r_buf r ++ data) <? needed (r_buf r ++ data)) eqn:E3.
    { intros [= <-]. split; [|reflexivity]. apply N.ltb_lt in E3. pose proof (needed_le (r_buf r ++ data)).
      unfold buf_limit. cbn. lia. }
    destruct (65536 <? needed (r_buf r ++ data)); [discriminate|].
    destruct (parse _); try discriminate. intros [= <-]. apply rok_new.
  Qed.

  Lemma cost_add_bytes_bound r data :
    len_N (r_buf r) <= buf_limit -> cost_add_bytes r data <= buf_limit + 2 * len_N data.
  Proof.
    intros H. unfold cost_add_bytes. destruct (r_sig r); [lia|].
    destruct (shorter_than 5 (r_buf r ++ data)); [lia|].
    destruct (negb _); [lia|].
    destruct (len_N (r_buf r ++ data) <? needed (r_buf r ++ data)) eqn:E; [lia|].
    destruct (65536 <? _); [lia|].
    apply N.ltb_ge in E. unfold len_N in *. rewrite app_length in *. lia.
  Qed.

  Definition tinv (st : tstate) : Prop :=
    within st /\ Forall (fun kv => rok (snd kv)) (c_entries st).

  Lemma Forall_assoc_remove (P : fkey * reader -> Prop) es k :
    Forall P es -> Forall P (assoc_remove fkey_eqb es k).
  Proof. induction 1 as [|[k0 v] es H Hs IH]; cbn; [constructor|]. destruct (fkey_eqb k0 k); auto. Qed.
  Lemma Forall_assoc_update (P : reader -> Prop) es k v :
    Forall (fun kv => P (snd kv)) es -> P v -> Forall (fun kv => P (snd kv)) (assoc_update fkey_eqb es k v).
  Proof.
    intros H Hv. induction H as [|[k0 w] es H Hs IH]; cbn; [constructor|].
    destruct (fkey_eqb k0 k); constructor; auto.
  Qed.
  Lemma Forall_get (P : reader -> Prop) es k r :
    Forall (fun kv => P (snd kv)) es -> assoc_get fkey_eqb es k = Some r -> P r.
  Proof.
    induction 1 as [|[k0 w] es H Hs IH]; cbn; [discriminate|].
    destruct (fkey_eqb k0 k); [intros [= <-]; exact H | exact IH].
  Qed.

  Lemma tinv_remove st k : tinv st -> tinv (cache_remove fkey_eqb st k).
  Proof. intros [W F]. split; [now apply within_remove | now apply Forall_assoc_remove]. Qed.
  Lemma tinv_update st k r : tinv st -> rok r -> tinv (cache_update fkey_eqb st k r).
  Proof. intros [W F] Hr. split; [now apply within_update | now apply (Forall_assoc_update rok)]. Qed.
  Lemma tinv_insert st k r : tinv st -> rok r -> tinv (cache_insert fkey_eqb st k r).
  Proof.
    intros [W F] Hr. split; [now apply within_insert|].
    unfold cache_insert. cbn.
    assert (Forall (fun kv => rok (snd kv)) (assoc_remove fkey_eqb (c_entries st) k ++ [(k, r)])) as H.
    { apply Forall_app. split; [now apply Forall_assoc_remove | constructor; [exact Hr | constructor]]. }
    destruct (c_cap st <? _); [|exact H].
    destruct (assoc_remove fkey_eqb (c_entries st) k ++ [(k, r)]); [constructor | now inversion H].
  Qed.

  Lemma tstep_inv st p : tinv st -> tinv (fst (tstep parse st p)).
  Proof.
    intros I. unfold tstep. destruct (g_pay p) as [|b pay] eqn:Hp; [exact I|].
    destruct (negb _); [exact I|].
    set (k := (g_src p, g_dst p, g_sport p, g_dport p)).
    destruct (cache_get fkey_eqb st k) as [r|] eqn:G.
    - assert (rok r) as Hr by (destruct I as [_ F]; exact (Forall_get rok _ _ _ F G)).
      destruct (add_bytes parse r (b :: pay)) as [r' []] eqn:A; cbn.
      + now apply tinv_remove.
      + apply tinv_update; [exact I|]. destruct Hr as [_ Hs]. eapply add_bytes_none; eassumption.
      + now apply tinv_remove.
    - assert (I1 : tinv (cache_insert fkey_eqb st k reader_new)) by (apply tinv_insert; [exact I | apply rok_new]).
      destruct (cache_get fkey_eqb (cache_insert fkey_eqb st k reader_new) k) as [r|] eqn:G1; [|exact I1].
      assert (rok r) as Hr by (destruct I1 as [_ F]; exact (Forall_get rok _ _ _ F G1)).
      destruct (add_bytes parse r (b :: pay)) as [r' []] eqn:A; cbn.
      + now apply tinv_remove.
      + apply tinv_update; [exact I1|]. destruct Hr as [_ Hs]. eapply add_bytes_none; eassumption.
      + now apply tinv_remove.
  Qed.

  Lemma tstep_cap st p : c_cap (fst (tstep parse st p)) = c_cap st.
  Proof.
    unfold tstep. destruct (g_pay p); [reflexivity|]. destruct (negb _); [reflexivity|].
    destruct (cache_get fkey_eqb st _).
    - destruct (add_bytes _ _ _) as [r' []]; reflexivity.
    - destruct (cache_get fkey_eqb _ _); [|reflexivity]. destruct (add_bytes _ _ _) as [r' []]; reflexivity.
  Qed.

  Lemma tinv_retained st : tinv st -> retained_tls st <= c_cap st * buf_limit.
  Proof.
    intros [W F]. unfold retained_tls.
    etransitivity; [apply (sum_bound (fun kv : fkey * reader => len_N (r_buf (snd kv))) buf_limit)|].
    - eapply Forall_impl; [|exact F]. intros kv [H _]. exact H.
    - unfold within, cache_len in W. apply N.mul_le_mono_r. exact W.
  Qed.

  Lemma trun_inv tr : forall st, tinv st ->
    tinv (fst (trun parse st tr)) /\ c_cap (fst (trun parse st tr)) = c_cap st.
  Proof.
    induction tr as [|p tr IH]; intros st I; cbn; [auto|].
    pose proof (tstep_inv st p I) as I1. pose proof (tstep_cap st p) as C1.
    destruct (tstep parse st p) as [st1 o]. cbn in *.
    destruct (IH st1 I1) as [I2 C2]. destruct (trun parse st1 tr) as [st2 os]. cbn in *. split; [exact I2 | congruence].
  Qed.

  Lemma tinv_new cap : tinv (cache_new cap).
  Proof. split; [apply within_new | constructor]. Qed.

  Theorem tls_retained_bounded cap tr :
    retained_tls (fst (trun parse (cache_new cap) tr)) <= cap * buf_limit.
  Proof.
    destruct (trun_inv tr (cache_new cap) (tinv_new cap)) as [I C].
    etransitivity; [apply tinv_retained; exact I|]. rewrite C. cbn. lia.
  Qed.

  Theorem tls_cost_bounded cap tr p :
    cost_tls (fst (trun parse (cache_new cap) tr)) p <= buf_limit + 2 * len_N (g_pay p).
  Proof.
    destruct (trun_inv tr (cache_new cap) (tinv_new cap)) as [[W F] _].
    set (st := fst (trun parse (cache_new cap) tr)) in *.
    unfold cost_tls. destruct (g_pay p) as [|b pay]; [unfold buf_limit; lia|].
    destruct (negb _); [unfold buf_limit; lia|].
    destruct (cache_get fkey_eqb st _) as [r|] eqn:G.
    - apply cost_add_bytes_bound. exact (proj1 (Forall_get rok _ _ _ F G)).
    - apply cost_add_bytes_bound. unfold len_N, buf_limit. cbn. lia.
  Qed.

  (* ---- the reader on its own: bounded as long as no parse error was returned ---- *)
  Definition max_len (chunks : list bytes) : N := fold_right (fun c m => N.max (len_N c) m) 0 chunks.

  Lemma reader_run_bound chunks : forall r M,
    (forall b, parse b <> TErr) -> max_len chunks <= M ->
    len_N (r_buf r) <= buf_limit + M -> (r_sig r = false -> len_N (r_buf r) <= buf_limit) ->
    len_N (r_buf (fst (reader_run parse r chunks))) <= buf_limit + M.
  Proof.
    induction chunks as [|c cs IH]; intros r M Hp HM Hb Hs; cbn; [exact Hb|].
    assert (HM1 : len_N c <= M /\ max_len cs <= M) by (unfold max_len in *; cbn [fold_right] in HM; lia).
    destruct HM1 as [Hc HM1]. clear HM.
    destruct (add_bytes parse r c) as [r1 o] eqn:A.
    specialize (IH r1 M Hp HM1).
    destruct (reader_run parse r1 cs) as [r2 os] eqn:R. cbn in *.
    apply IH; clear IH.
    - unfold add_bytes in A. destruct (r_sig r) eqn:S; [injection A as <- _; exact Hb|].
      specialize (Hs eq_refl).
      assert (len_N (r_buf r ++ c) <= buf_limit + M) as Hl by (unfold len_N in *; rewrite app_length; lia).
      destruct (shorter_than 5 (r_buf r ++ c)); [injection A as <- _; exact Hl|].
      destruct (negb _); [injection A as <- _; unfold len_N; cbn; lia|].
      destruct (len_N (r_buf r ++ c) <? needed (r_buf r ++ c)); [injection A as <- _; exact Hl|].
      destruct (65536 <? _); [injection A as <- _; unfold len_N; cbn; lia|].
      destruct (parse _) eqn:P; injection A as <- _; cbn.
      + unfold len_N in *. rewrite skipn_length. lia.
      + unfold len_N; cbn; lia.
      + exact Hl.
    - intros S1. unfold add_bytes in A. destruct (r_sig r) eqn:S; [injection A as <- _; congruence|].
      rewrite (shorter_than_spec 5) in A. change (N.of_nat 5) with 5 in A.
      destruct (len_N (r_buf r ++ c) <? 5) eqn:E1.
      { injection A as <- _. apply N.ltb_lt in E1. unfold buf_limit. cbn. lia. }
      destruct (negb _); [injection A as <- _; unfold len_N, buf_limit; cbn; lia|].
      destruct (len_N (r_buf r ++ c) <? needed (r_buf r ++ c)) eqn:E3.
      { injection A as <- _. apply N.ltb_lt in E3. pose proof (needed_le (r_buf r ++ c)). unfold buf_limit. cbn. lia. }
      destruct (65536 <? _); [injection A as <- _; unfold len_N, buf_limit; cbn; lia|].
      destruct (parse _) eqn:P; injection A as <- _; cbn in *.
      * discriminate S1.
      * unfold len_N, buf_limit; cbn; lia.
      * exfalso. eapply Hp; exact P.
  Qed.
End TlsBound.

(* ---- the reader after a parse error keeps everything (public API only; the analyzers drop the
        reader on Err) ---- *)
Definition err_hdr : bytes := [x16; x03; x03; x00; x00].     (* handshake record of length 0 *)
Definition err_chunks (k : nat) : list bytes := err_hdr :: repeat [x00] k.

Lemma add_bytes_err_grows zs :
  add_bytes (fun _ => TErr) (mkReader (err_hdr ++ zs) false) [x00]
  = (mkReader (err_hdr ++ (zs ++ [x00])) false, RErr).
Proof.
  unfold add_bytes. cbn [r_sig r_buf]. rewrite <- app_assoc.
  assert (E0 : shorter_than 5 (err_hdr ++ zs ++ [x00]) = false) by reflexivity.
  assert (E1 : len_N (err_hdr ++ zs ++ [x00]) <? 5 = false).
  { apply N.ltb_ge. unfold len_N. cbn [err_hdr app length]. lia. }
  rewrite E0.
  assert (E2 : needed (err_hdr ++ zs ++ [x00]) = 5) by reflexivity.
  assert (E3 : byte_at (err_hdr ++ zs ++ [x00]) 0 = 22) by reflexivity.
  rewrite E2, E3. cbn [N.eqb negb].
  change (22 =? 22) with true. cbn [negb].
  assert (E4 : len_N (err_hdr ++ zs ++ [x00]) <? 5 = false) by exact E1.
  rewrite E4. change (65536 <? 5) with false. reflexivity.
Qed.

Lemma reader_err_run k : forall zs,
  r_buf (fst (reader_run (fun _ => TErr) (mkReader (err_hdr ++ zs) false) (repeat [x00] k)))
  = err_hdr ++ zs ++ repeat x00 k.
Proof.
  induction k as [|k IH]; intros zs; cbn [repeat reader_run].
  - cbn. now rewrite app_nil_r.
  - rewrite add_bytes_err_grows.
    specialize (IH (zs ++ [x00])).
    destruct (reader_run _ _ (repeat [x00] k)) as [r2 os]. cbn [fst] in *. rewrite IH.
    rewrite <- app_assoc. reflexivity.
Qed.

Theorem tls_reader_unbounded_after_error :
  forall B : N, exists chunks,
    (forall c, In c chunks -> len_N c <= 5) /\
    B < len_N (r_buf (fst (reader_run (fun _ => TErr) reader_new chunks))).
Proof.
  intros B. exists (err_chunks (N.to_nat B)). split.
  - intros c [<-|H]; [unfold len_N; cbn; lia|]. apply repeat_spec in H. subst. unfold len_N. cbn. lia.
  - unfold err_chunks. cbn [reader_run].
    assert (A : add_bytes (fun _ => TErr) reader_new err_hdr = (mkReader (err_hdr ++ []) false, RErr)) by reflexivity.
    rewrite A. pose proof (reader_err_run (N.to_nat B) []) as H.
    destruct (reader_run _ _ (repeat [x00] (N.to_nat B))) as [r2 os]. cbn [fst] in *. rewrite H.
    unfold len_N. rewrite !app_length, repeat_length. cbn. lia.
Qed.

(* ------------------------------------------------------------------ HTTP *)
Lemma insert_rev_perm k x acc : Permutation (insert_rev k x acc) (x :: acc).
Proof.
  induction acc as [|y r IH]; cbn; [reflexivity|].
  destruct (k x <? k y); [|reflexivity].
  etransitivity; [apply perm_skip; exact IH | apply perm_swap].
Qed.
Lemma fold_insert_perm k l : forall acc,
  Permutation (fold_left (fun acc x => insert_rev k x acc) l acc) (l ++ acc).
Proof.
  induction l as [|x l IH]; intros acc; cbn; [reflexivity|].
  etransitivity; [apply IH|]. etransitivity; [apply Permutation_app_head; apply insert_rev_perm|].
  apply Permutation_sym, Permutation_middle.
Qed.
Lemma sort_td_perm l : Permutation (sort_td l) l.
Proof.
  unfold sort_td. rewrite frev_rev. etransitivity; [apply Permutation_sym, Permutation_rev|].
  etransitivity; [apply fold_insert_perm|]. now rewrite app_nil_r.
Qed.

Lemma sum_N_cons x l : sum_N (x :: l) = x + sum_N l.
Proof. reflexivity. Qed.
Lemma td_bytes_cons x l : td_bytes (x :: l) = len_N (td_data x) + td_bytes l.
Proof. reflexivity. Qed.
Lemma td_bytes_perm l l' : Permutation l l' -> td_bytes l = td_bytes l'.
Proof.
  induction 1 as [|x l l' H IH|x y l|l l' l'' H1 IH1 H2 IH2].
  - reflexivity.
  - rewrite !td_bytes_cons. lia.
  - rewrite !td_bytes_cons. lia.
  - congruence.
Qed.
Lemma td_bytes_app a b : td_bytes (a ++ b) = td_bytes a + td_bytes b.
Proof. induction a as [|x a IH]; [cbn [app]; change (td_bytes []) with 0; lia|]. cbn [app]. rewrite !td_bytes_cons. lia. Qed.
Lemma concat_len l : len_N (concat (map td_data l)) = td_bytes l.
Proof.
  induction l as [|x l IH]; [reflexivity|]. cbn [map concat]. rewrite td_bytes_cons, <- IH.
  unfold len_N. rewrite app_length. lia.
Qed.
Lemma full_data_len l : len_N (full_data l) = td_bytes l.
Proof. unfold full_data. rewrite concat_len. apply td_bytes_perm, sort_td_perm. Qed.

Lemma full_data_all (P : byte -> Prop) l :
  Forall (fun td => Forall P (td_data td)) l -> Forall P (full_data l).
Proof.
  intros H. unfold full_data.
  assert (H' : Forall (fun td => Forall P (td_data td)) (sort_td l)).
  { eapply Permutation_Forall; [apply Permutation_sym, sort_td_perm | exact H]. }
  induction H' as [|x s Hx Hs IH]; cbn; [constructor|]. apply Forall_app. auto.
Qed.

Lemma retained_remove st k : retained_http (cache_remove fkey_eqb st k) <= retained_http st.
Proof.
  unfold retained_http, cache_remove. cbn [c_entries]. induction (c_entries st) as [|[k0 f] es IH]; cbn [assoc_remove map]; [lia|].
  destruct (fkey_eqb k0 k); cbn [map]; rewrite ?sum_N_cons; lia.
Qed.

Section HttpBound.
  Context {Req Resp : Type}.
  Variable parse_req : bytes -> option Req.
  Variable parse_resp : bytes -> option Resp.

  Lemma finish_retained st k f p : retained_http (finish st k f p) <= retained_http st.
  Proof.
    unfold finish. destruct (_ && _); [apply retained_remove|]. destruct (_ || _); [apply retained_remove | lia].
  Qed.

  (* once a direction's message was reported, its packets are not stored and cost only their own copy *)
  Theorem http_after_report_client st p f :
    cache_get fkey_eqb st (g_src p, g_dst p, g_sport p, g_dport p) = Some f ->
    g_src p = f_cip f -> g_sport p = f_cport f -> f_cparsed f = true ->
    retained_http (fst (step parse_req parse_resp st p)) <= retained_http st /\
    cost_http st p <= len_N (g_pay p).
  Proof.
    intros G H1 H2 Hp. unfold step, cost_http. rewrite G. unfold on_flow, cost_on_flow.
    destruct (g_pay p) as [|b r]; [cbn; split; lia|].
    rewrite H1, H2, !N.eqb_refl, Hp. cbn [andb negb fst]. split; [apply finish_retained | lia].
  Qed.

  Theorem http_after_report_server st p f :
    cache_get fkey_eqb st (g_src p, g_dst p, g_sport p, g_dport p) = None ->
    cache_get fkey_eqb st (g_dst p, g_src p, g_dport p, g_sport p) = Some f ->
    g_src p = f_sip f -> g_sport p = f_sport f -> f_sparsed f = true ->
    retained_http (fst (step parse_req parse_resp st p)) <= retained_http st /\
    cost_http st p <= len_N (g_pay p).
  Proof.
    intros G0 G H1 H2 Hp. unfold step, cost_http. rewrite G0, G. unfold on_flow, cost_on_flow.
    destruct (g_pay p) as [|b r]; [cbn; split; lia|].
    cbn [andb]. rewrite H1, H2, !N.eqb_refl, Hp. cbn [andb negb fst]. split; [apply finish_retained | lia].
  Qed.

  (* ---- unbounded growth: a connection whose client sends one byte at a time that never parses ---- *)
  Definition abyte : byte := "a"%byte.
  Hypothesis never : forall d, Forall (fun b => b = abyte) d -> parse_req d = None.

  Definition gkey : fkey := (1, 2, 3, 4).
  Definition gsyn : segment := mkSeg 1 2 3 4 true false false 1000 [].
  Definition gdata (i : nat) : segment := mkSeg 1 2 3 4 false false false (1001 + N.of_nat i) [abyte].
  Definition ghist (k : nat) : list segment := gsyn :: map gdata (seq 0 k).

  Definition all_a (cd : list tcpdata) : Prop := Forall (fun td => Forall (fun b => b = abyte) (td_data td)) cd.
  Definition gstate (cap : N) (cd : list tcpdata) : state := mkCache cap [(gkey, mkFlow 1 2 3 4 cd [] false false)].

  Definition below (i : nat) (cd : list tcpdata) : Prop := Forall (fun td => td_seq td < 1001 + N.of_nat i) cd.
  Lemma below_no_retrans i cd : below i cd -> is_retrans cd (mkTd (1001 + N.of_nat i) [abyte]) = false.
  Proof.
    intros H. unfold is_retrans. destruct (existsb _ _) eqn:E; [|reflexivity]. exfalso.
    apply existsb_exists in E. destruct E as (x & Hin & Hx). apply andb_true_iff in Hx. destruct Hx as [H1 _].
    apply N.eqb_eq in H1. cbn in H1. unfold below in H. rewrite Forall_forall in H. specialize (H x Hin). lia.
  Qed.

  Lemma gstep cap cd i : all_a cd -> below i cd ->
    step parse_req parse_resp (gstate cap cd) (gdata i)
    = (gstate cap (cd ++ [mkTd (1001 + N.of_nat i) [abyte]]), ONone).
  Proof.
    intros Ha Hb. unfold step, gstate, gdata. cbn [g_src g_dst g_sport g_dport cache_get c_entries assoc_get].
    change (fkey_eqb gkey (1, 2, 3, 4)) with true. cbn iota.
    unfold on_flow. cbn [g_pay g_src g_sport g_seq f_cip f_cport f_cparsed f_cdata f_sdata f_sip f_sport f_sparsed].
    change (1 =? 1) with true. change (3 =? 3) with true. rewrite (below_no_retrans i cd Hb). cbn [andb negb].
    rewrite never.
    - destruct (has_complete _ _ _); unfold finish, set_flow; cbn; reflexivity.
    - apply full_data_all. apply Forall_app. split; [exact Ha|]. repeat constructor.
  Qed.

  Lemma gcost cap cd i : all_a cd -> below i cd ->
    cost_http (gstate cap cd) (gdata i) = 1 + 3 * (td_bytes cd + 1).
  Proof.
    intros Ha Hb. unfold cost_http, gstate, gdata. cbn [g_src g_dst g_sport g_dport cache_get c_entries assoc_get].
    change (fkey_eqb gkey (1, 2, 3, 4)) with true. cbn iota.
    unfold cost_on_flow. cbn [g_pay g_src g_sport g_seq f_cip f_cport f_cparsed f_cdata].
    change (1 =? 1) with true. change (3 =? 3) with true. rewrite (below_no_retrans i cd Hb). cbn [andb negb].
    rewrite td_bytes_app. unfold td_bytes, len_N. cbn. lia.
  Qed.

  Lemma grun cap n : forall cd i, all_a cd -> below i cd ->
    exists cd', fst (run parse_req parse_resp (gstate cap cd) (map gdata (seq i n))) = gstate cap cd'
                /\ all_a cd' /\ below (i + n) cd' /\ td_bytes cd' = td_bytes cd + N.of_nat n.
  Proof.
    induction n as [|n IH]; intros cd i Ha Hb; cbn [seq map run].
    - exists cd. cbn. rewrite Nat.add_0_r. repeat split; [exact Ha | exact Hb | lia].
    - rewrite (gstep cap cd i Ha Hb).
      assert (Hb' : below (S i) (cd ++ [mkTd (1001 + N.of_nat i) [abyte]])).
      { apply Forall_app. split; [eapply Forall_impl; [|exact Hb]; cbn; intros; lia | repeat constructor; cbn; lia]. }
      assert (Ha' : all_a (cd ++ [mkTd (1001 + N.of_nat i) [abyte]])).
      { apply Forall_app. split; [exact Ha|]. repeat constructor. }
      destruct (IH _ (S i) Ha' Hb') as (cd' & E & A & B' & T).
      destruct (run parse_req parse_resp _ (map gdata (seq (S i) n))) as [st2 os]. cbn [fst] in *.
      exists cd'. repeat split; [exact E | exact A | replace (i + S n)%nat with (S i + n)%nat by lia; exact B' |].
      rewrite T, td_bytes_app. unfold td_bytes, len_N. cbn. lia.
  Qed.

  Theorem http_unbounded :
    forall B : N, exists h p,
      (forall q, In q (h ++ [p]) -> (g_src q, g_dst q, g_sport q, g_dport q) = gkey /\ len_N (g_pay q) <= 1) /\
      B < retained_http (fst (run parse_req parse_resp (cache_new 1) h)) /\
      B < cost_http (fst (run parse_req parse_resp (cache_new 1) h)) p.
  Proof.
    intros B. set (k := S (N.to_nat B)). exists (ghist k), (gdata k). split; [|].
    - intros q Hq. apply in_app_or in Hq. destruct Hq as [[<-|Hq]|[<-|[]]].
      + split; [reflexivity | unfold len_N; cbn; lia].
      + apply in_map_iff in Hq. destruct Hq as (i & <- & _). split; [reflexivity | unfold len_N; cbn; lia].
      + split; [reflexivity | unfold len_N; cbn; lia].
    - unfold ghist. cbn [run].
      assert (S0 : step parse_req parse_resp (cache_new 1) gsyn = (gstate 1 [mkTd 1000 []], ONone)) by reflexivity.
      rewrite S0.
      assert (A0 : all_a [mkTd 1000 []]) by (repeat constructor).
      assert (B0 : below 0 [mkTd 1000 []]) by (repeat constructor; cbn; lia).
      destruct (grun 1 k [mkTd 1000 []] 0%nat A0 B0) as (cd' & E & A & Bk & T).
      destruct (run parse_req parse_resp _ (map gdata (seq 0 k))) as [st2 os]. cbn [fst] in *. subst st2.
      rewrite (gcost 1 cd' k A Bk). unfold retained_http, gstate. cbn [c_entries map snd sum_N fold_right].
      unfold flow_retained. cbn [f_cdata f_sdata]. rewrite T. unfold td_bytes at 2 3. unfold len_N. cbn. subst k. lia.
  Qed.
End HttpBound.
