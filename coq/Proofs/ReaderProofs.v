(* Proofs for C08: the incremental reader and the per-flow packet logic report a ClientHello
   record exactly once, on the completing segment, for every division into segments. *)
From Coq Require Import List NArith Bool Lia ZifyBool ZifyN ZifyNat Arith.
From Coq Require Import Strings.Byte.
From HN Require Import Base.Bytes Model.TlsHello Model.Ja4 Model.TlsReader Spec.ReaderSpec.
Import ListNotations.
Open Scope N_scope.

Lemma lenN_app {A} (a b : list A) : lenN (a ++ b) = lenN a + lenN b.
Proof. unfold lenN. rewrite app_length. lia. Qed.
Lemma lenN_nil {A} : lenN (@nil A) = 0.
Proof. reflexivity. Qed.
Lemma lenN_cons {A} (x : A) l : lenN (x :: l) = 1 + lenN l.
Proof. unfold lenN. cbn [length]. lia. Qed.
Lemma to_nat_lenN {A} (l : list A) : N.to_nat (lenN l) = length l.
Proof. unfold lenN. apply Nat2N.id. Qed.

Lemma firstn_len_app {A} (a b : list A) : firstn (length a) (a ++ b) = a.
Proof. rewrite firstn_app, firstn_all, Nat.sub_diag. cbn. apply app_nil_r. Qed.
Lemma skipn_len_app {A} (a b : list A) : skipn (length a) (a ++ b) = b.
Proof. rewrite skipn_app, skipn_all, Nat.sub_diag. reflexivity. Qed.

(* a buffer that agrees with r ++ tail and is at least as long as r starts with r *)
Lemma prefix_covers {A} (buf k r tail : list A) :
  buf ++ k = r ++ tail -> (length r <= length buf)%nat -> exists x, buf = r ++ x.
Proof.
  intros E L. exists (skipn (length r) buf).
  assert (H : firstn (length r) buf = r).
  { assert (F : firstn (length r) (buf ++ k) = firstn (length r) (r ++ tail)) by now rewrite E.
    rewrite firstn_len_app in F. rewrite firstn_app in F.
    replace (length r - length buf)%nat with 0%nat in F by lia. cbn in F. now rewrite app_nil_r in F. }
  rewrite <- H at 1. symmetry. apply firstn_skipn.
Qed.

Section Record.
Variable r : bytes.
Hypothesis Hframed : framed r.
Hypothesis Hcap : lenN r <= READER_CAP.

Lemma framed_shape : exists t v1 v2 l1 l2 body,
  r = t :: v1 :: v2 :: l1 :: l2 :: body /\ t = x16 /\ lenN body = b2n l1 * 256 + b2n l2.
Proof using Hframed.
  clear Hcap. unfold framed in Hframed. destruct r as [|t [|v1 [|v2 [|l1 [|l2 body]]]]]; try contradiction.
  destruct Hframed as [Ht Hl]. now exists t, v1, v2, l1, l2, body.
Qed.

(* any buffer of at least five bytes that agrees with r ++ tail shows r's header *)
Lemma header_visible buf k tail :
  buf ++ k = r ++ tail -> 5 <= lenN buf -> first_byte buf = 0x16 /\ needed_of buf = lenN r.
Proof using Hframed. clear Hcap.
  intros E L. destruct framed_shape as (t & v1 & v2 & l1 & l2 & body & Hr & Ht & Hl).
  rewrite Hr in E. 
  destruct buf as [|a0 [|a1 [|a2 [|a3 [|a4 b']]]]]; try (unfold lenN in L; cbn [length] in L; lia).
  cbn [app] in E. injection E as -> -> -> -> -> _.
  split.
  - cbn [first_byte]. subst t. reflexivity.
  - unfold needed_of. cbn [skipn u16]. rewrite Hr. rewrite !lenN_cons. lia.
Qed.

Definition st_of (pre : bytes) : reader := {| r_buffer := pre; r_signature := None |}.

(* the buffer stays short of the record: nothing is reported, bytes are kept *)
Lemma add_bytes_incomplete pre c k tail :
  (pre ++ c) ++ k = r ++ tail -> lenN (pre ++ c) < lenN r ->
  add_bytes (st_of pre) c = (st_of (pre ++ c), RNone).
Proof using Hframed. clear Hcap.
  intros E L. unfold add_bytes, st_of; cbn [r_signature r_buffer].
  destruct (lenN (pre ++ c) <? 5) eqn:E5; [reflexivity|].
  destruct (header_visible (pre ++ c) k tail E ltac:(lia)) as [Hf Hn].
  rewrite Hf, Hn. cbn [negb]. replace (22 =? 22) with true by reflexivity. cbn [negb].
  destruct (lenN (pre ++ c) <? lenN r) eqn:E6; [reflexivity | lia].
Qed.

(* the buffer holds the whole record: parse exactly the record's bytes *)
Lemma add_bytes_complete pre c x :
  pre ++ c = r ++ x ->
  add_bytes (st_of pre) c =
    match parse_tls_client_hello r with
    | RSig s => ({| r_buffer := x; r_signature := Some s |}, RSig s)
    | RNone => (reader_new, RNone)
    | RErr => (st_of (pre ++ c), RErr)
    end.
Proof.
  intros E. unfold add_bytes, st_of; cbn [r_signature r_buffer].
  assert (L5 : 5 <= lenN r).
  { destruct framed_shape as (t & v1 & v2 & l1 & l2 & body & Hr & _ & _). rewrite Hr, !lenN_cons. lia. }
  assert (LB : lenN (pre ++ c) = lenN r + lenN x) by (rewrite E; apply lenN_app).
  destruct (lenN (pre ++ c) <? 5) eqn:E5; [lia|].
  assert (E' : (pre ++ c) ++ [] = r ++ x) by (rewrite app_nil_r; exact E).
  destruct (header_visible (pre ++ c) [] x E' ltac:(lia)) as [Hf Hn].
  rewrite Hf, Hn. replace (22 =? 22) with true by reflexivity. cbn [negb].
  destruct (lenN (pre ++ c) <? lenN r) eqn:E6; [lia|].
  destruct (READER_CAP <? lenN r) eqn:E7; [lia|].
  rewrite to_nat_lenN, E, firstn_len_app, skipn_len_app.
  destruct (parse_tls_client_hello r); reflexivity.
Qed.

(* once a signature is stored every further call returns None *)
Lemma reader_outs_done st cs :
  r_signature st <> None -> reader_outs st cs = map (fun _ => RNone) cs.
Proof.
  intros H. induction cs as [|c rest IH]; [reflexivity|].
  cbn [reader_outs map]. unfold add_bytes. destruct (r_signature st) eqn:E; [|congruence].
  now rewrite IH.
Qed.

(* after a parse error the buffer is kept, so every further call fails again *)
Lemma reader_outs_error x cs :
  parse_tls_client_hello r = RErr ->
  reader_outs (st_of (r ++ x)) cs = map (fun _ => RErr) cs.
Proof.
  intros HE. revert x. induction cs as [|c rest IH]; intros x; [reflexivity|].
  cbn [reader_outs map].
  rewrite (add_bytes_complete (r ++ x) c (x ++ c)) by now rewrite app_assoc.
  rewrite HE. rewrite <- app_assoc. now rewrite IH.
Qed.

(* outputs for a buffer that is still short of the record *)
Fixpoint reader_spec (have : N) (cs : list bytes) : list tls_result :=
  match cs with
  | [] => []
  | c :: rest =>
      let have' := have + lenN c in
      if have' <? lenN r then RNone :: reader_spec have' rest
      else match parse_tls_client_hello r with
           | RSig s => RSig s :: map (fun _ => RNone) rest
           | RNone => RNone :: reader_outs reader_new rest
           | RErr => RErr :: map (fun _ => RErr) rest
           end
  end.

Lemma reader_run tail : forall cs pre,
  pre ++ concat cs = r ++ tail -> lenN pre < lenN r ->
  reader_outs (st_of pre) cs = reader_spec (lenN pre) cs.
Proof.
  induction cs as [|c rest IH]; intros pre E L; [reflexivity|].
  cbn [concat] in E. rewrite app_assoc in E.
  cbn [reader_outs reader_spec]. rewrite <- lenN_app.
  destruct (lenN (pre ++ c) <? lenN r) eqn:EL.
  - rewrite (add_bytes_incomplete pre c (concat rest) tail E) by lia.
    f_equal. apply IH; [exact E | lia].
  - destruct (prefix_covers (pre ++ c) (concat rest) r tail E) as [x Hx].
    { unfold lenN in EL. lia. }
    rewrite (add_bytes_complete pre c x Hx).
    destruct (parse_tls_client_hello r) eqn:EP.
    + f_equal. apply reader_outs_done. cbn. congruence.
    + reflexivity.
    + f_equal. rewrite Hx. now apply reader_outs_error.
Qed.

Lemma reader_spec_sig s have cs :
  parse_tls_client_hello r = RSig s -> reader_spec have cs = exactly_once have (lenN r) (RSig s) cs.
Proof.
  intros HP. revert have. induction cs as [|c rest IH]; intros have; [reflexivity|].
  cbn [reader_spec exactly_once]. rewrite HP, IH. reflexivity.
Qed.

Lemma r_nonempty : 0 < lenN r.
Proof using Hframed. clear Hcap. destruct framed_shape as (t & v1 & v2 & l1 & l2 & body & Hr & _ & _). rewrite Hr, lenN_cons. lia. Qed.

(* C08 for the reader API *)
Theorem reader_exactly_once tail cs s :
  parse_tls_client_hello r = RSig s -> concat cs = r ++ tail ->
  reader_outs reader_new cs = exactly_once 0 (lenN r) (RSig s) cs.
Proof.
  intros HP E. change reader_new with (st_of []).
  rewrite (reader_run tail cs []); [ | exact E | rewrite lenN_nil; apply r_nonempty].
  rewrite lenN_nil. now apply reader_spec_sig.
Qed.

(* the record in one segment: the one-shot result is the parse of the record *)
Theorem reader_one_shot : reader_outs reader_new [r] = [parse_tls_client_hello r].
Proof.
  change reader_new with (st_of []). cbn [reader_outs].
  rewrite (add_bytes_complete [] r []) by now rewrite app_nil_r.
  destruct (parse_tls_client_hello r); reflexivity.
Qed.

(* a handshake record that holds no ClientHello: nothing up to its last byte, then a fresh reader *)
Fixpoint not_hello_spec (have : N) (cs : list bytes) : list tls_result :=
  match cs with
  | [] => []
  | c :: rest => let have' := have + lenN c in
                 if have' <? lenN r then RNone :: not_hello_spec have' rest
                 else RNone :: reader_outs reader_new rest
  end.
Lemma reader_spec_none have cs :
  parse_tls_client_hello r = RNone -> reader_spec have cs = not_hello_spec have cs.
Proof.
  intros HP. revert have. induction cs as [|c rest IH]; intros have; [reflexivity|].
  cbn [reader_spec not_hello_spec]. rewrite HP, IH. reflexivity.
Qed.
Theorem reader_not_hello tail cs :
  parse_tls_client_hello r = RNone -> concat cs = r ++ tail ->
  reader_outs reader_new cs = not_hello_spec 0 cs.
Proof.
  intros HP E. change reader_new with (st_of []) at 1.
  rewrite (reader_run tail cs []); [ | exact E | rewrite lenN_nil; apply r_nonempty].
  rewrite lenN_nil. now apply reader_spec_none.
Qed.
Corollary reader_not_hello_exact cs :
  parse_tls_client_hello r = RNone -> concat cs = r ->
  reader_outs reader_new cs = map (fun _ => RNone) cs.
Proof.
  intros HP E. rewrite (reader_not_hello [] cs HP) by now rewrite app_nil_r.
  assert (G : forall have cs, lenN (concat cs) + have <= lenN r -> not_hello_spec have cs = map (fun _ => RNone) cs).
  { clear. intros have cs. revert have. induction cs as [|c rest IH]; intros have H; [reflexivity|].
    cbn [concat] in H. rewrite lenN_app in H. cbn [not_hello_spec map].
    destruct (have + lenN c <? lenN r) eqn:EL.
    - f_equal. apply IH. lia.
    - f_equal. assert (Z : lenN (concat rest) = 0) by lia.
      assert (forall l : list bytes, lenN (concat l) = 0 -> reader_outs reader_new l = map (fun _ => RNone) l).
      { clear. induction l as [|c l IH]; intros H; [reflexivity|].
        cbn [concat] in H. rewrite lenN_app in H.
        assert (c = []) by (destruct c; [reflexivity | rewrite lenN_cons in H; lia]). subst c.
        cbn [reader_outs map]. replace (add_bytes reader_new []) with (reader_new, RNone) by (vm_compute; reflexivity).
        f_equal. apply IH. rewrite lenN_nil in H. lia. }
      now apply H0. }
  apply G. rewrite E. lia.
Qed.

(* error at completion: reported on the completing and on every later segment (the buffer is kept) *)
Fixpoint error_spec (have : N) (cs : list bytes) : list tls_result :=
  match cs with
  | [] => []
  | c :: rest => let have' := have + lenN c in
                 if have' <? lenN r then RNone :: error_spec have' rest
                 else RErr :: map (fun _ => RErr) rest
  end.
Lemma reader_spec_err have cs :
  parse_tls_client_hello r = RErr -> reader_spec have cs = error_spec have cs.
Proof.
  intros HP. revert have. induction cs as [|c rest IH]; intros have; [reflexivity|].
  cbn [reader_spec error_spec]. rewrite HP, IH. reflexivity.
Qed.
Theorem reader_error_repeats tail cs :
  parse_tls_client_hello r = RErr -> concat cs = r ++ tail ->
  reader_outs reader_new cs = error_spec 0 cs.
Proof.
  intros HP E. change reader_new with (st_of []) at 1.
  rewrite (reader_run tail cs []); [ | exact E | rewrite lenN_nil; apply r_nonempty].
  rewrite lenN_nil. now apply reader_spec_err.
Qed.

End Record.

(* bytes that do not start a handshake record are dropped as soon as five of them are buffered *)
Theorem reader_drops_non_handshake c :
  5 <= lenN c -> first_byte c <> 0x16 -> add_bytes reader_new c = (reader_new, RNone).
Proof.
  intros L F. unfold add_bytes, reader_new; cbn [r_signature r_buffer app].
  destruct (lenN c <? 5) eqn:E5; [lia|].
  destruct (first_byte c =? 22) eqn:EF; [apply N.eqb_eq in EF; contradiction|]. reflexivity.
Qed.

(* ---------- the per-flow packet logic of process.rs ---------- *)
Lemma flow_get_set fl k rd rd0 : flow_get fl k = Some rd0 -> flow_get (flow_set fl k rd) k = Some rd.
Proof.
  induction fl as [|[k' r'] t IH]; cbn [flow_get flow_set]; [discriminate|].
  destruct (k' =? k) eqn:E; cbn [flow_get]; intros H.
  - now rewrite N.eqb_refl.
  - rewrite E. now apply IH.
Qed.
Lemma flow_get_remove fl k : flow_get (flow_remove fl k) k = None.
Proof.
  unfold flow_remove. induction fl as [|[k' r'] t IH]; [reflexivity|].
  cbn [filter fst]. destruct (k' =? k) eqn:E; cbn [negb]; [exact IH|].
  cbn [flow_get]. now rewrite E.
Qed.
Lemma flow_get_app_new fl k rd : flow_get fl k = None -> flow_get (fl ++ [(k, rd)]) k = Some rd.
Proof.
  induction fl as [|[k' r'] t IH]; cbn [flow_get app]; intros H.
  - now rewrite N.eqb_refl.
  - destruct (k' =? k); [discriminate | now apply IH].
Qed.
Lemma flow_get_insert cap fl k rd :
  1 <= cap -> flow_get fl k = None -> flow_get (flow_insert cap fl k rd) k = Some rd.
Proof.
  intros C H. unfold flow_insert.
  destruct (cap <? lenN (fl ++ [(k, rd)])) eqn:E.
  - destruct fl as [|[k' r'] t].
    + cbn [app] in E. rewrite lenN_cons, lenN_nil in E. lia.
    + cbn [app tl]. cbn [flow_get] in H. destruct (k' =? k); [discriminate|]. now apply flow_get_app_new.
  - now apply flow_get_app_new.
Qed.

Lemma looks_like_is_tls p : looks_like_record_start p = is_tls_traffic p.
Proof. reflexivity. Qed.

Section Flow.
Variable r : bytes.
Hypothesis Hframed : framed r.
Hypothesis Hcap : lenN r <= READER_CAP.
Hypothesis Hver : admitted_version r = true.
Variable s : signature.
Hypothesis Hparse : parse_tls_client_hello r = RSig s.
Variable cap k : N.
Hypothesis Hcap1 : 1 <= cap.

Definition evs_of (cs : list bytes) : list (N * bytes) := map (fun c => (k, c)) cs.

(* segments of a connection that is not tracked and never looks like a record start: silence *)
Lemma flow_run_calm : forall cs fl,
  flow_get fl k = None -> calm cs = true -> flow_outs cap fl (evs_of cs) = map (fun _ => RNone) cs.
Proof.
  induction cs as [|c rest IH]; intros fl G C; [reflexivity|].
  cbn [calm forallb] in C. apply andb_prop in C as [C1 C2].
  cbn [evs_of map flow_outs]. unfold flow_step. destruct c as [|b c'].
  - f_equal. now apply IH.
  - rewrite G. rewrite looks_like_is_tls in C1. destruct (is_tls_traffic (b :: c')); [discriminate|].
    cbn [negb]. f_equal. now apply IH.
Qed.

(* a segment that agrees with r ++ tail and shows the header is admitted *)
Lemma admitted c kk tail : c ++ kk = r ++ tail -> 5 <= lenN c -> is_tls_traffic c = true.
Proof.
  intros E L. destruct (framed_shape r Hframed) as (t & v1 & v2 & l1 & l2 & body & Hr & Ht & Hl).
  rewrite Hr in E.
  destruct c as [|a0 [|a1 [|a2 [|a3 [|a4 b']]]]]; try (unfold lenN in L; cbn [length] in L; lia).
  cbn [app] in E. injection E as -> -> -> -> -> _.
  unfold is_tls_traffic. rewrite Hr in Hver. unfold admitted_version in Hver. rewrite Hver.
  subst t. reflexivity.
Qed.

Lemma flow_run_tracked tail : forall cs pre fl,
  flow_get fl k = Some (st_of pre) -> pre ++ concat cs = r ++ tail -> lenN pre < lenN r ->
  calm (after_completion (lenN pre) (lenN r) cs) = true ->
  flow_outs cap fl (evs_of cs) = exactly_once (lenN pre) (lenN r) (RSig s) cs.
Proof.
  induction cs as [|c rest IH]; intros pre fl G E L C; [reflexivity|].
  cbn [concat] in E. rewrite app_assoc in E.
  cbn [evs_of map flow_outs exactly_once after_completion] in *. rewrite <- lenN_app in *.
  unfold flow_step. destruct c as [|b c'].
  - rewrite app_nil_r in *. destruct (lenN pre <? lenN r) eqn:EL; [|lia].
    f_equal. now apply IH.
  - cbv beta iota zeta. rewrite !G. cbv beta iota zeta. cbn [negb]. cbv beta iota zeta. rewrite ?G. cbv beta iota zeta.
    destruct (lenN (pre ++ b :: c') <? lenN r) eqn:EL.
    + rewrite (add_bytes_incomplete r Hframed pre (b :: c') (concat rest) tail E) by lia.
      f_equal. apply IH; [ now apply (flow_get_set fl k _ (st_of pre)) | exact E | lia | exact C ].
    + destruct (prefix_covers (pre ++ b :: c') (concat rest) r tail E) as [x Hx].
      { unfold lenN in EL. lia. }
      rewrite (add_bytes_complete r Hframed Hcap pre (b :: c') x Hx), Hparse.
      f_equal. apply flow_run_calm; [apply flow_get_remove | exact C].
Qed.

(* C08 for the packet-level analyzer: one connection, not tracked before *)
Theorem flow_exactly_once tail cs fl :
  flow_get fl k = None -> concat cs = r ++ tail -> 5 <= lenN (hd [] cs) ->
  calm (after_completion 0 (lenN r) cs) = true ->
  flow_outs cap fl (evs_of cs) = exactly_once 0 (lenN r) (RSig s) cs.
Proof.
  intros G E L5 C. destruct cs as [|c rest]; [cbn [hd] in L5; unfold lenN in L5; cbn [length] in L5; lia|].
  cbn [hd] in L5. cbn [concat] in E.
  cbn [evs_of map flow_outs exactly_once after_completion] in *.
  replace (0 + lenN c) with (lenN ([] ++ c)) in * by (cbn [app]; lia).
  unfold flow_step. destruct c as [|b c']; [unfold lenN in L5; cbn [length] in L5; lia|].
  cbv beta iota zeta. rewrite !G. rewrite (admitted (b :: c') (concat rest) tail E L5). cbn [negb]. cbv beta iota zeta.
  rewrite (flow_get_insert cap fl k reader_new Hcap1 G). cbv beta iota zeta.
  change reader_new with (st_of []).
  assert (E' : ([] ++ b :: c') ++ concat rest = r ++ tail) by exact E.
  destruct (lenN ([] ++ b :: c') <? lenN r) eqn:EL.
  - rewrite (add_bytes_incomplete r Hframed [] (b :: c') (concat rest) tail E') by lia.
    f_equal. apply (flow_run_tracked tail);
      [ apply (flow_get_set _ k _ (st_of [])); now apply flow_get_insert | exact E' | lia | exact C ].
  - destruct (prefix_covers ([] ++ b :: c') (concat rest) r tail E') as [x Hx].
    { unfold lenN in EL. lia. }
    rewrite (add_bytes_complete r Hframed Hcap [] (b :: c') x Hx), Hparse.
    f_equal. apply flow_run_calm; [apply flow_get_remove | exact C].
Qed.
End Flow.

(* ---------- witnesses ---------- *)
(* a minimal ClientHello record (TLS 1.2, no cipher suites, one compression method, no extensions) *)
Definition tiny_hello : bytes :=
  match read_hex (bs "160301002b01000027030300000000000000000000000000000000000000000000000000000000000000000000000100") with
  | Some b => b | None => [] end.

Example tiny_hello_ok :
  framed tiny_hello /\ admitted_version tiny_hello = true /\ lenN tiny_hello <= READER_CAP /\
  exists s, parse_tls_client_hello tiny_hello = RSig s.
Proof.
  split; [vm_compute; split; reflexivity|].
  split; [vm_compute; reflexivity|].
  split; [vm_compute; congruence|].
  eexists. vm_compute. reflexivity.
Qed.

Definition count_sigs (l : list tls_result) : nat :=
  length (filter (fun o => match o with RSig _ => true | _ => false end) l).

(* When the bytes after the record begin, at a segment boundary, a new handshake record that holds a
   ClientHello (a second ClientHello on the same connection, e.g. after a HelloRetryRequest), the
   packet-level analyzer reports the connection twice: the flow is forgotten after the first report. *)
Lemma second_report_when_tail_starts_record :
  exists cs, concat cs = tiny_hello ++ tiny_hello /\ calm (after_completion 0 (lenN tiny_hello) cs) = false /\
             count_sigs (flow_outs 8 [] (map (fun c => (1, c)) cs)) = 2%nat /\
             count_sigs (reader_outs reader_new cs) = 1%nat.
Proof. exists [tiny_hello; tiny_hello]. vm_compute. repeat split; reflexivity. Qed.

(* A record that is not a handshake record is not tracked as a record: when it arrives in several
   segments, each segment is judged on its own first bytes, so payload bytes that look like a
   ClientHello record are reported although the stream holds only an application-data record. *)
Lemma non_handshake_record_is_not_tracked :
  exists cs, let appdata := (x17 :: x03 :: x03 :: x00 :: n2b (3 + lenN tiny_hello) :: x00 :: x00 :: x00 :: tiny_hello) in
             concat cs = appdata /\ count_sigs (reader_outs reader_new cs) = 1%nat
             /\ count_sigs (flow_outs 8 [] (map (fun c => (1, c)) cs)) = 1%nat.
Proof. exists [[x17; x03; x03; x00; n2b (3 + lenN tiny_hello); x00; x00; x00]; tiny_hello]. vm_compute. repeat split; reflexivity. Qed.

(* ---------- the statements pinned in Props/C08.v ---------- *)
Theorem reader_exactly_once_and_one_shot :
  forall (r tail : bytes) (cs : list bytes) (s : signature),
    framed r -> lenN r <= READER_CAP -> parse_tls_client_hello r = RSig s ->
    concat cs = r ++ tail ->
    reader_outs reader_new cs = exactly_once 0 (lenN r) (RSig s) cs
    /\ reader_outs reader_new [r] = [RSig s].
Proof.
  intros r tail cs s F C P E. split.
  - exact (reader_exactly_once r F C tail cs s P E).
  - rewrite (reader_one_shot r F C). now rewrite P.
Qed.

Theorem analyzer_exactly_once :
  forall (r tail : bytes) (cs : list bytes) (s : signature) (cap k : N) (fl : flows),
    framed r -> lenN r <= READER_CAP -> admitted_version r = true ->
    parse_tls_client_hello r = RSig s ->
    1 <= cap -> flow_get fl k = None ->
    concat cs = r ++ tail -> 5 <= lenN (hd [] cs) ->
    calm (after_completion 0 (lenN r) cs) = true ->
    flow_outs cap fl (map (fun c => (k, c)) cs) = exactly_once 0 (lenN r) (RSig s) cs.
Proof.
  intros r tail cs s cap k fl F C V P C1 G E L5 Cm.
  exact (flow_exactly_once r F C V s P cap k C1 tail cs fl G E L5 Cm).
Qed.

Theorem reader_not_a_client_hello :
  forall (r : bytes) (cs : list bytes),
    framed r -> lenN r <= READER_CAP -> parse_tls_client_hello r = RNone ->
    concat cs = r ->
    reader_outs reader_new cs = map (fun _ => RNone) cs.
Proof. intros r cs F C P E. exact (reader_not_hello_exact r F C cs P E). Qed.
Theorem reader_not_a_client_hello_then_fresh :
  forall (r tail : bytes) (cs : list bytes),
    framed r -> lenN r <= READER_CAP -> parse_tls_client_hello r = RNone ->
    concat cs = r ++ tail ->
    reader_outs reader_new cs = not_hello_spec r 0 cs.
Proof. intros r tail cs F C P E. exact (reader_not_hello r F C tail cs P E). Qed.
Example reader_example :
  framed tiny_hello /\ lenN tiny_hello <= READER_CAP /\
  (exists s, parse_tls_client_hello tiny_hello = RSig s) /\
  concat [firstn 1 tiny_hello; firstn 4 (skipn 1 tiny_hello); skipn 5 tiny_hello ++ [x00]] = tiny_hello ++ [x00].
Proof.
  destruct tiny_hello_ok as (F & _ & C & S).
  split; [exact F|]. split; [exact C|]. split; [exact S|]. vm_compute. reflexivity.
Qed.
