(* C03 proofs, part 3: the option walk of visit_tcp against the SPEC's option parser, on option areas that
   are well-formed (no `bad` item: outside K5) and have nothing after an end-of-options marker (outside K1). *)
From Coq Require Import List NArith Bool Lia ZifyBool ZifyN.
From Coq Require Import Strings.Byte.
From HN Require Import Base.Bytes Model.SigAst Model.Pnet Model.TcpExtract Spec.P0fTcp Proofs.C03Bytes.
Import ListNotations.
Open Scope N_scope.

(* what the loop body does for one well-formed item *)
Definition apply_item (ty : N) (st : wst) (i : opt_item) : wst :=
  match i with
  | IEol pad => push_q_if (negb (all_zero pad)) (push_o st (OEol (blen pad))) QTrailinigNonZero
  | INop => push_o st ONop
  | IMss v => set_mss (push_o st OMss) v
  | IWs v => push_q_if (14 <? v) (set_ws (push_o st OWs) v) QExcessiveWindowScaling
  | ISok => push_o st OSok
  | ISack => push_o st OSack
  | ITs v1 v2 => let st2 := push_q_if (v1 =? 0) (push_o st OTS) QOwnTimestampZero in
                 if ty =? SYN then push_q_if (negb (v2 =? 0)) st2 QPeerTimestampNonZero else st2
  | IUnknown k => push_o st (OUnknown k)
  | IBad k => push_o st (kind_option k)
  end.
Definition good_item (i : opt_item) : bool :=
  match i with IBad _ => false | IEol (_ :: _) => false | _ => true end.

Lemma byte_at_0 k r : byte_at (k :: r) 0 = b2n k.
Proof. reflexivity. Qed.
Lemma byte_at_1 k l r : byte_at (k :: l :: r) 1 = b2n l.
Proof. reflexivity. Qed.
Lemma drop_1 k r : drop (k :: r) 1 = r.
Proof. reflexivity. Qed.

Lemma walk_step_short ty k rest st :
  (b2n k =? 0) || (b2n k =? 1) = true ->
  walk_step ty (k :: rest) st = (rest, opt_effect ty (b2n k) (opt_payload (k :: rest)) rest st).
Proof.
  intros H. unfold walk_step, opt_packet_size, tcp_option_payload_length, opt_length_raw, tcp_option_length, opt_number.
  rewrite byte_at_0, H. unfold raw_field. rewrite slice_nil by lia.
  replace (N.min (1 + 0 + 0) (blen (k :: rest))) with 1 by (rewrite blen_cons; lia).
  rewrite drop_1. reflexivity.
Qed.

Lemma slice_1_2 k l r : slice (k :: l :: r) 1 2 = [l].
Proof. reflexivity. Qed.

Lemma opt_len_facts k l r :
  (b2n k =? 0) || (b2n k =? 1) = false -> 2 <= b2n l ->
  opt_number (k :: l :: r) = b2n k /\ tcp_option_length (k :: l :: r) = 1
  /\ tcp_option_payload_length (k :: l :: r) = b2n l - 2.
Proof.
  intros H H2.
  assert (A : opt_number (k :: l :: r) = b2n k) by reflexivity.
  assert (B : tcp_option_length (k :: l :: r) = 1) by (unfold tcp_option_length; rewrite A, H; reflexivity).
  split; [exact A|]. split; [exact B|].
  unfold tcp_option_payload_length, opt_length_raw, raw_field. rewrite B.
  replace (N.min (1 + 1) (blen (k :: l :: r))) with 2 by (rewrite !blen_cons; lia).
  rewrite slice_1_2. replace (2 <=? b2n l) with true by lia. reflexivity.
Qed.

Lemma walk_step_len ty k l r st :
  (b2n k =? 0) || (b2n k =? 1) = false -> 2 <= b2n l -> b2n l <= blen (k :: l :: r) ->
  walk_step ty (k :: l :: r) st
  = (drop (k :: l :: r) (b2n l),
     opt_effect ty (b2n k) (slice (k :: l :: r) 2 (b2n l)) (drop (k :: l :: r) (b2n l)) st).
Proof.
  intros H H2 Hl. destruct (opt_len_facts k l r H H2) as (A & B & C).
  assert (Hb : 2 <= blen (k :: l :: r)) by (rewrite !blen_cons; lia).
  unfold walk_step, opt_packet_size, opt_payload. rewrite A, B, C.
  replace (N.min (1 + 1 + (b2n l - 2)) (blen (k :: l :: r))) with (b2n l) by lia.
  f_equal. f_equal. unfold payload_bounded.
  destruct (blen (k :: l :: r) <=? 1 + 1) eqn:E.
  - rewrite slice_nil by lia. reflexivity.
  - f_equal. lia.
Qed.

Lemma one_byte (d : bytes) : blen d = 1 -> exists x, d = [x].
Proof.
  destruct d as [|x [|y t]]; rewrite ?blen_cons, ?blen_nil; try lia. intros _. eexists; reflexivity.
Qed.

(* the loop computes the fold of apply_item over the SPEC's items *)
Lemma walk_items ty : forall (fuel : nat) (buf : bytes) (st : wst) (fuel2 : nat),
  (length buf <= fuel)%nat -> (length buf <= fuel2)%nat ->
  forallb good_item (parse_opts fuel buf) = true ->
  walk fuel2 ty buf st = Some (fold_left (apply_item ty) (parse_opts fuel buf) st).
Proof.
  induction fuel as [|f IH]; intros buf st fuel2 Hf Hf2 Hg.
  - destruct buf; [|cbn in Hf; lia]. destruct fuel2; reflexivity.
  - destruct buf as [|k rest]; [destruct fuel2; reflexivity|].
    destruct fuel2 as [|f2]; [cbn in Hf2; lia|].
    cbn [length] in Hf, Hf2.
    cbn [walk]. cbn [parse_opts] in Hg |- *.
    destruct (b2n k =? 0) eqn:K0.
    { (* EOL: nothing may follow *)
      cbn [forallb good_item] in Hg. destruct rest as [|x rest']; [|discriminate].
      rewrite walk_step_short by (rewrite K0; reflexivity).
      unfold opt_effect. rewrite K0. cbn [fold_left apply_item all_zero forallb negb any_nonzero existsb push_q_if].
      destruct f2; reflexivity. }
    destruct (b2n k =? 1) eqn:K1.
    { cbn [forallb good_item andb] in Hg.
      rewrite walk_step_short by (rewrite K0, K1; reflexivity).
      unfold opt_effect. rewrite K0, K1. cbn [fold_left apply_item].
      apply IH; [lia | lia | exact Hg]. }
    destruct rest as [|l r]; [discriminate|].
    destruct (length_ok (b2n k) (b2n l) && (b2n l <=? blen (k :: l :: r))) eqn:OK; [|discriminate].
    apply andb_true_iff in OK. destruct OK as [LOK FIT].
    assert (L2 : 2 <= b2n l).
    { unfold length_ok in LOK.
      repeat match type of LOK with (if ?c then _ else _) = true => destruct c end; lia. }
    cbn [forallb] in Hg. apply andb_true_iff in Hg. destruct Hg as [_ Hg].
    rewrite walk_step_len by (rewrite ?K0, ?K1; try reflexivity; lia).
    cbn [fold_left].
    set (buf := k :: l :: r) in *.
    assert (Hlen : (length (drop buf (b2n l)) <= f)%nat).
    { pose proof (blen_drop buf (b2n l)) as E. unfold blen in E. unfold buf in *. cbn [length] in *. lia. }
    assert (Hlen2 : (length (drop buf (b2n l)) <= f2)%nat).
    { pose proof (blen_drop buf (b2n l)) as E. unfold blen in E. unfold buf in *. cbn [length] in *. lia. }
    assert (Hslice : blen (slice buf 2 (b2n l)) = b2n l - 2) by (apply blen_slice; lia).
    match goal with |- walk _ _ _ ?s1 = Some (fold_left _ _ ?s2) =>
      replace s1 with s2; [apply IH; [exact Hlen | exact Hlen2 | exact Hg]|] end.
    unfold opt_effect, length_ok in *. rewrite K0, K1.
    destruct (b2n k =? 2) eqn:K2.
    { cbn [apply_item]. rewrite Hslice. replace (2 <=? b2n l - 2) with true by lia. reflexivity. }
    destruct (b2n k =? 3) eqn:K3.
    { cbn [apply_item]. destruct (one_byte (slice buf 2 (b2n l))) as [x Hx]; [lia|]. rewrite Hx.
      rewrite byte_at_0. reflexivity. }
    destruct (b2n k =? 4) eqn:K4; [reflexivity|].
    destruct (b2n k =? 5) eqn:K5; [reflexivity|].
    destruct (b2n k =? 8) eqn:K8; [|reflexivity].
    cbn [apply_item]. rewrite Hslice. replace (4 <=? b2n l - 2) with true by lia.
    replace (8 <=? b2n l - 2) with true by lia. cbn [andb]. reflexivity.
Qed.

(* ---- what the fold leaves in the four locals ---- *)
Definition item_quirks (ty : N) (i : opt_item) : list quirk :=
  match i with
  | IEol pad => if negb (all_zero pad) then [QTrailinigNonZero] else []
  | IWs v => if 14 <? v then [QExcessiveWindowScaling] else []
  | ITs v1 v2 => (if v1 =? 0 then [QOwnTimestampZero] else [])
                 ++ (if (ty =? SYN) && negb (v2 =? 0) then [QPeerTimestampNonZero] else [])
  | _ => [] end.

Lemma fold_items ty : forall items st,
  fold_left (apply_item ty) items st
  = {| w_mss := fold_left (fun acc i => match i with IMss v => Some v | _ => acc end) items (w_mss st);
       w_wscale := fold_left (fun acc i => match i with IWs v => Some v | _ => acc end) items (w_wscale st);
       w_olayout := w_olayout st ++ map item_option items;
       w_quirks := w_quirks st ++ flat_map (item_quirks ty) items |}.
Proof.
  induction items as [|i items IH]; intros st.
  - destruct st. cbn. rewrite !app_nil_r. reflexivity.
  - cbn [fold_left map flat_map]. rewrite IH. clear IH.
    destruct st as [m w o q].
    destruct i; cbn [apply_item item_quirks item_option];
      unfold push_q_if, push_q, push_o, set_mss, set_ws;
      try (destruct (ty =? SYN); destruct (v2 =? 0); cbn [andb negb]);
      repeat match goal with |- context [if ?c then _ else _] => destruct c end;
      cbn [w_mss w_wscale w_olayout w_quirks app]; rewrite <- ?app_assoc; cbn [app]; reflexivity.
Qed.

Lemma has_ts_layout items : opts_bad items = false ->
  existsb (tcp_option_eqb OTS) (map item_option items) = has_ts items.
Proof.
  induction items as [|i items IH]; [reflexivity|].
  cbn [opts_bad existsb map has_ts]. intros H. apply orb_false_iff in H. destruct H as [Hi H].
  fold (opts_bad items) in H. fold (has_ts items). rewrite IH by exact H.
  destruct i; try discriminate; reflexivity.
Qed.

(* not bad and not K1  =>  every item is good *)
Lemma good_items items :
  opts_bad items = false ->
  existsb (fun i => match i with IEol (_ :: _) => true | _ => false end) items = false ->
  forallb good_item items = true.
Proof.
  induction items as [|i items IH]; [reflexivity|].
  cbn [opts_bad existsb forallb]. intros H1 H2.
  apply orb_false_iff in H1. destruct H1 as [A1 B1]. apply orb_false_iff in H2. destruct H2 as [A2 B2].
  rewrite IH by assumption. destruct i as [[|x pad]| | | | | | | |]; try discriminate; reflexivity.
Qed.

(* C01-style remark: the loop never runs out of fuel *)
Lemma walk_fuel ty : forall (fuel : nat) (buf : bytes) (st : wst),
  (length buf <= fuel)%nat -> walk fuel ty buf st <> None.
Proof.
  induction fuel as [|f IH]; intros buf st Hf.
  - destruct buf; [discriminate | cbn in Hf; lia].
  - destruct buf as [|k rest]; [discriminate|]. cbn [walk].
    destruct (walk_step ty (k :: rest) st) as [r st'] eqn:E.
    apply IH. unfold walk_step in E. inversion E; subst.
    assert (S1 : 1 <= opt_packet_size (k :: rest)) by (unfold opt_packet_size; lia).
    pose proof (blen_drop (k :: rest) (N.min (opt_packet_size (k :: rest)) (blen (k :: rest)))) as D.
    revert D S1. generalize (opt_packet_size (k :: rest)). intros sz D S1.
    rewrite blen_cons in D |- *. unfold blen in D |- *. cbn [length] in Hf. lia.
Qed.

(* layout_spec: on a good option area the loop leaves exactly the SPEC's layout, MSS and window scale, and
   pushes the option quirks of the items in wire order *)
Lemma walk_layout ty opts q0 :
  forallb good_item (options_of opts) = true ->
  exists st, walk (S (length opts)) ty opts {| w_mss := None; w_wscale := None; w_olayout := []; w_quirks := q0 |} = Some st
    /\ w_olayout st = spec_layout (options_of opts) /\ w_mss st = spec_mss (options_of opts)
    /\ w_wscale st = spec_wscale (options_of opts)
    /\ w_quirks st = q0 ++ flat_map (item_quirks ty) (options_of opts).
Proof.
  intros HG. unfold options_of in *.
  rewrite (walk_items ty (length opts) opts _ (S (length opts))) by (auto; exact HG).
  rewrite fold_items. eexists. split; [reflexivity|]. cbn [w_mss w_wscale w_olayout w_quirks app].
  repeat split; reflexivity.
Qed.
