(* C03 proofs: the framing of packet_parser.rs is the documented strategy order (Ethernet, raw IP, NULL/loopback). *)
From Coq Require Import List NArith Bool Lia ZifyBool ZifyN.
From Coq Require Import Strings.Byte.
From HN Require Import Base.Bytes Model.SigAst Model.Pnet Model.TcpExtract Spec.P0fTcp Proofs.C03Bytes.
Import ListNotations.
Open Scope N_scope.

Lemma parse_unframe f : parse_packet f = match unframe f with FV4 p => Ipv4 p | FV6 p => Ipv6 p | FNone => NoIp end.
Proof.
  unfold parse_packet, try_ethernet, try_raw_ip, try_null, unframe, ipv4_min, ipv6_min.
  rewrite !blen_drop.
  generalize (byte_at (drop f 4) 0 / 16) (byte_at f 0 / 16) (be16_at f 12) (byte_at f 0) (byte_at f 1) (blen f).
  intros v4n v e b0 b1 L.
  repeat match goal with |- context [if ?c then _ else _] => destruct c eqn:? end; try reflexivity; try lia.
Qed.

Lemma process_frame_unframe db f :
  process_frame db f = match unframe f with FV4 p => process_ipv4_packet db p | FV6 p => process_ipv6_packet db p
                                          | FNone => Ok out_none end.
Proof. unfold process_frame. rewrite parse_unframe. destruct (unframe f); reflexivity. Qed.
