(* C01 (c) -- the HTTP/2 frame splitter, the Akamai payload parsers and the incremental extractor never
   panic and their loops terminate.  Where a `usize` sum or a saturating offset is involved the statement
   carries the hypothesis  len b <= isize_max  (2^63-1): Rust guarantees it for every slice. *)
From Coq Require Import List NArith Bool Lia ZifyBool ZifyN.
From Coq Require Import Strings.Byte.
From HN Require Import Base.Bytes Model.TotalBase Model.TotalH2 Proofs.TotalBaseProofs.
Import ListNotations.
Open Scope N_scope.

Definition isize_max : N := 9223372036854775807.

Lemma be24_lt a b c : be24 a b c < 16777216.
Proof. unfold be24. pose proof (b2n_lt a). pose proof (b2n_lt b). pose proof (b2n_lt c). lia. Qed.

(* a parsed frame accounts for exactly 9 + length bytes of the input *)
Lemma parse_single_frame_ret d :
  parse_single_frame d = Err \/
  exists rest fr, parse_single_frame d = Ok (rest, fr) /\ len rest + total_size fr = len d /\ 9 <= total_size fr.
Proof.
  unfold parse_single_frame. destruct (len d <? 9) eqn:E9; [left; reflexivity|].
  ok_idx d 0. ok_idx d 1. ok_idx d 2. ok_idx d 3. ok_idx d 4. ok_idx d 5. ok_idx d 6. ok_idx d 7. ok_idx d 8.
  pose proof (be24_lt b b0 b1) as Hl. set (length := be24 b b0 b1) in *.
  destruct (max_frame_size <? length) eqn:Em; [left; reflexivity|].
  assert (Ht : sat_add u32_max 9 length = 9 + length) by (unfold sat_add, u32_max; lia). rewrite Ht.
  destruct (len d <? 9 + length) eqn:El; [left; reflexivity|].
  ok_slice d 9 (9 + length). ok_slice d (9 + length) (len d).
  right. eexists _, _. split; [reflexivity|]. unfold total_size. cbn [f_len].
  unfold sat_add, usize_max. lia.
Qed.

Fixpoint sizes (fs : list frame) : N := match fs with [] => 0 | f :: r => total_size f + sizes r end.
Lemma sizes_app a b : sizes (a ++ b) = sizes a + sizes b.
Proof. induction a as [|x a IH]; cbn [sizes app]; [lia|rewrite IH; lia]. Qed.

(* the loop returns; the frames it returns account for no more than acc + what was left *)
Lemma parse_frames_loop_ok : forall fuel rem acc, (length rem < fuel)%nat ->
  exists fs, parse_frames_loop fuel rem acc = Ok fs /\ sizes fs <= sizes acc + len rem.
Proof.
  induction fuel as [|f IH]; intros rem acc Hf; [lia|]. cbn [parse_frames_loop].
  destruct (9 <=? len rem) eqn:E9; [|exists acc; split; [reflexivity|lia]].
  ok_idx rem 0. ok_idx rem 1. ok_idx rem 2.
  destruct (len rem <? sat_add u32_max 9 (be24 b b0 b1)); [exists acc; split; [reflexivity|lia]|].
  destruct (parse_single_frame_ret rem) as [E|(rest & fr & E & Hacc & H9)]; rewrite E.
  - exists acc; split; [reflexivity|lia].
  - destruct (IH rest (acc ++ [fr])) as (fs & Efs & Hs); [unfold len in *; lia|].
    exists fs. split; [exact Efs|]. rewrite sizes_app in Hs. cbn [sizes] in Hs. lia.
Qed.

Lemma parse_frames_ok d : exists fs, parse_frames d = Ok fs /\ sizes fs <= len d.
Proof.
  unfold parse_frames. destruct (parse_frames_loop_ok (S (length d)) d []) as (fs & E & H); [lia|].
  exists fs. split; [exact E|]. cbn [sizes] in H. lia.
Qed.

Lemma sum_sizes_ok : forall fs acc, acc + sizes fs <= usize_max -> sum_sizes fs acc = Ok (acc + sizes fs).
Proof.
  induction fs as [|f r IH]; intros acc H; cbn [sum_sizes sizes] in *; [f_equal; lia|].
  rewrite add_chk_ok by lia. cbn [bind]. rewrite IH by lia. f_equal. lia.
Qed.

Lemma parse_frames_with_offset_ok d : len d <= isize_max ->
  exists fs n, parse_frames_with_offset d = Ok (fs, n) /\ n <= len d.
Proof.
  intros Hd. unfold parse_frames_with_offset. destruct (parse_frames_ok d) as (fs & E & H). rewrite E. cbn [bind].
  rewrite sum_sizes_ok by (unfold isize_max, usize_max in *; lia). cbn [bind]. eexists _, _. split; [reflexivity|lia].
Qed.

(* settings loop: every iteration advances the offset by 6 *)
Lemma sat6 offset l : l <= isize_max -> sat_add usize_max offset 6 <= l -> sat_add usize_max offset 6 = offset + 6.
Proof. unfold sat_add, usize_max, isize_max. lia. Qed.
Lemma settings_loop_ok payload : len payload <= isize_max ->
  forall fuel offset acc, len payload - offset < N.of_nat fuel ->
  exists r, settings_loop fuel payload offset acc = Ok r.
Proof.
  intros Hp. induction fuel as [|f IH]; intros offset acc Hf; [lia|]. cbn [settings_loop].
  destruct (sat_add usize_max offset 6 <=? len payload) eqn:E; [|eauto].
  apply IH. rewrite (sat6 offset (len payload)) in * by lia. lia.
Qed.
Lemma parse_settings_payload_ok p : len p <= isize_max -> exists r, parse_settings_payload p = Ok r.
Proof. intros H. unfold parse_settings_payload. apply settings_loop_ok; [exact H|unfold len; lia]. Qed.

Lemma parse_window_update_payload_ok p : exists r, parse_window_update_payload p = Ok r.
Proof.
  unfold parse_window_update_payload. destruct (len p <? 4) eqn:E; [eauto|].
  ok_idx p 0. ok_idx p 1. ok_idx p 2. ok_idx p 3. eauto.
Qed.
Lemma parse_priority_payload_ok p : exists r, parse_priority_payload p = Ok r.
Proof.
  unfold parse_priority_payload. destruct (len p <? 5) eqn:E; [eauto|].
  ok_idx p 0. ok_idx p 1. ok_idx p 2. ok_idx p 3. ok_idx p 4. eauto.
Qed.

(* payloads of parsed frames are no longer than the input *)
Lemma parse_single_frame_payload d rest fr : parse_single_frame d = Ok (rest, fr) -> len (f_payload fr) <= len d.
Proof.
  unfold parse_single_frame. destruct (len d <? 9) eqn:E9; [discriminate|].
  ok_idx d 0. ok_idx d 1. ok_idx d 2. ok_idx d 3. ok_idx d 4. ok_idx d 5. ok_idx d 6. ok_idx d 7. ok_idx d 8.
  pose proof (be24_lt b b0 b1) as Hl. set (length := be24 b b0 b1) in *.
  destruct (max_frame_size <? length) eqn:Em; [discriminate|].
  assert (Ht : sat_add u32_max 9 length = 9 + length) by (unfold sat_add, u32_max; lia). rewrite Ht.
  destruct (len d <? 9 + length) eqn:El; [discriminate|].
  ok_slice d 9 (9 + length). ok_slice d (9 + length) (len d).
  intros H. inversion H. subst. cbn [f_payload]. lia.
Qed.

Definition payloads_le (n : N) (fs : list frame) : Prop := Forall (fun f => len (f_payload f) <= n) fs.

Lemma parse_frames_loop_payloads n : forall fuel rem acc fs,
  len rem <= n -> payloads_le n acc -> parse_frames_loop fuel rem acc = Ok fs -> payloads_le n fs.
Proof.
  induction fuel as [|f IH]; intros rem acc fs Hr Ha; cbn [parse_frames_loop]; [discriminate|].
  destruct (9 <=? len rem) eqn:E9; [|intros H; inversion H; subst; exact Ha].
  ok_idx rem 0. ok_idx rem 1. ok_idx rem 2.
  destruct (len rem <? sat_add u32_max 9 (be24 b b0 b1)); [intros H; inversion H; subst; exact Ha|].
  destruct (parse_single_frame rem) as [[rest fr]| | |] eqn:E; try discriminate.
  - intros H. apply (IH rest (acc ++ [fr]) fs); [| |exact H].
    + destruct (parse_single_frame_ret rem) as [E'|(rest' & fr' & E' & Hacc & _)]; rewrite E' in E; [discriminate|].
      inversion E; subst. lia.
    + apply Forall_app. split; [exact Ha|]. constructor; [|constructor].
      pose proof (parse_single_frame_payload rem rest fr E). lia.
  - intros H; inversion H; subst; exact Ha.
Qed.

Lemma first_settings_in fs f : first_settings fs = Some f -> In f fs.
Proof.
  induction fs as [|x r IH]; cbn [first_settings]; [discriminate|].
  destruct ((f_type x =? 4) && (f_stream x =? 0)); [intros H; inversion H; left; reflexivity|intros H; right; auto].
Qed.

Lemma has_fingerprint_ok fs : payloads_le isize_max fs -> exists b, has_fingerprint fs = Ok b.
Proof.
  intros Hp. unfold has_fingerprint. destruct (first_settings fs) as [f|] eqn:E; [|eauto].
  apply first_settings_in in E. unfold payloads_le in Hp. rewrite Forall_forall in Hp.
  destruct (parse_settings_payload_ok (f_payload f) (Hp f E)) as (s & ->). cbn [bind]. eauto.
Qed.

Lemma starts_with_len p l : starts_with p l = true -> len p <= len l.
Proof.
  revert l; induction p as [|x p IH]; intros l; cbn [starts_with]; [unfold len; cbn; lia|].
  destruct l as [|y l]; [discriminate|]. rewrite andb_true_iff. intros [_ H]. apply IH in H. rewrite !len_cons. lia.
Qed.

(* extractor invariant: the parsed offset stays 0 until a fingerprint is produced *)
Definition x_inv (st : xstate) : Prop := x_fp st = true \/ x_off st = 0.

Lemma x_add_bytes_ok st data : x_inv st -> len (x_buf st ++ data) <= isize_max ->
  exists st' b, x_add_bytes st data = Ok (st', b) /\ x_inv st'.
Proof.
  intros Hi Hl. unfold x_add_bytes. destruct (x_fp st) eqn:Efp; [exists st, false; split; [reflexivity|left; exact Efp]|].
  destruct Hi as [Hi|Hi]; [congruence|]. cbv zeta. rewrite Hi. cbn [N.eqb andb].
  change (0 =? 0) with true. cbn [andb].
  set (buf := x_buf st ++ data) in *.
  set (start := if starts_with preface buf then len preface else 0).
  assert (Hs : start <= len buf).
  { unfold start. destruct (starts_with preface buf) eqn:Ep; [apply starts_with_len; exact Ep|lia]. }
  ok_slice buf start (len buf).
  destruct (9 <=? len s) eqn:E9; [|eexists _, _; split; [reflexivity|right; reflexivity]].
  destruct (parse_frames_with_offset_ok s) as (fs & n & E & Hn); [lia|]. rewrite E. cbn [bind fst snd].
  destruct fs as [|f0 fs']; [eexists _, _; split; [reflexivity|right; reflexivity]|].
  assert (Hp : payloads_le isize_max (f0 :: fs')).
  { unfold parse_frames_with_offset in E. destruct (parse_frames s) as [fs0| | |] eqn:Ef; try discriminate. cbn [bind] in E.
    destruct (sum_sizes fs0 0) eqn:Es0; try discriminate. cbn [bind] in E. inversion E; subst.
    unfold parse_frames in Ef. apply (parse_frames_loop_payloads isize_max (S (length s)) s [] _); [lia|constructor|exact Ef]. }
  destruct (has_fingerprint_ok _ Hp) as (fp & ->). cbn [bind].
  destruct fp; eexists _, _; (split; [reflexivity|]); [left; reflexivity|right; reflexivity].
Qed.

Lemma x_add_bytes_nopanic st data : x_inv st -> len (x_buf st ++ data) <= isize_max -> x_add_bytes st data <> Panic.
Proof. intros Hi Hl. destruct (x_add_bytes_ok st data Hi Hl) as (s & b & -> & _). discriminate. Qed.
Lemma x_add_bytes_terminates st data : x_inv st -> len (x_buf st ++ data) <= isize_max -> x_add_bytes st data <> OutOfFuel.
Proof. intros Hi Hl. destruct (x_add_bytes_ok st data Hi Hl) as (s & b & -> & _). discriminate. Qed.
