(* C03 proofs, part 1: byte strings, slices, and the flag-bit equivalences (N.land tests of the code
   vs. the bit tests of the SPEC), the latter by exhaustion over the 256 byte values. *)
From Coq Require Import List NArith Bool Lia ZifyBool ZifyN.
From Coq Require Import Strings.Byte.
From HN Require Import Base.Bytes Model.SigAst Model.Pnet Model.TcpExtract Spec.P0fTcp.
Import ListNotations.
Open Scope N_scope.

Lemma blen_nil : blen [] = 0. Proof. reflexivity. Qed.
Lemma blen_cons x l : blen (x :: l) = 1 + blen l.
Proof. unfold blen. cbn [length]. lia. Qed.
Lemma blen_zero l : blen l = 0 -> l = [].
Proof. destruct l; [reflexivity | rewrite blen_cons; lia]. Qed.

Lemma blen_drop l a : blen (drop l a) = blen l - a.
Proof. unfold blen, drop. rewrite skipn_length. lia. Qed.
Lemma blen_slice l a b : b <= blen l -> blen (slice l a b) = b - a.
Proof. unfold slice, blen. intros H. rewrite firstn_length, skipn_length. lia. Qed.
Lemma slice_nil l a b : b <= a -> slice l a b = [].
Proof. unfold slice. intros H. replace (b - a) with 0 by lia. reflexivity. Qed.
Lemma drop_all l a : blen l <= a -> drop l a = [].
Proof. unfold drop, blen. intros H. apply skipn_all2. lia. Qed.
Lemma drop_0 l : drop l 0 = l.
Proof. reflexivity. Qed.
Lemma drop_nil_iff l a : drop l a = [] <-> blen l <= a.
Proof.
  split; [|apply drop_all]. intros H. pose proof (blen_drop l a) as E. rewrite H in E. cbn in E. lia.
Qed.

Lemma byte_at_lt l i : byte_at l i < 256.
Proof. apply b2n_lt. Qed.
Lemma be16_at_lt l i : be16_at l i < 65536.
Proof. unfold be16_at. pose proof (byte_at_lt l i). pose proof (byte_at_lt l (i + 1)). lia. Qed.

(* a statement about the value of a byte is proved by running through the 256 bytes *)
Ltac by_byte b := destruct b; vm_compute; reflexivity.

Lemma byte_at_is_byte l i : exists b : byte, byte_at l i = b2n b.
Proof. eexists. reflexivity. Qed.

(* ---- TCP flag byte ---- *)
Lemma from_client_bits (b : byte) : from_client (b2n b) = fSYN (b2n b) && negb (fACK (b2n b)).
Proof. by_byte b. Qed.
Lemma is_valid_bits (b : byte) :
  let f := b2n b in
  is_valid f (N.land f TYPE_MASK)
  = negb ((fSYN f && (fFIN f || fRST f)) || (fFIN f && fRST f) || negb (fSYN f || fACK f || fFIN f || fRST f)).
Proof. by_byte b. Qed.
Lemma tcp_type_syn_bits (b : byte) : (N.land (b2n b) TYPE_MASK =? SYN) = syn_only (b2n b).
Proof. by_byte b. Qed.
Lemma ece_cwr_bits (b : byte) : negb (N.land (b2n b) ECE_CWR =? 0) = fECE (b2n b) || fCWR (b2n b).
Proof. by_byte b. Qed.
Lemma ack_bits (b : byte) : (N.land (b2n b) ACK =? ACK) = fACK (b2n b).
Proof. by_byte b. Qed.
Lemma rst_bits (b : byte) : (N.land (b2n b) RST =? 0) = negb (fRST (b2n b)).
Proof. by_byte b. Qed.
Lemma urg_bits (b : byte) : (N.land (b2n b) URG =? URG) = fURG (b2n b).
Proof. by_byte b. Qed.
Lemma psh_bits (b : byte) : (N.land (b2n b) PSH =? PSH) = fPSH (b2n b).
Proof. by_byte b. Qed.
Lemma syn_eq_bits (b : byte) : (N.land (b2n b) SYN =? SYN) = fSYN (b2n b).
Proof. by_byte b. Qed.

(* ---- IPv4 bytes ---- *)
Lemma v4_df_bits (b : byte) : negb (N.land (b2n b / 32) DontFragment =? 0) = bit (b2n b) 6.
Proof. by_byte b. Qed.
Lemma v4_mbz_bits (b : byte) : negb (N.land (b2n b / 32) IP4_MBZ =? 0) = bit (b2n b) 7.
Proof. by_byte b. Qed.
Lemma v4_mf_bits (b : byte) : (N.land (b2n b / 32) MoreFragments =? MoreFragments) = bit (b2n b) 5.
Proof. by_byte b. Qed.
Lemma v4_ecn_bits (b : byte) : negb (N.land (b2n b mod 4) IP_TOS_CE_ECT =? 0) = negb (b2n b mod 4 =? 0).
Proof. by_byte b. Qed.
Lemma ns_land_bits (b : byte) : negb (N.land (b2n b mod 16) TCP_NS =? 0) = N.odd (b2n b).
Proof. by_byte b. Qed.
Lemma ns_bits (b : byte) : N.odd (b2n b) = N.odd (b2n b mod 16).
Proof. by_byte b. Qed.

(* ---- IPv6 traffic class: its two low bits are bits 5..4 of byte 1 ---- *)
Lemma land3_mod4 x : N.land x 3 = x mod 4.
Proof. change 3 with (N.ones 2). rewrite N.land_ones. reflexivity. Qed.
Lemma v6_ecn_bits a b : b < 256 ->
  negb (N.land ((a mod 16) * 16 + b / 16) IP_TOS_CE_ECT =? 0) = negb ((b / 16) mod 4 =? 0).
Proof.
  intros Hb. unfold IP_TOS_CE_ECT. rewrite land3_mod4.
  replace (((a mod 16) * 16 + b / 16) mod 4) with ((b / 16) mod 4); [reflexivity|].
  replace ((a mod 16) * 16 + b / 16) with (b / 16 + ((a mod 16) * 4) * 4) by lia.
  rewrite N.mod_add by lia. reflexivity.
Qed.
