(* C07 statements derived from Base/Keyed.v *)
From Coq Require Import List NArith Bool Lia.
From HN Require Import Base.Bytes Base.Keyed Model.Replay.
Import ListNotations.

Section K.
  Variables (P K S O : Type).
  Variable key : P -> K.
  Variable keqb : K -> K -> bool.
  Hypothesis keqb_eq : forall a b, keqb a b = true <-> a = b.
  Variable lstep : option S -> P -> option S * list O.

  Notation run := (run P K S O key keqb lstep).
  Notation proj := (proj K O keqb).
  Notation fk := (fk P K key keqb).

  Lemma fk_app' k a b : fk k (a ++ b) = fk k a ++ fk k b.
  Proof. unfold Keyed.fk. apply filter_app. Qed.

  Lemma fk_none k h : (forall p, In p h -> keqb (key p) k = false) -> fk k h = [].
  Proof.
    intro H. unfold Keyed.fk. induction h as [|p h IH]; cbn; [reflexivity|].
    rewrite (H p (or_introl eq_refl)). apply IH. intros q Hq. apply H. right. exact Hq.
  Qed.

  (* no connection can disable the ones that follow: after ANY history h of other connections,
     a connection whose key does not occur in h is analysed exactly as on the initial state *)
  Theorem no_disable : forall h probe s k,
    (forall p, In p h -> keqb (key p) k = false) ->
    proj k (snd (run s (h ++ probe))) = proj k (snd (run s probe)).
  Proof.
    intros h probe s k Hh.
    rewrite (proj1 (run_local P K S O key keqb keqb_eq lstep (h ++ probe) s k)).
    rewrite (proj1 (run_local P K S O key keqb keqb_eq lstep probe s k)).
    rewrite fk_app', (fk_none k h Hh). reflexivity.
  Qed.
End K.

Lemma Neqb_eq : forall a b : N, N.eqb a b = true <-> a = b.
Proof. intros. apply N.eqb_eq. Qed.

(* the replay instance returns, for every connection, exactly its recorded results in order *)
Lemma replay_lrun : forall l, snd (lrun rpacket (list bytes) bytes rlstep (Some (map snd l)) l) = map snd l.
Proof.
  induction l as [|p l IH]; cbn; [reflexivity|].
  destruct (lrun rpacket (list bytes) bytes rlstep (Some (map snd l)) l) as [v o] eqn:E.
  cbn in *. rewrite IH. reflexivity.
Qed.

Theorem replay_projects : forall tr k,
  proj N bytes N.eqb k (replay_run tr) = map snd (filter (fun p => N.eqb (fst p) k) tr).
Proof.
  intros tr k. unfold replay_run.
  rewrite (proj1 (run_local rpacket N (list bytes) bytes rkey N.eqb Neqb_eq rlstep tr (rinit tr) k)).
  unfold rinit, Keyed.fk, rkey. apply replay_lrun.
Qed.
