(* C03 proofs, part 5: the pnet views on well-formed packets, the normal form of visit_tcp, and the assembly
   model = SPEC outside the known classes, for IPv4 and IPv6. *)
From Coq Require Import List NArith Bool Lia ZifyBool ZifyN.
From Coq Require Import Strings.Byte.
From HN Require Import Base.Bytes Model.SigAst Model.Pnet Model.TcpExtract Spec.P0fTcp
  Proofs.C03Bytes Proofs.C03Fields Proofs.C03Options Proofs.C03Quirks.
Import ListNotations.
Open Scope N_scope.

(* ---------------- decode_tcp inverted ---------------- *)
Lemma decode_tcp_inv t th opts plen :
  decode_tcp t = Some (th, opts, plen) ->
  20 <= blen t /\ 5 <= th_doff th /\ th_doff th * 4 <= blen t /\ th_doff th < 16
  /\ th = {| th_flags := byte_at t 13; th_ns := N.odd (byte_at t 12); th_doff := byte_at t 12 / 16;
             th_seq := be32_at t 4; th_ack := be32_at t 8; th_win := be16_at t 14; th_urg := be16_at t 18 |}
  /\ opts = slice t 20 (th_doff th * 4) /\ plen = blen t - th_doff th * 4.
Proof.
  unfold decode_tcp.
  destruct ((20 <=? blen t) && (5 <=? byte_at t 12 / 16) && (byte_at t 12 / 16 * 4 <=? blen t)) eqn:E; [|discriminate].
  intros H; inversion H; subst; clear H. cbn [th_doff].
  pose proof (byte_at_lt t 12). repeat split; try lia.
Qed.

(* ---------------- the pnet views of a TCP segment that decodes ---------------- *)
Lemma tcp_options_raw_wf t : 20 <= blen t -> 5 <= tcp_data_offset t -> tcp_data_offset t * 4 <= blen t ->
  tcp_options_raw t = slice t 20 (tcp_data_offset t * 4).
Proof.
  intros H1 H2 H3. unfold tcp_options_raw, raw_field, tcp_options_length.
  destruct (5 <? tcp_data_offset t) eqn:E; f_equal; lia.
Qed.
Lemma tcp_pclass_wf t : 20 <= blen t -> 5 <= tcp_data_offset t ->
  match tcp_payload t with [] => PZero | _ => PNonZero end
  = if blen t - tcp_data_offset t * 4 =? 0 then PZero else PNonZero.
Proof.
  intros H1 H2. unfold tcp_payload, payload_rest, tcp_options_length.
  replace (20 + (if 5 <? tcp_data_offset t then tcp_data_offset t * 4 - 20 else 0)) with (tcp_data_offset t * 4)
    by (destruct (5 <? tcp_data_offset t) eqn:E; lia).
  destruct (blen t <=? tcp_data_offset t * 4) eqn:E.
  - replace (blen t - tcp_data_offset t * 4 =? 0) with true by lia. reflexivity.
  - replace (blen t - tcp_data_offset t * 4 =? 0) with false by lia.
    destruct (drop t (tcp_data_offset t * 4)) eqn:D; [|reflexivity].
    apply drop_nil_iff in D. lia.
Qed.

(* ---------------- normal form of visit_tcp on a segment that decodes, options good ---------------- *)
Definition ty_of (th : tcp_hdr) : N := N.land (th_flags th) TYPE_MASK.
Definition hqt_of (th : tcp_hdr) : list quirk :=
  let f := th_flags th in
  hqt (fECE f || fCWR f || th_ns th) (th_seq th =? 0) (fACK f) (th_ack th =? 0) (fRST f) (fURG f) (th_urg th =? 0) (fPSH f).
Definition code_quirks (q0 : list quirk) (th : tcp_hdr) (items : list opt_item) : list quirk :=
  (q0 ++ hqt_of th) ++ flat_map (item_quirks (ty_of th)) items.
Definition code_sig (v : ip_version) (ittl : ttl) (olen hdr : N) (q0 : list quirk) (th : tcp_hdr) (opts : bytes) (plen : N) : tcp_sig :=
  let items := options_of opts in
  {| t_version := v; t_ittl := ittl; t_olen := olen; t_mss := spec_mss items;
     t_wsize := detect_win_multiplicator (th_win th) (match spec_mss items with Some m => m | None => 0 end)
                  (min_total_header v) (has_ts items) v;      (* `hdr` (words / 40) only reaches mtu.rs now *)
     t_wscale := spec_wscale items; t_olayout := spec_layout items;
     t_quirks := code_quirks q0 th items;
     t_pclass := if plen =? 0 then PZero else PNonZero |}.
Definition code_tcp_len (th : tcp_hdr) : N := let tl := th_doff th * 4 in if 20 <? tl then tl - 20 else tl.
Definition code_pkg (v : ip_version) (ittl : ttl) (olen hdr hbytes : N) (q0 : list quirk) (th : tcp_hdr) (opts : bytes) (plen : N)
  : res tcp_package :=
  match spec_role (th_flags th) with
  | RInvalid => Err
  | r => let client := match r with RClient => true | _ => false end in
         let sig := code_sig v ittl olen hdr q0 th opts plen in
         Ok {| tcp_request := if client then Some sig else None;
               tcp_response := if client then None else Some sig;
               pkg_mtu := if client then
                            match spec_mss (options_of opts) with
                            | Some m => Some (sat16 (sat16 (m + hbytes) + code_tcp_len th))
                            | None => None end
                          else None |}
  end.

Lemma visit_tcp_nf t th opts plen v ittl hdr olen q0 :
  decode_tcp t = Some (th, opts, plen) -> v <> IpAny ->
  forallb good_item (options_of opts) = true ->
  visit_tcp t v ittl hdr olen q0
  = code_pkg v ittl olen hdr (match v with IpV4 => sat16 (hdr * 4) | _ => hdr end) q0 th opts plen.
Proof.
  intros HD Hv HG. destruct (decode_tcp_inv _ _ _ _ HD) as (L20 & D5 & DL & D16 & Hth & Hopts & Hplen).
  assert (Hdoff : tcp_data_offset t = th_doff th) by (rewrite Hth; reflexivity).
  assert (Hflags : tcp_flags t = th_flags th) by (rewrite Hth; reflexivity).
  unfold visit_tcp, code_pkg. rewrite Hflags.
  assert (Hf : exists b : byte, th_flags th = b2n b) by (rewrite Hth; cbn [th_flags]; apply byte_at_is_byte).
  destruct Hf as [b Hb]. rewrite Hb.
  rewrite role_valid.
  destruct (spec_role (b2n b)) eqn:R; cbn [negb]; [reflexivity| | |].
  all: rewrite tcp_options_raw_wf by (rewrite ?Hdoff; assumption); rewrite Hdoff, <- Hopts.
  all: unfold options_of in HG.
  all: rewrite (walk_items (N.land (b2n b) TYPE_MASK) (length opts) opts _ (S (length opts))) by (auto; exact HG).
  all: rewrite fold_items; cbn [w_mss w_wscale w_olayout w_quirks app].
  all: assert (RC : from_client (b2n b) = match spec_role (b2n b) with RClient => true | _ => false end)
        by (apply role_client; rewrite role_valid, R; reflexivity).
  all: rewrite RC, R; cbn [negb].
  all: rewrite has_ts_layout by
        (clear - HG; induction (parse_opts (length opts) opts) as [|i l IH]; [reflexivity|];
         cbn [forallb opts_bad existsb] in *; apply andb_true_iff in HG; destruct HG as [G1 G2];
         fold (opts_bad l); rewrite IH by exact G2; destruct i; try discriminate; reflexivity).
  all: rewrite tcp_pclass_wf by (rewrite ?Hdoff; assumption); rewrite Hdoff, <- Hplen.
  all: unfold code_sig, code_quirks, options_of, spec_mss, spec_wscale, spec_layout, hqt_of, ty_of.
  all: rewrite <- Hb.
  all: pose proof (tcp_header_quirks_bits t) as HQ; cbv zeta in HQ; rewrite HQ; clear HQ.
  all: replace (byte_at t 13) with (th_flags th) by (rewrite Hth; reflexivity).
  all: replace (N.odd (byte_at t 12)) with (th_ns th) by (rewrite Hth; reflexivity).
  all: replace (be32_at t 4) with (th_seq th) by (rewrite Hth; reflexivity).
  all: replace (be32_at t 8) with (th_ack th) by (rewrite Hth; reflexivity).
  all: replace (be16_at t 18) with (th_urg th) by (rewrite Hth; reflexivity).
  all: replace (tcp_window t) with (th_win th) by (rewrite Hth; reflexivity).
  all: f_equal; f_equal.
  (* client: the MTU *)
  destruct (fold_left (fun acc i => match i with IMss v0 => Some v0 | _ => acc end) (parse_opts (length opts) opts) None) as [m|];
    [|destruct v; reflexivity].
  assert (SY : N.land (tcp_flags t) SYN =? SYN = true).
  { rewrite Hflags, Hb, syn_eq_bits. clear - R. revert R. destruct b; vm_compute; congruence. }
  assert (TL : mtu_tcp_header_len t = code_tcp_len th).
  { unfold mtu_tcp_header_len, code_tcp_len, sat16. rewrite Hdoff.
    replace (N.min (th_doff th * 4) 65535) with (th_doff th * 4) by lia. reflexivity. }
  destruct v; [| |congruence]; unfold extract_from_ipv4, extract_from_ipv6; rewrite SY, TL; reflexivity.
Qed.

(* ---------------- from the normal form to the SPEC ---------------- *)
(* `K7 s = false` says no more than: the window field is a 16-bit value (the former class K7 was repaired; the
   hypothesis keeps its place for Proofs/ReachObs.v) *)
Lemma win_u16_K7 (s : segment) : th_win (sg_tcp s) < 65536 -> K7 s = false.
Proof. intros H. unfold K7, win_overflow. lia. Qed.

Lemma code_sig_spec (s : segment) (q0 : list quirk) :
  let ip := sg_ip s in let th := sg_tcp s in let items := options_of (sg_opts s) in
  ih_ver ip <> IpAny -> ih_ttl ip < 256 -> 0 < code_hdr s ->
  (forall q, memq q (code_quirks q0 th items) = quirk_holds s items q) ->
  K4_of (code_quirks q0 th items) = false -> K7 s = false ->
  code_sig (ih_ver ip) (calculate_ttl (ih_ttl ip)) (match ih_ver ip with IpV4 => ih_hlen ip - 20 | _ => 0 end)
           (code_hdr s) q0 th (sg_opts s) (sg_payload_len s)
  = spec_sig s.
Proof.
  intros ip th items Hv Ht Hh HM HK4 HK7.
  unfold code_sig, spec_sig. fold ip th items.
  f_equal.
  - apply ittl_spec. exact Ht.
  - unfold K7, win_overflow in HK7. fold th in HK7.
    destruct (spec_mss items) as [m|] eqn:M.
    + apply window_spec; [exact Hv | lia].
    + apply window_spec_nomss.
  - apply quirks_eq; assumption.
Qed.

Lemma core (db : list (bytes * list N)) (s : segment) (q0 : list quirk) :
  let ip := sg_ip s in let th := sg_tcp s in let items := options_of (sg_opts s) in
  let model := observable_package db
                 (code_pkg (ih_ver ip) (calculate_ttl (ih_ttl ip)) (match ih_ver ip with IpV4 => ih_hlen ip - 20 | _ => 0 end)
                           (code_hdr s) (ih_hlen ip) q0 th (sg_opts s) (sg_payload_len s)) in
  ih_ver ip <> IpAny -> ih_ttl ip < 256 -> 0 < code_hdr s -> ih_fragment ip = false -> th_win th < 65536 ->
  (forall q, memq q (code_quirks q0 th items) = quirk_holds s items q) ->
  known s model = false ->
  model = render db s.
Proof.
  intros ip th items model Hv Ht Hh Hfr Hw HM HK. apply win_u16_K7 in Hw.
  subst model items. unfold known, reportable in HK. subst ip th. rewrite Hfr in HK. cbn [negb andb] in HK.
  unfold render, code_pkg in *. rewrite Hfr.
  destruct (spec_role (th_flags (sg_tcp s))) eqn:R.
  - reflexivity.
  - (* client *)
    cbn [andb] in HK. repeat (apply orb_false_iff in HK; destruct HK as [HK ?]).
    cbn [observable_package tcp_request tcp_response pkg_mtu].
    match goal with H : K4 _ = false |- _ => unfold K4 in H; cbn [observable_package out_quirks o_syn tcp_request] in H;
      unfold code_sig at 1 in H; cbn [t_quirks] in H; rename H into HK4 end.
    rewrite (code_sig_spec s q0) by assumption.
    match goal with H : K2 s = false |- _ => unfold K2 in H; rewrite R in H; rename H into HK2 end.
    change (t_mss (spec_sig s)) with (spec_mss (options_of (sg_opts s))).
    destruct (spec_mss (options_of (sg_opts s))) as [m|] eqn:M; cbn [option_map]; [|reflexivity].
    apply negb_false_iff in HK2. unfold code_mtu in HK2.
    unfold code_tcp_len.
    replace (sat16 (sat16 (m + ih_hlen (sg_ip s)) + (if 20 <? th_doff (sg_tcp s) * 4 then th_doff (sg_tcp s) * 4 - 20 else th_doff (sg_tcp s) * 4)))
      with (m + min_headers (ih_ver (sg_ip s))) by lia.
    rewrite link_spec. reflexivity.
  - (* server *)
    cbn [andb] in HK. repeat (apply orb_false_iff in HK; destruct HK as [HK ?]).
    cbn [observable_package tcp_request tcp_response pkg_mtu].
    match goal with H : K4 _ = false |- _ => unfold K4 in H; cbn [observable_package out_quirks o_syn o_synack tcp_request tcp_response] in H;
      unfold code_sig at 1 in H; cbn [t_quirks] in H; rename H into HK4 end.
    rewrite (code_sig_spec s q0) by assumption. reflexivity.
  - (* neither: K3 *)
    cbn [andb] in HK. unfold K3 in HK. rewrite R in HK.
    repeat (rewrite ?orb_true_r, ?orb_true_l in HK). discriminate.
Qed.

Lemma core' (db : list (bytes * list N)) (s : segment) (q0 : list quirk) v ittl olen hdr hbytes th opts plen :
  v = ih_ver (sg_ip s) -> ittl = calculate_ttl (ih_ttl (sg_ip s)) ->
  olen = match ih_ver (sg_ip s) with IpV4 => ih_hlen (sg_ip s) - 20 | _ => 0 end ->
  hdr = code_hdr s -> hbytes = ih_hlen (sg_ip s) -> th = sg_tcp s -> opts = sg_opts s -> plen = sg_payload_len s ->
  ih_ver (sg_ip s) <> IpAny -> ih_ttl (sg_ip s) < 256 -> 0 < code_hdr s -> ih_fragment (sg_ip s) = false ->
  th_win (sg_tcp s) < 65536 ->
  (forall q, memq q (code_quirks q0 (sg_tcp s) (options_of (sg_opts s))) = quirk_holds s (options_of (sg_opts s)) q) ->
  known s (observable_package db (code_pkg v ittl olen hdr hbytes q0 th opts plen)) = false ->
  observable_package db (code_pkg v ittl olen hdr hbytes q0 th opts plen) = render db s.
Proof. intros; subst. apply core; assumption. Qed.

(* ---------------- quirk_<q>_iff, all 17, per IP version (outside K5) ---------------- *)
Lemma quirk_members_v4 (s : segment) :
  let ip := sg_ip s in let th := sg_tcp s in let items := options_of (sg_opts s) in
  ih_ver ip = IpV4 -> ih_flow ip = 0 -> K5 s = false ->
  (ty_of th =? SYN) = syn_only (th_flags th) ->
  forall q, memq q (code_quirks (hq4 (negb (ih_tos_ecn ip =? 0)) (ih_mbz ip) (ih_df ip) (ih_id ip =? 0)) th items)
            = quirk_holds s items q.
Proof.
  intros ip th items Hv Hfl HK5 Hty q. subst ip th items.
  unfold K5 in HK5. apply orb_false_iff in HK5. destruct HK5 as [HB HNS].
  unfold code_quirks, hqt_of. rewrite !memq_app, memq_hq4, memq_hqt, memq_optq, Hty.
  unfold quirk_holds. rewrite Hv, Hfl, HB.
  destruct q; rewrite ?orb_false_r; try reflexivity.
  destruct (negb (ih_tos_ecn (sg_ip s) =? 0)), (fECE (th_flags (sg_tcp s))), (fCWR (th_flags (sg_tcp s))), (th_ns (sg_tcp s));
    try reflexivity; discriminate.
Qed.

Lemma quirk_members_v6 (s : segment) :
  let ip := sg_ip s in let th := sg_tcp s in let items := options_of (sg_opts s) in
  ih_ver ip = IpV6 -> ih_df ip = false -> ih_mbz ip = false -> K5 s = false ->
  (ty_of th =? SYN) = syn_only (th_flags th) ->
  forall q, memq q (code_quirks (hq6 (negb (ih_flow ip =? 0)) (negb (ih_tos_ecn ip =? 0))) th items)
            = quirk_holds s items q.
Proof.
  intros ip th items Hv Hdf Hmbz HK5 Hty q. subst ip th items.
  unfold K5 in HK5. apply orb_false_iff in HK5. destruct HK5 as [HB HNS].
  unfold code_quirks, hqt_of. rewrite !memq_app, memq_hq6, memq_hqt, memq_optq, Hty.
  unfold quirk_holds. rewrite Hv, Hdf, Hmbz, HB.
  destruct q; rewrite ?orb_false_r; try reflexivity.
  destruct (negb (ih_tos_ecn (sg_ip s) =? 0)), (fECE (th_flags (sg_tcp s))), (fCWR (th_flags (sg_tcp s))), (th_ns (sg_tcp s));
    try reflexivity; discriminate.
Qed.

(* ---------------- visit_tcp on an invalid flag combination ---------------- *)
Lemma visit_tcp_invalid t v ittl hdr olen q0 :
  spec_role (tcp_flags t) = RInvalid -> visit_tcp t v ittl hdr olen q0 = Err.
Proof.
  intros R. unfold visit_tcp. unfold tcp_flags, byte_at in *. rewrite role_valid, R. reflexivity.
Qed.

Lemma ty_syn_only th : th_flags th < 256 -> (ty_of th =? SYN) = syn_only (th_flags th).
Proof.
  intros H. unfold ty_of. rewrite <- (b2n_n2b (th_flags th)) by exact H. apply tcp_type_syn_bits.
Qed.

Lemma good_of_known (s : segment) : K1 s = false -> K5 s = false -> forallb good_item (options_of (sg_opts s)) = true.
Proof.
  intros H1 H5. unfold K5 in H5. apply orb_false_iff in H5. destruct H5 as [HB _].
  apply good_items; assumption.
Qed.

(* ---------------- IPv4 ---------------- *)
Lemma decode4_inv p s : decode4 p = Some s ->
  let ihl := byte_at p 0 mod 16 in let total := be16_at p 2 in
  20 <= blen p /\ 5 <= ihl /\ ihl < 16 /\ ihl * 4 <= total /\ total <= blen p /\ byte_at p 9 = 6
  /\ decode_tcp (slice p (ihl * 4) total) = Some (sg_tcp s, sg_opts s, sg_payload_len s)
  /\ sg_ip s = {| ih_ver := IpV4; ih_hlen := ihl * 4; ih_ttl := byte_at p 8; ih_tos_ecn := byte_at p 1 mod 4;
                  ih_df := bit (byte_at p 6) 6; ih_mbz := bit (byte_at p 6) 7; ih_id := be16_at p 4;
                  ih_fragment := bit (byte_at p 6) 5 || negb ((byte_at p 6 mod 32) * 256 + byte_at p 7 =? 0);
                  ih_flow := 0 |}.
Proof.
  intros H. cbv zeta. unfold decode4 in H. cbv zeta in H.
  set (ihl := byte_at p 0 mod 16) in *. set (total := be16_at p 2) in *.
  destruct ((20 <=? blen p) && (byte_at p 0 / 16 =? 4) && (5 <=? ihl) && (ihl * 4 <=? total) && (total <=? blen p)
            && (byte_at p 9 =? 6)) eqn:C; [|discriminate].
  destruct (decode_tcp (slice p (ihl * 4) total)) as [[[th opts] plen]|] eqn:DT; [|discriminate].
  inversion H; subst; clear H. cbn [sg_tcp sg_opts sg_payload_len sg_ip].
  assert (ihl < 16) by (unfold ihl; lia).
  repeat split; try lia.
Qed.

Lemma v4_payload_wf p : let ihl := byte_at p 0 mod 16 in let total := be16_at p 2 in
  5 <= ihl -> ihl * 4 < total -> total <= blen p -> v4_payload p = slice p (ihl * 4) total.
Proof.
  cbv zeta. set (ihl := byte_at p 0 mod 16). set (total := be16_at p 2). intros H5 Ht Hl.
  unfold v4_payload, payload_bounded, ipv4_options_length, ipv4_payload_length, v4_header_length, v4_total_length, sat_sub.
  fold ihl total.
  replace (blen p <=? 20 + (ihl * 4 - 20)) with false by lia.
  f_equal; lia.
Qed.

Theorem model_spec_v4 (db : list (bytes * list N)) (p : bytes) (s : segment) :
  decode4 p = Some s -> known s (process_ipv4_packet db p) = false ->
  process_ipv4_packet db p = render db s.
Proof.
  intros HD. pose proof (decode4_inv p s HD) as INV. cbv zeta in INV.
  destruct INV as (L20 & I5 & I16 & IT & TL & PR & DT & HIP).
  set (ihl := byte_at p 0 mod 16) in *. set (total := be16_at p 2) in *.
  destruct (decode_tcp_inv _ _ _ _ DT) as (S20 & D5 & DL & D16 & Hth & Hopts & Hplen).
  assert (BS : blen (slice p (ihl * 4) total) = total - ihl * 4) by (apply blen_slice; lia).
  assert (PW : v4_payload p = slice p (ihl * 4) total) by (apply v4_payload_wf; fold ihl total; lia).
  assert (Hfl : th_flags (sg_tcp s) < 256) by (rewrite Hth; cbn [th_flags]; apply byte_at_lt).
  (* the model up to visit_tcp *)
  assert (M1 : process_ipv4_packet db p =
               if ih_fragment (sg_ip s) then Err
               else observable_package db (visit_tcp (slice p (ihl * 4) total) IpV4 (calculate_ttl (ih_ttl (sg_ip s)))
                       ihl (ihl * 4 - 20) (ipv4_quirks p))).
  { unfold process_ipv4_packet, process_tcp_ipv4. rewrite PW.
    replace (blen (slice p (ihl * 4) total) <? tcp_min) with false by (unfold tcp_min; lia).
    unfold v4_protocol. rewrite PR. cbn [negb N.eqb]. change (negb (6 =? PROTO_TCP)) with false. cbv iota.
    rewrite HIP. cbn [ih_fragment ih_ttl].
    replace ((0 <? v4_fragment_offset p) || (N.land (v4_flags p) MoreFragments =? MoreFragments))
      with (bit (byte_at p 6) 5 || negb ((byte_at p 6 mod 32) * 256 + byte_at p 7 =? 0)).
    2:{ unfold v4_fragment_offset, v4_flags.
        assert (MF : (N.land (byte_at p 6 / 32) MoreFragments =? MoreFragments) = bit (byte_at p 6) 5)
          by (unfold byte_at; apply v4_mf_bits).
        rewrite MF, orb_comm. f_equal. lia. }
    destruct (bit (byte_at p 6) 5 || negb ((byte_at p 6 mod 32) * 256 + byte_at p 7 =? 0)); [reflexivity|].
    rewrite olen_spec by (unfold v4_header_length; fold ihl; exact I5).
    unfold v4_ttl, v4_header_length. fold ihl. reflexivity. }
  rewrite M1. clear M1.
  assert (F1 : IpV4 = ih_ver (sg_ip s)) by (rewrite HIP; reflexivity).
  assert (F2 : ihl * 4 - 20 = match ih_ver (sg_ip s) with IpV4 => ih_hlen (sg_ip s) - 20 | _ => 0 end)
    by (rewrite HIP; reflexivity).
  assert (F3 : ihl = code_hdr s)
    by (unfold code_hdr; rewrite HIP; cbn [ih_ver ih_hlen]; rewrite N.div_mul by lia; reflexivity).
  assert (F4 : sat16 (ihl * 4) = ih_hlen (sg_ip s)) by (rewrite HIP; cbn [ih_hlen]; unfold sat16; lia).
  assert (F5 : ih_ver (sg_ip s) <> IpAny) by (rewrite <- F1; discriminate).
  assert (F6 : ih_ttl (sg_ip s) < 256) by (rewrite HIP; cbn [ih_ttl]; apply byte_at_lt).
  assert (F7 : 0 < code_hdr s) by (rewrite <- F3; lia).
  assert (F8 : ih_ver (sg_ip s) = IpV4) by (symmetry; exact F1).
  assert (F9 : ih_flow (sg_ip s) = 0) by (rewrite HIP; reflexivity).
  assert (F11 : th_win (sg_tcp s) < 65536) by (rewrite Hth; cbn [th_win]; apply be16_at_lt).
  destruct (ih_fragment (sg_ip s)) eqn:FR.
  { intros _. unfold render. rewrite FR. reflexivity. }
  destruct (spec_role (th_flags (sg_tcp s))) eqn:R.
  { intros _. rewrite visit_tcp_invalid by (rewrite Hth in R; exact R).
    unfold render. rewrite FR, R. reflexivity. }
  all: intros HK; assert (HK' := HK); unfold known, reportable in HK'; rewrite FR, R in HK'; cbn [negb andb] in HK';
       repeat (apply orb_false_iff in HK'; destruct HK' as [HK' ?]).
  all: rewrite (visit_tcp_nf _ _ _ _ IpV4 _ _ _ _ DT) in HK |- * by (try congruence; apply good_of_known; assumption).
  all: rewrite ipv4_quirks_bits in HK |- *.
  all: apply core'; first [exact F1 | exact F2 | exact F3 | exact F4 | exact F5 | exact F6 | exact F7 | exact F11 | exact HK | exact FR
                          | reflexivity | idtac].
  all: replace (byte_at p 1 mod 4) with (ih_tos_ecn (sg_ip s)) by (rewrite HIP; reflexivity);
       replace (bit (byte_at p 6) 7) with (ih_mbz (sg_ip s)) by (rewrite HIP; reflexivity);
       replace (bit (byte_at p 6) 6) with (ih_df (sg_ip s)) by (rewrite HIP; reflexivity);
       replace (be16_at p 4) with (ih_id (sg_ip s)) by (rewrite HIP; reflexivity).
  all: apply quirk_members_v4; first [exact F8 | exact F9 | assumption | (apply ty_syn_only; exact Hfl)].
Qed.

(* ---------------- IPv6 ---------------- *)
Lemma decode6_inv p s : decode6 p = Some s ->
  40 <= blen p /\ 40 + be16_at p 4 <= blen p /\ byte_at p 6 = 6
  /\ decode_tcp (slice p 40 (40 + be16_at p 4)) = Some (sg_tcp s, sg_opts s, sg_payload_len s)
  /\ sg_ip s = {| ih_ver := IpV6; ih_hlen := 40; ih_ttl := byte_at p 7; ih_tos_ecn := (byte_at p 1 / 16) mod 4;
                  ih_df := false; ih_mbz := false; ih_id := 0; ih_fragment := false;
                  ih_flow := (byte_at p 1 mod 16) * 65536 + be16_at p 2 |}.
Proof.
  intros H. unfold decode6 in H. cbv zeta in H.
  destruct ((40 <=? blen p) && (byte_at p 0 / 16 =? 6) && (40 + be16_at p 4 <=? blen p) && (byte_at p 6 =? 6)) eqn:C;
    [|discriminate].
  destruct (decode_tcp (slice p 40 (40 + be16_at p 4))) as [[[th opts] plen]|] eqn:DT; [|discriminate].
  inversion H; subst; clear H. cbn [sg_tcp sg_opts sg_payload_len sg_ip].
  repeat split; try lia.
Qed.

Lemma v6_payload_wf p : 40 + be16_at p 4 <= blen p -> 0 < be16_at p 4 -> v6_payload p = slice p 40 (40 + be16_at p 4).
Proof.
  intros H H0. unfold v6_payload, payload_bounded, v6_payload_length.
  replace (blen p <=? 40) with false by lia. f_equal; lia.
Qed.

Theorem model_spec_v6 (db : list (bytes * list N)) (p : bytes) (s : segment) :
  decode6 p = Some s -> known s (process_ipv6_packet db p) = false ->
  process_ipv6_packet db p = render db s.
Proof.
  intros HD. destruct (decode6_inv p s HD) as (L40 & PL & NH & DT & HIP).
  destruct (decode_tcp_inv _ _ _ _ DT) as (S20 & D5 & DL & D16 & Hth & Hopts & Hplen).
  assert (BS : blen (slice p 40 (40 + be16_at p 4)) = be16_at p 4) by (rewrite blen_slice by lia; lia).
  assert (PW : v6_payload p = slice p 40 (40 + be16_at p 4)) by (apply v6_payload_wf; lia).
  assert (Hfl : th_flags (sg_tcp s) < 256) by (rewrite Hth; cbn [th_flags]; apply byte_at_lt).
  assert (FR : ih_fragment (sg_ip s) = false) by (rewrite HIP; reflexivity).
  assert (M1 : process_ipv6_packet db p =
               observable_package db (visit_tcp (slice p 40 (40 + be16_at p 4)) IpV6 (calculate_ttl (ih_ttl (sg_ip s)))
                       40 0 (ipv6_quirks p))).
  { unfold process_ipv6_packet, process_tcp_ipv6. rewrite PW.
    replace (blen (slice p 40 (40 + be16_at p 4)) <? tcp_min) with false by (unfold tcp_min; lia).
    unfold v6_next_header. rewrite NH. change (negb (6 =? PROTO_TCP)) with false. cbv iota.
    rewrite HIP. cbn [ih_ttl]. reflexivity. }
  rewrite M1. clear M1.
  assert (F1 : IpV6 = ih_ver (sg_ip s)) by (rewrite HIP; reflexivity).
  assert (F3 : 40 = code_hdr s) by (unfold code_hdr; rewrite HIP; reflexivity).
  assert (F5 : ih_ver (sg_ip s) <> IpAny) by (rewrite <- F1; discriminate).
  assert (F6 : ih_ttl (sg_ip s) < 256) by (rewrite HIP; cbn [ih_ttl]; apply byte_at_lt).
  assert (F7 : 0 < code_hdr s) by (rewrite <- F3; lia).
  assert (F8 : ih_ver (sg_ip s) = IpV6) by (symmetry; exact F1).
  assert (F9 : ih_df (sg_ip s) = false) by (rewrite HIP; reflexivity).
  assert (F10 : ih_mbz (sg_ip s) = false) by (rewrite HIP; reflexivity).
  assert (F11 : th_win (sg_tcp s) < 65536) by (rewrite Hth; cbn [th_win]; apply be16_at_lt).
  destruct (spec_role (th_flags (sg_tcp s))) eqn:R.
  { intros _. rewrite visit_tcp_invalid by (rewrite Hth in R; exact R).
    unfold render. rewrite FR, R. reflexivity. }
  all: intros HK; assert (HK' := HK); unfold known, reportable in HK'; rewrite FR, R in HK'; cbn [negb andb] in HK';
       repeat (apply orb_false_iff in HK'; destruct HK' as [HK' ?]).
  all: rewrite (visit_tcp_nf _ _ _ _ IpV6 _ _ _ _ DT) in HK |- * by (try congruence; apply good_of_known; assumption).
  all: rewrite ipv6_quirks_bits in HK |- *.
  all: apply core'; first [exact F1 | exact F3 | exact F5 | exact F6 | exact F7 | exact F11 | exact HK | exact FR
                          | (rewrite HIP; reflexivity) | reflexivity | idtac].
  all: replace ((byte_at p 1 / 16) mod 4) with (ih_tos_ecn (sg_ip s)) by (rewrite HIP; reflexivity);
       replace ((byte_at p 1 mod 16) * 65536 + be16_at p 2) with (ih_flow (sg_ip s)) by (rewrite HIP; reflexivity).
  all: apply quirk_members_v6; first [exact F8 | exact F9 | exact F10 | assumption | (apply ty_syn_only; exact Hfl)].
Qed.

(* ---------------- the printed form ---------------- *)
Lemma model_spec_v4_shown db p s :
  decode4 p = Some s -> known s (process_ipv4_packet db p) = false ->
  show_out (process_ipv4_packet db p) = show_out (render db s).
Proof. intros H1 H2. f_equal. apply model_spec_v4; assumption. Qed.
Lemma model_spec_v6_shown db p s :
  decode6 p = Some s -> known s (process_ipv6_packet db p) = false ->
  show_out (process_ipv6_packet db p) = show_out (render db s).
Proof. intros H1 H2. f_equal. apply model_spec_v6; assumption. Qed.

(* pclass_spec and role_spec on a segment that decodes *)
Lemma pclass_spec t th opts plen : decode_tcp t = Some (th, opts, plen) ->
  match tcp_payload t with [] => PZero | _ => PNonZero end = if plen =? 0 then PZero else PNonZero.
Proof.
  intros HD. destruct (decode_tcp_inv _ _ _ _ HD) as (L20 & D5 & DL & D16 & Hth & Hopts & Hplen).
  assert (Hdoff : tcp_data_offset t = th_doff th) by (rewrite Hth; reflexivity).
  rewrite tcp_pclass_wf by (rewrite ?Hdoff; assumption). rewrite Hdoff, <- Hplen. reflexivity.
Qed.
Lemma role_spec (f : N) : f < 256 ->
  is_valid f (N.land f TYPE_MASK) = match spec_role f with RInvalid => false | _ => true end
  /\ (is_valid f (N.land f TYPE_MASK) = true ->
      from_client f = match spec_role f with RClient => true | _ => false end).
Proof.
  intros H. rewrite <- (b2n_n2b f) by exact H. split; [apply role_valid | apply role_client].
Qed.

(* mtu_spec: the one header geometry in which mtu.rs yields MSS + minimal headers: minimal IP header and
   exactly 20 bytes of TCP options (data offset 10); K2 is the complement, computed exactly *)
Lemma mtu_spec (s : segment) (m : N) :
  th_doff (sg_tcp s) = 10 -> ih_hlen (sg_ip s) + 20 = min_headers (ih_ver (sg_ip s)) ->
  m + min_headers (ih_ver (sg_ip s)) <= 65535 ->
  code_mtu s m = m + min_headers (ih_ver (sg_ip s)).
Proof.
  intros H1 H2 H3. unfold code_mtu, sat16. rewrite H1.
  replace (10 * 4) with 40 by lia. change (20 <? 40) with true. cbv iota. lia.
Qed.
