(* C18-T1: what each packet_hash.rs feeds to the hasher is determined by the connection identity
   the analyzer reports; hence so is the worker index, for any hasher and any worker count. *)
From Coq Require Import List NArith Bool Arith Lia ZifyBool ZifyN ZifyNat.
From Coq Require Import Strings.Byte.
From HN Require Import Base.Bytes Model.Filter Model.RawFrame Model.Hash Spec.HashSpec Proofs.RawFrameProofs.
Import ListNotations.
Open Scope N_scope.
Local Arguments skipn : simpl never.
Local Arguments firstn : simpl never.

(* ---------- big-endian numbers of equal length are equal only for equal bytes ---------- *)
Lemma b2n_inj x y : b2n x = b2n y -> x = y.
Proof. intros H. rewrite <- (n2b_b2n x), <- (n2b_b2n y). now rewrite H. Qed.

Lemma be_N_inj : forall n a b, length a = n -> length b = n -> be_N a = be_N b -> a = b.
Proof.
  induction n as [|n IH]; intros a b Ha Hb He.
  - destruct a, b; try discriminate; reflexivity.
  - destruct (exists_last (l := a)) as (a' & x & ->); [intros ->; discriminate|].
    destruct (exists_last (l := b)) as (b' & y & ->); [intros ->; discriminate|].
    rewrite app_length in Ha, Hb. cbn [length] in Ha, Hb.
    rewrite !be_N_app in He. pose proof (b2n_lt x). pose proof (b2n_lt y).
    assert (be_N a' = be_N b' /\ b2n x = b2n y) as [H1 H2] by lia.
    f_equal; [apply IH; lia || exact H1 | f_equal; now apply b2n_inj].
Qed.

Lemma slice_length f s n : (s + n <= length f)%nat -> length (slice f s n) = n.
Proof. intros H. unfold slice. rewrite firstn_length, skipn_length. lia. Qed.

(* `a` is the wire form of address `x` *)
Definition addr_bytes (a : bytes) (x : ip) : Prop :=
  (x = V4 (be_N a) /\ length a = 4%nat) \/ (x = V6 (be_N a) /\ length a = 16%nat).

Lemma addr_bytes_inj a b x : addr_bytes a x -> addr_bytes b x -> a = b.
Proof.
  intros [[-> La]|[-> La]] [[Hb Lb]|[Hb Lb]]; try discriminate; injection Hb as Hb.
  - apply (be_N_inj 4); auto.
  - apply (be_N_inj 16); auto.
Qed.

Lemma addr_bytes_len a b x y : addr_bytes a x -> addr_bytes b y ->
  (exists u v, x = V4 u /\ y = V4 v) \/ (exists u v, x = V6 u /\ y = V6 v) -> length a = length b.
Proof.
  intros [[-> La]|[-> La]] [[-> Lb]|[-> Lb]] [(u & v & Hu & Hv)|(u & v & Hu & Hv)]; try discriminate; lia.
Qed.

(* ---------- where the hash functions find the IP header ---------- *)
(* the hash functions decide the framing as try_ethernet_format does *)
Lemma ip_start_eth f v : try_ethernet_format f = Some v -> ip_start f = 14%nat.
Proof.
  unfold try_ethernet_format, ip_start, ET_IPV4, ET_IPV6.
  destruct (length f <? 14)%nat eqn:El; [discriminate|]. rewrite skipn_length.
  destruct (ethertype f =? 2048) eqn:E4.
  - destruct (20 <=? length f - 14)%nat eqn:E; [|discriminate]. intros _.
    destruct (34 <=? length f)%nat eqn:E2; [reflexivity|lia].
  - destruct (ethertype f =? 34525) eqn:E6; [|discriminate].
    destruct (40 <=? length f - 14)%nat eqn:E; [|discriminate]. intros _.
    destruct (54 <=? length f)%nat eqn:E2; [|lia]. cbn. now rewrite orb_true_r.
Qed.

Lemma ip_start_not_eth f : try_ethernet_format f = None -> ip_start f = 0%nat.
Proof.
  unfold try_ethernet_format, ip_start, ET_IPV4, ET_IPV6.
  destruct (length f <? 14)%nat eqn:El.
  - intros _. destruct (34 <=? length f)%nat eqn:E1; [lia|]. destruct (54 <=? length f)%nat eqn:E2; [lia|]. reflexivity.
  - rewrite skipn_length.
    destruct (ethertype f =? 2048) eqn:E4.
    + destruct (20 <=? length f - 14)%nat eqn:E; [discriminate|]. intros _.
      destruct (34 <=? length f)%nat eqn:E1; [lia|].
      destruct (ethertype f =? 34525) eqn:E6; [lia|]. now rewrite andb_false_r.
    + destruct (ethertype f =? 34525) eqn:E6.
      * destruct (40 <=? length f - 14)%nat eqn:E; [discriminate|]. intros _.
        destruct (54 <=? length f)%nat eqn:E2; [lia|]. now rewrite andb_false_r.
      * intros _. now rewrite !andb_false_r.
Qed.

(* the former known class is empty *)
Lemma raw_as_ethernet_empty f : raw_as_ethernet f = false.
Proof.
  unfold raw_as_ethernet, parse_path, parse_packet.
  destruct (try_ethernet_format f) as [v|] eqn:Eeth; [reflexivity|].
  rewrite (ip_start_not_eth f Eeth).
  destruct (try_raw_ip_format f); cbn [option_map fst]; [now rewrite andb_false_r|].
  destruct (try_null_format f); reflexivity.
Qed.

Lemma hash_framing f e :
  analyzer_endpoints f = Some e -> c18_dom f = true ->
  exists l v ip, parse_packet f = Some (l, v) /\ view_endpoints v = Some e /\
    skipn (ip_start f) f = ip /\ length f = (ip_start f + length ip)%nat /\
    ((v = View4 ip /\ version_of ip = 4) \/ (v = View6 ip /\ version_of ip = 6)).
Proof.
  unfold c18_dom, parse_path, version_consistent.
  unfold analyzer_endpoints.
  destruct (parse_packet f) as [[l v]|] eqn:Ep; [|discriminate].
  intros Hv. cbn [option_map fst].
  revert Ep. unfold parse_packet.
  destruct (try_ethernet_format f) as [v1|] eqn:Eeth.
  - (* Ethernet *)
    intros H; injection H as <- <-. intros Hdom.
    pose proof (ip_start_eth f v1 Eeth) as Hs.
    revert Eeth. unfold try_ethernet_format.
    destruct (length f <? 14)%nat eqn:El; [discriminate|].
    destruct (ethertype f =? ET_IPV4) eqn:E4.
    + destruct (20 <=? length (skipn 14 f))%nat eqn:E20; [|discriminate].
      intros H; injection H as H; subst v1; cbn iota in Hdom.
      exists LEth, (View4 (skipn 14 f)), (skipn 14 f). rewrite Hs.
      repeat split; auto. { rewrite skipn_length. lia. } left. split; [reflexivity|lia].
    + destruct (ethertype f =? ET_IPV6) eqn:E6; [|discriminate].
      destruct (40 <=? length (skipn 14 f))%nat eqn:E40; [|discriminate].
      intros H; injection H as H; subst v1; cbn iota in Hdom.
      exists LEth, (View6 (skipn 14 f)), (skipn 14 f). rewrite Hs.
      repeat split; auto. { rewrite skipn_length. lia. } right. split; [reflexivity|lia].
  - pose proof (ip_start_not_eth f Eeth) as Hs.
    destruct (try_raw_ip_format f) as [v2|] eqn:Eraw.
    + (* raw IP *)
      intros H; injection H as <- <-. intros _.
      revert Eraw. unfold try_raw_ip_format.
      destruct (length f <? 20)%nat; [discriminate|].
      destruct (version_of f =? 4) eqn:E4.
      * intros H; injection H as <-. exists LRaw, (View4 f), f. rewrite Hs.
        repeat split; auto. left. split; [reflexivity|lia].
      * destruct (version_of f =? 6) eqn:E6; [|discriminate].
        destruct (40 <=? length f)%nat; [|discriminate].
        intros H; injection H as <-. exists LRaw, (View6 f), f. rewrite Hs.
        repeat split; auto. right. split; [reflexivity|lia].
    + destruct (try_null_format f) as [v3|]; [|discriminate].
      intros H; injection H as <- <-. discriminate.
Qed.

(* ---------- per crate: the hashed value in terms of the analyzer's endpoints ---------- *)
Lemma v4_fields ip e : view_endpoints (View4 ip) = Some e ->
  (40 <= length ip)%nat /\ byte_at ip 9 = 6 /\
  addr_bytes (slice ip 12 4) (e_src e) /\ addr_bytes (slice ip 16 4) (e_dst e) /\
  (4 * Nat.max (ihl_of ip) 5 + 20 <= length ip)%nat /\
  u16_at ip (4 * Nat.max (ihl_of ip) 5) = e_sport e /\
  u16_at ip (4 * Nat.max (ihl_of ip) 5 + 2) = e_dport e.
Proof.
  intros Hv. pose proof (view4_long _ _ Hv) as Hl. revert Hv. cbn [view_endpoints].
  destruct (negb (byte_at ip 9 =? 6)) eqn:Ep; [discriminate|].
  destruct (length (ipv4_payload ip) <? 20)%nat eqn:El; [discriminate|].
  intros H; injection H as <-. cbn [e_src e_dst e_sport e_dport].
  destruct (ipv4_payload_long ip) as (Hlen & Hs & Hd); [lia|].
  repeat split; try lia; auto.
  - left. split; [reflexivity | apply slice_length; lia].
  - left. split; [reflexivity | apply slice_length; lia].
Qed.

Lemma v6_fields ip e : view_endpoints (View6 ip) = Some e ->
  (60 <= length ip)%nat /\ byte_at ip 6 = 6 /\
  addr_bytes (slice ip 8 16) (e_src e) /\ addr_bytes (slice ip 24 16) (e_dst e) /\
  u16_at ip 40 = e_sport e /\ u16_at ip 42 = e_dport e.
Proof.
  intros Hv. pose proof (view6_long _ _ Hv) as Hl. revert Hv. cbn [view_endpoints].
  destruct (negb (byte_at ip 6 =? 6)) eqn:Ep; [discriminate|].
  destruct (length (ipv6_payload ip) <? 20)%nat eqn:El; [discriminate|].
  intros H; injection H as <-. cbn [e_src e_dst e_sport e_dport].
  destruct (ipv6_payload_long ip) as (Hlen & Hs & Hd); [lia|].
  repeat split; try lia; auto.
  - right. split; [reflexivity | apply slice_length; lia].
  - right. split; [reflexivity | apply slice_length; lia].
Qed.

Definition same_family (x y : ip) : Prop :=
  (exists u v, x = V4 u /\ y = V4 v) \/ (exists u v, x = V6 u /\ y = V6 v).

Lemma endpoints_same_family v e : view_endpoints v = Some e -> same_family (e_src e) (e_dst e).
Proof.
  destruct v as [ip|ip]; cbn [view_endpoints].
  - destruct (negb (byte_at ip 9 =? 6)); [discriminate|].
    destruct (length (ipv4_payload ip) <? 20)%nat; [discriminate|].
    intros H; injection H as <-. left. cbn. unfold v4_at. eauto.
  - destruct (negb (byte_at ip 6 =? 6)); [discriminate|].
    destruct (length (ipv6_payload ip) <? 20)%nat; [discriminate|].
    intros H; injection H as <-. right. cbn. unfold v6_at. eauto.
Qed.

Lemma tcp_ident_spec f e :
  analyzer_endpoints f = Some e -> c18_dom f = true ->
  exists a, tcp_ident f = IdBytes a /\ addr_bytes a (e_src e).
Proof.
  intros Ha Hd. destruct (hash_framing f e Ha Hd) as (l & v & ip & _ & Hv & Hip & Hlen & Hver).
  unfold tcp_ident. cbn zeta. rewrite Hip.
  destruct Hver as [[-> Hver]|[-> Hver]]; rewrite Hver.
  - destruct (v4_fields ip e Hv) as (Hl & _ & Hs & _).
    destruct (length f <? ip_start f + 20)%nat eqn:E1; [lia|].
    change (4 =? 4) with true. cbn iota.
    destruct (16 <=? length ip)%nat eqn:E2; [|lia]. eauto.
  - destruct (v6_fields ip e Hv) as (Hl & _ & Hs & _).
    destruct (length f <? ip_start f + 20)%nat eqn:E1; [lia|].
    change (6 =? 4) with false. change (6 =? 6) with true. cbn iota.
    destruct (24 <=? length ip)%nat eqn:E2; [|lia]. eauto.
Qed.

Lemma tls_ident_spec f e :
  analyzer_endpoints f = Some e -> c18_dom f = true ->
  exists a b, tls_ident f = Some (IdFlow a b (e_sport e) (e_dport e)) /\
              addr_bytes a (e_src e) /\ addr_bytes b (e_dst e).
Proof.
  intros Ha Hd. destruct (hash_framing f e Ha Hd) as (l & v & ip & _ & Hv & Hip & Hlen & Hver).
  unfold tls_ident. cbn zeta. rewrite Hip.
  destruct Hver as [[-> Hver]|[-> Hver]]; rewrite Hver.
  - destruct (v4_fields ip e Hv) as (Hl & Hp & Hs & Hdst & Hoff & Hsp & Hdp).
    destruct (length f <? ip_start f + 40)%nat eqn:E1; [lia|].
    change (4 =? 4) with true. cbn iota. unfold tls_ipv4_ident.
    destruct (length ip <? 20)%nat eqn:E2; [lia|]. rewrite Hp. change (6 =? 6) with true. cbn [negb].
    destruct (length ip <? 4 * Nat.max (ihl_of ip) 5 + 4)%nat eqn:E3; [lia|].
    rewrite Hsp, Hdp. eauto.
  - destruct (v6_fields ip e Hv) as (Hl & Hp & Hs & Hdst & Hsp & Hdp).
    destruct (length f <? ip_start f + 40)%nat eqn:E1; [lia|].
    change (6 =? 4) with false. change (6 =? 6) with true. cbn iota. unfold tls_ipv6_ident.
    destruct (length ip <? 40)%nat eqn:E2; [lia|]. rewrite Hp. change (6 =? 6) with true. cbn [negb].
    destruct (length ip <? 44)%nat eqn:E3; [lia|].
    rewrite Hsp, Hdp. eauto.
Qed.

Lemma http_ident_spec f e :
  analyzer_endpoints f = Some e -> c18_dom f = true ->
  exists a b, http_ident f = ordered_flow a (e_sport e) b (e_dport e) /\
              addr_bytes a (e_src e) /\ addr_bytes b (e_dst e) /\ length a = length b.
Proof.
  intros Ha Hd. destruct (hash_framing f e Ha Hd) as (l & v & ip & _ & Hv & Hip & Hlen & Hver).
  pose proof (endpoints_same_family _ _ Hv) as Hfam.
  unfold http_ident. cbn zeta. rewrite Hip.
  destruct Hver as [[-> Hver]|[-> Hver]]; rewrite Hver.
  - destruct (v4_fields ip e Hv) as (Hl & Hp & Hs & Hdst & Hoff & Hsp & Hdp).
    destruct (length f <? ip_start f + 40)%nat eqn:E1; [lia|].
    change (4 =? 4) with true. cbn iota. unfold http_ipv4_ident.
    destruct (length ip <? 20)%nat eqn:E2; [lia|]. rewrite Hp. change (6 =? 6) with true. cbn [negb].
    destruct (length ip <? 4 * Nat.max (ihl_of ip) 5 + 4)%nat eqn:E3; [lia|].
    rewrite Hsp, Hdp. exists (slice ip 12 4), (slice ip 16 4). repeat split; auto.
    eapply addr_bytes_len; eauto.
  - destruct (v6_fields ip e Hv) as (Hl & Hp & Hs & Hdst & Hsp & Hdp).
    destruct (length f <? ip_start f + 40)%nat eqn:E1; [lia|].
    change (6 =? 4) with false. change (6 =? 6) with true. cbn iota. unfold http_ipv6_ident.
    destruct (length ip <? 40)%nat eqn:E2; [lia|]. rewrite Hp. change (6 =? 6) with true. cbn [negb].
    destruct (length ip <? 44)%nat eqn:E3; [lia|].
    rewrite Hsp, Hdp. exists (slice ip 8 16), (slice ip 24 16). repeat split; auto.
    eapply addr_bytes_len; eauto.
Qed.

(* ordering the endpoints forgets the direction *)
Lemma ordered_flow_sym a p b q : length a = length b -> ordered_flow a p b q = ordered_flow b q a p.
Proof.
  intros Hl. unfold ordered_flow, endpoint_le.
  destruct ((be_N a <? be_N b) || (be_N a =? be_N b) && (p <=? q)) eqn:E1;
  destruct ((be_N b <? be_N a) || (be_N b =? be_N a) && (q <=? p)) eqn:E2; try reflexivity; try lia.
  assert (be_N a = be_N b /\ p = q) as [H1 ->] by lia.
  rewrite (be_N_inj (length b) a b Hl eq_refl H1). reflexivity.
Qed.

Lemma undirected_cases e e' : undirected e = undirected e' -> e' = e \/ e' = flip e.
Proof.
  unfold undirected.
  destruct (ep_le (e_src e) (e_sport e) (e_dst e) (e_dport e)),
           (ep_le (e_src e') (e_sport e') (e_dst e') (e_dport e')); intros H.
  - left; congruence.
  - right. destruct e, e'; cbn in *. injection H as -> -> -> ->. reflexivity.
  - right. destruct e, e'; cbn in *. injection H as <- <- <- <-. reflexivity.
  - left. destruct e, e'; cbn in *. injection H as -> -> -> ->. reflexivity.
Qed.

Lemma rem_or_0_lt h n : 0 < n -> rem_or_0 h n < n.
Proof. intros H. unfold rem_or_0. destruct (n =? 0) eqn:E; [lia|]. apply N.mod_lt. lia. Qed.

(* ---------- the affinity theorems ---------- *)
Section Affinity.
  Variable SipH : ident -> N.

  Theorem affinity_tcp n p q :
    0 < n -> identity_tcp p = identity_tcp q -> identity_tcp p <> None ->
    c18_dom p = true -> c18_dom q = true ->
    tcp_worker SipH n p = tcp_worker SipH n q /\ exists w, tcp_worker SipH n p = Some w /\ w < n.
  Proof.
    unfold identity_tcp. intros Hn Heq Hne Dp Dq.
    destruct (analyzer_endpoints p) as [e1|] eqn:E1; [|now elim Hne].
    destruct (analyzer_endpoints q) as [e2|] eqn:E2; [|discriminate]. cbn [option_map] in Heq.
    injection Heq as Heq.
    destruct (tcp_ident_spec p e1 E1 Dp) as (a1 & I1 & A1).
    destruct (tcp_ident_spec q e2 E2 Dq) as (a2 & I2 & A2).
    rewrite <- Heq in A2. rewrite (addr_bytes_inj _ _ _ A2 A1) in I2.
    unfold tcp_worker. rewrite I1, I2. split; [reflexivity|].
    eexists; split; [reflexivity | now apply rem_or_0_lt].
  Qed.

  Theorem affinity_tls n p q :
    0 < n -> identity_tls p = identity_tls q -> identity_tls p <> None ->
    c18_dom p = true -> c18_dom q = true ->
    tls_worker SipH n p = tls_worker SipH n q /\ exists w, tls_worker SipH n p = Some w /\ w < n.
  Proof.
    unfold identity_tls. intros Hn Heq Hne Dp Dq.
    destruct (analyzer_endpoints p) as [e1|] eqn:E1; [|now elim Hne].
    destruct (analyzer_endpoints q) as [e2|] eqn:E2; [|discriminate].
    injection Heq as Heq. subst e2.
    destruct (tls_ident_spec p e1 E1 Dp) as (a1 & b1 & I1 & A1 & B1).
    destruct (tls_ident_spec q e1 E2 Dq) as (a2 & b2 & I2 & A2 & B2).
    rewrite (addr_bytes_inj _ _ _ A2 A1), (addr_bytes_inj _ _ _ B2 B1) in I2.
    unfold tls_worker. rewrite I1, I2. split; [reflexivity|]. cbn [option_map].
    eexists; split; [reflexivity | now apply rem_or_0_lt].
  Qed.

  Lemma http_ident_direction p q e :
    analyzer_endpoints p = Some e -> analyzer_endpoints q = Some (flip e) ->
    c18_dom p = true -> c18_dom q = true ->
    http_ident p = http_ident q.
  Proof.
    intros E1 E2 Dp Dq.
    destruct (http_ident_spec p e E1 Dp) as (a1 & b1 & I1 & A1 & B1 & L1).
    destruct (http_ident_spec q (flip e) E2 Dq) as (a2 & b2 & I2 & A2 & B2 & L2).
    cbn [flip e_src e_dst e_sport e_dport] in *.
    rewrite (addr_bytes_inj _ _ _ A2 B1), (addr_bytes_inj _ _ _ B2 A1) in I2.
    rewrite I1, I2. now apply ordered_flow_sym.
  Qed.

  Theorem affinity_http n p q :
    0 < n -> identity_http p = identity_http q -> identity_http p <> None ->
    c18_dom p = true -> c18_dom q = true ->
    http_worker SipH n p = http_worker SipH n q /\ exists w, http_worker SipH n p = Some w /\ w < n.
  Proof.
    unfold identity_http. intros Hn Heq Hne Dp Dq.
    destruct (analyzer_endpoints p) as [e1|] eqn:E1; [|now elim Hne].
    destruct (analyzer_endpoints q) as [e2|] eqn:E2; [|discriminate]. cbn [option_map] in Heq.
    injection Heq as Heq.
    assert (Hid : http_ident p = http_ident q).
    { destruct (undirected_cases _ _ Heq) as [->| ->].
      - destruct (http_ident_spec p e1 E1 Dp) as (a1 & b1 & I1 & A1 & B1 & L1).
        destruct (http_ident_spec q e1 E2 Dq) as (a2 & b2 & I2 & A2 & B2 & L2).
        rewrite (addr_bytes_inj _ _ _ A2 A1), (addr_bytes_inj _ _ _ B2 B1) in I2. congruence.
      - eapply http_ident_direction; eauto. }
    unfold http_worker. rewrite Hid. split; [reflexivity|].
    eexists; split; [reflexivity | now apply rem_or_0_lt].
  Qed.

  (* the two directions of one connection, stated directly *)
  Corollary http_both_directions_all n p q e :
    analyzer_endpoints p = Some e -> analyzer_endpoints q = Some (flip e) ->
    c18_dom p = true -> c18_dom q = true ->
    http_worker SipH n p = http_worker SipH n q.
  Proof. intros. unfold http_worker. erewrite http_ident_direction; eauto. Qed.

  (* old signature (the two class hypotheses are now vacuous), kept for Proofs/HttpInstances.v *)
  Corollary http_both_directions n p q e :
    analyzer_endpoints p = Some e -> analyzer_endpoints q = Some (flip e) ->
    c18_dom p = true -> c18_dom q = true -> raw_as_ethernet p = false -> raw_as_ethernet q = false ->
    http_worker SipH n p = http_worker SipH n q.
  Proof. intros E1 E2 Dp Dq _ _. exact (http_both_directions_all n p q e E1 E2 Dp Dq). Qed.
End Affinity.

(* ---------- the former known class raw_as_ethernet: its witness now obeys the affinity law ---------- *)
Definition hexb (s : bytes) : bytes := match read_hex s with Some b => b | None => [] end.
(* raw IPv4, 134.221.16.7:40000 -> 10.0.0.2:80, SYN, 40 bytes; the two packets differ in the last byte only *)
Definition raw_86dd_a : bytes :=
  hexb (bs "45000028000040004006000086dd10070a0000029c40005000000001000000005002ffff00000000").
Definition raw_86dd_b : bytes :=
  hexb (bs "45000028000040004006000086dd10070a0000029c40005000000001000000005002ffff00000001").
Definition toy_hash (i : ident) : N := match i with IdBytes b => be_N b | IdFlow _ _ _ _ => 0 end.

Lemma raw_as_ethernet_former_witness_agrees :
  identity_tcp raw_86dd_a = identity_tcp raw_86dd_b /\ identity_tcp raw_86dd_a = Some (V4 2262634503) /\
  c18_dom raw_86dd_a = true /\ c18_dom raw_86dd_b = true /\
  tcp_ident raw_86dd_a = tcp_ident raw_86dd_b /\ http_ident raw_86dd_a = http_ident raw_86dd_b /\
  tls_ident raw_86dd_a = tls_ident raw_86dd_b /\ tls_ident raw_86dd_a <> None /\
  tcp_worker toy_hash 2 raw_86dd_a = tcp_worker toy_hash 2 raw_86dd_b /\
  tls_worker toy_hash 2 raw_86dd_a = Some 0.
Proof. vm_compute. repeat split; try reflexivity. discriminate. Qed.
