(* Proofs for C06, database loading: the loader model on rendered documents equals the document's
   denotation (Spec/DbDocSpec.v). *)
From Coq Require Import List NArith Bool Lia ZifyBool ZifyN.
From Coq Require Import Strings.Byte.
From HN Require Import Base.Bytes Model.SigAst Model.SigText Model.DbLoad Spec.SigTextSpec Spec.DbLoadSpec
  Spec.DbDocSpec Proofs.SigTextProofs.
Import ListNotations.
Open Scope N_scope.

Arguments beqb !a !b.
Arguments show_N : simpl never.

(* ================= reversal ================= *)
Lemma revl_rev l : revl l = rev l.
Proof. unfold revl. symmetry. apply rev_alt. Qed.
Lemma revl_involutive l : revl (revl l) = l.
Proof. rewrite !revl_rev. apply rev_involutive. Qed.

(* ================= trim ================= *)
(* the line ends with a visible ASCII character *)
Definition graph_end (l : bytes) : Prop := exists l' c, l = l' ++ [c] /\ graph c = true.

Lemma graph_end_app p v : graph_end v -> graph_end (p ++ v).
Proof. intros (l' & c & -> & Hc). exists (p ++ l'), c. now rewrite app_assoc. Qed.
Lemma graph_end_snoc l c : graph c = true -> graph_end (l ++ [c]).
Proof. intros H. now exists l, c. Qed.
Lemma graph_end_cons b l : graph_end l -> graph_end (b :: l).
Proof. apply (graph_end_app [b]). Qed.

Lemma ws_head_graph b r : graph b = true -> ws_head (b :: r) = None.
Proof.
  intros H. unfold graph in H. unfold ws_head, ascii_ws.
  assert (E1 : ((9 <=? b2n b) && (b2n b <=? 13) || (b2n b =? 32)) = false) by lia. rewrite E1.
  assert (E2 : (b2n b =? 194) = false) by lia.
  assert (E3 : (b2n b =? 225) = false) by lia.
  assert (E4 : (b2n b =? 226) = false) by lia.
  assert (E5 : (b2n b =? 227) = false) by lia.
  destruct r as [|b2 [|c r3]]; rewrite ?E2, ?E3, ?E4, ?E5; reflexivity.
Qed.

Lemma ws_last_graph c r : graph c = true -> ws_last (c :: r) = None.
Proof.
  intros H. unfold graph in H. unfold ws_last, ascii_ws.
  assert (E1 : ((9 <=? b2n c) && (b2n c <=? 13) || (b2n c =? 32)) = false) by lia. rewrite E1.
  assert (E2 : ((b2n c =? 133) || (b2n c =? 160)) = false) by lia.
  assert (E3 : (b2n c =? 128) = false) by lia.
  assert (E4 : ((128 <=? b2n c) && (b2n c <=? 138) || (b2n c =? 168) || (b2n c =? 169) || (b2n c =? 175)) = false) by lia.
  assert (E5 : (b2n c =? 159) = false) by lia.
  destruct r as [|b [|a r3]]; rewrite ?E2, ?E3, ?E4, ?E5, ?andb_false_r; reflexivity.
Qed.

Lemma strip_while_none hd l fuel : hd l = None -> strip_while fuel hd l = l.
Proof. intros H. destruct fuel; cbn; [reflexivity | now rewrite H]. Qed.

Lemma trim_id b r : graph b = true -> graph_end (b :: r) -> trim (b :: r) = b :: r.
Proof.
  intros Hb (l' & c & E & Hc). unfold trim, trim_start.
  rewrite strip_while_none by (now apply ws_head_graph).
  unfold trim_end. rewrite E. rewrite (revl_rev (l' ++ [c])), rev_app_distr. cbn [rev app].
  rewrite strip_while_none by (now apply ws_last_graph).
  rewrite revl_rev. cbn [rev]. now rewrite rev_involutive.
Qed.

Lemma trim_nil : trim [] = [].
Proof. reflexivity. Qed.

(* ================= str::lines ================= *)
Definition is_lf (b : byte) : bool := beqb b x0a.
Definition line_ok (l : bytes) : bool :=
  forallb (fun b => negb (beqb b x0a)) l && negb (match revl l with b :: _ => beqb b x0d | [] => false end).

Lemma lines_aux_line l : forall cur rest,
  forallb (fun b => negb (beqb b x0a)) l = true ->
  lines_aux (l ++ x0a :: rest) cur =
  revl (strip_cr (rev_append l cur)) :: lines_aux rest [].
Proof.
  induction l as [|b l IH]; intros cur rest H.
  - cbn [app lines_aux rev_append]. now rewrite beqb_refl.
  - cbn in H. apply andb_true_iff in H as [Hb Hl]. cbn [app lines_aux].
    destruct (beqb b x0a); [discriminate|]. rewrite IH by assumption. reflexivity.
Qed.

Lemma lines_unlines ls :
  forallb line_ok ls = true -> lines (concat (map (fun l => l ++ [x0a]) ls)) = ls.
Proof.
  unfold lines. induction ls as [|l ls IH]; intros H; [reflexivity|].
  cbn in H. apply andb_true_iff in H as [Hl Hls]. unfold line_ok in Hl. apply andb_true_iff in Hl as [Hl1 Hl2].
  cbn [map concat]. rewrite <- app_assoc. cbn [app]. rewrite lines_aux_line by assumption.
  rewrite IH by assumption. f_equal.
  change (rev_append l []) with (revl l). destruct (revl l) as [|b r] eqn:E.
  - rewrite <- (revl_involutive l), E. reflexivity.
  - cbn in Hl2. assert (Hne : b <> x0d) by (intros ->; discriminate).
    assert (R : strip_cr (b :: r) = b :: r).
    { unfold strip_cr. destruct b; try reflexivity. congruence. }
    rewrite R, <- E. apply revl_involutive.
Qed.

(* ================= graph_end of rendered text ================= *)
Lemma digit_graph c : is_digit c = true -> graph c = true.
Proof. unfold is_digit, graph. lia. Qed.

Lemma forallb_last {p : byte -> bool} l : l <> [] -> forallb p l = true -> exists l' c, l = l' ++ [c] /\ p c = true.
Proof.
  intros Hne H. destruct (exists_last Hne) as (l' & c & ->). exists l', c. split; [reflexivity|].
  rewrite forallb_app in H. apply andb_true_iff in H as [_ H]. cbn in H. now rewrite andb_true_r in H.
Qed.

Lemma graph_end_show_N n : graph_end (show_N n).
Proof.
  destruct (show_N_spec n) as (_ & H2 & H3). destruct (forallb_last _ H3 H2) as (l' & c & E & Hc).
  exists l', c. auto using digit_graph.
Qed.

Lemma clean_end_graph_end t : clean_end t = true -> t <> [] -> graph_end t.
Proof.
  unfold clean_end. intros H Hne. apply andb_true_iff in H as [_ H].
  destruct t as [|b t]; [congruence|]. destruct (@exists_last _ (b :: t)) as (l' & c & E); [congruence|].
  rewrite E in H. rewrite last_last in H. rewrite E. now exists l', c.
Qed.

Lemma alnum_is_alnum b : alnum b = is_alnum b.
Proof. destruct b; reflexivity. Qed.
Lemma alnum_graph b : alnum b = true -> graph b = true.
Proof. unfold alnum, graph. lia. Qed.

Lemma word_alnum_parts x : word alnum x = true ->
  forallb is_alnum x = true /\ graph_end x /\ exists c r, x = c :: r /\ graph c = true /\ is_alnum c = true.
Proof.
  unfold word. intros H. apply andb_true_iff in H as [Hne H].
  assert (Hn : x <> []) by (destruct x; [discriminate | congruence]).
  repeat split.
  - rewrite forallb_forall in *. intros b Hb. rewrite <- alnum_is_alnum. auto.
  - destruct (forallb_last _ Hn H) as (l' & c & E & Hc). exists l', c. auto using alnum_graph.
  - destruct x as [|c r]; [congruence|]. cbn in H. apply andb_true_iff in H as [Hc _].
    exists c, r. rewrite <- alnum_is_alnum. auto using alnum_graph.
Qed.

Lemma graph_end_join sep (l : list bytes) :
  l <> [] -> (forall x, In x l -> graph_end x) -> graph_end (join sep l).
Proof.
  induction l as [|x l IH]; intros Hne H; [congruence|].
  destruct l as [|y l].
  - cbn. apply H. now left.
  - rewrite join_cons2. rewrite app_assoc. apply graph_end_app. apply IH; [congruence|].
    intros z Hz. apply H. now right.
Qed.

Lemma graph_end_print_tcp s : graph_end (print_tcp_sig s).
Proof.
  unfold print_tcp_sig. repeat (apply graph_end_app). destruct (t_pclass s); cbn;
  [exists [], "0"%byte | exists [], "+"%byte | exists [], "*"%byte]; split; reflexivity.
Qed.

Lemma graph_end_colon_text t : clean_end t = true -> graph_end (colon ++ t).
Proof.
  intros H. destruct t as [|b t].
  - exists [], ":"%byte. split; reflexivity.
  - apply graph_end_app. apply clean_end_graph_end; [assumption | congruence].
Qed.

Lemma graph_end_print_http s : clean_end (hs_expsw s) = true -> graph_end (print_http_sig s).
Proof.
  intros H. unfold print_http_sig. rewrite !app_assoc. rewrite <- app_assoc.
  apply graph_end_app. now apply graph_end_colon_text.
Qed.

Lemma graph_end_render_label l : label_ok l = true -> graph_end (render_label l).
Proof.
  unfold label_ok. rewrite !andb_true_iff. intros [_ Hf]. unfold render_label.
  rewrite !app_assoc. rewrite <- app_assoc. apply graph_end_app.
  change (bs ":") with colon. apply graph_end_colon_text.
  destruct (l_flavor l); [|reflexivity]. apply andb_true_iff in Hf. tauto.
Qed.

(* ================= the abstract machine on documents ================= *)
(* s_mod of the loader when the current section is cur *)
Definition mod_of (cur : option sec) : option (bytes * option bytes) :=
  match cur with
  | None => None
  | Some SecTQ => Some (bs "tcp", Some (bs "request"))
  | Some SecTS => Some (bs "tcp", Some (bs "response"))
  | Some SecHQ => Some (bs "http", Some (bs "request"))
  | Some SecHS => Some (bs "http", Some (bs "response"))
  | Some SecMtu => Some (bs "mtu", None)
  | Some SecOther => Some (bs "other", None)
  end.

Definition omap_st {T} (f : T -> lstate) (o : option T) : option lstate :=
  match o with Some t => Some (f t) | None => None end.

(* what loading one more item does to the loader state *)
Definition abs_step (s : lstate) (cur : option sec) (x : item) : option lstate :=
  match x with
  | IBlank | IComment _ | ISys _ => Some s
  | IClasses cs => Some (set_classes s (s_classes s ++ cs))
  | IUaOs rs => Some (set_ua s (s_ua s ++ rs))
  | ISection sc => Some (set_mod s (mod_of (Some sc)))
  | ILabel l =>
      match cur with
      | Some SecTQ => Some (set_treq s (s_treq s ++ [(l, [])]))
      | Some SecTS => Some (set_tresp s (s_tresp s ++ [(l, [])]))
      | Some SecHQ => Some (set_hreq s (s_hreq s ++ [(l, [])]))
      | Some SecHS => Some (set_hresp s (s_hresp s ++ [(l, [])]))
      | _ => Some s end
  | IMtuLabel n => match cur with Some SecMtu => Some (set_mtu s (s_mtu s ++ [(n, [])])) | _ => Some s end
  | ITcpSig g =>
      match cur with
      | Some SecTQ => omap_st (set_treq s) (push_last (s_treq s) g)
      | Some SecTS => omap_st (set_tresp s) (push_last (s_tresp s) g)
      | _ => Some s end
  | IHttpSig g =>
      match cur with
      | Some SecHQ => omap_st (set_hreq s) (push_last (s_hreq s) g)
      | Some SecHS => omap_st (set_hresp s) (push_last (s_hresp s) g)
      | _ => Some s end
  | IMtuSig v => match cur with Some SecMtu => omap_st (set_mtu s) (push_last (s_mtu s) v) | _ => Some s end
  end.

Fixpoint run_abs (s : lstate) (cur : option sec) (d : list item) : option lstate :=
  match d with
  | [] => Some s
  | x :: r => match abs_step s cur x with Some s' => run_abs s' (next_sec cur x) r | None => None end
  end.

(* ================= one rendered line through the loader ================= *)
Lemma space0_graph b r : graph b = true -> space0 (b :: r) = b :: r.
Proof.
  intros H. unfold space0. cbn [span]. replace (is_space b) with false; [reflexivity|].
  unfold is_space. unfold graph in H.
  destruct (beqb b " "%byte) eqn:E1; [apply beqb_eq in E1; subst; discriminate|].
  destruct (beqb b x09) eqn:E2; [apply beqb_eq in E2; subst; discriminate|]. reflexivity.
Qed.

Lemma space0_sp l : space0 (" "%byte :: l) = space0 l.
Proof. unfold space0. cbn [span]. change (is_space " "%byte) with true. cbv iota. now destruct (span is_space l). Qed.

(* `key = value` lines: key is one of the three words, value starts with a visible character *)
Lemma named_value_gen key b r :
  alphanumeric1 (key ++ bs " = " ++ b :: r) = Some (key, bs " = " ++ b :: r) ->
  graph b = true -> parse_named_value (key ++ bs " = " ++ b :: r) = Some (key, b :: r).
Proof.
  intros Ha H. unfold parse_named_value. rewrite Ha. cbv iota beta.
  change (space0 (bs " = " ++ b :: r)) with (bs "= " ++ b :: r).
  change (strip_prefix (bs "=") (bs "= " ++ b :: r)) with (Some (" "%byte :: b :: r)).
  cbv iota beta. rewrite space0_sp. now rewrite space0_graph.
Qed.
Lemma named_value_label b r : graph b = true -> parse_named_value (bs "label = " ++ b :: r) = Some (bs "label", b :: r).
Proof. apply (named_value_gen (bs "label")). reflexivity. Qed.
Lemma named_value_sig b r : graph b = true -> parse_named_value (bs "sig = " ++ b :: r) = Some (bs "sig", b :: r).
Proof. apply (named_value_gen (bs "sig")). reflexivity. Qed.
Lemma named_value_sys b r : graph b = true -> parse_named_value (bs "sys = " ++ b :: r) = Some (bs "sys", b :: r).
Proof. apply (named_value_gen (bs "sys")). reflexivity. Qed.

(* a line that starts and ends with a visible character is not changed by trim *)
Lemma step_trimmed s b r : graph b = true -> graph_end (b :: r) ->
  step s (b :: r) =
    if beqb b ";"%byte then Some s
    else if starts_with (bs "classes") (b :: r) then
      match parse_classes (b :: r) with Some (cs, []) => Some (set_classes s (s_classes s ++ cs)) | _ => None end
    else if starts_with (bs "ua_os") (b :: r) then
      match parse_ua_os (b :: r) with Some (us, []) => Some (set_ua s (s_ua s ++ us)) | _ => None end
    else if beqb b "["%byte && ends_with_b "]"%byte (b :: r) then
      match parse_module (b :: r) with
      | Some (md, []) => if is_known_module md then Some (set_mod s (Some md)) else None
      | _ => None end
    else
      match s_mod s with
      | Some (m, d) =>
          match parse_named_value (b :: r) with
          | Some (name, value) => step_named s m d name value
          | None => None end
      | None => None
      end.
Proof. intros Hb He. unfold step. rewrite trim_id by assumption. reflexivity. Qed.

Lemma step_label_line s m dr b r : s_mod s = Some (m, dr) -> graph b = true -> graph_end (b :: r) ->
  step s (bs "label = " ++ b :: r) = step_named s m dr (bs "label") (b :: r).
Proof.
  intros Hm Hb He. pose proof (graph_end_app (bs "label = ") _ He) as He'. cbn [bs bs_to app] in *.
  rewrite step_trimmed; [| reflexivity | exact He'].
  pose proof (named_value_label b r Hb) as Hn. cbn [bs bs_to app] in Hn.
  rewrite Hm, Hn. reflexivity.
Qed.
Lemma step_sig_line s m dr b r : s_mod s = Some (m, dr) -> graph b = true -> graph_end (b :: r) ->
  step s (bs "sig = " ++ b :: r) = step_named s m dr (bs "sig") (b :: r).
Proof.
  intros Hm Hb He. pose proof (graph_end_app (bs "sig = ") _ He) as He'. cbn [bs bs_to app] in *.
  rewrite step_trimmed; [| reflexivity | exact He'].
  pose proof (named_value_sig b r Hb) as Hn. cbn [bs bs_to app] in Hn.
  rewrite Hm, Hn. reflexivity.
Qed.
Lemma step_sys_line s m dr b r : s_mod s = Some (m, dr) -> graph b = true -> graph_end (b :: r) ->
  step s (bs "sys = " ++ b :: r) = step_named s m dr (bs "sys") (b :: r).
Proof.
  intros Hm Hb He. pose proof (graph_end_app (bs "sys = ") _ He) as He'. cbn [bs bs_to app] in *.
  rewrite step_trimmed; [| reflexivity | exact He'].
  pose proof (named_value_sys b r Hb) as Hn. cbn [bs bs_to app] in Hn.
  rewrite Hm, Hn. reflexivity.
Qed.

(* ================= values of key lines ================= *)
Lemma no_colon_beqb t : no_colon t = true -> forallb (fun b => negb (beqb b ":"%byte)) t = true.
Proof.
  unfold no_colon. intros H. rewrite forallb_forall in *. intros b Hb. specialize (H b Hb).
  destruct (beqb b ":"%byte) eqn:E; [|reflexivity]. apply beqb_eq in E. subst. discriminate.
Qed.

Lemma parse_label_render l : label_ok l = true -> parse_label (render_label l) = Some (l, []).
Proof.
  unfold label_ok. rewrite !andb_true_iff. intros [[[Hc Hn1] Hn2] Hf].
  destruct l as [ty class name flavor]. cbn [l_ty l_class l_name l_flavor] in *.
  unfold render_label, parse_label. cbn [l_ty l_class l_name l_flavor].
  assert (Hty : parse_type ((match ty with LSpecified => bs "s" | LGeneric => bs "g" end) ++ bs ":" ++
                  (match class with Some c => c | None => bs "!" end) ++ bs ":" ++ name ++ bs ":" ++
                  (match flavor with Some f => f | None => [] end))
                = Some (ty, bs ":" ++ (match class with Some c => c | None => bs "!" end) ++ bs ":" ++ name ++ bs ":" ++
                  (match flavor with Some f => f | None => [] end))) by (destruct ty; reflexivity).
  rewrite Hty. change (bs ":") with colon. rewrite strip_prefix_app.
  assert (Hcl : orelse (tag (bs "!") None ((match class with Some c => c | None => bs "!" end) ++ colon ++ name ++ colon ++ (match flavor with Some f => f | None => [] end)))
                  (match take_until ":"%byte ((match class with Some c => c | None => bs "!" end) ++ colon ++ name ++ colon ++ (match flavor with Some f => f | None => [] end)) with
                   | Some (c, r) => Some (Some c, r) | None => None end)
                = Some (class, colon ++ name ++ colon ++ (match flavor with Some f => f | None => [] end))).
  { destruct class as [c|]; [|reflexivity].
    apply andb_true_iff in Hc as [Hc Hb]. apply andb_true_iff in Hc as [Hc _].
    assert (T : tag (bs "!") (@None bytes) (c ++ colon ++ name ++ colon ++ (match flavor with Some f => f | None => [] end)) = None).
    { unfold tag. destruct c as [|b c]; [reflexivity|]. cbn [app bs bs_to strip_prefix].
      replace (beqb "!"%byte b) with false; [reflexivity|]. symmetry. apply beqb_neq. intros <-. discriminate. }
    rewrite T. cbn [orelse]. change (colon ++ name ++ colon ++ match flavor with Some f => f | None => [] end)
      with (":"%byte :: name ++ colon ++ match flavor with Some f => f | None => [] end).
    rewrite take_until_app by (now apply no_colon_beqb). reflexivity. }
  rewrite Hcl. rewrite strip_prefix_app.
  change (colon ++ match flavor with Some f => f | None => [] end) with (":"%byte :: match flavor with Some f => f | None => [] end).
  rewrite take_until_app by (now apply no_colon_beqb).
  change (":"%byte :: match flavor with Some f => f | None => [] end) with (colon ++ match flavor with Some f => f | None => [] end).
  rewrite strip_prefix_app. cbn [fst snd].
  destruct flavor as [f|]; [|reflexivity].
  apply andb_true_iff in Hf as [Hne _]. destruct f; [discriminate | reflexivity].
Qed.

Lemma u16_from_str_show v : v <=? 65535 = true -> u16_from_str (show_N v) = Some v.
Proof.
  intros H. unfold u16_from_str. destruct (show_N_cons v) as (c & r & E & Hc).
  rewrite E. cbv iota beta. replace (beqb c "+"%byte) with false
    by (symmetry; apply beqb_neq; intros ->; discriminate). rewrite <- E.
  unfold all_digits. rewrite show_N_digits. apply dec_max_show. unfold U16. lia.
Qed.

(* `classes` and `ua_os` lines *)
Lemma term_stops_alnum k : term k = true -> stops is_alnum k = true.
Proof. intros H. destruct (term_cases k H) as [->|[[r ->]|[r ->]]]; reflexivity. Qed.

Lemma alphanumeric1_word x k : word alnum x = true -> term k = true -> alphanumeric1 (x ++ k) = Some (x, k).
Proof.
  intros Hx Hk. destruct (word_alnum_parts x Hx) as (Ha & _ & c & r & E & _).
  unfold alphanumeric1, span1. rewrite span_app by (auto using term_stops_alnum). now rewrite E.
Qed.

Lemma space0_term k : term k = true -> space0 k = k.
Proof. intros H. destruct (term_cases k H) as [->|[[r ->]|[r ->]]]; reflexivity. Qed.

Lemma p0f_name_is_name_char b : p0f_name_char b = is_name_char b.
Proof. destruct b; reflexivity. Qed.

Lemma word_p0f_model x : word p0f_name_char x = true -> x <> [] /\ forallb is_name_char x = true.
Proof.
  unfold word. intros H. apply andb_true_iff in H as [Hne H]. split; [destruct x; [discriminate | congruence]|].
  rewrite forallb_forall in *. intros b Hb. rewrite <- p0f_name_is_name_char. auto.
Qed.

Lemma term_stops_name k : term k = true -> stops is_name_char k = true.
Proof. intros H. destruct (term_cases k H) as [->|[[r ->]|[r ->]]]; reflexivity. Qed.

Lemma span1_name x k : word p0f_name_char x = true -> stops is_name_char k = true -> span1 is_name_char (x ++ k) = Some (x, k).
Proof.
  intros W Hk. destruct (word_p0f_model x W) as [Hne Ha]. unfold span1. rewrite span_app by assumption.
  destruct x; [congruence | reflexivity].
Qed.

Lemma parse_key_value_rule x k : rule_ok x = true -> term k = true ->
  parse_key_value (render_rule x ++ k) = Some (x, k).
Proof.
  destruct x as [name [v|]]; unfold rule_ok, render_rule; cbn [fst snd]; intros H Hk.
  - apply andb_true_iff in H as [Hn Hv]. unfold parse_key_value. rewrite <- !app_assoc.
    rewrite span1_name by (assumption || reflexivity). rewrite strip_prefix_app.
    rewrite span1_name by (assumption || reflexivity). rewrite strip_prefix_app. reflexivity.
  - rewrite andb_true_r in H. rewrite app_nil_r. unfold parse_key_value.
    rewrite span1_name by (auto using term_stops_name).
    destruct (term_cases k Hk) as [->|[[r ->]|[r ->]]]; reflexivity.
Qed.

Lemma join_first_graph (cs : list bytes) :
  cs <> [] -> (forall x, In x cs -> exists c r, x = c :: r /\ graph c = true) ->
  exists c r, join comma cs = c :: r /\ graph c = true.
Proof.
  destruct cs as [|x cs]; [congruence|]. intros _ H. destruct (H x (or_introl eq_refl)) as (c & r & -> & Hc).
  destruct cs as [|y cs]; [exists c, r; auto|]. rewrite join_cons2. exists c, (r ++ comma ++ join comma (y :: cs)). auto.
Qed.

(* ================= first characters ================= *)
Lemma print_tcp_cons g : exists b r, print_tcp_sig g = b :: r /\ graph b = true.
Proof. unfold print_tcp_sig. destruct (t_version g); cbn [print_ip_version bs bs_to app]; eauto. Qed.
Lemma print_http_cons g : exists b r, print_http_sig g = b :: r /\ graph b = true.
Proof. unfold print_http_sig. destruct (hs_version g); cbn [print_http_version bs bs_to app]; eauto. Qed.
Lemma render_label_cons l : exists b r, render_label l = b :: r /\ graph b = true.
Proof. unfold render_label. destruct (l_ty l); cbn [bs bs_to app]; eauto. Qed.
Lemma show_N_cons_graph v : exists b r, show_N v = b :: r /\ graph b = true.
Proof. destruct (show_N_cons v) as (c & r & E & Hc). eauto using digit_graph. Qed.
Lemma clean_cons v : nonempty v = true -> clean v = true -> exists b r, v = b :: r /\ graph b = true /\ graph_end (b :: r).
Proof.
  intros Hne H. destruct v as [|b r]; [discriminate|]. unfold clean in H. apply andb_true_iff in H as [He Hb].
  exists b, r. repeat split; auto. apply clean_end_graph_end; [assumption | congruence].
Qed.

(* ================= Lemma B: one rendered item through the loader ================= *)
Lemma eq_value k : strip_prefix (bs "=") (space0 (bs " = " ++ k)) = Some (" "%byte :: k).
Proof.
  change (bs " = " ++ k) with (" "%byte :: "="%byte :: " "%byte :: k).
  rewrite space0_sp. rewrite space0_graph by reflexivity. reflexivity.
Qed.
Lemma step_classes s cs : nonempty_list cs = true -> forallb (word alnum) cs = true ->
  step s (render_item (IClasses cs)) = Some (set_classes s (s_classes s ++ cs)).
Proof.
  intros Hne Hw. assert (Hn : cs <> []) by (destruct cs; [discriminate | congruence]).
  rewrite forallb_forall in Hw.
  assert (Hge : graph_end (join comma cs)).
  { apply graph_end_join; [assumption|]. intros x Hx. now destruct (word_alnum_parts x (Hw x Hx)) as (_ & G & _). }
  destruct (join_first_graph cs Hn) as (c & r & E & Hc).
  { intros x Hx. destruct (word_alnum_parts x (Hw x Hx)) as (_ & _ & c & r & E & G & _). eauto. }
  assert (P : parse_classes (bs "classes = " ++ join comma cs) = Some (cs, [])).
  { unfold parse_classes. change (bs "classes = " ++ join comma cs) with (bs "classes" ++ bs " = " ++ join comma cs).
    rewrite strip_prefix_app. rewrite eq_value. rewrite space0_sp. rewrite E, space0_graph by assumption. rewrite <- E.
    rewrite <- (map_id cs) at 1. rewrite <- (app_nil_r (join comma (map (fun x => x) cs))).
    apply separated_list0_print_gen; [reflexivity | reflexivity | congruence |].
    intros x k' Hx Hk'. apply alphanumeric1_word; auto. }
  cbn [render_item]. change (bs ",") with comma.
  pose proof (graph_end_app (bs "classes = ") _ Hge) as He'. cbn [bs bs_to app] in He', P |- *.
  rewrite step_trimmed; [| reflexivity | exact He'].
  change (beqb "c"%byte ";"%byte) with false. cbv iota.
  match goal with |- (if ?c then _ else _) = _ => change c with true end. cbv iota. now rewrite P.
Qed.

Lemma ua_join_nonempty rs : nonempty_list rs = true -> forallb rule_ok rs = true -> join comma (map render_rule rs) <> [].
Proof.
  intros Hne Hw. destruct rs as [|[n v] rs]; [discriminate|]. rewrite forallb_forall in Hw.
  specialize (Hw (n, v) (or_introl eq_refl)). unfold rule_ok in Hw. cbn [fst snd] in Hw.
  apply andb_true_iff in Hw as [Hw _]. destruct (word_p0f_model n Hw) as [Hnn _].
  destruct n as [|n0 n']; [congruence|].
  destruct rs as [|r2 rs]; cbn [map]; [cbn [join]|rewrite join_cons2]; unfold render_rule; cbn [fst snd app]; discriminate.
Qed.

Lemma step_ua_os s rs : nonempty_list rs = true -> forallb rule_ok rs = true ->
  clean (join comma (map render_rule rs)) = true ->
  step s (render_item (IUaOs rs)) = Some (set_ua s (s_ua s ++ rs)).
Proof.
  intros Hne Hw Hcl. pose proof (ua_join_nonempty rs Hne Hw) as Hn.
  destruct (clean_cons (join comma (map render_rule rs))) as (c & r & E & Hc & Hge); [destruct (join comma (map render_rule rs)); [congruence | reflexivity] | assumption|].
  rewrite forallb_forall in Hw.
  assert (P : parse_ua_os (bs "ua_os = " ++ join comma (map render_rule rs)) = Some (rs, [])).
  { unfold parse_ua_os. change (bs "ua_os = " ++ join comma (map render_rule rs)) with (bs "ua_os" ++ bs " = " ++ join comma (map render_rule rs)).
    rewrite strip_prefix_app. rewrite eq_value. rewrite space0_sp. rewrite E, space0_graph by assumption. rewrite <- E.
    rewrite <- (app_nil_r (join comma (map render_rule rs))).
    apply separated_list0_print_gen; [reflexivity | reflexivity | intros Z; rewrite Z in Hne; discriminate |].
    intros x k' Hx Hk'. apply parse_key_value_rule; auto. }
  cbn [render_item]. change (bs ",") with comma.
  pose proof (graph_end_app (bs "ua_os = ") _ Hge) as He'. rewrite <- E in He'. cbn [bs bs_to app] in He', P |- *.
  rewrite step_trimmed; [| reflexivity | exact He'].
  change (beqb "u"%byte ";"%byte) with false. cbv iota.
  match goal with |- (if ?c then _ else _) = _ => change c with false end. cbv iota.
  match goal with |- (if ?c then _ else _) = _ => change c with true end. cbv iota. now rewrite P.
Qed.

Lemma push_last_nil_iff {L S} (es : list (L * list S)) x : es = [] -> push_last es x = None.
Proof. intros ->. reflexivity. Qed.

Lemma sig_branch {S} (tbl : list (label * list S)) (o : option S) (g : S) (set : list (label * list S) -> lstate) :
  o = Some g ->
  match tbl with
  | [] => None
  | _ :: _ => match o with
              | Some sg => match push_last tbl sg with Some t => Some (set t) | None => None end
              | None => None end
  end = omap_st set (push_last tbl g).
Proof. intros ->. destruct tbl; [reflexivity|]. unfold omap_st. reflexivity. Qed.

Lemma step_item s cur x :
  s_mod s = mod_of cur -> cur <> Some SecOther ->
  item_ok x = true -> fits cur x = true ->
  step s (render_item x) = abs_step s cur x.
Proof.
  intros Hm Hcur Hok Hfit. destruct x as [|t|cs|rs|sc|l|n|g|g|v|v]; cbn [item_ok] in *.
  - (* blank *) reflexivity.
  - (* comment *)
    cbn [render_item bs bs_to app]. rewrite step_trimmed; [reflexivity | reflexivity |].
    destruct t as [|b t]; [exists [], ";"%byte; split; reflexivity|].
    apply graph_end_cons. apply clean_end_graph_end; [assumption | congruence].
  - (* classes *) apply andb_true_iff in Hok as [H1 H2]. now apply step_classes.
  - (* ua_os *) apply andb_true_iff in Hok as [Hok H3]. apply andb_true_iff in Hok as [H1 H2]. now apply step_ua_os.
  - (* section *) destruct sc; try discriminate; reflexivity.
  - (* label *)
    destruct (render_label_cons l) as (b & r & E & Hb). pose proof (graph_end_render_label l Hok) as He.
    cbn [render_item]. rewrite E in *.
    destruct cur as [[| | | | |]|]; try discriminate; try congruence;
      (erewrite step_label_line by (try exact Hm; try assumption)); rewrite <- E;
      unfold step_named; cbn [mod_of] in Hm |- *;
      change (bytes_eqb (bs "label") (bs "label")) with true;
      rewrite (parse_label_render l Hok); reflexivity.
  - (* mtu label *)
    apply andb_true_iff in Hok as [H1 H2]. destruct (clean_cons n H1 H2) as (b & r & -> & Hb & He).
    cbn [render_item].
    destruct cur as [[| | | | |]|]; try discriminate.
    erewrite step_label_line by (try exact Hm; try assumption). reflexivity.
  - (* tcp sig *)
    destruct (print_tcp_cons g) as (b & r & E & Hb). pose proof (graph_end_print_tcp g) as He.
    cbn [render_item]. rewrite E in *.
    destruct cur as [[| | | | |]|]; try discriminate;
      (erewrite step_sig_line by (try exact Hm; try assumption)); rewrite <- E;
      unfold step_named; cbn [mod_of abs_step];
      change (bytes_eqb (bs "sig") (bs "label")) with false;
      change (bytes_eqb (bs "sig") (bs "sig")) with true;
      change (bytes_eqb (bs "tcp") (bs "mtu")) with false; cbn [andb table_of];
      apply sig_branch; now apply tcp_print_parse.
  - (* http sig *)
    apply andb_true_iff in Hok as [Hok Hsw]. apply andb_true_iff in Hok as [Hok _]. apply andb_true_iff in Hok as [Hok _].
    destruct (print_http_cons g) as (b & r & E & Hb). pose proof (graph_end_print_http g Hsw) as He.
    cbn [render_item]. rewrite E in *.
    destruct cur as [[| | | | |]|]; try discriminate;
      (erewrite step_sig_line by (try exact Hm; try assumption)); rewrite <- E;
      unfold step_named; cbn [mod_of abs_step];
      change (bytes_eqb (bs "sig") (bs "label")) with false;
      change (bytes_eqb (bs "sig") (bs "sig")) with true;
      change (bytes_eqb (bs "http") (bs "mtu")) with false; cbn [andb table_of];
      apply sig_branch; now apply http_print_parse.
  - (* mtu sig *)
    destruct (show_N_cons_graph v) as (b & r & E & Hb). pose proof (graph_end_show_N v) as He.
    cbn [render_item]. rewrite E in *.
    destruct cur as [[| | | | |]|]; try discriminate.
    erewrite step_sig_line by (try exact Hm; try assumption). rewrite <- E.
    unfold step_named. cbn [abs_step].
    change (bytes_eqb (bs "sig") (bs "label")) with false.
    change (bytes_eqb (bs "sig") (bs "sig")) with true.
    change (bytes_eqb (bs "mtu") (bs "mtu")) with true. cbn [andb].
    rewrite (u16_from_str_show v Hok). unfold omap_st. reflexivity.
  - (* sys *)
    apply andb_true_iff in Hok as [H1 H2]. destruct (clean_cons v H1 H2) as (b & r & -> & Hb & He).
    cbn [render_item].
    destruct cur as [[| | | | |]|]; try discriminate;
      (erewrite step_sys_line by (try exact Hm; try assumption)); reflexivity.
Qed.

(* ================= the loader on a rendered document = the abstract machine ================= *)
Lemma abs_step_mod s cur x s' :
  abs_step s cur x = Some s' -> s_mod s = mod_of cur -> s_mod s' = mod_of (next_sec cur x).
Proof.
  intros H Hm. destruct x; cbn [abs_step next_sec] in *; unfold omap_st in H;
  repeat match type of H with context [match ?c with _ => _ end] => destruct c eqn:? end;
  try discriminate; inversion H; subst; try assumption; reflexivity.
Qed.

Lemma run_lines_render d : forall s cur,
  s_mod s = mod_of cur -> cur <> Some SecOther ->
  forallb item_ok d = true -> ctx_ok cur d = true ->
  run_lines s (render_doc d) = run_abs s cur d.
Proof.
  induction d as [|x d IH]; intros s cur Hm Hcur Hok Hctx; [reflexivity|].
  cbn in Hok, Hctx. apply andb_true_iff in Hok as [Hx Hok]. apply andb_true_iff in Hctx as [Hf Hctx].
  cbn [render_doc map run_lines run_abs]. rewrite (step_item s cur x) by assumption.
  destruct (abs_step s cur x) as [s'|] eqn:E; [|reflexivity].
  apply IH; try assumption.
  - eapply abs_step_mod; eassumption.
  - destruct x; cbn [next_sec]; try assumption. cbn in Hx. intros Z. inversion Z. subst. discriminate.
Qed.

(* ================= Lemma A: the abstract machine computes the document's denotation ================= *)
Definition sec_after (cur : option sec) (d : list item) : option sec := fold_left next_sec d cur.

Lemma sec_after_snoc cur d x : sec_after cur (d ++ [x]) = next_sec (sec_after cur d) x.
Proof. unfold sec_after. now rewrite fold_left_app. Qed.

Lemma run_abs_snoc d : forall s cur x,
  run_abs s cur (d ++ [x]) = match run_abs s cur d with Some s' => abs_step s' (sec_after cur d) x | None => None end.
Proof.
  induction d as [|y d IH]; intros s cur x; cbn [app run_abs].
  - cbn. now destruct (abs_step s cur x).
  - destruct (abs_step s cur y) as [s'|]; [|reflexivity]. rewrite IH. reflexivity.
Qed.

Lemma tcp_entries_snoc t d : forall cur x,
  tcp_entries t cur (d ++ [x]) = tcp_entries t cur d ++ tcp_contrib t (sec_after cur d) x.
Proof.
  induction d as [|y d IH]; intros cur x; cbn [app tcp_entries].
  - cbn. now rewrite app_nil_r.
  - rewrite IH. now rewrite app_assoc.
Qed.
Lemma http_entries_snoc t d : forall cur x,
  http_entries t cur (d ++ [x]) = http_entries t cur d ++ http_contrib t (sec_after cur d) x.
Proof.
  induction d as [|y d IH]; intros cur x; cbn [app http_entries].
  - cbn. now rewrite app_nil_r.
  - rewrite IH. now rewrite app_assoc.
Qed.
Lemma mtu_entries_snoc d : forall cur x,
  mtu_entries cur (d ++ [x]) = mtu_entries cur d ++ mtu_contrib (sec_after cur d) x.
Proof.
  induction d as [|y d IH]; intros cur x; cbn [app mtu_entries].
  - cbn. now rewrite app_nil_r.
  - rewrite IH. now rewrite app_assoc.
Qed.
Lemma classes_of_snoc d x : classes_of (d ++ [x]) = classes_of d ++ match x with IClasses cs => cs | _ => [] end.
Proof. unfold classes_of. rewrite flat_map_app. cbn. now rewrite app_nil_r. Qed.
Lemma ua_of_snoc d x : ua_of (d ++ [x]) = ua_of d ++ match x with IUaOs rs => rs | _ => [] end.
Proof. unfold ua_of. rewrite flat_map_app. cbn. now rewrite app_nil_r. Qed.

(* grouping, one more entry at the end *)
Lemma group_snoc_label {L S} (es : list (L + S)) l :
  group_entries (es ++ [inl l]) = (fst (group_entries es) ++ [(l, [])], snd (group_entries es)).
Proof.
  induction es as [|[l0|s0] es IH]; cbn [app group_entries].
  - reflexivity.
  - rewrite IH. destruct (group_entries es). reflexivity.
  - rewrite IH. destruct (group_entries es). reflexivity.
Qed.

Lemma push_last_none {L S} (gs : list (L * list S)) s : push_last gs s = None -> gs = [].
Proof.
  induction gs as [|[l ss] gs IH]; [reflexivity|]. cbn [push_last]. destruct gs as [|g gs]; [discriminate|].
  destruct (push_last (g :: gs) s); [discriminate|]. intros _. specialize (IH eq_refl). discriminate.
Qed.

Lemma push_last_cons2 {L S} (e g : L * list S) gs s :
  push_last (e :: g :: gs) s = match push_last (g :: gs) s with Some r' => Some (e :: r') | None => None end.
Proof. destruct e. reflexivity. Qed.

Lemma group_snoc_sig {L S} (es : list (L + S)) s :
  group_entries (es ++ [inr s]) =
  match push_last (fst (group_entries es)) s with
  | Some gs' => (gs', snd (group_entries es))
  | None => ([], snd (group_entries es) ++ [s]) end.
Proof.
  induction es as [|[l0|s0] es IH]; cbn [app group_entries].
  - reflexivity.
  - rewrite IH. destruct (group_entries es) as [gs lead]. cbn [fst snd].
    destruct gs as [|g gs]; [reflexivity|]. rewrite push_last_cons2.
    destruct (push_last (g :: gs) s) as [gs'|] eqn:E; [reflexivity|].
    apply push_last_none in E. discriminate.
  - rewrite IH. destruct (group_entries es) as [gs lead]. cbn [fst snd].
    destruct (push_last gs s); reflexivity.
Qed.

Lemma table_of_label {L S} (es : list (L + S)) l :
  table_of (es ++ [inl l]) = match table_of es with Some gs => Some (gs ++ [(l, [])]) | None => None end.
Proof. unfold table_of. rewrite group_snoc_label. destruct (group_entries es) as [gs [|x lead]]; reflexivity. Qed.

Lemma table_of_sig {L S} (es : list (L + S)) s :
  table_of (es ++ [inr s]) = match table_of es with Some gs => push_last gs s | None => None end.
Proof.
  unfold table_of. rewrite group_snoc_sig. destruct (group_entries es) as [gs lead]. cbn [fst snd].
  destruct (push_last gs s) as [gs'|] eqn:E.
  - destruct lead; cbn; rewrite ?E; reflexivity.
  - destruct lead; cbn; rewrite ?E; reflexivity.
Qed.

Definition mk_state (d : list item) : option lstate :=
  match table_of (tcp_entries SecTQ None d), table_of (tcp_entries SecTS None d),
        table_of (http_entries SecHQ None d), table_of (http_entries SecHS None d),
        table_of (mtu_entries None d) with
  | Some tq, Some ts, Some hq, Some hs, Some mtu =>
      Some {| s_classes := classes_of d; s_mtu := mtu; s_ua := ua_of d; s_treq := tq; s_tresp := ts;
              s_hreq := hq; s_hresp := hs; s_mod := mod_of (sec_after None d) |}
  | _, _, _, _, _ => None end.

Lemma run_abs_mk_state d : run_abs st0 None d = mk_state d.
Proof.
  induction d as [|x d IH] using rev_ind; [reflexivity|].
  rewrite run_abs_snoc, IH. unfold mk_state.
  rewrite !tcp_entries_snoc, !http_entries_snoc, mtu_entries_snoc, classes_of_snoc, ua_of_snoc, sec_after_snoc.
  destruct x; destruct (sec_after None d) as [[| | | | |]|];
    cbn [tcp_contrib http_contrib mtu_contrib sec_eqb next_sec];
    rewrite ?app_nil_r, ?table_of_label, ?table_of_sig;
    destruct (table_of (tcp_entries SecTQ None d)) as [tq|];
    destruct (table_of (tcp_entries SecTS None d)) as [ts|];
    destruct (table_of (http_entries SecHQ None d)) as [hq|];
    destruct (table_of (http_entries SecHS None d)) as [hs|];
    destruct (table_of (mtu_entries None d)) as [mtu|];
    cbn [abs_step omap_st set_classes set_mtu set_ua set_treq set_tresp set_hreq set_hresp set_mod
         s_classes s_mtu s_ua s_treq s_tresp s_hreq s_hresp s_mod];
    try reflexivity;
    repeat match goal with |- context [push_last ?t ?g] => destruct (push_last t g) end; reflexivity.
Qed.

(* ================= the theorem on lines ================= *)
Theorem load_lines_render d :
  doc_ok d = true -> load_lines (render_doc d) = flatten d.
Proof.
  intros Hok. unfold doc_ok in Hok. apply andb_true_iff in Hok as [Hi Hc].
  unfold load_lines. rewrite (run_lines_render d st0 None) by (try assumption; try reflexivity; discriminate).
  rewrite run_abs_mk_state. unfold mk_state, flatten.
  destruct (table_of (tcp_entries SecTQ None d)); destruct (table_of (tcp_entries SecTS None d));
  destruct (table_of (http_entries SecHQ None d)); destruct (table_of (http_entries SecHS None d));
  destruct (table_of (mtu_entries None d)); reflexivity.
Qed.

(* ================= from text to lines ================= *)
Definition nolf (l : bytes) : bool := forallb (fun b => negb (beqb b x0a)) l.

Lemma nolf_app a b : nolf (a ++ b) = nolf a && nolf b.
Proof. apply forallb_app. Qed.

Lemma nolf_of (p : byte -> bool) l : (forall b, p b = true -> beqb b x0a = false) -> forallb p l = true -> nolf l = true.
Proof.
  intros Hp H. unfold nolf. rewrite forallb_forall in *. intros b Hb. rewrite (Hp b (H b Hb)). reflexivity.
Qed.

Lemma nolf_join sep (l : list bytes) : nolf sep = true -> (forall x, In x l -> nolf x = true) -> nolf (join sep l) = true.
Proof.
  intros Hs. induction l as [|x l IH]; intros H; [reflexivity|].
  destruct l as [|y l]; [cbn; apply H; now left|].
  rewrite join_cons2, !nolf_app, Hs, (H x (or_introl eq_refl)). cbn [andb]. apply IH. intros z Hz. apply H. now right.
Qed.

Lemma nolf_no_lf t : no_lf t = true -> nolf t = true.
Proof.
  unfold no_lf, nolf. intros H. rewrite forallb_forall in *. intros b Hb. specialize (H b Hb).
  destruct (beqb b x0a) eqn:E; [|reflexivity]. apply beqb_eq in E. subst. discriminate.
Qed.

Lemma nolf_digits l : forallb is_digit l = true -> nolf l = true.
Proof. apply nolf_of. intros b Hb. apply beqb_neq. intros ->. discriminate. Qed.
Lemma nolf_show_N n : nolf (show_N n) = true.
Proof. apply nolf_digits, show_N_digits. Qed.
Lemma nolf_alnum l : forallb is_alnum l = true -> nolf l = true.
Proof. apply nolf_of. intros b Hb. apply beqb_neq. intros ->. discriminate. Qed.
Lemma nolf_hname l : forallb is_hname l = true -> nolf l = true.
Proof. apply nolf_of. intros b Hb. apply beqb_neq. intros ->. discriminate. Qed.
Lemma nolf_clean_end t : clean_end t = true -> nolf t = true.
Proof. unfold clean_end. intros H. apply andb_true_iff in H as [H _]. now apply nolf_no_lf. Qed.

Lemma nolf_print_tcp g : nolf (print_tcp_sig g) = true.
Proof.
  unfold print_tcp_sig. rewrite !nolf_app.
  assert (H1 : nolf (print_ip_version (t_version g)) = true) by (destruct (t_version g); reflexivity).
  assert (H2 : nolf (print_ttl (t_ittl g)) = true)
    by (destruct (t_ittl g); cbn [print_ttl]; rewrite ?nolf_app, ?nolf_show_N; reflexivity).
  assert (H3 : forall o, nolf (print_opt_num o) = true) by (intros [n|]; cbn; [apply nolf_show_N | reflexivity]).
  assert (H4 : nolf (print_window_size (t_wsize g)) = true)
    by (destruct (t_wsize g); cbn [print_window_size]; rewrite ?nolf_app, ?nolf_show_N; reflexivity).
  assert (H5 : nolf (join comma (map print_tcp_option (t_olayout g))) = true).
  { apply nolf_join; [reflexivity|]. intros x Hx. apply in_map_iff in Hx as (o & <- & _).
    destruct o; cbn [print_tcp_option]; rewrite ?nolf_app, ?nolf_show_N; reflexivity. }
  assert (H6 : nolf (join comma (map print_quirk (t_quirks g))) = true).
  { apply nolf_join; [reflexivity|]. intros x Hx. apply in_map_iff in Hx as (q & <- & _). destruct q; reflexivity. }
  assert (H7 : nolf (print_payload_size (t_pclass g)) = true) by (destruct (t_pclass g); reflexivity).
  rewrite H1, H2, nolf_show_N, !H3, H4, H5, H6, H7. reflexivity.
Qed.

Lemma nolf_print_header h : wf_header h = true -> header_text_ok h = true -> nolf (print_header h) = true.
Proof.
  intros Hwf Ht. destruct (wf_header_parts h Hwf) as (_ & Hn & _). unfold print_header. rewrite !nolf_app.
  rewrite (nolf_hname _ Hn). unfold header_text_ok in Ht.
  destruct (h_optional h), (h_value h) as [v|]; cbn [andb]; rewrite ?nolf_app, ?(nolf_no_lf _ Ht); reflexivity.
Qed.

Lemma nolf_print_http g :
  wf_http g = true -> forallb header_text_ok (hs_horder g) = true -> forallb header_text_ok (hs_habsent g) = true ->
  clean_end (hs_expsw g) = true -> nolf (print_http_sig g) = true.
Proof.
  unfold wf_http. rewrite !andb_true_iff. intros [[[_ _] Hho] Hha] Tho Tha Hsw.
  unfold print_http_sig. rewrite !nolf_app.
  assert (H1 : nolf (print_http_version (hs_version g)) = true) by (destruct (hs_version g); reflexivity).
  assert (H2 : forall l, forallb wf_header l = true -> forallb header_text_ok l = true ->
               nolf (join comma (map print_header l)) = true).
  { intros l W T. apply nolf_join; [reflexivity|]. intros x Hx. apply in_map_iff in Hx as (h & <- & Hh).
    rewrite forallb_forall in W, T. apply nolf_print_header; auto. }
  rewrite H1, !H2, (nolf_clean_end _ Hsw) by assumption. reflexivity.
Qed.

Lemma nolf_render_label l : label_ok l = true -> nolf (render_label l) = true.
Proof.
  unfold label_ok. rewrite !andb_true_iff. intros [[[Hc _] Hn] Hf]. unfold render_label. rewrite !nolf_app.
  rewrite (nolf_no_lf _ Hn).
  destruct (l_ty l); destruct (l_class l) as [c|]; destruct (l_flavor l) as [f|];
    repeat match goal with
           | H : _ && _ = true |- _ => apply andb_true_iff in H; destruct H
           end;
    rewrite ?(nolf_no_lf c), ?(nolf_clean_end f) by assumption; reflexivity.
Qed.

Lemma not_cr_graph_end l : l = [] \/ graph_end l -> match revl l with b :: _ => beqb b x0d | [] => false end = false.
Proof.
  intros [->|(l' & c & -> & Hc)]; [reflexivity|]. rewrite revl_rev, rev_app_distr. cbn.
  apply beqb_neq. intros ->. discriminate.
Qed.

Lemma render_item_line_ok x : item_ok x = true -> line_ok (render_item x) = true.
Proof.
  intros Hok. unfold line_ok. fold (nolf (render_item x)).
  assert (H : nolf (render_item x) = true /\ (render_item x = [] \/ graph_end (render_item x))).
  { destruct x as [|t|cs|rs|sc|l|n|g|g|v|v]; cbn [item_ok render_item] in *.
    - split; [reflexivity | now left].
    - split; [cbn; now apply nolf_clean_end|]. right. destruct t as [|b t]; [exists [], ";"%byte; split; reflexivity|].
      apply graph_end_cons. apply clean_end_graph_end; [assumption | congruence].
    - apply andb_true_iff in Hok as [Hne Hw]. rewrite forallb_forall in Hw. split.
      + rewrite nolf_app. apply andb_true_iff. split; [reflexivity|]. apply nolf_join; [reflexivity|].
        intros c Hc. destruct (word_alnum_parts c (Hw c Hc)) as (A & _). now apply nolf_alnum.
      + right. apply graph_end_app. apply graph_end_join; [destruct cs; [discriminate | congruence]|].
        intros c Hc. now destruct (word_alnum_parts c (Hw c Hc)) as (_ & G & _).
    - apply andb_true_iff in Hok as [Hok Hcl]. apply andb_true_iff in Hok as [Hne Hw].
      pose proof (ua_join_nonempty rs Hne Hw) as Hn. change (bs ",") with comma in *.
      destruct (clean_cons (join comma (map render_rule rs))) as (c & r & E & Hc & Hge);
        [destruct (join comma (map render_rule rs)); [congruence | reflexivity] | assumption|].
      split.
      + rewrite nolf_app. apply andb_true_iff. split; [reflexivity|]. unfold clean in Hcl. apply andb_true_iff in Hcl as [Hcl _].
        now apply nolf_clean_end.
      + right. apply graph_end_app. now rewrite E.
    - destruct sc; try discriminate; (split; [reflexivity | right]);
        [exists (bs "[tcp:request"), "]"%byte | exists (bs "[tcp:response"), "]"%byte | exists (bs "[http:request"), "]"%byte
        | exists (bs "[http:response"), "]"%byte | exists (bs "[mtu"), "]"%byte]; split; reflexivity.
    - split; [rewrite nolf_app, nolf_render_label by assumption; reflexivity|].
      right. apply graph_end_app. now apply graph_end_render_label.
    - apply andb_true_iff in Hok as [H1 H2]. destruct (clean_cons n H1 H2) as (b & r & -> & Hb & He).
      split; [|right; now apply graph_end_app]. rewrite nolf_app. apply andb_true_iff. split; [reflexivity|].
      unfold clean in H2. apply andb_true_iff in H2 as [H2 _]. now apply nolf_clean_end.
    - split; [rewrite nolf_app, nolf_print_tcp; reflexivity|]. right. apply graph_end_app, graph_end_print_tcp.
    - rewrite !andb_true_iff in Hok. destruct Hok as [[[Hwf T1] T2] Hsw].
      split; [rewrite nolf_app, nolf_print_http by assumption; reflexivity|]. right. now apply graph_end_app, graph_end_print_http.
    - split; [rewrite nolf_app, nolf_show_N; reflexivity|]. right. apply graph_end_app, graph_end_show_N.
    - apply andb_true_iff in Hok as [H1 H2]. destruct (clean_cons v H1 H2) as (b & r & -> & Hb & He).
      split; [|right; now apply graph_end_app]. rewrite nolf_app. apply andb_true_iff. split; [reflexivity|].
      unfold clean in H2. apply andb_true_iff in H2 as [H2 _]. now apply nolf_clean_end. }
  destruct H as [H1 H2]. rewrite H1, (not_cr_graph_end _ H2). reflexivity.
Qed.

Lemma lines_render_text d :
  forallb item_ok d = true -> lines (render_text d) = render_doc d.
Proof.
  intros Hok. unfold render_text. apply lines_unlines. unfold render_doc.
  rewrite forallb_forall. intros l Hl. apply in_map_iff in Hl as (x & <- & Hx).
  rewrite forallb_forall in Hok. apply render_item_line_ok. now apply Hok.
Qed.

Theorem load_render_text d :
  doc_ok d = true -> load (render_text d) = flatten d.
Proof.
  intros Hok. unfold load. rewrite lines_render_text; [now apply load_lines_render|].
  unfold doc_ok in Hok. now apply andb_true_iff in Hok as [Hi _].
Qed.

(* ================= rejection: an error anywhere rejects the whole text ================= *)
Lemma run_lines_app l1 : forall s l2,
  run_lines s (l1 ++ l2) = match run_lines s l1 with Some s' => run_lines s' l2 | None => None end.
Proof.
  induction l1 as [|l l1 IH]; intros s l2; [reflexivity|]. cbn [app run_lines].
  destruct (step s l); [apply IH | reflexivity].
Qed.

(* the loader is all-or-nothing: one rejected line rejects the text, whatever precedes or follows it *)
Lemma load_lines_rejects pre l post s :
  run_lines st0 pre = Some s -> step s l = None -> load_lines (pre ++ l :: post) = None.
Proof. intros H1 H2. unfold load_lines. rewrite run_lines_app, H1. cbn [run_lines]. now rewrite H2. Qed.

(* and a loaded text had every one of its lines accepted in turn *)
Lemma load_lines_accepts_all pre l post db :
  load_lines (pre ++ l :: post) = Some db -> exists s s', run_lines st0 pre = Some s /\ step s l = Some s'.
Proof.
  unfold load_lines. rewrite run_lines_app. destruct (run_lines st0 pre) as [s|]; [|discriminate].
  cbn [run_lines]. destruct (step s l) as [s'|] eqn:E; [|discriminate]. intros _. exists s, s'. split; [reflexivity | exact E].
Qed.

(* a `key = value` line before any section header is rejected *)
Lemma step_key_outside s key b r :
  s_mod s = None -> (key = bs "label" \/ key = bs "sig" \/ key = bs "sys") ->
  graph b = true -> graph_end (b :: r) -> step s (key ++ bs " = " ++ b :: r) = None.
Proof.
  intros Hm Hk Hb He.
  destruct Hk as [-> | [-> | ->]]; pose proof (graph_end_app (bs " = ") _ He) as He';
  [pose proof (graph_end_app (bs "label") _ He') as He'' | pose proof (graph_end_app (bs "sig") _ He') as He''
  | pose proof (graph_end_app (bs "sys") _ He') as He'']; cbn [bs bs_to app] in *;
  (rewrite step_trimmed; [| reflexivity | exact He'']); rewrite Hm; reflexivity.
Qed.

(* a signature line the signature parser does not accept is rejected (tcp and http sections, label present or not) *)
Lemma step_bad_tcp_sig s sc b r :
  s_mod s = mod_of (Some sc) -> (sc = SecTQ \/ sc = SecTS) ->
  graph b = true -> graph_end (b :: r) -> tcp_sig_from_str (b :: r) = None ->
  step s (bs "sig = " ++ b :: r) = None.
Proof.
  intros Hm Hsc Hb He Hbad. destruct Hsc as [-> | ->]; cbn [mod_of] in Hm;
  (erewrite step_sig_line by (try exact Hm; assumption)); unfold step_named;
  change (bytes_eqb (bs "sig") (bs "label")) with false;
  change (bytes_eqb (bs "sig") (bs "sig")) with true;
  change (bytes_eqb (bs "tcp") (bs "mtu")) with false; cbn [andb table_of];
  rewrite Hbad; [destruct (s_treq s) | destruct (s_tresp s)]; reflexivity.
Qed.

Lemma step_bad_http_sig s sc b r :
  s_mod s = mod_of (Some sc) -> (sc = SecHQ \/ sc = SecHS) ->
  graph b = true -> graph_end (b :: r) -> http_sig_from_str (b :: r) = None ->
  step s (bs "sig = " ++ b :: r) = None.
Proof.
  intros Hm Hsc Hb He Hbad. destruct Hsc as [-> | ->]; cbn [mod_of] in Hm;
  (erewrite step_sig_line by (try exact Hm; assumption)); unfold step_named;
  change (bytes_eqb (bs "sig") (bs "label")) with false;
  change (bytes_eqb (bs "sig") (bs "sig")) with true;
  change (bytes_eqb (bs "http") (bs "mtu")) with false; cbn [andb table_of];
  rewrite Hbad; [destruct (s_hreq s) | destruct (s_hresp s)]; reflexivity.
Qed.

(* a signature with no label before it in its table makes the document denote nothing, so it is rejected *)
Lemma flatten_sig_before_label g : flatten [ISection SecTQ; ITcpSig g] = None.
Proof. reflexivity. Qed.

(* ================= former known class (C06-list-remainder, repaired): the witness now agrees ================= *)
(* the bundled ua_os line in miniature (formerly the bracketed rule and what follows were cut off) *)
Definition ua_witness : list item := [ISection SecHQ; IUaOs [(bs "Linux", None); (bs "iOS", Some (bs "iPad")); (bs "BSD", None)]].
Lemma ua_witness_former_witness_agrees :
  doc_ok ua_witness = true /\ load (render_text ua_witness) = flatten ua_witness /\
  (exists d, flatten ua_witness = Some d /\ length (db_ua_os d) = 3%nat).
Proof. vm_compute. repeat split. eexists; split; reflexivity. Qed.
