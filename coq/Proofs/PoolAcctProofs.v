(* C18-T2: accounting laws of the worker pools, for every interleaving of the model's
   shared-memory steps. *)
From Coq Require Import List NArith Bool Arith Lia ZifyBool ZifyN ZifyNat Permutation.
From HN Require Import Base.Bytes Model.PoolAcct.
Import ListNotations.
Open Scope N_scope.

(* ---------- lists with one updated position ---------- *)
Section Upd.
  Context {A : Type}.
  Lemma length_upd (l : list A) i v : length (upd l i v) = length l.
  Proof. revert i; induction l as [|x l IH]; intros [|i]; cbn; auto. Qed.
  Lemma nth_upd_same (l : list A) i v d : (i < length l)%nat -> nth i (upd l i v) d = v.
  Proof. revert i; induction l as [|x l IH]; intros [|i] H; cbn in *; try lia; auto. apply IH. lia. Qed.
  Lemma nth_upd_other (l : list A) i j v d : i <> j -> nth j (upd l i v) d = nth j l d.
  Proof. revert i j; induction l as [|x l IH]; intros [|i] [|j] H; cbn; auto; try congruence. Qed.
  Lemma nth_not_default (l : list A) i d : nth i l d <> d -> (i < length l)%nat.
  Proof. intros H. destruct (Nat.lt_ge_cases i (length l)); [auto|]. now rewrite nth_overflow in H. Qed.
  Lemma nth_error_nth (l : list A) i d v : nth_error l i = Some v -> (i < length l)%nat /\ nth i l d = v.
  Proof. intros H. split; [apply nth_error_Some; congruence | now apply nth_error_nth]. Qed.
End Upd.

Fixpoint sumN (l : list N) : N := match l with [] => 0 | x :: r => x + sumN r end.

Lemma sum_upd {A} (f : A -> N) (l : list A) t v d : (t < length l)%nat ->
  sumN (map f (upd l t v)) + f (nth t l d) = sumN (map f l) + f v.
Proof.
  revert t; induction l as [|x l IH]; intros [|t] H; cbn [length map upd nth sumN] in *; try lia.
  specialize (IH t ltac:(lia)). lia.
Qed.

Lemma flat_map_upd_perm {A B} (g : A -> list B) (l : list A) t v d : (t < length l)%nat ->
  Permutation (g (nth t l d) ++ flat_map g (upd l t v)) (g v ++ flat_map g l).
Proof.
  revert t; induction l as [|x l IH]; intros [|t] H; cbn in *; try lia.
  - apply Permutation_app_swap_app.
  - specialize (IH t ltac:(lia)).
    rewrite Permutation_app_swap_app, IH, Permutation_app_swap_app. reflexivity.
Qed.

Lemma concat_flat_map {B} (l : list (list B)) : concat l = flat_map (fun q => q) l.
Proof. induction l; cbn; congruence. Qed.

Definition countN {A} (f : A -> bool) (l : list A) : N := N.of_nat (length (filter f l)).
Lemma countN_snoc {A} (f : A -> bool) l r : countN f (l ++ [r]) = countN f l + (if f r then 1 else 0).
Proof. unfold countN. rewrite filter_app, app_length. cbn. destruct (f r); cbn; lia. Qed.
Lemma countN_split {A} (f : A -> bool) l : countN f l + countN (fun r => negb (f r)) l = N.of_nat (length l).
Proof. unfold countN. induction l as [|x l IH]; cbn; [reflexivity|]. destruct (f x); cbn; lia. Qed.
Lemma sumN_zero {A} (f : A -> N) l : (forall x, In x l -> f x = 0) -> sumN (map f l) = 0.
Proof.
  induction l as [|x l IH]; intros H; cbn [map sumN]; [reflexivity|].
  rewrite (H x), IH; [reflexivity | intros; apply H; now right | now left].
Qed.

Lemma Forall_upd {A} (Q : A -> Prop) l i v : Forall Q l -> Q v -> Forall Q (upd l i v).
Proof.
  intros H Hv. revert i; induction H as [|x l Hx Hl IH]; intros [|i]; cbn; constructor; auto.
Qed.
Lemma Forall_nth_lt {A} (Q : A -> Prop) l i d : Forall Q l -> (i < length l)%nat -> Q (nth i l d).
Proof. intros H Hi. rewrite Forall_forall in H. apply H, nth_In, Hi. Qed.

Lemma len_filter_snoc {A} (f : A -> bool) l r :
  N.of_nat (length (filter f (l ++ [r]))) = N.of_nat (length (filter f l)) + (if f r then 1 else 0).
Proof. exact (countN_snoc f l r). Qed.
Lemma map_filter_snoc {A B} (g : A -> B) (f : A -> bool) l r :
  map g (filter f (l ++ [r])) = map g (filter f l) ++ (if f r then [g r] else []).
Proof. rewrite filter_app, map_app. cbn. now destruct (f r). Qed.

Lemma flat_map_nil_all {A B} (g : A -> list B) l : (forall a, In a l -> g a = []) -> flat_map g l = [].
Proof.
  induction l as [|a l IH]; intros H; [reflexivity|]. cbn [flat_map].
  rewrite (H a (or_introl eq_refl)), IH; [reflexivity|]. intros; apply H; now right.
Qed.

Lemma concat_repeat_nil {B} n : concat (repeat (@nil B) n) = [].
Proof. induction n; cbn; auto. Qed.
Lemma flat_map_repeat_nil {A B} (g : A -> list B) a n : g a = [] -> flat_map g (repeat a n) = [].
Proof. intros H. induction n; cbn; rewrite ?H; auto. Qed.

Section Acct.
  Variables (P St : Type) (shard : P -> option nat) (analyse : St -> P -> St * bool) (kind : pool_kind).
  Variable nw : nat.
  (* the flow hash yields a valid worker index (C18-T1) *)
  Hypothesis worker_valid : forall p, (worker_of P shard p < nw)%nat.

  Notation pst := (pstate P St).
  Notation n_queued := (n_queued P St).
  Notation n_dropped := (n_dropped P St).
  Notation n_discarded := (n_discarded P St).
  Notation dropped_at := (dropped_at P St).
  Notation queued_packets := (queued_packets P St).
  Notation analysed_packets := (analysed_packets P St).

  Definition busy (pc : dpc P) : N := match pc with Idle => 0 | _ => 1 end.
  Definition d_done (pc : dpc P) : N := match pc with Full1 _ _ => 1 | _ => 0 end.
  Definition called (pc : dpc P) : N := match pc with Called _ => 1 | _ => 0 end.
  Definition sentok (pc : dpc P) : list P := match pc with SentOk p _ => [p] | _ => [] end.
  Definition pc_ok (pc : dpc P) : Prop :=
    match pc with
    | Counted _ w | Full _ w | Full1 _ w => (w < nw)%nat
    | SentOk _ w => (w < nw)%nat /\ kind = PTcp
    | _ => True
    end.

  Record Inv (x : pst) : Prop := {
    i_lq : length (queues P St x) = nw;
    i_lc : length (c_wdropped P St x) = nw;
    i_ok : Forall pc_ok (pcs P St x);
    i_calls : calls P St x = N.of_nat (length (rets P St x)) + sumN (map busy (pcs P St x));
    i_drop : c_dropped P St x = n_dropped x + sumN (map d_done (pcs P St x));
    i_disp : match kind with
             | PTcp => c_dispatched P St x = n_queued x
             | PHttp => c_dispatched P St x + sumN (map called (pcs P St x)) = calls P St x
             | PTls => c_dispatched P St x + n_discarded x + sumN (map called (pcs P St x)) = calls P St x
             end;
    i_wd : forall w, (w < nw)%nat -> nth w (c_wdropped P St x) 0 = dropped_at x w;
    i_perm : Permutation (queued_packets x ++ flat_map sentok (pcs P St x))
                         (analysed_packets x ++ concat (queues P St x))
  }.

  Lemma inv_init nt s0 : Inv (init P St nw nt s0).
  Proof.
    constructor; cbn [init queues c_wdropped pcs calls rets c_dropped c_dispatched analysed].
    - apply repeat_length.
    - apply repeat_length.
    - apply Forall_forall. intros pc H. apply repeat_spec in H. subst. exact I.
    - rewrite sumN_zero; [reflexivity|]. intros pc H. apply repeat_spec in H. now subst.
    - rewrite sumN_zero; [reflexivity|]. intros pc H. apply repeat_spec in H. now subst.
    - assert (Z : sumN (map called (repeat Idle nt)) = 0).
      { apply sumN_zero. intros pc H. apply repeat_spec in H. now subst. }
      destruct kind; cbn; rewrite ?Z; reflexivity.
    - intros w Hw. unfold dropped_at. cbn. now rewrite nth_repeat.
    - unfold queued_packets, analysed_packets. cbn.
      rewrite concat_repeat_nil, flat_map_repeat_nil by reflexivity. constructor.
  Qed.

  (* facts about replacing the program counter of thread t *)
  Ltac pc_facts x t v Hlt :=
    pose proof (sum_upd busy (pcs P St x) t v Idle Hlt) as Sb;
    pose proof (sum_upd d_done (pcs P St x) t v Idle Hlt) as Sd;
    pose proof (sum_upd called (pcs P St x) t v Idle Hlt) as Sc;
    pose proof (flat_map_upd_perm sentok (pcs P St x) t v Idle Hlt) as Sp.

  Lemma inv_call x t p : Inv x -> Inv (pstep P St shard analyse kind x (Call t p)).
  Proof.
    intros I. cbn [pstep].
    destruct (nth_error (pcs P St x) t) as [pc|] eqn:E; [|exact I].
    destruct (nth_error_nth _ _ Idle _ E) as [Hlt Hpc].
    destruct pc; try exact I.
    pc_facts x t (@Called P p) Hlt. rewrite Hpc in *. cbn [busy d_done called sentok app] in *.
    destruct I as [Iq Ic Iok Ica Idr Idi Iwd Ipe].
    constructor; cbn [queues c_wdropped pcs calls rets c_dropped c_dispatched analysed];
      unfold n_queued, n_dropped, n_discarded, dropped_at, queued_packets, analysed_packets in *;
      cbn [queues c_wdropped pcs calls rets c_dropped c_dispatched analysed] in *; auto.
    - apply Forall_upd; [auto | exact I].
    - lia.
    - lia.
    - destruct kind; lia.
    - rewrite Sp. exact Ipe.
  Qed.

  Lemma inv_work x w : Inv x -> Inv (work P St analyse x w).
  Proof.
    intros I. unfold work.
    destruct (nth w (queues P St x) []) as [|p rest] eqn:Eq; [exact I|].
    assert (Hw : (w < nw)%nat).
    { rewrite <- (i_lq x I). apply (nth_not_default _ _ []). rewrite Eq. discriminate. }
    destruct (nth_error (wstates P St x) w) as [s|]; [|exact I].
    destruct (analyse s p) as [s' err].
    destruct I as [Iq Ic Iok Ica Idr Idi Iwd Ipe].
    constructor; cbn [queues c_wdropped pcs calls rets c_dropped c_dispatched analysed];
      unfold n_queued, n_dropped, n_discarded, dropped_at, queued_packets, analysed_packets in *;
      cbn [queues c_wdropped pcs calls rets c_dropped c_dispatched analysed] in *; auto.
    - now rewrite length_upd.
    - rewrite map_app. cbn [map fst snd].
      assert (Hw2 : (w < length (queues P St x))%nat) by lia.
      pose proof (flat_map_upd_perm (fun q : list P => q) (queues P St x) w rest [] Hw2) as K.
      rewrite <- !concat_flat_map, Eq in K. cbn [app] in K.
      rewrite Ipe, <- app_assoc. apply Permutation_app_head. cbn [app].
      apply (Permutation_app_inv_l rest).
      rewrite <- K. apply Permutation_middle.
  Qed.

  Ltac unf :=
    unfold set_pc, add_dispatched, add_dropped, add_wdropped, enqueue, finish;
    cbn [queues c_wdropped pcs calls rets c_dropped c_dispatched analysed wstates];
    unfold n_queued, n_dropped, n_discarded, dropped_at, queued_packets, analysed_packets in *;
    cbn [queues c_wdropped pcs calls rets c_dropped c_dispatched analysed wstates] in *.

  Lemma perm_enqueue (qs : list (list P)) w p : (w < length qs)%nat ->
    Permutation (concat (upd qs w (nth w qs [] ++ [p]))) (p :: concat qs).
  Proof.
    intros Hw.
    pose proof (flat_map_upd_perm (fun q : list P => q) qs w (nth w qs [] ++ [p]) [] Hw) as K.
    rewrite <- !concat_flat_map in K.
    apply (Permutation_app_inv_l (nth w qs [])). rewrite K.
    rewrite <- app_assoc. apply Permutation_app_head. cbn [app]. reflexivity.
  Qed.

  (* try_send, reached from `Called p` (TCP) or `Counted p w` (HTTP, TLS) *)
  Lemma inv_try_send x t p w full pc0 :
    Inv x -> (t < length (pcs P St x))%nat -> nth t (pcs P St x) Idle = pc0 ->
    busy pc0 = 1 -> d_done pc0 = 0 -> sentok pc0 = [] -> (kind = PTcp \/ called pc0 = 0) -> (w < nw)%nat ->
    Inv (try_send P St kind x t p w full).
  Proof.
    intros I Hlt Hpc Hb Hd Hs Hc Hw. unfold try_send.
    destruct I as [Iq Ic Iok Ica Idr Idi Iwd Ipe].
    destruct full.
    - (* refused *)
      pc_facts x t (@Full P p w) Hlt. rewrite Hpc, ?Hb, ?Hd, ?Hs in *. cbn [busy d_done called sentok app] in *.
      constructor; unf; auto.
      + apply Forall_upd; [auto | exact Hw].
      + lia.
      + lia.
      + destruct Hc as [-> | Hc]; [auto|]. destruct kind; lia.
      + rewrite Sp. exact Ipe.
    - assert (Hw2 : (w < length (queues P St x))%nat) by lia.
      pose proof (perm_enqueue (queues P St x) w p Hw2) as Kq.
      destruct kind eqn:Ek; rewrite ?Ek in Idi.
      + (* TCP: enqueued, the counter comes next *)
        pc_facts x t (@SentOk P p w) Hlt. rewrite Hpc, ?Hb, ?Hd, ?Hs in *. cbn [busy d_done called sentok app] in *.
        constructor; unf; rewrite ?Ek; auto.
        * now rewrite length_upd.
        * apply Forall_upd; [auto | split; auto].
        * lia.
        * lia.
        * rewrite Kq. rewrite <- Permutation_middle.
          rewrite <- Ipe. rewrite Sp. symmetry. apply Permutation_middle.
      + (* HTTP: enqueued, return Queued *)
        pc_facts x t (@Idle P) Hlt. rewrite Hpc, ?Hb, ?Hd, ?Hs in *. cbn [busy d_done called sentok app] in *.
        destruct Hc as [Hc | Hc]; [discriminate|].
        constructor; unf; rewrite ?len_filter_snoc, ?map_filter_snoc, ?app_length; cbn [r_queued r_worker r_pkt negb andb length]; rewrite ?Ek; auto.
        * now rewrite length_upd.
        * apply Forall_upd; [auto | exact I].
        * lia.
        * lia.
        * lia.
        * intros w' Hw'. specialize (Iwd w' Hw'). rewrite ?len_filter_snoc. cbn [r_queued r_worker negb andb]. lia.
        * rewrite Kq, Sp, <- app_assoc. cbn [app].
          etransitivity; [|apply Permutation_middle].
          etransitivity; [symmetry; apply Permutation_middle|].
          apply perm_skip. exact Ipe.
      + (* TLS: same code path *)
        pc_facts x t (@Idle P) Hlt. rewrite Hpc, ?Hb, ?Hd, ?Hs in *. cbn [busy d_done called sentok app] in *.
        destruct Hc as [Hc | Hc]; [discriminate|].
        constructor; unf; rewrite ?len_filter_snoc, ?map_filter_snoc, ?app_length; cbn [r_queued r_worker r_pkt negb andb length]; rewrite ?Ek; auto.
        * now rewrite length_upd.
        * apply Forall_upd; [auto | exact I].
        * lia.
        * lia.
        * lia.
        * intros w' Hw'. specialize (Iwd w' Hw'). rewrite ?len_filter_snoc. cbn [r_queued r_worker negb andb]. lia.
        * rewrite Kq, Sp, <- app_assoc. cbn [app].
          etransitivity; [|apply Permutation_middle].
          etransitivity; [symmetry; apply Permutation_middle|].
          apply perm_skip. exact Ipe.
  Qed.

  Lemma inv_tick x t full : Inv x -> Inv (tick P St shard kind x t full).
  Proof.
    intros I. unfold tick.
    destruct (nth t (pcs P St x) Idle) as [|p|p w|p w|p w|p w] eqn:Hpc; [exact I| | | | |].
    all: assert (Hlt : (t < length (pcs P St x))%nat) by (apply (nth_not_default _ _ Idle); rewrite Hpc; discriminate).
    all: pose proof (Forall_nth_lt pc_ok _ t Idle (i_ok x I) Hlt) as Hok; rewrite Hpc in Hok; cbn [pc_ok] in Hok.
    - (* Called *)
      destruct kind eqn:Ek.
      + rewrite <- Ek. apply (inv_try_send x t p _ full (Called p)); auto.
      + (* HTTP: dispatched++ *)
        destruct I as [Iq Ic Iok Ica Idr Idi Iwd Ipe]. rewrite ?Ek in Idi.
        pc_facts x t (@Counted P p (worker_of P shard p)) Hlt. rewrite Hpc in *. cbn [busy d_done called sentok app] in *.
        constructor; unf; rewrite ?Ek; auto.
        * apply Forall_upd; [auto | apply worker_valid].
        * lia.
        * lia.
        * lia.
        * rewrite Sp. exact Ipe.
      + (* TLS *)
        destruct I as [Iq Ic Iok Ica Idr Idi Iwd Ipe]. rewrite ?Ek in Idi.
        destruct (shard p) as [w|] eqn:Es.
        * pc_facts x t (@Counted P p w) Hlt. rewrite Hpc in *. cbn [busy d_done called sentok app] in *.
          constructor; unf; rewrite ?Ek; auto.
          -- apply Forall_upd; [auto |]. cbn [pc_ok]. pose proof (worker_valid p) as V. unfold worker_of in V. now rewrite Es in V.
          -- lia.
          -- lia.
          -- lia.
          -- rewrite Sp. exact Ipe.
        * (* no flow: dropped++ ; return Dropped *)
          pc_facts x t (@Idle P) Hlt. rewrite Hpc in *. cbn [busy d_done called sentok app] in *.
          constructor; unf; rewrite ?len_filter_snoc, ?map_filter_snoc, ?app_length; cbn [r_queued r_worker r_pkt negb andb length]; rewrite ?Ek; auto.
          -- apply Forall_upd; [auto | exact I].
          -- lia.
          -- lia.
          -- lia.
          -- intros w' Hw'. specialize (Iwd w' Hw'). rewrite ?len_filter_snoc. cbn [r_queued r_worker negb andb]. lia.
          -- rewrite app_nil_r, Sp. exact Ipe.
    - (* Counted *)
      apply (inv_try_send x t p w full (Counted p w)); auto.
    - (* SentOk: TCP, dispatched++ ; return Queued *)
      destruct Hok as [Hw Ek].
      destruct I as [Iq Ic Iok Ica Idr Idi Iwd Ipe]. rewrite ?Ek in Idi.
      pc_facts x t (@Idle P) Hlt. rewrite Hpc in *. cbn [busy d_done called sentok app] in *.
      constructor; unf; rewrite ?len_filter_snoc, ?map_filter_snoc, ?app_length; cbn [r_queued r_worker r_pkt negb andb length]; rewrite ?Ek; auto.
      + apply Forall_upd; [auto | exact I].
      + lia.
      + lia.
      + lia.
      + intros w' Hw'. specialize (Iwd w' Hw'). rewrite ?len_filter_snoc. cbn [r_queued r_worker negb andb]. lia.
      + rewrite <- Ipe, <- app_assoc. apply Permutation_app_head. cbn [app]. exact Sp.
    - (* Full: dropped++ *)
      destruct I as [Iq Ic Iok Ica Idr Idi Iwd Ipe].
      pc_facts x t (@Full1 P p w) Hlt. rewrite Hpc in *. cbn [busy d_done called sentok app] in *.
      constructor; unf; auto.
      + apply Forall_upd; [auto | exact Hok].
      + lia.
      + lia.
      + destruct kind; lia.
      + rewrite Sp. exact Ipe.
    - (* Full1: worker_dropped[w]++ ; return Dropped *)
      destruct I as [Iq Ic Iok Ica Idr Idi Iwd Ipe].
      pc_facts x t (@Idle P) Hlt. rewrite Hpc in *. cbn [busy d_done called sentok app] in *.
      constructor; unf; rewrite ?len_filter_snoc, ?map_filter_snoc, ?app_length; cbn [r_queued r_worker r_pkt negb andb length]; auto.
      + now rewrite length_upd.
      + apply Forall_upd; [auto | exact I].
      + lia.
      + lia.
      + destruct kind; rewrite ?len_filter_snoc; cbn [r_queued r_worker]; lia.
      + intros w' Hw'. specialize (Iwd w' Hw'). rewrite ?len_filter_snoc. cbn [r_queued r_worker negb andb].
        destruct (Nat.eq_dec w w') as [<-|Hne].
        * rewrite nth_upd_same by lia. rewrite Nat.eqb_refl. lia.
        * rewrite nth_upd_other by auto. apply Nat.eqb_neq in Hne. rewrite Hne. lia.
      + rewrite app_nil_r, Sp. exact Ipe.
  Qed.

  Lemma inv_step x e : Inv x -> Inv (pstep P St shard analyse kind x e).
  Proof. destruct e; cbn [pstep]; [apply inv_call | apply inv_tick | apply inv_work]. Qed.

  Lemma inv_run es : forall x, Inv x -> Inv (run_events P St shard analyse kind x es).
  Proof.
    unfold run_events. induction es as [|e es IH]; intros x I; cbn [fold_left]; [exact I|].
    apply IH, inv_step, I.
  Qed.

  Theorem accounting nt s0 es :
    let x := run_events P St shard analyse kind (init P St nw nt s0) es in
    quiescent P St x = true ->
    calls P St x = n_queued x + n_dropped x
    /\ Permutation (queued_packets x) (analysed_packets x)
    /\ c_dropped P St x = n_dropped x
    /\ dispatched_law_b P St kind x = true
    /\ (forall w, (w < nw)%nat -> nth w (c_wdropped P St x) 0 = dropped_at x w)
    /\ stats_agree_b P St nw x = true.
  Proof.
    intros x Hq. pose proof (inv_run es _ (inv_init nt s0)) as I. fold x in I.
    unfold quiescent in Hq. apply andb_true_iff in Hq as [Hidle Hnil].
    rewrite forallb_forall in Hidle, Hnil.
    assert (Zb : sumN (map busy (pcs P St x)) = 0).
    { apply sumN_zero. intros pc Hin. specialize (Hidle pc Hin). now destruct pc. }
    assert (Zd : sumN (map d_done (pcs P St x)) = 0).
    { apply sumN_zero. intros pc Hin. specialize (Hidle pc Hin). now destruct pc. }
    assert (Zc : sumN (map called (pcs P St x)) = 0).
    { apply sumN_zero. intros pc Hin. specialize (Hidle pc Hin). now destruct pc. }
    assert (Zs : flat_map sentok (pcs P St x) = []).
    { apply flat_map_nil_all. intros pc Hin. specialize (Hidle pc Hin). now destruct pc. }
    assert (Zq : concat (queues P St x) = []).
    { rewrite concat_flat_map. apply flat_map_nil_all. intros q Hin. specialize (Hnil q Hin). now destruct q. }
    destruct I as [Iq Ic Iok Ica Idr Idi Iwd Ipe].
    rewrite Zb in Ica. rewrite Zd in Idr. rewrite Zc in Idi. rewrite Zs, Zq, !app_nil_r in Ipe.
    assert (Hsplit : n_queued x + n_dropped x = N.of_nat (length (rets P St x))).
    { apply (countN_split (r_queued P) (rets P St x)). }
    assert (Hdrop : c_dropped P St x = n_dropped x) by lia.
    repeat split.
    - lia.
    - exact Ipe.
    - exact Hdrop.
    - unfold dispatched_law_b. destruct kind; lia.
    - exact Iwd.
    - unfold stats_agree_b. apply andb_true_iff. split; [lia|].
      apply forallb_forall. intros w Hw. apply in_seq in Hw. rewrite (Iwd w) by lia. lia.
  Qed.
End Acct.

(* ---------- the hypotheses are satisfiable; regression for the former HTTP class ---------- *)
(* TCP pool, 2 workers, 2 dispatcher threads interleaved; thread 1 finds its queue full *)
Example accounting_example :
  let shard := fun p : nat => Some (p mod 2)%nat in
  let x := run_events nat unit shard (fun s _ => (s, false)) PTcp (init nat unit 2 2 tt)
             [Call 0 4%nat; Call 1 7%nat; Tick 0 false; Tick 1 true; Tick 0 false; Tick 1 false; Work 0; Tick 1 false] in
  quiescent nat unit x = true /\ n_queued nat unit x = 1 /\ n_dropped nat unit x = 1 /\
  c_dispatched nat unit x = 1 /\ c_dropped nat unit x = 1 /\ c_wdropped nat unit x = [0; 1] /\
  analysed_packets nat unit x = [4%nat].
Proof. vm_compute. repeat split; reflexivity. Qed.

(* regression (fix 93cdf08): HTTP pool, one packet reported Queued, analysed, analysis returns Err:
   worker 0 no longer "dropped" it *)
Example http_error_not_counted :
  let x := run_events nat unit (fun _ => Some 0%nat) (fun s _ => (s, true)) PHttp (init nat unit 1 1 tt)
             [Call 0 5%nat; Tick 0 false; Tick 0 false; Work 0] in
  quiescent nat unit x = true /\ analysed nat unit x = [(0%nat, 5%nat, true)] /\
  n_queued nat unit x = 1 /\ n_dropped nat unit x = 0 /\ c_dropped nat unit x = 0 /\
  c_wdropped nat unit x = [0] /\ stats_agree_b nat unit 1 x = true.
Proof. vm_compute. repeat split; reflexivity. Qed.
