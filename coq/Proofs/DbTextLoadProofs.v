(* The text-level loader statement on ARBITRARY database texts:
     ascii_edges t = true -> load t = verdict_opt (spec_load t)
   composed from the line-level reader equalities (DbTextProofs, SigEquivProofs) and the snoc machinery of
   DbLoadProofs (abs_step / run_abs / mk_state / flatten). *)
From Coq Require Import List NArith Bool Lia ZifyBool ZifyN.
From Coq Require Import Strings.Byte.
From HN Require Import Base.Bytes Model.SigAst Model.SigText Model.DbLoad Spec.SigTextSpec Spec.DbLoadSpec Spec.DbDocSpec
  Proofs.SigTextProofs Proofs.SigSpecProofs Proofs.SigEquivProofs Proofs.DbLoadProofs Proofs.DbTextProofs.
Import ListNotations.
Open Scope N_scope.

Arguments beqb !a !b.

(* ================= (i) lines ================= *)
Lemma drop_while_all_app p l r : forallb p l = true -> drop_while p (l ++ r) = drop_while p r.
Proof. induction l as [|b l IH]; [reflexivity|]. cbn. intros H. apply andb_true_iff in H as [Hb Hl]. rewrite Hb. auto. Qed.

Lemma drop_while_nonempty_app p l r : drop_while p l <> [] -> drop_while p (l ++ r) = drop_while p l ++ r.
Proof. induction l as [|b l IH]; cbn; [congruence|]. destruct (p b); [assumption | reflexivity]. Qed.

Lemma drop_while_nil_all p l : drop_while p l = [] -> forallb p l = true.
Proof. induction l as [|b l IH]; [reflexivity|]. cbn. destruct (p b); [assumption | discriminate]. Qed.

Lemma trim_ascii_snoc l b : isspace b = true -> trim_ascii (l ++ [b]) = trim_ascii l.
Proof.
  intros Hb. unfold trim_ascii. destruct (drop_while isspace l) as [|a A] eqn:E.
  - rewrite drop_while_all_app by (now apply drop_while_nil_all). cbn [drop_while]. now rewrite Hb.
  - rewrite drop_while_nonempty_app by (rewrite E; discriminate). rewrite E.
    rewrite (revl_rev' ((a :: A) ++ [b])), rev_app_distr. cbn [rev app drop_while]. rewrite Hb. rewrite !revl_rev'. reflexivity.
Qed.

Lemma non_ascii_edge_snoc l b : isspace b = true -> non_ascii_edge (l ++ [b]) = non_ascii_edge l.
Proof. intros Hb. unfold non_ascii_edge. now rewrite trim_ascii_snoc. Qed.

Lemma revl_cons b l : revl (b :: l) = revl l ++ [b].
Proof. now rewrite !revl_rev'. Qed.

Lemma text_lines_cons b l cur : text_lines (b :: l) cur =
  if beqb b x0a then revl cur :: text_lines l [] else text_lines l (b :: cur).
Proof.
  cbn [text_lines]. destruct (beqb b x0a) eqn:E.
  - apply beqb_eq in E. subst. reflexivity.
  - destruct (b2n b =? 10) eqn:X; [|reflexivity]. assert (b = x0a) by (apply b2n_inj; cbn; lia). subst. now rewrite beqb_refl in E.
Qed.

Lemma strip_cr_cases cur : (exists c, cur = x0d :: c /\ strip_cr cur = c) \/ (strip_cr cur = cur /\ forall c, cur <> x0d :: c).
Proof.
  destruct cur as [|b c]; [right; split; [reflexivity | discriminate]|].
  destruct (beqb b x0d) eqn:E.
  - apply beqb_eq in E. subst. left. exists c. split; reflexivity.
  - right. split; [destruct b; try reflexivity; discriminate | intros c' H; inversion H; subst; now rewrite beqb_refl in E].
Qed.

Lemma line_trim cur : non_ascii_edge (revl cur) = false -> trim (revl (strip_cr cur)) = trim_ascii (revl cur).
Proof.
  intros H. destruct (strip_cr_cases cur) as [(c & -> & ->) | [-> _]]; [|now apply trim_eq_trim_ascii].
  rewrite revl_cons in *. rewrite non_ascii_edge_snoc in H by reflexivity. rewrite trim_ascii_snoc by reflexivity.
  now apply trim_eq_trim_ascii.
Qed.

Lemma lines_trim : forall l cur, existsb non_ascii_edge (text_lines l cur) = false ->
  map trim (lines_aux l cur) = map trim_ascii (text_lines l cur).
Proof.
  induction l as [|b l IH]; intros cur H.
  - cbn [lines_aux text_lines] in *. destruct cur; [reflexivity|]. cbn [map existsb] in *.
    apply orb_false_iff in H as [H _]. now rewrite trim_eq_trim_ascii.
  - rewrite text_lines_cons in *. cbn [lines_aux]. destruct (beqb b x0a).
    + cbn [existsb map] in *. apply orb_false_iff in H as [H1 H2]. rewrite IH by assumption. now rewrite line_trim.
    + now apply IH.
Qed.

(* the body of `step` after trimming *)
Definition step_line (s : lstate) (line : bytes) : option lstate :=
  match line with
  | [] => Some s
  | c :: _ =>
    if beqb c ";"%byte then Some s
    else if starts_with (bs "classes") line then
      match parse_classes line with Some (cs, []) => Some (set_classes s (s_classes s ++ cs)) | _ => None end
    else if starts_with (bs "ua_os") line then
      match parse_ua_os line with Some (us, []) => Some (set_ua s (s_ua s ++ us)) | _ => None end
    else if beqb c "["%byte && ends_with_b "]"%byte line then
      match parse_module line with
      | Some (md, []) => if is_known_module md then Some (set_mod s (Some md)) else None
      | _ => None end
    else
      match s_mod s with
      | Some (m, d) =>
          match parse_named_value line with
          | Some (name, value) => step_named s m d name value
          | None => None end
      | None => None
      end
  end.
Lemma step_step_line s raw : step s raw = step_line s (trim raw).
Proof. reflexivity. Qed.

Fixpoint run_trimmed (s : lstate) (ls : list bytes) : option lstate :=
  match ls with [] => Some s | l :: r => match step_line s l with Some s' => run_trimmed s' r | None => None end end.
Lemma run_lines_trimmed ls : forall s, run_lines s ls = run_trimmed s (map trim ls).
Proof. induction ls as [|l ls IH]; intros s; [reflexivity|]. cbn [run_lines map run_trimmed]. rewrite step_step_line. destruct (step_line s (trim l)); auto. Qed.

(* ================= (ii)/(iii) one line: the loader's dispatch vs the reference's classification ================= *)
(* what a classified line contributes, given the section it lies in; None = the text is not a database *)
Definition to_item (cur : option sec) (sl : sline) : option item :=
  match sl with
  | SSkip => Some IBlank
  | SClasses cs => Some (IClasses cs)
  | SUaOs rs => Some (IUaOs rs)
  | SSection SecOther => None
  | SSection s => Some (ISection s)
  | SBad => None
  | SKey k v =>
      match cur, k with
      | Some (SecTQ | SecTS | SecHQ | SecHS), KLabel => omap ILabel (spec_label v)
      | Some SecMtu, KLabel => Some (IMtuLabel v)
      | Some (SecTQ | SecTS), KSig => omap ITcpSig (spec_tcp v)
      | Some (SecHQ | SecHS), KSig => omap IHttpSig (spec_http v)
      | Some SecMtu, KSig => omap IMtuSig (rd_mtu v)
      | Some (SecTQ | SecTS | SecHQ | SecHS), KSys => Some (ISys v)
      | _, _ => None end
  end.

(* classification of a line that is neither empty, a comment, nor a [..] line *)
Definition classify_kv (l : bytes) : sline :=
  match cut "="%byte l with
  | None => SBad
  | Some (lhs, rhs) =>
      let k := rtrim_blank lhs in
      let v := drop_while isblank rhs in
      if is (bs "classes") k then match rd_classes v with Some cs => SClasses cs | None => SBad end
      else if is (bs "ua_os") k then match rd_ua_os v with Some rs => SUaOs rs | None => SBad end
      else if word alnum k then
        SKey (if is (bs "label") k then KLabel else if is (bs "sig") k then KSig
              else if is (bs "sys") k then KSys else KOther) v
      else SBad
  end.

Lemma ends_with_unsnoc c l : ends_with_b c l = match unsnoc l with Some (_, e) => beqb e c | None => false end.
Proof. unfold ends_with_b, unsnoc. now destruct (revl l). Qed.

Lemma classify_nonbracket c rest :
  beqb c ";"%byte = false -> beqb c "["%byte && ends_with_b "]"%byte (c :: rest) = false ->
  classify (c :: rest) = classify_kv (c :: rest).
Proof. intros H1 H2. unfold classify. rewrite H1. rewrite ends_with_unsnoc in H2. rewrite H2. reflexivity. Qed.

Lemma starts_with_inv p : forall l, starts_with p l = true -> exists r, l = p ++ r.
Proof.
  induction p as [|x p IH]; intros l H; [now exists l|]. destruct l as [|y l]; [discriminate|].
  cbn in H. apply andb_true_iff in H as [H1 H2]. apply beqb_eq in H1. subst. destruct (IH l H2) as (r & ->). now exists r.
Qed.
Lemma starts_with_app p r : starts_with p (p ++ r) = true.
Proof. induction p as [|x p IH]; [reflexivity|]. cbn. now rewrite beqb_refl. Qed.

(* first byte of the key *)
Lemma key_first c0 rest lhs rhs : isblank c0 = false -> beqb c0 "="%byte = false ->
  cut "="%byte (c0 :: rest) = Some (lhs, rhs) -> exists k', rtrim_blank lhs = c0 :: k'.
Proof.
  intros Hb He C. apply cut_inv in C as [E _]. destruct lhs as [|x lhs'].
  - cbn in E. inversion E. subst. now rewrite beqb_refl in He.
  - cbn in E. inversion E. subst x. destruct (rtrim_blank_spec (c0 :: lhs')) as (bl & E2 & Hbl & _).
    destruct (rtrim_blank (c0 :: lhs')) as [|k0 k'].
    + cbn in E2. rewrite <- E2 in Hbl. cbn in Hbl. rewrite Hb in Hbl. discriminate.
    + cbn in E2. inversion E2. now exists k'.
Qed.

Lemma is_first t c0 k' : (match t with b :: _ => beqb c0 b = false | [] => True end) -> is t (c0 :: k') = false.
Proof. unfold is. destruct t as [|b t]; [reflexivity|]. cbn [bytes_eqb]. intros ->. reflexivity. Qed.

(* ---- list values: the loader's list parser (whole value consumed) = the reference's list reader ---- *)
Definition rd_word (f : bytes) : option bytes := if word alnum f then Some f else None.

Lemma cmp_word : cmp_ok alphanumeric1 rd_word.
Proof. intros f v k H Hk. unfold rd_word in H. destruct (word alnum f) eqn:W; inversion H; subst. now apply alphanumeric1_word. Qed.

Lemma snd_word : snd_ok alphanumeric1 rd_word.
Proof.
  intros i w r H. unfold alphanumeric1, span1 in H. destruct (span_spec is_alnum i) as (S1 & S2 & _).
  destruct (span is_alnum i) as [a c]. cbn [fst snd] in *. destruct a as [|a0 a']; inversion H; subst.
  exists (a0 :: a'). repeat split.
  - unfold clean. rewrite (avoid_of is_alnum colon_b), (avoid_of is_alnum comma_b) by (assumption || reflexivity). reflexivity.
  - unfold rd_word, word. cbn [nonempty andb].
    assert (W : forallb alnum (a0 :: a') = true) by (rewrite forallb_forall in *; intros b Hb; rewrite alnum_is_alnum'; auto).
    now rewrite W.
Qed.

Lemma avoid_p0f c l : is_name_char c = false -> forallb is_name_char l = true -> avoid c l = true.
Proof. intros Hc H. now apply (avoid_of is_name_char). Qed.

Lemma cut_none c l : avoid c l = true -> cut c l = None.
Proof. induction l as [|x q IH]; [reflexivity|]. cbn. intros A. apply andb_true_iff in A as [Ax Aq]. destruct (beqb x c); [discriminate|]. now rewrite IH. Qed.

Lemma rd_ua_rule_render x : rule_ok x = true -> rd_ua_rule (render_rule x) = Some x.
Proof.
  destruct x as [name [v|]]; unfold rule_ok, render_rule; cbn [fst snd]; intros H.
  - apply andb_true_iff in H as [Hn Hv]. destruct (word_p0f_model name Hn) as [_ An]. unfold rd_ua_rule.
    change (bs "=[" ++ v ++ bs "]") with ("="%byte :: "["%byte :: v ++ ["]"%byte]).
    rewrite cut_app by (now apply avoid_p0f). rewrite unsnoc_snoc.
    change (beqb "["%byte "["%byte) with true. change (beqb "]"%byte "]"%byte) with true. cbn [andb]. now rewrite Hn, Hv.
  - rewrite andb_true_r in H. rewrite app_nil_r. destruct (word_p0f_model name H) as [_ An]. unfold rd_ua_rule.
    rewrite cut_none by (now apply avoid_p0f). now rewrite H.
Qed.

Lemma rd_ua_rule_inv f x : rd_ua_rule f = Some x -> f = render_rule x /\ rule_ok x = true.
Proof.
  unfold rd_ua_rule. destruct (cut "="%byte f) as [[name r]|] eqn:C.
  - destruct r as [|b r']; [discriminate|]. destruct (unsnoc r') as [[v e]|] eqn:U; [|discriminate].
    destruct (beqb b "["%byte && beqb e "]"%byte && word p0f_name_char name && word p0f_name_char v) eqn:K; [|discriminate].
    intros H. inversion H; subst x. rewrite !andb_true_iff in K. destruct K as [[[Kb Ke] Kn] Kv].
    apply beqb_eq in Kb, Ke. subst b e. apply cut_inv in C as [-> _]. apply unsnoc_inv in U. subst r'.
    unfold render_rule, rule_ok. cbn [fst snd]. split; [reflexivity | now rewrite Kn, Kv].
  - destruct (word p0f_name_char f) eqn:W; [|discriminate]. intros H. inversion H; subst x.
    unfold render_rule, rule_ok. cbn [fst snd]. split; [now rewrite app_nil_r | now rewrite W].
Qed.

Lemma cmp_ua_rule : cmp_ok parse_key_value rd_ua_rule.
Proof. intros f x k H Hk. apply rd_ua_rule_inv in H as [-> Hr]. now apply parse_key_value_rule. Qed.

Lemma span1_inv p i a r : span1 p i = Some (a, r) -> i = a ++ r /\ a <> [] /\ forallb p a = true.
Proof.
  unfold span1. destruct (span_spec p i) as (S1 & S2 & _). destruct (span p i) as [a' c]. cbn [fst snd] in *.
  destruct a'; intros H; inversion H; subst. repeat split; auto. congruence.
Qed.

Lemma word_p0f_of a : a <> [] -> forallb is_name_char a = true -> word p0f_name_char a = true.
Proof.
  intros Hne H. unfold word. destruct a; [congruence|]. cbn [nonempty andb]. rewrite forallb_forall in *. intros z Hz.
  rewrite p0f_name_is_name_char. auto.
Qed.

Lemma snd_ua_rule : snd_ok parse_key_value rd_ua_rule.
Proof.
  intros i x r H. unfold parse_key_value in H.
  destruct (span1 is_name_char i) as [[name r0]|] eqn:E0; [|discriminate].
  apply span1_inv in E0 as (-> & Hne & Hn). pose proof (word_p0f_of name Hne Hn) as Wn.
  assert (Plain : exists c, name ++ r0 = c ++ r0 /\ clean c = true /\ rd_ua_rule c = Some (name, None)).
  { exists name. repeat split.
    - unfold clean. rewrite (avoid_p0f colon_b), (avoid_p0f comma_b) by (assumption || reflexivity). reflexivity.
    - pose proof (rd_ua_rule_render (name, None)) as P. unfold render_rule, rule_ok in P. cbn [fst snd] in P.
      rewrite app_nil_r in P. apply P. now rewrite Wn. }
  destruct (strip_prefix (bs "=[") r0) as [r1|] eqn:E1; [|inversion H; subst; exact Plain].
  destruct (span1 is_name_char r1) as [[v r2]|] eqn:E2; [|inversion H; subst; exact Plain].
  destruct (strip_prefix (bs "]") r2) as [r3|] eqn:E3; inversion H; subst; [|exact Plain].
  apply strip_prefix_inv in E1, E3. apply span1_inv in E2 as (-> & Hnv & Hv). subst r0 r2.
  pose proof (word_p0f_of v Hnv Hv) as Wv.
  exists (render_rule (name, Some v)). unfold render_rule. cbn [fst snd]. repeat split.
  - now rewrite <- !app_assoc.
  - unfold clean. rewrite !avoid_app. rewrite (avoid_p0f colon_b name), (avoid_p0f comma_b name), (avoid_p0f colon_b v), (avoid_p0f comma_b v) by (assumption || reflexivity). reflexivity.
  - pose proof (rd_ua_rule_render (name, Some v)) as P. unfold render_rule, rule_ok in P. cbn [fst snd] in P. apply P. now rewrite Wn, Wv.
Qed.

Lemma list_full {A} (P : parser A) (R : bytes -> option A) : snd_ok P R -> cmp_ok P R -> R [] = None -> P [] = None ->
  forall v, match separated_list0 comma P v with Some (vs, []) => Some vs | _ => None end = rd_list R v.
Proof.
  intros HS HC HR HP v. destruct (separated_list0 comma P v) as [[vs r]|] eqn:E.
  - destruct r as [|b r'].
    + destruct (list_snd P R HS HR _ _ _ E) as (c & Ec & _ & Rc). rewrite app_nil_r in Ec. subst c. now rewrite Rc.
    + destruct (rd_list R v) as [ws|] eqn:RL; [|reflexivity].
      pose proof (list_cmp P R HC v ws [] RL eq_refl eq_refl HP) as X. rewrite app_nil_r in X. rewrite X in E. discriminate.
  - destruct (rd_list R v) as [ws|] eqn:RL; [|reflexivity].
    pose proof (list_cmp P R HC v ws [] RL eq_refl eq_refl HP) as X. rewrite app_nil_r in X. rewrite X in E. discriminate.
Qed.

Definition line_result (s : lstate) (cur : option sec) (l : bytes) : option lstate :=
  match to_item cur (classify l) with Some x => abs_step s cur x | None => None end.

Lemma unknown_other cur v : cur <> Some SecOther -> cur <> None -> unknown_item (cur, SKey KOther v) = true.
Proof. destruct cur as [[]|]; intros H1 H2; try reflexivity; congruence. Qed.

(* a key line whose key starts with a byte that no known key starts with contributes nothing but an error *)
Lemma kv_other c0 rest cur :
  isblank c0 = false -> beqb c0 "="%byte = false -> beqb c0 "l"%byte = false -> beqb c0 "s"%byte = false ->
  (forall lhs rhs, cut "="%byte (c0 :: rest) = Some (lhs, rhs) ->
     is (bs "classes") (rtrim_blank lhs) = false /\ is (bs "ua_os") (rtrim_blank lhs) = false) ->
  cur <> Some SecOther ->
  to_item cur (classify_kv (c0 :: rest)) = None.
Proof.
  intros Hb He Hl Hs Hk Hcur. unfold classify_kv in *. destruct (cut "="%byte (c0 :: rest)) as [[lhs rhs]|] eqn:C; [|reflexivity].
  destruct (Hk _ _ eq_refl) as [K1 K2]. rewrite K1, K2 in *. destruct (key_first _ _ _ _ Hb He C) as (k' & Ek). rewrite Ek in *.
  destruct (word alnum (c0 :: k')); [|reflexivity].
  rewrite (is_first (bs "label")), (is_first (bs "sig")), (is_first (bs "sys")) in * by assumption.
  destruct cur as [[]|]; try reflexivity; congruence.
Qed.

Lemma space0_blank bl r : forallb isblank bl = true -> stops isblank r = true -> space0 (bl ++ r) = r.
Proof. intros H1 H2. unfold space0. now rewrite span_blank. Qed.

Lemma blanks_split R : exists bl R', R = bl ++ R' /\ forallb isblank bl = true /\ stops isblank R' = true.
Proof. destruct (span_spec isblank R) as (S1 & S2 & S3). eauto. Qed.

(* a line starting with T (= "classes" or "ua_os"): either  T blanks = rhs,  or the key is something else *)
Lemma list_line_shape T R (HT : T <> []) (HTe : avoid "="%byte T = true)
  (HTl : match rev T with b :: _ => isblank b = false | [] => True end) :
  (exists bl rhs, R = bl ++ bs "=" ++ rhs /\ forallb isblank bl = true /\
     cut "="%byte (T ++ R) = Some (T ++ bl, rhs) /\ rtrim_blank (T ++ bl) = T /\ strip_prefix (bs "=") (space0 R) = Some rhs) \/
  (strip_prefix (bs "=") (space0 R) = None /\
   forall lhs rhs, cut "="%byte (T ++ R) = Some (lhs, rhs) -> is T (rtrim_blank lhs) = false).
Proof.
  destruct (blanks_split R) as (bl & R' & -> & Hbl & HR').
  rewrite (space0_blank bl R') by assumption.
  destruct R' as [|x R''].
  - right. split; [reflexivity|]. intros lhs rhs C. apply cut_inv in C as [E _]. exfalso.
    assert (A : avoid "="%byte (T ++ bl ++ []) = true) by (rewrite !avoid_app, HTe, (avoid_of isblank "="%byte bl) by (assumption || reflexivity); reflexivity).
    rewrite E in A. rewrite avoid_app in A. apply andb_true_iff in A as [_ A]. cbn in A. discriminate.
  - destruct (beqb "="%byte x) eqn:Ex.
    + apply beqb_eq in Ex. subst x. left. exists bl, R''. repeat split; auto.
      * rewrite app_assoc. apply cut_app. rewrite avoid_app, HTe. now apply (avoid_of isblank).
      * now apply rtrim_blank_app.
    + right. split; [cbn; now rewrite Ex|]. intros lhs rhs C.
      destruct (is T (rtrim_blank lhs)) eqn:I; [|reflexivity]. exfalso. apply is_true in I.
      apply cut_inv in C as [E _]. destruct (rtrim_blank_spec lhs) as (bl2 & E2 & Hbl2 & _). rewrite I in E2. subst lhs.
      rewrite <- app_assoc in E. apply app_inv_head in E.
      assert (S : space0 (bl ++ x :: R'') = space0 (bl2 ++ "="%byte :: rhs)) by now rewrite E.
      rewrite (space0_blank bl (x :: R'')), (space0_blank bl2 ("="%byte :: rhs)) in S by (assumption || reflexivity).
      inversion S. subst. now rewrite beqb_refl in Ex.
Qed.

Lemma line_classes s cur R : cur <> Some SecOther ->
  match parse_classes (bs "classes" ++ R) with Some (cs, []) => Some (set_classes s (s_classes s ++ cs)) | _ => None end
  = line_result s cur (bs "classes" ++ R).
Proof.
  intros Hcur. unfold line_result.
  change (bs "classes" ++ R) with ("c"%byte :: (bs "lasses" ++ R)) in *.
  rewrite classify_nonbracket in * by reflexivity.
  change ("c"%byte :: (bs "lasses" ++ R)) with (bs "classes" ++ R) in *.
  unfold parse_classes. rewrite strip_prefix_app.
  destruct (list_line_shape (bs "classes") R ltac:(discriminate) eq_refl eq_refl)
    as [(bl & rhs & -> & Hbl & C & K & S) | [S Hk]].
  - rewrite S. rewrite space0_drop.
    pose proof (list_full _ _ snd_word cmp_word eq_refl eq_refl (drop_while isblank rhs)) as P.
    unfold classify_kv. rewrite C, K. change (is (bs "classes") (bs "classes")) with true. cbv iota.
    change (rd_classes (drop_while isblank rhs)) with (rd_list rd_word (drop_while isblank rhs)). rewrite <- P.
    destruct (separated_list0 comma alphanumeric1 (drop_while isblank rhs)) as [[cs [|b q]]|]; reflexivity.
  - rewrite S. symmetry.
    change (bs "classes" ++ R) with ("c"%byte :: (bs "lasses" ++ R)) in *.
    rewrite kv_other; try reflexivity; try assumption.
    intros lhs rhs C. split; [now apply (Hk lhs rhs)|].
    destruct (key_first "c"%byte _ _ _ eq_refl eq_refl C) as (k' & ->). now apply is_first.
Qed.

Lemma line_ua_os s cur R : cur <> Some SecOther ->
  match parse_ua_os (bs "ua_os" ++ R) with Some (us, []) => Some (set_ua s (s_ua s ++ us)) | _ => None end
  = line_result s cur (bs "ua_os" ++ R).
Proof.
  intros Hcur. unfold line_result.
  change (bs "ua_os" ++ R) with ("u"%byte :: (bs "a_os" ++ R)) in *.
  rewrite classify_nonbracket in * by reflexivity.
  change ("u"%byte :: (bs "a_os" ++ R)) with (bs "ua_os" ++ R) in *.
  unfold parse_ua_os. rewrite strip_prefix_app.
  destruct (list_line_shape (bs "ua_os") R ltac:(discriminate) eq_refl eq_refl)
    as [(bl & rhs & -> & Hbl & C & K & S) | [S Hk]].
  - rewrite S. rewrite space0_drop.
    pose proof (list_full _ _ snd_ua_rule cmp_ua_rule eq_refl eq_refl (drop_while isblank rhs)) as P.
    unfold classify_kv. rewrite C, K. change (is (bs "classes") (bs "ua_os")) with false. change (is (bs "ua_os") (bs "ua_os")) with true.
    cbv iota. change (rd_ua_os (drop_while isblank rhs)) with (rd_list rd_ua_rule (drop_while isblank rhs)). rewrite <- P.
    destruct (separated_list0 comma parse_key_value (drop_while isblank rhs)) as [[rs [|b q]]|]; reflexivity.
  - rewrite S. symmetry.
    change (bs "ua_os" ++ R) with ("u"%byte :: (bs "a_os" ++ R)) in *.
    rewrite kv_other; try reflexivity; try assumption.
    intros lhs rhs C. split; [|now apply (Hk lhs rhs)].
    destruct (key_first "u"%byte _ _ _ eq_refl eq_refl C) as (k' & ->). now apply is_first.
Qed.

(* ---- [module] lines ---- *)
Lemma alpha_is_alpha b : alpha b = is_alpha b.
Proof. destruct b; reflexivity. Qed.

Lemma span_app_stops p l k : stops p k = true -> span p (l ++ k) = (fst (span p l), snd (span p l) ++ k).
Proof.
  intros Hk. destruct (span_spec p l) as (S1 & S2 & S3). destruct (span p l) as [a c]. cbn [fst snd] in *.
  rewrite S1 at 1. rewrite <- app_assoc. apply span_app; [assumption|]. destruct c as [|x c]; [assumption | exact S3].
Qed.

Lemma word_alpha_model m : m <> [] -> forallb is_alpha m = true -> word alpha m = true /\ avoid ":"%byte m = true.
Proof.
  intros Hne H. split.
  - unfold word. destruct m; [congruence|]. cbn [nonempty andb]. rewrite forallb_forall in *. intros z Hz. rewrite alpha_is_alpha. auto.
  - now apply (avoid_of is_alpha).
Qed.

Lemma rd_section_words m x : word alpha m = true -> avoid ":"%byte m = true ->
  (rd_section m <> None) /\ (word alpha x = true -> avoid ":"%byte x = true -> rd_section (m ++ bs ":" ++ x) <> None).
Proof.
  intros Wm Am. split.
  - unfold rd_section. repeat (match goal with |- context [if ?c then _ else _] => destruct c end; try discriminate).
    unfold split_on. rewrite split_on_aux_last by assumption. cbn [rev app]. rewrite Wm. discriminate.
  - intros Wx Ax. unfold rd_section. repeat (match goal with |- context [if ?c then _ else _] => destruct c end; try discriminate).
    unfold split_on. cbn [bs bs_to app]. rewrite split_on_aux_sep by assumption. rewrite split_on_aux_last by assumption.
    cbn [rev app]. rewrite Wm, Wx. discriminate.
Qed.

Lemma avoid_in c l : avoid c l = true -> In c l -> False.
Proof. unfold avoid. rewrite forallb_forall. intros H Hin. specialize (H c Hin). now rewrite beqb_refl in H. Qed.

(* a [..] line the loader's module parser consumes completely: what is inside, and what it returns *)
Lemma parse_module_inv inner md : parse_module ("["%byte :: inner ++ ["]"%byte]) = Some (md, []) ->
  (md = (inner, None) /\ word alpha inner = true /\ avoid ":"%byte inner = true) \/
  (exists m x, md = (m, Some x) /\ inner = m ++ bs ":" ++ x /\ word alpha m = true /\ avoid ":"%byte m = true /\
               word alpha x = true /\ avoid ":"%byte x = true).
Proof.
  unfold parse_module. cbn [strip_prefix bs bs_to]. change (beqb "["%byte "["%byte) with true. cbv iota.
  unfold alpha1, span1. rewrite (span_app_stops is_alpha inner ["]"%byte]) by reflexivity.
  destruct (span_spec is_alpha inner) as (S1 & S2 & S3). destruct (span is_alpha inner) as [m i1]. cbn [fst snd] in *.
  destruct m as [|m0 m']; [discriminate|]. set (m := m0 :: m') in *.
  destruct (word_alpha_model m ltac:(discriminate) S2) as [Wm Am].
  destruct i1 as [|y i1'].
  - cbn [app strip_prefix colon bs bs_to fst snd]. change (beqb ":"%byte "]"%byte) with false. cbv iota.
    cbn [fst snd strip_prefix bs bs_to]. change (beqb "]"%byte "]"%byte) with true. cbv iota.
    intros H. inversion H; subst md. rewrite app_nil_r in S1. subst inner. left. auto.
  - cbn [app strip_prefix colon bs bs_to]. destruct (beqb ":"%byte y) eqn:Ey.
    + apply beqb_eq in Ey. subst y.
      rewrite (span_app_stops is_alpha i1' ["]"%byte]) by reflexivity.
      destruct (span_spec is_alpha i1') as (T1 & T2 & T3). destruct (span is_alpha i1') as [x' i3]. cbn [fst snd] in *.
      destruct x' as [|x0 x''].
      * cbn [fst snd strip_prefix bs bs_to]. change (beqb "]"%byte ":"%byte) with false. discriminate.
      * set (xx := x0 :: x'') in *. cbn [fst snd]. destruct i3 as [|z i3'].
        -- cbn [app strip_prefix bs bs_to]. change (beqb "]"%byte "]"%byte) with true. cbv iota.
           intros H. inversion H; subst md. rewrite app_nil_r in T1. subst i1' inner.
           destruct (word_alpha_model xx ltac:(discriminate) T2) as [Wx Ax].
           right. exists m, xx. repeat split; auto.
        -- cbn [app strip_prefix bs bs_to]. destruct (beqb "]"%byte z); [|discriminate].
           intros H. inversion H. destruct i3'; discriminate.
    + cbn [fst snd strip_prefix bs bs_to]. destruct (beqb "]"%byte y); [|discriminate].
      intros H. inversion H. destruct i1'; discriminate.
Qed.

Lemma parse_module_full inner x : parse_module ("["%byte :: inner ++ ["]"%byte]) = Some (x, []) -> rd_section inner <> None.
Proof.
  intros H. destruct (parse_module_inv _ _ H) as [(_ & W & A) | (m & xx & _ & -> & Wm & Am & Wx & Ax)].
  - apply (rd_section_words inner [] W A).
  - apply (rd_section_words m xx Wm Am); assumption.
Qed.

(* if, moreover, the loader knows the module, the reference knows the section *)
Lemma parse_module_known inner md : parse_module ("["%byte :: inner ++ ["]"%byte]) = Some (md, []) ->
  is_known_module md = true -> exists sc, sc <> SecOther /\ rd_section inner = Some sc.
Proof.
  intros H K. destruct (parse_module_inv _ _ H) as [(-> & _) | (m & xx & -> & -> & _)]; unfold is_known_module in K; cbn [fst snd] in K.
  - apply bytes_eqb_eq in K. subst inner. exists SecMtu. split; [discriminate | reflexivity].
  - apply andb_true_iff in K as [K1 K2]. apply orb_true_iff in K1, K2.
    destruct K1 as [K1|K1]; apply bytes_eqb_eq in K1; subst m; destruct K2 as [K2|K2]; apply bytes_eqb_eq in K2; subst xx;
      [exists SecTQ | exists SecTS | exists SecHQ | exists SecHS]; (split; [discriminate | reflexivity]).
Qed.

Definition sec_inner (sc : sec) : bytes :=
  match sc with SecTQ => bs "tcp:request" | SecTS => bs "tcp:response" | SecHQ => bs "http:request"
  | SecHS => bs "http:response" | SecMtu => bs "mtu" | SecOther => [] end.

Lemma rd_section_inv inner sc : rd_section inner = Some sc -> sc <> SecOther -> inner = sec_inner sc.
Proof.
  unfold rd_section. intros H Hsc.
  destruct (is (bs "tcp:request") inner) eqn:E1; [apply is_true in E1; inversion H; now subst|].
  destruct (is (bs "tcp:response") inner) eqn:E2; [apply is_true in E2; inversion H; now subst|].
  destruct (is (bs "http:request") inner) eqn:E3; [apply is_true in E3; inversion H; now subst|].
  destruct (is (bs "http:response") inner) eqn:E4; [apply is_true in E4; inversion H; now subst|].
  destruct (is (bs "mtu") inner) eqn:E5; [apply is_true in E5; inversion H; now subst|].
  destruct (split_on ":"%byte inner) as [|a [|b [|]]]; try discriminate;
    repeat (match type of H with context [if ?c then _ else _] => destruct c end); inversion H; subst; congruence.
Qed.

Lemma line_module s cur rest : ends_with_b "]"%byte ("["%byte :: rest) = true ->
  match parse_module ("["%byte :: rest) with
  | Some (md, []) => if is_known_module md then Some (set_mod s (Some md)) else None
  | _ => None end
  = line_result s cur ("["%byte :: rest).
Proof.
  intros He. unfold line_result, classify in *. change (beqb "["%byte ";"%byte) with false in *. cbv iota in *.
  rewrite ends_with_unsnoc in He. rewrite He in *. change (beqb "["%byte "["%byte) with true in *. cbn [andb] in *.
  destruct (unsnoc ("["%byte :: rest)) as [[pre e]|] eqn:U; [|discriminate]. apply beqb_eq in He. subst e.
  apply unsnoc_inv in U. destruct rest as [|r0 rest'].
  { destruct pre as [|p0 [|p1 pre']]; cbn in U; inversion U. }
  destruct (unsnoc (r0 :: rest')) as [[inner e]|] eqn:U2.
  2:{ unfold unsnoc in U2. rewrite revl_rev' in U2. destruct (rev (r0 :: rest')) eqn:R; [|discriminate].
      apply (f_equal (@rev byte)) in R. rewrite rev_involutive in R. discriminate. }
  apply unsnoc_inv in U2. rewrite U2 in *.
  assert (e = "]"%byte /\ pre = "["%byte :: inner) as [-> ->].
  { change ("["%byte :: inner ++ [e]) with (("["%byte :: inner) ++ [e]) in U. apply app_inj_tail in U. destruct U; auto. }
  destruct (rd_section inner) as [sc|] eqn:RS.
  - destruct sc; cbn [to_item] in *;
      try (apply rd_section_inv in RS; [|congruence]; subst inner; reflexivity).
    destruct (parse_module ("["%byte :: inner ++ ["]"%byte])) as [[md [|b q]]|] eqn:P; try reflexivity.
    destruct (is_known_module md) eqn:K; [|reflexivity].
    destruct (parse_module_known _ _ P K) as (sc & Hsc & E). congruence.
  - cbn [to_item]. destruct (parse_module ("["%byte :: inner ++ ["]"%byte])) as [[md [|b q]]|] eqn:P; try reflexivity.
    exfalso. now apply (parse_module_full inner _ P).
Qed.

(* ---- `name = value` lines inside (or outside) a module ---- *)
Lemma key_prefix T l lhs rhs : cut "="%byte l = Some (lhs, rhs) -> is T (rtrim_blank lhs) = true -> starts_with T l = true.
Proof.
  intros C I. apply is_true in I. apply cut_inv in C as [-> _]. destruct (rtrim_blank_spec lhs) as (bl & E & _).
  rewrite I in E. rewrite E. rewrite <- app_assoc. apply starts_with_app.
Qed.

Lemma mtu_sig_branch s v :
  match omap IMtuSig (rd_mtu v) with Some x => abs_step s (Some SecMtu) x | None => None end =
  match rd_mtu v with
  | Some n => match push_last (s_mtu s) n with Some t => Some (set_mtu s t) | None => None end
  | None => None end.
Proof. destruct (rd_mtu v); reflexivity. Qed.

Lemma line_named s cur c0 rest :
  beqb c0 ";"%byte = false -> starts_with (bs "classes") (c0 :: rest) = false -> starts_with (bs "ua_os") (c0 :: rest) = false ->
  beqb c0 "["%byte && ends_with_b "]"%byte (c0 :: rest) = false ->
  s_mod s = mod_of cur -> cur <> Some SecOther ->
  match s_mod s with
  | Some (m, d) => match parse_named_value (c0 :: rest) with Some (n, v) => step_named s m d n v | None => None end
  | None => None end = line_result s cur (c0 :: rest).
Proof.
  intros H1 H2 H3 H4 Hm Hcur. unfold line_result. rewrite classify_nonbracket in * by assumption.
  rewrite parse_named_value_eq_spec. unfold spec_named, classify_kv in *.
  destruct (cut "="%byte (c0 :: rest)) as [[lhs rhs]|] eqn:C.
  2:{ cbn [to_item]. now destruct (s_mod s) as [[m d]|]. }
  set (k := rtrim_blank lhs) in *. set (v := drop_while isblank rhs) in *.
  assert (K1 : is (bs "classes") k = false).
  { destruct (is (bs "classes") k) eqn:E; [|reflexivity]. rewrite (key_prefix _ _ _ _ C E) in H2. discriminate. }
  assert (K2 : is (bs "ua_os") k = false).
  { destruct (is (bs "ua_os") k) eqn:E; [|reflexivity]. rewrite (key_prefix _ _ _ _ C E) in H3. discriminate. }
  rewrite K1, K2 in *. destruct (word alnum k) eqn:W.
  2:{ cbn [to_item]. now destruct (s_mod s) as [[m d]|]. }
  rewrite Hm. destruct cur as [c|]; [|reflexivity].
  destruct (is (bs "label") k) eqn:Il.
  { apply is_true in Il. rewrite Il in *. clear Il.
    destruct c; try congruence; cbn [mod_of to_item]; unfold step_named;
      change (bytes_eqb (bs "label") (bs "label")) with true;
      try change (bytes_eqb (bs "tcp") (bs "mtu")) with false; try change (bytes_eqb (bs "http") (bs "mtu")) with false;
      try change (bytes_eqb (bs "mtu") (bs "mtu")) with true; cbn [andb]; cbv iota;
      try (change (bytes_eqb (bs "label") (bs "sig")) with false; cbn [andb]; cbv iota);
      try reflexivity;
      (pose proof (parse_label_eq_spec v) as PL; destruct (parse_label v) as [[l r]|];
       [destruct PL as [_ ->] | rewrite PL]; reflexivity). }
  destruct (is (bs "sig") k) eqn:Is.
  { apply is_true in Is. rewrite Is in *. clear Is Il.
    destruct c; try congruence; cbn [mod_of to_item]; unfold step_named;
      change (bytes_eqb (bs "sig") (bs "label")) with false; change (bytes_eqb (bs "sig") (bs "sig")) with true;
      try change (bytes_eqb (bs "tcp") (bs "mtu")) with false; try change (bytes_eqb (bs "http") (bs "mtu")) with false;
      try change (bytes_eqb (bs "mtu") (bs "mtu")) with true; cbn [andb table_of]; cbv iota.
    - rewrite tcp_model_eq_spec. destruct (spec_tcp v) as [g|]; cbn [omap abs_step]; unfold omap_st; now destruct (s_treq s).
    - rewrite tcp_model_eq_spec. destruct (spec_tcp v) as [g|]; cbn [omap abs_step]; unfold omap_st; now destruct (s_tresp s).
    - rewrite http_model_eq_spec. destruct (spec_http v) as [g|]; cbn [omap abs_step]; unfold omap_st; now destruct (s_hreq s).
    - rewrite http_model_eq_spec. destruct (spec_http v) as [g|]; cbn [omap abs_step]; unfold omap_st; now destruct (s_hresp s).
    - rewrite u16_from_str_eq_spec. symmetry. apply mtu_sig_branch. }
  destruct (is (bs "sys") k) eqn:Iy.
  { apply is_true in Iy. rewrite Iy in *. clear Is Il Iy.
    destruct c; try congruence; cbn [mod_of to_item abs_step]; reflexivity. }
  assert (Nl : bytes_eqb k (bs "label") = false) by exact Il.
  assert (Ns : bytes_eqb k (bs "sig") = false) by exact Is.
  assert (Ny : bytes_eqb k (bs "sys") = false) by exact Iy.
  destruct c; try congruence; cbn [mod_of to_item]; unfold step_named; rewrite Nl, Ns, Ny; reflexivity.
Qed.

(* ---- Lemma M: every line ---- *)
Lemma step_line_result s cur l :
  s_mod s = mod_of cur -> cur <> Some SecOther ->
  step_line s l = line_result s cur l.
Proof.
  intros Hm Hcur. destruct l as [|c0 rest]; [reflexivity|]. unfold step_line.
  destruct (beqb c0 ";"%byte) eqn:E1.
  { unfold line_result, classify. now rewrite E1. }
  destruct (starts_with (bs "classes") (c0 :: rest)) eqn:E2.
  { destruct (starts_with_inv _ _ E2) as (R & HR). rewrite HR in *. now apply line_classes. }
  destruct (starts_with (bs "ua_os") (c0 :: rest)) eqn:E3.
  { destruct (starts_with_inv _ _ E3) as (R & HR). rewrite HR in *. now apply line_ua_os. }
  destruct (beqb c0 "["%byte && ends_with_b "]"%byte (c0 :: rest)) eqn:E4.
  { apply andb_true_iff in E4 as [E4 E5]. apply beqb_eq in E4. subst c0. now apply line_module. }
  now apply line_named.
Qed.

(* ================= (iv) the fold ================= *)
Definition nsec (cur : option sec) (x : sline) : option sec := match x with SSection s => Some s | _ => cur end.

Fixpoint to_items (cur : option sec) (sl : list sline) : option (list item) :=
  match sl with
  | [] => Some []
  | x :: r => match to_item cur x with
              | Some it => match to_items (nsec cur x) r with Some its => Some (it :: its) | None => None end
              | None => None end
  end.

Lemma to_item_next cur x it : to_item cur x = Some it -> next_sec cur it = nsec cur x /\ nsec cur x <> Some SecOther \/ True.
Proof. auto. Qed.

Lemma to_item_sec cur x it : to_item cur x = Some it -> cur <> Some SecOther -> next_sec cur it = nsec cur x /\ nsec cur x <> Some SecOther.
Proof.
  intros H Hcur. destruct x as [| | |sc|k v|]; cbn in H.
  - inversion H; subst. auto.
  - inversion H; subst. auto.
  - inversion H; subst. auto.
  - destruct sc; inversion H; subst; cbn; split; congruence.
  - destruct cur as [[]|], k; cbn in H; try discriminate;
      repeat match type of H with context [omap _ ?o] => destruct o; cbn in H end; inversion H; subst; cbn; split; congruence.
  - discriminate.
Qed.

Lemma run_trimmed_items ls : forall s cur, s_mod s = mod_of cur -> cur <> Some SecOther ->
  run_trimmed s ls = match to_items cur (map classify ls) with Some its => run_abs s cur its | None => None end.
Proof.
  induction ls as [|l ls IH]; intros s cur Hm Hcur; [reflexivity|].
  cbn [run_trimmed map to_items]. rewrite (step_line_result s cur l) by assumption. unfold line_result.
  destruct (to_item cur (classify l)) as [it|] eqn:T; [|reflexivity].
  destruct (to_item_sec _ _ _ T Hcur) as [N1 N2].
  destruct (abs_step s cur it) as [s'|] eqn:A.
  - rewrite (IH s' (nsec cur (classify l))); [| rewrite <- N1; eapply abs_step_mod; eauto | assumption].
    destruct (to_items (nsec cur (classify l)) (map classify ls)) as [its|]; [|reflexivity].
    cbn [run_abs]. now rewrite A, N1.
  - destruct (to_items (nsec cur (classify l)) (map classify ls)) as [its|]; [|reflexivity]. cbn [run_abs]. now rewrite A.
Qed.

Lemma finish_mk_state its : match mk_state its with Some s => Some (finish s) | None => None end = flatten its.
Proof.
  unfold mk_state, flatten.
  destruct (table_of (tcp_entries SecTQ None its)); destruct (table_of (tcp_entries SecTS None its));
  destruct (table_of (http_entries SecHQ None its)); destruct (table_of (http_entries SecHS None its));
  destruct (table_of (mtu_entries None its)); reflexivity.
Qed.

(* the model side: loading = the denotation of the items the reference classification yields *)
Lemma load_as_items t :
  existsb non_ascii_edge (text_lines t []) = false ->
  load t = match to_items None (map classify (map trim_ascii (text_lines t []))) with Some its => flatten its | None => None end.
Proof.
  intros Ha. unfold load, load_lines. rewrite run_lines_trimmed. unfold lines. rewrite lines_trim by assumption.
  rewrite (run_trimmed_items _ st0 None) by (try reflexivity; discriminate).
  destruct (to_items None _) as [its|]; [|reflexivity]. rewrite run_abs_mk_state. apply finish_mk_state.
Qed.

(* ================= the reference side: spec_load_lines through to_items / flatten ================= *)
Definition rd2 {L S} (rdl : bytes -> option L) (rds : bytes -> option S) (e : bool * bytes) : option (L + S) :=
  if fst e then omap inl (rdl (snd e)) else omap inr (rds (snd e)).

Lemma all_some_app {A} (a b : list (option A)) :
  all_some (a ++ b) = match all_some a, all_some b with Some x, Some y => Some (x ++ y) | _, _ => None end.
Proof.
  induction a as [|[x|] a IH]; cbn [app all_some].
  - now destruct (all_some b).
  - rewrite IH. destruct (all_some a), (all_some b); reflexivity.
  - reflexivity.
Qed.

(* grouping raw entries and reading afterwards = reading first and grouping the values *)
Lemma group_read {L S} (rdl : bytes -> option L) (rds : bytes -> option S) raw :
  match all_some (map (rd2 rdl rds) raw) with
  | Some vals =>
      exists gsv leadv, group_entries vals = (gsv, leadv) /\
        all_some (map (fun g => match rdl (fst g), all_some (map rds (snd g)) with
                                | Some l, Some ss => Some (l, ss) | _, _ => None end) (fst (group raw))) = Some gsv /\
        all_some (map rds (snd (group raw))) = Some leadv
  | None =>
      all_some (map (fun g => match rdl (fst g), all_some (map rds (snd g)) with
                              | Some l, Some ss => Some (l, ss) | _, _ => None end) (fst (group raw))) = None \/
      all_some (map rds (snd (group raw))) = None
  end.
Proof.
  induction raw as [|[b v] raw IH]; [cbn; eauto|].
  cbn [map all_some group]. unfold rd2 at 1. cbn [fst snd].
  destruct (group raw) as [gs lead] eqn:G. cbn [fst snd] in *.
  destruct b.
  - destruct (rdl v) as [l|] eqn:Rl; cbn [omap].
    + destruct (all_some (map (rd2 rdl rds) raw)) as [vals|].
      * destruct IH as (gsv & leadv & E1 & E2 & E3). cbn [group_entries]. rewrite E1. cbn [fst snd map all_some].
        exists ((l, leadv) :: gsv), []. rewrite Rl, E3, E2. auto.
      * cbn [fst snd map all_some]. rewrite Rl. destruct IH as [IH|IH]; left; rewrite IH; [now destruct (all_some (map rds lead)) | reflexivity].
    + cbn [fst snd map all_some]. rewrite Rl. left. reflexivity.
  - destruct (rds v) as [g|] eqn:Rs; cbn [omap].
    + destruct (all_some (map (rd2 rdl rds) raw)) as [vals|].
      * destruct IH as (gsv & leadv & E1 & E2 & E3). cbn [group_entries]. rewrite E1. cbn [fst snd map all_some].
        exists gsv, (g :: leadv). rewrite Rs, E3. auto.
      * cbn [fst snd map all_some]. rewrite Rs. destruct IH as [IH|IH]; [left; assumption | right; now rewrite IH].
    + cbn [fst snd map all_some]. rewrite Rs. right. reflexivity.
Qed.

Lemma all_some_nil_iff {A B} (f : A -> option B) l vs : all_some (map f l) = Some vs -> (l = [] <-> vs = []).
Proof.
  destruct l as [|x l]; cbn; [intros H; inversion H; tauto|]. destruct (f x); [|discriminate].
  destruct (all_some (map f l)); [|discriminate]. intros H. inversion H. split; discriminate.
Qed.

Lemma table_as_read {L S} (rdl : bytes -> option L) (rds : bytes -> option S) raw :
  table rdl rds raw = match all_some (map (rd2 rdl rds) raw) with Some vals => table_of vals | None => None end.
Proof.
  unfold table, table_of. pose proof (group_read rdl rds raw) as G.
  destruct (group raw) as [gs lead]. cbn [fst snd] in G.
  destruct (all_some (map (rd2 rdl rds) raw)) as [vals|].
  - destruct G as (gsv & leadv & E1 & E2 & E3). rewrite E1. pose proof (all_some_nil_iff _ _ _ E3) as N.
    destruct lead as [|x lead]; destruct leadv as [|y leadv]; try reflexivity; try assumption.
    + destruct N as [N _]. specialize (N eq_refl). discriminate.
    + destruct N as [_ N]. specialize (N eq_refl). discriminate.
  - destruct lead as [|x lead]; [|reflexivity]. destruct G as [G|G]; [assumption | discriminate].
Qed.

(* raw entries of one table contributed by one line *)
Definition rawc (s : sec) (cur : option sec) (x : sline) : list (bool * bytes) :=
  match cur, x with
  | Some s', SKey KLabel v => if sec_eqb s s' then [(true, v)] else []
  | Some s', SKey KSig v => if sec_eqb s s' then [(false, v)] else []
  | _, _ => [] end.

Lemma items_of_cons s cur x r :
  items_of s (annotate cur (x :: r)) = rawc s cur x ++ items_of s (annotate (nsec cur x) r).
Proof.
  unfold items_of. destruct x as [| | |sc|k v|]; cbn [annotate flat_map nsec rawc]; try reflexivity;
    destruct cur as [s'|]; try reflexivity; destruct k; reflexivity.
Qed.

Definition rdT := rd2 spec_label spec_tcp.
Definition rdH := rd2 spec_label spec_http.
Definition rdM := rd2 (fun v : bytes => Some v) rd_mtu.
Definition cls_of (x : sline) : list bytes := match x with SClasses cs => cs | _ => [] end.
Definition ua_of_line (x : sline) : list (bytes * option bytes) := match x with SUaOs rs => rs | _ => [] end.

Lemma ann_cons_unknown cur x r :
  existsb unknown_item (annotate cur (x :: r)) = unknown_item (cur, x) || existsb unknown_item (annotate (nsec cur x) r).
Proof. destruct x as [| | |sc|k v|]; cbn [annotate existsb nsec]; try reflexivity. f_equal. destruct sc, cur as [[]|]; reflexivity. Qed.
Lemma ann_cons_outside cur x r :
  existsb key_outside (annotate cur (x :: r)) = key_outside (cur, x) || existsb key_outside (annotate (nsec cur x) r).
Proof. destruct x as [| | |sc|k v|]; cbn [annotate existsb nsec]; try reflexivity. f_equal. destruct cur; reflexivity. Qed.

(* one line that yields an item: its raw entries read as the item's contributions *)
Lemma line_link cur x it : to_item cur x = Some it ->
  (forall s, (s = SecTQ \/ s = SecTS) -> all_some (map rdT (rawc s cur x)) = Some (tcp_contrib s cur it)) /\
  (forall s, (s = SecHQ \/ s = SecHS) -> all_some (map rdH (rawc s cur x)) = Some (http_contrib s cur it)) /\
  all_some (map rdM (rawc SecMtu cur x)) = Some (mtu_contrib cur it) /\
  is_bad x = false /\ key_outside (cur, x) = false /\
  cls_of x = match it with IClasses cs => cs | _ => [] end /\ ua_of_line x = match it with IUaOs rs => rs | _ => [] end.
Proof.
  intros H.
  assert (Simple : forall it0, (forall s c, tcp_contrib s c it0 = []) -> (forall s c, http_contrib s c it0 = []) -> (forall c, mtu_contrib c it0 = []) ->
            (forall s, rawc s cur x = []) -> is_bad x = false -> key_outside (cur, x) = false ->
            cls_of x = match it0 with IClasses cs => cs | _ => [] end -> ua_of_line x = match it0 with IUaOs rs => rs | _ => [] end ->
            it = it0 ->
            (forall s, (s = SecTQ \/ s = SecTS) -> all_some (map rdT (rawc s cur x)) = Some (tcp_contrib s cur it)) /\
            (forall s, (s = SecHQ \/ s = SecHS) -> all_some (map rdH (rawc s cur x)) = Some (http_contrib s cur it)) /\
            all_some (map rdM (rawc SecMtu cur x)) = Some (mtu_contrib cur it) /\
            is_bad x = false /\ key_outside (cur, x) = false /\
            cls_of x = match it with IClasses cs => cs | _ => [] end /\ ua_of_line x = match it with IUaOs rs => rs | _ => [] end).
  { intros it0 C1 C2 C3 R0 B K Cl Ua ->. split; [intros s _; now rewrite R0, C1|]. split; [intros s _; now rewrite R0, C2|].
    split; [now rewrite R0, C3|]. auto. }
  destruct x as [| | |sc|k v|]; cbn [to_item] in H.
  - inversion H; subst it. apply (Simple IBlank); intros; try reflexivity; destruct cur as [[]|]; reflexivity.
  - inversion H; subst it. apply (Simple (IClasses cs)); intros; try reflexivity; destruct cur as [[]|]; reflexivity.
  - inversion H; subst it. apply (Simple (IUaOs rs)); intros; try reflexivity; destruct cur as [[]|]; reflexivity.
  - destruct sc; inversion H; subst it; eapply Simple; intros; try reflexivity; destruct cur as [[]|]; reflexivity.
  - destruct cur as [c|]; [|discriminate].
    destruct c, k; try discriminate; cbn [omap] in H;
      try (destruct (spec_label v) as [l|] eqn:RL; [|discriminate]);
      try (destruct (spec_tcp v) as [g|] eqn:RT; [|discriminate]);
      try (destruct (spec_http v) as [g|] eqn:RH; [|discriminate]);
      try (destruct (rd_mtu v) as [n|] eqn:RM; [|discriminate]);
      inversion H; subst;
      (split; [intros s [-> | ->]|split; [intros s [-> | ->]|split; [|repeat split]]]);
      cbn [rawc sec_eqb map all_some tcp_contrib http_contrib mtu_contrib]; unfold rdT, rdH, rdM, rd2; cbn [fst snd];
      rewrite ?RL, ?RT, ?RH, ?RM; reflexivity.
  - discriminate.
Qed.

Lemma spec_link sl : forall cur its, to_items cur sl = Some its -> cur <> Some SecOther ->
  (forall s, (s = SecTQ \/ s = SecTS) -> all_some (map rdT (items_of s (annotate cur sl))) = Some (tcp_entries s cur its)) /\
  (forall s, (s = SecHQ \/ s = SecHS) -> all_some (map rdH (items_of s (annotate cur sl))) = Some (http_entries s cur its)) /\
  all_some (map rdM (items_of SecMtu (annotate cur sl))) = Some (mtu_entries cur its) /\
  existsb is_bad sl = false /\ existsb key_outside (annotate cur sl) = false /\
  flat_map cls_of sl = classes_of its /\ flat_map ua_of_line sl = ua_of its.
Proof.
  induction sl as [|x r IH]; intros cur its H Hcur; cbn [to_items] in H.
  - inversion H; subst. repeat split; reflexivity.
  - destruct (to_item cur x) as [it|] eqn:T; [|discriminate].
    destruct (to_items (nsec cur x) r) as [its'|] eqn:T2; inversion H; subst its.
    destruct (to_item_sec _ _ _ T Hcur) as [N1 N2].
    destruct (line_link _ _ _ T) as (L1 & L2 & L3 & L4 & L5 & L6 & L7).
    destruct (IH _ _ T2 N2) as (I1 & I2 & I3 & I4 & I5 & I6 & I7).
    rewrite ann_cons_outside. cbn [existsb flat_map]. rewrite L4, L5, I4, I5, L6, L7, I6, I7.
    unfold classes_of, ua_of. cbn [flat_map tcp_entries http_entries mtu_entries]. rewrite N1.
    repeat split; try reflexivity.
    + intros s Hs. rewrite items_of_cons, map_app, all_some_app, (L1 s Hs), (I1 s Hs). reflexivity.
    + intros s Hs. rewrite items_of_cons, map_app, all_some_app, (L2 s Hs), (I2 s Hs). reflexivity.
    + rewrite items_of_cons, map_app, all_some_app, L3, I3. reflexivity.
Qed.

Definition tables_fail (cur : option sec) (sl : list sline) : Prop :=
  all_some (map rdT (items_of SecTQ (annotate cur sl))) = None \/ all_some (map rdT (items_of SecTS (annotate cur sl))) = None \/
  all_some (map rdH (items_of SecHQ (annotate cur sl))) = None \/ all_some (map rdH (items_of SecHS (annotate cur sl))) = None \/
  all_some (map rdM (items_of SecMtu (annotate cur sl))) = None.

Lemma all_some_app_none_l {A} (a b : list (option A)) : all_some a = None -> all_some (a ++ b) = None.
Proof. intros H. rewrite all_some_app, H. reflexivity. Qed.
Lemma all_some_app_none_r {A} (a b : list (option A)) : all_some b = None -> all_some (a ++ b) = None.
Proof. intros H. rewrite all_some_app, H. now destruct (all_some a). Qed.

Lemma tables_fail_cons cur x r : tables_fail (nsec cur x) r -> tables_fail cur (x :: r).
Proof.
  unfold tables_fail. rewrite !items_of_cons, !map_app.
  intros [H|[H|[H|[H|H]]]]; [left | right; left | right; right; left | right; right; right; left | right; right; right; right];
    now apply all_some_app_none_r.
Qed.

(* one line that yields no item (and is not an unknown item): the reference reader rejects the text *)
Lemma line_fail cur x r : to_item cur x = None -> cur <> Some SecOther -> unknown_item (cur, x) = false ->
  is_bad x = true \/ key_outside (cur, x) = true \/ tables_fail cur (x :: r).
Proof.
  intros H Hcur Hun. destruct x as [| | |sc|k v|]; cbn [to_item] in H; try discriminate.
  - destruct sc; try discriminate. destruct cur as [[]|]; discriminate.
  - destruct cur as [c|]; [|right; left; reflexivity]. right. right. unfold tables_fail. rewrite !items_of_cons, !map_app.
    destruct c, k; try congruence; try discriminate; cbn [omap] in H;
      try (destruct (spec_label v) eqn:RL; [discriminate|]); try (destruct (spec_tcp v) eqn:RT; [discriminate|]);
      try (destruct (spec_http v) eqn:RH; [discriminate|]); try (destruct (rd_mtu v) eqn:RM; [discriminate|]);
      [left | left | right; left | right; left | right; right; left | right; right; left
       | right; right; right; left | right; right; right; left | right; right; right; right];
      apply all_some_app_none_l; cbn [rawc sec_eqb map all_some]; unfold rdT, rdH, rdM, rd2; cbn [fst snd];
      rewrite ?RL, ?RT, ?RH, ?RM; reflexivity.
  - left. reflexivity.
Qed.

Lemma spec_fail sl : forall cur, to_items cur sl = None -> cur <> Some SecOther ->
  existsb unknown_item (annotate cur sl) = false ->
  existsb is_bad sl = true \/ existsb key_outside (annotate cur sl) = true \/ tables_fail cur sl.
Proof.
  induction sl as [|x r IH]; intros cur H Hcur Hun; cbn [to_items] in H; [discriminate|].
  rewrite ann_cons_unknown in Hun. apply orb_false_iff in Hun as [Hu1 Hu2]. rewrite ann_cons_outside. cbn [existsb].
  destruct (to_item cur x) as [it|] eqn:T.
  - destruct (to_item_sec _ _ _ T Hcur) as [N1 N2].
    destruct (to_items (nsec cur x) r) as [its'|] eqn:T2; [discriminate|].
    destruct (IH _ T2 N2 Hu2) as [I|[I|I]].
    + left. rewrite I. apply orb_true_r.
    + right. left. rewrite I. apply orb_true_r.
    + right. right. now apply tables_fail_cons.
  - destruct (line_fail cur x r T Hcur Hu1) as [I|[I|I]].
    + left. now rewrite I.
    + right. left. now rewrite I.
    + right. right. assumption.
Qed.

(* ================= the theorem ================= *)
Lemma to_item_known cur x it : to_item cur x = Some it -> unknown_item (cur, x) = false.
Proof.
  destruct x as [| | |sc|k v|]; cbn [to_item]; intros H; try discriminate;
    try (destruct cur as [[]|]; reflexivity).
  - destruct sc; try discriminate; destruct cur as [[]|]; reflexivity.
  - destruct cur as [[]|], k; try discriminate; reflexivity.
Qed.

Lemma spec_no_unknown sl : forall cur its, to_items cur sl = Some its -> cur <> Some SecOther ->
  existsb unknown_item (annotate cur sl) = false.
Proof.
  induction sl as [|x r IH]; intros cur its H Hcur; [reflexivity|]. cbn [to_items] in H.
  destruct (to_item cur x) as [it|] eqn:T; [|discriminate].
  destruct (to_items (nsec cur x) r) as [its'|] eqn:T2; [|discriminate].
  destruct (to_item_sec _ _ _ T Hcur) as [_ N2].
  rewrite ann_cons_unknown, (to_item_known _ _ _ T), (IH _ _ T2 N2). reflexivity.
Qed.

Theorem load_eq_spec_load t : ascii_edges t = true -> load t = verdict_opt (spec_load t).
Proof.
  unfold ascii_edges. intros Ha. apply negb_true_iff in Ha.
  set (ls := text_lines t []) in *.
  assert (Esl : map (fun raw => classify (trim_ascii raw)) ls = map classify (map trim_ascii ls)) by now rewrite map_map.
  rewrite (load_as_items t Ha). fold ls.
  unfold spec_load, spec_load_lines. fold ls. rewrite Ha. rewrite Esl.
  set (sl := map classify (map trim_ascii ls)) in *.
  rewrite !table_as_read. fold rdT rdH rdM.
  destruct (to_items None sl) as [its|] eqn:T.
  - destruct (spec_link sl None its T ltac:(discriminate)) as (L1 & L2 & L3 & L4 & L5 & L6 & L7).
    rewrite (spec_no_unknown sl None its T ltac:(discriminate)).
    rewrite L4, L5. cbn [orb].
    rewrite (L1 SecTQ (or_introl eq_refl)), (L1 SecTS (or_intror eq_refl)), (L2 SecHQ (or_introl eq_refl)),
      (L2 SecHS (or_intror eq_refl)), L3.
    unfold flatten.
    destruct (table_of (tcp_entries SecTQ None its)); destruct (table_of (tcp_entries SecTS None its));
    destruct (table_of (http_entries SecHQ None its)); destruct (table_of (http_entries SecHS None its));
    destruct (table_of (mtu_entries None its)); try reflexivity.
    cbn [verdict_opt]. f_equal. change (fun l => match l with SClasses cs => cs | _ => [] end) with cls_of.
    change (fun l => match l with SUaOs rs => rs | _ => [] end) with ua_of_line. now rewrite L6, L7.
  - destruct (existsb unknown_item (annotate None sl)) eqn:Hunk.
    + destruct (existsb is_bad sl || existsb key_outside (annotate None sl)); [reflexivity|].
      repeat match goal with |- context [match ?o with Some _ => _ | None => _ end] =>
               match o with all_some _ => destruct o end end;
      repeat match goal with |- context [table_of ?e] => destruct (table_of e) end; reflexivity.
    + destruct (spec_fail sl None T ltac:(discriminate) Hunk) as [F|[F|F]].
      * now rewrite F.
      * rewrite F, orb_true_r. reflexivity.
      * destruct (existsb is_bad sl || existsb key_outside (annotate None sl)); [reflexivity|].
        unfold tables_fail in F. destruct F as [F|[F|[F|[F|F]]]]; rewrite F;
          repeat match goal with |- context [match ?o with Some _ => _ | None => _ end] =>
                   match o with all_some _ => destruct o end end;
          repeat match goal with |- context [table_of ?e] => destruct (table_of e) end; reflexivity.
Qed.
