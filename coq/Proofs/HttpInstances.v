(* The concrete HTTP analyzer in the pool (C10), behind the filter (C15), and in the unified analyzer (C20):
   the frame bridge for the HTTP flow key, dispatch by connection, inertness, the compositions. *)
From Coq Require Import List NArith ZArith Bool Lia Permutation.
From Coq Require Import Strings.Byte.
From HN Require Import Base.Bytes Base.Cache Base.Tcp Base.Keyed Proofs.KeyedProofs Proofs.KeyedInstances
                       Model.Filter Model.RawFrame Model.FilterGlue Spec.FilterSpec Spec.CommuteSpec
                       Proofs.RawFrameProofs Proofs.CommuteProofs Proofs.FrameBridge
                       Model.Hash Spec.HashSpec Proofs.HashProofs
                       Model.HttpFlow Model.HttpAnalyzer Model.HttpGlue Proofs.HttpPlan Proofs.HttpKeyed
                       Model.PoolConcrete Proofs.PoolInstances
                       Model.Unified Spec.UnifiedSpec Proofs.UnifiedProofs Model.AnalyzerReports Proofs.DischargeInstances.
From HN Require Model.Pnet Model.TcpExtract Model.TcpAnalyzer Model.TlsAnalyzer.
Import ListNotations.
Open Scope N_scope.

(* ================================================================== frame bridge for the HTTP flow key *)
Definition hcode (a : ip) : N := match a with V4 x => x | V6 x => H128 + x end.
Definition hkey_of (e : endpoints) : fkey := (hcode (e_src e), hcode (e_dst e), e_sport e, e_dport e).

Lemma hcode_inj a b : (forall x, a = V4 x -> x < 4294967296) -> (forall x, b = V4 x -> x < 4294967296) ->
  hcode a = hcode b -> a = b.
Proof.
  destruct a as [x|x], b as [y|y]; cbn [hcode]; unfold H128; intros Ha Hb H.
  - now f_equal.
  - specialize (Ha x eq_refl). lia.
  - specialize (Hb y eq_refl). lia.
  - f_equal. lia.
Qed.
Lemma wf_src_dst e : wf_endpoints e ->
  (forall x, e_src e = V4 x -> x < 4294967296) /\ (forall x, e_dst e = V4 x -> x < 4294967296).
Proof.
  intros [[(a & b & Ha & Hb & La & Lb)|(a & b & Ha & Hb & _)] _]; split; intros x Hx; rewrite Hx in *; try discriminate.
  - now injection Ha as ->.
  - now injection Hb as ->.
Qed.
Lemma hkey_of_inj e e' : wf_endpoints e -> wf_endpoints e' -> hkey_of e = hkey_of e' -> e = e'.
Proof.
  intros W W' H. destruct (wf_src_dst e W) as [S D]. destruct (wf_src_dst e' W') as [S' D'].
  destruct e as [s d sp dp], e' as [s' d' sp' dp']. unfold hkey_of in H. cbn [e_src e_dst e_sport e_dport] in *.
  injection H as H1 H2 -> ->. f_equal; now apply hcode_inj.
Qed.
Lemma hkey_of_flip e : hkey_of (flip e) = flip_key (hkey_of e).
Proof. reflexivity. Qed.

Theorem http_class_bridge f e :
  analyzer_endpoints f = Some e -> exists g, http_frame_class f = HCSeg g /\ seg_key g = hkey_of e.
Proof.
  unfold analyzer_endpoints, http_frame_class. rewrite parse_bridge.
  destruct (parse_packet f) as [[l [ip|ip]]|]; [| |discriminate]; intro Hv.
  - pose proof (view4_long _ _ Hv) as Hl. revert Hv. cbn [view_endpoints].
    unfold hclassify4, Pnet.v4_protocol, Pnet.tcp_min. rewrite v4_payload_bridge.
    change (Pnet.byte_at ip 9) with (byte_at ip 9).
    destruct (negb (byte_at ip 9 =? 6)); [discriminate|]. rewrite blen_ltb. lits.
    destruct (length (ipv4_payload ip) <? 20)%nat; [discriminate|].
    intros H; injection H as <-. eexists. split; [reflexivity|].
    unfold seg_key, seg_of_view, hkey_of. cbn [g_src g_dst g_sport g_dport e_src e_dst e_sport e_dport hcode v4_at].
    unfold haddr4. assert (H12 : (12 + 4 <= length ip)%nat) by lia. assert (H16 : (16 + 4 <= length ip)%nat) by lia.
    rw_lit (be32_slice ip 12 H12). rw_lit (be32_slice ip 16 H16).
    rw_lit (be16_u16 (ipv4_payload ip) 0). rw_lit (be16_u16 (ipv4_payload ip) 2). reflexivity.
  - pose proof (view6_long _ _ Hv) as Hl. revert Hv. cbn [view_endpoints].
    unfold hclassify6, Pnet.v6_next_header, Pnet.tcp_min. rewrite v6_payload_bridge.
    change (Pnet.byte_at ip 6) with (byte_at ip 6).
    destruct (negb (byte_at ip 6 =? 6)); [discriminate|]. rewrite blen_ltb. lits.
    destruct (length (ipv6_payload ip) <? 20)%nat; [discriminate|].
    intros H; injection H as <-. eexists. split; [reflexivity|].
    unfold seg_key, seg_of_view, hkey_of. cbn [g_src g_dst g_sport g_dport e_src e_dst e_sport e_dport hcode v6_at].
    unfold haddr6, H32. assert (H8 : (8 + 16 <= length ip)%nat) by lia. assert (H24 : (24 + 16 <= length ip)%nat) by lia.
    pose proof (v6_addr_slice ip 8 H8) as A8. pose proof (v6_addr_slice ip 24 H24) as A24.
    cbn [N.of_nat Pos.of_succ_nat Pos.succ] in A8, A24. unfold TlsAnalyzer.v6_addr, TlsAnalyzer.P32 in A8, A24.
    rewrite A8, A24. rw_lit (be16_u16 (ipv6_payload ip) 0). rw_lit (be16_u16 (ipv6_payload ip) 2). reflexivity.
Qed.

Lemma http_class_none f : analyzer_endpoints f = None -> http_frame_class f = HCErr \/ http_frame_class f = HCNone.
Proof.
  unfold analyzer_endpoints, http_frame_class. rewrite parse_bridge.
  destruct (parse_packet f) as [[l [ip|ip]]|]; [| |now right]; cbn [view_endpoints]; intro H; left.
  - unfold hclassify4, Pnet.v4_protocol, Pnet.tcp_min. rewrite v4_payload_bridge, blen_ltb. lits.
    change (Pnet.byte_at ip 9) with (byte_at ip 9).
    destruct (length (ipv4_payload ip) <? 20)%nat; [reflexivity|].
    destruct (negb (byte_at ip 9 =? 6)); [reflexivity | discriminate].
  - unfold hclassify6, Pnet.v6_next_header, Pnet.tcp_min. rewrite v6_payload_bridge, blen_ltb. lits.
    change (Pnet.byte_at ip 6) with (byte_at ip 6).
    destruct (length (ipv6_payload ip) <? 20)%nat; [reflexivity|].
    destruct (negb (byte_at ip 6 =? 6)); [reflexivity | discriminate].
Qed.

(* equal connection keys = the analyzer-reported endpoints are equal or each other's reverse *)
Theorem http_key_identity p q e e' :
  analyzer_endpoints p = Some e -> analyzer_endpoints q = Some e' ->
  http_key p = http_key q -> e' = e \/ e' = flip e.
Proof.
  intros Hp Hq. destruct (http_class_bridge p e Hp) as (g & Cg & Kg). destruct (http_class_bridge q e' Hq) as (g' & Cg' & Kg').
  unfold http_key. rewrite Cg, Cg', Kg, Kg'. intro H.
  pose proof (analyzer_endpoints_wf _ _ Hp) as W. pose proof (analyzer_endpoints_wf _ _ Hq) as W'.
  destruct (norm_eq_cases _ _ H) as [E|E].
  - left. symmetry. now apply hkey_of_inj.
  - right. rewrite <- hkey_of_flip in E. apply hkey_of_inj; [exact W' | | exact E].
    destruct W as [[(a & b & Ha & Hb & La & Lb)|(a & b & Ha & Hb & La & Lb)] [Sp Dp]]; split; cbn [flip e_src e_dst e_sport e_dport]; auto.
    + left. exists b, a. auto.
    + right. exists b, a. auto.
Qed.

(* ================================================================== C10: dispatch by connection, the pool *)
Section HttpPool.
  Context {Req Resp : Type}.
  Variable parse_req : bytes -> option Req.
  Variable parse_resp : bytes -> option Resp.
  Variable SipH : ident -> N.
  Notation hres := (@http_out Req Resp).

  Theorem http_dispatch_by_key (n : N) (p q : bytes) :
    0 < n -> pool_dom p = true -> pool_dom q = true -> http_key p = http_key q ->
    http_worker SipH n p = http_worker SipH n q /\ exists w, http_worker SipH n p = Some w /\ w < n.
  Proof.
    intros Hn Dp Dq Hk.
    destruct (pool_dom_spec p Dp) as (Cp & Rp & e & Ep). destruct (pool_dom_spec q Dq) as (Cq & Rq & e' & Eq).
    assert (Hv : exists w, http_worker SipH n p = Some w /\ w < n).
    { apply (affinity_http SipH n p p Hn eq_refl); try assumption. unfold identity_http. rewrite Ep. discriminate. }
    split; [|exact Hv].
    destruct (http_key_identity p q e e' Ep Eq Hk) as [-> | ->].
    - apply (affinity_http SipH n p q Hn); try assumption.
      + unfold identity_http. now rewrite Ep, Eq.
      + unfold identity_http. rewrite Ep. discriminate.
    - exact (http_both_directions SipH n p q e Ep Eq Cp Cq Rp Rq).
  Qed.

  Lemma http_wk_consistent (n : N) (tr : list bytes) :
    0 < n -> (forall f, In f tr -> pool_dom f = true) ->
    key_consistent bytes fkey http_key (http_wk SipH n) tr.
  Proof.
    intros Hn Hd p q Hp Hq Hk. unfold http_wk.
    now rewrite (proj1 (http_dispatch_by_key n p q Hn (Hd p Hp) (Hd q Hq) Hk)).
  Qed.

  Theorem http_pool_concrete (n capw caps : N) (es : list (ev bytes)) :
    let x := http_pool_run parse_req parse_resp SipH n capw es in
    0 < n -> (forall f, In f (Keyed.dispatched bytes es) -> pool_dom f = true) ->
    http_pool_withinb parse_req parse_resp SipH n capw es = true ->
    http_within_capacityb parse_req parse_resp (cache_new caps) (Keyed.dispatched bytes es) = true ->
    (forall w, cq bytes fkey hres http_state x w = []) ->
    (forall K, Keyed.proj fkey hres fkey_eqb K (couts bytes fkey hres http_state x)
               = Keyed.proj fkey hres fkey_eqb K (http_results parse_req parse_resp (cache_new caps) (Keyed.dispatched bytes es)))
    /\ Permutation (couts bytes fkey hres http_state x) (http_results parse_req parse_resp (cache_new caps) (Keyed.dispatched bytes es)).
  Proof.
    intros x Hn Hd Hw Hs Hq. rewrite (http_is_keyed parse_req parse_resp _ _ Hs).
    assert (Ha : forall K, http_abs (cache_new caps) K = http_abs (cache_new capw) K) by reflexivity.
    pose proof (cpool_refines bytes fkey ents hres http_state http_key fkey_eqb fkey_eqb_eq (http_lstep parse_req parse_resp)
                  (http_packet_results parse_req parse_resp) http_abs http_fits (http_step_sim parse_req parse_resp)
                  (http_wk SipH n) (cache_new capw) es (http_wk_consistent n _ Hn Hd) Hw Hq) as [P1 P2].
    pose proof (run_ext bytes fkey ents hres http_key fkey_eqb (http_lstep parse_req parse_resp) (Keyed.dispatched bytes es)
                  (http_abs (cache_new caps)) (http_abs (cache_new capw)) Ha) as [Ex _].
    rewrite Ex. split; [exact P1 | exact P2].
  Qed.
End HttpPool.

(* ================================================================== C15: inertness, commutation *)
Section HttpFilter.
  Context {Req Resp : Type}.
  Variable parse_req : bytes -> option Req.
  Variable parse_resp : bytes -> option Resp.
  Notation hres := (@http_out Req Resp).

  Theorem http_inert st f : analyzer_endpoints f = None -> http_report_step parse_req parse_resp st f = (st, []).
  Proof.
    intro H. unfold http_report_step, http_packet_step.
    destruct (http_class_none f H) as [-> | ->]; reflexivity.
  Qed.

  Theorem commutes_http_concrete (c : cfg_src) : cfg_wf c = true ->
    forall (tau : list bytes) (st : http_state),
      FilterGlue.run (with_filter (build c) (http_report_step parse_req parse_resp)) st tau
      = FilterGlue.run (http_report_step parse_req parse_resp) st (admitted_subtrace c tau).
  Proof. intros Hc tau st. exact (commute http_state hres (http_report_step parse_req parse_resp) http_inert c Hc tau st). Qed.
End HttpFilter.

(* ================================================================== C20: all three protocols concrete *)
Section UnifiedAll.
  Import TcpAnalyzer.
  Variable parse_req parse_resp : bytes -> option bytes.
  Variable db : list (bytes * list N).
  Variable cap : N.
  Notation hstep := (http_ustep parse_req parse_resp).

  Theorem trace_union_concrete (c : cfg) (tr : list tcp_event) (st : tcp_state) (sh : http_state) :
    trace_accepts tcp_event tcp_state http_state (tcp_ustep db cap) hstep tls_ufn c st sh tr ->
    map Some (unified_run tcp_event tcp_state http_state (tcp_ustep db cap) hstep tls_ufn c (st, sh) tr)
    = spec_run_enabled tcp_event tcp_state http_state (tcp_ustep db cap) hstep tls_ufn c st sh tr.
  Proof. apply trace_union. Qed.

  (* which frames the stages reject with an error *)
  Lemma http_ustep_accepts sh e : http_frame_class (fst e) <> HCErr -> accepts true (snd (hstep sh e)) = true.
  Proof.
    unfold http_ustep, http_packet_step. destruct (http_frame_class (fst e)) as [| |g]; [congruence | reflexivity |].
    intros _. destruct (step parse_req parse_resp sh g) as [sh' o]. now destruct o.
  Qed.
  (* a frame the TCP analyzer accepts is one the HTTP path accepts (the converse fails: fragments, invalid flag
     combinations -- such a packet is consumed by the HTTP flow table and then blanks the unified result) *)
  Lemma tcp_ok_http_ok f : TcpExtract.process_frame db f <> TcpExtract.Err -> http_frame_class f <> HCErr.
  Proof.
    unfold TcpExtract.process_frame, http_frame_class. destruct (Pnet.parse_packet f) as [p|p|]; [| |discriminate].
    - unfold TcpExtract.process_ipv4_packet, hclassify4.
      destruct (Pnet.blen (Pnet.v4_payload p) <? Pnet.tcp_min); [congruence|].
      unfold TcpExtract.process_tcp_ipv4, TcpExtract.PROTO_TCP.
      destruct (negb (Pnet.v4_protocol p =? 6)); [cbn; congruence | discriminate].
    - unfold TcpExtract.process_ipv6_packet, hclassify6.
      destruct (Pnet.blen (Pnet.v6_payload p) <? Pnet.tcp_min); [congruence|].
      unfold TcpExtract.process_tcp_ipv6, TcpExtract.PROTO_TCP.
      destruct (negb (Pnet.v6_next_header p =? 6)); [cbn; congruence | discriminate].
  Qed.

  Lemma accepts_frames (c : cfg) : forall tr st sh,
    (http_en c = true -> forall e, In e tr -> http_frame_class (fst e) <> HCErr) ->
    (tcp_en c = true -> forall e, In e tr -> TcpExtract.process_frame db (fst e) <> TcpExtract.Err) ->
    trace_accepts tcp_event tcp_state http_state (tcp_ustep db cap) hstep tls_ufn c st sh tr.
  Proof.
    induction tr as [|e tr IH]; intros st sh Hh Ht; cbn [trace_accepts]; [exact I|]. split.
    - unfold all_accept. apply andb_true_iff. split; [apply andb_true_iff; split|].
      + destruct (tcp_en c) eqn:Et; [|reflexivity]. apply tcp_ustep_accepts. apply (Ht eq_refl). now left.
      + destruct (http_en c) eqn:Eh; [|reflexivity]. apply http_ustep_accepts. apply (Hh eq_refl). now left.
      + apply tls_ufn_accepts.
    - apply IH; [intros Hc e' He'; apply (Hh Hc); now right | intros Hc e' He'; apply (Ht Hc); now right].
  Qed.

  Theorem trace_union_concrete_frames (c : cfg) (tr : list tcp_event) (st : tcp_state) (sh : http_state) :
    (http_en c = true -> forall e, In e tr -> http_frame_class (fst e) <> HCErr) ->
    (tcp_en c = true -> forall e, In e tr -> TcpExtract.process_frame db (fst e) <> TcpExtract.Err) ->
    map Some (unified_run tcp_event tcp_state http_state (tcp_ustep db cap) hstep tls_ufn c (st, sh) tr)
    = spec_run_enabled tcp_event tcp_state http_state (tcp_ustep db cap) hstep tls_ufn c st sh tr.
  Proof. intros Hh Ht. apply trace_union. now apply accepts_frames. Qed.
End UnifiedAll.
