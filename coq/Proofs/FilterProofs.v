(* Proofs for C14: MODEL (filter.rs transcription) = SPEC (documented rule), all configurations. *)
From Coq Require Import List NArith Bool Lia ZifyBool ZifyN Btauto.
From HN Require Import Base.Bytes Model.Filter Spec.FilterSpec.
Import ListNotations.
Open Scope N_scope.

Lemma contains_app l1 l2 x : contains_N (l1 ++ l2) x = contains_N l1 x || contains_N l2 x.
Proof. unfold contains_N. apply existsb_app. Qed.
Lemma in_ranges_app l1 l2 x : in_ranges (l1 ++ l2) x = in_ranges l1 x || in_ranges l2 x.
Proof. unfold in_ranges. apply existsb_app. Qed.

Lemma inclusive_half_open a b p :
  (fst (inclusive a b) <=? p) && (p <=? snd (inclusive a b)) = (a <=? p) && (p <? b).
Proof. unfold inclusive. destruct (a <? b) eqn:E; cbn [fst snd]; lia. Qed.

Lemma in_ranges_one a b p : in_ranges [inclusive a b] p = (a <=? p) && (p <? b).
Proof. unfold in_ranges. cbn [existsb]. rewrite inclusive_half_open. btauto. Qed.

Lemma contains_one q p : contains_N [q] p = (p =? q).
Proof. unfold contains_N. cbn [existsb]. btauto. Qed.

Definition Dm (f : port_filter) p := contains_N (destination_ports f) p || in_ranges (destination_ranges f) p.
Definition Sm (f : port_filter) p := contains_N (source_ports f) p || in_ranges (source_ranges f) p.
Definition Dnil (f : port_filter) := is_nil (destination_ports f) && is_nil (destination_ranges f).
Definition Snil (f : port_filter) := is_nil (source_ports f) && is_nil (source_ranges f).

Lemma is_nil_app {A} (l1 l2 : list A) : is_nil (l1 ++ l2) = is_nil l1 && is_nil l2.
Proof. destruct l1, l2; reflexivity. Qed.

Lemma existsb_N_eqb_sym p l : existsb (N.eqb p) l = contains_N l p.
Proof. reflexivity. Qed.

Lemma step_D f o p : Dm (pf_step f o) p = Dm f p || dst_listed [o] p.
Proof.
  unfold Dm, dst_listed; destruct o; cbn [pf_step destination_ports destination_ranges existsb];
  rewrite ?contains_app, ?in_ranges_app, ?contains_one, ?in_ranges_one, ?existsb_N_eqb_sym; btauto.
Qed.
Lemma step_S f o p : Sm (pf_step f o) p = Sm f p || src_listed [o] p.
Proof.
  unfold Sm, src_listed; destruct o; cbn [pf_step source_ports source_ranges existsb];
  rewrite ?contains_app, ?in_ranges_app, ?contains_one, ?in_ranges_one, ?existsb_N_eqb_sym; btauto.
Qed.
Lemma step_Dnil f o : Dnil (pf_step f o) = Dnil f && negb (dst_constrained [o]).
Proof.
  unfold Dnil, dst_constrained; destruct o as [| | | | l | l |]; cbn [pf_step destination_ports destination_ranges existsb];
  rewrite ?is_nil_app; try destruct l; cbn [is_nil]; btauto.
Qed.
Lemma step_Snil f o : Snil (pf_step f o) = Snil f && negb (src_constrained [o]).
Proof.
  unfold Snil, src_constrained; destruct o as [| | | | l | l |]; cbn [pf_step source_ports source_ranges existsb];
  rewrite ?is_nil_app; try destruct l; cbn [is_nil]; btauto.
Qed.
Lemma step_any f o : match_any (pf_step f o) = match_any f || any_mode [o].
Proof. unfold any_mode; destruct o; cbn [pf_step match_any existsb]; btauto. Qed.

Lemma listed_cons_d o ops p : dst_listed (o :: ops) p = dst_listed [o] p || dst_listed ops p.
Proof. unfold dst_listed. cbn [existsb]. btauto. Qed.
Lemma listed_cons_s o ops p : src_listed (o :: ops) p = src_listed [o] p || src_listed ops p.
Proof. unfold src_listed. cbn [existsb]. btauto. Qed.
Lemma constr_cons_d o ops : dst_constrained (o :: ops) = dst_constrained [o] || dst_constrained ops.
Proof. unfold dst_constrained. cbn [existsb]. btauto. Qed.
Lemma constr_cons_s o ops : src_constrained (o :: ops) = src_constrained [o] || src_constrained ops.
Proof. unfold src_constrained. cbn [existsb]. btauto. Qed.
Lemma any_cons o ops : any_mode (o :: ops) = any_mode [o] || any_mode ops.
Proof. unfold any_mode. cbn [existsb]. btauto. Qed.

Lemma fold_D ops : forall f p, Dm (fold_left pf_step ops f) p = Dm f p || dst_listed ops p.
Proof. induction ops as [|o ops IH]; intros f p; cbn [fold_left].
  - unfold dst_listed; cbn; btauto.
  - rewrite IH, step_D, (listed_cons_d o ops). btauto. Qed.
Lemma fold_S ops : forall f p, Sm (fold_left pf_step ops f) p = Sm f p || src_listed ops p.
Proof. induction ops as [|o ops IH]; intros f p; cbn [fold_left].
  - unfold src_listed; cbn; btauto.
  - rewrite IH, step_S, (listed_cons_s o ops). btauto. Qed.
Lemma fold_Dnil ops : forall f, Dnil (fold_left pf_step ops f) = Dnil f && negb (dst_constrained ops).
Proof. induction ops as [|o ops IH]; intros f; cbn [fold_left].
  - unfold dst_constrained; cbn; btauto.
  - rewrite IH, step_Dnil, (constr_cons_d o ops). btauto. Qed.
Lemma fold_Snil ops : forall f, Snil (fold_left pf_step ops f) = Snil f && negb (src_constrained ops).
Proof. induction ops as [|o ops IH]; intros f; cbn [fold_left].
  - unfold src_constrained; cbn; btauto.
  - rewrite IH, step_Snil, (constr_cons_s o ops). btauto. Qed.
Lemma fold_any ops : forall f, match_any (fold_left pf_step ops f) = match_any f || any_mode ops.
Proof. induction ops as [|o ops IH]; intros f; cbn [fold_left].
  - unfold any_mode; cbn; btauto.
  - rewrite IH, step_any, (any_cons o ops). btauto. Qed.

Lemma port_model_spec ops s d : pf_matches (build_port ops) s d = port_spec ops s d.
Proof.
  unfold pf_matches, port_spec, build_port.
  rewrite fold_any. cbn [pf_new match_any orb].
  pose proof (fold_D ops pf_new) as HD. pose proof (fold_S ops pf_new) as HS.
  pose proof (fold_Dnil ops pf_new) as HDn. pose proof (fold_Snil ops pf_new) as HSn.
  set (F := fold_left pf_step ops pf_new) in *.
  unfold Dm, Sm, Dnil, Snil in *. cbn [pf_new destination_ports destination_ranges source_ports source_ranges
     contains_N in_ranges existsb is_nil orb andb] in *.
  destruct (any_mode ops).
  - rewrite !contains_app, !in_ranges_app.
    pose proof (HD s) as D1. pose proof (HD d) as D2. pose proof (HS s) as S1. pose proof (HS d) as S2.
    cbn [orb] in *.
    rewrite <- D1, <- D2, <- S1, <- S2. btauto.
  - rewrite HDn, HSn. pose proof (HD d) as D2. pose proof (HS s) as S1. cbn [orb] in *.
    rewrite D2, S1. destruct (src_constrained ops), (dst_constrained ops), (src_listed ops s), (dst_listed ops d); reflexivity.
Qed.

(* ---- address filter ---- *)
Definition If4 (f : ip_filter) x := contains_N (ipv4_addresses f) x.
Lemma if_side_step f o a : if_side (if_step f o) a = if_side f a || addr_listed [o] a.
Proof.
  unfold addr_listed; destruct o as [[b|b]| |], a as [x|x];
  cbn [if_step if_side ipv4_addresses ipv6_addresses existsb ip_eqb];
  rewrite ?contains_app, ?contains_one; btauto.
Qed.
Lemma addr_cons o ops a : addr_listed (o :: ops) a = addr_listed [o] a || addr_listed ops a.
Proof. unfold addr_listed. cbn [existsb]. btauto. Qed.
Lemma if_side_fold ops : forall f a, if_side (fold_left if_step ops f) a = if_side f a || addr_listed ops a.
Proof. induction ops as [|o ops IH]; intros f a; cbn [fold_left].
  - unfold addr_listed; cbn; btauto.
  - rewrite IH, if_side_step, (addr_cons o ops). btauto. Qed.

Definition sides_of (s d : bool) : sides := if s then (if d then Both else SrcSide) else DstSide.
Lemma if_sides_fold ops : forall f, (ip_check_source f || ip_check_destination f = true) ->
  let F := fold_left if_step ops f in
  ip_check_source F = src_enabled (fold_left (fun s o => match o with ISrcOnly => SrcSide | IDstOnly => DstSide | _ => s end) ops (sides_of (ip_check_source f) (ip_check_destination f)))
  /\ ip_check_destination F = dst_enabled (fold_left (fun s o => match o with ISrcOnly => SrcSide | IDstOnly => DstSide | _ => s end) ops (sides_of (ip_check_source f) (ip_check_destination f))).
Proof.
  induction ops as [|o ops IH]; intros f Hf; cbn [fold_left].
  - destruct (ip_check_source f), (ip_check_destination f); cbn in *; auto; discriminate.
  - specialize (IH (if_step f o)).
    destruct o as [[b|b]| |]; cbn [if_step ip_check_source ip_check_destination] in *;
      try (apply IH; assumption); apply IH; reflexivity.
Qed.

Lemma ip_model_spec ops src dst : if_matches (build_ip ops) src dst = ip_spec ops src dst.
Proof.
  unfold if_matches, ip_spec, build_ip, ip_sides.
  destruct (if_sides_fold ops if_new eq_refl) as [Hs Hd]. cbn [if_new ip_check_source ip_check_destination sides_of] in Hs, Hd.
  rewrite Hs, Hd, !if_side_fold.
  replace (if_side if_new src) with false by (destruct src; reflexivity).
  replace (if_side if_new dst) with false by (destruct dst; reflexivity).
  cbn [orb]. destruct (src_enabled _), (dst_enabled _); cbn [andb orb]; btauto.
Qed.

(* ---- subnet filter: mask comparison = leading bits agree ---- *)
Lemma ones_w_shiftr w p : p <= w -> N.shiftr (ones_w w) p = ones_w (w - p).
Proof.
  intros H. unfold ones_w. rewrite N.shiftr_div_pow2.
  replace w with ((w - p) + p) at 1 by lia.
  rewrite N.pow_add_r.
  assert (0 < 2 ^ p) by (apply N.neq_0_lt_0, N.pow_nonzero; lia).
  assert (0 < 2 ^ (w - p)) by (apply N.neq_0_lt_0, N.pow_nonzero; lia).
  symmetry. apply N.div_unique with (r := 2 ^ p - 1); nia.
Qed.

Lemma net_mask_eq w p : p <= w -> net_mask w p = N.shiftl (N.ones p) (w - p).
Proof.
  intros H. unfold net_mask. rewrite ones_w_shiftr by assumption. unfold ones_w.
  rewrite N.shiftl_mul_pow2, N.ones_equiv, N.pred_sub.
  replace w with (p + (w - p)) at 1 by lia. rewrite N.pow_add_r.
  assert (0 < 2 ^ p) by (apply N.neq_0_lt_0, N.pow_nonzero; lia).
  assert (0 < 2 ^ (w - p)) by (apply N.neq_0_lt_0, N.pow_nonzero; lia).
  nia.
Qed.

Lemma land_high_mask x k p : x < 2 ^ (k + p) ->
  N.land x (N.shiftl (N.ones p) k) = N.shiftl (N.shiftr x k) k.
Proof.
  intros Hx. apply N.bits_inj. intro n. rewrite N.land_spec.
  destruct (N.ltb_spec n k) as [Hn|Hn].
  - rewrite !N.shiftl_spec_low by assumption. apply andb_false_r.
  - rewrite !N.shiftl_spec_high' by assumption. rewrite N.shiftr_spec'.
    replace (n - k + k) with n by lia.
    destruct (N.ltb_spec (n - k) p) as [Hp|Hp].
    + rewrite N.ones_spec_low by assumption. apply andb_true_r.
    + rewrite N.ones_spec_high by assumption. rewrite andb_false_r.
      rewrite <- (N.mod_small x (2 ^ (k + p))) by assumption.
      symmetry. apply N.mod_pow2_bits_high. lia.
Qed.

Lemma net_contains_spec w n p x : p <= w -> x < 2 ^ w -> n < 2 ^ w ->
  net_contains w (n, p) x = in_cidr w n p x.
Proof.
  intros Hp Hx Hn. unfold net_contains, in_cidr. cbn [fst snd].
  rewrite net_mask_eq by assumption.
  rewrite !land_high_mask by (replace (w - p + p) with w by lia; assumption).
  rewrite !N.shiftl_mul_pow2, !N.shiftr_div_pow2.
  assert (0 < 2 ^ (w - p)) by (apply N.neq_0_lt_0, N.pow_nonzero; lia).
  destruct (N.eqb_spec (x / 2 ^ (w - p)) (n / 2 ^ (w - p))) as [E|E].
  - rewrite E. apply N.eqb_refl.
  - apply N.eqb_neq. intro C. apply E. nia.
Qed.

Definition cidr_one (o : sop) (a : ip) : bool :=
  match o, a with
  | SAllow (V4 n) p, V4 x => in_cidr 32 n p x
  | SAllow (V6 n) p, V6 x => in_cidr 128 n p x
  | _, _ => false end.
Lemma in_some_cons o ops a : in_some_cidr (o :: ops) a = cidr_one o a || in_some_cidr ops a.
Proof. reflexivity. Qed.

Lemma existsb_snoc {A} (f : A -> bool) l x : existsb f (l ++ [x]) = existsb f l || f x.
Proof. rewrite existsb_app. cbn. btauto. Qed.

Lemma sf_side_step f o a : sop_wf o = true -> ip_wf a = true ->
  sf_side (sf_step f o) a = sf_side f a || cidr_one o a.
Proof.
  intros Ho Ha. destruct o as [[n|n] p| |], a as [x|x];
  cbn [sf_step sf_side ipv4_subnets ipv6_subnets cidr_one sop_wf ip_wf] in *;
  rewrite ?existsb_snoc, ?orb_false_r; try reflexivity;
  f_equal; apply net_contains_spec; lia.
Qed.
Lemma sf_side_fold ops : forall f a, forallb sop_wf ops = true -> ip_wf a = true ->
  sf_side (fold_left sf_step ops f) a = sf_side f a || in_some_cidr ops a.
Proof.
  induction ops as [|o ops IH]; intros f a Hw Ha; cbn [fold_left].
  - unfold in_some_cidr; cbn; btauto.
  - cbn [forallb] in Hw. apply andb_true_iff in Hw as [Ho Hw].
    rewrite IH, sf_side_step, in_some_cons by assumption. btauto.
Qed.
Lemma sf_sides_fold ops : forall f, (sn_check_source f || sn_check_destination f = true) ->
  let F := fold_left sf_step ops f in
  let S := fold_left (fun s o => match o with SSrcOnly => SrcSide | SDstOnly => DstSide | _ => s end) ops
              (sides_of (sn_check_source f) (sn_check_destination f)) in
  sn_check_source F = src_enabled S /\ sn_check_destination F = dst_enabled S.
Proof.
  induction ops as [|o ops IH]; intros f Hf; cbn [fold_left].
  - destruct (sn_check_source f), (sn_check_destination f); cbn in *; auto; discriminate.
  - specialize (IH (sf_step f o)).
    destruct o as [[b|b] p| |]; cbn [sf_step sn_check_source sn_check_destination] in *;
      try (apply IH; assumption); apply IH; reflexivity.
Qed.

Lemma sub_model_spec ops src dst : forallb sop_wf ops = true -> ip_wf src = true -> ip_wf dst = true ->
  sf_matches (build_sub ops) src dst = sub_spec ops src dst.
Proof.
  intros Hw Hs Hd. unfold sf_matches, sub_spec, build_sub, sub_sides.
  destruct (sf_sides_fold ops sf_new eq_refl) as [H1 H2].
  cbn [sf_new sn_check_source sn_check_destination sides_of] in H1, H2.
  rewrite H1, H2, !sf_side_fold by assumption.
  replace (sf_side sf_new src) with false by (destruct src; reflexivity).
  replace (sf_side sf_new dst) with false by (destruct dst; reflexivity).
  cbn [orb]. destruct (src_enabled _), (dst_enabled _); cbn [andb orb]; btauto.
Qed.

Theorem filter_model_spec c src dst sport dport :
  cfg_wf c = true -> ip_wf src = true -> ip_wf dst = true ->
  model_filter c src dst sport dport = spec_filter c src dst sport dport.
Proof.
  intros Hc Hs Hd. unfold model_filter, spec_filter, should_process, build, all_configured_match, cfg_wf in *.
  destruct c as [dn [pops|] [iops|] [sops|]];
  cbn [c_deny c_port c_ip c_sub option_map port_filter_ ip_filter_ subnet_filter_ deny opt_test] in *;
  rewrite ?port_model_spec, ?ip_model_spec, ?sub_model_spec by assumption;
  try reflexivity; destruct dn; cbn [andb];
  repeat match goal with |- context [port_spec ?a ?b ?c] => destruct (port_spec a b c) end;
  repeat match goal with |- context [ip_spec ?a ?b ?c] => destruct (ip_spec a b c) end;
  repeat match goal with |- context [sub_spec ?a ?b ?c] => destruct (sub_spec a b c) end;
  reflexivity.
Qed.

(* non-vacuity: a configuration using every sub-filter meets the hypotheses and is decided both ways *)
Example filter_example :
  let c := {| c_deny := false;
              c_port := Some [PDstRange 8000 9000; PDst 443];
              c_ip := None;
              c_sub := Some [SAllow (V4 167772160) 8; SSrcOnly] |} in
  cfg_wf c = true /\ model_filter c (V4 167772161) (V4 1) 5555 8999 = true
  /\ model_filter c (V4 167772161) (V4 1) 5555 9000 = false
  /\ model_filter c (V4 1) (V4 167772161) 5555 443 = false.
Proof. vm_compute. repeat split. Qed.
