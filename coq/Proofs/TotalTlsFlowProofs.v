(* C01 -- the TLS flow table step never panics, and a flow whose record ended in an error (or in a
   signature) is forgotten: the next segment on that 4-tuple meets no stale buffer. *)
From Coq Require Import List NArith Bool Lia ZifyBool ZifyN.
From Coq Require Import Strings.Byte.
From HN Require Import Base.Bytes Model.TotalBase Model.TotalReader Model.TotalTlsFlow Spec.TotalSpec
  Proofs.TotalBaseProofs Proofs.TotalReaderProofs.
Import ListNotations.
Open Scope N_scope.

Lemma is_tls_traffic_ok p : exists b, is_tls_traffic p = Ok b.
Proof.
  unfold is_tls_traffic. destruct (len p <? 5) eqn:E; [eauto|]. ok_idx p 0.
  destruct (b2n b =? 22); [|eauto]. ok_idx p 1. ok_idx p 2. eauto.
Qed.

Lemma tls_step_ok parse t f p : exists r, tls_step parse t f p = Ok r.
Proof.
  unfold tls_step. destruct p as [|x p]; [eauto|].
  assert (Hg : exists g, (match ffind t f with Some _ => Ok true | None => is_tls_traffic (x :: p) end) = Ok g).
  { destruct (ffind t f); [eauto|apply is_tls_traffic_ok]. }
  destruct Hg as (g & ->). cbn [bind]. destruct g; cbn [negb]; [|eauto].
  destruct (add_bytes_ok parse (match ffind t f with Some r => r | None => rstate0 end) (x :: p)) as (s & o & ->).
  cbn [bind snd fst]. destruct o; eauto.
Qed.

Lemma tls_step_total parse t f p : total (tls_step parse t f p).
Proof. destruct (tls_step_ok parse t f p) as (r & ->). split; discriminate. Qed.

Lemma tls_run_ok : forall segs t, exists l, tls_run t segs = Ok l.
Proof.
  induction segs as [|[[f p] o] rest IH]; intros t; cbn [tls_run]; [eauto|].
  destruct (tls_step_ok (fun _ => o) t f p) as (r & ->). cbn [bind].
  destruct (IH (fst (fst r))) as (k & ->). cbn [bind]. eauto.
Qed.

Lemma ffind_fremove t f : ffind (fremove t f) f = None.
Proof.
  induction t as [|[k v] r IH]; cbn [fremove ffind]; [reflexivity|].
  destruct (k =? f) eqn:E; [exact IH|]. cbn [ffind]. rewrite E. exact IH.
Qed.
Lemma ffind_fremove_other t f g : (g =? f) = false -> ffind (fremove t f) g = ffind t g.
Proof.
  intros H. induction t as [|[k v] r IH]; cbn [fremove ffind]; [reflexivity|].
  destruct (k =? f) eqn:E.
  - rewrite IH. destruct (k =? g) eqn:E2; [|reflexivity]. exfalso. lia.
  - cbn [ffind]. rewrite IH. reflexivity.
Qed.

(* whenever the reader returned an error or a signature, the flow is gone from the table *)
Lemma tls_step_forgets parse t f p t' rep o :
  tls_step parse t f p = Ok (t', rep, Some o) -> o <> RNone -> ffind t' f = None.
Proof.
  unfold tls_step. destruct p as [|x p]; [discriminate|].
  destruct (match ffind t f with Some _ => Ok true | None => is_tls_traffic (x :: p) end) as [g| | |]; cbn [bind]; try discriminate.
  destruct g; cbn [negb]; [|discriminate].
  destruct (add_bytes parse _ (x :: p)) as [[s ro]| | |]; cbn [bind snd fst]; try discriminate.
  destruct ro; intros H Ho; inversion H; subst; try apply ffind_fremove. congruence.
Qed.

(* ... and the other flows are untouched by that *)
Lemma tls_step_other_flows parse t f p t' rep o g :
  tls_step parse t f p = Ok (t', rep, o) -> (g =? f) = false -> ffind t' g = ffind t g.
Proof.
  unfold tls_step. destruct p as [|x p]; [intros H; inversion H; reflexivity|].
  destruct (match ffind t f with Some _ => Ok true | None => is_tls_traffic (x :: p) end) as [gt| | |]; cbn [bind]; try discriminate.
  destruct gt; cbn [negb]; [|intros H; inversion H; reflexivity].
  destruct (add_bytes parse _ (x :: p)) as [[s ro]| | |]; cbn [bind snd fst]; try discriminate.
  destruct ro; intros H Hg; inversion H; subst.
  - unfold fset. cbn [ffind]. replace (f =? g) with false by lia. apply ffind_fremove_other, Hg.
  - apply ffind_fremove_other, Hg.
  - apply ffind_fremove_other, Hg.
Qed.

(* recovery on ONE 4-tuple: after a segment on which the reader failed, the next segment of that flow is
   processed exactly as on a table that never saw the flow *)
Lemma tls_recovers_same_flow parse t f bad t' rep p :
  tls_step parse t f bad = Ok (t', rep, Some RErr) ->
  exists t1 t2 out ro, tls_step parse t' f p = Ok (t1, out, ro) /\ tls_step parse (fremove t f) f p = Ok (t2, out, ro).
Proof.
  intros H. pose proof (tls_step_forgets parse t f bad t' rep RErr H ltac:(discriminate)) as Hf.
  pose proof (ffind_fremove t f) as Hf2.
  unfold tls_step. destruct p as [|x p]; [eauto 6|]. rewrite Hf, Hf2.
  destruct (is_tls_traffic_ok (x :: p)) as (g & ->). cbn [bind]. destruct g; cbn [negb]; [|eauto 6].
  destruct (add_bytes_ok parse rstate0 (x :: p)) as (s & o & ->). cbn [bind snd fst]. destruct o; eauto 6.
Qed.

Example tls_flow_ex :
  tls_run [] [(1, [x16; x03; x01; x00; x02; x01; x00], PErr); (1, [x16; x03; x01; x00; x02; x01; x00], PSome); (2, [x17; x03], PSome)]
  = Ok [false; true; false].
Proof. vm_compute. reflexivity. Qed.
