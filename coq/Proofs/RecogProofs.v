(* Facts about the concrete HTTP/1 recogniser (Model/HttpRecog.v) needed to instantiate the C09 theorems. *)
From Coq Require Import List NArith Bool Lia.
From Coq Require Import Strings.Byte.
From HN Require Import Base.Bytes Base.Cache Model.HttpRecog Proofs.CacheProofs.
Import ListNotations.
Open Scope N_scope.

Lemma can_parse_h1_min d : can_parse_h1 d = true -> 12 <= len_N d.
Proof.
  unfold can_parse_h1, can_req, can_resp. intros H. apply orb_true_iff in H. destruct H as [H|H].
  - rewrite (shorter_than_spec 16 d) in H. change (N.of_nat 16) with 16 in H.
    destruct (len_N d <? 16) eqn:E; [discriminate|]. apply N.ltb_ge in E. lia.
  - rewrite (shorter_than_spec 12 d) in H. change (N.of_nat 12) with 12 in H.
    destruct (len_N d <? 12) eqn:E; [discriminate|]. apply N.ltb_ge in E. lia.
Qed.
Lemma recog_req_min d r : recog_req d = Some r -> 4 <= len_N d.
Proof. unfold recog_req. destruct (can_parse_h1 d) eqn:E; [|discriminate]. apply can_parse_h1_min in E. lia. Qed.
Lemma recog_resp_min d r : recog_resp d = Some r -> 4 <= len_N d.
Proof. unfold recog_resp. destruct (can_parse_h1 d) eqn:E; [|discriminate]. apply can_parse_h1_min in E. lia. Qed.

(* ---- a stream of 'a' bytes is never a head (used by C11_http_refuted) ---- *)
Definition abyte : byte := "a"%byte.
Definition all_a (d : bytes) : Prop := Forall (fun b => b = abyte) d.

Lemma take_line_all_a d : forall cur, all_a d -> take_line d cur = (rev cur ++ d, false).
Proof.
  induction d as [|b d IH]; intros cur H; cbn; rewrite ?frev_rev.
  - now rewrite app_nil_r.
  - inversion H as [|? ? Hb Hd]; subst. change (beqb abyte LF) with false. cbn iota.
    rewrite IH by exact Hd. cbn. now rewrite <- app_assoc.
Qed.
Lemma first_line_all_a d : all_a d -> first_line d = d.
Proof. intros H. unfold first_line. rewrite (take_line_all_a d [] H). reflexivity. Qed.

Lemma split_ws_aux_all_a d : forall cur, all_a d ->
  split_ws_aux d cur = match rev cur ++ d with [] => [] | l => [l] end.
Proof.
  induction d as [|b d IH]; intros cur H; cbn.
  - rewrite app_nil_r. destruct cur as [|c cur]; [reflexivity|].
    rewrite frev_rev. cbn. destruct (rev cur ++ [c]) eqn:E; [apply app_eq_nil in E; destruct E; discriminate | reflexivity].
  - inversion H as [|? ? Hb Hd]; subst. change (is_ws abyte) with false. cbn iota.
    rewrite IH by exact Hd. cbn. now rewrite <- app_assoc.
Qed.
Lemma split_ws_all_a d : all_a d -> split_ws d = match d with [] => [] | l => [l] end.
Proof. intros H. unfold split_ws. rewrite (split_ws_aux_all_a d [] H). destruct d; reflexivity. Qed.

Lemma take_to_sp_all_a d : forall cur, all_a d -> take_to_sp d cur = (rev cur ++ d, None).
Proof.
  induction d as [|b d IH]; intros cur H; cbn; rewrite ?frev_rev.
  - now rewrite app_nil_r.
  - inversion H as [|? ? Hb Hd]; subst. change (beqb abyte sp) with false. cbn iota.
    rewrite IH by exact Hd. cbn. now rewrite <- app_assoc.
Qed.

Lemma can_parse_h1_all_a d : all_a d -> can_parse_h1 d = false.
Proof.
  intros H. unfold can_parse_h1, can_req, can_resp. rewrite (first_line_all_a d H).
  rewrite (split_ws_all_a d H). unfold splitn3_sp. rewrite (take_to_sp_all_a d [] H). cbn [rev app].
  apply orb_false_iff. split.
  - destruct (shorter_than 16 d); [reflexivity|]. destruct (starts_with h2_preface d); [reflexivity|].
    destruct d; reflexivity.
  - destruct (shorter_than 12 d); [reflexivity|]. destruct (negb (shorter_than 9 d) && looks_like_h2 d); reflexivity.
Qed.
Lemma recog_req_all_a d : Forall (fun b => b = abyte) d -> recog_req d = None.
Proof. intros H. unfold recog_req. now rewrite (can_parse_h1_all_a d H). Qed.
