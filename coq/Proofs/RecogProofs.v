(* Facts about the concrete HTTP/1 recogniser (Model/HttpRecog.v) needed to instantiate the C09 theorems. *)
From Coq Require Import List NArith Bool Lia Arith PeanoNat.
From Coq Require Import Strings.Byte.
From HN Require Import Base.Bytes Base.Cache Model.HttpRecog Proofs.CacheProofs.
Import ListNotations.
Open Scope N_scope.

Lemma can_parse_h1_min d : can_parse_h1 d = true -> 12 <= len_N d.
Proof.
  unfold can_parse_h1, can_req, can_resp. intros H. apply orb_true_iff in H. destruct H as [H|H].
  - rewrite (shorter_than_spec 16 d) in H. change (N.of_nat 16) with 16 in H.
    destruct (len_N d <? 16) eqn:E; [discriminate|]. apply N.ltb_ge in E. lia.
  - rewrite (shorter_than_spec 12 d) in H. change (N.of_nat 12) with 12 in H.
    destruct (len_N d <? 12) eqn:E; [discriminate|]. apply N.ltb_ge in E. lia.
Qed.
Lemma recog_req_min d r : recog_req d = Some r -> 4 <= len_N d.
Proof. unfold recog_req. destruct (can_parse_h1 d) eqn:E; [|discriminate]. apply can_parse_h1_min in E. lia. Qed.
Lemma recog_resp_min d r : recog_resp d = Some r -> 4 <= len_N d.
Proof. unfold recog_resp. destruct (can_parse_h1 d) eqn:E; [|discriminate]. apply can_parse_h1_min in E. lia. Qed.

(* ---- a stream of 'a' bytes is never a head (used by C11_http_refuted) ---- *)
Definition abyte : byte := "a"%byte.
Definition all_a (d : bytes) : Prop := Forall (fun b => b = abyte) d.

Lemma take_line_all_a d : forall cur, all_a d -> take_line d cur = (rev cur ++ d, false).
Proof.
  induction d as [|b d IH]; intros cur H; cbn; rewrite ?frev_rev.
  - now rewrite app_nil_r.
  - inversion H as [|? ? Hb Hd]; subst. change (beqb abyte LF) with false. cbn iota.
    rewrite IH by exact Hd. cbn. now rewrite <- app_assoc.
Qed.
Lemma first_line_all_a d : all_a d -> first_line d = d.
Proof. intros H. unfold first_line. rewrite (take_line_all_a d [] H). reflexivity. Qed.

Lemma split_ws_aux_all_a d : forall cur, all_a d ->
  split_ws_aux d cur = match rev cur ++ d with [] => [] | l => [l] end.
Proof.
  induction d as [|b d IH]; intros cur H; cbn.
  - rewrite app_nil_r. destruct cur as [|c cur]; [reflexivity|].
    rewrite frev_rev. cbn. destruct (rev cur ++ [c]) eqn:E; [apply app_eq_nil in E; destruct E; discriminate | reflexivity].
  - inversion H as [|? ? Hb Hd]; subst. change (is_ws abyte) with false. cbn iota.
    rewrite IH by exact Hd. cbn. now rewrite <- app_assoc.
Qed.
Lemma split_ws_all_a d : all_a d -> split_ws d = match d with [] => [] | l => [l] end.
Proof. intros H. unfold split_ws. rewrite (split_ws_aux_all_a d [] H). destruct d; reflexivity. Qed.

Lemma take_to_sp_all_a d : forall cur, all_a d -> take_to_sp d cur = (rev cur ++ d, None).
Proof.
  induction d as [|b d IH]; intros cur H; cbn; rewrite ?frev_rev.
  - now rewrite app_nil_r.
  - inversion H as [|? ? Hb Hd]; subst. change (beqb abyte sp) with false. cbn iota.
    rewrite IH by exact Hd. cbn. now rewrite <- app_assoc.
Qed.

Lemma can_parse_h1_all_a d : all_a d -> can_parse_h1 d = false.
Proof.
  intros H. unfold can_parse_h1, can_req, can_resp. rewrite (first_line_all_a d H).
  rewrite (split_ws_all_a d H). unfold splitn3_sp. rewrite (take_to_sp_all_a d [] H). cbn [rev app].
  apply orb_false_iff. split.
  - destruct (shorter_than 16 d); [reflexivity|]. destruct (starts_with h2_preface d); [reflexivity|].
    destruct d; reflexivity.
  - destruct (shorter_than 12 d); [reflexivity|]. destruct (negb (shorter_than 9 d) && looks_like_h2 d); reflexivity.
Qed.
Lemma recog_req_all_a d : Forall (fun b => b = abyte) d -> recog_req d = None.
Proof. intros H. unfold recog_req. now rewrite (can_parse_h1_all_a d H). Qed.

(* ---- prefix stability: a head stays the same head when bytes follow it (needed by C09_reordered) ---- *)
Lemma starts_with_app p : forall d e, starts_with p d = true -> starts_with p (d ++ e) = true.
Proof.
  induction p as [|x p IH]; intros d e H; [reflexivity|].
  destruct d as [|y d]; [discriminate|]. cbn in *. apply andb_true_iff in H. destruct H as [H1 H2].
  rewrite H1. cbn. now apply IH.
Qed.
Lemma starts_with_long p : forall d e, (length p <= length d)%nat -> starts_with p (d ++ e) = starts_with p d.
Proof.
  induction p as [|x p IH]; intros d e H; [reflexivity|].
  destruct d as [|y d]; [cbn in H; lia|]. cbn in *. rewrite IH by lia. reflexivity.
Qed.
Lemma starts_with_short p : forall d e, starts_with p (d ++ e) = true -> (length d <= length p)%nat -> d = firstn (length d) p.
Proof.
  induction p as [|x p IH]; intros d e H L.
  - destruct d; [reflexivity | cbn in L; lia].
  - destruct d as [|y d]; [reflexivity|]. cbn in *. apply andb_true_iff in H. destruct H as [H1 H2].
    apply beqb_eq in H1. subst y. f_equal. eapply IH; [exact H2 | lia].
Qed.
Lemma starts_with_split p : forall d, starts_with p d = true -> exists rest, d = p ++ rest.
Proof.
  induction p as [|x p IH]; intros d H; [exists d; reflexivity|].
  destruct d as [|y d]; [discriminate|]. cbn in H. apply andb_true_iff in H. destruct H as [H1 H2].
  apply beqb_eq in H1. subst y. destruct (IH d H2) as [rest ->]. exists rest. reflexivity.
Qed.

Lemma head_scan_step b r acc :
  head_scan (b :: r) acc =
  if starts_with crlfcrlf (b :: r) then Some (frev acc ++ crlfcrlf)
  else if starts_with lflf (b :: r) then Some (frev acc ++ lflf) else head_scan r (b :: acc).
Proof. reflexivity. Qed.

Lemma head_scan_short_none d acc pat :
  (pat = crlfcrlf \/ pat = lflf) -> (0 < length d < length pat)%nat -> d = firstn (length d) pat -> head_scan d acc = None.
Proof.
  intros [-> | ->] L E.
  - destruct d as [|a [|b [|c [|x r]]]]; cbn in L; try lia; cbn in E; inversion E; subst; reflexivity.
  - destruct d as [|a [|b r]]; cbn in L; try lia. cbn in E. inversion E; subst. reflexivity.
Qed.

Lemma head_scan_app d : forall acc e h, head_scan d acc = Some h -> head_scan (d ++ e) acc = Some h.
Proof.
  induction d as [|b r IH]; intros acc e h H; [discriminate|].
  cbn [app]. rewrite head_scan_step in *.
  destruct (starts_with crlfcrlf (b :: r)) eqn:E1.
  - change (b :: r ++ e) with ((b :: r) ++ e). now rewrite (starts_with_app _ _ e E1).
  - change (b :: r ++ e) with ((b :: r) ++ e).
    destruct (starts_with crlfcrlf ((b :: r) ++ e)) eqn:E1'.
    + exfalso. destruct (Nat.le_gt_cases (length crlfcrlf) (length (b :: r))) as [L|L].
      * rewrite starts_with_long in E1' by exact L. congruence.
      * assert (head_scan (b :: r) acc = None) as X.
        { apply (head_scan_short_none _ _ crlfcrlf); [now left | cbn in *; lia|].
          eapply starts_with_short; [exact E1' | lia]. }
        rewrite head_scan_step, E1 in X. congruence.
    + destruct (starts_with lflf (b :: r)) eqn:E2.
      * now rewrite (starts_with_app _ _ e E2).
      * destruct (starts_with lflf ((b :: r) ++ e)) eqn:E2'.
        -- exfalso. destruct (Nat.le_gt_cases (length lflf) (length (b :: r))) as [L|L].
           ++ rewrite starts_with_long in E2' by exact L. congruence.
           ++ assert (head_scan (b :: r) acc = None) as X.
              { apply (head_scan_short_none _ _ lflf); [now right | cbn in *; lia|].
                eapply starts_with_short; [exact E2' | lia]. }
              rewrite head_scan_step, E1, E2 in X. congruence.
        -- now apply IH.
Qed.

Lemma head_scan_has_lf d : forall acc h, head_scan d acc = Some h -> In LF d.
Proof.
  induction d as [|b r IH]; intros acc h H; [discriminate|].
  rewrite head_scan_step in H.
  destruct (starts_with crlfcrlf (b :: r)) eqn:E1.
  - destruct (starts_with_split _ _ E1) as [rest ->]. cbn. auto.
  - destruct (starts_with lflf (b :: r)) eqn:E2.
    + destruct (starts_with_split _ _ E2) as [rest ->]. cbn. auto.
    + right. eapply IH; eauto.
Qed.

Lemma take_line_app d : forall cur e, In LF d -> take_line (d ++ e) cur = take_line d cur.
Proof.
  induction d as [|b r IH]; intros cur e H; [destruct H|].
  cbn. destruct (beqb b LF) eqn:E; [reflexivity|].
  apply IH. destruct H as [H|H]; [|exact H]. assert (beqb b LF = true) by (apply beqb_eq; now symmetry). congruence.
Qed.
Lemma first_line_app d e : In LF d -> first_line (d ++ e) = first_line d.
Proof. intros H. unfold first_line. now rewrite take_line_app. Qed.

Lemma shorter_than_app {A} k : forall (d e : list A), shorter_than k d = false -> shorter_than k (d ++ e) = false.
Proof.
  induction k as [|k IH]; intros d e H; [reflexivity|].
  destruct d as [|x d]; [discriminate|]. cbn in *. now apply IH.
Qed.

Lemma looks_like_h2_app d e : shorter_than 9 d = false -> looks_like_h2 (d ++ e) = looks_like_h2 d.
Proof.
  intros H. do 9 (destruct d as [|? d]; [discriminate|]). reflexivity.
Qed.

Lemma first_line_preface rest : first_line (h2_preface ++ rest) = bs "PRI * HTTP/2.0".
Proof. reflexivity. Qed.

Lemma can_req_app d e : In LF d -> can_req d = true -> can_req (d ++ e) = true.
Proof.
  intros HL H. unfold can_req in *.
  destruct (shorter_than 16 d) eqn:S; [discriminate|]. rewrite (shorter_than_app 16 d e S).
  destruct (starts_with h2_preface d) eqn:P; [discriminate|].
  rewrite (first_line_app d e HL).
  destruct (starts_with h2_preface (d ++ e)) eqn:P'; [|exact H].
  exfalso. destruct (starts_with_split _ _ P') as [rest E].
  pose proof (first_line_app d e HL) as F. rewrite E, first_line_preface in F. rewrite <- F in H.
  vm_compute in H. discriminate.
Qed.

Lemma can_resp_app d e : In LF d -> can_resp d = true -> can_resp (d ++ e) = true.
Proof.
  intros HL H. unfold can_resp in *.
  destruct (shorter_than 12 d) eqn:S; [discriminate|]. rewrite (shorter_than_app 12 d e S).
  assert (S9 : shorter_than 9 d = false).
  { clear -S. do 9 (destruct d as [|? d]; [discriminate|]). reflexivity. }
  rewrite (shorter_than_app 9 d e S9), (looks_like_h2_app d e S9), (first_line_app d e HL).
  rewrite S9 in H. exact H.
Qed.

Lemma can_parse_h1_app d e : In LF d -> can_parse_h1 d = true -> can_parse_h1 (d ++ e) = true.
Proof.
  intros HL H. unfold can_parse_h1 in *. apply orb_true_iff in H. apply orb_true_iff.
  destruct H as [H|H]; [left; now apply can_req_app | right; now apply can_resp_app].
Qed.

Lemma head_lines_app d e ls : head_lines d = Some ls -> head_lines (d ++ e) = Some ls /\ In LF d.
Proof.
  unfold head_lines. destruct (head_scan d []) as [h|] eqn:E; [|discriminate]. intros H.
  rewrite (head_scan_app d [] e h E). split; [exact H | eapply head_scan_has_lf; eauto].
Qed.

Theorem recog_req_stable d e r : recog_req d = Some r -> recog_req (d ++ e) = Some r.
Proof.
  unfold recog_req. destruct (can_parse_h1 d) eqn:C; [|discriminate]. intros H.
  assert (exists ls, head_lines d = Some ls) as [ls HL].
  { unfold h1_parse_request in H. destruct (head_lines d); [eauto | discriminate]. }
  destruct (head_lines_app d e ls HL) as [HL' LF'].
  rewrite (can_parse_h1_app d e LF' C).
  unfold h1_parse_request in *. rewrite HL'. rewrite HL in H. exact H.
Qed.
Theorem recog_resp_stable d e r : recog_resp d = Some r -> recog_resp (d ++ e) = Some r.
Proof.
  unfold recog_resp. destruct (can_parse_h1 d) eqn:C; [|discriminate]. intros H.
  assert (exists ls, head_lines d = Some ls) as [ls HL].
  { unfold h1_parse_response in H. destruct (head_lines d); [eauto | discriminate]. }
  destruct (head_lines_app d e ls HL) as [HL' LF'].
  rewrite (can_parse_h1_app d e LF' C).
  unfold h1_parse_response in *. rewrite HL'. rewrite HL in H. exact H.
Qed.
