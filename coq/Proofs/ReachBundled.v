(* C13, part 3: the generic theorems instantiated on the bundled database as it is now (Gen/Bundled.v):
   the recorded partition (Spec/ReachLists.v) is recomputed, every recorded witness (Spec/ReachWitness.v) is checked,
   the live signatures are proved reachable.  Every `vm_compute` here is a closed computation on the file. *)
From Coq Require Import List NArith Bool Lia ZifyBool ZifyN.
From Coq Require Import Strings.Byte.
From HN Require Import Base.Bytes Model.SigAst Model.SigText Model.Match Model.Pnet Model.TcpExtract Model.Http1Obs Model.Reach
  Spec.ScanSpec Spec.P0fTcp Spec.InstanceSpec Spec.DbLoadSpec Spec.BundledSpec Spec.ConformSpec Spec.ReachSpec
  Spec.ReachLists Spec.ReachWitness Spec.Http1Grammar
  Proofs.MatchProofs Proofs.ReachTcp.
Import ListNotations.
Open Scope N_scope.

(* ---------------- decidable equality of TCP signatures ---------------- *)
Definition tcp_sig_eqb (a b : tcp_sig) : bool :=
  ip_version_eqb (t_version a) (t_version b) && ttl_eqb (t_ittl a) (t_ittl b) && (t_olen a =? t_olen b)
  && option_eqb N.eqb (t_mss a) (t_mss b) && window_size_eqb (t_wsize a) (t_wsize b)
  && option_eqb N.eqb (t_wscale a) (t_wscale b) && list_eqb tcp_option_eqb (t_olayout a) (t_olayout b)
  && list_eqb quirk_eqb (t_quirks a) (t_quirks b) && payload_size_eqb (t_pclass a) (t_pclass b).
Lemma tcp_sig_eqb_eq a b : tcp_sig_eqb a b = true -> a = b.
Proof.
  unfold tcp_sig_eqb. intros H. repeat (apply andb_true_iff in H; destruct H as [H ?]).
  destruct a, b; cbn in *.
  apply ip_version_eqb_eq in H. apply ttl_eqb_eq in H7. apply N.eqb_eq in H6. apply optN_eqb_eq in H5.
  apply window_size_eqb_eq in H4. apply optN_eqb_eq in H3. apply olayout_eqb_eq in H2. apply quirks_eqb_eq in H1.
  apply payload_size_eqb_eq in H0. subst. reflexivity.
Qed.

(* ---------------- the j-th sig line of a section is the j-th position of its table ---------------- *)
Definition sig_texts (s : sec) : list bytes :=
  flat_map (fun e => match e with (Some s', SKey KSig v) => if sec_eqb s s' then [v] else [] | _ => [] end) bundled_ann.
Definition tcp_lines_match (k : tkind) : bool :=
  let texts := sig_texts (tcp_sec k) in
  let ps := positions (tcp_table bundled_db k) in
  Nat.eqb (length texts) (length ps) && Nat.eqb (length (sig_lines (tcp_sec k))) (length ps)
  && forallb (fun tp => match tcp_sig_from_str (fst tp) with Some s => tcp_sig_eqb s (snd (snd tp)) | None => false end)
             (combine texts ps).
Lemma bundled_lines_are_positions : tcp_lines_match TReq = true /\ tcp_lines_match TResp = true.
Proof. vm_compute. split; reflexivity. Qed.

(* ---------------- the live signatures ---------------- *)
Definition opt_pos_eqb (a : option (N * N * tcp_sig)) (li si : N) (s : tcp_sig) : bool :=
  match a with Some (li', si', s') => (li' =? li) && (si' =? si) && tcp_sig_eqb s' s | None => false end.

(* generic in the database and in the way lines name entries, so that nothing about the bundled file has to be
   unfolded when the kernel re-checks the proof *)
Section LiveLines.
  Variable db : database.
  Variable entry : tkind -> N -> option (N * N * tcp_sig).
  Definition live_line_ok (line : N) : bool :=
    forallb (fun k => match entry k line with
                      | Some (li, si, s) => live_tcp_b s && opt_pos_eqb (entry_at (tcp_table db k) li si) li si s
                      | None => true end) [TReq; TResp]
    && existsb (fun k => match entry k line with Some _ => true | None => false end) [TReq; TResp].
  Lemma live_lines_sound (lines : list N) :
    forallb live_line_ok lines = true ->
    forall (k : tkind) (line li si : N) (s : tcp_sig) (x : tcp_traffic),
      In line lines -> entry k line = Some (li, si, s) ->
      conforms_tcp k s x -> known_tcp_traffic db s x = false ->
      exists f, reach_tcp db x = RMatch (tcp_table_id k) f
                /\ admissible (tcp_table db k) (fun t => conforms_tcp_b k t x) li si f.
  Proof.
    intros LO k line li si s x IN TE C KN.
    rewrite forallb_forall in LO. specialize (LO _ IN).
    unfold live_line_ok in LO. apply andb_true_iff in LO. destruct LO as [LO _].
    rewrite forallb_forall in LO.
    assert (INK : In k [TReq; TResp]) by (destruct k; cbn; tauto).
    specialize (LO k INK). cbv beta in LO. rewrite TE in LO.
    apply andb_true_iff in LO. destruct LO as [LV EA].
    apply (reach_tcp_live db k li si s x); try assumption.
    unfold opt_pos_eqb in EA. destruct (entry_at (tcp_table db k) li si) as [[[li' si'] s']|]; [|discriminate].
    repeat (apply andb_true_iff in EA; destruct EA as [EA ?]).
    apply tcp_sig_eqb_eq in H. assert (li' = li) by lia. assert (si' = si) by lia. subst. reflexivity.
  Qed.
End LiveLines.

Lemma live_lines_ok : forallb (live_line_ok bundled_db tcp_entry) live_tcp_lines = true.
Proof. vm_compute. reflexivity. Qed.

Theorem bundled_tcp_live (k : tkind) (line li si : N) (s : tcp_sig) (x : tcp_traffic) :
  In line live_tcp_lines -> tcp_entry k line = Some (li, si, s) ->
  conforms_tcp k s x -> known_tcp_traffic bundled_db s x = false ->
  exists f, reach_tcp bundled_db x = RMatch (tcp_table_id k) f
            /\ admissible (tcp_table bundled_db k) (fun t => conforms_tcp_b k t x) li si f.
Proof. exact (live_lines_sound bundled_db tcp_entry live_tcp_lines live_lines_ok k line li si s x). Qed.

(* ---------------- the partition ---------------- *)
Fixpoint insert_N (x : N) (l : list N) : list N :=
  match l with [] => [x] | y :: r => if x <=? y then x :: l else y :: insert_N x r end.
Definition sort_N (l : list N) : list N := fold_right insert_N [] l.
Definition list_N_eqb (a b : list N) : bool := list_eqb N.eqb a b.
Definition class_lines (c : tcp_class) : list N := tcp_lines_in bundled_db TReq c ++ tcp_lines_in bundled_db TResp c.
Definition subset_N (a b : list N) : bool := forallb (fun x => existsb (N.eqb x) b) a.

Lemma bundled_tcp_partition :
  (* every TCP signature line is in exactly one list *)
  list_N_eqb (sort_N (live_tcp_lines ++ live1_tcp_lines ++ dead_tcp_lines ++ undecided_tcp_lines))
             (sort_N (sig_lines SecTQ ++ sig_lines SecTS)) = true
  /\ length (sig_lines SecTQ ++ sig_lines SecTS) = 199%nat
  (* the lists are what the deciders compute on the file *)
  /\ list_N_eqb (class_lines CLive) live_tcp_lines = true
  /\ list_N_eqb (class_lines CBadTtl) dead_bad_ttl_lines = true
  /\ list_N_eqb (sort_N (class_lines CEolPad ++ class_lines COddTtl)) dead_eol_pad_lines = true
  /\ subset_N (class_lines CValueWindow) dead_value_window_lines = true
  /\ subset_N dead_value_window_lines (class_lines CValueWindow ++ class_lines COptZero) = true
  /\ subset_N (live1_tcp_lines ++ undecided_tcp_lines) (class_lines COptZero) = true
  /\ (length live_tcp_lines, length live1_tcp_lines, length dead_bad_ttl_lines, length dead_value_window_lines,
      length dead_eol_pad_lines, length undecided_tcp_lines) = tcp_partition_sizes.
Proof. vm_compute. repeat split; reflexivity. Qed.

(* ---------------- witnesses ---------------- *)
(* generic in the database and in the naming of entries (see LiveLines) *)
Section Witnesses.
  Variable db : database.
  Variable tentry : tkind -> N -> option (N * N * tcp_sig).
  Variable hentry : hkind -> N -> option (N * N * http_sig).

  Definition tcp_witness_ok (need_unknown : bool) (w : N * bytes) : bool :=
    match parse_tcp_case (snd w) with
    | Some (k, line, x) =>
        (line =? fst w) &&
        match judge_tcp_gen db tentry k line x with
        | Some v => negb (v_admissible v) && (negb need_unknown || negb (v_known_traffic v))
        | None => false end
    | None => false end.
  Definition http_witness_ok (w : N * bytes) : bool :=
    match parse_http_case (snd w) with
    | Some (k, line, m, body) =>
        (line =? fst w) &&
        match judge_http_gen db hentry k line m body with
        | Some v => negb (v_admissible v) && negb (v_known_traffic v)
        | None => false end
    | None => false end.

  (* what a checked witness means *)
  Definition tcp_refuted_in (unknown : bool) (line : N) : Prop :=
    exists k li si s x,
      tentry k line = Some (li, si, s) /\ conforms_tcp k s x
      /\ (unknown = true -> known_tcp_traffic db s x = false)
      /\ ~ (exists f, reach_tcp db x = RMatch (tcp_table_id k) f
                      /\ admissible (tcp_table db k) (fun t => conforms_tcp_b k t x) li si f).
  Definition http_refuted_in (line : N) : Prop :=
    exists k li si s m body,
      hentry k line = Some (li, si, s) /\ conforms_http k s m /\ Http1Grammar.known m = false
      /\ ~ (exists f, reach_http db k (Http1Grammar.render m ++ body) = RMatch (http_table_id k) f
                      /\ admissible (http_table db k) (fun t => conforms_http_b k t m) li si f).

  Lemma tcp_witness_refutes u w : tcp_witness_ok u w = true -> tcp_refuted_in u (fst w).
  Proof.
    unfold tcp_witness_ok. destruct (parse_tcp_case (snd w)) as [[[k line] x]|]; [|discriminate].
    intros H. apply andb_true_iff in H. destruct H as [LE H]. apply N.eqb_eq in LE. rewrite <- LE. clear LE.
    unfold judge_tcp_gen in H. destruct (tentry k line) as [[[li si] s]|] eqn:TE; [|discriminate].
    destruct (seg_of x) as [g|] eqn:SG; [|discriminate].
    destruct (conforms_seg_b k s g) eqn:CF; [|discriminate].
    cbn [v_admissible v_known_traffic] in H. apply andb_true_iff in H. destruct H as [NA KN].
    exists k, li, si, s, x. split; [exact TE|]. split; [unfold conforms_tcp, conforms_tcp_b; rewrite SG; exact CF|].
    split.
    - intros ->. cbn [negb orb] in KN. apply negb_true_iff in KN. exact KN.
    - intros (f & RE & AD). rewrite RE in NA. unfold admissible in AD.
      destruct k; cbn [tcp_table_id] in NA; rewrite AD in NA; discriminate.
  Qed.
  Lemma http_witness_refutes w : http_witness_ok w = true -> http_refuted_in (fst w).
  Proof.
    unfold http_witness_ok. destruct (parse_http_case (snd w)) as [[[[k line] m] body]|]; [|discriminate].
    intros H. apply andb_true_iff in H. destruct H as [LE H]. apply N.eqb_eq in LE. rewrite <- LE. clear LE.
    unfold judge_http_gen in H. destruct (hentry k line) as [[[li si] s]|] eqn:TE; [|discriminate].
    destruct (conforms_http_b k s m) eqn:CF; [|discriminate].
    cbn [v_admissible v_known_traffic] in H. apply andb_true_iff in H. destruct H as [NA KN].
    exists k, li, si, s, m, body. split; [exact TE|]. split; [exact CF|].
    split; [apply negb_true_iff in KN; exact KN|].
    intros (f & RE & AD). rewrite RE in NA. unfold admissible in AD.
    destruct k; cbn [http_table_id] in NA; rewrite AD in NA; discriminate.
  Qed.
End Witnesses.

Definition tcp_refuted : bool -> N -> Prop := tcp_refuted_in bundled_db tcp_entry.
Definition http_refuted : N -> Prop := http_refuted_in bundled_db http_entry.
Definition tcp_wok : bool -> N * bytes -> bool := tcp_witness_ok bundled_db tcp_entry.
Definition http_wok : N * bytes -> bool := http_witness_ok bundled_db http_entry.

Lemma witnesses_bad_ttl : forallb (tcp_wok true) wit_bad_ttl = true /\ map fst wit_bad_ttl = dead_bad_ttl_lines.
Proof. vm_compute. split; reflexivity. Qed.
Lemma witnesses_value_window : forallb (tcp_wok true) wit_value_window = true /\ map fst wit_value_window = dead_value_window_lines.
Proof. vm_compute. split; reflexivity. Qed.
Lemma witnesses_eol_pad : forallb (tcp_wok false) wit_eol_pad = true /\ map fst wit_eol_pad = dead_eol_pad_lines.
Proof. vm_compute. split; reflexivity. Qed.
Lemma witnesses_http_exact : forallb http_wok wit_http_exact = true /\ map fst wit_http_exact = dead_http_exact_lines.
Proof. vm_compute. split; reflexivity. Qed.
Lemma witnesses_http_expsw : forallb http_wok wit_http_expsw = true /\ map fst wit_http_expsw = dead_http_expsw_lines.
Proof. vm_compute. split; reflexivity. Qed.
Lemma witnesses_http_value : forallb http_wok wit_http_value = true /\ map fst wit_http_value = dead_http_value_lines.
Proof. vm_compute. split; reflexivity. Qed.

Lemma refuted_of_witnesses {P : N -> Prop} (ok : N * bytes -> bool) (ws : list (N * bytes)) (lines : list N) :
  (forall w, ok w = true -> P (fst w)) -> forallb ok ws = true -> map fst ws = lines ->
  forall line, In line lines -> P line.
Proof.
  intros HP F M line IN. rewrite <- M in IN. apply in_map_iff in IN. destruct IN as [w [E IN]].
  rewrite forallb_forall in F. rewrite <- E. apply HP. apply F. exact IN.
Qed.

Theorem dead_bad_ttl_refuted : forall line, In line dead_bad_ttl_lines -> tcp_refuted true line.
Proof. exact (refuted_of_witnesses _ _ _ (tcp_witness_refutes bundled_db tcp_entry true) (proj1 witnesses_bad_ttl) (proj2 witnesses_bad_ttl)). Qed.
Theorem dead_value_window_refuted : forall line, In line dead_value_window_lines -> tcp_refuted true line.
Proof. exact (refuted_of_witnesses _ _ _ (tcp_witness_refutes bundled_db tcp_entry true) (proj1 witnesses_value_window) (proj2 witnesses_value_window)). Qed.
Theorem dead_eol_pad_refuted : forall line, In line dead_eol_pad_lines -> tcp_refuted false line.
Proof. exact (refuted_of_witnesses _ _ _ (tcp_witness_refutes bundled_db tcp_entry false) (proj1 witnesses_eol_pad) (proj2 witnesses_eol_pad)). Qed.
Theorem dead_http_exact_refuted : forall line, In line dead_http_exact_lines -> http_refuted line.
Proof. exact (refuted_of_witnesses _ _ _ (http_witness_refutes bundled_db http_entry) (proj1 witnesses_http_exact) (proj2 witnesses_http_exact)). Qed.
Theorem dead_http_expsw_refuted : forall line, In line dead_http_expsw_lines -> http_refuted line.
Proof. exact (refuted_of_witnesses _ _ _ (http_witness_refutes bundled_db http_entry) (proj1 witnesses_http_expsw) (proj2 witnesses_http_expsw)). Qed.
Theorem dead_http_value_refuted : forall line, In line dead_http_value_lines -> http_refuted line.
Proof. exact (refuted_of_witnesses _ _ _ (http_witness_refutes bundled_db http_entry) (proj1 witnesses_http_value) (proj2 witnesses_http_value)). Qed.

(* HTTP: every signature line is in exactly one list *)
Lemma bundled_http_partition :
  list_N_eqb (sort_N (live_http_lines ++ dead_http_lines ++ undecided_http_lines)) (sort_N (sig_lines SecHQ ++ sig_lines SecHS)) = true
  /\ length (sig_lines SecHQ ++ sig_lines SecHS) = 99%nat
  /\ (length live_http_lines, length dead_http_exact_lines, length dead_http_expsw_lines, length dead_http_value_lines,
      length undecided_http_lines) = http_partition_sizes.
Proof. vm_compute. repeat split; reflexivity. Qed.

(* the former KV6 witness (a Linux 3.11 SYN over IPv6; df / id+ of the signature were not ignored before ecf5f15):
   it conforms to a live signature, is in no known class and gets an admissible label now *)
Lemma former_kv6_witness_agrees :
  forallb (fun w => match parse_tcp_case (snd w) with
                    | Some (k, line, x) =>
                        (line =? fst w) && existsb (N.eqb line) live_tcp_lines &&
                        match judge_tcp k line x, x with
                        | Some v, T6 _ => v_admissible v && negb (v_known_traffic v)
                        | _, _ => false end
                    | None => false end) wit_former_kv6 = true /\ length wit_former_kv6 = 1%nat.
Proof. vm_compute. split; reflexivity. Qed.
