(* Consequences of C14 proved on the MODEL of filter.rs (not on the spec): laws a user of the
   filter API relies on.  Each is stated on `model_filter` / `should_process`, so it is the
   transcription of filter.rs that must satisfy it. *)
From Coq Require Import List NArith Bool Lia ZifyBool ZifyN Btauto Permutation.
From HN Require Import Base.Bytes Model.Filter Spec.FilterSpec Proofs.FilterProofs.
Import ListNotations.
Open Scope N_scope.

Definition with_mode (c : cfg_src) (d : bool) : cfg_src :=
  {| c_deny := d; c_port := c_port c; c_ip := c_ip c; c_sub := c_sub c |}.
Definition has_subfilter (c : cfg_src) : bool :=
  match c_port c, c_ip c, c_sub c with None, None, None => false | _, _, _ => true end.

(* no sub-filter: everything passes, in both modes *)
Lemma no_subfilter_admits_all c src dst sp dp :
  has_subfilter c = false -> model_filter c src dst sp dp = true.
Proof.
  unfold has_subfilter, model_filter, should_process, build.
  destruct c as [dn [p|] [i|] [s|]]; cbn; intros H; try discriminate; reflexivity.
Qed.

(* with at least one sub-filter, deny mode is exactly the complement of allow mode
   (no well-formedness hypothesis: it is a law of should_process itself) *)
Lemma deny_is_complement c src dst sp dp :
  has_subfilter c = true ->
  model_filter (with_mode c true) src dst sp dp = negb (model_filter (with_mode c false) src dst sp dp).
Proof.
  unfold has_subfilter, model_filter, should_process, build, with_mode.
  destruct c as [dn [p|] [i|] [s|]];
  cbn [c_deny c_port c_ip c_sub option_map port_filter_ ip_filter_ subnet_filter_ deny opt_test];
  intros H; try discriminate;
  repeat match goal with |- context [pf_matches ?a ?b ?c] => destruct (pf_matches a b c) end;
  repeat match goal with |- context [if_matches ?a ?b ?c] => destruct (if_matches a b c) end;
  repeat match goal with |- context [sf_matches ?a ?b ?c] => destruct (sf_matches a b c) end;
  reflexivity.
Qed.

(* allow mode is the conjunction of the configured sub-filters' own decisions *)
Lemma allow_is_conjunction c src dst sp dp :
  c_deny c = false ->
  model_filter c src dst sp dp =
    opt_test (c_port c) (fun ops => pf_matches (build_port ops) sp dp)
    && opt_test (c_ip c) (fun ops => if_matches (build_ip ops) src dst)
    && opt_test (c_sub c) (fun ops => sf_matches (build_sub ops) src dst).
Proof.
  unfold model_filter, should_process, build.
  destruct c as [dn [p|] [i|] [s|]];
  cbn [c_deny c_port c_ip c_sub option_map port_filter_ ip_filter_ subnet_filter_ deny opt_test];
  intros ->; try reflexivity;
  repeat match goal with |- context [pf_matches ?a ?b ?c] => destruct (pf_matches a b c) end;
  repeat match goal with |- context [if_matches ?a ?b ?c] => destruct (if_matches a b c) end;
  repeat match goal with |- context [sf_matches ?a ?b ?c] => destruct (sf_matches a b c) end;
  reflexivity.
Qed.

(* the order of the builder calls of a port filter is irrelevant *)
Lemma existsb_perm {A} (f : A -> bool) l l' : Permutation l l' -> existsb f l = existsb f l'.
Proof.
  induction 1 as [|x l l' _ IH|x y l|l l' l'' _ IH1 _ IH2]; cbn [existsb].
  - reflexivity.
  - now rewrite IH.
  - btauto.
  - now rewrite IH1.
Qed.

Lemma port_order_irrelevant ops ops' sp dp :
  Permutation ops ops' -> pf_matches (build_port ops) sp dp = pf_matches (build_port ops') sp dp.
Proof.
  intros P. rewrite !port_model_spec. unfold port_spec, any_mode, src_listed, dst_listed,
    src_constrained, dst_constrained.
  now rewrite !(existsb_perm _ _ _ P).
Qed.

(* listing more ports or ranges never removes an admitted packet in any-port mode,
   and a side without constraints does not restrict *)
Lemma unconstrained_sides_pass ops sp dp :
  any_mode ops = false -> src_constrained ops = false -> dst_constrained ops = false ->
  pf_matches (build_port ops) sp dp = true.
Proof. intros A S D. rewrite port_model_spec. unfold port_spec. now rewrite A, S, D. Qed.

(* an empty range a..b with b <= a lists nothing; a range lists exactly a <= p < b:
   the boundary ports 0 and 65535 *)
Lemma range_boundaries a b p :
  pf_matches (build_port [PDstRange a b]) 0 p = (a <=? p) && (p <? b).
Proof.
  rewrite port_model_spec. unfold port_spec, any_mode, src_constrained, dst_constrained, dst_listed.
  cbn [existsb orb implb andb]. btauto.
Qed.
Lemma port_65535_needs_list_or_open_end :
  forall a b, b <= 65535 -> pf_matches (build_port [PDstRange a b]) 0 65535 = false.
Proof. intros a b H. rewrite range_boundaries. lia. Qed.

(* CIDR boundary prefixes, on the model's own mask arithmetic *)
Lemma prefix_zero_contains_all w n x : x < 2 ^ w -> n < 2 ^ w -> net_contains w (n, 0) x = true.
Proof.
  intros Hx Hn. rewrite net_contains_spec by lia. unfold in_cidr.
  rewrite N.sub_0_r, !N.div_small by assumption. reflexivity.
Qed.
Lemma prefix_full_is_equality w n x : x < 2 ^ w -> n < 2 ^ w -> net_contains w (n, w) x = (x =? n).
Proof.
  intros Hx Hn. rewrite net_contains_spec by lia. unfold in_cidr.
  rewrite N.sub_diag. cbn [N.pow]. now rewrite !N.div_1_r.
Qed.

(* an address filter never matches across families, and a disabled side is never consulted *)
Lemma ip_filter_family_separation ops a b :
  if_matches (build_ip (map (fun x => IAllow (V4 x)) ops)) (V6 a) (V6 b) = false.
Proof.
  rewrite ip_model_spec. unfold ip_spec.
  assert (H : forall c, addr_listed (map (fun x => IAllow (V4 x)) ops) (V6 c) = false).
  { intros c. unfold addr_listed. induction ops as [|o ops IH]; cbn [map existsb ip_eqb orb]; auto. }
  rewrite !H. btauto.
Qed.

Lemma source_only_ignores_destination ops src dst dst' :
  if_matches (build_ip (ops ++ [ISrcOnly])) src dst = if_matches (build_ip (ops ++ [ISrcOnly])) src dst'.
Proof.
  rewrite !ip_model_spec. unfold ip_spec, ip_sides. rewrite fold_left_app. cbn [fold_left dst_enabled andb].
  btauto.
Qed.

Example laws_nonvacuous :
  let c := {| c_deny := false; c_port := Some [PDst 443]; c_ip := None; c_sub := None |} in
  has_subfilter c = true
  /\ model_filter (with_mode c true) (V4 1) (V4 2) 1000 443 = false
  /\ model_filter (with_mode c false) (V4 1) (V4 2) 1000 443 = true.
Proof. vm_compute. repeat split. Qed.

(* CIDR nesting: a shorter prefix of the same network contains whatever the longer one contains *)
Lemma cidr_nesting w n p q x :
  p <= q -> q <= w -> x < 2 ^ w -> n < 2 ^ w ->
  net_contains w (n, q) x = true -> net_contains w (n, p) x = true.
Proof.
  intros Hpq Hqw Hx Hn. rewrite !net_contains_spec by lia. unfold in_cidr.
  rewrite !N.eqb_eq. intros E.
  replace (w - p) with ((w - q) + (q - p)) by lia.
  rewrite N.pow_add_r, <- !N.div_div by (apply N.pow_nonzero; lia).
  now rewrite E.
Qed.

(* allow-listing one more address never rejects a pair the address filter already matched *)
Lemma ip_filter_monotone ops a src dst :
  if_matches (build_ip ops) src dst = true -> if_matches (build_ip (ops ++ [IAllow a])) src dst = true.
Proof.
  rewrite !ip_model_spec. unfold ip_spec, ip_sides, addr_listed.
  rewrite fold_left_app, !existsb_app. cbn [fold_left existsb].
  destruct (src_enabled _), (dst_enabled _); cbn [andb orb];
  repeat match goal with |- context [existsb ?f ops] => destruct (existsb f ops) end;
  cbn [orb]; intros H; try discriminate; try reflexivity; btauto.
Qed.
