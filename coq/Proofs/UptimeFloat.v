(* C19, binary64 side of the model: the f64 computations of uptime.rs, written on reals with Flocq's
   rounding operator  rnd = round radix2 (FLT_exp (-1074) 53) ZnearestE  (IEEE-754 binary64,
   round-to-nearest-even, gradual underflow; overflow cannot occur: all values are below 2^43),
   decide exactly as the exact-rational MODEL of Model/Uptime.v does.

   Technique: no error analysis is needed.  Rounding is monotone and leaves representable numbers
   fixed, so a computed value is squeezed between two REPRESENTABLE bounds that lie on the same side
   of the decision threshold as the exact rational: for a rational p/q with q <= 2^20 and an integer
   threshold T,  p/q < T  implies  p/q <= T - 2^-20  (representable), hence rnd(p/q) <= T - 2^-20 < T.
   The same squeeze is pushed through the second and third operation of each chain. *)
From Coq Require Import ZArith Reals Lra Lia Bool.
From Flocq Require Import Core.
From HN Require Import Model.Uptime Spec.UptimeSpec Proofs.UptimeProofs Proofs.UptimeEstProofs.
Open Scope R_scope.

Definition fexp := FLT_exp (-1074) 53.
Definition fmt := generic_format radix2 fexp.
Definition rnd := round radix2 fexp ZnearestE.
Local Instance p53 : Prec_gt_0 53. Proof. reflexivity. Qed.

(* ------------------------------------------------------------------ rounding: monotone, identity on the format *)
Lemma rnd_le x y : x <= y -> rnd x <= rnd y.
Proof. apply round_le; [apply FLT_exp_valid; exact p53 | apply valid_rnd_N]. Qed.
Lemma rnd_id x : fmt x -> rnd x = x.
Proof. apply round_generic. apply valid_rnd_N. Qed.
Lemma rnd_ub a x : fmt a -> x <= a -> rnd x <= a.
Proof. intros F H. rewrite <- (rnd_id a F). now apply rnd_le. Qed.
Lemma rnd_lb a x : fmt a -> a <= x -> a <= rnd x.
Proof. intros F H. rewrite <- (rnd_id a F). now apply rnd_le. Qed.

Lemma fmt_dyadic z e : (Z.abs z < 2 ^ 53)%Z -> (-1074 <= e)%Z -> fmt (IZR z * bpow radix2 e).
Proof.
  intros Hz He. apply generic_format_FLT. exists (Float radix2 z e); [reflexivity | exact Hz | exact He].
Qed.
Lemma fmt_Z z : (Z.abs z < 2 ^ 53)%Z -> fmt (IZR z).
Proof. intros H. replace (IZR z) with (IZR z * bpow radix2 0) by (simpl; ring). apply fmt_dyadic; [exact H | lia]. Qed.

Lemma div_mul_id x y : y <> 0 -> x / y * y = x.
Proof. intros. field. assumption. Qed.

(* the representable numbers T -/+ 2^-k *)
Definition e11 : R := / 2048.
Definition e20 : R := / 1048576.
Definition e24 : R := / 16777216.
Definition e30 : R := / 1073741824.
Lemma fmt_minus T (k : positive) :
  (Z.abs (T * Z.pow_pos 2 k - 1) < 2 ^ 53)%Z -> (Z.pos k <= 1074)%Z ->
  fmt (IZR T - / IZR (Z.pow_pos 2 k)).
Proof.
  intros H Hk.
  replace (IZR T - / IZR (Z.pow_pos 2 k)) with (IZR (T * Z.pow_pos 2 k - 1) * bpow radix2 (- Z.pos k)).
  - apply fmt_dyadic; [exact H | lia].
  - change (bpow radix2 (- Z.pos k)) with (/ IZR (Z.pow_pos 2 k)).
    rewrite minus_IZR, mult_IZR. field. apply not_0_IZR. pose proof (Zpower_pos_gt_0 2 k). lia.
Qed.
Lemma fmt_plus T (k : positive) :
  (Z.abs (T * Z.pow_pos 2 k + 1) < 2 ^ 53)%Z -> (Z.pos k <= 1074)%Z ->
  fmt (IZR T + / IZR (Z.pow_pos 2 k)).
Proof.
  intros H Hk.
  replace (IZR T + / IZR (Z.pow_pos 2 k)) with (IZR (T * Z.pow_pos 2 k + 1) * bpow radix2 (- Z.pos k)).
  - apply fmt_dyadic; [exact H | lia].
  - change (bpow radix2 (- Z.pos k)) with (/ IZR (Z.pow_pos 2 k)).
    rewrite plus_IZR, mult_IZR. field. apply not_0_IZR. pose proof (Zpower_pos_gt_0 2 k). lia.
Qed.

(* ------------------------------------------------------------------ one rounded quotient of integers against an integer *)
Section Quotient.
Variables p q T : Z.
Hypothesis Hq : (0 < q <= 1048576)%Z.
Hypothesis HT : (Z.abs T <= 4294967296)%Z.

Lemma Hq_R : 0 < IZR q <= 1048576.
Proof. split; [apply IZR_lt; lia | apply IZR_le; lia]. Qed.

Lemma quot_ge : (T * q <= p)%Z -> IZR T <= rnd (IZR p / IZR q).
Proof.
  intros H. apply rnd_lb; [apply fmt_Z; lia|].
  pose proof Hq_R as [Q0 _]. apply IZR_le in H. rewrite mult_IZR in H.
  apply Rmult_le_reg_r with (IZR q); [exact Q0|]. rewrite div_mul_id by lra. lra.
Qed.
Lemma quot_le : (p <= T * q)%Z -> rnd (IZR p / IZR q) <= IZR T.
Proof.
  intros H. apply rnd_ub; [apply fmt_Z; lia|].
  pose proof Hq_R as [Q0 _]. apply IZR_le in H. rewrite mult_IZR in H.
  apply Rmult_le_reg_r with (IZR q); [exact Q0|]. rewrite div_mul_id by lra. lra.
Qed.
Lemma quot_lt : (p < T * q)%Z -> rnd (IZR p / IZR q) <= IZR T - e20.
Proof.
  intros H. apply rnd_ub.
  - apply (fmt_minus T 20); [change (Z.pow_pos 2 20) with 1048576%Z; lia | lia].
  - pose proof Hq_R as [Q0 Q1]. assert (H' : (p <= T * q - 1)%Z) by lia.
    apply IZR_le in H'. rewrite minus_IZR, mult_IZR in H'.
    apply Rmult_le_reg_r with (IZR q); [exact Q0|]. rewrite div_mul_id by lra.
    unfold e20. nra.
Qed.
Lemma quot_gt : (T * q < p)%Z -> IZR T + e20 <= rnd (IZR p / IZR q).
Proof.
  intros H. apply rnd_lb.
  - apply (fmt_plus T 20); [change (Z.pow_pos 2 20) with 1048576%Z; lia | lia].
  - pose proof Hq_R as [Q0 Q1]. assert (H' : (T * q + 1 <= p)%Z) by lia.
    apply IZR_le in H'. rewrite plus_IZR, mult_IZR in H'.
    apply Rmult_le_reg_r with (IZR q); [exact Q0|]. rewrite div_mul_id by lra.
    unfold e20. nra.
Qed.
End Quotient.

(* ------------------------------------------------------------------ raw frequency *)
(* (ts_diff as f64 * 1000.0) / (effective_ms_diff as f64) *)
Definition f64_raw (d ms : Z) : R := rnd (rnd (rnd (IZR d) * 1000) / rnd (IZR ms)).

Section Raw.
Variables d ms : Z.
Hypothesis Hd : (0 <= d < 4294967296)%Z.
Hypothesis Hms : (25 <= ms <= 600000)%Z.

Lemma f64_raw_eq : f64_raw d ms = rnd (IZR (1000 * d) / IZR ms).
Proof.
  unfold f64_raw. rewrite (rnd_id (IZR d)) by (apply fmt_Z; lia).
  rewrite (rnd_id (IZR ms)) by (apply fmt_Z; lia).
  replace (IZR d * 1000) with (IZR (1000 * d)) by (rewrite mult_IZR; ring).
  rewrite (rnd_id (IZR (1000 * d))) by (apply fmt_Z; lia). reflexivity.
Qed.

(* the range check  (MIN_FINAL_HZ..=MAX_FINAL_HZ).contains(&raw_freq) *)
Lemma raw_ge_1 : 1 <= f64_raw d ms <-> (ms <= 1000 * d)%Z.
Proof.
  rewrite f64_raw_eq. split.
  - intros H. destruct (Z_lt_le_dec (1000 * d) ms) as [L|L]; [|exact L].
    pose proof (quot_lt (1000 * d) ms 1 ltac:(lia) ltac:(lia) ltac:(lia)) as B. unfold e20 in B. lra.
  - intros H. apply (quot_ge (1000 * d) ms 1); lia.
Qed.
Lemma raw_le_1500 : f64_raw d ms <= 1500 <-> (1000 * d <= 1500 * ms)%Z.
Proof.
  rewrite f64_raw_eq. split.
  - intros H. destruct (Z_lt_le_dec (1500 * ms) (1000 * d)) as [L|L]; [|exact L].
    pose proof (quot_gt (1000 * d) ms 1500 ltac:(lia) ltac:(lia) ltac:(lia)) as B. unfold e20 in B. lra.
  - intros H. apply (quot_le (1000 * d) ms 1500); lia.
Qed.

(* `raw_freq as u32` in round_frequency_p0f_style: truncation of a non-negative value *)
Lemma raw_trunc : (1000 * d <= 1500 * ms)%Z -> Zfloor (f64_raw d ms) = (1000 * d / ms)%Z.
Proof.
  intros Hr.
  rewrite f64_raw_eq. set (k := (1000 * d / ms)%Z).
  assert (Hk : (k * ms <= 1000 * d < (k + 1) * ms)%Z).
  { unfold k. pose proof (Z.div_mod (1000 * d) ms ltac:(lia)). pose proof (Z.mod_pos_bound (1000 * d) ms ltac:(lia)). lia. }
  assert (Hk0 : (0 <= k <= 1500)%Z).
  { unfold k. split; [apply Z.div_pos; lia|]. apply Z.div_le_upper_bound; lia. }
  apply Zfloor_imp. split.
  - apply (quot_ge (1000 * d) ms k); lia.
  - pose proof (quot_lt (1000 * d) ms (k + 1) ltac:(lia) ltac:(lia) ltac:(lia)) as B. unfold e20 in B. lra.
Qed.
End Raw.

(* ------------------------------------------------------------------ guess_frequency *)
(* f64::round (half away from zero) is Flocq's ZnearestA; the result is an exactly representable integer *)
Lemma ZnearestA_squeeze m x : 0 <= x -> IZR m - /2 <= x < IZR m + /2 -> ZnearestA x = m.
Proof.
  intros H0 [L U]. destruct (Req_dec x (IZR m - /2)) as [E|NE].
  - assert (Hm : (1 <= m)%Z). { assert (0 < m)%Z by (apply lt_IZR; rewrite E in H0; lra). lia. }
    unfold ZnearestA, Znearest.
    assert (F : Zfloor x = (m - 1)%Z).
    { apply Zfloor_imp. rewrite minus_IZR. replace (m - 1 + 1)%Z with m by lia. lra. }
    rewrite F. rewrite minus_IZR. rewrite Rcompare_Eq by lra.
    replace (0 <=? m - 1)%Z with true by (symmetry; apply Z.leb_le; lia).
    apply Zceil_imp. rewrite minus_IZR. lra.
  - apply Znearest_imp. apply Rabs_def1; lra.
Qed.

Lemma fmt_half_lo m : (Z.abs m <= 1048576)%Z -> fmt (IZR m - /2).
Proof. intros H. apply (fmt_minus m 1); [change (Z.pow_pos 2 1) with 2%Z; lia | lia]. Qed.
Lemma fmt_half_hi m : (Z.abs m <= 1048576)%Z -> fmt (IZR m + /2 - e30).
Proof.
  intros H.
  replace (IZR m + /2 - e30) with (IZR ((2 * m + 1) * 536870912 - 1) * bpow radix2 (-30)).
  - apply fmt_dyadic; lia.
  - change (bpow radix2 (-30)) with (/ 1073741824). unfold e30.
    rewrite minus_IZR, mult_IZR, plus_IZR, mult_IZR. field.
Qed.

Section Guess.
Variables d ms base : Z.
Hypothesis Hd : (0 <= d < 4294967296)%Z.
Hypothesis Hms : (25 <= ms <= 600000)%Z.
Hypothesis Hrange : (ms <= 1000 * d <= 1500 * ms)%Z.
Hypothesis Hbase : base = 100%Z \/ base = 1000%Z.

(* multiplier = (raw_freq / base_guess).round() *)
Lemma multiplier_eq :
  ZnearestA (rnd (f64_raw d ms / rnd (IZR base))) = q_round {| qn := d * 1000; qd := ms * base |}.
Proof.
  rewrite (rnd_id (IZR base)) by (apply fmt_Z; destruct Hbase; subst; lia).
  rewrite f64_raw_eq by assumption. unfold q_round. cbn [qn qd].
  set (m := ((2 * (d * 1000) + ms * base) / (2 * (ms * base)))%Z).
  assert (Hpos : (0 < 2 * (ms * base))%Z) by (destruct Hbase; subst; lia).
  pose proof (Z.div_mod (2 * (d * 1000) + ms * base) (2 * (ms * base)) ltac:(lia)) as E.
  pose proof (Z.mod_pos_bound (2 * (d * 1000) + ms * base) (2 * (ms * base)) Hpos) as Bm.
  fold m in E.
  assert (Hm : (0 <= m <= 16)%Z).
  { unfold m. split; [apply Z.div_pos; destruct Hbase; subst; lia|].
    apply Z.div_le_upper_bound; [lia|]. destruct Hbase; subst; lia. }
  set (b := (base / 2)%Z).
  assert (Hb : (base = 2 * b /\ 0 < b <= 500)%Z) by (unfold b; destruct Hbase; subst; cbn; lia).
  destruct Hb as [Eb Hb]. 
  assert (Lo : ((2 * m - 1) * b * ms <= 1000 * d)%Z) by (rewrite Eb in *; nia).
  assert (Hi : (1000 * d < (2 * m + 1) * b * ms)%Z) by (rewrite Eb in *; nia).
  pose proof (quot_ge (1000 * d) ms ((2 * m - 1) * b) ltac:(lia) ltac:(nia) ltac:(lia)) as RL.
  pose proof (quot_lt (1000 * d) ms ((2 * m + 1) * b) ltac:(lia) ltac:(nia) ltac:(lia)) as RU.
  set (raw := rnd (IZR (1000 * d) / IZR ms)) in *.
  assert (Bpos : 0 < IZR b <= 500) by (split; [apply IZR_lt | apply IZR_le]; lia).
  assert (EB : IZR base = 2 * IZR b) by (rewrite Eb, mult_IZR; reflexivity).
  rewrite mult_IZR, minus_IZR, mult_IZR in RL. rewrite mult_IZR, plus_IZR, mult_IZR in RU.
  assert (YL : IZR m - /2 <= raw / IZR base).
  { rewrite EB. apply Rmult_le_reg_r with (2 * IZR b); [lra|]. rewrite div_mul_id by lra. lra. }
  assert (YU : raw / IZR base <= IZR m + /2 - e30).
  { rewrite EB. apply Rmult_le_reg_r with (2 * IZR b); [lra|]. rewrite div_mul_id by lra.
    unfold e20, e30 in *. nra. }
  apply ZnearestA_squeeze.
  - apply rnd_lb; [apply fmt_Z; lia|]. assert (0 <= IZR m) by (apply IZR_le; lia).
    destruct (Z.eq_dec m 0) as [->|]; [|assert (1 <= IZR m) by (apply IZR_le; lia); lra].
    assert (0 <= raw) by (unfold raw; apply rnd_lb; [apply fmt_Z; lia|];
      apply Rmult_le_pos; [apply IZR_le; lia | apply Rlt_le, Rinv_0_lt_compat, IZR_lt; lia]).
    apply Rmult_le_pos; [assumption | apply Rlt_le, Rinv_0_lt_compat; lra].
  - split.
    + apply rnd_lb; [apply fmt_half_lo; lia | exact YL].
    + apply Rle_lt_trans with (IZR m + /2 - e30); [apply rnd_ub; [apply fmt_half_hi; lia | exact YU] | unfold e30; lra].
Qed.

(* normalized = raw_freq / multiplier;  (normalized - base_guess).abs() <= tol,  tol = base_guess/10 exactly
   (see tolerance_constant below) *)
Variable m : Z.
Hypothesis Hm : (1 <= m <= 16)%Z.

Lemma tolerance_eq :
  Rabs (rnd (rnd (f64_raw d ms / IZR m) - rnd (IZR base))) <= IZR base / 10
  <-> (10 * Z.abs (d * 1000 - base * (ms * m)) <= base * (ms * m))%Z.
Proof.
  rewrite (rnd_id (IZR base)) by (apply fmt_Z; destruct Hbase; subst; lia).
  rewrite f64_raw_eq by assumption.
  set (c := (base / 10)%Z).
  assert (Hc : (base = 10 * c /\ 10 <= c <= 100)%Z) by (unfold c; destruct Hbase; subst; cbn; lia).
  destruct Hc as [Ec Hc].
  assert (EC : IZR base = 10 * IZR c) by (rewrite Ec, mult_IZR; reflexivity).
  assert (CR : 10 <= IZR c <= 100) by (split; apply IZR_le; lia).
  assert (MR : 1 <= IZR m <= 16) by (split; apply IZR_le; lia).
  set (raw := rnd (IZR (1000 * d) / IZR ms)).
  (* exact condition: 9 c m <= rate <= 11 c m *)
  assert (Iff : (10 * Z.abs (d * 1000 - base * (ms * m)) <= base * (ms * m))%Z
                <-> (9 * c * m * ms <= 1000 * d /\ 1000 * d <= 11 * c * m * ms)%Z) by (rewrite Ec; lia).
  rewrite Iff. clear Iff.
  assert (F9 : fmt (IZR (9 * c))) by (apply fmt_Z; lia).
  assert (F11 : fmt (IZR (11 * c))) by (apply fmt_Z; lia).
  split.
  - intros H.
    destruct (Z_lt_le_dec (1000 * d) (9 * c * m * ms)) as [L|L].
    { exfalso.
      pose proof (quot_lt (1000 * d) ms (9 * c * m) ltac:(lia) ltac:(nia) ltac:(lia)) as RU. fold raw in RU.
      rewrite !mult_IZR in RU.
      assert (N : rnd (raw / IZR m) <= IZR (9 * c) - e24).
      { apply rnd_ub.
        - apply (fmt_minus (9 * c) 24); [change (Z.pow_pos 2 24) with 16777216%Z; lia | lia].
        - rewrite mult_IZR. apply Rmult_le_reg_r with (IZR m); [lra|]. rewrite div_mul_id by lra.
          unfold e20, e24 in *. nra. }
      assert (D : rnd (rnd (raw / IZR m) - IZR base) <= IZR (- c) - e24).
      { apply rnd_ub.
        - apply (fmt_minus (- c) 24); [change (Z.pow_pos 2 24) with 16777216%Z; lia | lia].
        - rewrite mult_IZR in N. rewrite opp_IZR. lra. }
      rewrite opp_IZR in D. unfold e24 in D.
      assert (Rabs (rnd (rnd (raw / IZR m) - IZR base)) > IZR c).
      { rewrite Rabs_left by lra. lra. }
      lra. }
    destruct (Z_lt_le_dec (11 * c * m * ms) (1000 * d)) as [G|G]; [|lia].
    exfalso.
    pose proof (quot_gt (1000 * d) ms (11 * c * m) ltac:(lia) ltac:(nia) ltac:(lia)) as RL. fold raw in RL.
    rewrite !mult_IZR in RL.
    assert (N : IZR (11 * c) + e24 <= rnd (raw / IZR m)).
    { apply rnd_lb.
      - apply (fmt_plus (11 * c) 24); [change (Z.pow_pos 2 24) with 16777216%Z; lia | lia].
      - rewrite mult_IZR. apply Rmult_le_reg_r with (IZR m); [lra|]. rewrite div_mul_id by lra.
        unfold e20, e24 in *. nra. }
    assert (D : IZR c + e24 <= rnd (rnd (raw / IZR m) - IZR base)).
    { apply rnd_lb.
      - apply (fmt_plus c 24); [change (Z.pow_pos 2 24) with 16777216%Z; lia | lia].
      - rewrite mult_IZR in N. lra. }
    unfold e24 in D.
    assert (Rabs (rnd (rnd (raw / IZR m) - IZR base)) > IZR c).
    { rewrite Rabs_right by lra. lra. }
    lra.
  - intros [L U].
    pose proof (quot_ge (1000 * d) ms (9 * c * m) ltac:(lia) ltac:(nia) ltac:(lia)) as RL. fold raw in RL.
    pose proof (quot_le (1000 * d) ms (11 * c * m) ltac:(lia) ltac:(nia) ltac:(lia)) as RU. fold raw in RU.
    rewrite !mult_IZR in RL, RU.
    assert (NL : IZR (9 * c) <= rnd (raw / IZR m)).
    { apply rnd_lb; [exact F9|]. rewrite mult_IZR.
      apply Rmult_le_reg_r with (IZR m); [lra|]. rewrite div_mul_id by lra. lra. }
    assert (NU : rnd (raw / IZR m) <= IZR (11 * c)).
    { apply rnd_ub; [exact F11|]. rewrite mult_IZR.
      apply Rmult_le_reg_r with (IZR m); [lra|]. rewrite div_mul_id by lra. lra. }
    rewrite mult_IZR in NL, NU.
    assert (DL : IZR (- c) <= rnd (rnd (raw / IZR m) - IZR base)) by (apply rnd_lb; [apply fmt_Z; lia | rewrite opp_IZR; lra]).
    assert (DU : rnd (rnd (raw / IZR m) - IZR base) <= IZR c) by (apply rnd_ub; [apply fmt_Z; lia | lra]).
    rewrite opp_IZR in DL. apply Rabs_le. lra.
Qed.
End Guess.

(* ------------------------------------------------------------------ the constant base_guess * GUESS_TOLERANCE *)
(* rounding computed from the mantissa: for 2^(e+52) <= |x| < 2^(e+53) the result is n * 2^e with n the
   integer nearest to x * 2^-e (no tie) *)
Lemma rnd_by_mantissa x e n :
  (-1074 <= e)%Z ->
  bpow radix2 (e + 53 - 1) <= Rabs x < bpow radix2 (e + 53) ->
  Rabs (x * bpow radix2 (- e) - IZR n) < /2 ->
  rnd x = IZR n * bpow radix2 e.
Proof.
  intros He Hx Hn. unfold rnd, round, F2R, scaled_mantissa, cexp. cbn [Fnum Fexp].
  rewrite (mag_unique radix2 x (e + 53) Hx).
  unfold fexp, FLT_exp. replace (Z.max (e + 53 - 53) (-1074)) with e by lia.
  rewrite (Znearest_imp _ _ n Hn). reflexivity.
Qed.

(* GUESS_TOLERANCE: the literal 0.10 denotes the binary64 number nearest to 1/10 *)
Definition tolerance_f64 : R := rnd (/ 10).
Lemma tolerance_f64_value : tolerance_f64 = 7205759403792794 * / 72057594037927936.
Proof.
  unfold tolerance_f64. rewrite (rnd_by_mantissa (/10) (-56) 7205759403792794); [reflexivity | lia | |].
  - rewrite Rabs_right by lra. change (bpow radix2 (-56 + 53 - 1)) with (/ 16). change (bpow radix2 (-56 + 53)) with (/ 8). lra.
  - change (bpow radix2 (- -56)) with 72057594037927936. apply Rabs_def1; lra.
Qed.
Lemma tolerance_constant_1000 : rnd (rnd 1000 * tolerance_f64) = 100.
Proof.
  rewrite (rnd_id 1000) by (apply (fmt_Z 1000); lia). rewrite tolerance_f64_value.
  rewrite (rnd_by_mantissa _ (-46) 7036874417766400).
  - change (bpow radix2 (-46)) with (/ 70368744177664). lra.
  - lia.
  - rewrite Rabs_right by lra. change (bpow radix2 (-46 + 53 - 1)) with 64. change (bpow radix2 (-46 + 53)) with 128. lra.
  - change (bpow radix2 (- -46)) with 70368744177664. apply Rabs_def1; lra.
Qed.
Lemma tolerance_constant_100 : rnd (rnd 100 * tolerance_f64) = 10.
Proof.
  rewrite (rnd_id 100) by (apply (fmt_Z 100); lia). rewrite tolerance_f64_value.
  rewrite (rnd_by_mantissa _ (-49) 5629499534213120).
  - change (bpow radix2 (-49)) with (/ 562949953421312). lra.
  - lia.
  - rewrite Rabs_right by lra. change (bpow radix2 (-49 + 53 - 1)) with 8. change (bpow radix2 (-49 + 53)) with 16. lra.
  - change (bpow radix2 (- -49)) with 562949953421312. apply Rabs_def1; lra.
Qed.

(* ------------------------------------------------------------------ calculate_uptime_from_frequency *)
Definition e37 : R := / 137438953472.
Definition e27 : R := / 134217728.

(* x % y on f64 is the IEEE remainder with truncated quotient: exact (no rounding); positive operands *)
Definition fmod (x y : R) : R := x - IZR (Zfloor (x / y)) * y.

Section Digits.
(* a value known to lie in [k, k+1-2^-20] *)
Variables (v : R) (k c : Z).
Hypothesis Hk : (0 <= k)%Z.
Hypothesis Hc : (60 <= c <= 86400)%Z.
Hypothesis Hv : IZR k <= v <= IZR k + 1 - e20.

Let Q := (k / c)%Z.
Lemma kc_bounds : (Q * c <= k /\ k + 1 <= (Q + 1) * c)%Z.
Proof. unfold Q. pose proof (Z.div_mod k c ltac:(lia)). pose proof (Z.mod_pos_bound k c ltac:(lia)). lia. Qed.

Lemma quotient_range : IZR Q <= v / IZR c <= IZR Q + 1 - e37.
Proof.
  destruct kc_bounds as [A B]. apply IZR_le in A, B. rewrite mult_IZR in A. rewrite mult_IZR, !plus_IZR in B.
  assert (CR : 60 <= IZR c <= 86400) by (split; apply IZR_le; lia).
  split; apply Rmult_le_reg_r with (IZR c); try lra; rewrite div_mul_id by lra; [lra|].
  unfold e20, e37 in *. nra.
Qed.

Lemma digit : (Q < 65535)%Z -> Zfloor (rnd (v / IZR c)) = Q.
Proof.
  intros HQ. assert (Q0 : (0 <= Q)%Z) by (unfold Q; apply Z.div_pos; lia).
  destruct quotient_range as [L U]. apply Zfloor_imp. split.
  - apply rnd_lb; [apply fmt_Z; lia | exact L].
  - apply Rle_lt_trans with (IZR (Q + 1) - e37).
    + apply rnd_ub; [apply (fmt_minus (Q + 1) 37); [change (Z.pow_pos 2 37) with 137438953472%Z; lia | lia]|].
      rewrite plus_IZR. exact U.
    + unfold e37. lra.
Qed.

Lemma fmod_range : IZR (k mod c) <= fmod v (IZR c) <= IZR (k mod c) + 1 - e20.
Proof.
  unfold fmod. destruct quotient_range as [L U].
  assert (F : Zfloor (v / IZR c) = Q).
  { apply Zfloor_imp. rewrite plus_IZR. unfold e37 in U. lra. }
  rewrite F. pose proof (Z.div_mod k c ltac:(lia)) as E. fold Q in E.
  assert (ER : IZR (k mod c) = IZR k - IZR Q * IZR c).
  { replace (k mod c)%Z with (k - c * Q)%Z by lia. rewrite minus_IZR, mult_IZR. ring. }
  rewrite ER. lra.
Qed.
End Digits.

(* uptime_seconds = ts_val as f64 / freq_hz   (freq_hz is already an f64) *)
Definition f64_seconds (ts : Z) (freq : R) : R := rnd (rnd (IZR ts) / freq).

Section UptimeDigits.
Variables ts f : Z.
Hypothesis Hts : (0 <= ts < 4294967296)%Z.
Hypothesis Hf : (1 <= f <= 1500)%Z.

Let S := (ts / f)%Z.

Lemma seconds_range : IZR S <= (f64_seconds ts (IZR f)) <= IZR S + 1 - e20.
Proof.
  unfold f64_seconds. rewrite (rnd_id (IZR ts)) by (apply fmt_Z; lia).
  assert (HS : (S * f <= ts < (S + 1) * f)%Z).
  { unfold S. pose proof (Z.div_mod ts f ltac:(lia)). pose proof (Z.mod_pos_bound ts f ltac:(lia)). lia. }
  assert (HS0 : (0 <= S < 4294967296)%Z).
  { unfold S. split; [apply Z.div_pos; lia|]. apply Z.div_lt_upper_bound; nia. }
  split.
  - apply (quot_ge ts f S); lia.
  - pose proof (quot_lt ts f (S + 1) ltac:(lia) ltac:(lia) ltac:(lia)) as B. rewrite plus_IZR in B. exact B.
Qed.

Lemma S_nonneg : (0 <= S < 4294967296)%Z.
Proof. unfold S. split; [apply Z.div_pos; lia|]. apply Z.div_lt_upper_bound; nia. Qed.

(* days = (uptime_seconds / (24.0 * 3600.0)) as u32 *)
Lemma days_eq : Zfloor (rnd ((f64_seconds ts (IZR f)) / 86400)) = (S / 86400)%Z.
Proof.
  pose proof S_nonneg. apply (digit (f64_seconds ts (IZR f)) S 86400); [lia | lia | exact seconds_range |].
  apply Z.div_lt_upper_bound; lia.
Qed.
(* hours = ((uptime_seconds % (24.0 * 3600.0)) / 3600.0) as u32 *)
Lemma hours_eq : Zfloor (rnd (fmod (f64_seconds ts (IZR f)) 86400 / 3600)) = ((S mod 86400) / 3600)%Z.
Proof.
  pose proof S_nonneg. pose proof (Z.mod_pos_bound S 86400 ltac:(lia)).
  apply (digit (fmod (f64_seconds ts (IZR f)) 86400) (S mod 86400) 3600); [lia | lia | | apply Z.div_lt_upper_bound; lia].
  apply (fmod_range (f64_seconds ts (IZR f)) S 86400); [lia | exact seconds_range].
Qed.
(* minutes = ((uptime_seconds % 3600.0) / 60.0) as u32 *)
Lemma minutes_eq : Zfloor (rnd (fmod (f64_seconds ts (IZR f)) 3600 / 60)) = ((S mod 3600) / 60)%Z.
Proof.
  pose proof S_nonneg. pose proof (Z.mod_pos_bound S 3600 ltac:(lia)).
  apply (digit (fmod (f64_seconds ts (IZR f)) 3600) (S mod 3600) 60); [lia | lia | | apply Z.div_lt_upper_bound; lia].
  apply (fmod_range (f64_seconds ts (IZR f)) S 3600); [lia | exact seconds_range].
Qed.

End UptimeDigits.

(* up_mod_days = (u32::MAX as f64 / (freq_hz * 60.0 * 60.0 * 24.0)) as u32 *)
Definition f64_wrap_days (freq : R) : R := rnd (rnd 4294967295 / rnd (rnd (rnd (freq * 60) * 60) * 24)).
Lemma wrap_days_eq f : (1 <= f <= 1500)%Z -> Zfloor (f64_wrap_days (IZR f)) = (4294967295 / (f * 60 * 60 * 24))%Z.
Proof.
  intros Hf.
  unfold f64_wrap_days.
  replace (IZR f * 60) with (IZR (f * 60)) by (rewrite mult_IZR; reflexivity).
  rewrite (rnd_id (IZR (f * 60))) by (apply fmt_Z; lia).
  replace (IZR (f * 60) * 60) with (IZR (f * 60 * 60)) by (rewrite (mult_IZR (f * 60)); reflexivity).
  rewrite (rnd_id (IZR (f * 60 * 60))) by (apply fmt_Z; lia).
  replace (IZR (f * 60 * 60) * 24) with (IZR (f * 60 * 60 * 24)) by (rewrite (mult_IZR (f * 60 * 60)); reflexivity).
  rewrite (rnd_id (IZR (f * 60 * 60 * 24))) by (apply fmt_Z; lia).
  rewrite (rnd_id 4294967295) by (apply (fmt_Z 4294967295); lia).
  set (q := (f * 60 * 60 * 24)%Z). assert (Hq : (86400 <= q <= 129600000)%Z) by (unfold q; lia).
  set (W := (4294967295 / q)%Z).
  assert (HW : (W * q <= 4294967295 < (W + 1) * q)%Z).
  { unfold W. pose proof (Z.div_mod 4294967295 q ltac:(lia)). pose proof (Z.mod_pos_bound 4294967295 q ltac:(lia)). lia. }
  assert (HW0 : (0 <= W <= 49710)%Z).
  { unfold W. split; [apply Z.div_pos; lia|]. assert (4294967295 / q < 49711)%Z by (apply Z.div_lt_upper_bound; lia). lia. }
  assert (QR : 86400 <= IZR q <= 129600000) by (split; apply IZR_le; lia).
  apply Zfloor_imp. split.
  - apply rnd_lb; [apply fmt_Z; lia|].
    apply Rmult_le_reg_r with (IZR q); [lra|]. rewrite div_mul_id by lra.
    rewrite <- mult_IZR. apply IZR_le. lia.
  - apply Rle_lt_trans with (IZR (W + 1) - e27); [|unfold e27; lra].
    apply rnd_ub; [apply (fmt_minus (W + 1) 27); [change (Z.pow_pos 2 27) with 134217728%Z; lia | lia]|].
    apply Rmult_le_reg_r with (IZR q); [lra|]. rewrite div_mul_id by lra.
    assert (B : (4294967295 <= (W + 1) * q - 1)%Z) by lia. apply IZR_le in B. rewrite minus_IZR, mult_IZR in B.
    unfold e27. nra.
Qed.

(* ------------------------------------------------------------------ the f64 functions of uptime.rs and the MODEL *)

(* (MAX_FINAL_HZ / TSTAMP_GRACE as f64) * 1000.0, compared with an integer converted to f64: exact *)
Lemma max_backward_ticks_f64 : rnd (rnd (1500 / rnd 100) * 1000) = IZR max_backward_ticks.
Proof.
  rewrite (rnd_id 100) by (apply (fmt_Z 100); lia).
  replace (1500 / 100) with 15 by lra. rewrite (rnd_id 15) by (apply (fmt_Z 15); lia).
  replace (15 * 1000) with 15000 by lra. rewrite (rnd_id 15000) by (apply (fmt_Z 15000); lia). reflexivity.
Qed.

(* guess_frequency(raw_freq, base_guess, GUESS_TOLERANCE) for raw_freq > 0 finite, base_guess > 0 *)
Definition f64_guess (raw : R) (base : Z) : option R :=
  let multiplier := ZnearestA (rnd (raw / rnd (IZR base))) in
  if (multiplier <=? 0)%Z then None
  else
    let normalized := rnd (raw / IZR multiplier) in
    if Rle_bool (Rabs (rnd (normalized - rnd (IZR base)))) (rnd (rnd (IZR base) * tolerance_f64))
    then Some (rnd (rnd (IZR base) * IZR multiplier)) else None.

(* round_frequency_p0f_style: `freq as u32` truncates (saturating), the rest is u32 arithmetic *)
Definition f64_round_frequency (raw : R) : Z := round_frequency_p0f_style {| qn := Zfloor raw; qd := 1 |}.

Definition f64_final_frequency (raw : R) : R :=
  match f64_guess raw GUESS_HZ_1K with
  | Some f => f
  | None => match f64_guess raw GUESS_HZ_100 with
            | Some f => f
            | None => IZR (f64_round_frequency raw)
            end
  end.

Section Frequency.
Variables d ms : Z.
Hypothesis Hd : (0 <= d < 4294967296)%Z.
Hypothesis Hms : (25 <= ms <= 600000)%Z.
Let rawq : q := {| qn := d * 1000; qd := ms |}.

(* the range check of calculate_frequency_p0f_style *)
Theorem f64_range_check :
  Rle_bool 1 (f64_raw d ms) && Rle_bool (f64_raw d ms) 1500
  = q_le (q_of_Z MIN_FINAL_HZ) rawq && q_le rawq (q_of_Z MAX_FINAL_HZ).
Proof.
  unfold q_le, q_of_Z, rawq, MIN_FINAL_HZ, MAX_FINAL_HZ. cbn [qn qd].
  pose proof (raw_ge_1 d ms Hd Hms) as A. pose proof (raw_le_1500 d ms Hd Hms) as B.
  f_equal.
  - destruct (Z.leb_spec (1 * ms) (d * 1000 * 1)).
    + apply Rle_bool_true. apply A. lia.
    + apply Rle_bool_false. apply Rnot_le_lt. intros C. apply A in C. lia.
  - destruct (Z.leb_spec (d * 1000 * 1) (1500 * ms)).
    + apply Rle_bool_true. apply B. lia.
    + apply Rle_bool_false. apply Rnot_le_lt. intros C. apply B in C. lia.
Qed.

Hypothesis Hrange : (ms <= 1000 * d <= 1500 * ms)%Z.

Lemma f64_guess_eq base : base = 100%Z \/ base = 1000%Z ->
  f64_guess (f64_raw d ms) base = option_map IZR (guess_frequency rawq base).
Proof.
  intros Hb. unfold f64_guess, guess_frequency, rawq. cbn [qn qd].
  rewrite (multiplier_eq d ms base Hd Hms Hrange Hb).
  set (m := q_round {| qn := d * 1000; qd := ms * base |}).
  destruct (Z.leb_spec (d * 1000) 0); [lia|]. destruct (Z.leb_spec base 0); [destruct Hb; lia|]. cbn [orb].
  destruct (Z.leb_spec m 0) as [M0|M0]; [reflexivity|].
  assert (Hm : (1 <= m <= 16)%Z).
  { split; [lia|]. unfold m, q_round. cbn [qn qd]. apply Z.div_le_upper_bound; destruct Hb; subst; lia. }
  pose proof (tolerance_eq d ms base Hd Hms Hrange Hb m Hm) as T.
  assert (Tol : rnd (rnd (IZR base) * tolerance_f64) = IZR base / 10).
  { destruct Hb; subst; [rewrite tolerance_constant_100 | rewrite tolerance_constant_1000]; lra. }
  rewrite Tol.
  assert (Prod : rnd (rnd (IZR base) * IZR m) = IZR (base * m)).
  { rewrite (rnd_id (IZR base)) by (apply fmt_Z; destruct Hb; subst; lia).
    rewrite <- mult_IZR. apply rnd_id, fmt_Z. destruct Hb; subst; lia. }
  rewrite Prod.
  destruct (Z.leb_spec (10 * Z.abs (d * 1000 - base * (ms * m))) (base * (ms * m))) as [C|C].
  - rewrite Rle_bool_true by (apply T; exact C). reflexivity.
  - rewrite Rle_bool_false; [reflexivity|]. apply Rnot_le_lt. intros X. apply T in X. lia.
Qed.

Lemma f64_round_frequency_eq : f64_round_frequency (f64_raw d ms) = round_frequency_p0f_style rawq.
Proof.
  unfold f64_round_frequency, round_frequency_p0f_style, q_floor, rawq. cbn [qn qd].
  rewrite (raw_trunc d ms Hd Hms) by lia. rewrite Z.div_1_r.
  replace (1000 * d)%Z with (d * 1000)%Z by lia. reflexivity.
Qed.

(* every f64 step of the `final_freq` expression decides as the exact-rational model *)
Theorem f64_final_frequency_eq : f64_final_frequency (f64_raw d ms) = IZR (final_frequency rawq).
Proof.
  unfold f64_final_frequency, final_frequency.
  rewrite (f64_guess_eq GUESS_HZ_1K) by (right; reflexivity).
  rewrite (f64_guess_eq GUESS_HZ_100) by (left; reflexivity).
  destruct (guess_frequency rawq GUESS_HZ_1K); [reflexivity|].
  destruct (guess_frequency rawq GUESS_HZ_100); [reflexivity|].
  cbn [option_map]. now rewrite f64_round_frequency_eq.
Qed.
End Frequency.

(* calculate_uptime_from_frequency(ts_val, freq_hz); the record keeps the integer the f64 freq holds *)
Definition f64_uptime (ts : Z) (freq : R) : uptime :=
  let secs := f64_seconds ts freq in
  {| u_freq := Zfloor freq;
     u_days := sat32 (Zfloor (rnd (secs / 86400)));
     u_hours := sat32 (Zfloor (rnd (fmod secs 86400 / 3600)));
     u_min := sat32 (Zfloor (rnd (fmod secs 3600 / 60)));
     u_mod_days := sat32 (Zfloor (f64_wrap_days freq)) |}.

Theorem f64_uptime_eq ts f :
  (0 <= ts < 4294967296)%Z -> (1 <= f <= 1500)%Z ->
  f64_uptime ts (IZR f) = calculate_uptime_from_frequency ts f.
Proof.
  intros Hts Hf. unfold f64_uptime, calculate_uptime_from_frequency. cbv zeta.
  rewrite (days_eq ts f Hts Hf), (hours_eq ts f Hts Hf), (minutes_eq ts f Hts Hf), (wrap_days_eq f Hf).
  rewrite Zfloor_IZR. unfold U32_MAX.
  f_equal; f_equal.
  - rewrite Z.div_div by lia. reflexivity.
  - replace (f * 86400)%Z with (f * 3600 * 24)%Z by lia. rewrite mod_mul_div by lia.
    change 86400%Z with (3600 * 24)%Z. rewrite mod_mul_div by lia. rewrite Z.div_div by lia. reflexivity.
  - replace (f * 3600)%Z with (f * 60 * 60)%Z by lia. rewrite mod_mul_div by lia.
    change 3600%Z with (60 * 60)%Z. rewrite mod_mul_div by lia. rewrite Z.div_div by lia. reflexivity.
Qed.

(* ------------------------------------------------------------------ the whole estimator on f64 *)
(* backward movement:  -(inverted_diff as f64 * 1000.0) / (effective_ms_diff as f64)   (negation is exact) *)
Definition f64_raw_neg (d ms : Z) : R := rnd (- rnd (rnd (IZR d) * 1000) / rnd (IZR ms)).

Lemma f64_raw_neg_nonpos d ms :
  (0 <= d < 4294967296)%Z -> (25 <= ms <= 600000)%Z -> f64_raw_neg d ms <= 0.
Proof.
  intros Hd Hms. unfold f64_raw_neg.
  rewrite (rnd_id (IZR d)) by (apply fmt_Z; lia). rewrite (rnd_id (IZR ms)) by (apply fmt_Z; lia).
  replace (IZR d * 1000) with (IZR (1000 * d)) by (rewrite mult_IZR; ring).
  rewrite (rnd_id (IZR (1000 * d))) by (apply fmt_Z; lia).
  apply rnd_ub; [apply (fmt_Z 0); lia|].
  assert (0 <= IZR (1000 * d)) by (apply IZR_le; lia).
  assert (0 < / IZR ms) by (apply Rinv_0_lt_compat, IZR_lt; lia).
  unfold Rdiv. nra.
Qed.

(* Result<Option<f64>, String> *)
Inductive f64_freq_result := F64Ok (raw : R) | F64Wait | F64Err.

Definition f64_calculate_frequency (current reference : tcp_timestamp) : f64_freq_result :=
  let ms_diff := saturating_sub (recv_time_ms current) (recv_time_ms reference) in
  let ts_diff := wrapping_sub32 (ts_val current) (ts_val reference) in
  if (ms_diff <? MIN_TWAIT)%Z then F64Err
  else if (MAX_TWAIT <? ms_diff)%Z then F64Err
  else
    let is_backward := (not32 ts_diff <? ts_diff)%Z in
    let guards_pass :=
      if is_backward then
        let inverted_diff := not32 ts_diff in
        if (inverted_diff <? MIN_TS_DIFF)%Z then false
        else if (ms_diff <? TSTAMP_GRACE)%Z
                && Rlt_bool (rnd (rnd (1500 / rnd 100) * 1000)) (rnd (IZR inverted_diff)) then false
        else true
      else true in
    if negb guards_pass then F64Err
    else
      let effective_ms_diff := Z.max ms_diff 1 in
      let raw_freq :=
        if (not32 ts_diff <? ts_diff)%Z then f64_raw_neg (not32 ts_diff) effective_ms_diff
        else f64_raw ts_diff effective_ms_diff in
      if negb (Rle_bool 1 raw_freq && Rle_bool raw_freq 1500) then F64Err
      else if (ts_diff <? MIN_TS_DIFF)%Z then F64Wait
      else F64Ok raw_freq.

Definition f64_eval (t1 v1 t2 v2 : Z) : eval_result :=
  match f64_calculate_frequency (ts_now v2 t2) (ts_now v1 t1) with
  | F64Ok raw => EvEst (f64_uptime v2 (f64_final_frequency raw))
  | F64Wait => EvWait
  | F64Err => EvBad
  end.
Definition f64_estimate (t1 v1 t2 v2 : Z) : option uptime :=
  match f64_eval t1 v1 t2 v2 with EvEst u => Some u | _ => None end.

Lemma Rlt_bool_IZR a b : Rlt_bool (IZR a) (IZR b) = (a <? b)%Z.
Proof.
  destruct (Z.ltb_spec a b).
  - apply Rlt_bool_true. now apply IZR_lt.
  - apply Rlt_bool_false. now apply IZR_le.
Qed.

Lemma grid_points_le g : List.In g UptimeSpec.grid_points -> (g <= 1500)%Z.
Proof. cbn. intros H. repeat (destruct H as [<- | H]; [lia|]). contradiction. Qed.

Lemma final_frequency_range n dd :
  (0 < dd)%Z -> (dd <= n <= 1500 * dd)%Z -> (1 <= final_frequency {| qn := n; qd := dd |} <= 1500)%Z.
Proof.
  intros Hd Hn. rewrite final_grid by assumption.
  pose proof (grid_on_documented_grid n dd Hd Hn) as G.
  split; [apply grid_points_pos | apply grid_points_le]; exact G.
Qed.

(* THE RESULT: the estimator computed in binary64 (round-to-nearest-even) decides and returns exactly what
   the exact-rational MODEL does (report / keep waiting / mark bad), for every pair of observations *)
Theorem f64_eval_eq t1 v1 t2 v2 :
  (0 <= v2 < 4294967296)%Z ->
  f64_eval t1 v1 t2 v2 = model_eval t1 v1 t2 v2.
Proof.
  intros Hv2. unfold f64_eval, model_eval, f64_calculate_frequency, calculate_frequency_p0f_style.
  cbn [ts_val recv_time_ms ts_now]. cbv zeta.
  set (ms := saturating_sub t2 t1). set (tsd := wrapping_sub32 v2 v1).
  assert (Htsd : (0 <= tsd < 4294967296)%Z) by (unfold tsd, wrapping_sub32, U32; apply Z.mod_pos_bound; lia).
  unfold MIN_TWAIT, MAX_TWAIT, MIN_TS_DIFF, TSTAMP_GRACE.
  destruct (Z.ltb_spec ms 25); [reflexivity|]. destruct (Z.ltb_spec 600000 ms); [reflexivity|].
  assert (Hinv : (0 <= not32 tsd < 4294967296)%Z) by (unfold not32, U32_MAX; lia).
  rewrite max_backward_ticks_f64.
  rewrite (rnd_id (IZR (not32 tsd))) by (apply fmt_Z; lia).
  rewrite Rlt_bool_IZR.
  destruct (negb (if (not32 tsd <? tsd)%Z then _ else true)); [reflexivity|].
  rewrite (Z.max_l ms 1) by lia.
  destruct (not32 tsd <? tsd)%Z.
  - (* backward: the rate is non-positive on both sides, the range check fails *)
    pose proof (f64_raw_neg_nonpos (not32 tsd) ms Hinv ltac:(lia)) as N.
    rewrite (Rle_bool_false 1 (f64_raw_neg (not32 tsd) ms)) by lra.
    unfold q_le, q_of_Z, MIN_FINAL_HZ. cbn [qn qd andb negb].
    destruct (Z.leb_spec (1 * ms) (- (not32 tsd * 1000) * 1)); [lia | reflexivity].
  - rewrite (f64_range_check tsd ms Htsd ltac:(lia)).
    destruct (q_le (q_of_Z MIN_FINAL_HZ) _ && q_le _ (q_of_Z MAX_FINAL_HZ)) eqn:E; cbn [negb]; [|reflexivity].
    destruct (tsd <? 5)%Z; [reflexivity|].
    assert (Hr : (ms <= 1000 * tsd <= 1500 * ms)%Z).
    { unfold q_le, q_of_Z, MIN_FINAL_HZ, MAX_FINAL_HZ in E. cbn [qn qd] in E.
      apply andb_prop in E. destruct E as [E1 E2]. apply Z.leb_le in E1, E2. lia. }
    rewrite (f64_final_frequency_eq tsd ms Htsd ltac:(lia) Hr).
    rewrite f64_uptime_eq; [reflexivity | exact Hv2 |].
    apply final_frequency_range; lia.
Qed.

Theorem f64_estimate_eq t1 v1 t2 v2 :
  (0 <= v2 < 4294967296)%Z ->
  f64_estimate t1 v1 t2 v2 = model_estimate t1 v1 t2 v2.
Proof. intros H. unfold f64_estimate, model_estimate. now rewrite f64_eval_eq. Qed.
