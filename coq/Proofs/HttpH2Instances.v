(* The packet-level HTTP analyzer (Model/HttpAnalyzer.v) instantiated with the HTTP/1 + HTTP/2 parser pair of
   Model/HttpH2.v (= HttpProcessors::parse_request / parse_response).  The theorems about the analyzer are
   parametric in the two parsers (Proofs/HttpKeyed.v, Proofs/HttpInstances.v): these are their instances, plus a
   worked example: one HTTP/2 connection start split over two TCP segments, interleaved with an HTTP/1.1 exchange. *)
From Coq Require Import List NArith ZArith Bool Lia Permutation.
From Coq Require Import Strings.Byte.
From HN Require Import Base.Bytes Base.Cache Base.Tcp Base.Keyed Model.Filter Model.FilterGlue Spec.FilterSpec Spec.CommuteSpec
                       Model.Hash Model.HttpFlow Model.HttpAnalyzer Model.HttpGlue Model.HttpH2 Proofs.HttpKeyed
                       Model.PoolConcrete Proofs.PoolInstances Model.Unified Spec.UnifiedSpec Proofs.UnifiedProofs Model.AnalyzerReports Proofs.HttpInstances.
From HN Require Model.TcpAnalyzer.
Import ListNotations.
Open Scope N_scope.

Notation out12 := (@http_out bytes bytes).
Notation results12 := (http_results parse_req_12 parse_resp_12).

(* C07: isolation / interleaving invariance with HTTP/2 traffic in the mix *)
Theorem http12_isolation (tr : list bytes) (st : http_state) (K : fkey) :
  http12_within_capacityb st tr = true ->
  http12_within_capacityb st (Keyed.fk bytes fkey http_key fkey_eqb K tr) = true ->
  Keyed.proj fkey out12 fkey_eqb K (results12 st tr)
  = snd (http12_run st (Keyed.fk bytes fkey http_key fkey_eqb K tr)).
Proof. intros W Wk. exact (proj2 (http_isolation parse_req_12 parse_resp_12 tr st K W Wk)). Qed.

Theorem http12_interleaving_invariant (tr tr' : list bytes) (st : http_state) :
  http12_within_capacityb st tr = true -> http12_within_capacityb st tr' = true ->
  (forall K, Keyed.fk bytes fkey http_key fkey_eqb K tr = Keyed.fk bytes fkey http_key fkey_eqb K tr') ->
  forall K, Keyed.proj fkey out12 fkey_eqb K (results12 st tr) = Keyed.proj fkey out12 fkey_eqb K (results12 st tr').
Proof. exact (http_interleaving_invariant parse_req_12 parse_resp_12 tr tr' st). Qed.

(* C01: a connection analysed after an arbitrary history of other connections reports what it reports alone *)
Theorem http12_recovers (h probe : list bytes) (st : http_state) (K : fkey) :
  (forall f, In f h -> http_key f <> K) -> (forall f, In f probe -> http_key f = K) ->
  http12_within_capacityb st (h ++ probe) = true -> http12_within_capacityb st probe = true ->
  Keyed.proj fkey out12 fkey_eqb K (results12 st (h ++ probe)) = snd (http12_run st probe).
Proof. exact (http_recovers parse_req_12 parse_resp_12 h probe st K). Qed.

(* C10: the worker pool *)
Theorem http12_pool_concrete (SipH : ident -> N) (n capw caps : N) (es : list (ev bytes)) :
  let x := http_pool_run parse_req_12 parse_resp_12 SipH n capw es in
  0 < n -> (forall f, In f (Keyed.dispatched bytes es) -> pool_dom f = true) ->
  http_pool_withinb parse_req_12 parse_resp_12 SipH n capw es = true ->
  http12_within_capacityb (cache_new caps) (Keyed.dispatched bytes es) = true ->
  (forall w, cq bytes fkey out12 http_state x w = []) ->
  (forall K, Keyed.proj fkey out12 fkey_eqb K (couts bytes fkey out12 http_state x)
             = Keyed.proj fkey out12 fkey_eqb K (results12 (cache_new caps) (Keyed.dispatched bytes es)))
  /\ Permutation (couts bytes fkey out12 http_state x) (results12 (cache_new caps) (Keyed.dispatched bytes es)).
Proof. exact (http_pool_concrete parse_req_12 parse_resp_12 SipH n capw caps es). Qed.

(* C15: filtering commutes with analysis *)
Theorem http12_commutes (c : cfg_src) : cfg_wf c = true ->
  forall (tau : list bytes) (st : http_state),
    FilterGlue.run (with_filter (build c) (http_report_step parse_req_12 parse_resp_12)) st tau
    = FilterGlue.run (http_report_step parse_req_12 parse_resp_12) st (admitted_subtrace c tau).
Proof. exact (commutes_http_concrete parse_req_12 parse_resp_12 c). Qed.

(* C20: the unified composition with the HTTP stage handling both protocols *)
Theorem http12_trace_union (db : list (bytes * list N)) (cap : N) (c : cfg) (tr : list TcpAnalyzer.tcp_event)
        (st : TcpAnalyzer.tcp_state) (sh : http_state) :
  trace_accepts TcpAnalyzer.tcp_event TcpAnalyzer.tcp_state http_state (tcp_ustep db cap) (http_ustep parse_req_12 parse_resp_12) tls_ufn c st sh tr ->
  map Some (unified_run TcpAnalyzer.tcp_event TcpAnalyzer.tcp_state http_state (tcp_ustep db cap) (http_ustep parse_req_12 parse_resp_12) tls_ufn c (st, sh) tr)
  = spec_run_enabled TcpAnalyzer.tcp_event TcpAnalyzer.tcp_state http_state (tcp_ustep db cap) (http_ustep parse_req_12 parse_resp_12) tls_ufn c st sh tr.
Proof. exact (trace_union_concrete parse_req_12 parse_resp_12 db cap c tr st sh). Qed.

(* ---------------- worked example (frames printed by `VERIF_C16_EXAMPLE=1 hn_c16 gen 1 quick`) ---------------- *)
Definition hxf (s : bs_lit) : bytes := match read_hex (bs s) with Some b => b | None => [] end.
Arguments hxf _%bs.
Definition ex_a0 : bytes := hxf "02000000000102000000000208004500003412344000400600000a0100025db8d8234e2101bb066fa972000000008002ffff00000000020405b40402010303070000".
Definition ex_b0 : bytes := hxf "02000000000102000000000208004500003412344000400600000a0100035db8d8244e2200505395121b000000008002ffff00000000020405b40402010303070000".
Definition ex_a1 : bytes := hxf "02000000000102000000000208004500002c12344000400600005db8d8230a01000201bb4e2150cd7c45066fa9736012ffff00000000020405b4".
Definition ex_b1 : bytes := hxf "02000000000102000000000208004500002c12344000400600005db8d8240a01000300504e2269136c165395121c6012ffff00000000020405b4".
Definition ex_a2 : bytes := hxf "02000000000102000000000208004500002812344000400600000a0100025db8d8234e2101bb066fa97350cd7c465010ffff00000000".
Definition ex_b2 : bytes := hxf "02000000000102000000000208004500002812344000400600000a0100035db8d8244e2200505395121c69136c175010ffff00000000".
Definition ex_a3 : bytes := hxf "02000000000102000000000208004500005612344000400600000a0100025db8d8234e2101bb066fa97350cd7c465018ffff00000000505249202a20485454502f322e300d0a0d0a534d0d0a0d0a00000604000000000000030000006400002101240000".
Definition ex_b3 : bytes := hxf "02000000000102000000000208004500004412344000400600000a0100035db8d8244e2200505395121c69136c175018ffff00000000474554202f6920485454502f312e310d0a486f73743a20680d0a0d0a".
Definition ex_a4 : bytes := hxf "02000000000102000000000208004500004b12344000400600000a0100025db8d8234e2101bb066fa9a150cd7c465018ffff00000000000180000000ff8287458263cf41871ae5f23a6ba0bf7a87aec3c65602b83f518290bf".
Definition ex_b4 : bytes := hxf "02000000000102000000000208004500004612344000400600005db8d8240a01000300504e2269136c17539512385018ffff00000000485454502f312e3120323030204f4b0d0a5365727665723a20730d0a0d0a".
Definition ex_a5 : bytes := hxf "02000000000102000000000208004500002812344000400600000a0100025db8d8234e2101bb066fa9c450cd7c465011ffff00000000".
Definition ex_b5 : bytes := hxf "02000000000102000000000208004500002812344000400600000a0100035db8d8244e2200505395123869136c175011ffff00000000".
(* a = HTTP/2 connection (SYN, SYN+ACK, ACK, two data segments, FIN); b = HTTP/1.1 exchange *)
Definition ex12_trace : list bytes := [ex_a0; ex_b0; ex_a1; ex_b1; ex_a2; ex_b2; ex_a3; ex_b3; ex_a4; ex_b4; ex_a5; ex_b5].
Definition ex12_a_alone : list bytes := [ex_a0; ex_a1; ex_a2; ex_a3; ex_a4; ex_a5].
Definition ex12_ka : fkey := http_key ex_a0.

Definition okind (o : out12) : N := match o with HErr => 9 | HOut ONone => 0 | HOut (OReq _) => 1 | HOut (OResp _) => 2 end.

(* hypotheses of http12_isolation hold; the HTTP/2 request is reported at the SECOND data segment of a
   (position 9 of the trace: kinds 1 = request, 2 = response), the HTTP/1 request and response in between *)
Example http12_example :
  http12_within_capacityb (cache_new 8) ex12_trace = true /\
  Keyed.fk bytes fkey http_key fkey_eqb ex12_ka ex12_trace = ex12_a_alone /\
  http12_within_capacityb (cache_new 8) ex12_a_alone = true /\
  map okind (snd (http12_run (cache_new 8) ex12_trace)) = [0; 0; 0; 0; 0; 0; 0; 1; 1; 2; 0; 0] /\
  map okind (snd (http12_run (cache_new 8) ex12_a_alone)) = [0; 0; 0; 0; 1; 0] /\
  nth 8 (map http12_out_line (snd (http12_run (cache_new 8) ex12_trace))) []
  = bs "Q2 GET /x hdr=4:user-agent:probe/1.0,5:accept-language:de cookies= referer=~ ua=probe/1.0 lang={al:6465} sig=2%3auser-agent%2caccept-language%3d%5bde%5d%3aHost%2cConnection%2cAccept%2cAccept-Encoding%2cAccept-Charset%2cKeep-Alive%3aprobe/1.0".
Proof. vm_compute. repeat split; reflexivity. Qed.

(* ... and therefore (instance of the isolation theorem) the interleaved run reports for connection a exactly what
   a reports alone *)
Example http12_example_isolated :
  Keyed.proj fkey out12 fkey_eqb ex12_ka (results12 (cache_new 8) ex12_trace) = snd (http12_run (cache_new 8) ex12_a_alone).
Proof.
  destruct http12_example as (W & Efk & Wa & _).
  rewrite <- Efk. apply http12_isolation; [exact W|]. rewrite Efk. exact Wa.
Qed.
