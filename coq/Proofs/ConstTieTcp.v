(* Ties between the hand-written models and the constants / literal tables regenerated from /repo's
   sources on every run (coq/Gen/Consts.v, tools/gen/consts.py).  An edit of one of these values in the
   Rust source changes Gen/Consts.v and breaks the corresponding lemma here (a proof obligation of the
   property that uses the model), independently of what the case generators happen to sample. *)
From Coq Require Import List NArith ZArith Bool Lia.
From HN Require Import Base.Bytes Gen.Consts.
From HN Require Model.TcpExtract.
Import ListNotations.

(* ---- C03: ttl.rs / tcp_process.rs named constants ---- *)
Lemma tcp_constants_tie :
  TcpExtract.MAX_HOPS_ACCEPTABLE = src_tcp_MAX_HOPS_ACCEPTABLE /\
  TcpExtract.IP4_MBZ = src_tcp_IP4_MBZ /\
  TcpExtract.IP_TOS_CE_ECT = N.lor src_tcp_IP_TOS_CE src_tcp_IP_TOS_ECT.
Proof. repeat split; reflexivity. Qed.
