(* Proofs for C16, assembly: bytes of a connection start -> frames -> header block -> HPACK -> report. *)
From Coq Require Import List NArith ZArith Bool Lia ZifyBool ZifyN Arith.
From Coq Require Import Strings.Byte.
From HN Require Import Base.Bytes Model.H2Text Model.H2Frames Model.Hpack Model.H2Msg
     Spec.H2Wire Spec.H2Spec Proofs.H2FramesProofs Proofs.HpackProofs Proofs.HpackRoundtrip
     Proofs.H2MsgProofs Proofs.H2FieldsProofs.
Import ListNotations.
Open Scope N_scope.

Section Bytes.
  Variables (ctl trail : list (bool * frame)) (sid : N) (fr : framing) (frags : list bytes).
  Hypothesis Hctl : forallb (ctl_ok sid) ctl = true.
  Hypothesis Htrail : forallb (trail_ok sid) trail = true.
  Hypothesis Hfr : framing_ok fr frags = true.
  Hypothesis Hsid : 0 < sid /\ sid < 2 ^ 31.

  Lemma parse_request_bytes :
    parse_request (connection_bytes true ctl sid fr frags trail)
    = finish_request (decode_then dt_new (concat frags) stream_empty).
  Proof.
    unfold parse_request, connection_bytes, stream_start. rewrite strip_prefix_app.
    rewrite (all_parsed ctl trail sid fr frags Hctl Htrail Hfr Hsid).
    pose proof (all_frames_nonempty ctl trail sid fr frags Hfr Hsid) as Hne.
    pose proof (primary_is_sid ctl trail sid fr frags Hctl Hfr Hsid) as Hprim.
    pose proof (build_stream_block ctl trail sid fr frags Hctl Htrail Hfr Hsid) as Hbs.
    destruct (map snd (ctl ++ map (fun f => (fr_rsv fr, f)) (frames_of sid fr frags) ++ trail)) as [|f0 fs] eqn:E;
      [congruence|].
    rewrite Hprim, Hbs. reflexivity.
  Qed.

  Lemma parse_response_bytes :
    parse_response (connection_bytes false ctl sid fr frags trail)
    = finish_response (decode_then dt_new (concat frags) stream_empty).
  Proof.
    unfold parse_response, connection_bytes, stream_start. cbn [app].
    rewrite (all_parsed ctl trail sid fr frags Hctl Htrail Hfr Hsid).
    pose proof (all_frames_nonempty ctl trail sid fr frags Hfr Hsid) as Hne.
    pose proof (primary_is_sid ctl trail sid fr frags Hctl Hfr Hsid) as Hprim.
    pose proof (build_stream_block ctl trail sid fr frags Hctl Htrail Hfr Hsid) as Hbs.
    destruct (map snd (ctl ++ map (fun f => (fr_rsv fr, f)) (frames_of sid fr frags) ++ trail)) as [|f0 fs] eqn:E;
      [congruence|].
    rewrite Hprim, Hbs. reflexivity.
  Qed.

  (* ---- C16_framing: the decoder is handed exactly the block, for every framing ---- *)
  Theorem framing_request :
    parse_request (connection_bytes true ctl sid fr frags trail)
    = finish_request (match hpack_decode dt_new (concat frags) with
                      | DOk hs _ => BOk (absorb stream_empty (to_http_headers hs 0))
                      | DErr => BErr | DPanic => BPanic | DFuel => BErr end).
  Proof. exact parse_request_bytes. Qed.

  Variable items : list item.
  Hypothesis Hblock : concat frags = hpack_encode items.
  Hypothesis Hitems : items_ok items = true.
  Hypothesis H15 : k_static15 items = false.

  Lemma decode_block :
    decode_then dt_new (concat frags) stream_empty
    = BOk (absorb stream_empty (to_http_headers (headers_of items) 0)).
  Proof.
    unfold decode_then. rewrite Hblock.
    destruct (hpack_roundtrip items Hitems H15) as (t & ->). reflexivity.
  Qed.

  Theorem request_theorem :
    wf_request (headers_of items) = true ->
    exists v, spec_request (headers_of items) = Some v /\
              analyse_request (connection_bytes true ctl sid fr frags trail) = POk v.
  Proof.
    intros Hwf. destruct (request_fields _ Hwf) as (v & Hs & Hv).
    exists v. split; [exact Hs|]. unfold analyse_request. now rewrite parse_request_bytes, decode_block.
  Qed.

  Theorem response_theorem :
    wf_response (headers_of items) = true ->
    exists w, spec_response (headers_of items) = Some w /\
              analyse_response (connection_bytes false ctl sid fr frags trail) = POk w.
  Proof.
    intros Hwf. destruct (response_fields _ Hwf) as (w & Hs & Hw).
    exists w. split; [exact Hs|]. unfold analyse_response. now rewrite parse_response_bytes, decode_block.
  Qed.
End Bytes.

Corollary request_statement :
  forall (ctl trail : list (bool * frame)) (sid : N) (fr : framing) (frags : list bytes) (items : list item),
    forallb (ctl_ok sid) ctl = true -> forallb (trail_ok sid) trail = true ->
    framing_ok fr frags = true -> 0 < sid /\ sid < 2 ^ 31 ->
    concat frags = hpack_encode items -> items_ok items = true -> k_static15 items = false ->
    wf_request (headers_of items) = true ->
    exists v, spec_request (headers_of items) = Some v /\
              analyse_request (connection_bytes true ctl sid fr frags trail) = POk v.
Proof. intros. eapply request_theorem; eassumption. Qed.

Corollary response_statement :
  forall (ctl trail : list (bool * frame)) (sid : N) (fr : framing) (frags : list bytes) (items : list item),
    forallb (ctl_ok sid) ctl = true -> forallb (trail_ok sid) trail = true ->
    framing_ok fr frags = true -> 0 < sid /\ sid < 2 ^ 31 ->
    concat frags = hpack_encode items -> items_ok items = true -> k_static15 items = false ->
    wf_response (headers_of items) = true ->
    exists w, spec_response (headers_of items) = Some w /\
              analyse_response (connection_bytes false ctl sid fr frags trail) = POk w.
Proof. intros. eapply response_theorem; eassumption. Qed.

(* ================= witnesses ================= *)
Definition hx (s : bs_lit) : bytes := match read_hex (bs s) with Some b => b | None => [] end.
Arguments hx _%bs.
Definition plain_framing : framing :=
  {| fr_pad := None; fr_prio := None; fr_extra_h := 0; fr_extra_c := 0; fr_rsv := false |}.

(* K1 (k_static15): accept-charset: utf-8 with the name taken from static index 15 *)
Definition w_15_items : list item :=
  [IIndexed 2 (bs ":method") (bs "GET"); IIndexed 4 (bs ":path") (bs "/");
   ILitIdx MWithout 15 (bs "accept-charset") (bs "utf-8") false].

Definition one_frame_request (items : list item) : bytes :=
  connection_bytes true [] 1 plain_framing [hpack_encode items] [].

Lemma Known_static15_refuted :
  exists items,
    items_ok items = true /\ wf_request (headers_of items) = true /\ k_static15 items = true /\
    exists v, spec_request (headers_of items) = Some v /\ analyse_request (one_frame_request items) <> POk v.
Proof.
  exists w_15_items. repeat split; try (vm_compute; reflexivity).
  eexists. split; [vm_compute; reflexivity|]. vm_compute. discriminate.
Qed.

(* a non-trivial instance of the hypotheses of the request theorem: SETTINGS + WINDOW_UPDATE first,
   stream 3, PADDED + PRIORITY HEADERS frame carrying the first 7 octets, the rest in two CONTINUATION
   frames; size update, Huffman strings, incremental indexing and a dynamic-table reference *)
Definition ex_items : list item :=
  [ISize 256; IIndexed 2 (bs ":method") (bs "GET"); IIndexed 7 (bs ":scheme") (bs "https");
   ILitIdx MIncr 4 (bs ":path") (bs "/search?q=1") true;
   ILitIdx MNever 1 (bs ":authority") (bs "a.example") false;
   ILitNew MIncr (bs "x-custom") (bs "1") true true; IIndexed 62 (bs "x-custom") (bs "1");
   ILitIdx MWithout 32 (bs "cookie") (bs "a=b; c=d") true;
   ILitIdx MWithout 17 (bs "accept-language") (bs "de, en;q=0.5") false].
Definition ex_ctl : list (bool * frame) :=
  [(false, {| f_type := 4; f_flags := 0; f_stream := 0; f_payload := hx "000300000064" |});
   (true, {| f_type := 8; f_flags := 0; f_stream := 0; f_payload := hx "00ef0001" |})].
Definition ex_framing : framing :=
  {| fr_pad := Some (hx "000000"); fr_prio := Some (hx "80000000ff"); fr_extra_h := 1; fr_extra_c := 0; fr_rsv := false |}.
Definition ex_frags : list bytes :=
  let b := hpack_encode ex_items in [firstn 7 b; firstn 1 (skipn 7 b); skipn 8 b].
