(* Proofs for C16, part 3: from the decoded header list to the reported fields.  On RFC-conformant
   header lists (Spec.H2Spec.wf_request / wf_response) the model of parse_request / parse_response and
   of the observation equals the specification's report. *)
From Coq Require Import List NArith ZArith Bool Lia ZifyBool ZifyN Arith.
From Coq Require Import Strings.Byte.
From HN Require Import Base.Bytes Model.H2Text Model.H2Frames Model.Hpack Model.H2Msg
     Spec.H2Wire Spec.H2Spec Gen.H2Lists.
Import ListNotations.
Open Scope N_scope.

(* ================= text ================= *)
Definition ascii7 (b : byte) : bool := b2n b <? 128.

Lemma lossy_ascii l : forallb ascii7 l = true -> lossy l = l.
Proof.
  induction l as [|a r IH]; [reflexivity|]. cbn [forallb]. intros H. apply andb_true_iff in H.
  destruct H as [Ha Hr]. unfold ascii7 in Ha. cbn [lossy]. rewrite Ha. now rewrite IH.
Qed.

Lemma name_char_props b : name_char b = true -> b2n b < 127 /\ in_rng b 65 90 = false /\ b2n b <> 58.
Proof.
  unfold name_char, in_rng. cbv zeta. rewrite !andb_true_iff, !negb_true_iff. intros H. repeat split; lia.
Qed.

Lemma lower_byte_id b : name_char b = true -> lower_byte b = b.
Proof. intros H. apply name_char_props in H. destruct H as (_ & H & _). unfold lower_byte. now rewrite H. Qed.

Lemma lower_cmp_id n : forallb name_char n = true -> lower_cmp n = n.
Proof.
  induction n as [|a t IH]; [reflexivity|]. cbn [forallb]. intros H. apply andb_true_iff in H.
  destruct H as [Ha Ht]. specialize (IH Ht).
  pose proof (name_char_props a Ha) as (Hlt & _ & _).
  assert (Hk : in_rng a 226 226 = false) by (unfold in_rng; lia).
  destruct t as [|b [|c r]]; cbn [lower_cmp]; rewrite ?Hk; cbn [andb]; rewrite lower_byte_id by exact Ha; f_equal; exact IH.
Qed.

Lemma ascii_lower_id n : forallb name_char n = true -> ascii_lower n = n.
Proof.
  induction n as [|a t IH]; [reflexivity|]. cbn [forallb]. intros H. apply andb_true_iff in H.
  destruct H as [Ha Ht]. cbn [ascii_lower map]. rewrite lower_byte_id by exact Ha. f_equal. now apply IH.
Qed.

Lemma name_char_ascii n : forallb name_char n = true -> forallb ascii7 n = true.
Proof.
  intros H. rewrite forallb_forall in *. intros b Hb. apply H in Hb. apply name_char_props in Hb. unfold ascii7. lia.
Qed.
Lemma value_char_ascii v : forallb value_char v = true -> forallb ascii7 v = true.
Proof.
  intros H. rewrite forallb_forall in *. intros b Hb. apply H in Hb. unfold value_char, ascii7 in *. cbv zeta in Hb. lia.
Qed.

(* ---- trim on visible-ASCII text is OWS stripping ---- *)
Lemma ws_prefix_value l : forallb value_char l = true ->
  ws_prefix_len l = match l with a :: _ => if is_ows a then 1%nat else 0%nat | [] => 0%nat end.
Proof.
  destruct l as [|a r]; [reflexivity|]. cbn [forallb]. intros H. apply andb_true_iff in H. destruct H as [Ha Hr].
  unfold value_char in Ha. cbv zeta in Ha. unfold ws_prefix_len, is_ows, in_rng.
  destruct ((9 <=? b2n a) && (b2n a <=? 13) || (32 <=? b2n a) && (b2n a <=? 32)) eqn:E.
  - replace ((b2n a =? 32) || (b2n a =? 9)) with true by lia. reflexivity.
  - replace ((b2n a =? 32) || (b2n a =? 9)) with false by lia.
    destruct r as [|b r2]; [reflexivity|].
    replace ((194 <=? b2n a) && (b2n a <=? 194)) with false by lia. cbn [andb].
    destruct r2 as [|c r3]; [reflexivity|].
    replace ((225 <=? b2n a) && (b2n a <=? 225)) with false by lia.
    replace ((226 <=? b2n a) && (b2n a <=? 226)) with false by lia.
    replace ((227 <=? b2n a) && (b2n a <=? 227)) with false by lia. reflexivity.
Qed.

Lemma drop_ows_value l : forallb value_char l = true -> forallb value_char (drop_ows l) = true.
Proof.
  induction l as [|a r IH]; [reflexivity|]. intros H. cbn [drop_ows]. destruct (is_ows a); [|exact H].
  cbn [forallb] in H. apply andb_true_iff in H. now apply IH.
Qed.

Lemma trim_start_fuel_value fuel : forall l, forallb value_char l = true -> (length l <= fuel)%nat ->
  trim_start_fuel fuel l = drop_ows l.
Proof.
  induction fuel as [|f IH]; intros l Hv Hl.
  - destruct l; [reflexivity|cbn [length] in Hl; lia].
  - cbn [trim_start_fuel]. rewrite ws_prefix_value by exact Hv.
    destruct l as [|a r]; [reflexivity|]. cbn [drop_ows]. destruct (is_ows a) eqn:E; [|reflexivity].
    cbn [skipn]. cbn [forallb] in Hv. apply andb_true_iff in Hv. apply IH; [tauto|cbn [length] in Hl; lia].
Qed.
Lemma trim_start_value l : forallb value_char l = true -> trim_start l = drop_ows l.
Proof. intros H. apply trim_start_fuel_value; [exact H|lia]. Qed.

Lemma ws_suffix_value rl : forallb value_char rl = true ->
  ws_suffix_len rl = match rl with a :: _ => if is_ows a then 1%nat else 0%nat | [] => 0%nat end.
Proof.
  destruct rl as [|a r]; [reflexivity|]. cbn [forallb]. intros H. apply andb_true_iff in H. destruct H as [Ha Hr].
  unfold value_char in Ha. cbv zeta in Ha. unfold ws_suffix_len, is_ows, in_rng.
  destruct ((9 <=? b2n a) && (b2n a <=? 13) || (32 <=? b2n a) && (b2n a <=? 32)) eqn:E.
  - replace ((b2n a =? 32) || (b2n a =? 9)) with true by lia. reflexivity.
  - replace ((b2n a =? 32) || (b2n a =? 9)) with false by lia.
    destruct r as [|b r2]; [reflexivity|].
    cbn [forallb] in Hr. apply andb_true_iff in Hr. destruct Hr as [Hb Hr2].
    unfold value_char in Hb. cbv zeta in Hb.
    replace ((194 <=? b2n b) && (b2n b <=? 194)) with false by lia. cbn [andb].
    destruct r2 as [|c r3]; [reflexivity|].
    cbn [forallb] in Hr2. apply andb_true_iff in Hr2. destruct Hr2 as [Hc _].
    unfold value_char in Hc. cbv zeta in Hc.
    replace ((225 <=? b2n c) && (b2n c <=? 225)) with false by lia.
    replace ((226 <=? b2n c) && (b2n c <=? 226)) with false by lia.
    replace ((227 <=? b2n c) && (b2n c <=? 227)) with false by lia. reflexivity.
Qed.

Lemma trim_end_fuel_value fuel : forall rl, forallb value_char rl = true -> (length rl <= fuel)%nat ->
  trim_end_fuel fuel rl = drop_ows rl.
Proof.
  induction fuel as [|f IH]; intros l Hv Hl.
  - destruct l; [reflexivity|cbn [length] in Hl; lia].
  - cbn [trim_end_fuel]. rewrite ws_suffix_value by exact Hv.
    destruct l as [|a r]; [reflexivity|]. cbn [drop_ows]. destruct (is_ows a) eqn:E; [|reflexivity].
    cbn [skipn]. cbn [forallb] in Hv. apply andb_true_iff in Hv. apply IH; [tauto|cbn [length] in Hl; lia].
Qed.

Lemma forallb_rev {A} (p : A -> bool) l : forallb p (rev l) = forallb p l.
Proof.
  induction l as [|x l IH]; [reflexivity|]. cbn [rev forallb]. rewrite forallb_app, IH. cbn [forallb]. 
  rewrite andb_true_r. apply andb_comm.
Qed.

Lemma trim_value l : forallb value_char l = true -> trim l = strip_ows l /\ forallb value_char (trim l) = true.
Proof.
  intros H. unfold trim, strip_ows. rewrite trim_start_value by exact H.
  pose proof (drop_ows_value l H) as H1. unfold trim_end.
  rewrite trim_end_fuel_value; [|now rewrite forallb_rev|rewrite rev_length; lia].
  split; [reflexivity|]. rewrite forallb_rev. apply drop_ows_value. now rewrite forallb_rev.
Qed.

(* ================= cookies ================= *)
Lemma find_byte_forall (P : byte -> bool) c : forall l x y,
  find_byte c l = Some (x, y) -> forallb P l = true -> forallb P x = true /\ forallb P y = true.
Proof.
  induction l as [|b r IH]; intros x y H Hl; [discriminate|].
  cbn [find_byte] in H. cbn [forallb] in Hl. apply andb_true_iff in Hl. destruct Hl as [Hb Hr].
  destruct (beqb b c).
  - inversion H; subst. split; [reflexivity|exact Hr].
  - destruct (find_byte c r) as [[x' y']|] eqn:E; [|discriminate]. inversion H; subst.
    destruct (IH _ _ eq_refl Hr) as [H1 H2]. split; [cbn [forallb]; now rewrite Hb, H1|exact H2].
Qed.

Lemma split_on_aux_forall (P : byte -> bool) sep : forall l cur,
  forallb P l = true -> forallb P cur = true ->
  Forall (fun p => forallb P p = true) (split_on_aux sep l cur).
Proof.
  induction l as [|b r IH]; intros cur Hl Hc; cbn [split_on_aux].
  - constructor; [now rewrite forallb_rev|constructor].
  - cbn [forallb] in Hl. apply andb_true_iff in Hl. destruct Hl as [Hb Hr].
    destruct (beqb b sep).
    + constructor; [now rewrite forallb_rev|]. now apply IH.
    + apply IH; [exact Hr|]. cbn [forallb]. now rewrite Hb, Hc.
Qed.
Lemma split_on_forall (P : byte -> bool) sep l :
  forallb P l = true -> Forall (fun p => forallb P p = true) (split_on sep l).
Proof. intros H. now apply split_on_aux_forall. Qed.

Lemma number_cookies_app a : forall b pos,
  number_cookies (a ++ b) pos = number_cookies a pos ++ number_cookies b (pos + N.of_nat (length a)).
Proof.
  induction a as [|[n v] a IH]; intros b pos.
  - cbn [app number_cookies length]. now rewrite N.add_0_r.
  - cbn [app number_cookies length]. rewrite IH. do 3 f_equal. lia.
Qed.
Lemma opt_list_app {A} (a b : list (option A)) : opt_list (a ++ b) = opt_list a ++ opt_list b.
Proof. induction a as [|[x|] a IH]; cbn [app opt_list]; [reflexivity|now rewrite IH|exact IH]. Qed.

Definition pieces_cookies (pieces : list bytes) : list (bytes * option bytes) := opt_list (map cookie_of_piece pieces).

Lemma pieces_cookies_cons piece r :
  pieces_cookies (piece :: r) = match cookie_of_piece piece with Some x => x :: pieces_cookies r | None => pieces_cookies r end.
Proof. reflexivity. Qed.

Lemma cookies_of_pieces_spec pieces : forall pos,
  Forall (fun p => forallb value_char p = true) pieces ->
  cookies_of_pieces pieces pos
  = (number_cookies (pieces_cookies pieces) pos, pos + N.of_nat (length (pieces_cookies pieces))).
Proof.
  induction pieces as [|piece r IH]; intros pos Hall.
  - cbn. now rewrite N.add_0_r.
  - inversion Hall as [|? ? Hp Hr]; subst.
    destruct (trim_value piece Hp) as [Etrim Hcs].
    cbn [cookies_of_pieces]. rewrite pieces_cookies_cons. unfold cookie_of_piece.
    rewrite Etrim in *. destruct (strip_ows piece) as [|x cs'] eqn:Ecs.
    + now apply IH.
    + rewrite (IH (pos + 1) Hr).
      unfold equals. destruct (find_byte "=" (x :: cs')) as [[before after]|] eqn:Ef.
      * destruct (find_byte_forall value_char _ _ _ _ Ef Hcs) as [Hb Ha].
        destruct (trim_value before Hb) as [-> _]. destruct (trim_value after Ha) as [-> _].
        cbn [number_cookies length]. f_equal. lia.
      * cbn [number_cookies length]. f_equal. lia.
Qed.

Definition cookie_values (hs : list header) : list bytes :=
  map snd (filter (fun h => negb (match snd h with [] => true | _ => false end)) hs).

Lemma parse_cookies_spec (cl : list (N * header)) : forall pos,
  Forall (fun ph => forallb value_char (snd (snd ph)) = true) cl ->
  parse_cookies (map as_hhdr cl) pos
  = number_cookies (opt_list (flat_map (fun h => map cookie_of_piece (split_on ";"%byte (snd h)))
                                       (filter (fun h => negb (match snd h with [] => true | _ => false end)) (map snd cl)))) pos.
Proof.
  induction cl as [|[p [n v]] r IH]; intros pos Hall; [reflexivity|].
  inversion Hall as [|? ? Hv Hr]; subst. cbn [snd] in Hv.
  cbn [map parse_cookies as_hhdr h_value snd fst filter].
  destruct v as [|b v'].
  - cbn [nonempty negb]. now apply IH.
  - cbn [nonempty negb flat_map snd]. unfold semicolon.
    rewrite cookies_of_pieces_spec by (apply split_on_forall; exact Hv).
    rewrite opt_list_app, number_cookies_app. f_equal. now apply IH.
Qed.

(* ================= HPACK list -> HttpHeader list ================= *)
Definition hdr_ascii (h : header) : bool := forallb ascii7 (fst h) && forallb ascii7 (snd h).

Lemma to_http_headers_ascii hs : forall pos,
  forallb hdr_ascii hs = true -> to_http_headers hs pos = map as_hhdr (number_from hs pos).
Proof.
  induction hs as [|[n v] r IH]; intros pos H; [reflexivity|].
  cbn [forallb] in H. apply andb_true_iff in H. destruct H as [Hh Hr].
  unfold hdr_ascii in Hh. cbn [fst snd] in Hh. apply andb_true_iff in Hh. destruct Hh as [Hn Hv].
  cbn [to_http_headers number_from map]. rewrite (lossy_ascii n Hn), (lossy_ascii v Hv), IH by exact Hr.
  reflexivity.
Qed.

(* ================= absorb: pseudo-header lifting ================= *)
Definition five (n : bytes) : bool :=
  bytes_eqb n (bs ":method") || bytes_eqb n (bs ":path") || bytes_eqb n (bs ":authority")
  || bytes_eqb n (bs ":scheme") || bytes_eqb n (bs ":status").
Definition pick (n : bytes) (l : list (N * header)) (dflt : option bytes) : option bytes :=
  match value_of n (map snd l) with Some v => Some v | None => dflt end.
Definition pick_status (l : list (N * header)) (dflt : option N) : option N :=
  match value_of (bs ":status") (map snd l) with
  | Some v => match nonempty v with Some v' => parse_u16 v' | None => None end
  | None => dflt
  end.
Definition absorb_result (l : list (N * header)) (s : stream) : stream :=
  {| s_headers := s_headers s ++ map as_hhdr (filter (fun ph => negb (five (fst (snd ph)))) l);
     s_method := pick (bs ":method") l (s_method s); s_path := pick (bs ":path") l (s_path s);
     s_authority := pick (bs ":authority") l (s_authority s); s_scheme := pick (bs ":scheme") l (s_scheme s);
     s_status := pick_status l (s_status s) |}.

Definition unique5 (hs : list header) : bool :=
  at_most_one (bs ":method") hs && at_most_one (bs ":path") hs && at_most_one (bs ":authority") hs
  && at_most_one (bs ":scheme") hs && at_most_one (bs ":status") hs.

Lemma unwrap_nonempty v : unwrap_or_default (nonempty v) = v.
Proof. destruct v; reflexivity. Qed.

Lemma count_cons_hit n h r : name_is n h = true -> count_of n (h :: r) = S (count_of n r).
Proof. intros H. unfold count_of. cbn [filter]. now rewrite H. Qed.
Lemma count_cons_miss n h r : name_is n h = false -> count_of n (h :: r) = count_of n r.
Proof. intros H. unfold count_of. cbn [filter]. now rewrite H. Qed.
Lemma count0_value n hs : count_of n hs = 0%nat -> value_of n hs = None.
Proof.
  unfold count_of, value_of. induction hs as [|h r IH]; [reflexivity|].
  cbn [filter find]. destruct (name_is n h); [discriminate|exact IH].
Qed.

Lemma value_of_hit n h r : name_is n h = true -> value_of n (h :: r) = Some (snd h).
Proof. intros H. unfold value_of. cbn [find]. now rewrite H. Qed.
Lemma value_of_miss n h r : name_is n h = false -> value_of n (h :: r) = value_of n r.
Proof. intros H. unfold value_of. cbn [find]. now rewrite H. Qed.

Lemma at_most_one_tail n h r : at_most_one n (h :: r) = true -> at_most_one n r = true.
Proof.
  unfold at_most_one. destruct (name_is n h) eqn:E.
  - rewrite count_cons_hit by exact E. intros H. apply Nat.leb_le in H. apply Nat.leb_le. lia.
  - now rewrite count_cons_miss by exact E.
Qed.
Lemma at_most_one_hit n h r : at_most_one n (h :: r) = true -> name_is n h = true -> value_of n r = None.
Proof.
  unfold at_most_one. intros H E. rewrite count_cons_hit in H by exact E. apply Nat.leb_le in H.
  apply count0_value. lia.
Qed.

Lemma unique5_tail h r : unique5 (h :: r) = true -> unique5 r = true.
Proof.
  unfold unique5. rewrite !andb_true_iff. intros [[[[H1 H2] H3] H4] H5].
  repeat split; eapply at_most_one_tail; eassumption.
Qed.

Ltac vo := repeat first [ rewrite value_of_hit by reflexivity | rewrite value_of_miss by reflexivity ].

Ltac name_cases n :=
  destruct (bytes_eqb n (bs ":method")) eqn:Em;
  [apply bytes_eqb_eq in Em; subst n|
   destruct (bytes_eqb n (bs ":path")) eqn:Ep;
   [apply bytes_eqb_eq in Ep; subst n|
    destruct (bytes_eqb n (bs ":authority")) eqn:Ea;
    [apply bytes_eqb_eq in Ea; subst n|
     destruct (bytes_eqb n (bs ":scheme")) eqn:Es;
     [apply bytes_eqb_eq in Es; subst n|
      destruct (bytes_eqb n (bs ":status")) eqn:Et;
      [apply bytes_eqb_eq in Et; subst n|]]]]].

Lemma absorb_cons s h r : absorb s (h :: r) = absorb (absorb1 s h) r.
Proof. reflexivity. Qed.

Lemma absorb_spec l : forall s,
  unique5 (map snd l) = true -> absorb s (map as_hhdr l) = absorb_result l s.
Proof.
  induction l as [|[p [n v]] r IH]; intros s Hu.
  - unfold absorb, absorb_result, pick, pick_status. cbn. rewrite app_nil_r. destruct s; reflexivity.
  - cbn [map]. rewrite absorb_cons.
    rewrite IH by (eapply unique5_tail; exact Hu).
    cbn [map snd] in Hu. unfold unique5 in Hu. rewrite !andb_true_iff in Hu.
    destruct Hu as [[[[U1 U2] U3] U4] U5].
    unfold absorb1, as_hhdr. cbn [h_name h_value fst snd].
    unfold absorb_result, pick, pick_status. cbn [map snd filter fst].
    name_cases n.
    + rewrite (at_most_one_hit _ _ _ U1) by reflexivity. vo. cbn [s_headers s_method s_path s_authority s_scheme s_status snd five negb].
      now rewrite unwrap_nonempty.
    + rewrite (at_most_one_hit _ _ _ U2) by reflexivity. vo. cbn [s_headers s_method s_path s_authority s_scheme s_status snd five negb].
      now rewrite unwrap_nonempty.
    + rewrite (at_most_one_hit _ _ _ U3) by reflexivity. vo. cbn [s_headers s_method s_path s_authority s_scheme s_status snd five negb].
      now rewrite unwrap_nonempty.
    + rewrite (at_most_one_hit _ _ _ U4) by reflexivity. vo. cbn [s_headers s_method s_path s_authority s_scheme s_status snd five negb].
      now rewrite unwrap_nonempty.
    + rewrite (at_most_one_hit _ _ _ U5) by reflexivity. vo. cbn [s_headers s_method s_path s_authority s_scheme s_status snd five negb].
      reflexivity.
    + assert (F : five n = false) by (unfold five; now rewrite Em, Ep, Ea, Es, Et).
      rewrite F. cbn [negb map].
      rewrite !value_of_miss by (unfold name_is; cbn [fst]; assumption).
      cbn [s_headers s_method s_path s_authority s_scheme s_status]. unfold as_hhdr. cbn [fst snd].
      now rewrite <- app_assoc.
Qed.

(* ================= numbering / filtering helpers ================= *)
Lemma map_snd_number hs : forall pos, map snd (number_from hs pos) = hs.
Proof. induction hs as [|h r IH]; intros pos; [reflexivity|]. cbn [number_from map snd]. now rewrite IH. Qed.

Lemma map_snd_filter {A B} (P : B -> bool) (l : list (A * B)) :
  map snd (filter (fun ph => P (snd ph)) l) = filter P (map snd l).
Proof.
  induction l as [|[a b] r IH]; [reflexivity|]. cbn [filter map snd]. destruct (P b); cbn [map snd]; now rewrite IH.
Qed.

Lemma count_filter_le n (P : header -> bool) hs : (count_of n (filter P hs) <= count_of n hs)%nat.
Proof.
  unfold count_of. induction hs as [|h r IH]; [cbn; lia|].
  cbn [filter]. destruct (P h); cbn [filter]; destruct (name_is n h); cbn [length]; lia.
Qed.
Lemma at_most_one_filter n P hs : at_most_one n hs = true -> at_most_one n (filter P hs) = true.
Proof.
  unfold at_most_one. intros H. apply Nat.leb_le in H. apply Nat.leb_le. pose proof (count_filter_le n P hs). lia.
Qed.

Lemma value_of_filter_keep n (P : header -> bool) hs :
  (forall h, name_is n h = true -> P h = true) -> value_of n (filter P hs) = value_of n hs.
Proof.
  intros HP. unfold value_of. induction hs as [|h r IH]; [reflexivity|].
  cbn [filter find]. destruct (name_is n h) eqn:E.
  - rewrite (HP h E). cbn [find]. now rewrite E.
  - destruct (P h); cbn [find]; rewrite ?E; exact IH.
Qed.

Lemma as_hhdr_name ph : h_name (as_hhdr ph) = fst (snd ph).
Proof. reflexivity. Qed.

(* ================= split_headers ================= *)
Definition is_cookie (ph : N * header) : bool := name_is (bs "cookie") (snd ph).
Definition is_referer (ph : N * header) : bool := name_is (bs "referer") (snd ph).
Definition is_plain (ph : N * header) : bool := negb (is_cookie ph) && negb (is_referer ph).

Fixpoint last_referer (l : list (N * header)) (rf : option bytes) : option bytes :=
  match l with
  | [] => rf
  | ph :: r => if is_cookie ph then last_referer r rf
               else if is_referer ph then last_referer r (match nonempty (snd (snd ph)) with Some v => Some v | None => rf end)
               else last_referer r rf
  end.

Definition names_ok (l : list (N * header)) : Prop :=
  Forall (fun ph => forallb name_char (fst (snd ph)) = true) l.

Lemma split_headers_spec l : forall rf, names_ok l ->
  split_headers (map as_hhdr l) rf
  = (map as_hhdr (filter is_plain l), map as_hhdr (filter is_cookie l), last_referer l rf).
Proof.
  induction l as [|ph r IH]; intros rf Hn; [reflexivity|].
  inversion Hn as [|? ? Hh Hr]; subst.
  cbn [map split_headers filter last_referer].
  assert (E : lower_cmp (h_name (as_hhdr ph)) = h_name (as_hhdr ph)) by (apply lower_cmp_id; exact Hh).
  rewrite E.
  change (is_plain ph) with (negb (bytes_eqb (h_name (as_hhdr ph)) (bs "cookie")) && negb (bytes_eqb (h_name (as_hhdr ph)) (bs "referer"))).
  change (is_cookie ph) with (bytes_eqb (h_name (as_hhdr ph)) (bs "cookie")).
  change (is_referer ph) with (bytes_eqb (h_name (as_hhdr ph)) (bs "referer")).
  change (nonempty (snd (snd ph))) with (h_value (as_hhdr ph)).
  destruct (bytes_eqb (h_name (as_hhdr ph)) (bs "cookie")) eqn:Ec.
  - cbn [negb andb]. rewrite (IH rf Hr). reflexivity.
  - destruct (bytes_eqb (h_name (as_hhdr ph)) (bs "referer")) eqn:Er.
    + cbn [negb andb]. rewrite (IH _ Hr). reflexivity.
    + cbn [negb andb]. rewrite (IH rf Hr). reflexivity.
Qed.

Lemma last_referer_none l : forall rf, value_of (bs "referer") (map snd l) = None -> last_referer l rf = rf.
Proof.
  induction l as [|[p h] r IH]; intros rf H; [reflexivity|].
  cbn [map snd] in H. cbn [last_referer]. unfold is_cookie, is_referer. cbn [snd].
  destruct (name_is (bs "referer") h) eqn:E.
  - rewrite value_of_hit in H by exact E. discriminate.
  - rewrite value_of_miss in H by exact E. destruct (name_is (bs "cookie") h); now apply IH.
Qed.

Lemma last_referer_unique l : forall rf,
  at_most_one (bs "referer") (map snd l) = true ->
  last_referer l rf = match value_of (bs "referer") (map snd l) with
                      | Some v => match nonempty v with Some v' => Some v' | None => rf end
                      | None => rf end.
Proof.
  induction l as [|[p [n v]] r IH]; intros rf H; [reflexivity|].
  cbn [map snd] in *. cbn [last_referer]. unfold is_cookie, is_referer, name_is. cbn [snd fst].
  destruct (bytes_eqb n (bs "referer")) eqn:E.
  - assert (Hc : bytes_eqb n (bs "cookie") = false).
    { apply bytes_eqb_eq in E. subst n. reflexivity. }
    rewrite Hc. rewrite value_of_hit by (unfold name_is; cbn [fst]; exact E).
    cbn [snd]. apply last_referer_none. eapply at_most_one_hit; [exact H|unfold name_is; cbn [fst]; exact E].
  - rewrite value_of_miss by (unfold name_is; cbn [fst]; exact E).
    pose proof (at_most_one_tail _ _ _ H) as Ht.
    destruct (bytes_eqb n (bs "cookie")); now apply IH.
Qed.

(* ================= map_get (HashMap with lowercased keys, last insertion wins) ================= *)
Lemma map_get_fold key l : forall acc, names_ok l ->
  at_most_one key (map snd l) = true ->
  fold_left (fun acc h => match h_value h with
                          | Some v => if bytes_eqb (lower_cmp (h_name h)) key then Some v else acc
                          | None => acc end) (map as_hhdr l) acc
  = match value_of key (map snd l) with
    | Some v => match nonempty v with Some v' => Some v' | None => acc end
    | None => acc end.
Proof.
  induction l as [|[p [n v]] r IH]; intros acc Hn Hu; [reflexivity|].
  inversion Hn as [|? ? Hh Hr]; subst. cbn [snd fst] in Hh.
  cbn [map snd] in *. cbn [fold_left as_hhdr h_value h_name fst snd]. rewrite (lower_cmp_id n Hh).
  pose proof (at_most_one_tail _ _ _ Hu) as Ht.
  destruct (bytes_eqb n key) eqn:E.
  - rewrite value_of_hit by (unfold name_is; cbn [fst]; exact E). cbn [snd].
    rewrite IH by assumption.
    rewrite (at_most_one_hit _ _ _ Hu) by (unfold name_is; cbn [fst]; exact E).
    destruct v; reflexivity.
  - rewrite value_of_miss by (unfold name_is; cbn [fst]; exact E).
    rewrite <- IH by assumption. destruct (nonempty v); reflexivity.
Qed.

Lemma map_get_spec key l : names_ok l -> at_most_one key (map snd l) = true ->
  map_get key (map as_hhdr l)
  = match value_of key (map snd l) with Some v => nonempty v | None => None end.
Proof.
  intros Hn Hu. unfold map_get. rewrite map_get_fold by assumption.
  destruct (value_of key (map snd l)) as [v|]; [destruct (nonempty v)|]; reflexivity.
Qed.

(* ================= signature ================= *)
Lemma list_contains_ci l x : list_contains l x = true -> ci_in x l = true.
Proof.
  unfold list_contains, ci_in. rewrite !existsb_exists. intros (y & Hin & Hy).
  apply bytes_eqb_eq in Hy. subst y. exists x. split; [exact Hin|apply bytes_eqb_refl].
Qed.

Lemma common_lists_lower :
  forallb (fun c => bytes_eqb (lower_cmp c) (ascii_lower c)) (request_common_headers ++ response_common_headers) = true.
Proof. vm_compute. reflexivity. Qed.


Section Signature.
  Variable is_request : bool.
  Let optional := if is_request then request_optional_headers else response_optional_headers.
  Let skip := if is_request then request_skip_value_headers else response_skip_value_headers.
  Let common := if is_request then request_common_headers else response_common_headers.

  Lemma horder_eq l : names_ok l ->
    map show_sig_header (headers_in_order is_request (map as_hhdr l))
    = map (sig_item optional skip) (map as_hhdr l).
  Proof.
    intros Hn. unfold headers_in_order. fold optional skip. rewrite map_map.
    apply map_ext_in. intros h Hin. apply in_map_iff in Hin. destruct Hin as (ph & <- & Hin).
    unfold names_ok in Hn. rewrite Forall_forall in Hn. specialize (Hn ph Hin).
    assert (El : lower_cmp (h_name (as_hhdr ph)) = h_name (as_hhdr ph)) by (apply lower_cmp_id; exact Hn).
    rewrite El.
    change (list_any_ci optional (h_name (as_hhdr ph))) with (ci_in (h_name (as_hhdr ph)) optional).
    change (list_any_ci skip (h_name (as_hhdr ph))) with (ci_in (h_name (as_hhdr ph)) skip).
    unfold sig_item, show_sig_header.
    destruct (ci_in (h_name (as_hhdr ph)) optional).
    - cbn [sh_optional sh_name sh_value]. now rewrite app_nil_r.
    - destruct (ci_in (h_name (as_hhdr ph)) skip); cbn [sh_optional sh_name sh_value app].
      + apply app_nil_r.
      + destruct (h_value (as_hhdr ph)); [reflexivity|apply app_nil_r].
  Qed.

  Lemma habsent_eq l : names_ok l ->
    map show_sig_header (headers_absent is_request (map as_hhdr l))
    = filter (fun c => negb (ci_in c (map h_name (map as_hhdr l)))) common.
  Proof.
    intros Hn. unfold headers_absent. fold common. rewrite map_map.
    assert (Hid : forall c, show_sig_header {| sh_optional := false; sh_name := c; sh_value := None |} = c).
    { intros c. unfold show_sig_header. cbn. apply app_nil_r. }
    rewrite (map_ext _ (fun c => c)) by (intros c; apply Hid). rewrite map_id.
    apply filter_ext_in. intros c Hc. f_equal.
    assert (Hlow : lower_cmp c = ascii_lower c).
    { pose proof common_lists_lower as A. rewrite forallb_forall in A. apply bytes_eqb_eq. apply A.
      apply in_or_app. unfold common in Hc. destruct is_request; auto. }
    rewrite Hlow. unfold list_contains, ci_in. rewrite !map_map.
    induction l as [|ph r IH]; [reflexivity|].
    inversion Hn as [|? ? Hh Hr]; subst. cbn [map existsb].
    assert (E1 : lower_cmp (h_name (as_hhdr ph)) = h_name (as_hhdr ph)) by (apply lower_cmp_id; exact Hh).
    assert (E2 : ascii_lower (h_name (as_hhdr ph)) = h_name (as_hhdr ph)) by (apply ascii_lower_id; exact Hh).
    rewrite E1, E2. f_equal. now apply IH.
  Qed.

  Lemma signature_eq l sw : names_ok l ->
    show_signature (headers_in_order is_request (map as_hhdr l)) (headers_absent is_request (map as_hhdr l))
                   (traffic_classification sw)
    = spec_signature is_request (map as_hhdr l) sw.
  Proof.
    intros Hn. unfold show_signature, spec_signature. fold optional skip common.
    rewrite horder_eq, habsent_eq by assumption. unfold traffic_classification. reflexivity.
  Qed.
End Signature.

(* ================= the request ================= *)
Definition nonpseudo (ph : N * header) : bool := negb (is_pseudo_name (fst (snd ph))).

Lemma request_pseudo_props n : request_pseudo n = true ->
  forallb ascii7 n = true /\ five n = true /\ is_pseudo_name n = true /\ name_is (bs ":status") (n, []) = false.
Proof.
  unfold request_pseudo. rewrite !orb_true_iff. intros [[[H | H] | H] | H]; apply bytes_eqb_eq in H; subst n;
    repeat split; reflexivity.
Qed.

Lemma five_pseudo n : five n = true -> is_pseudo_name n = true.
Proof.
  unfold five. rewrite !orb_true_iff. intros [[[[H | H] | H] | H] | H]; apply bytes_eqb_eq in H; subst n; reflexivity.
Qed.

Lemma name_char_not_pseudo n : n <> [] -> forallb name_char n = true -> is_pseudo_name n = false.
Proof.
  destruct n as [|b r]; [congruence|]. intros _ H. cbn [forallb] in H. apply andb_true_iff in H.
  destruct H as [Hb _]. apply name_char_props in Hb. unfold is_pseudo_name. lia.
Qed.

Lemma existsb_false_in {A} (f : A -> bool) l x : existsb f l = false -> In x l -> f x = false.
Proof.
  intros H Hin. destruct (f x) eqn:E; [|reflexivity].
  assert (existsb f l = true) by (apply existsb_exists; eauto). congruence.
Qed.

Lemma in_number_from hs : forall pos ph, In ph (number_from hs pos) -> In (snd ph) hs.
Proof.
  induction hs as [|h r IH]; intros pos ph Hin; [destruct Hin|].
  cbn [number_from] in Hin. destruct Hin as [<- | Hin]; [left; reflexivity|right; eapply IH; exact Hin].
Qed.

Lemma count_zero n hs : (forall h, In h hs -> name_is n h = false) -> count_of n hs = 0%nat.
Proof.
  intros H. unfold count_of. induction hs as [|h r IH]; [reflexivity|].
  cbn [filter]. rewrite (H h (or_introl eq_refl)). apply IH. intros x Hx. apply H. now right.
Qed.

Lemma if_true_cases (c a b : bool) : (if c then a else b) = true -> (c = true /\ a = true) \/ (c = false /\ b = true).
Proof. destruct c; auto. Qed.

Lemma req_view_eq a b c d e f g h i j a' b' c' d' e' f' g' h' i' j' :
  a = a' -> b = b' -> c = c' -> d = d' -> e = e' -> f = f' -> g = g' -> h = h' -> i = i' -> j = j' ->
  Build_req_view a b c d e f g h i j = Build_req_view a' b' c' d' e' f' g' h' i' j'.
Proof. intros; subst; reflexivity. Qed.

Theorem request_fields hs :
  wf_request hs = true ->
  exists v, spec_request hs = Some v /\
            pres_map observe_request (finish_request (BOk (absorb stream_empty (to_http_headers hs 0)))) = POk v.
Proof.
  intros Hwf. unfold wf_request in Hwf. rewrite !andb_true_iff in Hwf.
  destruct Hwf as [[[[[[[Hpf Hall] Um] Up] Ua] Us] Hsing] Hmp].
  unfold singletons in Hsing. rewrite !andb_true_iff in Hsing. destruct Hsing as [[[Sua Sal] Sref] _].
  rewrite forallb_forall in Hall.
  unfold header, bytes in *.
  set (l := number_from hs 0).
  assert (Hsnd : map snd l = hs) by apply map_snd_number.
  (* every header is ASCII *)
  assert (Hascii : forallb hdr_ascii hs = true).
  { apply forallb_forall. intros h Hin. specialize (Hall h Hin). unfold hdr_ascii.
    destruct (if_true_cases _ _ _ Hall) as [[Ep Hq] | [Ep Hq]].
    - apply andb_true_iff in Hq. destruct Hq as [Hq Hv].
      destruct (request_pseudo_props _ Hq) as (Ha & _). apply andb_true_iff. split; [exact Ha|now apply value_char_ascii].
    - unfold regular_ok in Hq. rewrite !andb_true_iff in Hq. destruct Hq as [[_ Hn] Hv].
      apply andb_true_iff. split; [now apply name_char_ascii|now apply value_char_ascii]. }
  rewrite (to_http_headers_ascii hs 0 Hascii). fold l.
  (* no :status among request headers *)
  assert (Ust : at_most_one (bs ":status") hs = true).
  { unfold at_most_one. rewrite count_zero; [reflexivity|]. intros h Hin. specialize (Hall h Hin).
    destruct (if_true_cases _ _ _ Hall) as [[Ep Hq] | [Ep Hq]].
    - apply andb_true_iff in Hq. destruct Hq as [Hq _].
      destruct (request_pseudo_props _ Hq) as (_ & _ & _ & Hs). exact Hs.
    - unfold name_is. destruct (bytes_eqb (fst h) (bs ":status")) eqn:E; [|reflexivity].
      apply bytes_eqb_eq in E. change (is_pseudo_name (fst h) = false) in Ep. rewrite E in Ep. discriminate. }
  rewrite absorb_spec by (rewrite Hsnd; unfold unique5; now rewrite Um, Up, Ua, Us, Ust).
  unfold absorb_result, pick. rewrite Hsnd. cbn [s_headers s_method s_path s_authority s_scheme stream_empty app].
  (* regular headers *)
  assert (Hreg : filter (fun ph => negb (five (fst (snd ph)))) l = filter nonpseudo l).
  { apply filter_ext_in. intros ph Hin. unfold nonpseudo. f_equal.
    apply in_number_from in Hin. specialize (Hall _ Hin).
    destruct (if_true_cases _ _ _ Hall) as [[Ep Hq] | [Ep Hq]].
    - apply andb_true_iff in Hq. destruct Hq as [Hq _]. destruct (request_pseudo_props _ Hq) as (_ & F & _).
      transitivity true; [exact F|symmetry; exact Ep].
    - assert (F : five (fst (snd ph)) = false).
      { destruct (five (fst (snd ph))) eqn:F; [|reflexivity]. apply five_pseudo in F.
        pose proof (eq_trans (eq_sym F) Ep) as Hc. discriminate Hc. }
      transitivity false; [exact F|symmetry; exact Ep]. }
  rewrite Hreg. set (regular := filter nonpseudo l).
  assert (Hreg_in : forall ph, In ph regular -> In (snd ph) hs /\ regular_ok (snd ph) = true).
  { intros ph Hin. apply filter_In in Hin. destruct Hin as [Hin Hnp]. apply in_number_from in Hin.
    split; [exact Hin|]. specialize (Hall _ Hin). unfold nonpseudo in Hnp. apply negb_true_iff in Hnp.
    destruct (if_true_cases _ _ _ Hall) as [[Ep Hq] | [Ep Hq]]; [|exact Hq].
    pose proof (eq_trans (eq_sym Ep) Hnp) as Hc. discriminate Hc. }
  assert (Hnames : names_ok regular).
  { apply Forall_forall. intros ph Hin. destruct (Hreg_in ph Hin) as [_ Hr]. unfold regular_ok in Hr.
    rewrite !andb_true_iff in Hr. tauto. }
  destruct (value_of (bs ":method") hs) as [m|] eqn:Em; [|discriminate].
  destruct (value_of (bs ":path") hs) as [p|] eqn:Epath; [|destruct m; discriminate].
  unfold spec_request. rewrite Em, Epath. fold l. fold nonpseudo.
  change (filter (fun ph : N * header => negb (is_pseudo_name (fst (snd ph)))) l) with regular.
  change (filter (fun ph : N * header => negb (name_is (bs "cookie") (snd ph)) && negb (name_is (bs "referer") (snd ph))) regular)
    with (filter is_plain regular).
  set (plain := filter is_plain regular).
  eexists. split; [reflexivity|].
  cbn [finish_request s_method s_path s_headers s_authority s_scheme].
  rewrite (split_headers_spec regular None Hnames).
  cbn [pres_map]. unfold observe_request. cbn [q_method q_path q_authority q_scheme q_headers q_cookies q_referer].
  assert (Hsnd_reg : map snd regular = filter (fun h => negb (is_pseudo_name (fst h))) hs).
  { rewrite <- Hsnd at 1. exact (map_snd_filter (fun h => negb (is_pseudo_name (fst h))) l). }
  assert (Hsnd_plain : map snd plain = filter (fun h => negb (name_is (bs "cookie") h) && negb (name_is (bs "referer") h)) (map snd regular)).
  { exact (map_snd_filter (fun h => negb (name_is (bs "cookie") h) && negb (name_is (bs "referer") h)) regular). }
  assert (Hnames_plain : names_ok plain).
  { apply Forall_forall. intros ph Hin. apply filter_In in Hin. destruct Hin as [Hin _].
    unfold names_ok in Hnames. rewrite Forall_forall in Hnames. now apply Hnames. }
  assert (Hua : map_get (bs "user-agent") (map as_hhdr plain)
                = match value_of (bs "user-agent") (map snd plain) with Some v => nonempty v | None => None end).
  { apply map_get_spec; [exact Hnames_plain|]. rewrite Hsnd_plain, Hsnd_reg. now do 2 apply at_most_one_filter. }
  assert (Hal : map_get (bs "accept-language") (map as_hhdr plain)
                = match value_of (bs "accept-language") (map snd plain) with Some v => nonempty v | None => None end).
  { apply map_get_spec; [exact Hnames_plain|]. rewrite Hsnd_plain, Hsnd_reg. now do 2 apply at_most_one_filter. }
  (* cookies *)
  assert (Hck : parse_cookies (map as_hhdr (filter is_cookie regular)) 0 = spec_cookies (map snd regular)).
  { rewrite parse_cookies_spec.
    - unfold spec_cookies. do 4 f_equal.
      exact (map_snd_filter (fun h => name_is (bs "cookie") h) regular).
    - apply Forall_forall. intros ph Hin. apply filter_In in Hin. destruct Hin as [Hin _].
      destruct (Hreg_in ph Hin) as [_ Hr]. unfold regular_ok in Hr. rewrite !andb_true_iff in Hr. tauto. }
  (* referer *)
  assert (Href : last_referer regular None
                 = match value_of (bs "referer") (map snd regular) with Some v => nonempty v | None => None end).
  { rewrite last_referer_unique by (rewrite Hsnd_reg; now apply at_most_one_filter).
    destruct (value_of (bs "referer") (map snd regular)) as [v|]; [destruct (nonempty v)|]; reflexivity. }
  (* signature *)
  assert (Hsig : show_signature (headers_in_order true (map as_hhdr plain)) (headers_absent true (map as_hhdr plain))
                                (traffic_classification (map_get (bs "user-agent") (map as_hhdr plain)))
                 = spec_signature true (map as_hhdr plain)
                     (match value_of (bs "user-agent") (map snd plain) with Some v => nonempty v | None => None end)).
  { rewrite Hua. apply (signature_eq true plain _ Hnames_plain). }
  apply f_equal. apply req_view_eq; try reflexivity.
  - destruct (value_of (bs ":authority") hs); reflexivity.
  - destruct (value_of (bs ":scheme") hs); reflexivity.
  - exact Hck.
  - exact Href.
  - exact Hua.
  - exact Hal.
  - exact Hsig.
Qed.

(* ================= the response ================= *)
Lemma resp_view_eq a b c a' b' c' : a = a' -> b = b' -> c = c' -> Build_resp_view a b c = Build_resp_view a' b' c'.
Proof. intros; subst; reflexivity. Qed.

Lemma status_parse v st : status_value v = Some st -> nonempty v = Some v /\ parse_u16 v = Some st.
Proof.
  unfold status_value. destruct v as [|a [|b [|c [|d r]]]]; try discriminate.
  destruct (all_digits [a; b; c]) eqn:E; [|discriminate]. intros H. inversion H; subst.
  split; [reflexivity|]. unfold parse_u16.
  unfold all_digits in E. cbn [forallb] in E. rewrite !andb_true_iff in E. destruct E as (Ha & Hb & Hc & _).
  unfold is_digit in *.
  replace (b2n a =? 43) with false by lia.
  unfold all_digits. cbn [forallb]. unfold is_digit.
  replace ((48 <=? b2n a) && (b2n a <=? 57)) with true by lia.
  replace ((48 <=? b2n b) && (b2n b <=? 57)) with true by lia.
  replace ((48 <=? b2n c) && (b2n c <=? 57)) with true by lia. cbn [andb].
  unfold read_N_digits. cbn [fold_left]. unfold digit_val.
  match goal with |- context [?x <=? 65535] => replace (x <=? 65535) with true by lia end.
  reflexivity.
Qed.

Theorem response_fields hs :
  wf_response hs = true ->
  exists w, spec_response hs = Some w /\
            pres_map observe_response (finish_response (BOk (absorb stream_empty (to_http_headers hs 0)))) = POk w.
Proof.
  intros Hwf. unfold wf_response in Hwf. rewrite !andb_true_iff in Hwf.
  destruct Hwf as [[[[Hpf Hall] Ust] Hsing] Hsv].
  unfold singletons in Hsing. rewrite !andb_true_iff in Hsing. destruct Hsing as [_ Sserver].
  rewrite forallb_forall in Hall.
  unfold header, bytes in *.
  set (l := number_from hs 0).
  assert (Hsnd : map snd l = hs) by apply map_snd_number.
  assert (Hpseudo : forall h, In h hs -> is_pseudo_name (fst h) = true ->
                              fst h = bs ":status" /\ forallb value_char (snd h) = true).
  { intros h Hin Hp. specialize (Hall h Hin).
    destruct (if_true_cases _ _ _ Hall) as [[Ep Hq] | [Ep Hq]].
    - apply andb_true_iff in Hq. destruct Hq as [Hq Hv]. apply bytes_eqb_eq in Hq. auto.
    - pose proof (eq_trans (eq_sym Ep) Hp) as Hc. discriminate Hc. }
  assert (Hregular : forall h, In h hs -> is_pseudo_name (fst h) = false -> regular_ok h = true).
  { intros h Hin Hp. specialize (Hall h Hin).
    destruct (if_true_cases _ _ _ Hall) as [[Ep Hq] | [Ep Hq]]; [|exact Hq].
    pose proof (eq_trans (eq_sym Ep) Hp) as Hc. discriminate Hc. }
  assert (Hascii : forallb hdr_ascii hs = true).
  { apply forallb_forall. intros h Hin. unfold hdr_ascii. apply andb_true_iff.
    destruct (is_pseudo_name (fst h)) eqn:Ep.
    - destruct (Hpseudo h Hin Ep) as [En Hv].
      assert (X : forallb ascii7 (fst h) = true) by (transitivity (forallb ascii7 (bs ":status")); [apply f_equal; exact En|reflexivity]).
      split; [exact X|now apply value_char_ascii].
    - pose proof (Hregular h Hin Ep) as Hr. unfold regular_ok in Hr. rewrite !andb_true_iff in Hr.
      destruct Hr as [[_ Hn] Hv]. split; [now apply name_char_ascii|now apply value_char_ascii]. }
  rewrite (to_http_headers_ascii hs 0 Hascii). fold l.
  assert (Hnone : forall n, five n = true -> n <> bs ":status" -> at_most_one n hs = true).
  { intros n F Hne. unfold at_most_one. rewrite count_zero; [reflexivity|]. intros h Hin.
    unfold name_is. destruct (bytes_eqb (fst h) n) eqn:E; [|reflexivity]. apply bytes_eqb_eq in E.
    assert (Hp : is_pseudo_name (fst h) = true) by (transitivity (is_pseudo_name n); [apply f_equal; exact E|now apply five_pseudo]).
    destruct (Hpseudo h Hin Hp) as [En _]. exfalso. apply Hne. transitivity (fst h); [symmetry; exact E|exact En]. }
  rewrite absorb_spec.
  2:{ rewrite Hsnd. unfold unique5. rewrite !Hnone by (try reflexivity; discriminate). now rewrite Ust. }
  unfold absorb_result, pick_status. rewrite Hsnd. cbn [s_headers s_status stream_empty app finish_response].
  assert (Hreg : filter (fun ph => negb (five (fst (snd ph)))) l = filter nonpseudo l).
  { apply filter_ext_in. intros ph Hin. unfold nonpseudo. f_equal. apply in_number_from in Hin.
    destruct (is_pseudo_name (fst (snd ph))) eqn:Ep.
    - destruct (Hpseudo _ Hin Ep) as [En _].
      assert (X : five (fst (snd ph)) = true) by (transitivity (five (bs ":status")); [apply f_equal; exact En|reflexivity]).
      transitivity true; [exact X|reflexivity].
    - assert (F : five (fst (snd ph)) = false).
      { destruct (five (fst (snd ph))) eqn:F; [|reflexivity]. apply five_pseudo in F.
        pose proof (eq_trans (eq_sym F) Ep) as Hc. discriminate Hc. }
      transitivity false; [exact F|reflexivity]. }
  rewrite Hreg. set (regular := filter nonpseudo l).
  assert (Hreg_in : forall ph, In ph regular -> In (snd ph) hs /\ regular_ok (snd ph) = true).
  { intros ph Hin. apply filter_In in Hin. destruct Hin as [Hin Hnp]. apply in_number_from in Hin.
    split; [exact Hin|]. unfold nonpseudo in Hnp. apply negb_true_iff in Hnp. now apply Hregular. }
  assert (Hnames : names_ok regular).
  { apply Forall_forall. intros ph Hin. destruct (Hreg_in ph Hin) as [_ Hr]. unfold regular_ok in Hr.
    rewrite !andb_true_iff in Hr. tauto. }
  destruct (value_of (bs ":status") hs) as [sv|] eqn:Es; [|discriminate].
  destruct (status_value sv) as [st|] eqn:Est; [|discriminate].
  destruct (status_parse sv st Est) as [Hne Hparse]. rewrite Hne, Hparse.
  unfold spec_response. rewrite Es, Est.
  eexists. split; [reflexivity|].
  cbn [pres_map]. unfold observe_response. cbn [r_status r_headers].
  assert (Hsnd_reg : map snd regular = filter (fun h => negb (is_pseudo_name (fst h))) hs).
  { rewrite <- Hsnd at 1. exact (map_snd_filter (fun h => negb (is_pseudo_name (fst h))) l). }
  assert (Hserver : map_get (bs "server") (map as_hhdr regular)
                    = match value_of (bs "server") (map snd regular) with Some v => nonempty v | None => None end).
  { apply map_get_spec; [exact Hnames|]. rewrite Hsnd_reg. now apply at_most_one_filter. }
  assert (Hsig : show_signature (headers_in_order false (map as_hhdr regular)) (headers_absent false (map as_hhdr regular))
                                (traffic_classification (map_get (bs "server") (map as_hhdr regular)))
                 = spec_signature false (map as_hhdr regular)
                     (match value_of (bs "server") (map snd regular) with Some v => nonempty v | None => None end)).
  { rewrite Hserver. apply (signature_eq false regular _ Hnames). }
  apply f_equal. apply resp_view_eq; try reflexivity. exact Hsig.
Qed.
