(* Proofs for C04, part 2: the signature extracted from the parsed extension list and the JA4
   strings built from it equal the FoxIO specification on every well-formed hello outside the
   known classes; sorting lemmas; invariance corollaries. *)
From Coq Require Import List NArith ZArith Bool Lia ZifyBool ZifyN ZifyNat Arith Permutation Sorted Morphisms.
From Coq Require Import Strings.Byte.
From HN Require Import Base.Bytes Model.TlsHello Model.Ja4 Spec.Ja4Spec Proofs.TlsWireProofs.
Import ListNotations.
Open Scope N_scope.

(* ---------- GREASE ---------- *)
Lemma grease_eq v : is_grease_value v = grease v.
Proof. reflexivity. Qed.
Lemma filter_grease_eq l : filter_grease_values l = non_grease l.
Proof. reflexivity. Qed.
Lemma non_grease_idem l : non_grease (non_grease l) = non_grease l.
Proof.
  unfold non_grease. induction l as [|x l IH]; [reflexivity|]. cbn [filter].
  destruct (negb (grease x)) eqn:E; [|exact IH]. cbn [filter]. rewrite E. now rewrite IH.
Qed.
Lemma grease_mask_of_grease t : grease t = true -> grease_mask t = true.
Proof.
  unfold grease, grease_values. intros H. apply existsb_exists in H as [k [Hin Hk]].
  apply N.eqb_eq in Hk. subst k. cbn [In] in Hin.
  repeat (destruct Hin as [<-|Hin]; [vm_compute; reflexivity|]). contradiction.
Qed.

(* ---------- the loop over the parsed extensions ---------- *)
Fixpoint last_sel {A} (sel : ext_item -> option A) (l : list (N * ext_item)) : option A :=
  match l with
  | [] => None
  | e :: r => match last_sel sel r with Some v => Some v | None => sel (snd e) end
  end.

Lemma fold_field {A} (p : ext_state -> A) (sel : ext_item -> option A) :
  (forall st e, p (ext_step st e) = match sel (snd e) with Some v => v | None => p st end) ->
  forall l st, p (fold_left ext_step l st) = match last_sel sel l with Some v => v | None => p st end.
Proof.
  intros H. induction l as [|e r IH]; intros st; [reflexivity|].
  cbn [fold_left last_sel]. rewrite IH. destruct (last_sel sel r); [reflexivity | apply H].
Qed.

Lemma fold_extensions l : forall st,
  e_extensions (fold_left ext_step l st) = e_extensions st ++ filter_grease_values (map fst l).
Proof.
  induction l as [|e r IH]; intros st; [cbn; now rewrite app_nil_r|].
  cbn [fold_left map]. rewrite IH. unfold filter_grease_values at 2. cbn [filter].
  assert (S : e_extensions (ext_step st e) = e_extensions st ++ (if is_grease_value (fst e) then [] else [fst e])).
  { unfold ext_step. destruct (snd e); destruct (is_grease_value (fst e)); cbn [e_extensions]; now rewrite ?app_nil_r. }
  rewrite S. destruct (is_grease_value (fst e)); cbn [negb]; rewrite <- app_assoc; reflexivity.
Qed.

Definition sel_sni (it : ext_item) : option (option bytes) :=
  match it with ExtSni ((_, host) :: _) => Some (from_utf8 host) | _ => None end.
Definition sel_alpn (it : ext_item) : option (option bytes) :=
  match it with ExtAlpn (p :: _) => Some (from_utf8 p) | _ => None end.
Definition sel_sig (it : ext_item) : option (list N) := match it with ExtSigAlgs l => Some l | _ => None end.
Definition sel_groups (it : ext_item) : option (list N) := match it with ExtGroups l => Some l | _ => None end.
Definition sel_versions (it : ext_item) : option (list N) := match it with ExtVersions l => Some l | _ => None end.
Definition sel_formats (it : ext_item) : option bytes := match it with ExtPointFormats f => Some f | _ => None end.

Lemma step_sni st e : e_sni (ext_step st e) = match sel_sni (snd e) with Some v => v | None => e_sni st end.
Proof. destruct e as [t it]. destruct it as [[|[ty h] n]| | | | | |]; reflexivity. Qed.
Lemma step_alpn st e : e_alpn (ext_step st e) = match sel_alpn (snd e) with Some v => v | None => e_alpn st end.
Proof. destruct e as [t it]. destruct it as [|[|p ps]| | | | |]; reflexivity. Qed.
Lemma step_sig st e : e_sigalgs (ext_step st e) = match sel_sig (snd e) with Some v => v | None => e_sigalgs st end.
Proof. destruct e as [t it]. destruct it; reflexivity. Qed.
Lemma step_groups st e : e_curves (ext_step st e) = match sel_groups (snd e) with Some v => v | None => e_curves st end.
Proof. destruct e as [t it]. destruct it; reflexivity. Qed.
Lemma step_versions st e : e_versions (ext_step st e) = match sel_versions (snd e) with Some v => v | None => e_versions st end.
Proof. destruct e as [t it]. destruct it; reflexivity. Qed.
Lemma step_formats st e : e_formats (ext_step st e) = match sel_formats (snd e) with Some v => v | None => e_formats st end.
Proof. destruct e as [t it]. destruct it; reflexivity. Qed.

(* ---------- from the parsed list back to the abstract hello ---------- *)
Definition kind_type (it : ext_item) : option N :=
  match it with
  | ExtSni _ => Some 0 | ExtAlpn _ => Some 16 | ExtSigAlgs _ => Some 13 | ExtGroups _ => Some 10
  | ExtVersions _ => Some 43 | ExtPointFormats _ => Some 11 | ExtOther => None
  end.

Lemma view_kind e t : ext_wf e = true -> kind_type (snd (view e)) = Some t -> fst e = t.
Proof.
  destruct e as [t' b]. unfold view, ext_wf. cbn [fst snd]. intros W K.
  destruct (grease_mask t'); [discriminate|]. cbn [snd] in K.
  apply andb_prop in W as [_ W].
  destruct b; cbn [item_of kind_type] in K; try discriminate; injection K as <-;
    repeat (apply andb_prop in W as [W ?]); now apply N.eqb_eq in W.
Qed.

Lemma count_type_cons t x l : count_type t (x :: l) = (if t =? x then 1 else 0) + count_type t l.
Proof. unfold count_type. cbn [filter]. destruct (t =? x); unfold len; cbn [length]; lia. Qed.

Lemma last_sel_none {A} (sel : ext_item -> option A) l :
  (forall e, In e l -> sel (snd e) = None) -> last_sel sel l = None.
Proof.
  induction l as [|e r IH]; intros H; [reflexivity|]. cbn [last_sel].
  rewrite IH by (intros; apply H; now right). apply H. now left.
Qed.

Lemma last_sel_view {A} (sel : ext_item -> option A) t exts :
  grease_mask t = false ->
  count_type t (map fst exts) <= 1 ->
  (forall e, In e exts -> sel (snd (view e)) <> None -> fst e = t) ->
  last_sel sel (map view exts) = match find_body t exts with Some b => sel (item_of b) | None => None end.
Proof.
  intros M. induction exts as [|[t' b] r IH]; intros C H; [reflexivity|].
  cbn [map last_sel find_body]. cbn [map fst] in C. rewrite count_type_cons in C.
  destruct (t' =? t) eqn:E.
  - apply N.eqb_eq in E. subst t'. rewrite N.eqb_refl in C.
    assert (Z : count_type t (map fst r) = 0) by lia.
    rewrite last_sel_none.
    + unfold view. cbn [fst snd]. rewrite M. reflexivity.
    + intros e He. apply in_map_iff in He as [e0 [<- He0]].
      destruct (sel (snd (view e0))) eqn:S; [|reflexivity]. exfalso.
      assert (fst e0 = t) by (apply H; [now right | congruence]).
      unfold count_type in Z. assert (In t (filter (N.eqb t) (map fst r))).
      { apply filter_In. split; [apply in_map_iff; now exists e0 | apply N.eqb_refl]. }
      destruct (filter (N.eqb t) (map fst r)); [contradiction | unfold len in Z; cbn [length] in Z; lia].
  - rewrite N.eqb_sym in E. rewrite E in C.
    rewrite IH; [ | lia | intros e He; apply H; now right ].
    assert (S : sel (snd (view (t', b))) = None).
    { destruct (sel (snd (view (t', b)))) eqn:S; [|reflexivity]. exfalso.
      assert (fst (t', b) = t) by (apply H; [now left | congruence]). cbn [fst] in H0. subst. rewrite N.eqb_refl in E. discriminate. }
    rewrite S. destruct (find_body t r) as [b0|]; [destruct (sel (item_of b0))|]; reflexivity.
Qed.

Section Hello.
Variable h : hello.
Hypothesis W : wf h = true.

Let P := wf_split h W.

Lemma exts_wf e : In e (h_exts h) -> ext_wf e = true.
Proof. intros He. pose proof (wp_exts h P) as F. rewrite forallb_forall in F. now apply F. Qed.

Lemma unique_t t : In t [0; 16; 43; 13; 10; 11] -> count_type t (map fst (h_exts h)) <= 1.
Proof.
  intros Ht. pose proof (wp_uniq h P) as U. unfold unique_structured in U. rewrite forallb_forall in U.
  specialize (U t Ht). unfold ext_types in U. lia.
Qed.

Lemma sel_to_find {A} (sel : ext_item -> option A) t :
  In t [0; 16; 43; 13; 10; 11] ->
  (forall it, sel it <> None -> kind_type it = Some t) ->
  last_sel sel (map view (h_exts h)) = match find_body t (h_exts h) with Some b => sel (item_of b) | None => None end.
Proof.
  intros Ht K. apply last_sel_view.
  - cbn [In] in Ht. repeat (destruct Ht as [<-|Ht]; [vm_compute; reflexivity|]). contradiction.
  - now apply unique_t.
  - intros e He S. apply view_kind; [now apply exts_wf | now apply K].
Qed.

Definition st_h := fold_left ext_step (map view (h_exts h)) ext_state0.

(* what find_body returns has the kind its type demands *)
Lemma find_body_in t b : find_body t (h_exts h) = Some b -> In (t, b) (h_exts h).
Proof.
  induction (h_exts h) as [|[t' b'] r IH]; cbn [find_body]; [discriminate|].
  destruct (t' =? t) eqn:E; intros H.
  - injection H as <-. apply N.eqb_eq in E. subst. now left.
  - right. now apply IH.
Qed.
Lemma find_body_wf t b : find_body t (h_exts h) = Some b -> ext_wf (t, b) = true.
Proof. intros H. apply exts_wf. now apply find_body_in. Qed.

Ltac wf_kind H :=
  let F := fresh "F" in
  pose proof (find_body_wf _ _ H) as F; unfold ext_wf in F; cbn [fst snd] in F;
  apply andb_prop in F as [_ F].

Lemma sigalgs_eq : e_sigalgs st_h = sig_algs h.
Proof.
  unfold st_h. rewrite (fold_field e_sigalgs sel_sig step_sig).
  rewrite (sel_to_find sel_sig 13) by (cbn; tauto || (intros [] ?; cbn in *; congruence)).
  unfold sig_algs. destruct (find_body 13 (h_exts h)) as [b|] eqn:F; [|reflexivity].
  destruct b; reflexivity.
Qed.
Lemma groups_eq : e_curves st_h = groups h.
Proof.
  unfold st_h. rewrite (fold_field e_curves sel_groups step_groups).
  rewrite (sel_to_find sel_groups 10) by (cbn; tauto || (intros [] ?; cbn in *; congruence)).
  unfold groups. destruct (find_body 10 (h_exts h)) as [b|] eqn:F; [|reflexivity].
  destruct b; reflexivity.
Qed.
Lemma formats_eq : e_formats st_h = point_formats h.
Proof.
  unfold st_h. rewrite (fold_field e_formats sel_formats step_formats).
  rewrite (sel_to_find sel_formats 11) by (cbn; tauto || (intros [] ?; cbn in *; congruence)).
  unfold point_formats. destruct (find_body 11 (h_exts h)) as [b|] eqn:F; [|reflexivity].
  destruct b; reflexivity.
Qed.
Lemma versions_eq : e_versions st_h = match supported_versions h with Some vs => vs | None => [] end.
Proof.
  unfold st_h. rewrite (fold_field e_versions sel_versions step_versions).
  rewrite (sel_to_find sel_versions 43) by (cbn; tauto || (intros [] ?; cbn in *; congruence)).
  unfold supported_versions. destruct (find_body 43 (h_exts h)) as [b|] eqn:F; [|reflexivity].
  destruct b; reflexivity.
Qed.

Lemma ascii_utf8 l : ascii l = true -> utf8_valid l = true.
Proof.
  induction l as [|b l IH]; [reflexivity|]. unfold ascii. cbn [forallb utf8_valid]. intros H.
  apply andb_prop in H as [H1 H2]. rewrite H1. now apply IH.
Qed.

Lemma sni_eq : e_sni st_h = first_server_name h.
Proof.
  unfold st_h. rewrite (fold_field e_sni sel_sni step_sni).
  rewrite (sel_to_find sel_sni 0) by (cbn; tauto || (intros [[|[? ?] ?]| | | | | |] ?; cbn in *; congruence)).
  unfold first_server_name. destruct (find_body 0 (h_exts h)) as [b|] eqn:F; [|reflexivity].
  destruct b as [[|[ty host] names]| | | | | |]; try reflexivity.
  cbn [item_of sel_sni]. pose proof (find_body_wf _ _ F) as FW. unfold ext_wf in FW. cbn [fst snd] in FW.
  apply andb_prop in FW as [_ FW]. apply andb_prop in FW as [_ FW].
  unfold from_utf8. now rewrite ascii_utf8.
Qed.
Lemma alpn_eq : e_alpn st_h = match first_alpn h with Some p => from_utf8 p | None => None end.
Proof.
  unfold st_h. rewrite (fold_field e_alpn sel_alpn step_alpn).
  rewrite (sel_to_find sel_alpn 16) by (cbn; tauto || (intros [|[|? ?]| | | | |] ?; cbn in *; congruence)).
  unfold first_alpn. destruct (find_body 16 (h_exts h)) as [b|] eqn:F; [|reflexivity].
  destruct b as [|[|p ps]| | | | |]; reflexivity.
Qed.

Lemma fst_view e : fst (view e) = fst e.
Proof. unfold view. destruct (grease_mask (fst e)); reflexivity. Qed.

Lemma extensions_eq : e_extensions st_h = non_grease (ext_types h).
Proof.
  unfold st_h. rewrite fold_extensions. cbn [e_extensions ext_state0 app]. rewrite filter_grease_eq.
  unfold ext_types. rewrite map_map. f_equal. apply map_ext. apply fst_view.
Qed.

(* the version the code assigns *)
Definition model_version : tls_version :=
  match list_max (non_grease (match supported_versions h with Some vs => vs | None => [] end)) with
  | Some v => tls_version_from_code v
  | None => determine_tls_version (h_version h) []
  end.

(* normal form of the extracted signature *)
Lemma sig_of_eq :
  sig_of h = {| s_version := model_version;
                s_cipher_suites := non_grease (h_ciphers h);
                s_extensions := non_grease (ext_types h);
                s_elliptic_curves := groups h;
                s_point_formats := point_formats h;
                s_signature_algorithms := sig_algs h;
                s_sni := first_server_name h;
                s_alpn := match first_alpn h with Some p => from_utf8 p | None => None end |}.
Proof.
  unfold sig_of, signature_of. fold st_h. unfold model_version.
  rewrite versions_eq, extensions_eq, groups_eq, formats_eq, sigalgs_eq, sni_eq, alpn_eq, !filter_grease_eq.
  reflexivity.
Qed.
End Hello.

(* ---------- sorting ---------- *)
Definition leR (x y : N) : Prop := is_true (N.leb x y).
Lemma leR_trans : RelationClasses.Transitive leR.
Proof. intros x y z. unfold leR, is_true. rewrite !N.leb_le. lia. Qed.

Lemma insert_perm x l : Permutation (x :: l) (insert_sorted x l).
Proof.
  induction l as [|y r IH]; [reflexivity|]. cbn [insert_sorted]. destruct (x <=? y); [reflexivity|].
  rewrite perm_swap. now apply perm_skip.
Qed.
Lemma sort_N_perm l : Permutation l (sort_N l).
Proof.
  unfold sort_N. induction l as [|x l IH]; [reflexivity|]. cbn [fold_right].
  rewrite <- insert_perm. now apply perm_skip.
Qed.
Lemma insert_ssorted x l : StronglySorted leR l -> StronglySorted leR (insert_sorted x l).
Proof.
  induction 1 as [|y r S IH F]; cbn [insert_sorted].
  - constructor; constructor.
  - destruct (x <=? y) eqn:E.
    + constructor; [now constructor|]. constructor; [exact E|].
      eapply Forall_impl; [|exact F]. intros a Ha. unfold leR, is_true in *. rewrite N.leb_le in *. lia.
    + constructor; [exact IH|].
      eapply Permutation_Forall; [apply insert_perm|]. constructor; [|exact F].
      unfold leR, is_true. rewrite N.leb_le. lia.
Qed.
Lemma sort_N_ssorted l : StronglySorted leR (sort_N l).
Proof.
  unfold sort_N. induction l as [|x l IH]; [constructor|]. cbn [fold_right]. now apply insert_ssorted.
Qed.

Lemma ssorted_perm_eq l1 : forall l2,
  StronglySorted leR l1 -> StronglySorted leR l2 -> Permutation l1 l2 -> l1 = l2.
Proof.
  induction l1 as [|x r1 IH]; intros l2 S1 S2 Pm.
  - apply Permutation_nil in Pm. now subst.
  - destruct l2 as [|y r2]; [apply Permutation_sym, Permutation_nil in Pm; discriminate|].
    inversion S1 as [|? ? S1' F1]; subst. inversion S2 as [|? ? S2' F2]; subst.
    assert (x = y).
    { assert (I1 : In y (x :: r1)) by (eapply Permutation_in; [apply Permutation_sym; exact Pm | now left]).
      assert (I2 : In x (y :: r2)) by (eapply Permutation_in; [exact Pm | now left]).
      rewrite Forall_forall in F1, F2. unfold leR, is_true in F1, F2.
      destruct I1 as [->|I1]; [reflexivity|]. destruct I2 as [->|I2]; [reflexivity|].
      specialize (F1 y I1). specialize (F2 x I2). rewrite N.leb_le in *. lia. }
    subst y. f_equal. apply IH; [exact S1' | exact S2' | now apply Permutation_cons_inv in Pm].
Qed.

(* the sort used by the specification (library merge sort) and the model's insertion sort agree *)
Lemma sort_eq l : sort_N l = sorted l.
Proof.
  apply ssorted_perm_eq.
  - apply sort_N_ssorted.
  - apply NSort.StronglySorted_sort. exact leR_trans.
  - rewrite <- sort_N_perm. apply NSort.Permuted_sort.
Qed.
Lemma sorted_perm l l' : Permutation l l' -> sorted l = sorted l'.
Proof.
  intros Pm. apply ssorted_perm_eq.
  - apply NSort.StronglySorted_sort. exact leR_trans.
  - apply NSort.StronglySorted_sort. exact leR_trans.
  - rewrite <- (NSort.Permuted_sort l), <- (NSort.Permuted_sort l'). exact Pm.
Qed.

(* ---------- text lemmas ---------- *)
Lemma csv_same l : Ja4.csv l = Ja4Spec.csv l.
Proof. reflexivity. Qed.
Lemma hex4_shape x : exists a b c d, Ja4Spec.hex4 x = [a; b; c; d].
Proof. unfold Ja4Spec.hex4. cbn [be_bytes show_hex]. do 4 eexists. reflexivity. Qed.
Lemma csv_cons_nonempty x r : exists c cs, Ja4Spec.csv (x :: r) = c :: cs.
Proof.
  unfold Ja4Spec.csv. cbn [map join]. destruct (hex4_shape x) as (a & b & c & d & E). rewrite E.
  destruct (map Ja4Spec.hex4 r); cbn [app]; do 2 eexists; reflexivity.
Qed.
Lemma hash12_csv l : hash12 (Ja4Spec.csv l) = match l with [] => zeros12 | _ => sha12 (Ja4Spec.csv l) end.
Proof.
  destruct l as [|x r]; [reflexivity|]. destruct (csv_cons_nonempty x r) as (c & cs & E). rewrite E. reflexivity.
Qed.

Lemma andb_congr a b b' : b = b' -> a && b = a && b'.
Proof. now intros ->. Qed.
Lemma utf8_eq : forall l, utf8_valid l = utf8 l.
Proof.
  fix IH 1. intros [|b0 r]; [reflexivity|]. cbn [utf8_valid utf8]. cbv zeta.
  destruct (b2n b0 <? 128); [apply IH|].
  destruct ((194 <=? b2n b0) && (b2n b0 <=? 223)).
  - destruct r as [|b1 r1]; [reflexivity|]. apply andb_congr. apply IH.
  - destruct ((224 <=? b2n b0) && (b2n b0 <=? 239)).
    + destruct r as [|b1 [|b2 r2]]; [reflexivity | reflexivity |]. apply andb_congr. apply IH.
    + destruct ((240 <=? b2n b0) && (b2n b0 <=? 244)); [|reflexivity].
      destruct r as [|b1 [|b2 [|b3 r3]]]; [reflexivity | reflexivity | reflexivity |]. apply andb_congr. apply IH.
Qed.

Lemma alnum_ascii b : alnum b = true -> b2n b <? 128 = true.
Proof. unfold alnum. cbv zeta. lia. Qed.

Lemma last_cons_ge2 {A} (a b : A) l d : last (a :: b :: l) d = last (b :: l) d.
Proof. reflexivity. Qed.

Lemma alpn_chars_eq h :
  known_alpn h = false ->
  (let fl := match (match first_alpn h with Some p => from_utf8 p | None => None end) with
             | Some a => first_last_alpn a | None => ("0"%byte, "0"%byte) end in [fst fl; snd fl])
  = alpn_chars h.
Proof.
  unfold known_alpn, alpn_chars. destruct (first_alpn h) as [[|b0 rest]|]; [reflexivity | | reflexivity].
  intros K. apply negb_false_iff in K.
  apply andb_prop in K as [K K4]. apply andb_prop in K as [K K3]. apply andb_prop in K as [K1 K2].
  unfold from_utf8. rewrite utf8_eq, K4. rewrite K2, K3. cbn [andb].
  pose proof (alnum_ascii _ K2) as A0. pose proof (alnum_ascii _ K3) as A1.
  unfold first_last_alpn. cbv zeta. unfold ascii_or_9. rewrite A0, A1.
  unfold utf8_char_len. rewrite A0.
  destruct rest as [|b1 rest']; [unfold len in K1; cbn [length] in K1; lia|].
  cbn [length Nat.eqb]. reflexivity.
Qed.

(* ---------- the version ---------- *)
Lemma version_from_code m :
  version_text (tls_version_from_code m) = version_chars m
  /\ Ja4.version_token (tls_version_from_code m) = Ja4Spec.version_token m.
Proof.
  unfold tls_version_from_code, Ja4Spec.version_token, version_chars.
  repeat match goal with
  | |- context [m =? ?k] =>
      let E := fresh "E" in
      destruct (m =? k) eqn:E; [ first [split; reflexivity | split; cbn [version_text Ja4.version_token]; rewrite ?E; reflexivity] | ]
  end.
  split; cbn [version_text Ja4.version_token]; repeat match goal with H : (m =? _) = false |- _ => rewrite H end; reflexivity.
Qed.
Lemma version_from_legacy v exts :
  existsb (N.eqb 43) exts = false ->
  version_text (determine_tls_version v exts) = version_chars v
  /\ Ja4.version_token (determine_tls_version v exts) = Ja4Spec.version_token v.
Proof. intros X. unfold determine_tls_version. rewrite X. apply version_from_code. Qed.

Lemma find_body_none t l : find_body t l = None -> existsb (N.eqb t) (map fst l) = false.
Proof.
  induction l as [|[t' b] r IH]; [reflexivity|]. cbn [find_body map fst existsb].
  rewrite (N.eqb_sym t t'). destruct (t' =? t); [discriminate | exact IH].
Qed.
Lemma find_body_some t l b : find_body t l = Some b -> existsb (N.eqb t) (map fst l) = true.
Proof.
  induction l as [|[t' b'] r IH]; [discriminate|]. cbn [find_body map fst existsb].
  rewrite (N.eqb_sym t t'). destruct (t' =? t); [reflexivity | exact IH].
Qed.
Lemma existsb_non_grease t l : grease t = false -> existsb (N.eqb t) (non_grease l) = existsb (N.eqb t) l.
Proof.
  intros G. induction l as [|x l IH]; [reflexivity|]. unfold non_grease in *. cbn [filter existsb].
  destruct (t =? x) eqn:E.
  - apply N.eqb_eq in E. subst x. rewrite G. cbn [negb existsb]. now rewrite N.eqb_refl.
  - destruct (negb (grease x)); cbn [existsb]; rewrite ?E; exact IH.
Qed.

(* ---------- model = specification ---------- *)
Section Main.
Variable h : hello.
Hypothesis W : wf h = true.
Hypothesis NK : known h = false.

Ltac nk_split := unfold known in NK; repeat (let H := fresh "NKx" in apply orb_false_elim in NK as [NK H]); assumption.
Lemma nk_alpn : known_alpn h = false.
Proof. nk_split. Qed.

Lemma find43_versions b : find_body 43 (h_exts h) = Some b -> exists vs, b = BVersions vs.
Proof.
  intros F. pose proof (find_body_wf h W _ _ F) as FW. unfold ext_wf in FW. cbn [fst snd] in FW.
  apply andb_prop in FW as [_ FW].
  destruct b; try (repeat (apply andb_prop in FW as [FW ?]); vm_compute in FW; discriminate).
  eauto.
Qed.

Lemma version_eq :
  version_text (model_version h) = version_chars (version_code h)
  /\ Ja4.version_token (model_version h) = Ja4Spec.version_token (version_code h).
Proof.
  unfold model_version, version_code.
  destruct (supported_versions h) as [vs|] eqn:SV.
  - replace (list_max (non_grease vs)) with (maximum (non_grease vs)) by reflexivity.
    destruct (maximum (non_grease vs)) as [m|]; [apply version_from_code | now apply version_from_legacy].
  - replace (list_max (non_grease [])) with (@None N) by reflexivity. now apply version_from_legacy.
Qed.

Lemma sni_flag_eq :
  (match first_server_name h with Some _ => bs "d" | None => bs "i" end) = sni_char h.
Proof.
  unfold first_server_name, sni_char, ext_types. destruct (find_body 0 (h_exts h)) as [b|] eqn:F.
  - rewrite (find_body_some _ _ _ F).
    pose proof (find_body_wf h W _ _ F) as FW. unfold ext_wf in FW. cbn [fst snd] in FW.
    apply andb_prop in FW as [_ FW].
    destruct b as [[|[ty host] names]| | | | | |];
      try (repeat (apply andb_prop in FW as [FW ?]); try discriminate; vm_compute in FW; discriminate).
    reflexivity.
  - now rewrite find_body_none.
Qed.

Lemma alpn_field_eq :
  (match first_alpn h with Some p => from_utf8 p | None => None end) = first_alpn h.
Proof.
  pose proof nk_alpn as KA. unfold known_alpn in KA.
  destruct (first_alpn h) as [[|b0 rest]|]; [reflexivity | | reflexivity].
  apply negb_false_iff in KA. apply andb_prop in KA as [_ KU].
  unfold from_utf8. now rewrite utf8_eq, KU.
Qed.

Lemma sig_list_in_ext orig : sig_list h <> [] -> ext_list h orig <> [].
Proof.
  intros S. unfold sig_list, sig_algs in S.
  destruct (find_body 13 (h_exts h)) as [b|] eqn:F; [|now cbn in S].
  assert (I : In 13 (non_grease (ext_types h))).
  { unfold non_grease. apply filter_In. split; [|reflexivity].
    pose proof (find_body_some _ _ _ F) as X. apply existsb_exists in X as [x [Hx E]].
    apply N.eqb_eq in E. now subst x. }
  unfold ext_list. destruct orig.
  - intros E. rewrite E in I. contradiction.
  - intros E.
    assert (I2 : In 13 (filter (fun t => negb (t =? 0) && negb (t =? 16)) (non_grease (ext_types h))))
      by (apply filter_In; split; [exact I | reflexivity]).
    unfold sorted in E. eapply Permutation_in in I2; [|apply NSort.Permuted_sort]. rewrite E in I2. contradiction.
Qed.

Lemma c_raw_eq orig :
  (let extensions_str := Ja4.csv (ext_list h orig) in
   let sig_algs_str := Ja4.csv (sig_list h) in
   match sig_algs_str with
   | [] => extensions_str
   | _ => match extensions_str with
          | [] => sig_algs_str
          | _ => extensions_str ++ underscore ++ sig_algs_str
          end
   end) = c_raw h orig.
Proof.
  cbv zeta. unfold c_raw. change Ja4.csv with Ja4Spec.csv.
  destruct (sig_list h) as [|x r] eqn:ES.
  - cbn [Ja4Spec.csv map join]. now rewrite app_nil_r.
  - destruct (csv_cons_nonempty x r) as (c & cs & EC). rewrite EC.
    destruct (ext_list h orig) as [|y r'] eqn:EE.
    + exfalso. apply (sig_list_in_ext orig); [rewrite ES; discriminate | exact EE].
    + destruct (csv_cons_nonempty y r') as (c' & cs' & EC'). rewrite EC'. reflexivity.
Qed.

Lemma c_hash_eq orig : hash12 (c_raw h orig) = c_hash h orig.
Proof.
  unfold c_hash, c_raw. destruct (ext_list h orig) as [|y r'] eqn:EE.
  - destruct (sig_list h) as [|x r] eqn:ES; [reflexivity|].
    exfalso. apply (sig_list_in_ext orig); [rewrite ES; discriminate | exact EE].
  - destruct (csv_cons_nonempty y r') as (c' & cs' & EC'). rewrite EC'. reflexivity.
Qed.

Lemma payload_congr a a' b b' c c' : a = a' -> b = b' -> c = c' ->
  {| Ja4.ja4_a := a; ja4_b := b; ja4_c := c;
     ja4_full := a ++ underscore ++ hash12 b ++ underscore ++ hash12 c;
     ja4_raw := a ++ underscore ++ b ++ underscore ++ c |} =
  {| Ja4.ja4_a := a'; ja4_b := b'; ja4_c := c';
     ja4_full := a' ++ underscore ++ hash12 b' ++ underscore ++ hash12 c';
     ja4_raw := a' ++ underscore ++ b' ++ underscore ++ c' |}.
Proof. now intros -> -> ->. Qed.

Lemma a_eq :
  bs "t" ++ version_text (model_version h)
  ++ match first_server_name h with Some _ => bs "d" | None => bs "i" end
  ++ two_digits (N.min (lenN (non_grease (h_ciphers h))) 99)
  ++ two_digits (N.min (lenN (non_grease (ext_types h))) 99)
  ++ [fst match match first_alpn h with Some p => from_utf8 p | None => None end with
          | Some a => first_last_alpn a | None => ("0"%byte, "0"%byte) end;
      snd match match first_alpn h with Some p => from_utf8 p | None => None end with
          | Some a => first_last_alpn a | None => ("0"%byte, "0"%byte) end]
  = Ja4Spec.ja4_a h.
Proof.
  pose proof nk_alpn as KA.
  unfold Ja4Spec.ja4_a. rewrite (proj1 version_eq).
  pose proof (alpn_chars_eq h KA) as AL. cbv zeta in AL.
  f_equal. f_equal. f_equal; [apply sni_flag_eq|]. f_equal. f_equal. exact AL.
Qed.

Lemma gen_eq orig :
  generate_ja4_with_order (sig_of h) orig =
  {| Ja4.ja4_a := Ja4Spec.ja4_a h; ja4_b := b_raw h orig; ja4_c := c_raw h orig;
     ja4_full := ja4_hashed h orig; ja4_raw := ja4_rawform h orig |}.
Proof.
  rewrite (sig_of_eq h W). unfold generate_ja4_with_order.
  cbn [s_version s_cipher_suites s_extensions s_signature_algorithms s_sni s_alpn].
  change filter_grease_values with non_grease. rewrite !non_grease_idem. cbv zeta.
  etransitivity.
  - apply payload_congr.
    + apply a_eq.
    + instantiate (1 := b_raw h orig). unfold b_raw, cipher_list. destruct orig; rewrite ?sort_eq; reflexivity.
    + instantiate (1 := c_raw h orig).
      assert (E : (if orig then non_grease (ext_types h)
                   else sort_N (filter (fun e => negb (e =? 0) && negb (e =? 16)) (non_grease (ext_types h))))
                  = ext_list h orig).
      { unfold ext_list. destruct orig; rewrite ?sort_eq; reflexivity. }
      rewrite E. apply (c_raw_eq orig).
  - unfold ja4_hashed, ja4_rawform. rewrite c_hash_eq.
    unfold b_raw at 2. rewrite hash12_csv. fold (b_hash h orig). reflexivity.
Qed.

Theorem ja4_all_eq : ja4_all (sig_of h) = Ja4Spec.all h.
Proof. unfold ja4_all, generate_ja4, generate_ja4_original. rewrite !gen_eq. reflexivity. Qed.

Theorem sig_line_eq : sig_line (sig_of h) = Ja4Spec.line h.
Proof.
  unfold sig_line, ja4_line. rewrite ja4_all_eq. unfold Ja4Spec.all, Ja4Spec.line, Ja4Spec.fields, sig_fields.
  rewrite (sig_of_eq h W).
  cbn [s_version s_cipher_suites s_extensions s_signature_algorithms s_sni s_alpn s_elliptic_curves s_point_formats].
  rewrite (proj2 version_eq), alpn_field_eq.
  rewrite <- !app_assoc. reflexivity.
Qed.
End Main.

(* ---------- consequences stated on the specification ---------- *)
Lemma filter_perm {A} (p : A -> bool) l l' : Permutation l l' -> Permutation (filter p l) (filter p l').
Proof.
  induction 1 as [|x l l' P IH|x y l|l l' l'' P1 IH1 P2 IH2]; cbn [filter].
  - constructor.
  - destruct (p x); [now constructor | exact IH].
  - destruct (p x), (p y); try reflexivity. apply perm_swap.
  - now transitivity (filter p l').
Qed.
Lemma existsb_perm {A} (p : A -> bool) l l' : Permutation l l' -> existsb p l = existsb p l'.
Proof.
  intros P. destruct (existsb p l) eqn:E; symmetry.
  - apply existsb_exists in E as [x [Hx Px]]. apply existsb_exists. exists x. split; [|exact Px].
    eapply Permutation_in; eassumption.
  - destruct (existsb p l') eqn:E'; [|reflexivity].
    apply existsb_exists in E' as [x [Hx Px]]. assert (existsb p l = true); [|congruence].
    apply existsb_exists. exists x. split; [|exact Px]. eapply Permutation_in; [apply Permutation_sym|]; eassumption.
Qed.
Lemma len_perm {A} (l l' : list A) : Permutation l l' -> len l = len l'.
Proof. intros P. unfold len. now rewrite (Permutation_length P). Qed.

Lemma count_type_perm t l l' : Permutation l l' -> count_type t l = count_type t l'.
Proof. intros P. unfold count_type. apply len_perm. now apply filter_perm. Qed.

Lemma find_body_perm t l l' :
  Permutation l l' -> count_type t (map fst l) <= 1 -> find_body t l = find_body t l'.
Proof.
  induction 1 as [|[t1 b1] l l' P IH|[t1 b1] [t2 b2] l|l l' l'' P1 IH1 P2 IH2]; intros C.
  - reflexivity.
  - cbn [find_body]. destruct (t1 =? t) eqn:E; [reflexivity|]. apply IH.
    cbn [map fst] in C. rewrite count_type_cons in C. lia.
  - cbn [find_body]. cbn [map fst] in C. rewrite !count_type_cons in C.
    destruct (t2 =? t) eqn:E2, (t1 =? t) eqn:E1; try reflexivity.
    apply N.eqb_eq in E1, E2. subst. rewrite N.eqb_refl in C. lia.
  - rewrite IH1 by exact C. apply IH2. rewrite <- (count_type_perm t (map fst l) (map fst l')); [exact C|].
    now apply Permutation_map.
Qed.

Section Perm.
Variables h h' : hello.
Hypothesis Pc : Permutation (h_ciphers h) (h_ciphers h').
Hypothesis Pe : Permutation (h_exts h) (h_exts h').
Hypothesis Ev : h_version h = h_version h'.
Hypothesis U : unique_structured h = true.

Lemma perm_find t : In t [0; 16; 43; 13; 10; 11] -> find_body t (h_exts h) = find_body t (h_exts h').
Proof.
  intros Ht. apply find_body_perm; [exact Pe|]. unfold unique_structured in U. rewrite forallb_forall in U.
  specialize (U t Ht). unfold ext_types in U. lia.
Qed.
Lemma perm_types : Permutation (ext_types h) (ext_types h').
Proof. unfold ext_types. now apply Permutation_map. Qed.

Lemma perm_a : Ja4Spec.ja4_a h = Ja4Spec.ja4_a h'.
Proof.
  unfold Ja4Spec.ja4_a, version_code, supported_versions, sni_char, alpn_chars, first_alpn.
  rewrite (perm_find 43), (perm_find 16) by (cbn; tauto). rewrite Ev.
  rewrite (existsb_perm _ _ _ perm_types).
  unfold non_grease.
  rewrite (len_perm _ _ (filter_perm (fun v => negb (grease v)) _ _ Pc)).
  rewrite (len_perm _ _ (filter_perm (fun v => negb (grease v)) _ _ perm_types)). reflexivity.
Qed.
Lemma perm_ciphers : cipher_list h false = cipher_list h' false.
Proof. unfold cipher_list. apply sorted_perm. unfold non_grease. now apply filter_perm. Qed.
Lemma perm_exts : ext_list h false = ext_list h' false.
Proof. unfold ext_list. apply sorted_perm. apply filter_perm. unfold non_grease. apply filter_perm. exact perm_types. Qed.
Lemma perm_sigs : sig_list h = sig_list h'.
Proof. unfold sig_list, sig_algs. now rewrite (perm_find 13) by (cbn; tauto). Qed.

(* reordering cipher suites and extensions changes neither JA4 nor JA4_r *)
Theorem spec_sorted_perm_invariant : ja4 h = ja4 h' /\ ja4_r h = ja4_r h'.
Proof.
  unfold ja4, ja4_r, ja4_hashed, ja4_rawform, b_hash, c_hash, b_raw, c_raw.
  rewrite perm_a, perm_ciphers, perm_exts, perm_sigs. split; reflexivity.
Qed.
End Perm.

(* --- GREASE insertion --- *)
Definition with_ciphers (h : hello) (c : list N) : hello :=
  {| h_rec_version := h_rec_version h; h_version := h_version h; h_random := h_random h; h_sid := h_sid h;
     h_ciphers := c; h_comp := h_comp h; h_exts := h_exts h; h_omit_ext_block := h_omit_ext_block h |}.
Definition with_exts (h : hello) (e : list (N * ext_body)) : hello :=
  {| h_rec_version := h_rec_version h; h_version := h_version h; h_random := h_random h; h_sid := h_sid h;
     h_ciphers := h_ciphers h; h_comp := h_comp h; h_exts := e; h_omit_ext_block := h_omit_ext_block h |}.

Lemma non_grease_insert a g b : grease g = true -> non_grease (a ++ g :: b) = non_grease (a ++ b).
Proof. intros G. unfold non_grease. rewrite !filter_app. cbn [filter]. now rewrite G. Qed.

Lemma all_depends_on_ciphers h c :
  non_grease c = non_grease (h_ciphers h) -> Ja4Spec.all (with_ciphers h c) = Ja4Spec.all h.
Proof.
  intros E. unfold Ja4Spec.all, ja4, ja4_r, ja4_o, ja4_ro, ja4_hashed, ja4_rawform, b_hash, c_hash, b_raw, c_raw,
    Ja4Spec.ja4_a, cipher_list, ext_list, sig_list, sig_algs, version_code, supported_versions, sni_char, alpn_chars,
    first_alpn, ext_types, with_ciphers. cbn [h_ciphers h_exts h_version]. rewrite E. reflexivity.
Qed.
(* a GREASE value inserted anywhere in the cipher list changes none of the four fingerprints *)
Theorem spec_grease_cipher_invariant h a b g :
  h_ciphers h = a ++ b -> grease g = true -> Ja4Spec.all (with_ciphers h (a ++ g :: b)) = Ja4Spec.all h.
Proof. intros E G. apply all_depends_on_ciphers. rewrite E. now apply non_grease_insert. Qed.

Lemma find_body_insert t a g x b : (g =? t) = false -> find_body t (a ++ (g, x) :: b) = find_body t (a ++ b).
Proof.
  intros N. induction a as [|[t' b'] a IH]; cbn [app find_body]; [now rewrite N|].
  destruct (t' =? t); [reflexivity | exact IH].
Qed.
Lemma grease_not t g : In t [0; 16; 43; 13; 10; 11] -> grease g = true -> (g =? t) = false.
Proof.
  intros Ht G. destruct (g =? t) eqn:E; [|reflexivity]. apply N.eqb_eq in E. subst g.
  cbn [In] in Ht. repeat (destruct Ht as [<-|Ht]; [vm_compute in G; discriminate|]). contradiction.
Qed.
(* a GREASE extension (any body) inserted anywhere changes none of the four fingerprints *)
Theorem spec_grease_ext_invariant h a b g body :
  h_exts h = a ++ b -> grease g = true ->
  Ja4Spec.all (with_exts h (a ++ (g, BRaw body) :: b)) = Ja4Spec.all h.
Proof.
  intros E G.
  assert (T : non_grease (map fst (a ++ (g, BRaw body) :: b)) = non_grease (map fst (h_exts h))).
  { rewrite E, !map_app. cbn [map fst]. now apply non_grease_insert. }
  assert (X : existsb (N.eqb 0) (map fst (a ++ (g, BRaw body) :: b)) = existsb (N.eqb 0) (map fst (h_exts h))).
  { rewrite E, !map_app, !existsb_app. cbn [map fst existsb].
    replace (0 =? g) with false; [reflexivity|]. symmetry. rewrite N.eqb_sym. apply grease_not; [cbn; tauto | exact G]. }
  unfold Ja4Spec.all, ja4, ja4_r, ja4_o, ja4_ro, ja4_hashed, ja4_rawform, b_hash, c_hash, b_raw, c_raw,
    Ja4Spec.ja4_a, cipher_list, ext_list, sig_list, sig_algs, version_code, supported_versions, sni_char, alpn_chars,
    first_alpn, ext_types, with_exts. cbn [h_ciphers h_exts h_version].
  rewrite T, X.
  rewrite !(find_body_insert _ a g (BRaw body) b) by (apply grease_not; [cbn; tauto | exact G]).
  rewrite <- E. reflexivity.
Qed.

(* --- counts saturate at 99 --- *)
Theorem count2_saturates n : 99 <= n -> count2 n = bs "99".
Proof. intros H. unfold count2. rewrite N.min_r by exact H. reflexivity. Qed.
Theorem count2_exact n : n <= 99 -> count2 n = [n2b (48 + n / 10); n2b (48 + n mod 10)].
Proof. intros H. unfold count2. rewrite N.min_l by exact H. reflexivity. Qed.

(* --- the original-order fingerprint spells out the non-GREASE lists in wire order --- *)
Theorem spec_ja4_ro_shape h :
  ja4_ro h = Ja4Spec.ja4_a h ++ bs "_" ++ Ja4Spec.csv (non_grease (h_ciphers h)) ++ bs "_"
             ++ Ja4Spec.csv (non_grease (ext_types h))
             ++ match non_grease (sig_algs h) with [] => [] | l => bs "_" ++ Ja4Spec.csv l end.
Proof. reflexivity. Qed.

(* ---------- model-level statements (through parse_encode) ---------- *)
Theorem model_line_eq h :
  wf h = true -> known h = false ->
  result_line (parse_tls_client_hello (encode_hello h)) = Ja4Spec.line h.
Proof. intros W K. rewrite (parse_encode h W). cbn [result_line]. now apply sig_line_eq. Qed.

Theorem model_ja4_eq h :
  wf h = true -> known h = false ->
  exists s, parse_tls_client_hello (encode_hello h) = RSig s /\ ja4_all s = Ja4Spec.all h.
Proof. intros W K. exists (sig_of h). split; [now apply parse_encode | now apply ja4_all_eq]. Qed.

(* ---------- witnesses ---------- *)
Definition zeros32 : bytes := repeat x00 32.
Definition hello_with (version : N) (ciphers : list N) (exts : list (N * ext_body)) : hello :=
  {| h_rec_version := 0x0301; h_version := version; h_random := zeros32; h_sid := []; h_ciphers := ciphers;
     h_comp := [x00]; h_exts := exts; h_omit_ext_block := false |}.

(* a Chrome-like TLS 1.3 hello inside the domain and outside every known class *)
Definition sample_hello : hello :=
  hello_with 0x0303 [0x0a0a; 0x1301; 0x1302; 0x1303; 0xc02b; 0xc02f]
    [ (0x1a1a, BRaw []); (0, BSni [(0, bs "example.com")]); (23, BRaw []); (0xff01, BRaw [x00]);
      (10, BGroups [0x0a0a; 0x001d; 0x0017]); (11, BPointFormats [x00]); (35, BRaw []);
      (16, BAlpn [bs "h2"; bs "http/1.1"]); (5, BRaw [x01; x00; x00; x00; x00]);
      (13, BSigAlgs [0x0403; 0x0804; 0x0401]); (18, BRaw []); (51, BRaw [x00; x01; x00]);
      (45, BRaw [x01; x01]); (43, BVersions [0x0a0a; 0x0304; 0x0303]); (21, BRaw [x00; x00; x00]) ].
Example sample_hello_ok : wf sample_hello = true /\ known sample_hello = false.
Proof. split; vm_compute; reflexivity. Qed.
Example sample_hello_ja4 :
  ja4_r sample_hello =
  bs "t13d0514h2_1301,1302,1303,c02b,c02f_0005,000a,000b,000d,0012,0015,0017,0023,002b,002d,0033,ff01_0403,0804,0401".
Proof. vm_compute. reflexivity. Qed.

Ltac refute :=
  let E := fresh "E" in
  intro E; apply (proj2 (bytes_eqb_eq _ _)) in E; vm_compute in E; discriminate E.

(* K-alpn: one-character ALPN value: code "h0", specification "hh" *)
Definition w_alpn1 : hello := hello_with 0x0303 [0x1301] [(16, BAlpn [bs "h"])].
Lemma Known_alpn_single_char_refuted :
  exists h, wf h = true /\ known_alpn h = true
            /\ result_line (parse_tls_client_hello (encode_hello h)) <> Ja4Spec.line h.
Proof. exists w_alpn1. split; [vm_compute; reflexivity|]. split; [vm_compute; reflexivity | refute]. Qed.
(* K-alpn: non-alphanumeric first byte 0xAB: code treats ALPN as absent ("00"), specification "ab" *)
Definition w_alpn2 : hello := hello_with 0x0303 [0x1301] [(16, BAlpn [[xab]])].
Lemma Known_alpn_non_alnum_refuted :
  exists h, wf h = true /\ known_alpn h = true
            /\ result_line (parse_tls_client_hello (encode_hello h)) <> Ja4Spec.line h.
Proof. exists w_alpn2. split; [vm_compute; reflexivity|]. split; [vm_compute; reflexivity | refute]. Qed.
(* K-alpn: "h2-" ends with '-': code "h-", specification "6d" (hex of the value) *)
Definition w_alpn3 : hello := hello_with 0x0303 [0x1301] [(16, BAlpn [bs "h2-"])].
Lemma Known_alpn_punctuation_refuted :
  exists h, wf h = true /\ known_alpn h = true
            /\ result_line (parse_tls_client_hello (encode_hello h)) <> Ja4Spec.line h.
Proof. exists w_alpn3. split; [vm_compute; reflexivity|]. split; [vm_compute; reflexivity | refute]. Qed.
(* repaired by 53df476: supported_versions holding only GREASE falls back to the legacy version *)
Definition w_ver1 : hello := hello_with 0x0303 [0x1301] [(43, BVersions [0x0a0a])].
Example version_only_grease_now_conforms :
  wf w_ver1 = true /\ known w_ver1 = false
  /\ result_line (parse_tls_client_hello (encode_hello w_ver1)) = Ja4Spec.line w_ver1.
Proof. repeat split; vm_compute; reflexivity. Qed.
(* repaired (c04version): legacy 0x0002 prints s2 (also below an all-GREASE supported_versions), DTLS codes print d1/d2/d3 *)
Definition w_ver1b : hello := hello_with 0x0002 [0x1301] [(43, BVersions [0x0a0a])].
Definition w_ver2 : hello := hello_with 0x0002 [0x1301] [].
Definition w_ver3 : hello := hello_with 0xfefd [0x1301] [].
Definition w_ver4 : hello := hello_with 0x0303 [0x1301] [(43, BVersions [0xfeff; 0x0a0a])].
Lemma version_former_witnesses_agree :
  forallb (fun h => wf h && negb (known h)
                    && bytes_eqb (result_line (parse_tls_client_hello (encode_hello h))) (Ja4Spec.line h))
          [w_ver1b; w_ver2; w_ver3; w_ver4] = true.
Proof. vm_compute. reflexivity. Qed.

(* repaired (c04grease): an unassigned extension type of the form 0x?a?a (here 0x1a2a) is listed and counted *)
Definition w_ext1 : hello := hello_with 0x0303 [0x1301] [(0x1a2a, BRaw []); (23, BRaw [])].
Lemma pseudo_grease_former_witness_agrees :
  wf w_ext1 = true /\ known w_ext1 = false
  /\ result_line (parse_tls_client_hello (encode_hello w_ext1)) = Ja4Spec.line w_ext1.
Proof. repeat split; vm_compute; reflexivity. Qed.

(* outside the domain (RFC 6066 host names are ASCII): an SNI host name that is not UTF-8 is reported
   as "no SNI" (flag i), while the specification's rule "SNI extension present" gives d *)
Definition w_sni : hello := hello_with 0x0303 [0x1301] [(0, BSni [(0, [xff; "a"%byte])])].
Lemma sni_not_utf8_outside_domain :
  wf w_sni = false /\ known w_sni = false
  /\ result_line (parse_tls_client_hello (encode_hello w_sni)) <> Ja4Spec.line w_sni.
Proof. split; [vm_compute; reflexivity|]. split; [vm_compute; reflexivity | refute]. Qed.
(* outside the domain: a known extension type with a body its tls-parser content parser rejects
   (extended_master_secret with one byte) silently ends the extension walk: everything after it is lost *)
Definition w_stop : hello := hello_with 0x0303 [0x1301] [(23, BRaw [x00]); (0, BSni [(0, bs "a.b")]); (16, BAlpn [bs "h2"])].
Lemma malformed_extension_truncates_list :
  wf w_stop = false
  /\ result_line (parse_tls_client_hello (encode_hello w_stop)) <> Ja4Spec.line w_stop.
Proof. split; [vm_compute; reflexivity | refute]. Qed.

(* ---------- consequences stated on the fingerprints computed from the bytes ---------- *)
Theorem model_sorted_perm_invariant :
  forall h h' : hello,
    wf h = true -> wf h' = true -> known h = false -> known h' = false ->
    Permutation (h_ciphers h) (h_ciphers h') -> Permutation (h_exts h) (h_exts h') -> h_version h = h_version h' ->
    exists s s', parse_tls_client_hello (encode_hello h) = RSig s /\ parse_tls_client_hello (encode_hello h') = RSig s'
                 /\ ja4_full (generate_ja4 s) = ja4_full (generate_ja4 s')
                 /\ ja4_raw (generate_ja4 s) = ja4_raw (generate_ja4 s').
Proof.
  intros h h' W W' K K' Pc Pe Ev.
  destruct (model_ja4_eq h W K) as (s & P & A). destruct (model_ja4_eq h' W' K') as (s' & P' & A').
  exists s, s'. split; [exact P|]. split; [exact P'|].
  assert (U : unique_structured h = true) by apply (wp_uniq h (wf_split h W)).
  destruct (spec_sorted_perm_invariant h h' Pc Pe Ev U) as [J Jr].
  unfold ja4_all, Ja4Spec.all in A, A'.
  pose proof (f_equal (fun t => fst (fst (fst t))) A) as A1. pose proof (f_equal (fun t => snd (fst (fst t))) A) as A2.
  pose proof (f_equal (fun t => fst (fst (fst t))) A') as A1'. pose proof (f_equal (fun t => snd (fst (fst t))) A') as A2'.
  cbn [fst snd] in A1, A2, A1', A2'. split; congruence.
Qed.

Theorem model_grease_invariant :
  forall (h h' : hello) (g : N),
    wf h = true -> wf h' = true -> known h = false -> known h' = false -> grease g = true ->
    (  (exists a b, h_ciphers h = a ++ b /\ h' = with_ciphers h (a ++ g :: b))
    \/ (exists a b body, h_exts h = a ++ b /\ h' = with_exts h (a ++ (g, BRaw body) :: b)) ) ->
    exists s s', parse_tls_client_hello (encode_hello h) = RSig s /\ parse_tls_client_hello (encode_hello h') = RSig s'
                 /\ ja4_all s = ja4_all s'.
Proof.
  intros h h' g W W' K K' G Hins.
  destruct (model_ja4_eq h W K) as (s & P & A). destruct (model_ja4_eq h' W' K') as (s' & P' & A').
  exists s, s'. split; [exact P|]. split; [exact P'|]. rewrite A, A'.
  destruct Hins as [(a & b & E & ->) | (a & b & body & E & ->)]; symmetry.
  - now apply spec_grease_cipher_invariant.
  - now apply spec_grease_ext_invariant.
Qed.

Theorem model_ja4_ro_follows_bytes :
  forall h : hello, wf h = true -> known h = false ->
    exists s, parse_tls_client_hello (encode_hello h) = RSig s /\
      ja4_raw (generate_ja4_original s) =
        Ja4Spec.ja4_a h ++ bs "_" ++ Ja4Spec.csv (non_grease (h_ciphers h)) ++ bs "_"
        ++ Ja4Spec.csv (non_grease (ext_types h))
        ++ match non_grease (sig_algs h) with [] => [] | l => bs "_" ++ Ja4Spec.csv l end.
Proof.
  intros h W K. destruct (model_ja4_eq h W K) as (s & P & A). exists s. split; [exact P|].
  unfold ja4_all, Ja4Spec.all in A. pose proof (f_equal snd A) as A4. cbn [snd] in A4.
  rewrite A4. apply spec_ja4_ro_shape.
Qed.

Theorem count2_two_digits :
  forall n : N, (99 <= n -> count2 n = bs "99") /\ (n <= 99 -> count2 n = [n2b (48 + n / 10); n2b (48 + n mod 10)]).
Proof. intros n. split; [apply count2_saturates | apply count2_exact]. Qed.

(* --- GREASE inside the signature-algorithm list and inside supported_versions --- *)
Lemma find_body_mid t a k v b :
  find_body t (a ++ (k, v) :: b) =
  match find_body t a with
  | Some w => Some w
  | None => if k =? t then Some v else find_body t b
  end.
Proof.
  induction a as [|[t' b'] a IH]; cbn [app find_body]; [reflexivity|].
  destruct (t' =? t); [reflexivity | exact IH].
Qed.
Lemma map_fst_mid (a b : list (N * ext_body)) k v v' :
  map fst (a ++ (k, v) :: b) = map fst (a ++ (k, v') :: b).
Proof. rewrite !map_app. reflexivity. Qed.

Theorem spec_grease_sigalg_invariant h a b x y g :
  h_exts h = a ++ (13, BSigAlgs (x ++ y)) :: b -> grease g = true ->
  Ja4Spec.all (with_exts h (a ++ (13, BSigAlgs (x ++ g :: y)) :: b)) = Ja4Spec.all h.
Proof.
  intros E G.
  unfold Ja4Spec.all, ja4, ja4_r, ja4_o, ja4_ro, ja4_hashed, ja4_rawform, b_hash, c_hash, b_raw, c_raw,
    Ja4Spec.ja4_a, cipher_list, ext_list, sig_list, sig_algs, version_code, supported_versions, sni_char, alpn_chars,
    first_alpn, ext_types, with_exts. cbn [h_ciphers h_exts h_version]. rewrite E.
  rewrite (map_fst_mid a b 13 (BSigAlgs (x ++ g :: y)) (BSigAlgs (x ++ y))).
  rewrite !find_body_mid. ceval.
  assert (S : non_grease match (match find_body 13 a with Some w => Some w | None => Some (BSigAlgs (x ++ g :: y)) end)
                         with Some (BSigAlgs l) => l | _ => [] end
            = non_grease match (match find_body 13 a with Some w => Some w | None => Some (BSigAlgs (x ++ y)) end)
                         with Some (BSigAlgs l) => l | _ => [] end).
  { destruct (find_body 13 a); [reflexivity|]. now apply non_grease_insert. }
  rewrite S. reflexivity.
Qed.

Theorem spec_grease_version_invariant h a b x y g :
  h_exts h = a ++ (43, BVersions (x ++ y)) :: b -> grease g = true ->
  Ja4Spec.all (with_exts h (a ++ (43, BVersions (x ++ g :: y)) :: b)) = Ja4Spec.all h.
Proof.
  intros E G.
  unfold Ja4Spec.all, ja4, ja4_r, ja4_o, ja4_ro, ja4_hashed, ja4_rawform, b_hash, c_hash, b_raw, c_raw,
    Ja4Spec.ja4_a, cipher_list, ext_list, sig_list, sig_algs, version_code, supported_versions, sni_char, alpn_chars,
    first_alpn, ext_types, with_exts. cbn [h_ciphers h_exts h_version]. rewrite E.
  rewrite (map_fst_mid a b 43 (BVersions (x ++ g :: y)) (BVersions (x ++ y))).
  rewrite !find_body_mid. ceval.
  destruct (find_body 43 a) as [w|]; [reflexivity|].
  rewrite (non_grease_insert x g y G). reflexivity.
Qed.
