(* Shape laws of the transcription of tls.rs `generate_ja4_with_order` (Model/Ja4.v), for EVERY signature
   value (no well-formedness hypothesis): what a consumer that splits a JA4 string on '_' relies on. *)
From Coq Require Import List NArith Bool Lia.
From Coq Require Import Strings.Byte.
From HN Require Import Base.Bytes Model.TlsHello Model.Ja4.
Import ListNotations.
Open Scope N_scope.

Lemma version_text_len v : length (version_text v) = 2%nat.
Proof.
  destruct v as [| | | | | |c]; try reflexivity. unfold version_text.
  destruct (c =? 0xfeff); [reflexivity|]. destruct (c =? 0xfefd); [reflexivity|].
  destruct (c =? 0xfefc); reflexivity.
Qed.

(* JA4_a always has exactly ten characters: t, version (2), d/i, two counts (2 + 2), ALPN pair (2) *)
Lemma ja4_a_len s o : length (ja4_a (generate_ja4_with_order s o)) = 10%nat.
Proof.
  unfold generate_ja4_with_order. cbn [ja4_a]. rewrite !app_length, version_text_len.
  destruct (s_sni s); reflexivity.
Qed.

(* sorting affects only the b and c parts: JA4 and JA4_o share their a part *)
Lemma ja4_a_order_independent s :
  ja4_a (generate_ja4 s) = ja4_a (generate_ja4_original s).
Proof. reflexivity. Qed.

(* both renderings are a ++ "_" ++ f(b) ++ "_" ++ f(c) over the same a, b, c *)
Lemma ja4_full_raw_same_parts s o :
  let p := generate_ja4_with_order s o in
  ja4_full p = ja4_a p ++ underscore ++ hash12 (ja4_b p) ++ underscore ++ hash12 (ja4_c p)
  /\ ja4_raw p = ja4_a p ++ underscore ++ ja4_b p ++ underscore ++ ja4_c p.
Proof. split; reflexivity. Qed.

(* no cipher left after GREASE removal: the b part is empty and hashes to twelve zeros *)
Lemma ja4_no_ciphers s o :
  filter_grease_values (s_cipher_suites s) = [] ->
  ja4_b (generate_ja4_with_order s o) = [] /\ hash12 (ja4_b (generate_ja4_with_order s o)) = bs "000000000000".
Proof.
  intros H. unfold generate_ja4_with_order. cbn [ja4_b]. rewrite H.
  destruct o; split; reflexivity.
Qed.

(* the two printed counts never exceed 99 and are two decimal digits each *)
Lemma two_digits_len n : length (two_digits n) = 2%nat.
Proof. reflexivity. Qed.
