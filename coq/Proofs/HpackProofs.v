(* Lemmas about the HPACK decoder model (Model/Hpack.v): the dynamic-table invariant, the crate's
   panic!() branch and the out-of-fuel outcome are unreachable. *)
From Coq Require Import List NArith ZArith Bool Lia ZifyBool ZifyN Arith.
From Coq Require Import Strings.Byte.
From HN Require Import Base.Bytes Model.H2Text Model.Hpack.
Import ListNotations.
Open Scope N_scope.

(* ---------- dynamic table: size field = sum of the entry sizes ---------- *)
Definition tsum (l : list header) : N := fold_right (fun e acc => entry_size e + acc) 0 l.
Definition dt_inv (t : dtable) : Prop := dt_size t = tsum (dt_entries t).

Lemma tsum_app a b : tsum (a ++ b) = tsum a + tsum b.
Proof.
  induction a as [|x a IH]; [cbn [app]; unfold tsum at 2; cbn [fold_right]; lia|].
  change (tsum ((x :: a) ++ b)) with (entry_size x + tsum (a ++ b)).
  change (tsum (x :: a)) with (entry_size x + tsum a). rewrite IH. lia.
Qed.

Lemma dt_new_inv : dt_inv dt_new.
Proof. reflexivity. Qed.

Lemma consolidate_ok fuel : forall t,
  dt_inv t -> (length (dt_entries t) < fuel)%nat ->
  exists t', consolidate fuel t = Some t' /\ dt_inv t' /\ dt_max t' = dt_max t.
Proof.
  induction fuel as [|f IH]; intros t Hinv Hlen; [lia|].
  cbn [consolidate]. destruct (dt_size t <=? dt_max t) eqn:E.
  - exists t. auto.
  - destruct (rev (dt_entries t)) as [|last r] eqn:Er.
    + exfalso. assert (dt_entries t = []) as H0.
      { rewrite <- (rev_involutive (dt_entries t)), Er. reflexivity. }
      unfold dt_inv in Hinv. rewrite H0 in Hinv. cbn in Hinv. lia.
    + assert (Hent : dt_entries t = rev r ++ [last]).
      { rewrite <- (rev_involutive (dt_entries t)), Er. reflexivity. }
      rewrite Hent, removelast_last.
      set (t1 := {| dt_entries := rev r; dt_size := dt_size t - entry_size last; dt_max := dt_max t |}).
      destruct (IH t1) as (t' & H1 & H2 & H3).
      * unfold dt_inv, t1. cbn [dt_entries dt_size]. unfold dt_inv in Hinv.
        rewrite Hent, tsum_app in Hinv. cbn [tsum fold_right] in Hinv. lia.
      * unfold t1. cbn [dt_entries]. rewrite Hent, app_length in Hlen. cbn [length] in Hlen. lia.
      * exists t'. auto.
Qed.

Lemma add_header_ok t h : dt_inv t -> exists t', add_header t h = Some t' /\ dt_inv t'.
Proof.
  intros Hinv. unfold add_header.
  edestruct consolidate_ok as (t' & H1 & H2 & _); [| |exists t'; split; [exact H1|exact H2]].
  - unfold dt_inv in *. cbn [dt_entries dt_size tsum fold_right]. fold (tsum (dt_entries t)). lia.
  - cbn [dt_entries length]. lia.
Qed.

Lemma set_max_ok t n : dt_inv t -> exists t', set_max_table_size t n = Some t' /\ dt_inv t'.
Proof.
  intros Hinv. unfold set_max_table_size.
  edestruct consolidate_ok as (t' & H1 & H2 & _); [| |exists t'; split; [exact H1|exact H2]].
  - exact Hinv.
  - cbn [dt_entries]. lia.
Qed.

(* ---------- the panic!() of consolidate_table is unreachable ---------- *)
Lemma decode_loop_no_panic fuel : forall buf t acc,
  dt_inv t -> decode_loop fuel buf t acc <> DPanic.
Proof.
  induction fuel as [|f IH]; intros buf t acc Hinv.
  - destruct buf; cbn; discriminate.
  - destruct buf as [|b0 r]; [cbn; discriminate|].
    cbn [decode_loop].
    destruct (128 <=? b2n b0).
    { destruct (decode_integer (b0 :: r) 7) as [[idx rest]|]; [|discriminate].
      destruct (get_from_table t idx); [|discriminate]. now apply IH. }
    destruct (64 <=? b2n b0).
    { destruct (decode_literal (b0 :: r) t 6) as [[h rest]|]; [|discriminate].
      destruct (add_header_ok t h Hinv) as (t' & -> & Hinv'). now apply IH. }
    destruct (32 <=? b2n b0).
    { destruct (decode_integer (b0 :: r) 5) as [[n rest]|]; [|discriminate].
      destruct (set_max_ok t n Hinv) as (t' & -> & Hinv'). now apply IH. }
    destruct (decode_literal (b0 :: r) t 4) as [[h rest]|]; [|discriminate]. now apply IH.
Qed.

Lemma hpack_decode_no_panic block : hpack_decode dt_new block <> DPanic.
Proof. apply decode_loop_no_panic, dt_new_inv. Qed.

(* ---------- every representation consumes at least one octet: fuel never runs out ---------- *)
Lemma int_cont_len r : forall value m total v rest,
  int_cont r value m total = Some (v, rest) -> (length rest < length r)%nat.
Proof.
  induction r as [|b r IH]; intros value m total v rest H; [discriminate|].
  cbn [int_cont] in H. destruct (b2n b <? 128).
  - inversion H; subst. cbn [length]. lia.
  - destruct (total + 1 =? 5); [discriminate|]. apply IH in H. cbn [length]. lia.
Qed.

Lemma decode_integer_len buf p v rest :
  decode_integer buf p = Some (v, rest) -> (length rest < length buf)%nat.
Proof.
  unfold decode_integer. destruct buf as [|b0 r]; [discriminate|].
  destruct (b2n b0 mod 2 ^ p <? 2 ^ p - 1).
  - intros H; inversion H; subst. cbn [length]. lia.
  - intros H. apply int_cont_len in H. cbn [length]. lia.
Qed.

Lemma decode_string_len buf s rest :
  decode_string buf = Some (s, rest) -> (length rest < length buf)%nat.
Proof.
  unfold decode_string. destruct buf as [|b0 r]; [discriminate|].
  destruct (decode_integer (b0 :: r) 7) as [[len rest0]|] eqn:E; [|discriminate].
  apply decode_integer_len in E.
  destruct (blen rest0 <? len); [discriminate|].
  assert (length (skipn (N.to_nat len) rest0) <= length rest0)%nat by (rewrite skipn_length; lia).
  destruct (128 <=? b2n b0).
  - destruct (huffman_decode _); [|discriminate]. intros H0; inversion H0; subst. lia.
  - intros H0; inversion H0; subst. lia.
Qed.

Lemma decode_literal_len buf t p h rest :
  decode_literal buf t p = Some (h, rest) -> (length rest < length buf)%nat.
Proof.
  unfold decode_literal.
  destruct (decode_integer buf p) as [[ti rest0]|] eqn:E; [|discriminate].
  apply decode_integer_len in E.
  destruct (ti =? 0).
  - destruct (decode_string rest0) as [[name rest1]|] eqn:E1; [|discriminate].
    apply decode_string_len in E1.
    destruct (decode_string rest1) as [[value rest2]|] eqn:E2; [|discriminate].
    apply decode_string_len in E2. intros H; inversion H; subst. lia.
  - destruct (get_from_table t ti) as [[n _]|]; [|discriminate].
    destruct (decode_string rest0) as [[value rest2]|] eqn:E2; [|discriminate].
    apply decode_string_len in E2. intros H; inversion H; subst. lia.
Qed.

Lemma decode_loop_fuel fuel : forall buf t acc,
  (length buf <= fuel)%nat -> decode_loop fuel buf t acc <> DFuel.
Proof.
  induction fuel as [|f IH]; intros buf t acc Hlen.
  - destruct buf; [cbn; discriminate|cbn [length] in Hlen; lia].
  - destruct buf as [|b0 r]; [cbn; discriminate|].
    cbn [decode_loop].
    destruct (128 <=? b2n b0).
    { destruct (decode_integer (b0 :: r) 7) as [[idx rest]|] eqn:E; [|discriminate].
      apply decode_integer_len in E.
      destruct (get_from_table t idx); [|discriminate]. apply IH. lia. }
    destruct (64 <=? b2n b0).
    { destruct (decode_literal (b0 :: r) t 6) as [[h rest]|] eqn:E; [|discriminate].
      apply decode_literal_len in E.
      destruct (add_header t h); [|discriminate]. apply IH. lia. }
    destruct (32 <=? b2n b0).
    { destruct (decode_integer (b0 :: r) 5) as [[n rest]|] eqn:E; [|discriminate].
      apply decode_integer_len in E.
      destruct (set_max_table_size t n); [|discriminate]. apply IH. lia. }
    destruct (decode_literal (b0 :: r) t 4) as [[h rest]|] eqn:E; [|discriminate].
    apply decode_literal_len in E. apply IH. lia.
Qed.

Lemma hpack_decode_fuel t block : hpack_decode t block <> DFuel.
Proof. apply decode_loop_fuel. lia. Qed.
