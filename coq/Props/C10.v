(* C10 — parallel mode is observationally equivalent to sequential mode.
   Transition system (Base/Keyed.v): per-worker FIFO queues + private keyed analyzer states + result bag;
   events Disp p (enqueue on worker shard (key p)) and Work w (worker w dequeues one packet and steps).
   Batch size and timeout are scheduling parameters: they only choose among Work events. *)
From Coq Require Import List NArith Bool Permutation.
From HN Require Import Base.Bytes Base.Keyed.
Import ListNotations.

(* for EVERY schedule that ends with empty queues, every keyed analyzer and every shard function of the
   key: each identity's results are the sequential ones, in order ... *)
Theorem C10_pool_refines_seq : forall (P K S O : Type) (key : P -> K) (keqb : K -> K -> bool),
  (forall a b, keqb a b = true <-> a = b) ->
  forall (lstep : option S -> P -> option S * list O) (shard : K -> nat) (s0 : K -> option S) (es : list (ev P)),
  let x := fold_left (pstep P K S O key keqb lstep shard) es (init P K S O s0) in
  (forall w, q P K S O x w = []) ->
  forall k, proj K O keqb k (outs P K S O x)
          = proj K O keqb k (snd (run P K S O key keqb lstep s0 (dispatched P es))).
Proof. exact pool_refines_seq. Qed.
Print Assumptions C10_pool_refines_seq.

(* ... and the delivered results are, as a multiset, exactly the sequential results *)
Theorem C10_pool_outputs_permutation : forall (P K S O : Type) (key : P -> K) (keqb : K -> K -> bool),
  (forall a b, keqb a b = true <-> a = b) ->
  forall (lstep : option S -> P -> option S * list O) (shard : K -> nat) (s0 : K -> option S) (es : list (ev P)),
  let x := fold_left (pstep P K S O key keqb lstep shard) es (init P K S O s0) in
  (forall w, q P K S O x w = []) ->
  Permutation (outs P K S O x) (snd (run P K S O key keqb lstep s0 (dispatched P es))).
Proof. exact pool_outputs_permutation. Qed.
Print Assumptions C10_pool_outputs_permutation.

(* ====================================================================================================
   CONCRETE INSTANCES (TLS and TCP worker pools).  Model/PoolConcrete.v is the transition system above with
   the workers running the packet-level models of the real analyzers (Model/TlsAnalyzer.v tls_packet_step,
   Model/TcpAnalyzer.v tcp_packet_step) on private tables of capacity capw, and the dispatcher using the
   model of the real dispatch hash (Model/Hash.v tls_worker / tcp_worker over an arbitrary hasher SipH).
   pool_dom f  = the frames the theorems speak about: the analyzer reports endpoints for f (TCP segment with
                 a TCP view), Ethernet/raw framing with the announced IP version (c18_dom), outside the open
                 class raw_as_ethernet.  Frames outside (e.g. the TLS hash returns None => the pool discards
                 them, or BSD-loopback framing) are EXCLUDED BY HYPOTHESIS.
   *_pool_withinb = when worker w takes packet p, p fits w's table (no eviction in any worker);
   *_within_capacityb caps = the sequential analyzer with capacity caps does not evict on the dispatched trace.
   TTL expiry, queue overflow and the OS schedule are outside (see props/C10.json).
   Proofs: Proofs/PoolInstances.v (generic pool simulation + instances), Proofs/FrameBridge.v (Model/Pnet.v and
   Model/RawFrame.v decode frames identically, so the analyzers' keys are functions of the C18 identity). *)
From Coq Require Import ZArith.
From HN Require Import Model.Hash Model.TlsReader Model.TlsAnalyzer Model.TcpAnalyzer Model.PoolConcrete.
From HN Require Model.Uptime.
From HN Require Import Proofs.KeyedExamples Proofs.PoolInstances Proofs.PoolExamples.
Open Scope N_scope.

(* (1) the real dispatch is a function of the analyzer's key: TLS flow key = directed 4-tuple *)
Theorem C10_tls_dispatch_by_key : forall (SipH : ident -> N) (n : N) (p q : bytes),
  0 < n -> pool_dom p = true -> pool_dom q = true -> tls_key p = tls_key q ->
  tls_worker SipH n p = tls_worker SipH n q /\ exists w, tls_worker SipH n p = Some w /\ w < n.
Proof. exact tls_dispatch_by_key. Qed.
Check C10_tls_dispatch_by_key : forall (SipH : ident -> N) (n : N) (p q : bytes),
  0 < n -> pool_dom p = true -> pool_dom q = true -> tls_key p = tls_key q ->
  tls_worker SipH n p = tls_worker SipH n q /\ exists w, tls_worker SipH n p = Some w /\ w < n.
Print Assumptions C10_tls_dispatch_by_key.

(* TCP: the pool shards by SOURCE ADDRESS; the tracker key (connection, role) determines the source address,
   so the shard is a function of the (finer) key and the pool theorem applies at the tracker key itself *)
Theorem C10_tcp_dispatch_by_key : forall (SipH : ident -> N) (n : N) (p q : tcp_event),
  0 < n -> pool_dom (fst p) = true -> pool_dom (fst q) = true -> tcp_pool_key p = tcp_pool_key q ->
  tcp_worker SipH n (fst p) = tcp_worker SipH n (fst q) /\ exists w, tcp_worker SipH n (fst p) = Some w /\ w < n.
Proof. exact tcp_dispatch_by_key. Qed.
Check C10_tcp_dispatch_by_key : forall (SipH : ident -> N) (n : N) (p q : tcp_event),
  0 < n -> pool_dom (fst p) = true -> pool_dom (fst q) = true -> tcp_pool_key p = tcp_pool_key q ->
  tcp_worker SipH n (fst p) = tcp_worker SipH n (fst q) /\ exists w, tcp_worker SipH n (fst p) = Some w /\ w < n.
Print Assumptions C10_tcp_dispatch_by_key.

(* (2) TLS pool = sequential TLS analyzer: every schedule that ends with empty queues delivers, per flow and
   in order, and as a multiset, the results of the sequential concrete analyzer on the dispatched trace *)
Theorem C10_tls_pool_concrete : forall (SipH : ident -> N) (n capw caps : N) (es : list (ev bytes)),
  let x := tls_pool_run SipH n capw es in
  0 < n -> (forall f, In f (dispatched bytes es) -> pool_dom f = true) ->
  tls_pool_withinb SipH n capw es = true ->
  tls_within_capacityb caps [] (dispatched bytes es) = true ->
  (forall w, cq bytes N tls_out tls_state x w = []) ->
  (forall k, proj N tls_out N.eqb k (couts bytes N tls_out tls_state x)
             = proj N tls_out N.eqb k (tls_results caps [] (dispatched bytes es)))
  /\ Permutation (couts bytes N tls_out tls_state x) (tls_results caps [] (dispatched bytes es)).
Proof. exact tls_pool_concrete. Qed.
Check C10_tls_pool_concrete : forall (SipH : ident -> N) (n capw caps : N) (es : list (ev bytes)),
  let x := tls_pool_run SipH n capw es in
  0 < n -> (forall f, In f (dispatched bytes es) -> pool_dom f = true) ->
  tls_pool_withinb SipH n capw es = true ->
  tls_within_capacityb caps [] (dispatched bytes es) = true ->
  (forall w, cq bytes N tls_out tls_state x w = []) ->
  (forall k, proj N tls_out N.eqb k (couts bytes N tls_out tls_state x)
             = proj N tls_out N.eqb k (tls_results caps [] (dispatched bytes es)))
  /\ Permutation (couts bytes N tls_out tls_state x) (tls_results caps [] (dispatched bytes es)).
Print Assumptions C10_tls_pool_concrete.

(* satisfiable: two workers, the sibling connections of C07_tls_example on different workers, A's second
   segment dispatched after B was analysed; delivery order differs from the sequential order, A is reported once *)
Example C10_tls_pool_example :
  let x := tls_pool_run src_hash 2 8 tls_sched in
  0 < 2 /\ (forall f, In f (dispatched bytes tls_sched) -> pool_dom f = true) /\
  tls_pool_withinb src_hash 2 8 tls_sched = true /\
  tls_within_capacityb 8 [] (dispatched bytes tls_sched) = true /\
  (forall w, cq bytes N tls_out tls_state x w = []) /\
  tls_wk src_hash 2 tlsA1 = 1%nat /\ tls_wk src_hash 2 tlsB1 = 0%nat /\
  map is_report (map snd (couts bytes N tls_out tls_state x)) = [true; false; true] /\
  map is_report (proj N tls_out N.eqb tls_kA (couts bytes N tls_out tls_state x)) = [false; true].
Proof. exact tls_pool_example. Qed.

(* (4) TCP pool = sequential TCP analyzer, at the tracker key (connection, role); results tagged with
   tcp_pool_key (= tcp_key on every frame process_frame accepts); the untagged sequential results are tcp_run's *)
Theorem C10_tcp_pool_concrete :
  forall (SipH : ident -> N) (db : list (bytes * list N)) (n capw caps : N) (es : list (ev tcp_event)),
  let x := tcp_pool_run SipH db n capw es in
  0 < n -> (forall e, In e (dispatched tcp_event es) -> pool_dom (fst e) = true) ->
  tcp_pool_withinb SipH db n capw es = true ->
  tcp_within_capacityb db caps [] (dispatched tcp_event es) = true ->
  (forall w, cq tcp_event Uptime.connection_key tcp_result tcp_state x w = []) ->
  (forall k, proj Uptime.connection_key tcp_result Uptime.key_eqb k (couts tcp_event Uptime.connection_key tcp_result tcp_state x)
             = proj Uptime.connection_key tcp_result Uptime.key_eqb k (tcp_results_pk db caps [] (dispatched tcp_event es)))
  /\ Permutation (couts tcp_event Uptime.connection_key tcp_result tcp_state x)
                 (tcp_results_pk db caps [] (dispatched tcp_event es)).
Proof. exact tcp_pool_concrete. Qed.
Check C10_tcp_pool_concrete :
  forall (SipH : ident -> N) (db : list (bytes * list N)) (n capw caps : N) (es : list (ev tcp_event)),
  let x := tcp_pool_run SipH db n capw es in
  0 < n -> (forall e, In e (dispatched tcp_event es) -> pool_dom (fst e) = true) ->
  tcp_pool_withinb SipH db n capw es = true ->
  tcp_within_capacityb db caps [] (dispatched tcp_event es) = true ->
  (forall w, cq tcp_event Uptime.connection_key tcp_result tcp_state x w = []) ->
  (forall k, proj Uptime.connection_key tcp_result Uptime.key_eqb k (couts tcp_event Uptime.connection_key tcp_result tcp_state x)
             = proj Uptime.connection_key tcp_result Uptime.key_eqb k (tcp_results_pk db caps [] (dispatched tcp_event es)))
  /\ Permutation (couts tcp_event Uptime.connection_key tcp_result tcp_state x)
                 (tcp_results_pk db caps [] (dispatched tcp_event es)).
Print Assumptions C10_tcp_pool_concrete.

Example C10_tcp_pool_example :
  let x := tcp_pool_run src_hash [] 2 8 tcp_sched in
  0 < 2 /\ (forall e, In e (dispatched tcp_event tcp_sched) -> pool_dom (fst e) = true) /\
  tcp_pool_withinb src_hash [] 2 8 tcp_sched = true /\
  tcp_within_capacityb [] 8 [] (dispatched tcp_event tcp_sched) = true /\
  (forall w, cq tcp_event Uptime.connection_key tcp_result tcp_state x w = []) /\
  tcp_wk src_hash 2 tcpA1 = 1%nat /\ tcp_wk src_hash 2 tcpB1 = 0%nat /\
  map up_freq (map snd (couts tcp_event Uptime.connection_key tcp_result tcp_state x)) = [None; None; Some 1000%Z; Some 100%Z].
Proof. exact tcp_pool_example. Qed.

(* ---------------------------------------------------------------- HTTP pool (Model/HttpGlue.v http_pool_run):
   workers run the packet-level HTTP analyzer model on private flow tables; dispatch = the real HTTP flow hash
   (endpoints ordered before hashing).  Key = the connection (both directions).  Parsers: any pure functions. *)
From HN Require Import Base.Cache Model.HttpFlow Model.HttpAnalyzer Model.HttpGlue Proofs.HttpInstances Proofs.HttpExamples.
From HN Require Model.HttpRecog.

Theorem C10_http_dispatch_by_key : forall (SipH : ident -> N) (n : N) (p q : bytes),
  0 < n -> pool_dom p = true -> pool_dom q = true -> http_key p = http_key q ->
  http_worker SipH n p = http_worker SipH n q /\ exists w, http_worker SipH n p = Some w /\ w < n.
Proof. exact http_dispatch_by_key. Qed.
Check C10_http_dispatch_by_key : forall (SipH : ident -> N) (n : N) (p q : bytes),
  0 < n -> pool_dom p = true -> pool_dom q = true -> http_key p = http_key q ->
  http_worker SipH n p = http_worker SipH n q /\ exists w, http_worker SipH n p = Some w /\ w < n.
Print Assumptions C10_http_dispatch_by_key.

Theorem C10_http_pool_concrete :
  forall (Req Resp : Type) (parse_req : bytes -> option Req) (parse_resp : bytes -> option Resp)
         (SipH : ident -> N) (n capw caps : N) (es : list (ev bytes)),
  let x := http_pool_run parse_req parse_resp SipH n capw es in
  0 < n -> (forall f, In f (dispatched bytes es) -> pool_dom f = true) ->
  http_pool_withinb parse_req parse_resp SipH n capw es = true ->
  http_within_capacityb parse_req parse_resp (cache_new caps) (dispatched bytes es) = true ->
  (forall w, cq bytes fkey (@http_out Req Resp) http_state x w = []) ->
  (forall K, proj fkey (@http_out Req Resp) fkey_eqb K (couts bytes fkey (@http_out Req Resp) http_state x)
             = proj fkey (@http_out Req Resp) fkey_eqb K (http_results parse_req parse_resp (cache_new caps) (dispatched bytes es)))
  /\ Permutation (couts bytes fkey (@http_out Req Resp) http_state x)
                 (http_results parse_req parse_resp (cache_new caps) (dispatched bytes es)).
Proof. exact @http_pool_concrete. Qed.
Check C10_http_pool_concrete :
  forall (Req Resp : Type) (parse_req : bytes -> option Req) (parse_resp : bytes -> option Resp)
         (SipH : ident -> N) (n capw caps : N) (es : list (ev bytes)),
  let x := http_pool_run parse_req parse_resp SipH n capw es in
  0 < n -> (forall f, In f (dispatched bytes es) -> pool_dom f = true) ->
  http_pool_withinb parse_req parse_resp SipH n capw es = true ->
  http_within_capacityb parse_req parse_resp (cache_new caps) (dispatched bytes es) = true ->
  (forall w, cq bytes fkey (@http_out Req Resp) http_state x w = []) ->
  (forall K, proj fkey (@http_out Req Resp) fkey_eqb K (couts bytes fkey (@http_out Req Resp) http_state x)
             = proj fkey (@http_out Req Resp) fkey_eqb K (http_results parse_req parse_resp (cache_new caps) (dispatched bytes es)))
  /\ Permutation (couts bytes fkey (@http_out Req Resp) http_state x)
                 (http_results parse_req parse_resp (cache_new caps) (dispatched bytes es)).
Print Assumptions C10_http_pool_concrete.

(* satisfiable: two workers; A's request segments AND its response (opposite direction) reach worker 1, B worker 0 *)
Example C10_http_pool_example :
  let x := http_pool_run HttpRecog.recog_req HttpRecog.recog_resp src_hash 2 8 http_sched in
  0 < 2 /\ (forall f, In f (dispatched bytes http_sched) -> pool_dom f = true) /\
  http_pool_withinb HttpRecog.recog_req HttpRecog.recog_resp src_hash 2 8 http_sched = true /\
  http_within_capacityb HttpRecog.recog_req HttpRecog.recog_resp (cache_new 8) (dispatched bytes http_sched) = true /\
  (forall w, cq bytes fkey (@http_out bytes bytes) http_state x w = []) /\
  http_wk src_hash 2 hA_syn = 1%nat /\ http_wk src_hash 2 hA_resp = 1%nat /\ http_wk src_hash 2 hB_syn = 0%nat /\
  map hkind (map snd (couts bytes fkey (@http_out bytes bytes) http_state x)) = [0; 1; 0; 0; 1; 2].
Proof. exact http_pool_example. Qed.
