(* C10 — parallel mode is observationally equivalent to sequential mode.
   Transition system (Base/Keyed.v): per-worker FIFO queues + private keyed analyzer states + result bag;
   events Disp p (enqueue on worker shard (key p)) and Work w (worker w dequeues one packet and steps).
   Batch size and timeout are scheduling parameters: they only choose among Work events. *)
From Coq Require Import List NArith Bool Permutation.
From HN Require Import Base.Bytes Base.Keyed.
Import ListNotations.

(* for EVERY schedule that ends with empty queues, every keyed analyzer and every shard function of the
   key: each identity's results are the sequential ones, in order ... *)
Theorem C10_pool_refines_seq : forall (P K S O : Type) (key : P -> K) (keqb : K -> K -> bool),
  (forall a b, keqb a b = true <-> a = b) ->
  forall (lstep : option S -> P -> option S * list O) (shard : K -> nat) (s0 : K -> option S) (es : list (ev P)),
  let x := fold_left (pstep P K S O key keqb lstep shard) es (init P K S O s0) in
  (forall w, q P K S O x w = []) ->
  forall k, proj K O keqb k (outs P K S O x)
          = proj K O keqb k (snd (run P K S O key keqb lstep s0 (dispatched P es))).
Proof. exact pool_refines_seq. Qed.
Print Assumptions C10_pool_refines_seq.

(* ... and the delivered results are, as a multiset, exactly the sequential results *)
Theorem C10_pool_outputs_permutation : forall (P K S O : Type) (key : P -> K) (keqb : K -> K -> bool),
  (forall a b, keqb a b = true <-> a = b) ->
  forall (lstep : option S -> P -> option S * list O) (shard : K -> nat) (s0 : K -> option S) (es : list (ev P)),
  let x := fold_left (pstep P K S O key keqb lstep shard) es (init P K S O s0) in
  (forall w, q P K S O x w = []) ->
  Permutation (outs P K S O x) (snd (run P K S O key keqb lstep s0 (dispatched P es))).
Proof. exact pool_outputs_permutation. Qed.
Print Assumptions C10_pool_outputs_permutation.
