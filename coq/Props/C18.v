(* C18 — dispatch keeps connections together and accounts for every packet exactly once.
   Property theorems only; proofs live in Proofs/HashProofs.v (T1) and Proofs/PoolAcctProofs.v (T2). *)
From Coq Require Import List NArith Arith Permutation.
From HN Require Import Base.Bytes Model.Filter Model.RawFrame Model.Hash Model.PoolAcct Spec.HashSpec
     Proofs.HashProofs Proofs.PoolAcctProofs.
Import ListNotations.
Open Scope N_scope.

(* T1, affinity.  For any hasher SipH and any worker count n >= 1: two frames for which the analyzer
   reports the same connection identity are sent to the same worker, and that worker index is valid.
   The identity mentions the addresses and ports only, so payload, flags, lengths, options, TTL, framing
   cannot influence the worker. *)
Theorem C18_affinity_tcp :
  forall (SipH : ident -> N) (n : N) (p q : bytes),
    0 < n -> identity_tcp p = identity_tcp q -> identity_tcp p <> None ->
    c18_dom p = true -> c18_dom q = true ->
    tcp_worker SipH n p = tcp_worker SipH n q /\ exists w, tcp_worker SipH n p = Some w /\ w < n.
Proof. exact affinity_tcp. Qed.
Check C18_affinity_tcp :
  forall (SipH : ident -> N) (n : N) (p q : bytes),
    0 < n -> identity_tcp p = identity_tcp q -> identity_tcp p <> None ->
    c18_dom p = true -> c18_dom q = true ->
    tcp_worker SipH n p = tcp_worker SipH n q /\ exists w, tcp_worker SipH n p = Some w /\ w < n.
Print Assumptions C18_affinity_tcp.

Theorem C18_affinity_tls :
  forall (SipH : ident -> N) (n : N) (p q : bytes),
    0 < n -> identity_tls p = identity_tls q -> identity_tls p <> None ->
    c18_dom p = true -> c18_dom q = true ->
    tls_worker SipH n p = tls_worker SipH n q /\ exists w, tls_worker SipH n p = Some w /\ w < n.
Proof. exact affinity_tls. Qed.
Check C18_affinity_tls :
  forall (SipH : ident -> N) (n : N) (p q : bytes),
    0 < n -> identity_tls p = identity_tls q -> identity_tls p <> None ->
    c18_dom p = true -> c18_dom q = true ->
    tls_worker SipH n p = tls_worker SipH n q /\ exists w, tls_worker SipH n p = Some w /\ w < n.
Print Assumptions C18_affinity_tls.

Theorem C18_affinity_http :
  forall (SipH : ident -> N) (n : N) (p q : bytes),
    0 < n -> identity_http p = identity_http q -> identity_http p <> None ->
    c18_dom p = true -> c18_dom q = true ->
    http_worker SipH n p = http_worker SipH n q /\ exists w, http_worker SipH n p = Some w /\ w < n.
Proof. exact affinity_http. Qed.
Check C18_affinity_http :
  forall (SipH : ident -> N) (n : N) (p q : bytes),
    0 < n -> identity_http p = identity_http q -> identity_http p <> None ->
    c18_dom p = true -> c18_dom q = true ->
    http_worker SipH n p = http_worker SipH n q /\ exists w, http_worker SipH n p = Some w /\ w < n.
Print Assumptions C18_affinity_http.

(* HTTP: the two directions of one connection, stated without the normal form *)
Theorem C18_http_both_directions :
  forall (SipH : ident -> N) (n : N) (p q : bytes) (e : endpoints),
    analyzer_endpoints p = Some e -> analyzer_endpoints q = Some (flip e) ->
    c18_dom p = true -> c18_dom q = true ->
    http_worker SipH n p = http_worker SipH n q.
Proof. exact http_both_directions_all. Qed.
Check C18_http_both_directions :
  forall (SipH : ident -> N) (n : N) (p q : bytes) (e : endpoints),
    analyzer_endpoints p = Some e -> analyzer_endpoints q = Some (flip e) ->
    c18_dom p = true -> c18_dom q = true ->
    http_worker SipH n p = http_worker SipH n q.
Print Assumptions C18_http_both_directions.

(* the hypotheses of the affinity theorems are satisfiable on a non-trivial input: the SYN and the SYN-ACK of
   one connection (opposite directions), IHL 5 and 7, different flags, windows, options and lengths *)
Example C18_affinity_hypotheses_satisfiable :
  let p := hexb (bs "0200000000010200000000020800450000280000400040060000c0a801010a000002303901bb00000001000000005002ffff00000000") in
  let q := hexb (bs "02000000000102000000000208004700003400004000330600000a000002c0a80101010101010101010101bb303900000009000000026012721000000000020405b4") in
  let e := {| e_src := V4 3232235777; e_dst := V4 167772162; e_sport := 12345; e_dport := 443 |} in
  analyzer_endpoints p = Some e /\ analyzer_endpoints q = Some (flip e) /\
  c18_dom p = true /\ c18_dom q = true /\
  identity_http p = identity_http q /\ identity_http p <> None /\ http_ident p = http_ident q /\
  identity_tls p <> identity_tls q.
Proof. vm_compute. repeat split; try reflexivity; discriminate. Qed.

(* the former known class (C18-raw-86dd, repaired: the hash functions take the Ethernet reading only when the
   frame can hold the IP header its ethertype announces, as parse_packet does): the class is empty, and the old
   witness -- two raw IPv4 SYNs from 134.221.16.7, 40 bytes, differing in the last byte -- now hash alike *)
Theorem C18_former_class_empty : forall f : bytes, raw_as_ethernet f = false.
Proof. exact raw_as_ethernet_empty. Qed.
Check C18_former_class_empty : forall f : bytes, raw_as_ethernet f = false.
Print Assumptions C18_former_class_empty.

Lemma Known_raw_as_ethernet_former_witness_agrees :
  identity_tcp raw_86dd_a = identity_tcp raw_86dd_b /\ identity_tcp raw_86dd_a <> None /\
  c18_dom raw_86dd_a = true /\ c18_dom raw_86dd_b = true /\
  (forall SipH n, tcp_worker SipH n raw_86dd_a = tcp_worker SipH n raw_86dd_b) /\
  (forall SipH n, http_worker SipH n raw_86dd_a = http_worker SipH n raw_86dd_b) /\
  (forall SipH n, tls_worker SipH n raw_86dd_a = tls_worker SipH n raw_86dd_b) /\
  (forall SipH n, tls_worker SipH n raw_86dd_a <> None).
Proof.
  destruct raw_as_ethernet_former_witness_agrees as (H1 & H2 & H3 & H4 & H5 & H6 & H7 & H8 & _).
  repeat split; auto.
  - rewrite H2. discriminate.
  - intros SipH n. unfold tls_worker. destruct (tls_ident raw_86dd_a); [discriminate | now elim H8].
Qed.
Print Assumptions Known_raw_as_ethernet_former_witness_agrees.

(* T2, accounting.  One pool of any of the three kinds, any number of workers and dispatcher threads, any
   interleaving of the shared-memory steps of concurrent dispatch calls and of worker consumption, whatever the
   channel answers to try_send, before shutdown.  At quiescence (every call returned, every queue consumed):
   every call was reported Queued or Dropped; the packets analysed are exactly (as a multiset) the packets
   reported Queued -- each once, none of the dropped ones; total_dropped = number of Dropped outcomes;
   total_dispatched obeys the pool's law (TCP: = Queued; HTTP: = calls; TLS: = calls - discarded);
   worker_dropped[w] = Dropped outcomes routed to w, in all three pools (since fix 93cdf08 also HTTP), whatever
   the analyses return: stats() agrees with the outcomes the dispatch calls returned, unconditionally.
   Level: proof, partial -- atomics are sequentially consistent steps of this model, crossbeam channels are
   FIFO lists, real thread interleavings are only sampled by the harness. *)
Theorem C18_accounting :
  forall (P St : Type) (shard : P -> option nat) (analyse : St -> P -> St * bool) (kind : pool_kind) (nw : nat),
    (forall p, (worker_of P shard p < nw)%nat) ->
    forall (nt : nat) (s0 : St) (es : list (ev P)),
      let x := run_events P St shard analyse kind (init P St nw nt s0) es in
      quiescent P St x = true ->
      calls P St x = n_queued P St x + n_dropped P St x
      /\ Permutation (queued_packets P St x) (analysed_packets P St x)
      /\ c_dropped P St x = n_dropped P St x
      /\ dispatched_law_b P St kind x = true
      /\ (forall w, (w < nw)%nat -> nth w (c_wdropped P St x) 0 = dropped_at P St x w)
      /\ stats_agree_b P St nw x = true.
Proof. exact accounting. Qed.
Check C18_accounting :
  forall (P St : Type) (shard : P -> option nat) (analyse : St -> P -> St * bool) (kind : pool_kind) (nw : nat),
    (forall p, (worker_of P shard p < nw)%nat) ->
    forall (nt : nat) (s0 : St) (es : list (ev P)),
      let x := run_events P St shard analyse kind (init P St nw nt s0) es in
      quiescent P St x = true ->
      calls P St x = n_queued P St x + n_dropped P St x
      /\ Permutation (queued_packets P St x) (analysed_packets P St x)
      /\ c_dropped P St x = n_dropped P St x
      /\ dispatched_law_b P St kind x = true
      /\ (forall w, (w < nw)%nat -> nth w (c_wdropped P St x) 0 = dropped_at P St x w)
      /\ stats_agree_b P St nw x = true.
Print Assumptions C18_accounting.

(* hypotheses satisfiable: a TCP pool with two workers and two interleaved dispatchers, one overflow *)
Example C18_accounting_hypotheses_satisfiable :
  let shard := fun p : nat => Some (p mod 2)%nat in
  let x := run_events nat unit shard (fun s _ => (s, false)) PTcp (init nat unit 2 2 tt)
             [Call 0 4%nat; Call 1 7%nat; Tick 0 false; Tick 1 true; Tick 0 false; Tick 1 false; Work 0; Tick 1 false] in
  (forall p, (worker_of nat shard p < 2)%nat) /\ quiescent nat unit x = true /\
  n_queued nat unit x = 1 /\ n_dropped nat unit x = 1 /\ c_wdropped nat unit x = [0; 1].
Proof.
  split.
  - intros p. unfold worker_of. apply PeanoNat.Nat.mod_upper_bound. discriminate.
  - vm_compute. repeat split; reflexivity.
Qed.

(* the former known class (C18-http-error-as-drop, fixed by 93cdf08): an HTTP packet reported Queued whose
   analysis returns Err leaves every counter alone *)
Example C18_http_error_not_counted :
  let x := run_events nat unit (fun _ => Some 0%nat) (fun s _ => (s, true)) PHttp (init nat unit 1 1 tt)
             [Call 0 5%nat; Tick 0 false; Tick 0 false; Work 0] in
  quiescent nat unit x = true /\ analysed nat unit x = [(0%nat, 5%nat, true)] /\
  n_dropped nat unit x = 0 /\ c_wdropped nat unit x = [0] /\ stats_agree_b nat unit 1 x = true.
Proof. destruct http_error_not_counted as (H1 & H2 & H3 & H4 & H5 & H6 & H7). repeat split; assumption. Qed.
