(* C07 — connections are analysed in isolation.  Generic over every analyzer that is a keyed machine
   (the effect of a packet is confined to the slot of its connection key, within capacity, no expiry):
   step s p = (upd s (key p) v, outputs tagged key p) with (v, outputs) = lstep (s (key p)) p.
   Proofs: Base/Keyed.v, Proofs/KeyedProofs.v. *)
From Coq Require Import List NArith ZArith Bool.
From HN Require Import Base.Bytes Base.Keyed Proofs.KeyedProofs.
From HN Require Import Model.TlsReader Model.TlsAnalyzer Model.TcpAnalyzer.
From HN Require Model.Uptime.
From HN Require Import Proofs.KeyedInstances Proofs.KeyedInstancesTcp Proofs.KeyedExamples.
Import ListNotations.

(* the results attributed to connection k in ANY interleaving are those of its own packets alone *)
Theorem C07_isolation : forall (P K S O : Type) (key : P -> K) (keqb : K -> K -> bool),
  (forall a b, keqb a b = true <-> a = b) ->
  forall (lstep : option S -> P -> option S * list O) (tr : list P) (s : K -> option S) (k : K),
  proj K O keqb k (snd (run P K S O key keqb lstep s tr))
  = proj K O keqb k (snd (run P K S O key keqb lstep s (fk P K key keqb k tr))).
Proof. exact isolation. Qed.
Print Assumptions C07_isolation.

(* two traces with the same per-connection subtraces (= all order-preserving interleavings of the same
   connections) give every connection the same results *)
Theorem C07_interleaving_invariant : forall (P K S O : Type) (key : P -> K) (keqb : K -> K -> bool),
  (forall a b, keqb a b = true <-> a = b) ->
  forall (lstep : option S -> P -> option S * list O) (tr tr' : list P) (s : K -> option S),
  (forall k, fk P K key keqb k tr = fk P K key keqb k tr') ->
  forall k, proj K O keqb k (snd (run P K S O key keqb lstep s tr))
          = proj K O keqb k (snd (run P K S O key keqb lstep s tr')).
Proof. exact interleaving_invariant. Qed.
Print Assumptions C07_interleaving_invariant.

(* no connection can disable analysis of the connections that follow it *)
Theorem C07_no_disable : forall (P K S O : Type) (key : P -> K) (keqb : K -> K -> bool),
  (forall a b, keqb a b = true <-> a = b) ->
  forall (lstep : option S -> P -> option S * list O) (h probe : list P) (s : K -> option S) (k : K),
  (forall p, In p h -> keqb (key p) k = false) ->
  proj K O keqb k (snd (run P K S O key keqb lstep s (h ++ probe)))
  = proj K O keqb k (snd (run P K S O key keqb lstep s probe)).
Proof. exact no_disable. Qed.
Print Assumptions C07_no_disable.

(* ====================================================================================================
   CONCRETE INSTANCES.  The packet-level models of the real sequential analyzers
     TLS: Model/TlsAnalyzer.v  tls_run cap fl frames      (packet_parser framing -> pnet views -> process.rs flow
                                                           step over the TtlCache model -> ObservableTlsClient)
     TCP: Model/TcpAnalyzer.v  tcp_run db cap tr events   (event = frame + clock reading; TcpExtract signature/MTU
                                                           part + uptime::check_ts_tcp per timestamp option)
   ARE keyed machines while the table stays within its capacity (no eviction; TTL expiry is outside the
   models), so the generic theorems above hold for them.  Keys:  tls_key = directed 4-tuple
   (version, src, dst, sport, dport) as process.rs builds FlowKey;  tcp_key = (Connection, is_client) as
   uptime.rs builds ConnectionKey.  `*_results` = the per-packet results tagged with the key of the packet;
   `*_within_capacityb cap st tr` = along the run of tr from st, a packet whose key is not in the table
   arrives only while the table holds fewer than cap entries.  The models are tied to the real analyzers
   by the L and T case kinds of Extract/EC07.v (same frames through model and code, every run).
   Proofs: Proofs/KeyedInstances.v, KeyedInstancesTcp.v, KeyedExamples.v. *)
Open Scope N_scope.

(* ---------------------------------------------------------------- TLS *)
(* simulation: the concrete run equals Keyed.run of (tls_key, tls_lstep) on the table read as a function *)
Theorem C07_tls_is_keyed : forall (cap : N) (tr : list bytes) (fl : tls_state),
  tls_within_capacityb cap fl tr = true ->
  tls_results cap fl tr = snd (run bytes N reader tls_out tls_key N.eqb tls_lstep (tls_abs fl) tr).
Proof. exact tls_is_keyed. Qed.
Check C07_tls_is_keyed : forall (cap : N) (tr : list bytes) (fl : tls_state),
  tls_within_capacityb cap fl tr = true ->
  tls_results cap fl tr = snd (run bytes N reader tls_out tls_key N.eqb tls_lstep (tls_abs fl) tr).
Print Assumptions C07_tls_is_keyed.

(* the results of flow k in ANY trace are the results of its own packets run alone from the same state:
   as tagged results, and literally as the output of the analyzer on the sub-trace *)
Theorem C07_tls_isolation : forall (cap : N) (tr : list bytes) (fl : tls_state) (k : N),
  tls_within_capacityb cap fl tr = true ->
  tls_within_capacityb cap fl (fk bytes N tls_key N.eqb k tr) = true ->
  proj N tls_out N.eqb k (tls_results cap fl tr)
    = proj N tls_out N.eqb k (tls_results cap fl (fk bytes N tls_key N.eqb k tr))
  /\ proj N tls_out N.eqb k (tls_results cap fl tr) = snd (tls_run cap fl (fk bytes N tls_key N.eqb k tr)).
Proof. exact tls_isolation. Qed.
Check C07_tls_isolation : forall (cap : N) (tr : list bytes) (fl : tls_state) (k : N),
  tls_within_capacityb cap fl tr = true ->
  tls_within_capacityb cap fl (fk bytes N tls_key N.eqb k tr) = true ->
  proj N tls_out N.eqb k (tls_results cap fl tr)
    = proj N tls_out N.eqb k (tls_results cap fl (fk bytes N tls_key N.eqb k tr))
  /\ proj N tls_out N.eqb k (tls_results cap fl tr) = snd (tls_run cap fl (fk bytes N tls_key N.eqb k tr)).
Print Assumptions C07_tls_isolation.

Theorem C07_tls_interleaving_invariant : forall (cap : N) (tr tr' : list bytes) (fl : tls_state),
  tls_within_capacityb cap fl tr = true -> tls_within_capacityb cap fl tr' = true ->
  (forall k, fk bytes N tls_key N.eqb k tr = fk bytes N tls_key N.eqb k tr') ->
  forall k, proj N tls_out N.eqb k (tls_results cap fl tr) = proj N tls_out N.eqb k (tls_results cap fl tr').
Proof. exact tls_interleaving_invariant. Qed.
Check C07_tls_interleaving_invariant : forall (cap : N) (tr tr' : list bytes) (fl : tls_state),
  tls_within_capacityb cap fl tr = true -> tls_within_capacityb cap fl tr' = true ->
  (forall k, fk bytes N tls_key N.eqb k tr = fk bytes N tls_key N.eqb k tr') ->
  forall k, proj N tls_out N.eqb k (tls_results cap fl tr) = proj N tls_out N.eqb k (tls_results cap fl tr').
Print Assumptions C07_tls_interleaving_invariant.

(* no flow disables the ones that follow: after any history h of OTHER flows the probe is analysed as without h *)
Theorem C07_tls_no_disable : forall (cap : N) (h probe : list bytes) (fl : tls_state) (k : N),
  tls_within_capacityb cap fl (h ++ probe) = true -> tls_within_capacityb cap fl probe = true ->
  (forall f, In f h -> tls_key f <> k) ->
  proj N tls_out N.eqb k (tls_results cap fl (h ++ probe)) = proj N tls_out N.eqb k (tls_results cap fl probe).
Proof. exact tls_no_disable. Qed.
Check C07_tls_no_disable : forall (cap : N) (h probe : list bytes) (fl : tls_state) (k : N),
  tls_within_capacityb cap fl (h ++ probe) = true -> tls_within_capacityb cap fl probe = true ->
  (forall f, In f h -> tls_key f <> k) ->
  proj N tls_out N.eqb k (tls_results cap fl (h ++ probe)) = proj N tls_out N.eqb k (tls_results cap fl probe).
Print Assumptions C07_tls_no_disable.

(* the capacity hypotheses follow from a count: tracked flows + packets to come <= capacity *)
Theorem C07_tls_capacity_by_count : forall (cap : N) (tr : list bytes) (fl : tls_state) (k : N),
  TlsHello.lenN fl + TlsHello.lenN tr <= cap ->
  tls_within_capacityb cap fl tr = true /\ tls_within_capacityb cap fl (fk bytes N tls_key N.eqb k tr) = true.
Proof. exact tls_capacity_by_count. Qed.
Check C07_tls_capacity_by_count : forall (cap : N) (tr : list bytes) (fl : tls_state) (k : N),
  TlsHello.lenN fl + TlsHello.lenN tr <= cap ->
  tls_within_capacityb cap fl tr = true /\ tls_within_capacityb cap fl (fk bytes N tls_key N.eqb k tr) = true.
Print Assumptions C07_tls_capacity_by_count.

(* ... or from a census of flows: every key in the table or inserted by the trace is one of at most cap
   keys U ("at most cap live flows"); tls_tracked f = the frame reaches the flow table *)
Theorem C07_tls_capacity_by_census : forall (cap : N) (U : list N) (tr : list bytes) (fl : tls_state) (k : N),
  NoDup (tls_keys fl) -> incl (tls_keys fl) U ->
  (forall f, In f tr -> tls_tracked f = true -> In (tls_key f) U) ->
  TlsHello.lenN U <= cap ->
  tls_within_capacityb cap fl tr = true /\ tls_within_capacityb cap fl (fk bytes N tls_key N.eqb k tr) = true.
Proof. exact tls_capacity_by_census. Qed.
Check C07_tls_capacity_by_census : forall (cap : N) (U : list N) (tr : list bytes) (fl : tls_state) (k : N),
  NoDup (tls_keys fl) -> incl (tls_keys fl) U ->
  (forall f, In f tr -> tls_tracked f = true -> In (tls_key f) U) ->
  TlsHello.lenN U <= cap ->
  tls_within_capacityb cap fl tr = true /\ tls_within_capacityb cap fl (fk bytes N tls_key N.eqb k tr) = true.
Print Assumptions C07_tls_capacity_by_census.
Example C07_tls_census_example :
  let U := [tls_kA; tls_key tlsB1] in
  NoDup (tls_keys []) /\ incl (tls_keys []) U /\
  (forall f, In f tls_trace -> tls_tracked f = true -> In (tls_key f) U) /\ TlsHello.lenN U <= 2.
Proof. exact tls_census_example. Qed.

(* the key is the directed 4-tuple: on addresses < 2^128 and ports < 2^16 distinct tuples have distinct keys *)
Theorem C07_tls_key_is_directed_tuple : forall v s d sp dp v' s' d' sp' dp' : N,
  s < P128 -> d < P128 -> sp < 65536 -> dp < 65536 -> s' < P128 -> d' < P128 -> sp' < 65536 -> dp' < 65536 ->
  tls_flow_key v s d sp dp = tls_flow_key v' s' d' sp' dp' -> v = v' /\ s = s' /\ d = d' /\ sp = sp' /\ dp = dp'.
Proof. exact tls_flow_key_injective. Qed.
Print Assumptions C07_tls_key_is_directed_tuple.

(* the hypotheses are satisfiable on a two-connection interleaving (sibling connections that differ in the
   client address only; A's ClientHello in two segments around B's): A is reported once, on its 2nd segment *)
Example C07_tls_example :
  tls_within_capacityb 8 [] tls_trace = true /\
  tls_within_capacityb 8 [] (fk bytes N tls_key N.eqb tls_kA tls_trace) = true /\
  fk bytes N tls_key N.eqb tls_kA tls_trace = [tlsA1; tlsA2] /\
  tls_key tlsB1 <> tls_kA /\
  map is_report (proj N tls_out N.eqb tls_kA (tls_results 8 [] tls_trace)) = [false; true] /\
  map is_report (snd (tls_run 8 [] tls_trace)) = [false; true; true].
Proof. exact tls_example. Qed.
Example C07_tls_no_disable_example :
  tls_within_capacityb 8 [] ([tlsB1; tlsB1] ++ [tlsA1; tlsA2]) = true /\
  tls_within_capacityb 8 [] [tlsA1; tlsA2] = true /\
  (forall f, In f [tlsB1; tlsB1] -> tls_key f <> tls_kA).
Proof. exact tls_no_disable_example. Qed.

(* the capacity hypothesis cannot be dropped: with a table of one entry the same trace loses A's report *)
Theorem C07_tls_capacity_needed :
  tls_within_capacityb 1 [] tls_trace = false /\
  map is_report (proj N tls_out N.eqb tls_kA (tls_results 1 [] tls_trace)) = [false; false] /\
  map is_report (snd (tls_run 1 [] (fk bytes N tls_key N.eqb tls_kA tls_trace))) = [false; true].
Proof. exact tls_capacity_needed. Qed.
Print Assumptions C07_tls_capacity_needed.

(* ---------------------------------------------------------------- TCP *)
Notation ckey := Uptime.connection_key.
Notation mtu_db := (list (bytes * list N)).

Theorem C07_tcp_is_keyed : forall (db : mtu_db) (cap : N) (es : list tcp_event) (tr : tcp_state),
  tcp_within_capacityb db cap tr es = true ->
  tcp_results db cap tr es
  = snd (run tcp_event ckey Uptime.tcp_timestamp tcp_result (tcp_key db) Uptime.key_eqb (tcp_lstep db) (tcp_abs tr) es).
Proof. exact tcp_is_keyed. Qed.
Check C07_tcp_is_keyed : forall (db : mtu_db) (cap : N) (es : list tcp_event) (tr : tcp_state),
  tcp_within_capacityb db cap tr es = true ->
  tcp_results db cap tr es
  = snd (run tcp_event ckey Uptime.tcp_timestamp tcp_result (tcp_key db) Uptime.key_eqb (tcp_lstep db) (tcp_abs tr) es).
Print Assumptions C07_tcp_is_keyed.

Theorem C07_tcp_isolation : forall (db : mtu_db) (cap : N) (es : list tcp_event) (tr : tcp_state) (k : ckey),
  tcp_within_capacityb db cap tr es = true ->
  tcp_within_capacityb db cap tr (fk tcp_event ckey (tcp_key db) Uptime.key_eqb k es) = true ->
  proj ckey tcp_result Uptime.key_eqb k (tcp_results db cap tr es)
    = proj ckey tcp_result Uptime.key_eqb k (tcp_results db cap tr (fk tcp_event ckey (tcp_key db) Uptime.key_eqb k es))
  /\ proj ckey tcp_result Uptime.key_eqb k (tcp_results db cap tr es)
    = snd (tcp_run db cap tr (fk tcp_event ckey (tcp_key db) Uptime.key_eqb k es)).
Proof. exact tcp_isolation. Qed.
Check C07_tcp_isolation : forall (db : mtu_db) (cap : N) (es : list tcp_event) (tr : tcp_state) (k : ckey),
  tcp_within_capacityb db cap tr es = true ->
  tcp_within_capacityb db cap tr (fk tcp_event ckey (tcp_key db) Uptime.key_eqb k es) = true ->
  proj ckey tcp_result Uptime.key_eqb k (tcp_results db cap tr es)
    = proj ckey tcp_result Uptime.key_eqb k (tcp_results db cap tr (fk tcp_event ckey (tcp_key db) Uptime.key_eqb k es))
  /\ proj ckey tcp_result Uptime.key_eqb k (tcp_results db cap tr es)
    = snd (tcp_run db cap tr (fk tcp_event ckey (tcp_key db) Uptime.key_eqb k es)).
Print Assumptions C07_tcp_isolation.

Theorem C07_tcp_interleaving_invariant : forall (db : mtu_db) (cap : N) (es es' : list tcp_event) (tr : tcp_state),
  tcp_within_capacityb db cap tr es = true -> tcp_within_capacityb db cap tr es' = true ->
  (forall k, fk tcp_event ckey (tcp_key db) Uptime.key_eqb k es = fk tcp_event ckey (tcp_key db) Uptime.key_eqb k es') ->
  forall k, proj ckey tcp_result Uptime.key_eqb k (tcp_results db cap tr es)
          = proj ckey tcp_result Uptime.key_eqb k (tcp_results db cap tr es').
Proof. exact tcp_interleaving_invariant. Qed.
Check C07_tcp_interleaving_invariant : forall (db : mtu_db) (cap : N) (es es' : list tcp_event) (tr : tcp_state),
  tcp_within_capacityb db cap tr es = true -> tcp_within_capacityb db cap tr es' = true ->
  (forall k, fk tcp_event ckey (tcp_key db) Uptime.key_eqb k es = fk tcp_event ckey (tcp_key db) Uptime.key_eqb k es') ->
  forall k, proj ckey tcp_result Uptime.key_eqb k (tcp_results db cap tr es)
          = proj ckey tcp_result Uptime.key_eqb k (tcp_results db cap tr es').
Print Assumptions C07_tcp_interleaving_invariant.

Theorem C07_tcp_no_disable : forall (db : mtu_db) (cap : N) (h probe : list tcp_event) (tr : tcp_state) (k : ckey),
  tcp_within_capacityb db cap tr (h ++ probe) = true -> tcp_within_capacityb db cap tr probe = true ->
  (forall e, In e h -> tcp_key db e <> k) ->
  proj ckey tcp_result Uptime.key_eqb k (tcp_results db cap tr (h ++ probe))
  = proj ckey tcp_result Uptime.key_eqb k (tcp_results db cap tr probe).
Proof. exact tcp_no_disable. Qed.
Check C07_tcp_no_disable : forall (db : mtu_db) (cap : N) (h probe : list tcp_event) (tr : tcp_state) (k : ckey),
  tcp_within_capacityb db cap tr (h ++ probe) = true -> tcp_within_capacityb db cap tr probe = true ->
  (forall e, In e h -> tcp_key db e <> k) ->
  proj ckey tcp_result Uptime.key_eqb k (tcp_results db cap tr (h ++ probe))
  = proj ckey tcp_result Uptime.key_eqb k (tcp_results db cap tr probe).
Print Assumptions C07_tcp_no_disable.

Theorem C07_tcp_capacity_by_count : forall (db : mtu_db) (cap : N) (es : list tcp_event) (tr : tcp_state) (k : ckey),
  clen tr + TlsHello.lenN es <= cap ->
  tcp_within_capacityb db cap tr es = true /\
  tcp_within_capacityb db cap tr (fk tcp_event ckey (tcp_key db) Uptime.key_eqb k es) = true.
Proof. exact tcp_capacity_by_count. Qed.
Check C07_tcp_capacity_by_count : forall (db : mtu_db) (cap : N) (es : list tcp_event) (tr : tcp_state) (k : ckey),
  clen tr + TlsHello.lenN es <= cap ->
  tcp_within_capacityb db cap tr es = true /\
  tcp_within_capacityb db cap tr (fk tcp_event ckey (tcp_key db) Uptime.key_eqb k es) = true.
Print Assumptions C07_tcp_capacity_by_count.

Theorem C07_tcp_capacity_by_census :
  forall (db : mtu_db) (cap : N) (U : list ckey) (es : list tcp_event) (tr : tcp_state) (k : ckey),
  NoDup (tcp_keys tr) -> incl (tcp_keys tr) U ->
  (forall e, In e es -> tcp_tracked db e = true -> In (tcp_key db e) U) ->
  TlsHello.lenN U <= cap ->
  tcp_within_capacityb db cap tr es = true /\
  tcp_within_capacityb db cap tr (fk tcp_event ckey (tcp_key db) Uptime.key_eqb k es) = true.
Proof. exact tcp_capacity_by_census. Qed.
Check C07_tcp_capacity_by_census :
  forall (db : mtu_db) (cap : N) (U : list ckey) (es : list tcp_event) (tr : tcp_state) (k : ckey),
  NoDup (tcp_keys tr) -> incl (tcp_keys tr) U ->
  (forall e, In e es -> tcp_tracked db e = true -> In (tcp_key db e) U) ->
  TlsHello.lenN U <= cap ->
  tcp_within_capacityb db cap tr es = true /\
  tcp_within_capacityb db cap tr (fk tcp_event ckey (tcp_key db) Uptime.key_eqb k es) = true.
Print Assumptions C07_tcp_capacity_by_census.
Example C07_tcp_census_example :
  let U := [tcp_kA; tcp_key [] tcpB1] in
  NoDup (tcp_keys []) /\ incl (tcp_keys []) U /\
  (forall e, In e tcp_trace -> tcp_tracked [] e = true -> In (tcp_key [] e) U) /\ TlsHello.lenN U <= 2.
Proof. exact tcp_census_example. Qed.

(* the signature / MTU part of a packet's result does not depend on the tracker or on the clock at all *)
Theorem C07_tcp_signature_stateless : forall (db : mtu_db) (cap : N) (tr tr' : tcp_state) (f : bytes) (now now' : Z),
  match snd (tcp_packet_step db cap tr (f, now)), snd (tcp_packet_step db cap tr' (f, now')) with
  | TRErr, TRErr => True
  | TROk o _ _, TROk o' _ _ => o = o' /\ TcpExtract.process_frame db f = TcpExtract.Ok o
  | _, _ => False
  end.
Proof. exact tcp_signature_stateless. Qed.
Print Assumptions C07_tcp_signature_stateless.

(* satisfiable: two sibling connections (clients 10.0.0.1 / 10.0.0.2, same ports, same server) with clocks at
   1000 Hz and 100 Hz, SYNs then ACKs interleaved: A's ACK reports 1000 Hz, B's 100 Hz *)
Example C07_tcp_example :
  tcp_within_capacityb [] 8 [] tcp_trace = true /\
  tcp_within_capacityb [] 8 [] (fk tcp_event ckey (tcp_key []) Uptime.key_eqb tcp_kA tcp_trace) = true /\
  fk tcp_event ckey (tcp_key []) Uptime.key_eqb tcp_kA tcp_trace = [tcpA1; tcpA2] /\
  Uptime.key_eqb (tcp_key [] tcpB1) tcp_kA = false /\
  map up_freq (proj ckey tcp_result Uptime.key_eqb tcp_kA (tcp_results [] 8 [] tcp_trace)) = [None; Some 1000%Z] /\
  map up_freq (snd (tcp_run [] 8 [] tcp_trace)) = [None; None; Some 1000%Z; Some 100%Z].
Proof. exact tcp_example. Qed.
Example C07_tcp_no_disable_example :
  tcp_within_capacityb [] 8 [] ([tcpB1; tcpB2] ++ [tcpA1; tcpA2]) = true /\
  tcp_within_capacityb [] 8 [] [tcpA1; tcpA2] = true /\
  (forall e, In e [tcpB1; tcpB2] -> tcp_key [] e <> tcp_kA).
Proof. exact tcp_no_disable_example. Qed.

Theorem C07_tcp_capacity_needed :
  tcp_within_capacityb [] 1 [] tcp_trace = false /\
  map up_freq (proj ckey tcp_result Uptime.key_eqb tcp_kA (tcp_results [] 1 [] tcp_trace)) = [None; None] /\
  map up_freq (snd (tcp_run [] 1 [] (fk tcp_event ckey (tcp_key []) Uptime.key_eqb tcp_kA tcp_trace))) = [None; Some 1000%Z].
Proof. exact tcp_capacity_needed. Qed.
Print Assumptions C07_tcp_capacity_needed.

(* ====================================================================================================
   CONCRETE INSTANCE 3: the packet-level model of the sequential HTTP analyzer (Model/HttpAnalyzer.v:
   packet_parser framing -> pnet views -> http_process.rs process_tcp_packet over the TtlCache model of
   Base/Cache.v -> the two parsers).  Key = the CONNECTION: the 4-tuple irrespective of direction
   (http_key = norm_key of FlowKey; a packet finds its flow under its own key or under the reversed one, both
   directions share one slot).  Parametric in the parsers parse_req / parse_resp : bytes -> option _ : they are
   FUNCTIONS OF THE BYTES.  In the code the HPACK decoder inside HttpProcessors is shared between connections but
   rebuilt at the start of every parse (fix c544740); that the real parse functions are pure is tied by C16's
   "a reused parser answers like a fresh one" oracle and C01's poisoning histories, it is an assumption here.
   The table carries its capacity (c_cap).  `http_within_capacityb st tr` = a packet that would open a flow
   (neither direction tracked) arrives only while the table has a free slot.  TTL expiry (60 s) is outside.
   Proofs: Proofs/HttpPlan.v (the step as a plan of cache operations on the two directed keys; locality),
   Proofs/HttpKeyed.v, Proofs/HttpCensus.v, Proofs/HttpExamples.v.  Tie to the code: kind H of Extract/EC07.v. *)
From HN Require Import Base.Cache Base.Tcp Model.HttpFlow Model.HttpAnalyzer Proofs.HttpPlan Proofs.HttpKeyed Proofs.HttpCensus Proofs.HttpExamples.
From HN Require Model.HttpRecog.

Theorem C07_http_is_keyed : forall (Req Resp : Type) (parse_req : bytes -> option Req) (parse_resp : bytes -> option Resp)
    (tr : list bytes) (st : http_state),
  http_within_capacityb parse_req parse_resp st tr = true ->
  http_results parse_req parse_resp st tr
  = snd (Keyed.run bytes fkey ents (@http_out Req Resp) http_key fkey_eqb (http_lstep parse_req parse_resp) (http_abs st) tr).
Proof. exact @http_is_keyed. Qed.
Check C07_http_is_keyed : forall (Req Resp : Type) (parse_req : bytes -> option Req) (parse_resp : bytes -> option Resp)
    (tr : list bytes) (st : http_state),
  http_within_capacityb parse_req parse_resp st tr = true ->
  http_results parse_req parse_resp st tr
  = snd (Keyed.run bytes fkey ents (@http_out Req Resp) http_key fkey_eqb (http_lstep parse_req parse_resp) (http_abs st) tr).
Print Assumptions C07_http_is_keyed.

Theorem C07_http_isolation : forall (Req Resp : Type) (parse_req : bytes -> option Req) (parse_resp : bytes -> option Resp)
    (tr : list bytes) (st : http_state) (K : fkey),
  http_within_capacityb parse_req parse_resp st tr = true ->
  http_within_capacityb parse_req parse_resp st (fk bytes fkey http_key fkey_eqb K tr) = true ->
  proj fkey (@http_out Req Resp) fkey_eqb K (http_results parse_req parse_resp st tr)
    = proj fkey (@http_out Req Resp) fkey_eqb K (http_results parse_req parse_resp st (fk bytes fkey http_key fkey_eqb K tr))
  /\ proj fkey (@http_out Req Resp) fkey_eqb K (http_results parse_req parse_resp st tr)
    = snd (HttpAnalyzer.http_run parse_req parse_resp st (fk bytes fkey http_key fkey_eqb K tr)).
Proof. exact @http_isolation. Qed.
Check C07_http_isolation : forall (Req Resp : Type) (parse_req : bytes -> option Req) (parse_resp : bytes -> option Resp)
    (tr : list bytes) (st : http_state) (K : fkey),
  http_within_capacityb parse_req parse_resp st tr = true ->
  http_within_capacityb parse_req parse_resp st (fk bytes fkey http_key fkey_eqb K tr) = true ->
  proj fkey (@http_out Req Resp) fkey_eqb K (http_results parse_req parse_resp st tr)
    = proj fkey (@http_out Req Resp) fkey_eqb K (http_results parse_req parse_resp st (fk bytes fkey http_key fkey_eqb K tr))
  /\ proj fkey (@http_out Req Resp) fkey_eqb K (http_results parse_req parse_resp st tr)
    = snd (HttpAnalyzer.http_run parse_req parse_resp st (fk bytes fkey http_key fkey_eqb K tr)).
Print Assumptions C07_http_isolation.

Theorem C07_http_interleaving_invariant : forall (Req Resp : Type) (parse_req : bytes -> option Req) (parse_resp : bytes -> option Resp)
    (tr tr' : list bytes) (st : http_state),
  http_within_capacityb parse_req parse_resp st tr = true -> http_within_capacityb parse_req parse_resp st tr' = true ->
  (forall K, fk bytes fkey http_key fkey_eqb K tr = fk bytes fkey http_key fkey_eqb K tr') ->
  forall K, proj fkey (@http_out Req Resp) fkey_eqb K (http_results parse_req parse_resp st tr)
          = proj fkey (@http_out Req Resp) fkey_eqb K (http_results parse_req parse_resp st tr').
Proof. exact @http_interleaving_invariant. Qed.
Check C07_http_interleaving_invariant : forall (Req Resp : Type) (parse_req : bytes -> option Req) (parse_resp : bytes -> option Resp)
    (tr tr' : list bytes) (st : http_state),
  http_within_capacityb parse_req parse_resp st tr = true -> http_within_capacityb parse_req parse_resp st tr' = true ->
  (forall K, fk bytes fkey http_key fkey_eqb K tr = fk bytes fkey http_key fkey_eqb K tr') ->
  forall K, proj fkey (@http_out Req Resp) fkey_eqb K (http_results parse_req parse_resp st tr)
          = proj fkey (@http_out Req Resp) fkey_eqb K (http_results parse_req parse_resp st tr').
Print Assumptions C07_http_interleaving_invariant.

Theorem C07_http_no_disable : forall (Req Resp : Type) (parse_req : bytes -> option Req) (parse_resp : bytes -> option Resp)
    (h probe : list bytes) (st : http_state) (K : fkey),
  http_within_capacityb parse_req parse_resp st (h ++ probe) = true -> http_within_capacityb parse_req parse_resp st probe = true ->
  (forall f, In f h -> http_key f <> K) ->
  proj fkey (@http_out Req Resp) fkey_eqb K (http_results parse_req parse_resp st (h ++ probe))
  = proj fkey (@http_out Req Resp) fkey_eqb K (http_results parse_req parse_resp st probe).
Proof. exact @http_no_disable. Qed.
Check C07_http_no_disable : forall (Req Resp : Type) (parse_req : bytes -> option Req) (parse_resp : bytes -> option Resp)
    (h probe : list bytes) (st : http_state) (K : fkey),
  http_within_capacityb parse_req parse_resp st (h ++ probe) = true -> http_within_capacityb parse_req parse_resp st probe = true ->
  (forall f, In f h -> http_key f <> K) ->
  proj fkey (@http_out Req Resp) fkey_eqb K (http_results parse_req parse_resp st (h ++ probe))
  = proj fkey (@http_out Req Resp) fkey_eqb K (http_results parse_req parse_resp st probe).
Print Assumptions C07_http_no_disable.

Theorem C07_http_capacity_by_count : forall (Req Resp : Type) (parse_req : bytes -> option Req) (parse_resp : bytes -> option Resp)
    (tr : list bytes) (st : http_state) (K : fkey),
  cache_len st + TlsHello.lenN tr <= c_cap st ->
  http_within_capacityb parse_req parse_resp st tr = true /\
  http_within_capacityb parse_req parse_resp st (fk bytes fkey http_key fkey_eqb K tr) = true.
Proof. exact @http_capacity_by_count. Qed.
Print Assumptions C07_http_capacity_by_count.

(* census of connections: every connection in the table (at most one entry each) or opened by the trace is one of
   at most c_cap connections U *)
Theorem C07_http_capacity_by_census : forall (Req Resp : Type) (parse_req : bytes -> option Req) (parse_resp : bytes -> option Resp)
    (U : list fkey) (tr : list bytes) (st : http_state) (K : fkey),
  NoDup (hkeys st) -> incl (hkeys st) U ->
  (forall f, In f tr -> http_tracked f = true -> In (http_key f) U) ->
  TlsHello.lenN U <= c_cap st ->
  http_within_capacityb parse_req parse_resp st tr = true /\
  http_within_capacityb parse_req parse_resp st (fk bytes fkey http_key fkey_eqb K tr) = true.
Proof. exact @http_capacity_by_census. Qed.
Print Assumptions C07_http_capacity_by_census.

(* the key is the connection: two directed keys have the same normal form iff equal or each other's reverse *)
Theorem C07_http_key_is_connection : forall k k' : fkey,
  (norm_key k = norm_key k' -> k' = k \/ k' = flip_key k) /\ norm_key (flip_key k) = norm_key k.
Proof. intros k k'. split; [apply norm_eq_cases | apply norm_flip]. Qed.
Print Assumptions C07_http_key_is_connection.

(* satisfiable: two sibling HTTP/1.1 exchanges (clients 10.0.0.1 / 10.0.0.2, same ports, same server) with the
   HTTP/1 recogniser of Model/HttpRecog.v as parsers; A's request in two segments around B's, A's response in the
   opposite direction: A is told  -, -, its request, its response *)
Example C07_http_example :
  http_within_capacityb HttpRecog.recog_req HttpRecog.recog_resp (cache_new 8) http_trace = true /\
  http_within_capacityb HttpRecog.recog_req HttpRecog.recog_resp (cache_new 8) (fk bytes fkey http_key fkey_eqb http_kA http_trace) = true /\
  fk bytes fkey http_key fkey_eqb http_kA http_trace = [hA_syn; hA_r1; hA_r2; hA_resp] /\
  fkey_eqb (http_key hB_syn) http_kA = false /\
  map hkind (proj fkey (@http_out bytes bytes) fkey_eqb http_kA (http_results HttpRecog.recog_req HttpRecog.recog_resp (cache_new 8) http_trace)) = [0; 0; 1; 2]%N /\
  map hkind (snd (HttpAnalyzer.http_run HttpRecog.recog_req HttpRecog.recog_resp (cache_new 8) http_trace)) = [0; 0; 0; 1; 1; 2]%N /\
  map (@http1_out_line) (snd (HttpAnalyzer.http_run HttpRecog.recog_req HttpRecog.recog_resp (cache_new 8) [hA_syn; hA_r1; hA_r2; hA_resp]))
  = [bs "-"; bs "-"; bs "Q.474554.2f.11.486f7374=61"; bs "R.11.200.536572766572=78"].
Proof. exact http_example. Qed.
Example C07_http_census_example :
  let U := [http_kA; http_key hB_syn] in
  NoDup (hkeys (cache_new 2)) /\ incl (hkeys (cache_new 2)) U /\
  (forall f, In f http_trace -> http_tracked f = true -> In (http_key f) U) /\ TlsHello.lenN U <= c_cap (@cache_new fkey tcpflow 2).
Proof. exact http_census_example. Qed.

(* the capacity hypothesis cannot be dropped: with a table of one flow B's SYN evicts A's flow and A is never reported *)
Theorem C07_http_capacity_needed :
  http_within_capacityb HttpRecog.recog_req HttpRecog.recog_resp (cache_new 1) http_trace = false /\
  map hkind (proj fkey (@http_out bytes bytes) fkey_eqb http_kA (http_results HttpRecog.recog_req HttpRecog.recog_resp (cache_new 1) http_trace)) = [0; 0; 0; 0]%N /\
  map hkind (snd (HttpAnalyzer.http_run HttpRecog.recog_req HttpRecog.recog_resp (cache_new 1) (fk bytes fkey http_key fkey_eqb http_kA http_trace))) = [0; 0; 1; 2]%N.
Proof. exact http_capacity_needed. Qed.
Print Assumptions C07_http_capacity_needed.
