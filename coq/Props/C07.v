(* C07 — connections are analysed in isolation.  Generic over every analyzer that is a keyed machine
   (the effect of a packet is confined to the slot of its connection key, within capacity, no expiry):
   step s p = (upd s (key p) v, outputs tagged key p) with (v, outputs) = lstep (s (key p)) p.
   Proofs: Base/Keyed.v, Proofs/KeyedProofs.v. *)
From Coq Require Import List NArith Bool.
From HN Require Import Base.Bytes Base.Keyed Proofs.KeyedProofs.
Import ListNotations.

(* the results attributed to connection k in ANY interleaving are those of its own packets alone *)
Theorem C07_isolation : forall (P K S O : Type) (key : P -> K) (keqb : K -> K -> bool),
  (forall a b, keqb a b = true <-> a = b) ->
  forall (lstep : option S -> P -> option S * list O) (tr : list P) (s : K -> option S) (k : K),
  proj K O keqb k (snd (run P K S O key keqb lstep s tr))
  = proj K O keqb k (snd (run P K S O key keqb lstep s (fk P K key keqb k tr))).
Proof. exact isolation. Qed.
Print Assumptions C07_isolation.

(* two traces with the same per-connection subtraces (= all order-preserving interleavings of the same
   connections) give every connection the same results *)
Theorem C07_interleaving_invariant : forall (P K S O : Type) (key : P -> K) (keqb : K -> K -> bool),
  (forall a b, keqb a b = true <-> a = b) ->
  forall (lstep : option S -> P -> option S * list O) (tr tr' : list P) (s : K -> option S),
  (forall k, fk P K key keqb k tr = fk P K key keqb k tr') ->
  forall k, proj K O keqb k (snd (run P K S O key keqb lstep s tr))
          = proj K O keqb k (snd (run P K S O key keqb lstep s tr')).
Proof. exact interleaving_invariant. Qed.
Print Assumptions C07_interleaving_invariant.

(* no connection can disable analysis of the connections that follow it *)
Theorem C07_no_disable : forall (P K S O : Type) (key : P -> K) (keqb : K -> K -> bool),
  (forall a b, keqb a b = true <-> a = b) ->
  forall (lstep : option S -> P -> option S * list O) (h probe : list P) (s : K -> option S) (k : K),
  (forall p, In p h -> keqb (key p) k = false) ->
  proj K O keqb k (snd (run P K S O key keqb lstep s (h ++ probe)))
  = proj K O keqb k (snd (run P K S O key keqb lstep s probe)).
Proof. exact no_disable. Qed.
Print Assumptions C07_no_disable.
