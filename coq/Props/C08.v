(* C08 - TLS ClientHello reassembly is segmentation-invariant and reports exactly once.
   Property theorems only; proofs live in Proofs/ReaderProofs.v.
     framed r            r is one whole handshake record: type 0x16, length field = payload length
     reader_outs st cs   return values of TlsClientHelloReader::add_bytes on the segments cs, in order
     flow_outs cap fl ev per-packet results of process.rs for the events ev = (flow key, TCP payload)
     exactly_once h n o cs  = "nothing while fewer than n bytes have arrived, o on the segment that
                            brings the n-th byte, nothing afterwards" (Spec/ReaderSpec.v) *)
From Coq Require Import List NArith.
From Coq Require Import Strings.Byte.
From HN Require Import Base.Bytes Model.TlsHello Model.Ja4 Model.TlsReader Spec.ReaderSpec Proofs.ReaderProofs.
Import ListNotations.
Open Scope N_scope.

(* Reader API: every ClientHello record r (up to the 64 KiB bound), every division of r followed by any
   bytes `tail` into any number of segments (empty segments and a first segment shorter than the
   header included): exactly one report, on the completing segment, equal to the one-segment result. *)
Theorem C08_reader :
  forall (r tail : bytes) (cs : list bytes) (s : signature),
    framed r -> lenN r <= READER_CAP -> parse_tls_client_hello r = RSig s ->
    concat cs = r ++ tail ->
    reader_outs reader_new cs = exactly_once 0 (lenN r) (RSig s) cs
    /\ reader_outs reader_new [r] = [RSig s].
Proof. exact reader_exactly_once_and_one_shot. Qed.
Check C08_reader :
  forall (r tail : bytes) (cs : list bytes) (s : signature),
    framed r -> lenN r <= READER_CAP -> parse_tls_client_hello r = RSig s ->
    concat cs = r ++ tail ->
    reader_outs reader_new cs = exactly_once 0 (lenN r) (RSig s) cs
    /\ reader_outs reader_new [r] = [RSig s].
Print Assumptions C08_reader.

(* the hypotheses are satisfiable: a 48-byte ClientHello cut into 1+4+43 bytes plus a 1-byte tail *)
Example C08_reader_example :
  framed tiny_hello /\ lenN tiny_hello <= READER_CAP /\
  (exists s, parse_tls_client_hello tiny_hello = RSig s) /\
  concat [firstn 1 tiny_hello; firstn 4 (skipn 1 tiny_hello); skipn 5 tiny_hello ++ [x00]] = tiny_hello ++ [x00].
Proof. exact reader_example. Qed.

(* A handshake record without a ClientHello (ServerHello, Certificate, ...): no result on any segment
   of the record; the reader is as new for whatever follows. *)
Theorem C08_reader_not_a_client_hello :
  forall (r : bytes) (cs : list bytes),
    framed r -> lenN r <= READER_CAP -> parse_tls_client_hello r = RNone ->
    concat cs = r ->
    reader_outs reader_new cs = map (fun _ => RNone) cs.
Proof. exact reader_not_a_client_hello. Qed.
Check C08_reader_not_a_client_hello :
  forall (r : bytes) (cs : list bytes),
    framed r -> lenN r <= READER_CAP -> parse_tls_client_hello r = RNone ->
    concat cs = r ->
    reader_outs reader_new cs = map (fun _ => RNone) cs.
Print Assumptions C08_reader_not_a_client_hello.

Theorem C08_reader_not_a_client_hello_then_fresh :
  forall (r tail : bytes) (cs : list bytes),
    framed r -> lenN r <= READER_CAP -> parse_tls_client_hello r = RNone ->
    concat cs = r ++ tail ->
    reader_outs reader_new cs = not_hello_spec r 0 cs.
Proof. exact reader_not_a_client_hello_then_fresh. Qed.
Check C08_reader_not_a_client_hello_then_fresh :
  forall (r tail : bytes) (cs : list bytes),
    framed r -> lenN r <= READER_CAP -> parse_tls_client_hello r = RNone ->
    concat cs = r ++ tail ->
    reader_outs reader_new cs = not_hello_spec r 0 cs.
Print Assumptions C08_reader_not_a_client_hello_then_fresh.

(* Bytes that do not begin a handshake record (alert, application data, ...) are dropped once five of
   them are there: no result, reader as new. *)
Theorem C08_reader_non_handshake_bytes :
  forall c : bytes, 5 <= lenN c -> first_byte c <> 0x16 -> add_bytes reader_new c = (reader_new, RNone).
Proof. exact reader_drops_non_handshake. Qed.
Check C08_reader_non_handshake_bytes :
  forall c : bytes, 5 <= lenN c -> first_byte c <> 0x16 -> add_bytes reader_new c = (reader_new, RNone).
Print Assumptions C08_reader_non_handshake_bytes.

(* Packet-level analyzer (process.rs), one connection k that is not tracked yet, flow table of any
   content and capacity >= 1, no TTL expiry during the exchange: exactly one result, on the completing
   segment - provided the first segment shows the record header with an admitted version
   (0x0300..0x0304) and no segment after the completing one itself looks like the start of a
   handshake record (`calm`; see C08_second_report_known for what happens otherwise). *)
Theorem C08_analyzer :
  forall (r tail : bytes) (cs : list bytes) (s : signature) (cap k : N) (fl : flows),
    framed r -> lenN r <= READER_CAP -> admitted_version r = true ->
    parse_tls_client_hello r = RSig s ->
    1 <= cap -> flow_get fl k = None ->
    concat cs = r ++ tail -> 5 <= lenN (hd [] cs) ->
    calm (after_completion 0 (lenN r) cs) = true ->
    flow_outs cap fl (map (fun c => (k, c)) cs) = exactly_once 0 (lenN r) (RSig s) cs.
Proof. exact analyzer_exactly_once. Qed.
Check C08_analyzer :
  forall (r tail : bytes) (cs : list bytes) (s : signature) (cap k : N) (fl : flows),
    framed r -> lenN r <= READER_CAP -> admitted_version r = true ->
    parse_tls_client_hello r = RSig s ->
    1 <= cap -> flow_get fl k = None ->
    concat cs = r ++ tail -> 5 <= lenN (hd [] cs) ->
    calm (after_completion 0 (lenN r) cs) = true ->
    flow_outs cap fl (map (fun c => (k, c)) cs) = exactly_once 0 (lenN r) (RSig s) cs.
Print Assumptions C08_analyzer.

(* Known class (analyzer only): a later segment of the same connection starts a new handshake record
   that holds a ClientHello -> the connection is reported twice (the reader API reports once). *)
Theorem C08_second_report_known :
  exists cs, concat cs = tiny_hello ++ tiny_hello /\ calm (after_completion 0 (lenN tiny_hello) cs) = false /\
             count_sigs (flow_outs 8 [] (map (fun c => (1, c)) cs)) = 2%nat /\
             count_sigs (reader_outs reader_new cs) = 1%nat.
Proof. exact second_report_when_tail_starts_record. Qed.
Print Assumptions C08_second_report_known.

(* Limit of "records that are not a ClientHello produce no result": a non-handshake record that arrives
   in several segments is not followed as a record; a later segment of it that looks like a ClientHello
   record is reported. *)
Theorem C08_non_handshake_record_not_tracked :
  exists cs, let appdata := (x17 :: x03 :: x03 :: x00 :: n2b (3 + lenN tiny_hello) :: x00 :: x00 :: x00 :: tiny_hello) in
             concat cs = appdata /\ count_sigs (reader_outs reader_new cs) = 1%nat
             /\ count_sigs (flow_outs 8 [] (map (fun c => (1, c)) cs)) = 1%nat.
Proof. exact non_handshake_record_is_not_tracked. Qed.
Print Assumptions C08_non_handshake_record_not_tracked.

(* ====================================================================================================
   Per-worker clause, for the CONCRETE TLS worker pool (Model/PoolConcrete.v: n workers, each running the
   packet-level analyzer model on a private flow table of capacity capw; dispatch = the real flow hash over
   an arbitrary hasher SipH).  A framed ClientHello record r whose segments cs are the TCP payloads of the
   frames of ONE flow k, dispatched among arbitrary other traffic under ANY schedule that ends with empty
   queues: the flow is reported exactly once, on the completing segment, with the one-segment result.
   Hypotheses besides those of C08_analyzer: every dispatched frame is in pool_dom (the analyzer reports
   endpoints, Ethernet/raw framing with the announced IP version, not the open class raw_as_ethernet; frames
   the hash would discard are excluded), no worker evicts (tls_pool_withinb).
   Proof: Proofs/PoolInstances.v tls_per_worker = pool simulation + C18 affinity through Proofs/FrameBridge.v
   + isolation (C07_tls_isolation) + C08_analyzer. *)
From HN Require Import Base.Keyed Model.Hash Model.TlsAnalyzer Model.PoolConcrete Proofs.KeyedExamples Proofs.PoolInstances Proofs.PoolExamples.

Theorem C08_per_worker :
  forall (SipH : ident -> N) (n capw : N) (es : list (ev bytes)) (k : N)
         (r tail : bytes) (cs : list bytes) (s : signature),
    let x := tls_pool_run SipH n capw es in
    0 < n -> (forall f, In f (dispatched bytes es) -> pool_dom f = true) ->
    tls_pool_withinb SipH n capw es = true ->
    (forall w, cq bytes N tls_out tls_state x w = []) ->
    map tls_payload_of (fk bytes N tls_key N.eqb k (dispatched bytes es)) = map (fun c => Some (k, c)) cs ->
    framed r -> lenN r <= READER_CAP -> admitted_version r = true -> parse_tls_client_hello r = RSig s ->
    concat cs = r ++ tail -> 5 <= lenN (hd [] cs) -> calm (after_completion 0 (lenN r) cs) = true ->
    map tls_sig_of (proj N tls_out N.eqb k (couts bytes N tls_out tls_state x)) = exactly_once 0 (lenN r) (RSig s) cs.
Proof. exact tls_per_worker. Qed.
Check C08_per_worker :
  forall (SipH : ident -> N) (n capw : N) (es : list (ev bytes)) (k : N)
         (r tail : bytes) (cs : list bytes) (s : signature),
    let x := tls_pool_run SipH n capw es in
    0 < n -> (forall f, In f (dispatched bytes es) -> pool_dom f = true) ->
    tls_pool_withinb SipH n capw es = true ->
    (forall w, cq bytes N tls_out tls_state x w = []) ->
    map tls_payload_of (fk bytes N tls_key N.eqb k (dispatched bytes es)) = map (fun c => Some (k, c)) cs ->
    framed r -> lenN r <= READER_CAP -> admitted_version r = true -> parse_tls_client_hello r = RSig s ->
    concat cs = r ++ tail -> 5 <= lenN (hd [] cs) -> calm (after_completion 0 (lenN r) cs) = true ->
    map tls_sig_of (proj N tls_out N.eqb k (couts bytes N tls_out tls_state x)) = exactly_once 0 (lenN r) (RSig s) cs.
Print Assumptions C08_per_worker.

(* satisfiable: the schedule of C10_tls_pool_example (two workers, flow A = tiny_hello in segments of 10 + 38
   bytes around another flow on the other worker); the pool hypotheses are those of C10_tls_pool_example *)
Example C08_per_worker_example :
  let cs := [firstn 10 tiny_hello; skipn 10 tiny_hello] in
  map tls_payload_of (fk bytes N tls_key N.eqb tls_kA (dispatched bytes tls_sched)) = map (fun c => Some (tls_kA, c)) cs /\
  concat cs = tiny_hello ++ [] /\ 5 <= lenN (hd [] cs) /\
  calm (after_completion 0 (lenN tiny_hello) cs) = true.
Proof. exact tls_per_worker_example. Qed.
