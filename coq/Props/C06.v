(* C06 — signature text round-trips and the database loads losslessly.
   Property theorems only; proofs live in Proofs/SigTextProofs.v, Proofs/SigSpecProofs.v, Proofs/DbLoadProofs.v,
   Proofs/BundledProofs.v.
   MODEL  = Model/SigText.v (nom parsers + Display printers of db_parse.rs / display.rs) and Model/DbLoad.v
            (impl FromStr for Database);
   SPEC   = Spec/SigTextSpec.v (wf values, reference reader, canonical lines), Spec/DbLoadSpec.v (what a database
            text denotes), Spec/DbDocSpec.v (documents: render / flatten), Spec/BundledSpec.v (the bundled file). *)
From Coq Require Import List NArith Bool.
From Coq Require Import Strings.Byte.
From HN Require Import Base.Bytes Model.SigAst Model.SigText Model.DbLoad Spec.SigTextSpec Spec.DbLoadSpec
  Spec.DbDocSpec Gen.Bundled Spec.BundledSpec Proofs.SigTextProofs Proofs.SigSpecProofs Proofs.SigEquivProofs Proofs.DbLoadProofs Proofs.DbTextProofs Proofs.DbTextLoadProofs
  Proofs.BundledProofs Proofs.FuelProofs.
Import ListNotations.
Open Scope N_scope.

(* ---------- (1) print, then parse: every value over the p0f vocabulary comes back ---------- *)
Theorem C06_tcp_print_parse :
  forall s : tcp_sig, wf_tcp s = true -> tcp_sig_from_str (print_tcp_sig s) = Some s.
Proof. exact tcp_print_parse. Qed.
Check C06_tcp_print_parse :
  forall s : tcp_sig, wf_tcp s = true -> tcp_sig_from_str (print_tcp_sig s) = Some s.
Print Assumptions C06_tcp_print_parse.

Theorem C06_http_print_parse :
  forall s : http_sig, wf_http s = true -> http_sig_from_str (print_http_sig s) = Some s.
Proof. exact http_print_parse. Qed.
Check C06_http_print_parse :
  forall s : http_sig, wf_http s = true -> http_sig_from_str (print_http_sig s) = Some s.
Print Assumptions C06_http_print_parse.

Definition ex_tcp : tcp_sig :=
  {| t_version := IpV4; t_ittl := TtlDistance 64 3; t_olen := 0; t_mss := Some 1460; t_wsize := WMss 20;
     t_wscale := Some 7; t_olayout := [OMss; OSok; OTS; ONop; OWs; OEol 7; OUnknown 33];
     t_quirks := [QDf; QNonZeroID; QOwnTimestampZero; QMustBeZero]; t_pclass := PNonZero |}.
Definition ex_http : http_sig :=
  {| hs_version := HV11;
     hs_horder := [ {| h_optional := false; h_name := bs "Host"; h_value := None |};
                    {| h_optional := true; h_name := bs "Accept-Encoding"; h_value := Some (bs "gzip,deflate: x") |} ];
     hs_habsent := [ {| h_optional := false; h_name := bs "Via"; h_value := None |} ];
     hs_expsw := bs "Firefox/: 3" |}.
Example C06_print_parse_hypotheses :
  wf_tcp ex_tcp = true /\ print_tcp_sig ex_tcp = bs "4:64+3:0:1460:mss*20,7:mss,sok,ts,nop,ws,eol+7,?33:df,id+,ts1-,0+:+" /\
  wf_http ex_http = true /\ print_http_sig ex_http = bs "1:Host,?Accept-Encoding=[gzip,deflate: x]:Via:Firefox/: 3".
Proof. vm_compute. repeat split; reflexivity. Qed.

(* ---------- (2) parse, then print: a canonical line comes back ---------- *)
(* canonical_tcp l  <->  l is the printed form of the well-formed value the reference reader spec_tcp finds in l *)
Theorem C06_tcp_canonical_line :
  forall (l : bytes) (s : tcp_sig), tcp_sig_from_str l = Some s -> canonical_tcp l = true -> print_tcp_sig s = l.
Proof. exact tcp_canonical_line. Qed.
Check C06_tcp_canonical_line :
  forall (l : bytes) (s : tcp_sig), tcp_sig_from_str l = Some s -> canonical_tcp l = true -> print_tcp_sig s = l.
Print Assumptions C06_tcp_canonical_line.

Theorem C06_http_canonical_line :
  forall (l : bytes) (s : http_sig), http_sig_from_str l = Some s -> canonical_http l = true -> print_http_sig s = l.
Proof. exact http_canonical_line. Qed.
Check C06_http_canonical_line :
  forall (l : bytes) (s : http_sig), http_sig_from_str l = Some s -> canonical_http l = true -> print_http_sig s = l.
Print Assumptions C06_http_canonical_line.

(* a canonical line is accepted, and read as the value the reference reader reads *)
Theorem C06_canonical_accepted :
  (forall l, canonical_tcp l = true -> tcp_sig_from_str l = spec_tcp l) /\
  (forall l, canonical_http l = true -> http_sig_from_str l = spec_http l).
Proof. split; [exact tcp_canonical_accepted | exact http_canonical_accepted]. Qed.
Check C06_canonical_accepted :
  (forall l, canonical_tcp l = true -> tcp_sig_from_str l = spec_tcp l) /\
  (forall l, canonical_http l = true -> http_sig_from_str l = spec_http l).
Print Assumptions C06_canonical_accepted.

(* the canonical lines are exactly the printed forms of the well-formed values (so (2) covers every line that
   Display can produce from a value over the vocabulary, and nothing else) *)
Theorem C06_canonical_characterised :
  (forall l, canonical_tcp l = true <-> exists s, wf_tcp s = true /\ print_tcp_sig s = l) /\
  (forall l, canonical_http l = true <-> exists s, wf_http s = true /\ print_http_sig s = l).
Proof. split; [exact canonical_tcp_iff | exact canonical_http_iff]. Qed.
Check C06_canonical_characterised :
  (forall l, canonical_tcp l = true <-> exists s, wf_tcp s = true /\ print_tcp_sig s = l) /\
  (forall l, canonical_http l = true <-> exists s, wf_http s = true /\ print_http_sig s = l).
Print Assumptions C06_canonical_characterised.

Example C06_canonical_hypotheses :
  canonical_tcp (bs "*:64:0:*:mss*20,10:mss,sok,ts,nop,ws:df,id+:0") = true /\
  canonical_tcp (bs "*:064:0:*:mss*20,10:mss,sok,ts,nop,ws:df,id+:0") = false /\
  canonical_http (bs "1:Host,?Accept-Encoding=[gzip,deflate]:Via:Firefox/") = true /\
  canonical_http (bs "1:Host:,Via:Firefox/") = false.
Proof. vm_compute. repeat split; reflexivity. Qed.

(* the model of the nom parsers (alt ordering, backtracking, map_res) and the independent split-based reference
   reader agree on EVERY line: same acceptance, same value — canonical, non-canonical (leading zeros, empty
   header names) and invalid lines alike.  No exception class was needed. *)
Theorem C06_model_equals_reference :
  (forall l : bytes, tcp_sig_from_str l = spec_tcp l) /\ (forall l : bytes, http_sig_from_str l = spec_http l).
Proof. split; [exact tcp_model_eq_spec | exact http_model_eq_spec]. Qed.
Check C06_model_equals_reference :
  (forall l : bytes, tcp_sig_from_str l = spec_tcp l) /\ (forall l : bytes, http_sig_from_str l = spec_http l).
Print Assumptions C06_model_equals_reference.

(* numbers that do not fit their Rust type are rejected, never wrapped or defaulted (`?300` used to load as `?0`):
   an option number above 255, a TTL above 255 — for every digit string d, whatever follows the token *)
Theorem C06_overflow_rejected :
  (forall d k, d <> [] -> forallb is_digit d = true -> stops is_digit k = true -> 255 < read_N_digits d ->
     parse_tcp_option (bs "?" ++ d ++ k) = None /\ parse_tcp_option (bs "eol+" ++ d ++ k) = None) /\
  (forall d k, d <> [] -> forallb is_digit d = true -> term k = true -> 255 < read_N_digits d ->
     parse_ttl (d ++ k) = None).
Proof. split; [exact option_number_overflow | exact ttl_overflow]. Qed.
Check C06_overflow_rejected :
  (forall d k, d <> [] -> forallb is_digit d = true -> stops is_digit k = true -> 255 < read_N_digits d ->
     parse_tcp_option (bs "?" ++ d ++ k) = None /\ parse_tcp_option (bs "eol+" ++ d ++ k) = None) /\
  (forall d k, d <> [] -> forallb is_digit d = true -> term k = true -> 255 < read_N_digits d ->
     parse_ttl (d ++ k) = None).
Print Assumptions C06_overflow_rejected.
Example C06_overflow_examples :
  tcp_sig_from_str (bs "*:64:0:*:*,*:?300::0") = None /\ tcp_sig_from_str (bs "*:300:0:*:*,*:::0") = None /\
  tcp_sig_from_str (bs "*:64:0:*:*,*:::0") <> None.
Proof. vm_compute. repeat split; discriminate. Qed.

(* ---------- (3) loading a database text yields exactly what is written in it ---------- *)
(* for every document d (Spec/DbDocSpec.v: blank lines, comments, classes, ua_os, the five section headers,
   labels, signatures, sys lines): loading its text gives its denotation — same
   entries, same order, under the right table and label; None (rejected) exactly when a signature has no
   label before it in its table *)
Theorem C06_db_load :
  forall d : list item, doc_ok d = true -> load (render_text d) = flatten d.
Proof. exact load_render_text. Qed.
Check C06_db_load :
  forall d : list item, doc_ok d = true -> load (render_text d) = flatten d.
Print Assumptions C06_db_load.

Definition ex_doc : list item :=
  [ IComment (bs " example"); IClasses [bs "win"; bs "unix"]; IBlank; ISection SecMtu; IMtuLabel (bs "Ethernet or modem");
    IMtuSig 576; IMtuSig 1500; ISection SecTQ;
    ILabel {| l_ty := LSpecified; l_class := Some (bs "unix"); l_name := bs "Linux"; l_flavor := Some (bs "3.11 and newer") |};
    ITcpSig ex_tcp; ISection SecHQ; IUaOs [(bs "Linux", None); (bs "Windows", None)];
    ILabel {| l_ty := LGeneric; l_class := None; l_name := bs "Firefox"; l_flavor := None |}; ISys (bs "Windows,@unix");
    IHttpSig ex_http; ISection SecTQ; ITcpSig ex_tcp ].
Example C06_db_load_hypotheses :
  doc_ok ex_doc = true /\
  match flatten ex_doc with
  | Some db => table_counts (db_tcp_request db) = (1, 2)%nat /\ table_counts (db_http_request db) = (1, 1)%nat /\
               db_mtu db = [(bs "Ethernet or modem", [576; 1500])] /\ length (db_ua_os db) = 2%nat
  | None => False end.
Proof. vm_compute. repeat split; reflexivity. Qed.

(* towards the text-level statement on ARBITRARY texts: the line-level readers of the loader model equal those of
   the reference reader (Spec/DbLoadSpec.v) on every input — label values, MTU values, the `name = value`
   split (any blanks around '='), and trimming (Unicode trim = ASCII trim whenever the trimmed line has ASCII
   edges, which is the reference reader's stated domain).  Together with C06_model_equals_reference every
   VALUE reader of a database line is covered; composed into the text-level theorem C06_db_text below. *)
Theorem C06_line_readers_equal_reference :
  (forall v : bytes, match parse_label v with
                     | Some (l, r) => r = [] /\ spec_label v = Some l
                     | None => spec_label v = None end) /\
  (forall v : bytes, u16_from_str v = rd_mtu v) /\
  (forall l : bytes, parse_named_value l =
     match cut "="%byte l with
     | Some (lhs, rhs) => if word alnum (rtrim_blank lhs) then Some (rtrim_blank lhs, drop_while isblank rhs) else None
     | None => None end) /\
  (forall raw : bytes, non_ascii_edge raw = false -> trim raw = trim_ascii raw).
Proof. split; [exact parse_label_eq_spec | split; [exact u16_from_str_eq_spec | split; [exact parse_named_value_eq_spec | exact trim_eq_trim_ascii]]]. Qed.
Check C06_line_readers_equal_reference :
  (forall v : bytes, match parse_label v with
                     | Some (l, r) => r = [] /\ spec_label v = Some l
                     | None => spec_label v = None end) /\
  (forall v : bytes, u16_from_str v = rd_mtu v) /\
  (forall l : bytes, parse_named_value l =
     match cut "="%byte l with
     | Some (lhs, rhs) => if word alnum (rtrim_blank lhs) then Some (rtrim_blank lhs, drop_while isblank rhs) else None
     | None => None end) /\
  (forall raw : bytes, non_ascii_edge raw = false -> trim raw = trim_ascii raw).
Print Assumptions C06_line_readers_equal_reference.

(* ---------- (3') the same on ARBITRARY database texts ---------- *)
(* for every byte string t — any spacing around `=`, blank lines, comments, CR LF or LF line ends, junk, lines in any
   order — whose trimmed lines have ASCII edges (ascii_edges: the reference reader's stated domain; it returns "-" on
   the rest) — no other exclusion, both former defect classes are repaired —
   the loader returns exactly the database the reference reader reads from t, and rejects t when the reference does *)
Theorem C06_db_text :
  forall t : bytes, ascii_edges t = true -> load t = verdict_opt (spec_load t).
Proof. exact load_eq_spec_load. Qed.
Check C06_db_text :
  forall t : bytes, ascii_edges t = true -> load t = verdict_opt (spec_load t).
Print Assumptions C06_db_text.

(* the bundled p0f.fp as one text lies in the domain, so C06_db_text applies to it *)
Theorem C06_db_text_bundled :
  ascii_edges bundled_text = true /\ load bundled_text = verdict_opt (spec_load bundled_text).
Proof. split; [exact bundled_text_domain|]. apply load_eq_spec_load. exact bundled_text_domain. Qed.
Check C06_db_text_bundled :
  ascii_edges bundled_text = true /\ load bundled_text = verdict_opt (spec_load bundled_text).
Print Assumptions C06_db_text_bundled.

Example C06_db_text_hypotheses :
  let t := bs "; c
classes=win,unix
 [tcp:request]
label =  s:unix:Linux:3.x
sig	= *:064:0:*:mss*20,10:mss,sok,ts,nop,ws:df,id+:0
" in ascii_edges t = true /\ exists d, spec_load t = VOk d /\ table_counts (db_tcp_request d) = (1, 1)%nat.
Proof. vm_compute. repeat split. eexists; split; reflexivity. Qed.

(* ---------- (4) a text with an error is rejected as a whole ---------- *)
Theorem C06_db_all_or_nothing :
  (forall pre l post s, run_lines st0 pre = Some s -> step s l = None -> load_lines (pre ++ l :: post) = None) /\
  (forall pre l post db, load_lines (pre ++ l :: post) = Some db ->
     exists s s', run_lines st0 pre = Some s /\ step s l = Some s').
Proof. split; [exact load_lines_rejects | exact load_lines_accepts_all]. Qed.
Check C06_db_all_or_nothing :
  (forall pre l post s, run_lines st0 pre = Some s -> step s l = None -> load_lines (pre ++ l :: post) = None) /\
  (forall pre l post db, load_lines (pre ++ l :: post) = Some db ->
     exists s s', run_lines st0 pre = Some s /\ step s l = Some s').
Print Assumptions C06_db_all_or_nothing.

(* the lines that are rejected: a label/sig/sys line before any section header; a signature line the
   signature parser does not accept (tcp and http sections) *)
Theorem C06_db_rejected_lines :
  (forall s key b r, s_mod s = None -> (key = bs "label" \/ key = bs "sig" \/ key = bs "sys") ->
     graph b = true -> graph_end (b :: r) -> step s (key ++ bs " = " ++ b :: r) = None) /\
  (forall s sc b r, s_mod s = mod_of (Some sc) -> (sc = SecTQ \/ sc = SecTS) ->
     graph b = true -> graph_end (b :: r) -> tcp_sig_from_str (b :: r) = None -> step s (bs "sig = " ++ b :: r) = None) /\
  (forall s sc b r, s_mod s = mod_of (Some sc) -> (sc = SecHQ \/ sc = SecHS) ->
     graph b = true -> graph_end (b :: r) -> http_sig_from_str (b :: r) = None -> step s (bs "sig = " ++ b :: r) = None).
Proof. repeat split; [exact step_key_outside | exact step_bad_tcp_sig | exact step_bad_http_sig]. Qed.
Check C06_db_rejected_lines :
  (forall s key b r, s_mod s = None -> (key = bs "label" \/ key = bs "sig" \/ key = bs "sys") ->
     graph b = true -> graph_end (b :: r) -> step s (key ++ bs " = " ++ b :: r) = None) /\
  (forall s sc b r, s_mod s = mod_of (Some sc) -> (sc = SecTQ \/ sc = SecTS) ->
     graph b = true -> graph_end (b :: r) -> tcp_sig_from_str (b :: r) = None -> step s (bs "sig = " ++ b :: r) = None) /\
  (forall s sc b r, s_mod s = mod_of (Some sc) -> (sc = SecHQ \/ sc = SecHS) ->
     graph b = true -> graph_end (b :: r) -> http_sig_from_str (b :: r) = None -> step s (bs "sig = " ++ b :: r) = None).
Print Assumptions C06_db_rejected_lines.

Example C06_db_rejected_examples :
  load (bs "sig = *:64:0:*:*,*:::0") = None /\                                             (* outside a section *)
  load (bs "[tcp:request]
sig = *:64:0:*:*,*:::0") = None /\                                                          (* sig without label *)
  load (bs "[tcp:request]
label = s:!:a:
sig = *:300:0:*:*,*:::0") = None /\                                                         (* unparsable signature *)
  flatten [ISection SecTQ; ITcpSig ex_tcp] = None.
Proof. vm_compute. repeat split; reflexivity. Qed.

(* ---------- (5) the bundled p0f.fp, computed on the file as it is now ---------- *)
Theorem C06_bundled_loads_exactly :
  load_lines bundled_lines = Some bundled_db /\ spec_load_lines bundled_lines = VOk bundled_spec_db /\
  db_classes bundled_db = db_classes bundled_spec_db /\ db_mtu bundled_db = db_mtu bundled_spec_db /\
  db_tcp_request bundled_db = db_tcp_request bundled_spec_db /\
  db_tcp_response bundled_db = db_tcp_response bundled_spec_db /\
  db_http_request bundled_db = db_http_request bundled_spec_db /\
  db_http_response bundled_db = db_http_response bundled_spec_db /\
  db_ua_os bundled_db = db_ua_os bundled_spec_db.
Proof. split; [exact bundled_loads | split; [exact bundled_spec_reads | exact bundled_tables_exact]]. Qed.
Check C06_bundled_loads_exactly :
  load_lines bundled_lines = Some bundled_db /\ spec_load_lines bundled_lines = VOk bundled_spec_db /\
  db_classes bundled_db = db_classes bundled_spec_db /\ db_mtu bundled_db = db_mtu bundled_spec_db /\
  db_tcp_request bundled_db = db_tcp_request bundled_spec_db /\
  db_tcp_response bundled_db = db_tcp_response bundled_spec_db /\
  db_http_request bundled_db = db_http_request bundled_spec_db /\
  db_http_response bundled_db = db_http_response bundled_spec_db /\
  db_ua_os bundled_db = db_ua_os bundled_spec_db.
Print Assumptions C06_bundled_loads_exactly.

Theorem C06_bundled_counts :
  length (db_classes bundled_db) = 3%nat /\ mtu_counts (db_mtu bundled_db) = (14, 25)%nat /\
  table_counts (db_tcp_request bundled_db) = (46, 98)%nat /\ table_counts (db_tcp_response bundled_db) = (17, 101)%nat /\
  table_counts (db_http_request bundled_db) = (53, 79)%nat /\ table_counts (db_http_response bundled_db) = (8, 20)%nat /\
  length bundled_tcp_sigs = 199%nat /\ length bundled_http_sigs = 99%nat.
Proof. exact bundled_counts. Qed.
Check C06_bundled_counts :
  length (db_classes bundled_db) = 3%nat /\ mtu_counts (db_mtu bundled_db) = (14, 25)%nat /\
  table_counts (db_tcp_request bundled_db) = (46, 98)%nat /\ table_counts (db_tcp_response bundled_db) = (17, 101)%nat /\
  table_counts (db_http_request bundled_db) = (53, 79)%nat /\ table_counts (db_http_response bundled_db) = (8, 20)%nat /\
  length bundled_tcp_sigs = 199%nat /\ length bundled_http_sigs = 99%nat.
Print Assumptions C06_bundled_counts.

(* every one of the 298 signature lines: print (parse l) = l on the model, and l is canonical *)
Theorem C06_bundled_sig_lines_roundtrip :
  forallb tcp_line_rt bundled_tcp_sigs = true /\ forallb http_line_rt bundled_http_sigs = true /\
  forallb canonical_tcp bundled_tcp_sigs = true /\ forallb canonical_http bundled_http_sigs = true.
Proof. exact bundled_sig_lines_all. Qed.
Check C06_bundled_sig_lines_roundtrip :
  forallb tcp_line_rt bundled_tcp_sigs = true /\ forallb http_line_rt bundled_http_sigs = true /\
  forallb canonical_tcp bundled_tcp_sigs = true /\ forallb canonical_http bundled_http_sigs = true.
Print Assumptions C06_bundled_sig_lines_roundtrip.

(* ---------- the model's list loops never run out of fuel ---------- *)
(* sep_loop (the loop of nom's separated_list0/1) is given fuel = length of its input; any larger fuel gives the
   same result, for every element parser that returns a suffix of its input — as all five element parsers do *)
Theorem C06_fuel_suffices :
  (forall (A : Type) (p : parser A), shrinks p ->
     forall fuel i, (length i <= fuel)%nat -> sep_loop fuel comma p i = sep_loop (length i) comma p i) /\
  (shrinks parse_tcp_option /\ shrinks parse_quirk /\ shrinks parse_http_header /\ shrinks alphanumeric1 /\
   shrinks parse_key_value).
Proof. split; [exact @sep_loop_fuel_suffices | exact model_lists_never_run_out_of_fuel]. Qed.
Check C06_fuel_suffices :
  (forall (A : Type) (p : parser A), shrinks p ->
     forall fuel i, (length i <= fuel)%nat -> sep_loop fuel comma p i = sep_loop (length i) comma p i) /\
  (shrinks parse_tcp_option /\ shrinks parse_quirk /\ shrinks parse_http_header /\ shrinks alphanumeric1 /\
   shrinks parse_key_value).
Print Assumptions C06_fuel_suffices.

(* ---------- finding C06-list-remainder is repaired (whole_line, p0f ua_os grammar): its former witnesses agree ---------- *)
Theorem C06_list_remainder_former_witness_agrees :
  (doc_ok ua_witness = true /\ load (render_text ua_witness) = flatten ua_witness /\
   (exists d, flatten ua_witness = Some d /\ length (db_ua_os d) = 3%nat)) /\
  (length (db_ua_os bundled_spec_db) = 9%nat /\ length (db_ua_os bundled_db) = 9%nat /\
   db_ua_os bundled_db = db_ua_os bundled_spec_db) /\
  (let t := bs "ua_os = Linux,iOS=[iPad],BSD" in
   load t = verdict_opt (spec_load t) /\ exists d, load t = Some d /\ length (db_ua_os d) = 3%nat) /\
  (let t := bs "classes = win, unix" in spec_load t = VErr /\ load t = None) /\
  (let t := bs "[tcp:request]x]" in spec_load t = VErr /\ load t = None).
Proof.
  split; [exact ua_witness_former_witness_agrees | split; [exact bundled_ua_os_former_witness_agrees | exact list_remainder_former_witness_agrees]].
Qed.
Check C06_list_remainder_former_witness_agrees :
  (doc_ok ua_witness = true /\ load (render_text ua_witness) = flatten ua_witness /\
   (exists d, flatten ua_witness = Some d /\ length (db_ua_os d) = 3%nat)) /\
  (length (db_ua_os bundled_spec_db) = 9%nat /\ length (db_ua_os bundled_db) = 9%nat /\
   db_ua_os bundled_db = db_ua_os bundled_spec_db) /\
  (let t := bs "ua_os = Linux,iOS=[iPad],BSD" in
   load t = verdict_opt (spec_load t) /\ exists d, load t = Some d /\ length (db_ua_os d) = 3%nat) /\
  (let t := bs "classes = win, unix" in spec_load t = VErr /\ load t = None) /\
  (let t := bs "[tcp:request]x]" in spec_load t = VErr /\ load t = None).
Print Assumptions C06_list_remainder_former_witness_agrees.

(* finding C06-unknown-item-skipped is repaired (is_known_module; unknown named value is an error): a module header
   p0f.fp does not have, a key the module does not have — the text is rejected, as the specification demands;
   last clause: the correctly spelt text loads *)
Theorem C06_unknown_item_former_witness_agrees :
  (let t := bs "[tcp:reqeust]
label = s:unix:Linux:
sig = *:64:0:*:*,*:::0" in spec_load t = VErr /\ load t = None) /\
  (let t := bs "[tcp:request]
label = s:unix:Linux:
sgi = *:64:0:*:*,*:::0" in spec_load t = VErr /\ load t = None) /\
  (let t := bs "[mtu]
label = DSL
sys = x
sig = 1492" in spec_load t = VErr /\ load t = None) /\
  (let t := bs "[tcp:request]
label = s:unix:Linux:
sig = *:64:0:*:*,*:::0" in
   exists d, spec_load t = VOk d /\ load t = Some d /\ table_counts (db_tcp_request d) = (1, 1)%nat).
Proof. exact unknown_item_former_witness_agrees. Qed.
Check C06_unknown_item_former_witness_agrees :
  (let t := bs "[tcp:reqeust]
label = s:unix:Linux:
sig = *:64:0:*:*,*:::0" in spec_load t = VErr /\ load t = None) /\
  (let t := bs "[tcp:request]
label = s:unix:Linux:
sgi = *:64:0:*:*,*:::0" in spec_load t = VErr /\ load t = None) /\
  (let t := bs "[mtu]
label = DSL
sys = x
sig = 1492" in spec_load t = VErr /\ load t = None) /\
  (let t := bs "[tcp:request]
label = s:unix:Linux:
sig = *:64:0:*:*,*:::0" in
   exists d, spec_load t = VOk d /\ load t = Some d /\ table_counts (db_tcp_request d) = (1, 1)%nat).
Print Assumptions C06_unknown_item_former_witness_agrees.
