(* C12 — match distances obey signature semantics: exact, wildcard, decisive, monotone.
   Property theorems only; proofs live in Proofs/MatchProofs.v.
   MODEL = Model/Match.v (tcp_distance, http_distance, tcp_score, http_score: transcription of
   calculate_distance / distance_to_score), SPEC = Spec/InstanceSpec.v (tcp_instance, http_instance,
   decisive mismatch, penalties, quality_laws).  In `tcp_distance s o` / `http_distance s o` the first
   argument is the database signature, the second the observation.
   Known classes (genuine defects of the unchanged code, each with a witness):
     none left on the TCP side   [K1 ttl_form_gap, K2 win_mod_raw, K5 win_mss_inexact were repaired in /repo],
     K3 expsw_strict / expsw_reversed, K4 optional_name_reused (HTTP). *)
From Coq Require Import List NArith Bool.
From HN Require Import Base.Bytes Model.SigAst Model.Match Spec.InstanceSpec Proofs.MatchProofs.
Open Scope N_scope.

(* ---- every instance is accepted with distance 0 and quality 1.0 ---- *)
Theorem C12_tcp_instance_zero :
  forall s o : tcp_sig,
    ttl_u8 (t_ittl s) -> tcp_instance s o ->
    tcp_distance s o = Some 0 /\ tcp_score 0 = 100.
Proof. exact tcp_instance_zero. Qed.
Check C12_tcp_instance_zero :
  forall s o : tcp_sig,
    ttl_u8 (t_ittl s) -> tcp_instance s o ->
    tcp_distance s o = Some 0 /\ tcp_score 0 = 100.
Print Assumptions C12_tcp_instance_zero.

Theorem C12_http_instance_zero :
  forall s o : http_sig,
    http_instance s o -> known_http s o = false ->
    http_distance s o = Some 0 /\ http_score 0 = 100.
Proof. exact http_instance_zero. Qed.
Check C12_http_instance_zero :
  forall s o : http_sig,
    http_instance s o -> known_http s o = false ->
    http_distance s o = Some 0 /\ http_score 0 = 100.
Print Assumptions C12_http_instance_zero.

(* ---- a decisive mismatch is never accepted ---- *)
Theorem C12_tcp_decisive_none :
  forall s o : tcp_sig, tcp_decisive_mismatch s o -> tcp_distance s o = None.
Proof. exact tcp_decisive_none. Qed.
Check C12_tcp_decisive_none :
  forall s o : tcp_sig, tcp_decisive_mismatch s o -> tcp_distance s o = None.
Print Assumptions C12_tcp_decisive_none.

Theorem C12_http_decisive_none :
  forall s o : http_sig, http_decisive_mismatch s o -> http_distance s o = None.
Proof. exact http_decisive_none. Qed.
Check C12_http_decisive_none :
  forall s o : http_sig, http_decisive_mismatch s o -> http_distance s o = None.
Print Assumptions C12_http_decisive_none.

(* quirks are compared after leaving out of the SIGNATURE's list what cannot apply to the observed IP version
   (df, id+, id-, 0+ on IPv6; flow on IPv4 — fix c12quirksv6); a difference that remains is decisive *)
Theorem C12_tcp_quirks_by_version :
  (forall qs, sig_quirks_for IpV6 qs = filter (fun q => negb (ipv4_only_quirk q)) qs)
  /\ (forall qs, sig_quirks_for IpV4 qs = filter (fun q => negb (ipv6_only_quirk q)) qs)
  /\ (forall qs, sig_quirks_for IpAny qs = qs)
  /\ (forall s o, t_quirks o <> sig_quirks_for (t_version o) (t_quirks s) -> tcp_distance s o = None).
Proof. exact quirks_masking_spec. Qed.
Check C12_tcp_quirks_by_version :
  (forall qs, sig_quirks_for IpV6 qs = filter (fun q => negb (ipv4_only_quirk q)) qs)
  /\ (forall qs, sig_quirks_for IpV4 qs = filter (fun q => negb (ipv6_only_quirk q)) qs)
  /\ (forall qs, sig_quirks_for IpAny qs = qs)
  /\ (forall s o, t_quirks o <> sig_quirks_for (t_version o) (t_quirks s) -> tcp_distance s o = None).
Print Assumptions C12_tcp_quirks_by_version.
Theorem C12_quirks_v6_former_witness_agrees :
  let s := w_linux IpAny (cons QDf (cons QNonZeroID nil)) in
  (tcp_instance s (set_mss (w_linux IpV6 nil) (Some 1440)) /\ tcp_distance s (set_mss (w_linux IpV6 nil) (Some 1440)) = Some 0)
  /\ (tcp_instance s (w_linux IpV4 (cons QDf (cons QNonZeroID nil))) /\ tcp_distance s (w_linux IpV4 (cons QDf (cons QNonZeroID nil))) = Some 0)
  /\ tcp_distance s (w_linux IpV4 nil) = None
  /\ tcp_distance s (w_linux IpV6 (cons QDf (cons QNonZeroID nil))) = None
  /\ tcp_distance (w_linux IpAny (cons QFlowID (cons QEcn nil))) (w_linux IpV4 (cons QEcn nil)) = Some 0
  /\ tcp_distance (w_linux IpAny (cons QFlowID (cons QEcn nil))) (w_linux IpV6 (cons QEcn nil)) = None.
Proof. exact Quirks_v6_former_witness_agrees. Qed.
Print Assumptions C12_quirks_v6_former_witness_agrees.

(* ---- one non-decisive field of an instance changed: the distance is that field's own penalty
        (never below the instance's 0; exactly the fixed penalty when the new value is not admitted) ---- *)
Theorem C12_tcp_single_field :
  forall s o : tcp_sig,
    ttl_u8 (t_ittl s) -> tcp_instance s o ->
    (forall v, tcp_distance s (set_olen o v) = Some (if v =? t_olen s then 0 else pen_olen))
    /\ (forall v, win_literal s o ->
                  tcp_distance s (set_mss o v) = Some (if optfield_inst_b (t_mss s) v then 0 else pen_mss))
    /\ (forall v, tcp_distance s (set_wscale o v) = Some (if optfield_inst_b (t_wscale s) v then 0 else pen_wscale))
    /\ (forall v, tcp_distance s (set_ittl o v) = distance_ttl v (t_ittl s))
    /\ (forall v, tcp_distance s (set_wsize o v) = distance_window_size v (t_wsize s) (t_mss o)).
Proof. exact tcp_single_field. Qed.
Check C12_tcp_single_field :
  forall s o : tcp_sig,
    ttl_u8 (t_ittl s) -> tcp_instance s o ->
    (forall v, tcp_distance s (set_olen o v) = Some (if v =? t_olen s then 0 else pen_olen))
    /\ (forall v, win_literal s o ->
                  tcp_distance s (set_mss o v) = Some (if optfield_inst_b (t_mss s) v then 0 else pen_mss))
    /\ (forall v, tcp_distance s (set_wscale o v) = Some (if optfield_inst_b (t_wscale s) v then 0 else pen_wscale))
    /\ (forall v, tcp_distance s (set_ittl o v) = distance_ttl v (t_ittl s))
    /\ (forall v, tcp_distance s (set_wsize o v) = distance_window_size v (t_wsize s) (t_mss o)).
Print Assumptions C12_tcp_single_field.

(* the same law stated on the observation alone: every field but f admitted, f of comparable form and
   different => the distance is exactly f's fixed penalty (ittl 2, olen 2, mss 2, wsize 2, wscale 1) *)
Theorem C12_tcp_single_field_off :
  forall (f : tcp_field) (s o : tcp_sig),
    ttl_u8 (t_ittl s) ->
    single_field_off f s o = true -> field_differs_comparably f s o = true ->
    tcp_distance s o = Some (field_penalty f).
Proof. exact tcp_single_field_off_exact. Qed.
Check C12_tcp_single_field_off :
  forall (f : tcp_field) (s o : tcp_sig),
    ttl_u8 (t_ittl s) ->
    single_field_off f s o = true -> field_differs_comparably f s o = true ->
    tcp_distance s o = Some (field_penalty f).
Print Assumptions C12_tcp_single_field_off.

Theorem C12_http_expsw_off :
  forall s o : http_sig,
    optional_name_reused s = false -> expsw_off s o = true -> expsw_reversed s o = false ->
    http_distance s o = Some pen_expsw.
Proof. exact http_expsw_off_exact. Qed.
Check C12_http_expsw_off :
  forall s o : http_sig,
    optional_name_reused s = false -> expsw_off s o = true -> expsw_reversed s o = false ->
    http_distance s o = Some pen_expsw.
Print Assumptions C12_http_expsw_off.

(* the TTL / window components: rejected, 0, or exactly 2; exactly 2 for comparable forms that differ *)
Theorem C12_ttl_window_components :
  (forall ot st, distance_ttl ot st = None \/ distance_ttl ot st = Some 0 \/ distance_ttl ot st = Some pen_ttl)
  /\ (forall st ot, ttl_u8 st -> ttl_obs_wf ot -> ttl_comparable st ot ->
                    distance_ttl ot st = Some (if ttl_initial ot =? ttl_initial st then 0 else pen_ttl))
  /\ (forall ow sw m, distance_window_size ow sw m = None \/ distance_window_size ow sw m = Some 0
                      \/ distance_window_size ow sw m = Some pen_wsize)
  /\ (forall sw ow m, win_same_form sw ow ->
                      distance_window_size ow sw m = Some (if window_size_eqb ow sw then 0 else pen_wsize))
  /\ (forall k w m, distance_window_size (WValue w) (WMss k) m =
                    Some (match m with Some mv => if (0 <? mv) && (w =? k * mv) then 0 else pen_wsize | None => pen_wsize end))
  /\ (forall n w m, distance_window_size (WValue w) (WMod n) m =
                    Some (if (0 <? n) && (w mod n =? 0) then 0 else pen_wsize)).
Proof. exact ttl_window_components. Qed.
Check C12_ttl_window_components :
  (forall ot st, distance_ttl ot st = None \/ distance_ttl ot st = Some 0 \/ distance_ttl ot st = Some pen_ttl)
  /\ (forall st ot, ttl_u8 st -> ttl_obs_wf ot -> ttl_comparable st ot ->
                    distance_ttl ot st = Some (if ttl_initial ot =? ttl_initial st then 0 else pen_ttl))
  /\ (forall ow sw m, distance_window_size ow sw m = None \/ distance_window_size ow sw m = Some 0
                      \/ distance_window_size ow sw m = Some pen_wsize)
  /\ (forall sw ow m, win_same_form sw ow ->
                      distance_window_size ow sw m = Some (if window_size_eqb ow sw then 0 else pen_wsize))
  /\ (forall k w m, distance_window_size (WValue w) (WMss k) m =
                    Some (match m with Some mv => if (0 <? mv) && (w =? k * mv) then 0 else pen_wsize | None => pen_wsize end))
  /\ (forall n w m, distance_window_size (WValue w) (WMod n) m =
                    Some (if (0 <? n) && (w mod n =? 0) then 0 else pen_wsize)).
Print Assumptions C12_ttl_window_components.

(* hop-count TTLs against the other signature forms (after fix c12ttl): `t+d` and `i+?` signatures are compared by
   initial TTL, an `i-` signature accepts every observed TTL up to i and rejects the rest *)
Theorem C12_ttl_distance_forms :
  forall t d, t + d <= 255 ->
    (forall t' d', t' + d' <= 255 ->
       distance_ttl (TtlDistance t d) (TtlDistance t' d') = Some (if t + d =? t' + d' then 0 else pen_ttl))
    /\ (forall i, distance_ttl (TtlDistance t d) (TtlGuess i) = Some (if t + d =? i then 0 else pen_ttl))
    /\ (forall i, distance_ttl (TtlDistance t d) (TtlBad i) = if t <=? i then Some 0 else None)
    /\ (forall i, distance_ttl (TtlValue t) (TtlBad i) = if t <=? i then Some 0 else None).
Proof. exact ttl_distance_forms. Qed.
Check C12_ttl_distance_forms :
  forall t d, t + d <= 255 ->
    (forall t' d', t' + d' <= 255 ->
       distance_ttl (TtlDistance t d) (TtlDistance t' d') = Some (if t + d =? t' + d' then 0 else pen_ttl))
    /\ (forall i, distance_ttl (TtlDistance t d) (TtlGuess i) = Some (if t + d =? i then 0 else pen_ttl))
    /\ (forall i, distance_ttl (TtlDistance t d) (TtlBad i) = if t <=? i then Some 0 else None)
    /\ (forall i, distance_ttl (TtlValue t) (TtlBad i) = if t <=? i then Some 0 else None).
Print Assumptions C12_ttl_distance_forms.

(* for ANY signature and observation: rejection exactly on a decisive mismatch or an incomparable TTL /
   window form; otherwise the distance is the plain sum of the five per-field penalties (each >= 0, so a
   difference in one field never lowers it) and is at most 9 *)
Theorem C12_tcp_distance_structure :
  forall s o : tcp_sig,
    tcp_distance s o =
    (if tcp_decisive_mismatch_b s o then None
     else match distance_ttl (t_ittl o) (t_ittl s), distance_window_size (t_wsize o) (t_wsize s) (t_mss o) with
          | Some t, Some w =>
              Some (t + (if t_olen o =? t_olen s then 0 else pen_olen)
                      + (if optfield_inst_b (t_mss s) (t_mss o) then 0 else pen_mss)
                      + w + (if optfield_inst_b (t_wscale s) (t_wscale o) then 0 else pen_wscale))
          | _, _ => None end)
    /\ (forall d, tcp_distance s o = Some d -> d <= 9).
Proof. exact tcp_distance_structure. Qed.
Check C12_tcp_distance_structure :
  forall s o : tcp_sig,
    tcp_distance s o =
    (if tcp_decisive_mismatch_b s o then None
     else match distance_ttl (t_ittl o) (t_ittl s), distance_window_size (t_wsize o) (t_wsize s) (t_mss o) with
          | Some t, Some w =>
              Some (t + (if t_olen o =? t_olen s then 0 else pen_olen)
                      + (if optfield_inst_b (t_mss s) (t_mss o) then 0 else pen_mss)
                      + w + (if optfield_inst_b (t_wscale s) (t_wscale o) then 0 else pen_wscale))
          | _, _ => None end)
    /\ (forall d, tcp_distance s o = Some d -> d <= 9).
Print Assumptions C12_tcp_distance_structure.

Theorem C12_http_single_field :
  forall s o : http_sig,
    http_instance s o -> known_http s o = false ->
    (forall v, http_distance s (set_expsw o v) = Some (if contains (hs_expsw s) v then 0 else pen_expsw))
    /\ (forall v, http_distance s (set_horder o v) = header_penalty (hdr_errors v (hs_horder s)))
    /\ (forall v, http_distance s (set_habsent o v) = header_penalty (hdr_errors v (hs_habsent s))).
Proof. exact http_single_field. Qed.
Check C12_http_single_field :
  forall s o : http_sig,
    http_instance s o -> known_http s o = false ->
    (forall v, http_distance s (set_expsw o v) = Some (if contains (hs_expsw s) v then 0 else pen_expsw))
    /\ (forall v, http_distance s (set_horder o v) = header_penalty (hdr_errors v (hs_horder s)))
    /\ (forall v, http_distance s (set_habsent o v) = header_penalty (hdr_errors v (hs_habsent s))).
Print Assumptions C12_http_single_field.

(* header lists: the code's saturating two-pointer walk = the error count of the SPEC, mapped through the
   bands 0-2 / 3-5 / 6-8 / 9-11 / 12+ -> 0 / 1 / 2 / 3 / rejected; monotone; 0 errors for every instance *)
Theorem C12_header_band_laws :
  (forall obs sig, distance_header obs sig = header_penalty (hdr_errors obs sig))
  /\ (forall e e', e <= e' ->
        match header_penalty e, header_penalty e' with
        | Some p, Some p' => p <= p' | _, None => True | None, Some _ => False end)
  /\ (forall sig obs, opt_fresh sig -> hdr_inst sig obs -> hdr_errors obs sig = 0).
Proof. exact header_band_laws. Qed.
Check C12_header_band_laws :
  (forall obs sig, distance_header obs sig = header_penalty (hdr_errors obs sig))
  /\ (forall e e', e <= e' ->
        match header_penalty e, header_penalty e' with
        | Some p, Some p' => p <= p' | _, None => True | None, Some _ => False end)
  /\ (forall sig obs, opt_fresh sig -> hdr_inst sig obs -> hdr_errors obs sig = 0).
Print Assumptions C12_header_band_laws.

Theorem C12_http_distance_structure :
  forall s o : http_sig,
    http_distance s o =
    (if http_decisive_mismatch_b s o then None
     else match header_penalty (hdr_errors (hs_horder o) (hs_horder s)),
                header_penalty (hdr_errors (hs_habsent o) (hs_habsent s)) with
          | Some a, Some b => Some (a + b + (if contains (hs_expsw s) (hs_expsw o) then 0 else pen_expsw))
          | _, _ => None end)
    /\ (forall d, http_distance s o = Some d -> d <= 9).
Proof. exact http_distance_structure. Qed.
Check C12_http_distance_structure :
  forall s o : http_sig,
    http_distance s o =
    (if http_decisive_mismatch_b s o then None
     else match header_penalty (hdr_errors (hs_horder o) (hs_horder s)),
                header_penalty (hdr_errors (hs_habsent o) (hs_habsent s)) with
          | Some a, Some b => Some (a + b + (if contains (hs_expsw s) (hs_expsw o) then 0 else pen_expsw))
          | _, _ => None end)
    /\ (forall d, http_distance s o = Some d -> d <= 9).
Print Assumptions C12_http_distance_structure.

(* ---- quality: non-increasing, within [0.05, 1.0], 1.0 only at distance 0 — all d in N, both tables ---- *)
Theorem C12_quality_tcp : quality_laws tcp_score.
Proof. exact tcp_quality_laws. Qed.
Check C12_quality_tcp :
  (forall d d', d <= d' -> tcp_score d' <= tcp_score d)
  /\ (forall d, 5 <= tcp_score d <= 100) /\ (forall d, tcp_score d = 100 <-> d = 0).
Print Assumptions C12_quality_tcp.

Theorem C12_quality_http : quality_laws http_score.
Proof. exact http_quality_laws. Qed.
Check C12_quality_http :
  (forall d d', d <= d' -> http_score d' <= http_score d)
  /\ (forall d, 5 <= http_score d <= 100) /\ (forall d, http_score d = 100 <-> d = 0).
Print Assumptions C12_quality_http.

(* ---- known classes: the unchanged code violates the property there (witnesses), K3 is tight ---- *)
Theorem C12_known_ttl_form_gap_former_witness_agrees :
  Forall (fun st => tcp_instance (w_tcp st (WMss 4)) (w_tcp (TtlDistance 54 10) (WMss 4))
                    /\ tcp_distance (w_tcp st (WMss 4)) (w_tcp (TtlDistance 54 10) (WMss 4)) = Some 0)
         (cons (TtlBad 64) (cons (TtlGuess 64) (cons (TtlDistance 60 4) nil))).
Proof. exact Known_ttl_form_gap_former_witness_agrees. Qed.
Print Assumptions C12_known_ttl_form_gap_former_witness_agrees.
Theorem C12_known_expsw_strict_refuted :
  exists s o, http_instance s o /\ expsw_strict s o = true /\ http_distance s o <> Some 0.
Proof. exact Known_expsw_strict_refuted. Qed.
Print Assumptions C12_known_expsw_strict_refuted.
Theorem C12_known_expsw_strict_tight :
  forall s o : http_sig, expsw_strict s o = true -> distance_expsw o s = Some pen_expsw.
Proof. exact expsw_strict_tight. Qed.
Print Assumptions C12_known_expsw_strict_tight.
Theorem C12_known_optional_name_reused_refuted :
  exists s o, http_instance s o /\ optional_name_reused s = true /\ http_distance s o <> Some 0.
Proof. exact Known_optional_name_reused_refuted. Qed.
Print Assumptions C12_known_optional_name_reused_refuted.
Theorem C12_known_expsw_reversed_refuted :
  exists s o, optional_name_reused s = false /\ expsw_off s o = true /\ expsw_reversed s o = true
              /\ http_distance s o <> Some pen_expsw.
Proof. exact Known_expsw_reversed_refuted. Qed.
Print Assumptions C12_known_expsw_reversed_refuted.

(* ---- tie to the source: both score tables are those of tcp.rs / http.rs NOW (Gen/Consts.v is regenerated
   from /repo on every run), for every distance ---- *)
From HN Require Gen.Consts Proofs.ConstTieMatch.
Theorem C12_score_tables_match_source :
  (forall d, HN.Model.Match.tcp_score d = Consts.src_score_lookup Consts.src_tcp_score_arms Consts.src_tcp_max_distance Consts.src_tcp_score_capped Consts.src_tcp_score_default d)
  /\ (forall d, HN.Model.Match.http_score d = Consts.src_score_lookup Consts.src_http_score_arms Consts.src_http_max_distance Consts.src_http_score_capped Consts.src_http_score_default d).
Proof. split; [exact ConstTieMatch.tcp_score_tie | exact ConstTieMatch.http_score_tie]. Qed.
Print Assumptions C12_score_tables_match_source.

(* ---- side condition of C12_http_instance_zero on the shipped database, as a theorem about the file as it
   is NOW (Gen/Bundled.v is regenerated from p0f.fp on every run): in each of the 99 bundled HTTP signatures
   no optional header's name recurs later in its list (`opt_fresh`), so the class `optional_name_reused`
   is empty on the bundled database ---- *)
From HN Require Proofs.BundledHttpWf.
Theorem C12_bundled_http_signatures_opt_fresh :
  forallb HN.Spec.InstanceSpec.http_sig_wf_b BundledHttpWf.bundled_http_sig_values = true
  /\ length BundledHttpWf.bundled_http_sig_values = 99%nat.
Proof. exact BundledHttpWf.bundled_http_sigs_opt_fresh. Qed.
Print Assumptions C12_bundled_http_signatures_opt_fresh.
