(* C03 — TCP handshake packets are rendered into the p0f signature their headers define.
   Property theorems only; proofs live in Proofs/C03{Bytes,Fields,Options,Quirks,Main,Frame,Witness}.v.
   MODEL: Model/Pnet.v + Model/TcpExtract.v (pnet views, visit_tcp, ttl/window/mtu/ip_options, process.rs, Display).
   SPEC : Spec/P0fTcp.v (decode4/decode6 = RFC header layouts, render = p0f signature language, known = K1..K5).
   wf pkt is `decode4 p = Some s` / `decode6 p = Some s`: the bytes are a complete, well-formed IPv4/IPv6 TCP
   segment (option area arbitrary).  known s r = reportable s && (K1 s || K2 s || K3 s || K4 r || K5 s); K5 is now "malformed options" only.
   Repaired in /repo and dropped from `known`: K7 (MSS + header divisor built from header words) and the NS-bit
   half of K5; their old witnesses are kept as *_former_witness_agrees. *)
From Coq Require Import List NArith Bool.
From Coq Require Import Strings.Byte.
From HN Require Import Base.Bytes Model.SigAst Model.Pnet Model.TcpExtract Spec.P0fTcp Gen.Mtu
  Proofs.C03Bytes Proofs.C03Fields Proofs.C03Options Proofs.C03Quirks Proofs.C03Main Proofs.C03Frame Proofs.C03Witness.
Import ListNotations.
Open Scope N_scope.

(* MAIN (IPv4): for every byte string that decodes as a complete IPv4 TCP segment (wf = decode4 p = Some s) and is in
   no known class, what the model of process_ipv4_packet reports (client sig / server sig / MTU / link label, or
   error) is what the p0f signature language defines for the decoded headers. *)
Theorem C03_ipv4 :
  forall (db : list (bytes * list N)) (p : bytes) (s : segment),
    decode4 p = Some s -> known s (process_ipv4_packet db p) = false ->
    process_ipv4_packet db p = render db s.
Proof. exact model_spec_v4. Qed.
Check C03_ipv4 :
  forall (db : list (bytes * list N)) (p : bytes) (s : segment),
    decode4 p = Some s -> known s (process_ipv4_packet db p) = false ->
    process_ipv4_packet db p = render db s.
Print Assumptions C03_ipv4.

(* MAIN (IPv6). *)
Theorem C03_ipv6 :
  forall (db : list (bytes * list N)) (p : bytes) (s : segment),
    decode6 p = Some s -> known s (process_ipv6_packet db p) = false ->
    process_ipv6_packet db p = render db s.
Proof. exact model_spec_v6. Qed.
Check C03_ipv6 :
  forall (db : list (bytes * list N)) (p : bytes) (s : segment),
    decode6 p = Some s -> known s (process_ipv6_packet db p) = false ->
    process_ipv6_packet db p = render db s.
Print Assumptions C03_ipv6.

(* the shape of DESIGN Appendix A: forall pkt, wf pkt -> known pkt = false -> show (model pkt) = show (render pkt) *)
Theorem C03 :
  forall (db : list (bytes * list N)) (p : bytes) (s : segment),
    decode4 p = Some s -> known s (process_ipv4_packet db p) = false ->
    show_out (process_ipv4_packet db p) = show_out (render db s).
Proof. exact model_spec_v4_shown. Qed.
Check C03 :
  forall (db : list (bytes * list N)) (p : bytes) (s : segment),
    decode4 p = Some s -> known s (process_ipv4_packet db p) = false ->
    show_out (process_ipv4_packet db p) = show_out (render db s).
Print Assumptions C03.

Theorem C03_v6_shown :
  forall (db : list (bytes * list N)) (p : bytes) (s : segment),
    decode6 p = Some s -> known s (process_ipv6_packet db p) = false ->
    show_out (process_ipv6_packet db p) = show_out (render db s).
Proof. exact model_spec_v6_shown. Qed.
Check C03_v6_shown :
  forall (db : list (bytes * list N)) (p : bytes) (s : segment),
    decode6 p = Some s -> known s (process_ipv6_packet db p) = false ->
    show_out (process_ipv6_packet db p) = show_out (render db s).
Print Assumptions C03_v6_shown.

(* framing: packet_parser.rs + lib.rs process_packet = the documented strategy order (Ethernet, raw IP, NULL/loopback) *)
Theorem C03_framing :
  forall (db : list (bytes * list N)) (f : bytes),
    process_frame db f = match unframe f with
                         | FV4 p => process_ipv4_packet db p
                         | FV6 p => process_ipv6_packet db p
                         | FNone => Ok out_none end.
Proof. exact process_frame_unframe. Qed.
Check C03_framing :
  forall (db : list (bytes * list N)) (f : bytes),
    process_frame db f = match unframe f with
                         | FV4 p => process_ipv4_packet db p
                         | FV6 p => process_ipv6_packet db p
                         | FNone => Ok out_none end.
Print Assumptions C03_framing.

(* per-field lemmas *)
Theorem C03_ittl_spec :
  forall t : N, t < 256 -> calculate_ttl t = spec_ittl t.
Proof. exact ittl_spec. Qed.
Check C03_ittl_spec :
  forall t : N, t < 256 -> calculate_ttl t = spec_ittl t.
Print Assumptions C03_ittl_spec.

Theorem C03_ittl_distance :
  forall t d : N, t < 256 -> calculate_ttl t = TtlDistance t d ->
    0 < t /\ d <= 30 /\ In (t + d) [32; 64; 128; 255]
    /\ (forall c : N, In c [32; 64; 128; 255] -> t <= c -> t + d <= c).
Proof. exact ittl_distance. Qed.
Check C03_ittl_distance :
  forall t d : N, t < 256 -> calculate_ttl t = TtlDistance t d ->
    0 < t /\ d <= 30 /\ In (t + d) [32; 64; 128; 255]
    /\ (forall c : N, In c [32; 64; 128; 255] -> t <= c -> t + d <= c).
Print Assumptions C03_ittl_distance.

Theorem C03_olen_spec :
  forall p : bytes, 5 <= v4_header_length p -> calculate_ipv4_length p = v4_header_length p * 4 - 20.
Proof. exact olen_spec. Qed.
Check C03_olen_spec :
  forall p : bytes, 5 <= v4_header_length p -> calculate_ipv4_length p = v4_header_length p * 4 - 20.
Print Assumptions C03_olen_spec.

(* window: all 2^16 x 2^16 (window, MSS) pairs, by arithmetic *)
Theorem C03_window_sound :
  forall (w mss hdr : N) (ts : bool) (v : ip_version) (k : N),
    detect_win_multiplicator w mss hdr ts v = WMss k ->
    (w = k * mss \/ (ts = true /\ w = k * (mss - 12))) /\ k <= 255 /\ w <> 0 /\ 100 <= mss.
Proof. exact window_sound. Qed.
Check C03_window_sound :
  forall (w mss hdr : N) (ts : bool) (v : ip_version) (k : N),
    detect_win_multiplicator w mss hdr ts v = WMss k ->
    (w = k * mss \/ (ts = true /\ w = k * (mss - 12))) /\ k <= 255 /\ w <> 0 /\ 100 <= mss.
Print Assumptions C03_window_sound.

Theorem C03_window_mod_sound :
  forall (w mss hdr : N) (ts : bool) (v : ip_version) (m : N),
    detect_win_multiplicator w mss hdr ts v = WMod m ->
    In m [4096; 2048; 1024; 512; 256] /\ w mod m = 0
    /\ (forall m' : N, In m' [4096; 2048; 1024; 512; 256] -> w mod m' = 0 -> m' <= m)
    /\ check_div w mss = None /\ (ts = true -> check_div w (mss - 12) = None).
Proof. exact window_mod_sound. Qed.
Check C03_window_mod_sound :
  forall (w mss hdr : N) (ts : bool) (v : ip_version) (m : N),
    detect_win_multiplicator w mss hdr ts v = WMod m ->
    In m [4096; 2048; 1024; 512; 256] /\ w mod m = 0
    /\ (forall m' : N, In m' [4096; 2048; 1024; 512; 256] -> w mod m' = 0 -> m' <= m)
    /\ check_div w mss = None /\ (ts = true -> check_div w (mss - 12) = None).
Print Assumptions C03_window_mod_sound.

Theorem C03_window_mtu_sound :
  forall (w mss hdr : N) (ts : bool) (v : ip_version) (k : N),
    detect_win_multiplicator w mss hdr ts v = WMtu k ->
    exists d : N, In d (code_mtu_divisors v mss hdr ts) /\ w = k * d /\ k <= 255 /\ d <> 0.
Proof. exact window_mtu_sound. Qed.
Check C03_window_mtu_sound :
  forall (w mss hdr : N) (ts : bool) (v : ip_version) (k : N),
    detect_win_multiplicator w mss hdr ts v = WMtu k ->
    exists d : N, In d (code_mtu_divisors v mss hdr ts) /\ w = k * d /\ k <= 255 /\ d <> 0.
Print Assumptions C03_window_mtu_sound.

Theorem C03_window_priority :
  forall (w mss hdr : N) (ts : bool) (v : ip_version) (k : N),
    detect_win_multiplicator w mss hdr ts v = WMtu k ->
    check_div w mss = None /\ (ts = true -> check_div w (mss - 12) = None)
    /\ (forall m' : N, In m' [4096; 2048; 1024; 512; 256] -> w mod m' <> 0).
Proof. exact window_priority. Qed.
Check C03_window_priority :
  forall (w mss hdr : N) (ts : bool) (v : ip_version) (k : N),
    detect_win_multiplicator w mss hdr ts v = WMtu k ->
    check_div w mss = None /\ (ts = true -> check_div w (mss - 12) = None)
    /\ (forall m' : N, In m' [4096; 2048; 1024; 512; 256] -> w mod m' <> 0).
Print Assumptions C03_window_priority.

Theorem C03_mtu_spec :
  forall (s : segment) (m : N),
    th_doff (sg_tcp s) = 10 -> ih_hlen (sg_ip s) + 20 = min_headers (ih_ver (sg_ip s)) ->
    m + min_headers (ih_ver (sg_ip s)) <= 65535 ->
    code_mtu s m = m + min_headers (ih_ver (sg_ip s)).
Proof. exact mtu_spec. Qed.
Check C03_mtu_spec :
  forall (s : segment) (m : N),
    th_doff (sg_tcp s) = 10 -> ih_hlen (sg_ip s) + 20 = min_headers (ih_ver (sg_ip s)) ->
    m + min_headers (ih_ver (sg_ip s)) <= 65535 ->
    code_mtu s m = m + min_headers (ih_ver (sg_ip s)).
Print Assumptions C03_mtu_spec.

Theorem C03_window_value_raw :
  forall (w mss hdr : N) (ts : bool) (v : ip_version) (x : N),
    detect_win_multiplicator w mss hdr ts v = WValue x -> x = w.
Proof. exact window_value_raw. Qed.
Check C03_window_value_raw :
  forall (w mss hdr : N) (ts : bool) (v : ip_version) (x : N),
    detect_win_multiplicator w mss hdr ts v = WValue x -> x = w.
Print Assumptions C03_window_value_raw.

(* window class = SPEC (priority MSS multiple > modulus > MTU multiple > raw) for every 16-bit window and every MSS,
   with the header size visit_tcp hands to detect_win_multiplicator (40 / 60 bytes); no exclusion any more *)
Theorem C03_window_spec :
  forall (v : ip_version) (w m : N) (ts : bool),
    v <> IpAny -> w < 65536 ->
    detect_win_multiplicator w m (min_total_header v) ts v = spec_window v w (Some m) ts.
Proof. exact window_spec. Qed.
Check C03_window_spec :
  forall (v : ip_version) (w m : N) (ts : bool),
    v <> IpAny -> w < 65536 ->
    detect_win_multiplicator w m (min_total_header v) ts v = spec_window v w (Some m) ts.
Print Assumptions C03_window_spec.

(* option walk: on option areas without a malformed option and without bytes after EOL, layout / MSS / window scale are
   the SPEC's, and the loop terminates within its fuel on every input *)
Theorem C03_layout_spec :
  forall (ty : N) (opts : bytes) (q0 : list quirk),
    forallb good_item (options_of opts) = true ->
    exists st : wst,
      walk (S (length opts)) ty opts {| w_mss := None; w_wscale := None; w_olayout := []; w_quirks := q0 |} = Some st
      /\ w_olayout st = spec_layout (options_of opts) /\ w_mss st = spec_mss (options_of opts)
      /\ w_wscale st = spec_wscale (options_of opts)
      /\ w_quirks st = q0 ++ flat_map (item_quirks ty) (options_of opts).
Proof. exact walk_layout. Qed.
Check C03_layout_spec :
  forall (ty : N) (opts : bytes) (q0 : list quirk),
    forallb good_item (options_of opts) = true ->
    exists st : wst,
      walk (S (length opts)) ty opts {| w_mss := None; w_wscale := None; w_olayout := []; w_quirks := q0 |} = Some st
      /\ w_olayout st = spec_layout (options_of opts) /\ w_mss st = spec_mss (options_of opts)
      /\ w_wscale st = spec_wscale (options_of opts)
      /\ w_quirks st = q0 ++ flat_map (item_quirks ty) (options_of opts).
Print Assumptions C03_layout_spec.

Theorem C03_walk_terminates :
  forall (ty : N) (fuel : nat) (buf : bytes) (st : wst),
    (length buf <= fuel)%nat -> walk fuel ty buf st <> None.
Proof. exact walk_fuel. Qed.
Check C03_walk_terminates :
  forall (ty : N) (fuel : nat) (buf : bytes) (st : wst),
    (length buf <= fuel)%nat -> walk fuel ty buf st <> None.
Print Assumptions C03_walk_terminates.

(* quirk_<q>_iff for all 17 quirks at once: q is in the list the code builds iff its header condition holds *)
Theorem C03_quirks_ipv4 :
  forall s : segment,
    ih_ver (sg_ip s) = IpV4 -> ih_flow (sg_ip s) = 0 -> K5 s = false ->
    (ty_of (sg_tcp s) =? SYN) = syn_only (th_flags (sg_tcp s)) ->
    forall q : quirk,
      memq q (code_quirks (hq4 (negb (ih_tos_ecn (sg_ip s) =? 0)) (ih_mbz (sg_ip s)) (ih_df (sg_ip s)) (ih_id (sg_ip s) =? 0))
                          (sg_tcp s) (options_of (sg_opts s)))
      = quirk_holds s (options_of (sg_opts s)) q.
Proof. exact quirk_members_v4. Qed.
Check C03_quirks_ipv4 :
  forall s : segment,
    ih_ver (sg_ip s) = IpV4 -> ih_flow (sg_ip s) = 0 -> K5 s = false ->
    (ty_of (sg_tcp s) =? SYN) = syn_only (th_flags (sg_tcp s)) ->
    forall q : quirk,
      memq q (code_quirks (hq4 (negb (ih_tos_ecn (sg_ip s) =? 0)) (ih_mbz (sg_ip s)) (ih_df (sg_ip s)) (ih_id (sg_ip s) =? 0))
                          (sg_tcp s) (options_of (sg_opts s)))
      = quirk_holds s (options_of (sg_opts s)) q.
Print Assumptions C03_quirks_ipv4.

Theorem C03_quirks_ipv6 :
  forall s : segment,
    ih_ver (sg_ip s) = IpV6 -> ih_df (sg_ip s) = false -> ih_mbz (sg_ip s) = false -> K5 s = false ->
    (ty_of (sg_tcp s) =? SYN) = syn_only (th_flags (sg_tcp s)) ->
    forall q : quirk,
      memq q (code_quirks (hq6 (negb (ih_flow (sg_ip s) =? 0)) (negb (ih_tos_ecn (sg_ip s) =? 0)))
                          (sg_tcp s) (options_of (sg_opts s)))
      = quirk_holds s (options_of (sg_opts s)) q.
Proof. exact quirk_members_v6. Qed.
Check C03_quirks_ipv6 :
  forall s : segment,
    ih_ver (sg_ip s) = IpV6 -> ih_df (sg_ip s) = false -> ih_mbz (sg_ip s) = false -> K5 s = false ->
    (ty_of (sg_tcp s) =? SYN) = syn_only (th_flags (sg_tcp s)) ->
    forall q : quirk,
      memq q (code_quirks (hq6 (negb (ih_flow (sg_ip s) =? 0)) (negb (ih_tos_ecn (sg_ip s) =? 0)))
                          (sg_tcp s) (options_of (sg_opts s)))
      = quirk_holds s (options_of (sg_opts s)) q.
Print Assumptions C03_quirks_ipv6.

Theorem C03_quirks_canonical :
  forall (s : segment) (items : list opt_item) (l : list quirk),
    K4_of l = false -> (forall q : quirk, memq q l = quirk_holds s items q) -> l = spec_quirks s items.
Proof. exact quirks_eq. Qed.
Check C03_quirks_canonical :
  forall (s : segment) (items : list opt_item) (l : list quirk),
    K4_of l = false -> (forall q : quirk, memq q l = quirk_holds s items q) -> l = spec_quirks s items.
Print Assumptions C03_quirks_canonical.

Theorem C03_pclass_spec :
  forall (t : bytes) (th : tcp_hdr) (opts : bytes) (plen : N),
    decode_tcp t = Some (th, opts, plen) ->
    match tcp_payload t with [] => PZero | _ => PNonZero end = (if plen =? 0 then PZero else PNonZero).
Proof. exact pclass_spec. Qed.
Check C03_pclass_spec :
  forall (t : bytes) (th : tcp_hdr) (opts : bytes) (plen : N),
    decode_tcp t = Some (th, opts, plen) ->
    match tcp_payload t with [] => PZero | _ => PNonZero end = (if plen =? 0 then PZero else PNonZero).
Print Assumptions C03_pclass_spec.

Theorem C03_role_spec :
  forall f : N, f < 256 ->
    is_valid f (N.land f TYPE_MASK) = match spec_role f with RInvalid => false | _ => true end
    /\ (is_valid f (N.land f TYPE_MASK) = true ->
        from_client f = match spec_role f with RClient => true | _ => false end).
Proof. exact role_spec. Qed.
Check C03_role_spec :
  forall f : N, f < 256 ->
    is_valid f (N.land f TYPE_MASK) = match spec_role f with RInvalid => false | _ => true end
    /\ (is_valid f (N.land f TYPE_MASK) = true ->
        from_client f = match spec_role f with RClient => true | _ => false end).
Print Assumptions C03_role_spec.

Theorem C03_link_spec :
  forall (db : list (bytes * list N)) (m : N), matching_by_mtu db m = spec_link db m.
Proof. exact link_spec. Qed.
Check C03_link_spec :
  forall (db : list (bytes * list N)) (m : N), matching_by_mtu db m = spec_link db m.
Print Assumptions C03_link_spec.

(* known classes: each is inhabited by a packet on which the model and the SPEC print different lines *)
Theorem Known_K1_refuted :
  exists (p : bytes) (s : segment),
    decode4 p = Some s /\ K1 s = true /\ known s (process_ipv4_packet mtu_table p) = true
    /\ show_out (process_ipv4_packet mtu_table p) <> show_out (render mtu_table s).
Proof. exact Known_K1_refuted_l. Qed.
Check Known_K1_refuted :
  exists (p : bytes) (s : segment),
    decode4 p = Some s /\ K1 s = true /\ known s (process_ipv4_packet mtu_table p) = true
    /\ show_out (process_ipv4_packet mtu_table p) <> show_out (render mtu_table s).
Print Assumptions Known_K1_refuted.

Theorem Known_K2_refuted :
  exists (p : bytes) (s : segment),
    decode4 p = Some s /\ K2 s = true /\ known s (process_ipv4_packet mtu_table p) = true
    /\ show_out (process_ipv4_packet mtu_table p) <> show_out (render mtu_table s).
Proof. exact Known_K2_refuted_l. Qed.
Check Known_K2_refuted :
  exists (p : bytes) (s : segment),
    decode4 p = Some s /\ K2 s = true /\ known s (process_ipv4_packet mtu_table p) = true
    /\ show_out (process_ipv4_packet mtu_table p) <> show_out (render mtu_table s).
Print Assumptions Known_K2_refuted.

Theorem Known_K3_refuted :
  exists (p : bytes) (s : segment),
    decode4 p = Some s /\ K3 s = true /\ known s (process_ipv4_packet mtu_table p) = true
    /\ show_out (process_ipv4_packet mtu_table p) <> show_out (render mtu_table s).
Proof. exact Known_K3_refuted_l. Qed.
Check Known_K3_refuted :
  exists (p : bytes) (s : segment),
    decode4 p = Some s /\ K3 s = true /\ known s (process_ipv4_packet mtu_table p) = true
    /\ show_out (process_ipv4_packet mtu_table p) <> show_out (render mtu_table s).
Print Assumptions Known_K3_refuted.

Theorem Known_K4_refuted :
  exists (p : bytes) (s : segment),
    decode4 p = Some s /\ K4 (process_ipv4_packet mtu_table p) = true
    /\ known s (process_ipv4_packet mtu_table p) = true
    /\ show_out (process_ipv4_packet mtu_table p) <> show_out (render mtu_table s).
Proof. exact Known_K4_refuted_l. Qed.
Check Known_K4_refuted :
  exists (p : bytes) (s : segment),
    decode4 p = Some s /\ K4 (process_ipv4_packet mtu_table p) = true
    /\ known s (process_ipv4_packet mtu_table p) = true
    /\ show_out (process_ipv4_packet mtu_table p) <> show_out (render mtu_table s).
Print Assumptions Known_K4_refuted.

Theorem Known_K5_bad_refuted :
  exists (p : bytes) (s : segment),
    decode4 p = Some s /\ K5 s = true /\ known s (process_ipv4_packet mtu_table p) = true
    /\ show_out (process_ipv4_packet mtu_table p) <> show_out (render mtu_table s).
Proof. exact Known_K5_bad_refuted_l. Qed.
Check Known_K5_bad_refuted :
  exists (p : bytes) (s : segment),
    decode4 p = Some s /\ K5 s = true /\ known s (process_ipv4_packet mtu_table p) = true
    /\ show_out (process_ipv4_packet mtu_table p) <> show_out (render mtu_table s).
Print Assumptions Known_K5_bad_refuted.

(* repaired classes: on the former witnesses the model (= the repaired code) and the SPEC now agree, in no known class *)
Theorem K5_ns_former_witness_agrees :
  exists s : segment,
    decode4 w_K5_ns = Some s /\ known s (process_ipv4_packet mtu_table w_K5_ns) = false
    /\ show_out (process_ipv4_packet mtu_table w_K5_ns) = show_out (render mtu_table s).
Proof. exact K5_ns_former_witness_agrees_l. Qed.
Check K5_ns_former_witness_agrees :
  exists s : segment,
    decode4 w_K5_ns = Some s /\ known s (process_ipv4_packet mtu_table w_K5_ns) = false
    /\ show_out (process_ipv4_packet mtu_table w_K5_ns) = show_out (render mtu_table s).
Print Assumptions K5_ns_former_witness_agrees.

Theorem K7_former_witness_agrees :
  exists s : segment,
    decode4 w_K7_a = Some s /\ known s (process_ipv4_packet mtu_table w_K7_a) = false
    /\ show_out (process_ipv4_packet mtu_table w_K7_a) = show_out (render mtu_table s).
Proof. exact K7_a_former_witness_agrees_l. Qed.
Check K7_former_witness_agrees :
  exists s : segment,
    decode4 w_K7_a = Some s /\ known s (process_ipv4_packet mtu_table w_K7_a) = false
    /\ show_out (process_ipv4_packet mtu_table w_K7_a) = show_out (render mtu_table s).
Print Assumptions K7_former_witness_agrees.

Theorem K7_b_former_witness_agrees :
  exists s : segment,
    decode4 w_K7_b = Some s /\ known s (process_ipv4_packet mtu_table w_K7_b) = false
    /\ show_out (process_ipv4_packet mtu_table w_K7_b) = show_out (render mtu_table s).
Proof. exact K7_b_former_witness_agrees_l. Qed.
Check K7_b_former_witness_agrees :
  exists s : segment,
    decode4 w_K7_b = Some s /\ known s (process_ipv4_packet mtu_table w_K7_b) = false
    /\ show_out (process_ipv4_packet mtu_table w_K7_b) = show_out (render mtu_table s).
Print Assumptions K7_b_former_witness_agrees.

Theorem K7_v6_former_witness_agrees :
  exists s : segment,
    decode6 w_K7_v6 = Some s /\ known s (process_ipv6_packet mtu_table w_K7_v6) = false
    /\ show_out (process_ipv6_packet mtu_table w_K7_v6) = show_out (render mtu_table s).
Proof. exact K7_v6_former_witness_agrees_l. Qed.
Check K7_v6_former_witness_agrees :
  exists s : segment,
    decode6 w_K7_v6 = Some s /\ known s (process_ipv6_packet mtu_table w_K7_v6) = false
    /\ show_out (process_ipv6_packet mtu_table w_K7_v6) = show_out (render mtu_table s).
Print Assumptions K7_v6_former_witness_agrees.

(* the hypotheses of C03_ipv4 / C03_ipv6 are satisfiable on ordinary handshake packets: a Linux-style SYN with 20
   option bytes (reported with MTU 1500, "Ethernet or modem") and an IPv6 SYN+ACK with a flow label *)
Example C03_ipv4_domain_inhabited : in_domain4 ok_syn4 = true.
Proof. exact domain4_inhabited. Qed.
Example C03_ipv6_domain_inhabited : in_domain6 ok_synack6 = true.
Proof. exact domain6_inhabited. Qed.
Example C03_ipv4_example_line :
  show_out (process_ipv4_packet mtu_table ok_syn4)
  = bs "syn=4:64+0:0:1460:65535,7:mss,sok,ts,nop,ws:df,id+:0 synack=- mtu=1500 link=45746865726e6574206f72206d6f64656d".
Proof. exact ok_syn4_shown. Qed.

(* ---- tie to the source: named constants of ttl.rs / tcp_process.rs NOW (Gen/Consts.v is regenerated
   from /repo on every run) ---- *)
From HN Require Gen.Consts Proofs.ConstTieTcp.
Theorem C03_constants_match_source :
  HN.Model.TcpExtract.MAX_HOPS_ACCEPTABLE = Consts.src_tcp_MAX_HOPS_ACCEPTABLE /\
  HN.Model.TcpExtract.IP4_MBZ = Consts.src_tcp_IP4_MBZ /\
  HN.Model.TcpExtract.IP_TOS_CE_ECT = N.lor Consts.src_tcp_IP_TOS_CE Consts.src_tcp_IP_TOS_ECT.
Proof. exact ConstTieTcp.tcp_constants_tie. Qed.
Print Assumptions C03_constants_match_source.
