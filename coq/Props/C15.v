(* C15 — filtering commutes with analysis.  Property theorems only; proofs live in
   Proofs/RawFrameProofs.v (decoder agreement) and Proofs/CommuteProofs.v (commutation). *)
From Coq Require Import List NArith.
From HN Require Import Base.Bytes Model.Filter Model.RawFrame Model.FilterGlue
     Spec.FilterSpec Spec.CommuteSpec Proofs.RawFrameProofs Proofs.CommuteProofs.
Import ListNotations.

(* the pre-parse filter and the analyzer decode the same endpoints (Ethernet / raw IP / loopback
   framing, IPv4 with any IHL 0..15 and any total length, IPv6), outside the known class *)
Theorem C15_quick_agrees :
  forall (f : bytes) (e : endpoints),
    analyzer_endpoints f = Some e -> loopback_mismatch f = false -> quick_info f = Some e.
Proof. exact quick_agrees. Qed.
Check C15_quick_agrees :
  forall (f : bytes) (e : endpoints),
    analyzer_endpoints f = Some e -> loopback_mismatch f = false -> quick_info f = Some e.
Print Assumptions C15_quick_agrees.

(* when the filter recognises nothing and lets the frame through, the analyzer reports nothing *)
Theorem C15_failopen_harmless :
  forall f : bytes,
    quick_info f = None -> analyzer_endpoints f = None \/ loopback_mismatch f = true.
Proof. exact failopen_harmless. Qed.
Check C15_failopen_harmless :
  forall f : bytes,
    quick_info f = None -> analyzer_endpoints f = None \/ loopback_mismatch f = true.
Print Assumptions C15_failopen_harmless.

(* commutation for any per-packet analyzer `step` that is inert on frames without endpoints *)
Theorem C15_commutes :
  forall (St Out : Type) (step : St -> bytes -> St * list Out),
    (forall s p, analyzer_endpoints p = None -> step s p = (s, [])) ->
    forall c : cfg_src, cfg_wf c = true ->
    forall (tau : list bytes) (s : St),
      (forall p, In p tau -> loopback_mismatch p = false) ->
      run (with_filter (build c) step) s tau = run step s (admitted_subtrace c tau).
Proof. exact commute. Qed.
Check C15_commutes :
  forall (St Out : Type) (step : St -> bytes -> St * list Out),
    (forall s p, analyzer_endpoints p = None -> step s p = (s, [])) ->
    forall c : cfg_src, cfg_wf c = true ->
    forall (tau : list bytes) (s : St),
      (forall p, In p tau -> loopback_mismatch p = false) ->
      run (with_filter (build c) step) s tau = run step s (admitted_subtrace c tau).
Print Assumptions C15_commutes.

(* the glue of lib.rs / parallel.rs around any protocol logic `core` *)
Theorem C15_commutes_glue :
  forall (St Out : Type) (core : St -> endpoints -> bytes -> St * list Out) (c : cfg_src),
    cfg_wf c = true ->
    forall (tau : list bytes) (s : St),
      (forall p, In p tau -> loopback_mismatch p = false) ->
      run (process_packet core (Some (build c))) s tau
      = run (process_packet core None) s (admitted_subtrace c tau).
Proof. exact @commute_glue. Qed.
Check C15_commutes_glue :
  forall (St Out : Type) (core : St -> endpoints -> bytes -> St * list Out) (c : cfg_src),
    cfg_wf c = true ->
    forall (tau : list bytes) (s : St),
      (forall p, In p tau -> loopback_mismatch p = false) ->
      run (process_packet core (Some (build c))) s tau
      = run (process_packet core None) s (admitted_subtrace c tau).
Print Assumptions C15_commutes_glue.

(* parallel mode: worker w sees the frames sharded to it, in order (FIFO queue, no overflow) *)
Theorem C15_commutes_per_worker :
  forall (St Out : Type) (step : St -> bytes -> St * list Out),
    (forall s p, analyzer_endpoints p = None -> step s p = (s, [])) ->
    forall (c : cfg_src) (shard : bytes -> nat) (w : nat), cfg_wf c = true ->
    forall (tau : list bytes) (s : St),
      (forall p, In p tau -> loopback_mismatch p = false) ->
      let mine := filter (fun p => Nat.eqb (shard p) w) in
      run (with_filter (build c) step) s (mine tau) = run step s (mine (admitted_subtrace c tau)).
Proof. exact commute_worker. Qed.
Check C15_commutes_per_worker :
  forall (St Out : Type) (step : St -> bytes -> St * list Out),
    (forall s p, analyzer_endpoints p = None -> step s p = (s, [])) ->
    forall (c : cfg_src) (shard : bytes -> nat) (w : nat), cfg_wf c = true ->
    forall (tau : list bytes) (s : St),
      (forall p, In p tau -> loopback_mismatch p = false) ->
      let mine := filter (fun p => Nat.eqb (shard p) w) in
      run (with_filter (build c) step) s (mine tau) = run step s (mine (admitted_subtrace c tau)).
Print Assumptions C15_commutes_per_worker.

(* the hypotheses are satisfiable on a non-trivial input: an Ethernet/IPv4 SYN to port 443 with
   IHL 6, under a filter that admits only destination port 443 *)
Example C15_hypotheses_satisfiable :
  let f := hexb (bs "0000000000010000000000020800460000300000400040060000c0a801010a00000201020304303901bb00000000000000005002ffff00000000") in
  analyzer_endpoints f = Some {| e_src := V4 3232235777; e_dst := V4 167772162; e_sport := 12345; e_dport := 443 |}
  /\ loopback_mismatch f = false /\ quick_info f = analyzer_endpoints f
  /\ cfg_wf only_dst_443 = true /\ spec_admits only_dst_443 f = true.
Proof. vm_compute. repeat split; reflexivity. Qed.

(* known class (open finding C15-loopback-1e): the class is inhabited and the commutation fails on it *)
Lemma Known_loopback_mismatch_refuted :
  exists (c : cfg_src) (f : bytes),
    loopback_mismatch f = true /\ cfg_wf c = true /\
    raw_apply (build c) f <> spec_admits c f /\
    run (process_packet echo_core (Some (build c))) tt [f]
    <> run (process_packet echo_core None) tt (admitted_subtrace c [f]).
Proof.
  exists only_dst_443, loopback_v4_frame.
  destruct loopback_frame_facts as (H1 & H2 & _ & _ & H5 & H6).
  repeat split; auto. { rewrite H5, H6. discriminate. } apply loopback_refutes_commutation.
Qed.
Print Assumptions Known_loopback_mismatch_refuted.
