(* C15 — filtering commutes with analysis.  Property theorems only; proofs live in
   Proofs/RawFrameProofs.v (decoder agreement) and Proofs/CommuteProofs.v (commutation). *)
From Coq Require Import List NArith.
From HN Require Import Base.Bytes Model.Filter Model.RawFrame Model.FilterGlue
     Spec.FilterSpec Spec.CommuteSpec Proofs.RawFrameProofs Proofs.CommuteProofs.
Import ListNotations.

(* the pre-parse filter and the analyzer decode the same endpoints (Ethernet / raw IP / loopback
   framing -- after fix 3908c86 with any bytes 2..3 of the loopback header --, IPv4 with any IHL 0..15 and
   any total length, IPv6): no known class is left *)
Theorem C15_quick_agrees :
  forall (f : bytes) (e : endpoints),
    analyzer_endpoints f = Some e -> quick_info f = Some e.
Proof. exact quick_agrees. Qed.
Check C15_quick_agrees :
  forall (f : bytes) (e : endpoints),
    analyzer_endpoints f = Some e -> quick_info f = Some e.
Print Assumptions C15_quick_agrees.

(* when the filter recognises nothing and lets the frame through, the analyzer reports nothing *)
Theorem C15_failopen_harmless :
  forall f : bytes,
    quick_info f = None -> analyzer_endpoints f = None.
Proof. exact failopen_harmless. Qed.
Check C15_failopen_harmless :
  forall f : bytes,
    quick_info f = None -> analyzer_endpoints f = None.
Print Assumptions C15_failopen_harmless.

(* commutation for any per-packet analyzer `step` that is inert on frames without endpoints *)
Theorem C15_commutes :
  forall (St Out : Type) (step : St -> bytes -> St * list Out),
    (forall s p, analyzer_endpoints p = None -> step s p = (s, [])) ->
    forall c : cfg_src, cfg_wf c = true ->
    forall (tau : list bytes) (s : St),
      run (with_filter (build c) step) s tau = run step s (admitted_subtrace c tau).
Proof. exact commute. Qed.
Check C15_commutes :
  forall (St Out : Type) (step : St -> bytes -> St * list Out),
    (forall s p, analyzer_endpoints p = None -> step s p = (s, [])) ->
    forall c : cfg_src, cfg_wf c = true ->
    forall (tau : list bytes) (s : St),
      run (with_filter (build c) step) s tau = run step s (admitted_subtrace c tau).
Print Assumptions C15_commutes.

(* the glue of lib.rs / parallel.rs around any protocol logic `core` *)
Theorem C15_commutes_glue :
  forall (St Out : Type) (core : St -> endpoints -> bytes -> St * list Out) (c : cfg_src),
    cfg_wf c = true ->
    forall (tau : list bytes) (s : St),
      run (process_packet core (Some (build c))) s tau
      = run (process_packet core None) s (admitted_subtrace c tau).
Proof. exact @commute_glue. Qed.
Check C15_commutes_glue :
  forall (St Out : Type) (core : St -> endpoints -> bytes -> St * list Out) (c : cfg_src),
    cfg_wf c = true ->
    forall (tau : list bytes) (s : St),
      run (process_packet core (Some (build c))) s tau
      = run (process_packet core None) s (admitted_subtrace c tau).
Print Assumptions C15_commutes_glue.

(* parallel mode: worker w sees the frames sharded to it, in order (FIFO queue, no overflow) *)
Theorem C15_commutes_per_worker :
  forall (St Out : Type) (step : St -> bytes -> St * list Out),
    (forall s p, analyzer_endpoints p = None -> step s p = (s, [])) ->
    forall (c : cfg_src) (shard : bytes -> nat) (w : nat), cfg_wf c = true ->
    forall (tau : list bytes) (s : St),
      let mine := filter (fun p => Nat.eqb (shard p) w) in
      run (with_filter (build c) step) s (mine tau) = run step s (mine (admitted_subtrace c tau)).
Proof. exact commute_worker. Qed.
Check C15_commutes_per_worker :
  forall (St Out : Type) (step : St -> bytes -> St * list Out),
    (forall s p, analyzer_endpoints p = None -> step s p = (s, [])) ->
    forall (c : cfg_src) (shard : bytes -> nat) (w : nat), cfg_wf c = true ->
    forall (tau : list bytes) (s : St),
      let mine := filter (fun p => Nat.eqb (shard p) w) in
      run (with_filter (build c) step) s (mine tau) = run step s (mine (admitted_subtrace c tau)).
Print Assumptions C15_commutes_per_worker.

(* the hypotheses are satisfiable on a non-trivial input: an Ethernet/IPv4 SYN to port 443 with
   IHL 6, under a filter that admits only destination port 443 *)
Example C15_hypotheses_satisfiable :
  let f := hexb (bs "0000000000010000000000020800460000300000400040060000c0a801010a00000201020304303901bb00000000000000005002ffff00000000") in
  analyzer_endpoints f = Some {| e_src := V4 3232235777; e_dst := V4 167772162; e_sport := 12345; e_dport := 443 |}
  /\ quick_info f = analyzer_endpoints f
  /\ cfg_wf only_dst_443 = true /\ spec_admits only_dst_443 f = true.
Proof. vm_compute. repeat split; reflexivity. Qed.

(* the former known class (C15-loopback-1e, fixed by 3908c86): 1e 00 00 00 + IPv4 to port 80 under a filter that
   admits only destination port 443 is now rejected by the filter, as the documented rule demands *)
Example C15_loopback_frame_now_filtered :
  analyzer_endpoints loopback_v4_frame
  = Some {| e_src := V4 167772161; e_dst := V4 167772162; e_sport := 12345; e_dport := 80 |}
  /\ quick_info loopback_v4_frame = analyzer_endpoints loopback_v4_frame
  /\ raw_apply (build only_dst_443) loopback_v4_frame = spec_admits only_dst_443 loopback_v4_frame.
Proof. destruct loopback_frame_facts as (_ & H2 & H3 & H4 & H5). rewrite H4, H5. auto. Qed.

(* ====================================================================================================
   CONCRETE INSTANCES.  The inertness hypothesis of C15_commutes is PROVED for the packet-level models of the
   TLS and TCP analyzers (Model/TlsAnalyzer.v, Model/TcpAnalyzer.v): a frame for which analyzer_endpoints
   reports nothing (no IP packet, next protocol not TCP, no TCP view) leaves the flow table / tracker unchanged
   and reports nothing.  "Reports" = Model/AnalyzerReports.v: TLS Ok(Some ..) results; TCP results with at least
   one of syn / syn_ack / mtu / client_uptime / server_uptime (an Err, Ok(None) and the all-None result are not
   outputs, the convention of Model/FilterGlue.v).  analyzer_endpoints is RawFrame's decoder, the analyzer
   models use Model/Pnet.v: Proofs/FrameBridge.v proves the two agree.  Proofs: Proofs/DischargeInstances.v. *)
From Coq Require Import ZArith.
From HN Require Import Model.TlsAnalyzer Model.AnalyzerReports Proofs.KeyedExamples Proofs.DischargeInstances Proofs.DischargeExamples.
From HN Require Model.TcpAnalyzer.

Theorem C15_inert_tls : forall (cap : N) (fl : tls_state) (f : bytes),
  analyzer_endpoints f = None -> tls_report_step cap fl f = (fl, []).
Proof. exact tls_inert. Qed.
Check C15_inert_tls : forall (cap : N) (fl : tls_state) (f : bytes),
  analyzer_endpoints f = None -> tls_report_step cap fl f = (fl, []).
Print Assumptions C15_inert_tls.

Theorem C15_inert_tcp : forall (db : list (bytes * list N)) (cap : N) (tr : TcpAnalyzer.tcp_state) (f : bytes) (now : Z),
  analyzer_endpoints f = None -> tcp_report_step_ev db cap tr (f, now) = (tr, []).
Proof. exact tcp_inert_event. Qed.
Check C15_inert_tcp : forall (db : list (bytes * list N)) (cap : N) (tr : TcpAnalyzer.tcp_state) (f : bytes) (now : Z),
  analyzer_endpoints f = None -> tcp_report_step_ev db cap tr (f, now) = (tr, []).
Print Assumptions C15_inert_tcp.

(* the concrete TLS analyzer behind the filter = the concrete TLS analyzer on the admitted sub-trace:
   same final flow table, same reports -- every capacity, every C14 configuration, every trace, every start table *)
Theorem C15_commutes_tls_concrete : forall (cap : N) (c : cfg_src), cfg_wf c = true ->
  forall (tau : list bytes) (fl : tls_state),
    run (with_filter (build c) (tls_report_step cap)) fl tau = run (tls_report_step cap) fl (admitted_subtrace c tau).
Proof. exact commutes_tls_concrete. Qed.
Check C15_commutes_tls_concrete : forall (cap : N) (c : cfg_src), cfg_wf c = true ->
  forall (tau : list bytes) (fl : tls_state),
    run (with_filter (build c) (tls_report_step cap)) fl tau = run (tls_report_step cap) fl (admitted_subtrace c tau).
Print Assumptions C15_commutes_tls_concrete.

(* TCP: the arrival time belongs to the packet, so the trace is a list of events (frame, clock reading);
   run_ev / with_filter_ev are run / with_filter over events (the filter looks at the frame) *)
Theorem C15_commutes_tcp_concrete : forall (db : list (bytes * list N)) (cap : N) (c : cfg_src), cfg_wf c = true ->
  forall (tau : list TcpAnalyzer.tcp_event) (tr : TcpAnalyzer.tcp_state),
    run_ev TcpAnalyzer.tcp_event TcpAnalyzer.tcp_state TcpAnalyzer.tcp_result
           (with_filter_ev TcpAnalyzer.tcp_event TcpAnalyzer.tcp_state TcpAnalyzer.tcp_result fst (tcp_report_step_ev db cap) (build c)) tr tau
    = run_ev TcpAnalyzer.tcp_event TcpAnalyzer.tcp_state TcpAnalyzer.tcp_result (tcp_report_step_ev db cap) tr
             (filter (fun e => spec_admits c (fst e)) tau).
Proof. exact commutes_tcp_concrete. Qed.
Check C15_commutes_tcp_concrete : forall (db : list (bytes * list N)) (cap : N) (c : cfg_src), cfg_wf c = true ->
  forall (tau : list TcpAnalyzer.tcp_event) (tr : TcpAnalyzer.tcp_state),
    run_ev TcpAnalyzer.tcp_event TcpAnalyzer.tcp_state TcpAnalyzer.tcp_result
           (with_filter_ev TcpAnalyzer.tcp_event TcpAnalyzer.tcp_state TcpAnalyzer.tcp_result fst (tcp_report_step_ev db cap) (build c)) tr tau
    = run_ev TcpAnalyzer.tcp_event TcpAnalyzer.tcp_state TcpAnalyzer.tcp_result (tcp_report_step_ev db cap) tr
             (filter (fun e => spec_admits c (fst e)) tau).
Print Assumptions C15_commutes_tcp_concrete.

(* the literal instance of C15_commutes (steps over frames), with the clock reading a function of the frame *)
Theorem C15_commutes_tcp_concrete_frames :
  forall (db : list (bytes * list N)) (cap : N) (clock : bytes -> Z) (c : cfg_src), cfg_wf c = true ->
  forall (tau : list bytes) (tr : TcpAnalyzer.tcp_state),
    run (with_filter (build c) (tcp_report_step db cap clock)) tr tau
    = run (tcp_report_step db cap clock) tr (admitted_subtrace c tau).
Proof. exact commutes_tcp_concrete_frames. Qed.
Print Assumptions C15_commutes_tcp_concrete_frames.

(* satisfiable and non-trivial: a port-443-only filter; flow A (port 443, ClientHello in two segments) around a
   ClientHello to port 8443 and a frame without endpoints: unfiltered two reports, filtered one *)
Example C15_tls_concrete_example :
  cfg_wf only_dst_443 = true /\ analyzer_endpoints junk = None /\
  admitted_subtrace only_dst_443 c15_trace = [tlsA1; tlsA2] /\
  map is_report (snd (run (tls_report_step 8) [] c15_trace)) = [true; true] /\
  map is_report (snd (run (with_filter (build only_dst_443) (tls_report_step 8)) [] c15_trace)) = [true].
Proof. exact c15_tls_example. Qed.
Example C15_tcp_concrete_example :
  cfg_wf only_dst_80 = true /\
  filter (fun e => spec_admits only_dst_80 (fst e)) c15_tcp_trace = [tcpA1; tcpA2] /\
  map up_freq (snd (run_ev TcpAnalyzer.tcp_event TcpAnalyzer.tcp_state TcpAnalyzer.tcp_result
                      (with_filter_ev TcpAnalyzer.tcp_event TcpAnalyzer.tcp_state TcpAnalyzer.tcp_result fst
                         (tcp_report_step_ev [] 8) (build only_dst_80)) [] c15_tcp_trace))
  = [None; Some 1000%Z] /\
  length (snd (run_ev TcpAnalyzer.tcp_event TcpAnalyzer.tcp_state TcpAnalyzer.tcp_result (tcp_report_step_ev [] 8) [] c15_tcp_trace)) = 4%nat.
Proof. exact c15_tcp_example. Qed.

(* ---------------------------------------------------------------- HTTP analyzer model (Model/HttpAnalyzer.v);
   reports = request / response results (Model/HttpGlue.v http_report_step); any pure parsers *)
From HN Require Import Base.Cache Model.HttpFlow Model.HttpAnalyzer Model.HttpGlue Proofs.HttpInstances Proofs.HttpExamples.
From HN Require Model.HttpRecog.

Theorem C15_inert_http : forall (Req Resp : Type) (parse_req : bytes -> option Req) (parse_resp : bytes -> option Resp)
    (st : http_state) (f : bytes),
  analyzer_endpoints f = None -> http_report_step parse_req parse_resp st f = (st, []).
Proof. exact @http_inert. Qed.
Check C15_inert_http : forall (Req Resp : Type) (parse_req : bytes -> option Req) (parse_resp : bytes -> option Resp)
    (st : http_state) (f : bytes),
  analyzer_endpoints f = None -> http_report_step parse_req parse_resp st f = (st, []).
Print Assumptions C15_inert_http.

Theorem C15_commutes_http_concrete : forall (Req Resp : Type) (parse_req : bytes -> option Req) (parse_resp : bytes -> option Resp)
    (c : cfg_src), cfg_wf c = true ->
  forall (tau : list bytes) (st : http_state),
    FilterGlue.run (with_filter (build c) (http_report_step parse_req parse_resp)) st tau
    = FilterGlue.run (http_report_step parse_req parse_resp) st (admitted_subtrace c tau).
Proof. exact @commutes_http_concrete. Qed.
Check C15_commutes_http_concrete : forall (Req Resp : Type) (parse_req : bytes -> option Req) (parse_resp : bytes -> option Resp)
    (c : cfg_src), cfg_wf c = true ->
  forall (tau : list bytes) (st : http_state),
    FilterGlue.run (with_filter (build c) (http_report_step parse_req parse_resp)) st tau
    = FilterGlue.run (http_report_step parse_req parse_resp) st (admitted_subtrace c tau).
Print Assumptions C15_commutes_http_concrete.

(* a destination-port-80-only filter: the requests pass, A's response (towards port 40000) is not admitted *)
Example C15_http_concrete_example :
  cfg_wf only_dst_80 = true /\
  admitted_subtrace only_dst_80 (junk :: http_trace) = [hA_syn; hB_syn; hA_r1; hB_req; hA_r2] /\
  map hkind (snd (FilterGlue.run (http_report_step HttpRecog.recog_req HttpRecog.recog_resp) (cache_new 8) (junk :: http_trace))) = [1; 1; 2] /\
  map hkind (snd (FilterGlue.run (with_filter (build only_dst_80) (http_report_step HttpRecog.recog_req HttpRecog.recog_resp)) (cache_new 8) (junk :: http_trace))) = [1; 1].
Proof. exact http_c15_example. Qed.
