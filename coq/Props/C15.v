(* C15 — filtering commutes with analysis.  Property theorems only; proofs live in
   Proofs/RawFrameProofs.v (decoder agreement) and Proofs/CommuteProofs.v (commutation). *)
From Coq Require Import List NArith.
From HN Require Import Base.Bytes Model.Filter Model.RawFrame Model.FilterGlue
     Spec.FilterSpec Spec.CommuteSpec Proofs.RawFrameProofs Proofs.CommuteProofs.
Import ListNotations.

(* the pre-parse filter and the analyzer decode the same endpoints (Ethernet / raw IP / loopback
   framing -- after fix 3908c86 with any bytes 2..3 of the loopback header --, IPv4 with any IHL 0..15 and
   any total length, IPv6): no known class is left *)
Theorem C15_quick_agrees :
  forall (f : bytes) (e : endpoints),
    analyzer_endpoints f = Some e -> quick_info f = Some e.
Proof. exact quick_agrees. Qed.
Check C15_quick_agrees :
  forall (f : bytes) (e : endpoints),
    analyzer_endpoints f = Some e -> quick_info f = Some e.
Print Assumptions C15_quick_agrees.

(* when the filter recognises nothing and lets the frame through, the analyzer reports nothing *)
Theorem C15_failopen_harmless :
  forall f : bytes,
    quick_info f = None -> analyzer_endpoints f = None.
Proof. exact failopen_harmless. Qed.
Check C15_failopen_harmless :
  forall f : bytes,
    quick_info f = None -> analyzer_endpoints f = None.
Print Assumptions C15_failopen_harmless.

(* commutation for any per-packet analyzer `step` that is inert on frames without endpoints *)
Theorem C15_commutes :
  forall (St Out : Type) (step : St -> bytes -> St * list Out),
    (forall s p, analyzer_endpoints p = None -> step s p = (s, [])) ->
    forall c : cfg_src, cfg_wf c = true ->
    forall (tau : list bytes) (s : St),
      run (with_filter (build c) step) s tau = run step s (admitted_subtrace c tau).
Proof. exact commute. Qed.
Check C15_commutes :
  forall (St Out : Type) (step : St -> bytes -> St * list Out),
    (forall s p, analyzer_endpoints p = None -> step s p = (s, [])) ->
    forall c : cfg_src, cfg_wf c = true ->
    forall (tau : list bytes) (s : St),
      run (with_filter (build c) step) s tau = run step s (admitted_subtrace c tau).
Print Assumptions C15_commutes.

(* the glue of lib.rs / parallel.rs around any protocol logic `core` *)
Theorem C15_commutes_glue :
  forall (St Out : Type) (core : St -> endpoints -> bytes -> St * list Out) (c : cfg_src),
    cfg_wf c = true ->
    forall (tau : list bytes) (s : St),
      run (process_packet core (Some (build c))) s tau
      = run (process_packet core None) s (admitted_subtrace c tau).
Proof. exact @commute_glue. Qed.
Check C15_commutes_glue :
  forall (St Out : Type) (core : St -> endpoints -> bytes -> St * list Out) (c : cfg_src),
    cfg_wf c = true ->
    forall (tau : list bytes) (s : St),
      run (process_packet core (Some (build c))) s tau
      = run (process_packet core None) s (admitted_subtrace c tau).
Print Assumptions C15_commutes_glue.

(* parallel mode: worker w sees the frames sharded to it, in order (FIFO queue, no overflow) *)
Theorem C15_commutes_per_worker :
  forall (St Out : Type) (step : St -> bytes -> St * list Out),
    (forall s p, analyzer_endpoints p = None -> step s p = (s, [])) ->
    forall (c : cfg_src) (shard : bytes -> nat) (w : nat), cfg_wf c = true ->
    forall (tau : list bytes) (s : St),
      let mine := filter (fun p => Nat.eqb (shard p) w) in
      run (with_filter (build c) step) s (mine tau) = run step s (mine (admitted_subtrace c tau)).
Proof. exact commute_worker. Qed.
Check C15_commutes_per_worker :
  forall (St Out : Type) (step : St -> bytes -> St * list Out),
    (forall s p, analyzer_endpoints p = None -> step s p = (s, [])) ->
    forall (c : cfg_src) (shard : bytes -> nat) (w : nat), cfg_wf c = true ->
    forall (tau : list bytes) (s : St),
      let mine := filter (fun p => Nat.eqb (shard p) w) in
      run (with_filter (build c) step) s (mine tau) = run step s (mine (admitted_subtrace c tau)).
Print Assumptions C15_commutes_per_worker.

(* the hypotheses are satisfiable on a non-trivial input: an Ethernet/IPv4 SYN to port 443 with
   IHL 6, under a filter that admits only destination port 443 *)
Example C15_hypotheses_satisfiable :
  let f := hexb (bs "0000000000010000000000020800460000300000400040060000c0a801010a00000201020304303901bb00000000000000005002ffff00000000") in
  analyzer_endpoints f = Some {| e_src := V4 3232235777; e_dst := V4 167772162; e_sport := 12345; e_dport := 443 |}
  /\ quick_info f = analyzer_endpoints f
  /\ cfg_wf only_dst_443 = true /\ spec_admits only_dst_443 f = true.
Proof. vm_compute. repeat split; reflexivity. Qed.

(* the former known class (C15-loopback-1e, fixed by 3908c86): 1e 00 00 00 + IPv4 to port 80 under a filter that
   admits only destination port 443 is now rejected by the filter, as the documented rule demands *)
Example C15_loopback_frame_now_filtered :
  analyzer_endpoints loopback_v4_frame
  = Some {| e_src := V4 167772161; e_dst := V4 167772162; e_sport := 12345; e_dport := 80 |}
  /\ quick_info loopback_v4_frame = analyzer_endpoints loopback_v4_frame
  /\ raw_apply (build only_dst_443) loopback_v4_frame = spec_admits only_dst_443 loopback_v4_frame.
Proof. destruct loopback_frame_facts as (_ & H2 & H3 & H4 & H5). rewrite H4, H5. auto. Qed.
