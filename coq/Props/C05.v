(* C05 — HTTP/1.x heads are reported faithfully and independently of the body.
   Property theorems only; proofs live in Proofs/Http1TextProofs.v, Http1Proofs.v, Http1ObsProofs.v,
   LangProofs.v, CookieProofs.v, C05Final.v.
   analyse_request / analyse_response : model of HttpProcessors::parse_request / parse_response
   render, wf, expect_*, known       : Spec/Http1Grammar.v *)
From Coq Require Import List NArith Bool.
Import ListNotations.
From HN Require Import Base.Bytes Base.Http1Text Model.Http1 Model.Lang Model.Http1Obs Spec.Http1Grammar
  Proofs.Http1Proofs Proofs.Http1ObsProofs Proofs.LangProofs Proofs.CookieProofs Proofs.C05Final.

(* 1. the first blank line of head ++ body is the end of the head, whatever the body is *)
Theorem C05_head_split : forall (m : msg) (body : bytes), wf m = true -> head_of (render m ++ body) = render m.
Proof. exact head_split. Qed.
Check C05_head_split : forall (m : msg) (body : bytes), wf m = true -> head_of (render m ++ body) = render m.
Print Assumptions C05_head_split.

(* 2. body independence, for every well-formed head (the known classes included) *)
Theorem C05_request_body_independent : forall (m : msg) (body : bytes), wf m = true -> is_request m = true ->
  analyse_request (render m ++ body) = analyse_request (render m).
Proof. exact request_body_independent. Qed.
Check C05_request_body_independent : forall (m : msg) (body : bytes), wf m = true -> is_request m = true ->
  analyse_request (render m ++ body) = analyse_request (render m).
Print Assumptions C05_request_body_independent.

Theorem C05_response_body_independent : forall (m : msg) (body : bytes), wf m = true -> is_request m = false ->
  analyse_response (render m ++ body) = analyse_response (render m).
Proof. exact response_body_independent. Qed.
Check C05_response_body_independent : forall (m : msg) (body : bytes), wf m = true -> is_request m = false ->
  analyse_response (render m ++ body) = analyse_response (render m).
Print Assumptions C05_response_body_independent.

(* 3. the complete report: method, target, version, headers in wire order with exact names and trimmed
      values, cookies and referer split out, user-agent, preferred language, p0f observation *)
Theorem C05_request : forall (m : msg) (me t : bytes) (v11 : bool) (body : bytes),
  wf m = true -> m_start m = SReq me t v11 -> known m = false ->
  analyse_request (render m ++ body) = Ok (expect_request m me t v11).
Proof. exact request_faithful. Qed.
Check C05_request : forall (m : msg) (me t : bytes) (v11 : bool) (body : bytes),
  wf m = true -> m_start m = SReq me t v11 -> known m = false ->
  analyse_request (render m ++ body) = Ok (expect_request m me t v11).
Print Assumptions C05_request.

Theorem C05_response : forall (m : msg) (v11 : bool) (st reason body : bytes),
  wf m = true -> m_start m = SResp v11 st reason ->
  analyse_response (render m ++ body) = Ok (expect_response m v11 st).
Proof. exact response_faithful. Qed.
Check C05_response : forall (m : msg) (v11 : bool) (st reason body : bytes),
  wf m = true -> m_start m = SResp v11 st reason ->
  analyse_response (render m ++ body) = Ok (expect_response m v11 st).
Print Assumptions C05_response.

(* 3b. `known` has no class left (known m = false for every m): the theorem without that hypothesis *)
Theorem C05_request_all : forall (m : msg) (me t : bytes) (v11 : bool) (body : bytes),
  wf m = true -> m_start m = SReq me t v11 ->
  analyse_request (render m ++ body) = Ok (expect_request m me t v11).
Proof. exact request_faithful_all. Qed.
Check C05_request_all : forall (m : msg) (me t : bytes) (v11 : bool) (body : bytes),
  wf m = true -> m_start m = SReq me t v11 ->
  analyse_request (render m ++ body) = Ok (expect_request m me t v11).
Print Assumptions C05_request_all.

(* 4. components *)
Theorem C05_headers_roundtrip : forall m : msg, wf m = true ->
  parse_headers (map render_line (m_headers m)) = Some (map report_header (indexed (m_headers m) O)).
Proof. exact headers_roundtrip. Qed.
Check C05_headers_roundtrip : forall m : msg, wf m = true ->
  parse_headers (map render_line (m_headers m)) = Some (map report_header (indexed (m_headers m) O)).
Print Assumptions C05_headers_roundtrip.

Theorem C05_lang_is_argmax_first : forall items : list lang_item,
  items_ok items = true ->
  get_highest_quality_language (render_value (VLang items)) = spec_lang items.
Proof. exact lang_is_argmax_first. Qed.
Check C05_lang_is_argmax_first : forall items : list lang_item,
  items_ok items = true ->
  get_highest_quality_language (render_value (VLang items)) = spec_lang items.
Print Assumptions C05_lang_is_argmax_first.

Theorem C05_cookie_split : forall v : bytes, plain_ws v = true -> parse_cookies v = number_cookies (cookie_pairs v) O.
Proof. exact cookie_split. Qed.
Check C05_cookie_split : forall v : bytes, plain_ws v = true -> parse_cookies v = number_cookies (cookie_pairs v) O.
Print Assumptions C05_cookie_split.

(* 5. no known class is left: the former witnesses agree with the specification
      (the classes gate-methods, tag-case and weight-OWS were repaired in /repo by 4eff695, 050bdf8, b696a82
       and are inside C05_request / C05_lang_is_argmax_first now) *)
Theorem C05_cookies_former_witness_agrees :
  wf w_cookies = true /\ known w_cookies = false /\
  analyse_request (render w_cookies) = Ok (expect_request w_cookies (bs "GET") (bs "/") true).
Proof. exact cookies_former_witness_agrees. Qed.
Print Assumptions C05_cookies_former_witness_agrees.
Theorem C05_upper_q_former_witness_agrees :
  wf w_upper_q = true /\ known w_upper_q = false /\
  analyse_request (render w_upper_q) = Ok (expect_request w_upper_q (bs "GET") (bs "/") true).
Proof. exact upper_q_former_witness_agrees. Qed.
Print Assumptions C05_upper_q_former_witness_agrees.
Example C05_repaired_classes_inside :
  forallb (fun m => wf m && negb (known m)) [w_method; w_weight_ows; w_tag_case] = true.
Proof. exact repaired_classes_ok. Qed.

(* 6. the hypotheses are satisfiable on non-trivial messages *)
Example C05_request_hypotheses : wf ex_request = true /\ known ex_request = false /\ is_request ex_request = true.
Proof. exact ex_request_ok. Qed.
Example C05_response_hypotheses : wf ex_response = true /\ is_request ex_response = false.
Proof. exact ex_response_ok. Qed.
