(* C04 - JA4 fingerprints equal the FoxIO specification for every ClientHello.
   Property theorems only; proofs live in Proofs/TlsWireProofs.v and Proofs/Ja4Proofs.v.
     hello, encode_hello, wf, known, Ja4Spec.*   the specification side (Spec/Ja4Spec.v)
     parse_tls_client_hello, ja4_all, result_line the model of tls-parser + tls_process.rs + tls.rs
     sig_of h   the implementation's extraction loop run on the abstract extension list of h
   wf h    = h is an RFC-conformant ClientHello that fits one record (see Spec/Ja4Spec.v)
   known h = h is in one of the documented classes on which the unchanged code deviates *)
From Coq Require Import List NArith Bool Permutation.
From Coq Require Import Strings.Byte.
From HN Require Import Base.Bytes Model.TlsHello Model.Ja4 Spec.Ja4Spec Proofs.TlsWireProofs Proofs.Ja4Proofs Proofs.Ja4Shape.
Import ListNotations.
Open Scope N_scope.

(* byte-level round trip: the tls-parser model decodes every well-formed hello (any list lengths) *)
Theorem C04_parse_encode :
  forall h : hello, wf h = true -> parse_tls_client_hello (encode_hello h) = RSig (sig_of h).
Proof. exact parse_encode. Qed.
Check C04_parse_encode :
  forall h : hello, wf h = true -> parse_tls_client_hello (encode_hello h) = RSig (sig_of h).
Print Assumptions C04_parse_encode.

(* the four fingerprints JA4, JA4_r, JA4_o, JA4_ro computed from the bytes are those of the specification *)
Theorem C04_ja4_equals_spec :
  forall h : hello, wf h = true -> known h = false ->
    exists s, parse_tls_client_hello (encode_hello h) = RSig s /\ ja4_all s = Ja4Spec.all h.
Proof. exact model_ja4_eq. Qed.
Check C04_ja4_equals_spec :
  forall h : hello, wf h = true -> known h = false ->
    exists s, parse_tls_client_hello (encode_hello h) = RSig s /\ ja4_all s = Ja4Spec.all h.
Print Assumptions C04_ja4_equals_spec.

(* ... and so are the separately reported version, SNI, ALPN, cipher, extension, signature-algorithm,
   group and point-format fields (the whole canonical result line compared by the correspondence run) *)
Theorem C04_result_line_equals_spec :
  forall h : hello, wf h = true -> known h = false ->
    result_line (parse_tls_client_hello (encode_hello h)) = Ja4Spec.line h.
Proof. exact model_line_eq. Qed.
Check C04_result_line_equals_spec :
  forall h : hello, wf h = true -> known h = false ->
    result_line (parse_tls_client_hello (encode_hello h)) = Ja4Spec.line h.
Print Assumptions C04_result_line_equals_spec.

(* the hypotheses hold on a non-trivial input (GREASE in ciphers, extensions, groups and versions;
   SNI, ALPN, 14 extensions) *)
Example C04_hypotheses_satisfiable : wf sample_hello = true /\ known sample_hello = false.
Proof. exact sample_hello_ok. Qed.

(* reordering cipher suites and extensions changes neither JA4 nor JA4_r (computed from the bytes) *)
Theorem C04_sorted_perm_invariant :
  forall h h' : hello,
    wf h = true -> wf h' = true -> known h = false -> known h' = false ->
    Permutation (h_ciphers h) (h_ciphers h') -> Permutation (h_exts h) (h_exts h') -> h_version h = h_version h' ->
    exists s s', parse_tls_client_hello (encode_hello h) = RSig s /\ parse_tls_client_hello (encode_hello h') = RSig s'
                 /\ ja4_full (generate_ja4 s) = ja4_full (generate_ja4 s')
                 /\ ja4_raw (generate_ja4 s) = ja4_raw (generate_ja4 s').
Proof. exact model_sorted_perm_invariant. Qed.
Check C04_sorted_perm_invariant :
  forall h h' : hello,
    wf h = true -> wf h' = true -> known h = false -> known h' = false ->
    Permutation (h_ciphers h) (h_ciphers h') -> Permutation (h_exts h) (h_exts h') -> h_version h = h_version h' ->
    exists s s', parse_tls_client_hello (encode_hello h) = RSig s /\ parse_tls_client_hello (encode_hello h') = RSig s'
                 /\ ja4_full (generate_ja4 s) = ja4_full (generate_ja4 s')
                 /\ ja4_raw (generate_ja4 s) = ja4_raw (generate_ja4 s').
Print Assumptions C04_sorted_perm_invariant.

(* a GREASE cipher value, or a GREASE extension with any body, inserted anywhere changes none of the
   four fingerprints computed from the bytes *)
Theorem C04_grease_invariant :
  forall (h h' : hello) (g : N),
    wf h = true -> wf h' = true -> known h = false -> known h' = false -> grease g = true ->
    (  (exists a b, h_ciphers h = a ++ b /\ h' = with_ciphers h (a ++ g :: b))
    \/ (exists a b body, h_exts h = a ++ b /\ h' = with_exts h (a ++ (g, BRaw body) :: b)) ) ->
    exists s s', parse_tls_client_hello (encode_hello h) = RSig s /\ parse_tls_client_hello (encode_hello h') = RSig s'
                 /\ ja4_all s = ja4_all s'.
Proof. exact model_grease_invariant. Qed.
Check C04_grease_invariant :
  forall (h h' : hello) (g : N),
    wf h = true -> wf h' = true -> known h = false -> known h' = false -> grease g = true ->
    (  (exists a b, h_ciphers h = a ++ b /\ h' = with_ciphers h (a ++ g :: b))
    \/ (exists a b body, h_exts h = a ++ b /\ h' = with_exts h (a ++ (g, BRaw body) :: b)) ) ->
    exists s s', parse_tls_client_hello (encode_hello h) = RSig s /\ parse_tls_client_hello (encode_hello h') = RSig s'
                 /\ ja4_all s = ja4_all s'.
Print Assumptions C04_grease_invariant.

(* the same on the specification side for a GREASE value inserted anywhere in the signature-algorithm list
   or in the supported_versions list (all four fingerprints; carried to the bytes by C04_ja4_equals_spec) *)
Theorem C04_spec_grease_in_sigalgs :
  forall (h : hello) (a b : list (N * ext_body)) (x y : list N) (g : N),
    h_exts h = a ++ (13, BSigAlgs (x ++ y)) :: b -> grease g = true ->
    Ja4Spec.all (with_exts h (a ++ (13, BSigAlgs (x ++ g :: y)) :: b)) = Ja4Spec.all h.
Proof. exact spec_grease_sigalg_invariant. Qed.
Print Assumptions C04_spec_grease_in_sigalgs.
Theorem C04_spec_grease_in_versions :
  forall (h : hello) (a b : list (N * ext_body)) (x y : list N) (g : N),
    h_exts h = a ++ (43, BVersions (x ++ y)) :: b -> grease g = true ->
    Ja4Spec.all (with_exts h (a ++ (43, BVersions (x ++ g :: y)) :: b)) = Ja4Spec.all h.
Proof. exact spec_grease_version_invariant. Qed.
Print Assumptions C04_spec_grease_in_versions.

(* the original-order raw fingerprint spells out the non-GREASE cipher and extension lists and the
   signature algorithms in wire order *)
Theorem C04_ja4_ro_follows_bytes :
  forall h : hello, wf h = true -> known h = false ->
    exists s, parse_tls_client_hello (encode_hello h) = RSig s /\
      ja4_raw (generate_ja4_original s) =
        Ja4Spec.ja4_a h ++ bs "_" ++ Ja4Spec.csv (non_grease (h_ciphers h)) ++ bs "_"
        ++ Ja4Spec.csv (non_grease (ext_types h))
        ++ match non_grease (sig_algs h) with [] => [] | l => bs "_" ++ Ja4Spec.csv l end.
Proof. exact model_ja4_ro_follows_bytes. Qed.
Check C04_ja4_ro_follows_bytes :
  forall h : hello, wf h = true -> known h = false ->
    exists s, parse_tls_client_hello (encode_hello h) = RSig s /\
      ja4_raw (generate_ja4_original s) =
        Ja4Spec.ja4_a h ++ bs "_" ++ Ja4Spec.csv (non_grease (h_ciphers h)) ++ bs "_"
        ++ Ja4Spec.csv (non_grease (ext_types h))
        ++ match non_grease (sig_algs h) with [] => [] | l => bs "_" ++ Ja4Spec.csv l end.
Print Assumptions C04_ja4_ro_follows_bytes.

(* counts are two decimal digits and stop at 99 *)
Theorem C04_count_saturates_99 :
  forall n : N, (99 <= n -> count2 n = bs "99") /\ (n <= 99 -> count2 n = [n2b (48 + n / 10); n2b (48 + n mod 10)]).
Proof. exact count2_two_digits. Qed.
Check C04_count_saturates_99 :
  forall n : N, (99 <= n -> count2 n = bs "99") /\ (n <= 99 -> count2 n = [n2b (48 + n / 10); n2b (48 + n mod 10)]).
Print Assumptions C04_count_saturates_99.

(* ---- known classes: inside the domain, the unchanged code deviates (witnesses) ---- *)
Theorem C04_Known_alpn_refuted :
  (exists h, wf h = true /\ known_alpn h = true /\ result_line (parse_tls_client_hello (encode_hello h)) <> Ja4Spec.line h).
Proof. exact Known_alpn_single_char_refuted. Qed.
Print Assumptions C04_Known_alpn_refuted.
(* former known class K-version (legacy SSL 2.0, DTLS codes), repaired: the old witnesses now agree *)
Theorem C04_version_former_witnesses_agree :
  forallb (fun h => wf h && negb (known h)
                    && bytes_eqb (result_line (parse_tls_client_hello (encode_hello h))) (Ja4Spec.line h))
          [w_ver1b; w_ver2; w_ver3; w_ver4] = true.
Proof. exact version_former_witnesses_agree. Qed.
Print Assumptions C04_version_former_witnesses_agree.
(* former known class K-ext (extension types 0x?a?a outside RFC 8701), repaired: the old witness now agrees *)
Theorem C04_pseudo_grease_former_witness_agrees :
  wf w_ext1 = true /\ known w_ext1 = false
  /\ result_line (parse_tls_client_hello (encode_hello w_ext1)) = Ja4Spec.line w_ext1.
Proof. exact pseudo_grease_former_witness_agrees. Qed.
Print Assumptions C04_pseudo_grease_former_witness_agrees.

(* ---- tie to the source: the GREASE table is TLS_GREASE_VALUES of tls.rs NOW (Gen/Consts.v is regenerated
   from /repo on every run) ---- *)
From HN Require Gen.Consts Proofs.ConstTieJa4.
Theorem C04_grease_table_matches_source : HN.Model.Ja4.TLS_GREASE_VALUES = Consts.src_tls_grease_values.
Proof. exact ConstTieJa4.grease_values_tie. Qed.
Print Assumptions C04_grease_table_matches_source.

(* Shape laws of the transcription of generate_ja4_with_order, for every signature value. *)
Theorem C04_ja4_a_has_ten_characters :
  forall s o, length (HN.Model.Ja4.ja4_a (generate_ja4_with_order s o)) = 10%nat.
Proof. exact ja4_a_len. Qed.
Check C04_ja4_a_has_ten_characters :
  forall s o, length (HN.Model.Ja4.ja4_a (generate_ja4_with_order s o)) = 10%nat.
Print Assumptions C04_ja4_a_has_ten_characters.

Theorem C04_ja4_a_order_independent :
  forall s, HN.Model.Ja4.ja4_a (generate_ja4 s) = HN.Model.Ja4.ja4_a (generate_ja4_original s).
Proof. exact ja4_a_order_independent. Qed.
Print Assumptions C04_ja4_a_order_independent.

Theorem C04_ja4_full_and_raw_share_parts :
  forall s o, let p := generate_ja4_with_order s o in
    HN.Model.Ja4.ja4_full p = HN.Model.Ja4.ja4_a p ++ underscore ++ hash12 (HN.Model.Ja4.ja4_b p) ++ underscore ++ hash12 (HN.Model.Ja4.ja4_c p)
    /\ HN.Model.Ja4.ja4_raw p = HN.Model.Ja4.ja4_a p ++ underscore ++ HN.Model.Ja4.ja4_b p ++ underscore ++ HN.Model.Ja4.ja4_c p.
Proof. exact ja4_full_raw_same_parts. Qed.
Print Assumptions C04_ja4_full_and_raw_share_parts.

Theorem C04_no_cipher_hashes_to_zeros :
  forall s o, filter_grease_values (s_cipher_suites s) = [] ->
    HN.Model.Ja4.ja4_b (generate_ja4_with_order s o) = [] /\ hash12 (HN.Model.Ja4.ja4_b (generate_ja4_with_order s o)) = bs "000000000000".
Proof. exact ja4_no_ciphers. Qed.
Print Assumptions C04_no_cipher_hashes_to_zeros.
