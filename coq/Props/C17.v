(* C17 — Akamai HTTP/2 fingerprints follow the published format, incrementally too.
   Property theorems only; proofs live in Proofs/AkamaiProofs.v (and H2FramesProofs, HpackProofs). *)
From Coq Require Import List NArith Bool.
From HN Require Import Base.Bytes Model.H2Frames Model.Hpack Model.Akamai Model.AkamaiInc
     Spec.H2Wire Spec.AkamaiSpec Proofs.AkamaiProofs.
Import ListNotations.

(* Format.  For every frame list in the domain of the Akamai format (wf_frames: the frames the
   fingerprint reads are well-sized per RFC 7540, pseudo-header fields are the four request ones, the
   first header block - if one has started - is complete: block_complete) and outside the one known
   defect class (empty first SETTINGS), the code's fingerprint is S|WU|P|PS of AkamaiSpec.fp:
   all settings ids (known or unknown) and values in wire order, reserved bits masked, `00`/`0`
   defaults, exclusive bit, 31-bit dependency, weight+1, pseudo-header order of the whole first header
   block (padding and priority fields stripped, CONTINUATION fragments joined: fix 89b3393). *)
Theorem C17_string :
  forall frames : list frame,
    wf_frames frames = true -> known frames = false ->
    extract_akamai_fingerprint frames = Val (fp frames).
Proof. exact akamai_model_spec. Qed.
Check C17_string :
  forall frames : list frame,
    wf_frames frames = true -> known frames = false ->
    extract_akamai_fingerprint frames = Val (fp frames).
Print Assumptions C17_string.

Example C17_string_hyps_satisfiable :
  wf_frames (map snd ex_frames) = true /\ known (map snd ex_frames) = false /\
  fp (map snd ex_frames) = Some (bs "1:65536;3:100;4:6291456|15663105|3:1:0:201,5:0:3:101|m,a,s,p").
Proof. vm_compute. repeat split; reflexivity. Qed.

(* The same from the bytes on the wire (RFC 7540 4.1 encoding, reserved bit arbitrary, frames up to
   the 16 KiB cap, with or without the client preface). *)
Theorem C17_string_bytes :
  forall (pre : bool) (frs : list (bool * frame)),
    forallb wire_ok frs = true ->
    wf_frames (map snd frs) = true -> known (map snd frs) = false ->
    extract_akamai_fingerprint_from_bytes (stream_start pre frs) = Val (fp (map snd frs)).
Proof. exact akamai_bytes_model_spec. Qed.
Check C17_string_bytes :
  forall (pre : bool) (frs : list (bool * frame)),
    forallb wire_ok frs = true ->
    wf_frames (map snd frs) = true -> known (map snd frs) = false ->
    extract_akamai_fingerprint_from_bytes (stream_start pre frs) = Val (fp (map snd frs)).
Print Assumptions C17_string_bytes.

(* Chunk independence of the code, no hypothesis at all: for EVERY byte string and EVERY partition
   into chunks, add_bytes reports the one-shot fingerprint of the bytes received so far at the first
   chunk where that one-shot fingerprint exists, and nothing before or after.  (After fix 9ca3ef7 no
   "SETTINGS comes first" hypothesis (RFC 7540 3.5) is needed.) *)
Theorem C17_incremental_chunking :
  forall chunks : list bytes,
    inc_outs chunks = report_first (oneshot_prefixes [] chunks).
Proof. exact inc_is_first_oneshot. Qed.
Check C17_incremental_chunking :
  forall chunks : list bytes,
    inc_outs chunks = report_first (oneshot_prefixes [] chunks).
Print Assumptions C17_incremental_chunking.

(* Incremental extraction against the specification: for a connection start `stream_start pre frs`
   supplied in arbitrary chunks (any prefix of it), the extractor's outputs are those of
   AkamaiSpec.inc_spec: the fingerprint (by fp) of the frames completely received when the first
   SETTINGS frame completes, at that chunk, once.  Hypothesis: the frame lists seen at the chunk
   boundaries up to the report (AkamaiSpec.boundaries) are in the domain of C17_string. *)
Theorem C17_incremental :
  forall (pre : bool) (frs : list (bool * frame)),
    forallb wire_ok frs = true ->
    forall chunks : list bytes,
      starts_with (concat chunks) (stream_start pre frs) = true ->
      Forall (fun vis => wf_frames vis = true /\ known vis = false) (boundaries pre frs 0 chunks) ->
      inc_outs chunks = map to_add (inc_spec pre frs chunks).
Proof. exact inc_model_spec. Qed.
Check C17_incremental :
  forall (pre : bool) (frs : list (bool * frame)),
    forallb wire_ok frs = true ->
    forall chunks : list bytes,
      starts_with (concat chunks) (stream_start pre frs) = true ->
      Forall (fun vis => wf_frames vis = true /\ known vis = false) (boundaries pre frs 0 chunks) ->
      inc_outs chunks = map to_add (inc_spec pre frs chunks).
Print Assumptions C17_incremental.

(* preface + SETTINGS, WINDOW_UPDATE, two PRIORITY, PADDED+PRIORITY HEADERS continued by CONTINUATION,
   cut after 30 and after 100 octets *)
Example C17_incremental_hyps_satisfiable :
  let data := stream_start true ex_frames in
  let chunks := [firstn 30 data; firstn 70 (skipn 30 data); skipn 100 data] in
  forallb wire_ok ex_frames = true /\ concat chunks = data /\
  forallb (fun vis => wf_frames vis && negb (known vis)) (boundaries true ex_frames 0 chunks) = true /\
  map to_add (inc_spec true ex_frames chunks) = [RNone; RSome (bs "1:65536;3:100;4:6291456|15663105|3:1:0:201,5:0:3:101|"); RNone].
Proof. vm_compute. repeat split; reflexivity. Qed.

(* The panic!() inside the HPACK crate's table consolidation is unreachable from the extractor. *)
Theorem C17_no_panic : forall frames : list frame, extract_akamai_fingerprint frames <> Panicked.
Proof. exact extract_no_panic. Qed.
Check C17_no_panic : forall frames : list frame, extract_akamai_fingerprint frames <> Panicked.
Print Assumptions C17_no_panic.

(* Known defect classes (open findings): each is inhabited by an input in the format's domain on
   which the code's answer differs from the format. *)
Theorem C17_known_empty_settings_refuted :
  exists frames, wf_frames frames = true /\ k_empty_settings frames = true /\
                 extract_akamai_fingerprint frames <> Val (fp frames).
Proof. exact Known_empty_settings_refuted. Qed.
Print Assumptions C17_known_empty_settings_refuted.
(* the witnesses of the two former classes (PADDED / PRIORITY-flag HEADERS, CONTINUATION), repaired by
   89b3393, are inside the domain of C17_string now and yield m,a,s,p *)
Theorem C17_former_witnesses_agree :
  Forall (fun frames => wf_frames frames = true /\ known frames = false /\
                        extract_akamai_fingerprint frames = Val (Some (bs "3:100|00|0|m,a,s,p")))
         [w_headers_priority; w_headers_padded; w_continued].
Proof. exact former_witnesses_agree. Qed.
Print Assumptions C17_former_witnesses_agree.
(* the witness of the former non-UTF-8 class (:path with value /\xff, repaired: only the header NAME has to
   be text) is inside the domain and agrees: m,p,s *)
Theorem C17_nonutf8_former_witness_agrees :
  wf_frames w_nonutf8 = true /\ known w_nonutf8 = false /\
  extract_akamai_fingerprint w_nonutf8 = Val (fp w_nonutf8) /\ fp w_nonutf8 = Some (bs "3:100|00|0|m,p,s").
Proof. exact nonutf8_former_witness_agrees. Qed.
Print Assumptions C17_nonutf8_former_witness_agrees.
