(* C11 -- memory per connection and work per packet stay bounded for any traffic.
   Property theorems only; proofs live in Proofs/CostProofs.v (and Proofs/RecogProofs.v).
   Label: proof, PARTIAL.  `retained` and `cost` are the measures of Model/Cost.v (stored payload
   bytes / records; bytes copied + scanned); allocator behaviour, Vec growth policy and
   LinkedHashMap overhead are runtime facts outside the model (the harness bounds them against a
   counting allocator on every run); wall-clock expiry of cache entries is outside the model.

   FULL STATEMENT (property text): for every analyzer, every capacity and every packet sequence,
       retained (state after the sequence) <= capacity * L   and   cost state p <= a + b * |p|.
   It holds for the TCP uptime tracker (C11_tcp) and the TLS analyzer (C11_tls_retained,
   C11_tls_cost: L = 65539, a = 65539, b = 2, for EVERY behaviour of the ClientHello parser).
   It FAILS for the HTTP analyzer (C11_http_refuted: genuine, unrepaired; needs a buffering policy)
   and holds there only once a direction's message has been reported (C11_http_partial_client, C11_http_partial_server).
   The TLS reader used on its own is bounded only while no parse error was returned
   (C11_tls_reader, C11_tls_reader_refuted); the analyzers drop the reader on an error. *)
From Coq Require Import List NArith Bool.
From Coq Require Import Strings.Byte.
From HN Require Import Base.Bytes Base.Cache Base.Tcp Model.HttpFlow Model.HttpRecog Model.TlsFlow Model.Tracker
  Model.Cost Proofs.CostProofs Proofs.RecogProofs.
Import ListNotations.
Open Scope N_scope.

(* ---- TCP: one fixed-size record per (connection, direction), never more than the capacity ---- *)
Theorem C11_tcp :
  forall (freq_ok : tsrec -> tsrec -> bool) (cap : N) (ops : list (ckey * tsrec)),
    retained_tcp (tracker_run freq_ok (cache_new cap) ops) <= cap.
Proof. intros f cap ops. exact (tracker_bounded f ops (cache_new cap) (CacheProofs.within_new cap)). Qed.
Check C11_tcp :
  forall (freq_ok : tsrec -> tsrec -> bool) (cap : N) (ops : list (ckey * tsrec)),
    retained_tcp (tracker_run freq_ok (cache_new cap) ops) <= cap.
Print Assumptions C11_tcp.

(* ---- TLS analyzer: every byte history, every parser behaviour ---- *)
Theorem C11_tls_retained :
  forall (parse : bytes -> tls_parse) (cap : N) (tr : list segment),
    retained_tls (fst (trun parse (cache_new cap) tr)) <= cap * 65539.
Proof. exact tls_retained_bounded. Qed.
Check C11_tls_retained :
  forall (parse : bytes -> tls_parse) (cap : N) (tr : list segment),
    retained_tls (fst (trun parse (cache_new cap) tr)) <= cap * 65539.
Print Assumptions C11_tls_retained.

Theorem C11_tls_cost :
  forall (parse : bytes -> tls_parse) (cap : N) (tr : list segment) (p : segment),
    cost_tls (fst (trun parse (cache_new cap) tr)) p <= 65539 + 2 * len_N (g_pay p).
Proof. exact tls_cost_bounded. Qed.
Check C11_tls_cost :
  forall (parse : bytes -> tls_parse) (cap : N) (tr : list segment) (p : segment),
    cost_tls (fst (trun parse (cache_new cap) tr)) p <= 65539 + 2 * len_N (g_pay p).
Print Assumptions C11_tls_cost.

(* ---- the reader on its own (public API): bounded while the parser never answered Err ---- *)
Theorem C11_tls_reader :
  forall (parse : bytes -> tls_parse) (chunks : list bytes) (M : N),
    (forall b, parse b <> TErr) -> max_len chunks <= M ->
    len_N (r_buf (fst (reader_run parse reader_new chunks))) <= 65539 + M.
Proof.
  intros parse chunks M Hp HM. apply reader_run_bound; auto.
  - unfold len_N, buf_limit. cbn. apply N.le_0_l.
  - intros _. unfold len_N, buf_limit. cbn. discriminate.
Qed.
Check C11_tls_reader :
  forall (parse : bytes -> tls_parse) (chunks : list bytes) (M : N),
    (forall b, parse b <> TErr) -> max_len chunks <= M ->
    len_N (r_buf (fst (reader_run parse reader_new chunks))) <= 65539 + M.
Print Assumptions C11_tls_reader.

Theorem C11_tls_reader_refuted :
  forall B : N, exists chunks : list bytes,
    (forall c, In c chunks -> len_N c <= 5) /\
    B < len_N (r_buf (fst (reader_run (fun _ => TErr) reader_new chunks))).
Proof. exact tls_reader_unbounded_after_error. Qed.
Check C11_tls_reader_refuted :
  forall B : N, exists chunks : list bytes,
    (forall c, In c chunks -> len_N c <= 5) /\
    B < len_N (r_buf (fst (reader_run (fun _ => TErr) reader_new chunks))).
Print Assumptions C11_tls_reader_refuted.

(* ---- HTTP analyzer: no bound.  One connection, one-byte segments that never parse: what is
   retained and the cost of the next one-byte packet both exceed any B.  For every pair of parsers
   that reject a run of 'a' bytes; instantiated below for the HTTP/1 recogniser. ---- *)
Theorem C11_http_refuted :
  forall (Req Resp : Type) (parse_req : bytes -> option Req) (parse_resp : bytes -> option Resp),
    (forall d, Forall (fun b => b = "a"%byte) d -> parse_req d = None) ->
    forall B : N, exists (h : list segment) (p : segment),
      (forall q, In q (h ++ [p]) -> (g_src q, g_dst q, g_sport q, g_dport q) = (1, 2, 3, 4) /\ len_N (g_pay q) <= 1) /\
      B < retained_http (fst (run parse_req parse_resp (cache_new 1) h)) /\
      B < cost_http (fst (run parse_req parse_resp (cache_new 1) h)) p.
Proof. intros Req Resp pq pr H B. exact (http_unbounded pq pr H B). Qed.
Check C11_http_refuted :
  forall (Req Resp : Type) (parse_req : bytes -> option Req) (parse_resp : bytes -> option Resp),
    (forall d, Forall (fun b => b = "a"%byte) d -> parse_req d = None) ->
    forall B : N, exists (h : list segment) (p : segment),
      (forall q, In q (h ++ [p]) -> (g_src q, g_dst q, g_sport q, g_dport q) = (1, 2, 3, 4) /\ len_N (g_pay q) <= 1) /\
      B < retained_http (fst (run parse_req parse_resp (cache_new 1) h)) /\
      B < cost_http (fst (run parse_req parse_resp (cache_new 1) h)) p.
Print Assumptions C11_http_refuted.

Theorem C11_http_refuted_http1 :
  forall B : N, exists (h : list segment) (p : segment),
    (forall q, In q (h ++ [p]) -> (g_src q, g_dst q, g_sport q, g_dport q) = (1, 2, 3, 4) /\ len_N (g_pay q) <= 1) /\
    B < retained_http (fst (run recog_req recog_resp (cache_new 1) h)) /\
    B < cost_http (fst (run recog_req recog_resp (cache_new 1) h)) p.
Proof. exact (http_unbounded recog_req recog_resp recog_req_all_a). Qed.
Check C11_http_refuted_http1 :
  forall B : N, exists (h : list segment) (p : segment),
    (forall q, In q (h ++ [p]) -> (g_src q, g_dst q, g_sport q, g_dport q) = (1, 2, 3, 4) /\ len_N (g_pay q) <= 1) /\
    B < retained_http (fst (run recog_req recog_resp (cache_new 1) h)) /\
    B < cost_http (fst (run recog_req recog_resp (cache_new 1) h)) p.
Print Assumptions C11_http_refuted_http1.

(* ---- HTTP analyzer, what does hold: once a direction's message has been reported, packets of
   that direction are not stored (retained does not grow) and cost only their own copy ---- *)
Theorem C11_http_partial_client :
  forall (Req Resp : Type) (parse_req : bytes -> option Req) (parse_resp : bytes -> option Resp)
         (st : state) (p : segment) (f : tcpflow),
    cache_get fkey_eqb st (g_src p, g_dst p, g_sport p, g_dport p) = Some f ->
    g_src p = f_cip f -> g_sport p = f_cport f -> f_cparsed f = true ->
    retained_http (fst (step parse_req parse_resp st p)) <= retained_http st /\
    cost_http st p <= len_N (g_pay p).
Proof. intros Req Resp pq pr. exact (http_after_report_client pq pr). Qed.
Check C11_http_partial_client :
  forall (Req Resp : Type) (parse_req : bytes -> option Req) (parse_resp : bytes -> option Resp)
         (st : state) (p : segment) (f : tcpflow),
    cache_get fkey_eqb st (g_src p, g_dst p, g_sport p, g_dport p) = Some f ->
    g_src p = f_cip f -> g_sport p = f_cport f -> f_cparsed f = true ->
    retained_http (fst (step parse_req parse_resp st p)) <= retained_http st /\
    cost_http st p <= len_N (g_pay p).
Print Assumptions C11_http_partial_client.

Theorem C11_http_partial_server :
  forall (Req Resp : Type) (parse_req : bytes -> option Req) (parse_resp : bytes -> option Resp)
         (st : state) (p : segment) (f : tcpflow),
    cache_get fkey_eqb st (g_src p, g_dst p, g_sport p, g_dport p) = None ->
    cache_get fkey_eqb st (g_dst p, g_src p, g_dport p, g_sport p) = Some f ->
    g_src p = f_sip f -> g_sport p = f_sport f -> f_sparsed f = true ->
    retained_http (fst (step parse_req parse_resp st p)) <= retained_http st /\
    cost_http st p <= len_N (g_pay p).
Proof. intros Req Resp pq pr. exact (http_after_report_server pq pr). Qed.
Check C11_http_partial_server :
  forall (Req Resp : Type) (parse_req : bytes -> option Req) (parse_resp : bytes -> option Resp)
         (st : state) (p : segment) (f : tcpflow),
    cache_get fkey_eqb st (g_src p, g_dst p, g_sport p, g_dport p) = None ->
    cache_get fkey_eqb st (g_dst p, g_src p, g_dport p, g_sport p) = Some f ->
    g_src p = f_sip f -> g_sport p = f_sport f -> f_sparsed f = true ->
    retained_http (fst (step parse_req parse_resp st p)) <= retained_http st /\
    cost_http st p <= len_N (g_pay p).
Print Assumptions C11_http_partial_server.

(* the hypotheses of the partial theorems are met on a non-trivial state: after a reported request,
   a further 100-byte client segment costs 100 and is not stored *)
Definition ex_req : bytes := bs "GET / HTTP/1.1" ++ crlf ++ bs "Host: a" ++ crlfcrlf.
Definition ex_state : state :=
  fst (run recog_req recog_resp (cache_new 4)
         [mkSeg 1 2 3 4 true false false 1000 []; mkSeg 1 2 3 4 false false false 1001 ex_req]).
Example C11_http_partial_nonvacuous :
  exists f, cache_get fkey_eqb ex_state (1, 2, 3, 4) = Some f /\ f_cparsed f = true /\ f_cip f = 1 /\ f_cport f = 3 /\
            retained_http ex_state = 27 /\
            cost_http ex_state (mkSeg 1 2 3 4 false false false 1028 (repeat "x"%byte 100)) = 100.
Proof. eexists. vm_compute. repeat split; reflexivity. Qed.
