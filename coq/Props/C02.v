(* C02 — the reported best match is the optimum of a full database scan; the index is transparent.
   Property theorems only; proofs live in Proofs/ScanProofs.v.
   MODEL = Model/Match.v: tcp_find_best_match / http_find_best_match = FingerprintCollection::new (index as
   association list key -> (label idx, sig idx) in push order) followed by find_best_match (bucket lookup,
   strict `<` from the u32::MAX sentinel, entries[label_idx].1[sig_idx]);  FPanic = index out of range.
   SPEC  = Spec/ScanSpec.v: scan = first entry in database order at the smallest distance among all
   entries that accept, with that distance's quality; FNone iff nothing accepts.
   The database `db` is ANY list of (label, signature list): no bound, no well-formedness condition. *)
From Coq Require Import List NArith Bool.
From HN Require Import Base.Bytes Model.SigAst Model.Match Spec.ScanSpec Proofs.ScanProofs.
Open Scope N_scope.

Theorem C02_tcp :
  forall (L : Type) (db : list (L * list tcp_sig)) (o : tcp_sig),
    concrete_obs o -> tcp_find_best_match db o = tcp_scan db o.
Proof. intros L. exact (@tcp_find_best_match_is_scan L). Qed.
Check C02_tcp :
  forall (L : Type) (db : list (L * list tcp_sig)) (o : tcp_sig),
    concrete_obs o -> tcp_find_best_match db o = tcp_scan db o.
Print Assumptions C02_tcp.

Theorem C02_http :
  forall (L : Type) (db : list (L * list http_sig)) (o : http_sig),
    concrete_http o -> http_find_best_match db o = http_scan db o.
Proof. intros L. exact (@http_find_best_match_is_scan L). Qed.
Check C02_http :
  forall (L : Type) (db : list (L * list http_sig)) (o : http_sig),
    concrete_http o -> http_find_best_match db o = http_scan db o.
Print Assumptions C02_http.

(* nothing is reported exactly when no entry of the database accepts the observation *)
Theorem C02_tcp_none_iff :
  forall (L : Type) (db : list (L * list tcp_sig)) (o : tcp_sig),
    concrete_obs o ->
    (tcp_find_best_match db o = FNone <-> forall li si s, In (li, si, s) (positions db) -> tcp_distance s o = None).
Proof. intros L. exact (@tcp_none_iff L). Qed.
Check C02_tcp_none_iff :
  forall (L : Type) (db : list (L * list tcp_sig)) (o : tcp_sig),
    concrete_obs o ->
    (tcp_find_best_match db o = FNone <-> forall li si s, In (li, si, s) (positions db) -> tcp_distance s o = None).
Print Assumptions C02_tcp_none_iff.

Theorem C02_http_none_iff :
  forall (L : Type) (db : list (L * list http_sig)) (o : http_sig),
    concrete_http o ->
    (http_find_best_match db o = FNone <-> forall li si s, In (li, si, s) (positions db) -> http_distance s o = None).
Proof. intros L. exact (@http_none_iff L). Qed.
Check C02_http_none_iff :
  forall (L : Type) (db : list (L * list http_sig)) (o : http_sig),
    concrete_http o ->
    (http_find_best_match db o = FNone <-> forall li si s, In (li, si, s) (positions db) -> http_distance s o = None).
Print Assumptions C02_http_none_iff.

(* the index never hides an acceptable entry: whatever a signature accepts looks it up under one of its keys *)
Theorem C02_index_covers :
  (forall s o d, concrete_obs o -> tcp_distance s o = Some d ->
                 existsb (fun k => tcp_key_eqb k (tcp_obs_key o)) (tcp_sig_keys s) = true)
  /\ (forall s o d, concrete_http o -> http_distance s o = Some d ->
                    existsb (fun k => http_version_eqb k (http_obs_key o)) (http_sig_keys s) = true).
Proof. split; [exact tcp_covers | exact http_covers]. Qed.
Check C02_index_covers :
  (forall s o d, concrete_obs o -> tcp_distance s o = Some d ->
                 existsb (fun k => tcp_key_eqb k (tcp_obs_key o)) (tcp_sig_keys s) = true)
  /\ (forall s o d, concrete_http o -> http_distance s o = Some d ->
                    existsb (fun k => http_version_eqb k (http_obs_key o)) (http_sig_keys s) = true).
Print Assumptions C02_index_covers.

(* sanity of the SPEC itself: what the scan reports is an accepting entry at its own distance, with that
   distance's quality, and no accepting entry is closer *)
Theorem C02_scan_reports_minimum :
  forall (L Sg O : Type) (distance : Sg -> O -> option N) (score : N -> N) (db : list (L * list Sg)) o li si d q,
    scan distance score db o = FSome li si d q ->
    In (li, si, d) (accepting distance db o) /\ q = score d
    /\ (forall a, In a (accepting distance db o) -> d <= dist_of a).
Proof. intros L Sg O. exact (@scan_some_spec L Sg O). Qed.
Print Assumptions C02_scan_reports_minimum.

(* the hypothesis on observations is necessary (an `Any`-version observation is outside every bucket) *)
Theorem C02_nonconcrete_observation_differs :
  (exists (db : list (unit * list tcp_sig)) o, ~ concrete_obs o /\ tcp_find_best_match db o <> tcp_scan db o)
  /\ (exists (db : list (unit * list http_sig)) o, ~ concrete_http o /\ http_find_best_match db o <> http_scan db o).
Proof. split; [exact nonconcrete_obs_differs | exact nonconcrete_http_differs]. Qed.
Print Assumptions C02_nonconcrete_observation_differs.
