(* C13 — every bundled signature is reachable by the traffic it describes.
   Property theorems only; proofs live in Proofs/ReachObs.v, ReachTcp.v, ReachBundled.v.
   MODEL: Model/Reach.v (traffic -> observation [Model/TcpExtract.v, Model/Http1Obs.v] -> table -> find_best_match
          [Model/Match.v]);  reach_tcp / reach_http / known_tcp_traffic / live_tcp_b / tcp_entry: Spec/ReachSpec.v.
   SPEC : Spec/ConformSpec.v (conforms_tcp, conforms_http: the p0f reading of a signature against traffic;
          admissible: own label, or the label of an earlier entry of the same table the traffic conforms to as well).
   Signatures of the bundled file are named by their p0f.fp line (tcp_entry / http_entry).
   Known classes of TRAFFIC (excused only while IMPL = MODEL): C03's K1 (bytes after end-of-options), K4 (quirk order),
   K5 (malformed options; its NS-bit part was repaired by 9733023).  The C13 class KV6 (df/id+/id-/0+ not ignored on IPv6,
   flow not ignored on IPv4) was repaired by ecf5f15 and is gone.  K7 is kept in `known_c03` for the shape of C03's lemmas but is false on every decoded segment
   since 44d12e9 (window field above 65535).
   Status of the 199 + 99 bundled signatures, recomputed from Gen/Bundled.v by every build (lists and sizes:
   Spec/ReachLists.v, written by harness/c13/tools/mk_lists.py; at /repo ecf5f15):
     TCP : 67 live at distance 0 (6 of the 12 `NN-` signatures among them since fdb1660) + 24 live at distance 1 (scale `0`
           written for a layout without `ws`; certificate Spec/ReachMinSpec.v), 107 dead (85 DeadValueWindow + 22
           DeadEolPad; one checked witness each), 1 undecided (line 313: MSS `0` written for a layout without `mss`,
           charged 2 — no distance-2 certificate is built);
     HTTP: 54 live (finite abstraction, Spec/ReachHttpSpec.v, evaluated in 12 shards), 45 dead (13 for exact-literal
           messages, 9 Expsw, 23 ValueEquality; one checked witness each), 0 undecided. *)
From Coq Require Import List NArith Bool.
From HN Require Import Base.Bytes Model.SigAst Model.Match Model.TcpExtract Model.Reach
  Spec.ScanSpec Spec.P0fTcp Spec.DbLoadSpec Spec.BundledSpec Spec.ConformSpec Spec.ReachSpec Spec.ReachLists Spec.ReachWitness
  Spec.ReachHttpSpec Spec.ReachMinSpec Proofs.ReachObs Proofs.ReachTcp Proofs.ReachBundled Proofs.ReachMin Proofs.ReachMinBundled
  Proofs.ReachHttp Proofs.ReachHttpLines Proofs.ReachHttpBundled.
Import ListNotations.
Open Scope N_scope.

(* ---- (a) zero wins: an entry at distance 0 exists => the reported entry is the FIRST entry at distance 0 (all databases) ---- *)
Theorem C13_zero_wins_tcp :
  forall (L : Type) (db : list (L * list tcp_sig)) (o : tcp_sig) (p : N * N * tcp_sig),
    concrete_obs o -> In p (positions db) -> tcp_distance (snd p) o = Some 0 ->
    exists li si s, first_zero tcp_distance db o = Some (li, si, s)
                    /\ tcp_find_best_match db o = FSome li si 0 100.
Proof. intros L. exact (@zero_wins_tcp L). Qed.
Check C13_zero_wins_tcp :
  forall (L : Type) (db : list (L * list tcp_sig)) (o : tcp_sig) (p : N * N * tcp_sig),
    concrete_obs o -> In p (positions db) -> tcp_distance (snd p) o = Some 0 ->
    exists li si s, first_zero tcp_distance db o = Some (li, si, s)
                    /\ tcp_find_best_match db o = FSome li si 0 100.
Print Assumptions C13_zero_wins_tcp.

Theorem C13_zero_wins_http :
  forall (L : Type) (db : list (L * list http_sig)) (o : http_sig) (p : N * N * http_sig),
    concrete_http o -> In p (positions db) -> http_distance (snd p) o = Some 0 ->
    exists li si s, first_zero http_distance db o = Some (li, si, s)
                    /\ http_find_best_match db o = FSome li si 0 100.
Proof. intros L. exact (@zero_wins_http L). Qed.
Check C13_zero_wins_http :
  forall (L : Type) (db : list (L * list http_sig)) (o : http_sig) (p : N * N * http_sig),
    concrete_http o -> In p (positions db) -> http_distance (snd p) o = Some 0 ->
    exists li si s, first_zero http_distance db o = Some (li, si, s)
                    /\ http_find_best_match db o = FSome li si 0 100.
Print Assumptions C13_zero_wins_http.

(* ---- (b) TCP, all databases ---- *)
(* the observation of a conforming handshake packet outside C03's K1/K4/K5/K7 is its p0f rendering, in the table of its role *)
Theorem C13_tcp_observation_v4 :
  forall (db : list (bytes * list N)) (p : bytes) (g : segment) (k : tkind),
    decode4 p = Some g -> conf_role k g = true ->
    known_c03 g (out_quirks (process_ipv4_packet db p)) = false ->
    exists o, process_ipv4_packet db p = Ok o
              /\ o_syn o = syn_of k (spec_sig g) /\ o_synack o = synack_of k (spec_sig g).
Proof. exact obs_v4. Qed.
Print Assumptions C13_tcp_observation_v4.
Theorem C13_tcp_observation_v6 :
  forall (db : list (bytes * list N)) (p : bytes) (g : segment) (k : tkind),
    decode6 p = Some g -> conf_role k g = true ->
    known_c03 g (out_quirks (process_ipv6_packet db p)) = false ->
    exists o, process_ipv6_packet db p = Ok o
              /\ o_syn o = syn_of k (spec_sig g) /\ o_synack o = synack_of k (spec_sig g).
Proof. exact obs_v6. Qed.
Print Assumptions C13_tcp_observation_v6.

(* soundness of the liveness decider: a conforming packet outside the known classes is at distance 0 *)
Theorem C13_live_tcp_sound :
  forall (k : tkind) (s : tcp_sig) (g : segment),
    seg_wf g -> live_tcp_b s = true -> conforms_seg_b k s g = true -> K5 g = false ->
    tcp_distance s (spec_sig g) = Some 0.
Proof. exact live_zero. Qed.
Check C13_live_tcp_sound :
  forall (k : tkind) (s : tcp_sig) (g : segment),
    seg_wf g -> live_tcp_b s = true -> conforms_seg_b k s g = true -> K5 g = false ->
    tcp_distance s (spec_sig g) = Some 0.
Print Assumptions C13_live_tcp_sound.

(* conversely: an entry at distance 0 from the p0f rendering of a packet is one the packet conforms to *)
Theorem C13_zero_implies_conforms :
  forall (k : tkind) (t : tcp_sig) (g : segment),
    seg_wf g -> conf_role k g = true -> tcp_distance t (spec_sig g) = Some 0 -> conforms_seg_b k t g = true.
Proof. exact zero_conforms. Qed.
Check C13_zero_implies_conforms :
  forall (k : tkind) (t : tcp_sig) (g : segment),
    seg_wf g -> conf_role k g = true -> tcp_distance t (spec_sig g) = Some 0 -> conforms_seg_b k t g = true.
Print Assumptions C13_zero_implies_conforms.

(* MAIN (TCP, every database in the p0f.fp format): for a live signature at position (li, si) of its table and every
   IPv4/IPv6 packet that conforms to it outside the known classes, the right table is consulted and the reported
   label is admissible *)
Theorem C13_tcp :
  forall (db : database) (k : tkind) (li si : N) (s : tcp_sig) (x : tcp_traffic),
    entry_at (tcp_table db k) li si = Some (li, si, s) ->
    live_tcp_b s = true -> conforms_tcp k s x -> known_tcp_traffic db s x = false ->
    exists f, reach_tcp db x = RMatch (tcp_table_id k) f
              /\ admissible (tcp_table db k) (fun t => conforms_tcp_b k t x) li si f.
Proof. exact reach_tcp_live. Qed.
Check C13_tcp :
  forall (db : database) (k : tkind) (li si : N) (s : tcp_sig) (x : tcp_traffic),
    entry_at (tcp_table db k) li si = Some (li, si, s) ->
    live_tcp_b s = true -> conforms_tcp k s x -> known_tcp_traffic db s x = false ->
    exists f, reach_tcp db x = RMatch (tcp_table_id k) f
              /\ admissible (tcp_table db k) (fun t => conforms_tcp_b k t x) li si f.
Print Assumptions C13_tcp.

(* ---- the bundled database as it is now ---- *)
Theorem C13_bundled_tcp :
  forall (k : tkind) (line li si : N) (s : tcp_sig) (x : tcp_traffic),
    In line live_tcp_lines -> tcp_entry k line = Some (li, si, s) ->
    conforms_tcp k s x -> known_tcp_traffic bundled_db s x = false ->
    exists f, reach_tcp bundled_db x = RMatch (tcp_table_id k) f
              /\ admissible (tcp_table bundled_db k) (fun t => conforms_tcp_b k t x) li si f.
Proof. exact bundled_tcp_live. Qed.
Check C13_bundled_tcp :
  forall (k : tkind) (line li si : N) (s : tcp_sig) (x : tcp_traffic),
    In line live_tcp_lines -> tcp_entry k line = Some (li, si, s) ->
    conforms_tcp k s x -> known_tcp_traffic bundled_db s x = false ->
    exists f, reach_tcp bundled_db x = RMatch (tcp_table_id k) f
              /\ admissible (tcp_table bundled_db k) (fun t => conforms_tcp_b k t x) li si f.
Print Assumptions C13_bundled_tcp.

(* ---- signatures reachable at distance 1 (scale `0` written for a layout without `ws`) ---- *)
(* zero_wins generalised (every database, every distance function): the own entry is at distance d, entries in front are
   farther than d or harmless, no entry is nearer than d unless harmless => the reported entry is the own one or harmless *)
Theorem C13_min_wins :
  forall (L S O : Type) (distance : S -> O -> option N) (score : N -> N) (db : list (L * list S)) (o : O)
         (stop ok : N * N * S -> bool) (x0 : N * N * S) (d : N),
    find stop (positions db) = Some x0 -> distance (snd x0) o = Some d ->
    (forall p e, In p (prefix_before stop (positions db)) -> distance (snd p) o = Some e -> d < e \/ ok p = true) ->
    (forall p e, In p (positions db) -> distance (snd p) o = Some e -> d <= e \/ ok p = true) ->
    exists y e, In y (positions db) /\ distance (snd y) o = Some e
                /\ scan distance score db o = FSome (fst (fst y)) (snd (fst y)) e (score e)
                /\ (y = x0 \/ ok y = true).
Proof. intros L S O. exact (@scan_min_wins L S O). Qed.
Check C13_min_wins :
  forall (L S O : Type) (distance : S -> O -> option N) (score : N -> N) (db : list (L * list S)) (o : O)
         (stop ok : N * N * S -> bool) (x0 : N * N * S) (d : N),
    find stop (positions db) = Some x0 -> distance (snd x0) o = Some d ->
    (forall p e, In p (prefix_before stop (positions db)) -> distance (snd p) o = Some e -> d < e \/ ok p = true) ->
    (forall p e, In p (positions db) -> distance (snd p) o = Some e -> d <= e \/ ok p = true) ->
    exists y e, In y (positions db) /\ distance (snd y) o = Some e
                /\ scan distance score db o = FSome (fst (fst y)) (snd (fst y)) e (score e)
                /\ (y = x0 \/ ok y = true).
Print Assumptions C13_min_wins.

(* the certificate is sound: own distance exactly 1; entries in front never at distance exactly 1; entries behind never at 0 *)
Theorem C13_live1_own_distance :
  forall (k : tkind) (s : tcp_sig) (g : segment),
    seg_wf g -> live1_tcp_b s = true -> conforms_seg_b k s g = true -> K5 g = false ->
    tcp_distance s (spec_sig g) = Some 1.
Proof.
  intros k s g WF LV C K5F. apply live1_one; [exact (obs_char k s g WF LV C K5F)|].
  unfold live1_tcp_b in LV. repeat (apply andb_true_iff in LV; destruct LV as [LV ?]). assumption.
Qed.
Print Assumptions C13_live1_own_distance.
Theorem C13_live1_separation :
  forall (k : tkind) (s t : tcp_sig) (g : segment) (e : N),
    seg_wf g -> live1_tcp_b s = true -> conforms_seg_b k s g = true -> K5 g = false ->
    tcp_distance t (spec_sig g) = Some e ->
    (sep_before s t = true -> e <> 1) /\ (sep_after s t = true -> e <> 0).
Proof.
  intros k s t g e WF LV C K5F D. pose proof (obs_char k s g WF LV C K5F) as OF.
  split; intros S; [exact (sep_before_sound s t _ e OF S D) | exact (sep_after_sound s t _ e OF S D)].
Qed.
Print Assumptions C13_live1_separation.

(* MAIN for distance 1 (every database) *)
Theorem C13_tcp_distance1 :
  forall (db : database) (k : tkind) (li si : N) (s : tcp_sig) (x : tcp_traffic),
    entry_at (tcp_table db k) li si = Some (li, si, s) ->
    live1_cert (tcp_table db k) li si s = true -> conforms_tcp k s x -> known_tcp_traffic db s x = false ->
    exists f, reach_tcp db x = RMatch (tcp_table_id k) f
              /\ admissible (tcp_table db k) (fun t => conforms_tcp_b k t x) li si f.
Proof. exact reach_tcp_live1. Qed.
Check C13_tcp_distance1 :
  forall (db : database) (k : tkind) (li si : N) (s : tcp_sig) (x : tcp_traffic),
    entry_at (tcp_table db k) li si = Some (li, si, s) ->
    live1_cert (tcp_table db k) li si s = true -> conforms_tcp k s x -> known_tcp_traffic db s x = false ->
    exists f, reach_tcp db x = RMatch (tcp_table_id k) f
              /\ admissible (tcp_table db k) (fun t => conforms_tcp_b k t x) li si f.
Print Assumptions C13_tcp_distance1.

Theorem C13_bundled_tcp_distance1 :
  forall (k : tkind) (line li si : N) (s : tcp_sig) (x : tcp_traffic),
    In line live1_tcp_lines -> tcp_entry k line = Some (li, si, s) ->
    conforms_tcp k s x -> known_tcp_traffic bundled_db s x = false ->
    exists f, reach_tcp bundled_db x = RMatch (tcp_table_id k) f
              /\ admissible (tcp_table bundled_db k) (fun t => conforms_tcp_b k t x) li si f.
Proof. exact bundled_tcp_live1. Qed.
Check C13_bundled_tcp_distance1 :
  forall (k : tkind) (line li si : N) (s : tcp_sig) (x : tcp_traffic),
    In line live1_tcp_lines -> tcp_entry k line = Some (li, si, s) ->
    conforms_tcp k s x -> known_tcp_traffic bundled_db s x = false ->
    exists f, reach_tcp bundled_db x = RMatch (tcp_table_id k) f
              /\ admissible (tcp_table bundled_db k) (fun t => conforms_tcp_b k t x) li si f.
Print Assumptions C13_bundled_tcp_distance1.

(* the hypotheses are satisfiable on a non-trivial input: a conforming IPv4 SYN for the Linux 3.11 signature of line 96 *)
Example C13_bundled_tcp_hypotheses :
  forallb (fun w => match parse_tcp_case (snd w) with
                    | Some (k, line, x) =>
                        (line =? fst w) && existsb (N.eqb line) live_tcp_lines &&
                        match judge_tcp k line x with
                        | Some v => v_admissible v && negb (v_known_traffic v)
                        | None => false end
                    | None => false end) wit_ex_live = true /\ length wit_ex_live = 1%nat.
Proof. vm_compute. split; reflexivity. Qed.

(* every TCP signature line of the file is in exactly one of live / dead / undecided, the lists are the ones the
   deciders compute on the file, and their sizes are 61 / 12 + 80 + 22 / 24 of 199 *)
Theorem C13_bundled_tcp_partition :
  list_N_eqb (sort_N (live_tcp_lines ++ live1_tcp_lines ++ dead_tcp_lines ++ undecided_tcp_lines))
             (sort_N (sig_lines SecTQ ++ sig_lines SecTS)) = true
  /\ length (sig_lines SecTQ ++ sig_lines SecTS) = 199%nat
  /\ list_N_eqb (class_lines CLive) live_tcp_lines = true
  /\ list_N_eqb (class_lines CBadTtl) dead_bad_ttl_lines = true
  /\ list_N_eqb (sort_N (class_lines CEolPad ++ class_lines COddTtl)) dead_eol_pad_lines = true
  /\ subset_N (class_lines CValueWindow) dead_value_window_lines = true
  /\ subset_N dead_value_window_lines (class_lines CValueWindow ++ class_lines COptZero) = true
  /\ subset_N (live1_tcp_lines ++ undecided_tcp_lines) (class_lines COptZero) = true
  /\ (length live_tcp_lines, length live1_tcp_lines, length dead_bad_ttl_lines, length dead_value_window_lines,
      length dead_eol_pad_lines, length undecided_tcp_lines) = tcp_partition_sizes.
Proof. exact bundled_tcp_partition. Qed.
Print Assumptions C13_bundled_tcp_partition.

(* the j-th `sig` line of a TCP section parses to the signature at the j-th position of the loaded table *)
Theorem C13_bundled_lines_are_positions : tcp_lines_match TReq = true /\ tcp_lines_match TResp = true.
Proof. exact bundled_lines_are_positions. Qed.
Print Assumptions C13_bundled_lines_are_positions.

(* ---- dead signatures: for every listed line a conforming witness whose best match is not admissible ---- *)
(* tcp_refuted unknown line := exists k li si s x, tcp_entry k line = Some (li, si, s) /\ conforms_tcp k s x
     /\ (unknown = true -> known_tcp_traffic bundled_db s x = false)
     /\ ~ (exists f, reach_tcp bundled_db x = RMatch (tcp_table_id k) f /\ admissible .. li si f) *)
Theorem C13_dead_bad_ttl_refuted : forall line, In line dead_bad_ttl_lines -> tcp_refuted true line.
Proof. exact dead_bad_ttl_refuted. Qed.
Print Assumptions C13_dead_bad_ttl_refuted.
Theorem C13_dead_value_window_refuted : forall line, In line dead_value_window_lines -> tcp_refuted true line.
Proof. exact dead_value_window_refuted. Qed.
Print Assumptions C13_dead_value_window_refuted.
(* DeadEolPad: every conforming packet is in C03's class K1; the witness is inside it *)
Theorem C13_dead_eol_pad_refuted : forall line, In line dead_eol_pad_lines -> tcp_refuted false line.
Proof. exact dead_eol_pad_refuted. Qed.
Print Assumptions C13_dead_eol_pad_refuted.
(* KV6 (repaired by ecf5f15): the former witness, an IPv6 SYN for the Linux 3.11 signature of line 96, is matched now *)
Theorem C13_former_kv6_witness_agrees :
  forallb (fun w => match parse_tcp_case (snd w) with
                    | Some (k, line, x) =>
                        (line =? fst w) && existsb (N.eqb line) live_tcp_lines &&
                        match judge_tcp k line x, x with
                        | Some v, T6 _ => v_admissible v && negb (v_known_traffic v)
                        | _, _ => false end
                    | None => false end) wit_former_kv6 = true /\ length wit_former_kv6 = 1%nat.
Proof. exact former_kv6_witness_agrees. Qed.
Print Assumptions C13_former_kv6_witness_agrees.

(* ---- HTTP ---- *)
(* all databases: a signature that passes the finite-abstraction check (Spec/ReachHttpSpec.v live_http_b) is reachable by
   every HTTP/1.x message that conforms to it (any body), outside C05's known classes *)
Theorem C13_http :
  forall (db : database) (k : hkind) (li si : N) (s : http_sig) (m : Http1Grammar.msg) (body : bytes),
    In (li, si, s) (positions (http_table db k)) ->
    live_http_b k (http_table db k) li si s = true ->
    conforms_http k s m -> Http1Grammar.known m = false ->
    exists f, reach_http db k (Http1Grammar.render m ++ body) = RMatch (http_table_id k) f
              /\ admissible (http_table db k) (fun t => conforms_http_b k t m) li si f.
Proof. exact reach_http_live. Qed.
Check C13_http :
  forall (db : database) (k : hkind) (li si : N) (s : http_sig) (m : Http1Grammar.msg) (body : bytes),
    In (li, si, s) (positions (http_table db k)) ->
    live_http_b k (http_table db k) li si s = true ->
    conforms_http k s m -> Http1Grammar.known m = false ->
    exists f, reach_http db k (Http1Grammar.render m ++ body) = RMatch (http_table_id k) f
              /\ admissible (http_table db k) (fun t => conforms_http_b k t m) li si f.
Print Assumptions C13_http.

(* the abstraction lemma behind it: a message and its abstract message are at the same distance from every entry *)
Theorem C13_http_distance_abstraction :
  forall (k : hkind) (tbl : list (label * list http_sig)), fresh_ok tbl = true ->
  forall (ver : http_version) (am : list afield) (fields : list (bytes * bytes)) (t : http_sig),
    Forall2 (rel k tbl) am fields -> In t (all_sigs tbl) ->
    http_distance t (obs_of_fields k ver (map conc am)) = http_distance t (obs_of_fields k ver fields).
Proof. exact distance_abs. Qed.
Print Assumptions C13_http_distance_abstraction.

Theorem C13_bundled_http :
  forall (k : hkind) (line li si : N) (s : http_sig) (m : Http1Grammar.msg) (body : bytes),
    In line live_http_lines -> http_entry k line = Some (li, si, s) ->
    conforms_http k s m -> Http1Grammar.known m = false ->
    exists f, reach_http bundled_db k (Http1Grammar.render m ++ body) = RMatch (http_table_id k) f
              /\ admissible (http_table bundled_db k) (fun t => conforms_http_b k t m) li si f.
Proof. exact bundled_http_live. Qed.
Check C13_bundled_http :
  forall (k : hkind) (line li si : N) (s : http_sig) (m : Http1Grammar.msg) (body : bytes),
    In line live_http_lines -> http_entry k line = Some (li, si, s) ->
    conforms_http k s m -> Http1Grammar.known m = false ->
    exists f, reach_http bundled_db k (Http1Grammar.render m ++ body) = RMatch (http_table_id k) f
              /\ admissible (http_table bundled_db k) (fun t => conforms_http_b k t m) li si f.
Print Assumptions C13_bundled_http.

Example C13_bundled_http_hypotheses :
  forallb (fun w => match parse_http_case (snd w) with
                    | Some (k, line, m, body) =>
                        (line =? fst w) && existsb (N.eqb line) live_http_lines &&
                        match judge_http k line m body with
                        | Some v => v_admissible v && negb (v_known_traffic v)
                        | None => false end
                    | None => false end) wit_ex_http = true /\ length wit_ex_http = 1%nat.
Proof. vm_compute. split; reflexivity. Qed.

(* refutations and the partition (the theorem keeps its name; no line is undecided any more) *)
(* http_refuted line := exists k li si s m body, http_entry k line = Some (li, si, s) /\ conforms_http k s m
     /\ Http1Grammar.known m = false
     /\ ~ (exists f, reach_http bundled_db k (render m ++ body) = RMatch (http_table_id k) f /\ admissible .. li si f) *)
Theorem C13_dead_http_exact_refuted : forall line, In line dead_http_exact_lines -> http_refuted line.
Proof. exact dead_http_exact_refuted. Qed.
Print Assumptions C13_dead_http_exact_refuted.
Theorem C13_dead_http_expsw_refuted : forall line, In line dead_http_expsw_lines -> http_refuted line.
Proof. exact dead_http_expsw_refuted. Qed.
Print Assumptions C13_dead_http_expsw_refuted.
Theorem C13_dead_http_value_refuted : forall line, In line dead_http_value_lines -> http_refuted line.
Proof. exact dead_http_value_refuted. Qed.
Print Assumptions C13_dead_http_value_refuted.
Theorem C13_bundled_http_partition_partial :
  list_N_eqb (sort_N (live_http_lines ++ dead_http_lines ++ undecided_http_lines)) (sort_N (sig_lines SecHQ ++ sig_lines SecHS)) = true
  /\ length (sig_lines SecHQ ++ sig_lines SecHS) = 99%nat
  /\ (length live_http_lines, length dead_http_exact_lines, length dead_http_expsw_lines, length dead_http_value_lines,
      length undecided_http_lines) = http_partition_sizes.
Proof. exact bundled_http_partition. Qed.
Print Assumptions C13_bundled_http_partition_partial.
