(* C19 — uptime estimates are sound for steady clocks and withheld otherwise.
   Property theorems only; proofs live in Proofs/Uptime{,Est,Track,Hist}Proofs.v.
   MODEL = Model/Uptime.v (uptime.rs + the TIMESTAMPS arm of tcp_process.rs, exact arithmetic),
   SPEC = Spec/UptimeSpec.v.  Known classes (code departs from the property; witnesses below):
     known_small_advance  in bounds but fewer than 5 ticks: the pair is withheld (MIN_TS_DIFF); the code keeps
                          waiting: no marker, the reference stays and later segments are evaluated
     known_role_split     role is part of the tracker key: SYN and later ACKs of one endpoint are
                          never paired when the port heuristic contradicts the handshake flags *)
From Coq Require Import List ZArith Bool.
From HN Require Import Model.Uptime Spec.UptimeSpec
  Proofs.UptimeProofs Proofs.UptimeEstProofs Proofs.UptimeTrackProofs Proofs.UptimeHistProofs Proofs.UptimeFloat.
Import ListNotations.
Open Scope Z_scope.

(* ---- sound: in bounds => the estimate is the SPEC's, digits in range ---- *)
Theorem C19_sound :
  forall t1 v1 t2 v2 : Z,
    wf_obs t1 v1 -> wf_obs t2 v2 ->
    in_bounds t1 v1 t2 v2 = true ->
    known_small_advance t1 v1 t2 v2 = false ->
    let freq := grid (1000 * advance v1 v2) (t2 - t1) in
    let u := spec_uptime v2 freq in
    model_estimate t1 v1 t2 v2 = Some u /\
    1 <= freq /\ u_freq u = freq /\ 0 <= u_days u /\ 0 <= u_hours u < 24 /\ 0 <= u_min u < 60 /\
    v2 / freq = 86400 * u_days u + 3600 * u_hours u + 60 * u_min u + (v2 / freq) mod 60 /\
    u_mod_days u = 4294967296 / freq / 86400.
Proof. exact estimate_sound. Qed.
Check C19_sound :
  forall t1 v1 t2 v2 : Z,
    wf_obs t1 v1 -> wf_obs t2 v2 ->
    in_bounds t1 v1 t2 v2 = true ->
    known_small_advance t1 v1 t2 v2 = false ->
    let freq := grid (1000 * advance v1 v2) (t2 - t1) in
    let u := spec_uptime v2 freq in
    model_estimate t1 v1 t2 v2 = Some u /\
    1 <= freq /\ u_freq u = freq /\ 0 <= u_days u /\ 0 <= u_hours u < 24 /\ 0 <= u_min u < 60 /\
    v2 / freq = 86400 * u_days u + 3600 * u_hours u + 60 * u_min u + (v2 / freq) mod 60 /\
    u_mod_days u = 4294967296 / freq / 86400.
Print Assumptions C19_sound.

(* the SPEC frequency (10 % snap to 1000/100 Hz multiples, else the documented banded rounding of the
   integer part of the rate) is a point of the documented grid *)
Theorem C19_grid_documented :
  forall n dd : Z, 0 < dd -> dd <= n <= 1500 * dd -> In (grid n dd) grid_points.
Proof. exact grid_on_documented_grid. Qed.
Check C19_grid_documented :
  forall n dd : Z, 0 < dd -> dd <= n <= 1500 * dd -> In (grid n dd) grid_points.
Print Assumptions C19_grid_documented.

(* ---- withheld: out of bounds => nothing, and the evaluation is the one that sets the marker
        (all t, v: no range hypothesis needed) ---- *)
Theorem C19_withheld :
  forall t1 v1 t2 v2 : Z,
    in_bounds t1 v1 t2 v2 = false ->
    model_eval t1 v1 t2 v2 = EvBad /\ model_estimate t1 v1 t2 v2 = None /\ spec_estimate t1 v1 t2 v2 = None.
Proof. exact estimate_withheld. Qed.
Check C19_withheld :
  forall t1 v1 t2 v2 : Z,
    in_bounds t1 v1 t2 v2 = false ->
    model_eval t1 v1 t2 v2 = EvBad /\ model_estimate t1 v1 t2 v2 = None /\ spec_estimate t1 v1 t2 v2 = None.
Print Assumptions C19_withheld.

(* both halves in one equation *)
Theorem C19_estimate_model_spec :
  forall t1 v1 t2 v2 : Z,
    wf_obs t1 v1 -> wf_obs t2 v2 -> known_pair t1 v1 t2 v2 = false ->
    model_estimate t1 v1 t2 v2 = spec_estimate t1 v1 t2 v2.
Proof. exact estimate_model_spec. Qed.
Check C19_estimate_model_spec :
  forall t1 v1 t2 v2 : Z,
    wf_obs t1 v1 -> wf_obs t2 v2 -> known_pair t1 v1 t2 v2 = false ->
    model_estimate t1 v1 t2 v2 = spec_estimate t1 v1 t2 v2.
Print Assumptions C19_estimate_model_spec.

(* ---- sticky bad marker: after a failed evaluation the endpoint stays silent, whatever follows ---- *)
Theorem C19_sticky_bad :
  forall (tr : cache) (s : segment) (now : Z) (ref : tcp_timestamp) (h : list (segment * Z)),
    seg_valid s = true ->
    cache_get tr (seg_key s) = Some ref -> is_bad_frequency ref = false ->
    model_eval (recv_time_ms ref) (ts_val ref) now (sg_tsval s) = EvBad ->
    let tr' := fst (process_segment tr s now) in
    snd (process_segment tr s now) = ROut None None /\
    Forall silent (outputs_of (seg_key s) h (run_history tr' h)) /\
    exists e', cache_get (final_tracker tr' h) (seg_key s) = Some e' /\ is_bad_frequency e' = true.
Proof. exact sticky_after_failed_eval. Qed.
Check C19_sticky_bad :
  forall (tr : cache) (s : segment) (now : Z) (ref : tcp_timestamp) (h : list (segment * Z)),
    seg_valid s = true ->
    cache_get tr (seg_key s) = Some ref -> is_bad_frequency ref = false ->
    model_eval (recv_time_ms ref) (ts_val ref) now (sg_tsval s) = EvBad ->
    let tr' := fst (process_segment tr s now) in
    snd (process_segment tr s now) = ROut None None /\
    Forall silent (outputs_of (seg_key s) h (run_history tr' h)) /\
    exists e', cache_get (final_tracker tr' h) (seg_key s) = Some e' /\ is_bad_frequency e' = true.
Print Assumptions C19_sticky_bad.

(* ---- directions are tracked separately: a segment touches only its own (connection, direction)
        entry, and what an endpoint's segments report is what they report with every other endpoint's
        segments deleted from the history; client and server keys are always different keys ---- *)
Theorem C19_directions_disjoint :
  (forall (tr : cache) (s : segment) (now : Z) (k' : connection_key),
      k' <> seg_key s -> cache_get (fst (process_segment tr s now)) k' = cache_get tr k') /\
  (forall (k : connection_key) (h : list (segment * Z)) (tr tr_k : cache),
      cache_get tr k = cache_get tr_k k ->
      outputs_of k h (run_history tr h) = run_history tr_k (only_key k h)) /\
  (forall c1 c2 : connection, (c1, true) <> (c2, false)).
Proof. exact (conj process_frame (conj isolation directions_distinct)). Qed.
Check C19_directions_disjoint :
  (forall (tr : cache) (s : segment) (now : Z) (k' : connection_key),
      k' <> seg_key s -> cache_get (fst (process_segment tr s now)) k' = cache_get tr k') /\
  (forall (k : connection_key) (h : list (segment * Z)) (tr tr_k : cache),
      cache_get tr k = cache_get tr_k k ->
      outputs_of k h (run_history tr h) = run_history tr_k (only_key k h)) /\
  (forall c1 c2 : connection, (c1, true) <> (c2, false)).
Print Assumptions C19_directions_disjoint.

(* ---- role: the label is the documented rule, and an estimate sits in exactly that slot ---- *)
Theorem C19_role :
  (forall flags sp_ dp : Z, 0 <= flags < 256 ->
      role_of_bool (is_packet_from_client flags sp_ dp) = spec_role flags sp_ dp) /\
  (forall (tr : cache) (s : segment) (now : Z) (tr' : cache) (cli srv : option uptime),
      0 <= sg_flags s < 256 ->
      process_segment tr s now = (tr', ROut cli srv) ->
      let ro := spec_role (sg_flags s) (src_port (sg_conn s)) (dst_port (sg_conn s)) in
      (cli = None \/ srv = None) /\ (cli <> None -> ro = Client) /\ (srv <> None -> ro = Server)).
Proof. exact (conj role_rule role_labelling). Qed.
Check C19_role :
  (forall flags sp_ dp : Z, 0 <= flags < 256 ->
      role_of_bool (is_packet_from_client flags sp_ dp) = spec_role flags sp_ dp) /\
  (forall (tr : cache) (s : segment) (now : Z) (tr' : cache) (cli srv : option uptime),
      0 <= sg_flags s < 256 ->
      process_segment tr s now = (tr', ROut cli srv) ->
      let ro := spec_role (sg_flags s) (src_port (sg_conn s)) (dst_port (sg_conn s)) in
      (cli = None \/ srv = None) /\ (cli <> None -> ro = Client) /\ (srv <> None -> ro = Server)).
Print Assumptions C19_role.

(* ---- whole histories on a fresh tracker: every segment's report equals the SPEC tracker's ---- *)
Theorem C19_history :
  forall h : list (segment * Z),
    Forall wf_event h -> known_history h = false ->
    map to_sresult (run_history [] h) = spec_history [] h.
Proof. exact history_model_spec. Qed.
Check C19_history :
  forall h : list (segment * Z),
    Forall wf_event h -> known_history h = false ->
    map to_sresult (run_history [] h) = spec_history [] h.
Print Assumptions C19_history.

(* ---- the remaining known class is only a withheld report: on a sub-5-tick in-bounds pair the code
        neither reports nor marks, and the tracker is left exactly as it was ---- *)
Theorem C19_small_advance_keeps_waiting :
  (forall t1 v1 t2 v2 : Z, known_small_advance t1 v1 t2 v2 = true -> model_eval t1 v1 t2 v2 = EvWait) /\
  (forall (tr : cache) (s : segment) (now : Z) (ref : tcp_timestamp),
      seg_valid s = true -> cache_get tr (seg_key s) = Some ref -> is_bad_frequency ref = false ->
      model_eval (recv_time_ms ref) (ts_val ref) now (sg_tsval s) = EvWait ->
      process_segment tr s now = (tr, ROut None None)).
Proof. exact (conj eval_small_advance process_wait). Qed.
Check C19_small_advance_keeps_waiting :
  (forall t1 v1 t2 v2 : Z, known_small_advance t1 v1 t2 v2 = true -> model_eval t1 v1 t2 v2 = EvWait) /\
  (forall (tr : cache) (s : segment) (now : Z) (ref : tcp_timestamp),
      seg_valid s = true -> cache_get tr (seg_key s) = Some ref -> is_bad_frequency ref = false ->
      model_eval (recv_time_ms ref) (ts_val ref) now (sg_tsval s) = EvWait ->
      process_segment tr s now = (tr, ROut None None)).
Print Assumptions C19_small_advance_keeps_waiting.

(* ---- witnesses: each known class is inhabited and the code really departs from the SPEC there ---- *)
Theorem C19_Known_small_advance_refuted :
  exists t1 v1 t2 v2, wf_obs t1 v1 /\ wf_obs t2 v2 /\ known_small_advance t1 v1 t2 v2 = true /\
                      model_estimate t1 v1 t2 v2 <> spec_estimate t1 v1 t2 v2 /\ model_eval t1 v1 t2 v2 = EvWait.
Proof. exact Known_small_advance_refuted. Qed.
Print Assumptions C19_Known_small_advance_refuted.
(* former known class "backward movement reported" (repaired in /repo): its witnesses now agree with the SPEC *)
Theorem C19_Known_backward_former_witness_agrees :
  model_estimate 0 1000 1000 900 = spec_estimate 0 1000 1000 900 /\
  model_estimate 0 5000000 60000 4940000 = spec_estimate 0 5000000 60000 4940000 /\
  model_estimate 0 1000 50 985 = spec_estimate 0 1000 50 985 /\
  spec_estimate 0 1000 1000 900 = None.
Proof. exact Known_backward_former_witness_agrees. Qed.
Print Assumptions C19_Known_backward_former_witness_agrees.
Theorem C19_Known_role_split_refuted :
  exists h, Forall wf_event h /\ known_role_split h = true /\
            map to_sresult (run_history [] h) <> spec_history [] h.
Proof. exact Known_role_split_refuted. Qed.
Print Assumptions C19_Known_role_split_refuted.

(* ---- tie to the source: the model's constants are those of uptime.rs NOW (Gen/Consts.v is regenerated
   from /repo on every run; an edited constant breaks this obligation) ---- *)
From HN Require Gen.Consts Proofs.ConstTieUptime.
Theorem C19_constants_match_source :
  HN.Model.Uptime.MIN_TWAIT = Consts.src_uptime_MIN_TWAIT /\ HN.Model.Uptime.MAX_TWAIT = Consts.src_uptime_MAX_TWAIT /\
  HN.Model.Uptime.MIN_TS_DIFF = Consts.src_uptime_MIN_TS_DIFF /\ HN.Model.Uptime.TSTAMP_GRACE = Consts.src_uptime_TSTAMP_GRACE /\
  (HN.Model.Uptime.MAX_FINAL_HZ * 1000 = Consts.src_uptime_MAX_FINAL_HZ_milli)%Z /\
  (HN.Model.Uptime.MIN_FINAL_HZ * 1000 = Consts.src_uptime_MIN_FINAL_HZ_milli)%Z /\
  (HN.Model.Uptime.GUESS_HZ_1K * 1000 = Consts.src_uptime_GUESS_HZ_1K_milli)%Z /\
  (HN.Model.Uptime.GUESS_HZ_100 * 1000 = Consts.src_uptime_GUESS_HZ_100_milli)%Z /\
  (10 * Consts.src_uptime_GUESS_TOLERANCE_milli = 1000)%Z.
Proof. exact ConstTieUptime.uptime_constants_tie. Qed.
Print Assumptions C19_constants_match_source.

(* ---- binary64: the estimator computed with IEEE-754 double arithmetic (Flocq: round radix2
        (FLT_exp (-1074) 53) ZnearestE after every / * -, f64::round = ZnearestA, % exact, `as u32`
        truncation, the literal 0.10 = nearest double) returns exactly what the exact-rational MODEL
        returns, for every pair of observations.  This is the former "float separation" assumption.
        Depends on the standard-library axioms of the classical reals (listed in props/C19.json). ---- *)
Theorem C19_float_exact :
  forall t1 v1 t2 v2 : Z,
    0 <= v2 < 4294967296 ->
    f64_eval t1 v1 t2 v2 = model_eval t1 v1 t2 v2 /\ f64_estimate t1 v1 t2 v2 = model_estimate t1 v1 t2 v2.
Proof. intros t1 v1 t2 v2 H. split; [now apply f64_eval_eq | now apply f64_estimate_eq]. Qed.
Check C19_float_exact :
  forall t1 v1 t2 v2 : Z,
    0 <= v2 < 4294967296 ->
    f64_eval t1 v1 t2 v2 = model_eval t1 v1 t2 v2 /\ f64_estimate t1 v1 t2 v2 = model_estimate t1 v1 t2 v2.
Set Printing Width 400.
Print Assumptions C19_float_exact.
