(* C20 — unified analyzer = union of the protocol analyzers; configuration only masks.
   Property theorems only; proofs in Proofs/UnifiedProofs.v. *)
From Coq Require Import List NArith Bool.
From HN Require Import Base.Bytes Model.Unified Spec.UnifiedSpec Proofs.UnifiedProofs.
Import ListNotations.

(* per packet: whenever every enabled protocol analyzer accepts, the composition coded in
   process.rs/lib.rs yields exactly the union of the protocol analyzers' field groups under the mask *)
Theorem C20_packet_union : forall c t h l out,
  spec_packet c t h l = Some out -> analyze_packet c t h l = out.
Proof. exact packet_union. Qed.
Check C20_packet_union : forall c t h l out, spec_packet c t h l = Some out -> analyze_packet c t h l = out.
Print Assumptions C20_packet_union.

(* per trace, for any protocol analyzers (abstract step functions): inside the unified analyzer each
   enabled protocol analyzer goes through the same states as on its own, so every packet's result is
   the union/mask of the standalone results on the same trace *)
Theorem C20_trace_union : forall (P ST SH : Type) (tcp_step : ST -> P -> ST * pres)
    (http_step : SH -> P -> SH * pres) (tls_fn : P -> pres) (c : cfg) (tr : list P) (st : ST) (sh : SH),
  trace_accepts P ST SH tcp_step http_step tls_fn c st sh tr ->
  map Some (unified_run P ST SH tcp_step http_step tls_fn c (st, sh) tr)
  = spec_run_enabled P ST SH tcp_step http_step tls_fn c st sh tr.
Proof. exact trace_union. Qed.
Check C20_trace_union : forall (P ST SH : Type) (tcp_step : ST -> P -> ST * pres)
    (http_step : SH -> P -> SH * pres) (tls_fn : P -> pres) (c : cfg) (tr : list P) (st : ST) (sh : SH),
  trace_accepts P ST SH tcp_step http_step tls_fn c st sh tr ->
  map Some (unified_run P ST SH tcp_step http_step tls_fn c (st, sh) tr)
  = spec_run_enabled P ST SH tcp_step http_step tls_fn c st sh tr.
Print Assumptions C20_trace_union.

(* disabling a protocol (HTTP shown; the statement is symmetric in the code) removes only its fields *)
Theorem C20_mask_protocol : forall c t h l o1 o2,
  shape_ok 5 t = true -> shape_ok 2 h = true -> http_en c = true ->
  spec_packet c t h l = Some o1 ->
  spec_packet {| tcp_en := tcp_en c; http_en := false; tls_en := tls_en c; matcher_en := matcher_en c; db_present := db_present c |} t h l = Some o2 ->
  firstn 5 o1 = firstn 5 o2 /\ skipn 7 o1 = skipn 7 o2 /\ firstn 2 (skipn 5 o2) = [None; None].
Proof. exact mask_http. Qed.
Print Assumptions C20_mask_protocol.

(* disabling matching: every quality becomes 'disabled', every raw signature stays *)
Theorem C20_mask_matcher : forall c t h l o1 o2,
  matcher_en c = true ->
  spec_packet c t h l = Some o1 ->
  spec_packet {| tcp_en := tcp_en c; http_en := http_en c; tls_en := tls_en c; matcher_en := false; db_present := db_present c |} t h l = Some o2 ->
  map sig_of o1 = map sig_of o2 /\ forallb disabled_part o2 = true.
Proof. exact mask_matcher. Qed.
Print Assumptions C20_mask_matcher.
