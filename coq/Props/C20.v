(* C20 — unified analyzer = union of the protocol analyzers; configuration only masks.
   Property theorems only; proofs in Proofs/UnifiedProofs.v. *)
From Coq Require Import List NArith Bool.
From HN Require Import Base.Bytes Model.Unified Spec.UnifiedSpec Proofs.UnifiedProofs.
Import ListNotations.

(* per packet: whenever every enabled protocol analyzer accepts, the composition coded in
   process.rs/lib.rs yields exactly the union of the protocol analyzers' field groups under the mask *)
Theorem C20_packet_union : forall c t h l out,
  spec_packet c t h l = Some out -> analyze_packet c t h l = out.
Proof. exact packet_union. Qed.
Check C20_packet_union : forall c t h l out, spec_packet c t h l = Some out -> analyze_packet c t h l = out.
Print Assumptions C20_packet_union.

(* per trace, for any protocol analyzers (abstract step functions): inside the unified analyzer each
   enabled protocol analyzer goes through the same states as on its own, so every packet's result is
   the union/mask of the standalone results on the same trace *)
Theorem C20_trace_union : forall (P ST SH : Type) (tcp_step : ST -> P -> ST * pres)
    (http_step : SH -> P -> SH * pres) (tls_fn : P -> pres) (c : cfg) (tr : list P) (st : ST) (sh : SH),
  trace_accepts P ST SH tcp_step http_step tls_fn c st sh tr ->
  map Some (unified_run P ST SH tcp_step http_step tls_fn c (st, sh) tr)
  = spec_run_enabled P ST SH tcp_step http_step tls_fn c st sh tr.
Proof. exact trace_union. Qed.
Check C20_trace_union : forall (P ST SH : Type) (tcp_step : ST -> P -> ST * pres)
    (http_step : SH -> P -> SH * pres) (tls_fn : P -> pres) (c : cfg) (tr : list P) (st : ST) (sh : SH),
  trace_accepts P ST SH tcp_step http_step tls_fn c st sh tr ->
  map Some (unified_run P ST SH tcp_step http_step tls_fn c (st, sh) tr)
  = spec_run_enabled P ST SH tcp_step http_step tls_fn c st sh tr.
Print Assumptions C20_trace_union.

(* disabling a protocol (HTTP shown; the statement is symmetric in the code) removes only its fields *)
Theorem C20_mask_protocol : forall c t h l o1 o2,
  shape_ok 5 t = true -> shape_ok 2 h = true -> http_en c = true ->
  spec_packet c t h l = Some o1 ->
  spec_packet {| tcp_en := tcp_en c; http_en := false; tls_en := tls_en c; matcher_en := matcher_en c; db_present := db_present c |} t h l = Some o2 ->
  firstn 5 o1 = firstn 5 o2 /\ skipn 7 o1 = skipn 7 o2 /\ firstn 2 (skipn 5 o2) = [None; None].
Proof. exact mask_http. Qed.
Print Assumptions C20_mask_protocol.

(* disabling matching: every quality becomes 'disabled', every raw signature stays *)
Theorem C20_mask_matcher : forall c t h l o1 o2,
  matcher_en c = true ->
  spec_packet c t h l = Some o1 ->
  spec_packet {| tcp_en := tcp_en c; http_en := http_en c; tls_en := tls_en c; matcher_en := false; db_present := db_present c |} t h l = Some o2 ->
  map sig_of o1 = map sig_of o2 /\ forallb disabled_part o2 = true.
Proof. exact mask_matcher. Qed.
Print Assumptions C20_mask_matcher.

(* ====================================================================================================
   CONCRETE INSTANCE: tcp_step := the packet-level TCP analyzer model (Model/TcpAnalyzer.v tcp_packet_step; packets
   are events (frame, clock reading)) with its result as the five field groups syn, syn_ack, mtu, client uptime,
   server uptime (Model/AnalyzerReports.v tcp_pres: g_sig = signature text / MTU / uptime token; match parts empty,
   OS matching is C02/C12; the MTU group carries the link of the MTU table); tls_fn := the STATELESS TLS path of the
   unified analyzer (tls_process.rs process_tls_ipv4/ipv6/process_tls_tcp: is_tls_traffic + parse_tls_client_hello
   on THIS packet's TCP payload, never an error; tls_ufn); http_step stays abstract until the HTTP flow model lands.
   Proofs: Proofs/DischargeInstances.v. *)
From Coq Require Import ZArith.
From HN Require Import Model.AnalyzerReports Proofs.KeyedExamples Proofs.DischargeInstances Proofs.DischargeExamples.
From HN Require Model.TcpAnalyzer Model.TcpExtract.

Theorem C20_trace_union_tcp_tls_concrete :
  forall (SH : Type) (http_step : SH -> TcpAnalyzer.tcp_event -> SH * pres) (db : list (bytes * list N)) (cap : N)
         (c : cfg) (tr : list TcpAnalyzer.tcp_event) (st : TcpAnalyzer.tcp_state) (sh : SH),
  trace_accepts TcpAnalyzer.tcp_event TcpAnalyzer.tcp_state SH (tcp_ustep db cap) http_step tls_ufn c st sh tr ->
  map Some (unified_run TcpAnalyzer.tcp_event TcpAnalyzer.tcp_state SH (tcp_ustep db cap) http_step tls_ufn c (st, sh) tr)
  = spec_run_enabled TcpAnalyzer.tcp_event TcpAnalyzer.tcp_state SH (tcp_ustep db cap) http_step tls_ufn c st sh tr.
Proof. exact trace_union_tcp_tls_concrete. Qed.
Check C20_trace_union_tcp_tls_concrete :
  forall (SH : Type) (http_step : SH -> TcpAnalyzer.tcp_event -> SH * pres) (db : list (bytes * list N)) (cap : N)
         (c : cfg) (tr : list TcpAnalyzer.tcp_event) (st : TcpAnalyzer.tcp_state) (sh : SH),
  trace_accepts TcpAnalyzer.tcp_event TcpAnalyzer.tcp_state SH (tcp_ustep db cap) http_step tls_ufn c st sh tr ->
  map Some (unified_run TcpAnalyzer.tcp_event TcpAnalyzer.tcp_state SH (tcp_ustep db cap) http_step tls_ufn c (st, sh) tr)
  = spec_run_enabled TcpAnalyzer.tcp_event TcpAnalyzer.tcp_state SH (tcp_ustep db cap) http_step tls_ufn c st sh tr.
Print Assumptions C20_trace_union_tcp_tls_concrete.

(* with HTTP disabled the acceptance hypothesis is discharged down to a condition on the frames: the stateless TLS
   path never rejects (proved), the TCP analyzer rejects exactly the frames TcpExtract.process_frame rejects
   (non-TCP, fragments, no TCP view, invalid flag combinations) *)
Theorem C20_trace_union_tcp_tls_no_http :
  forall (SH : Type) (http_step : SH -> TcpAnalyzer.tcp_event -> SH * pres) (db : list (bytes * list N)) (cap : N)
         (c : cfg) (tr : list TcpAnalyzer.tcp_event) (st : TcpAnalyzer.tcp_state) (sh : SH),
  http_en c = false ->
  (tcp_en c = true -> forall e, In e tr -> TcpExtract.process_frame db (fst e) <> TcpExtract.Err) ->
  map Some (unified_run TcpAnalyzer.tcp_event TcpAnalyzer.tcp_state SH (tcp_ustep db cap) http_step tls_ufn c (st, sh) tr)
  = spec_run_enabled TcpAnalyzer.tcp_event TcpAnalyzer.tcp_state SH (tcp_ustep db cap) http_step tls_ufn c st sh tr.
Proof. exact trace_union_no_http. Qed.
Check C20_trace_union_tcp_tls_no_http :
  forall (SH : Type) (http_step : SH -> TcpAnalyzer.tcp_event -> SH * pres) (db : list (bytes * list N)) (cap : N)
         (c : cfg) (tr : list TcpAnalyzer.tcp_event) (st : TcpAnalyzer.tcp_state) (sh : SH),
  http_en c = false ->
  (tcp_en c = true -> forall e, In e tr -> TcpExtract.process_frame db (fst e) <> TcpExtract.Err) ->
  map Some (unified_run TcpAnalyzer.tcp_event TcpAnalyzer.tcp_state SH (tcp_ustep db cap) http_step tls_ufn c (st, sh) tr)
  = spec_run_enabled TcpAnalyzer.tcp_event TcpAnalyzer.tcp_state SH (tcp_ustep db cap) http_step tls_ufn c st sh tr.
Print Assumptions C20_trace_union_tcp_tls_no_http.

(* satisfiable: TCP + TLS enabled, HTTP disabled, matcher off; SYN and ACK of a connection with a 1000 Hz
   timestamp clock, then a whole ClientHello of another flow: which of the eight groups each packet shows *)
Example C20_tcp_tls_concrete_example :
  ctor_ok c20_cfg = true /\
  (forall e, In e c20_trace -> TcpExtract.process_frame [] (fst e) <> TcpExtract.Err) /\
  map shown_mask (unified_run TcpAnalyzer.tcp_event TcpAnalyzer.tcp_state unit (tcp_ustep [] 8) no_http tls_ufn c20_cfg ([], tt) c20_trace)
  = [ [true; false; false; false; false; false; false; false];
      [false; true; false; true; false; false; false; false];
      [false; true; false; false; false; false; false; true] ].
Proof. exact c20_example. Qed.

(* ---------------------------------------------------------------- ALL THREE protocols concrete: http_step := the
   packet-level HTTP analyzer model (Model/HttpGlue.v http_ustep over Model/HttpAnalyzer.v; parsers = any pure
   functions returning the request / response text that becomes g_sig, e.g. the HTTP/1 recogniser; matching is
   outside the model).  Order as in process.rs: HTTP stage first -- a packet the TCP analyzer then rejects
   (fragment, invalid flag combination) has already been consumed by the HTTP flow table and blanks the result;
   such traces are outside the acceptance hypothesis (the property gives no verdict for that packet). *)
From HN Require Import Base.Cache Model.HttpFlow Model.HttpAnalyzer Model.HttpGlue Proofs.HttpInstances Proofs.HttpExamples.
From HN Require Model.HttpRecog.

Theorem C20_trace_union_concrete :
  forall (parse_req parse_resp : bytes -> option bytes) (db : list (bytes * list N)) (cap : N)
         (c : cfg) (tr : list TcpAnalyzer.tcp_event) (st : TcpAnalyzer.tcp_state) (sh : http_state),
  trace_accepts TcpAnalyzer.tcp_event TcpAnalyzer.tcp_state http_state (tcp_ustep db cap) (http_ustep parse_req parse_resp) tls_ufn c st sh tr ->
  map Some (unified_run TcpAnalyzer.tcp_event TcpAnalyzer.tcp_state http_state (tcp_ustep db cap) (http_ustep parse_req parse_resp) tls_ufn c (st, sh) tr)
  = spec_run_enabled TcpAnalyzer.tcp_event TcpAnalyzer.tcp_state http_state (tcp_ustep db cap) (http_ustep parse_req parse_resp) tls_ufn c st sh tr.
Proof. exact trace_union_concrete. Qed.
Check C20_trace_union_concrete :
  forall (parse_req parse_resp : bytes -> option bytes) (db : list (bytes * list N)) (cap : N)
         (c : cfg) (tr : list TcpAnalyzer.tcp_event) (st : TcpAnalyzer.tcp_state) (sh : http_state),
  trace_accepts TcpAnalyzer.tcp_event TcpAnalyzer.tcp_state http_state (tcp_ustep db cap) (http_ustep parse_req parse_resp) tls_ufn c st sh tr ->
  map Some (unified_run TcpAnalyzer.tcp_event TcpAnalyzer.tcp_state http_state (tcp_ustep db cap) (http_ustep parse_req parse_resp) tls_ufn c (st, sh) tr)
  = spec_run_enabled TcpAnalyzer.tcp_event TcpAnalyzer.tcp_state http_state (tcp_ustep db cap) (http_ustep parse_req parse_resp) tls_ufn c st sh tr.
Print Assumptions C20_trace_union_concrete.

(* acceptance at frame level: the HTTP path rejects an IP frame whose TCP view is missing or whose next protocol is
   not TCP (http_frame_class = HCErr); the TCP analyzer rejects what TcpExtract.process_frame rejects (a superset:
   C20_tcp_ok_http_ok); the stateless TLS path never rejects *)
Theorem C20_trace_union_concrete_frames :
  forall (parse_req parse_resp : bytes -> option bytes) (db : list (bytes * list N)) (cap : N)
         (c : cfg) (tr : list TcpAnalyzer.tcp_event) (st : TcpAnalyzer.tcp_state) (sh : http_state),
  (http_en c = true -> forall e, In e tr -> http_frame_class (fst e) <> HCErr) ->
  (tcp_en c = true -> forall e, In e tr -> TcpExtract.process_frame db (fst e) <> TcpExtract.Err) ->
  map Some (unified_run TcpAnalyzer.tcp_event TcpAnalyzer.tcp_state http_state (tcp_ustep db cap) (http_ustep parse_req parse_resp) tls_ufn c (st, sh) tr)
  = spec_run_enabled TcpAnalyzer.tcp_event TcpAnalyzer.tcp_state http_state (tcp_ustep db cap) (http_ustep parse_req parse_resp) tls_ufn c st sh tr.
Proof. exact trace_union_concrete_frames. Qed.
Check C20_trace_union_concrete_frames :
  forall (parse_req parse_resp : bytes -> option bytes) (db : list (bytes * list N)) (cap : N)
         (c : cfg) (tr : list TcpAnalyzer.tcp_event) (st : TcpAnalyzer.tcp_state) (sh : http_state),
  (http_en c = true -> forall e, In e tr -> http_frame_class (fst e) <> HCErr) ->
  (tcp_en c = true -> forall e, In e tr -> TcpExtract.process_frame db (fst e) <> TcpExtract.Err) ->
  map Some (unified_run TcpAnalyzer.tcp_event TcpAnalyzer.tcp_state http_state (tcp_ustep db cap) (http_ustep parse_req parse_resp) tls_ufn c (st, sh) tr)
  = spec_run_enabled TcpAnalyzer.tcp_event TcpAnalyzer.tcp_state http_state (tcp_ustep db cap) (http_ustep parse_req parse_resp) tls_ufn c st sh tr.
Print Assumptions C20_trace_union_concrete_frames.

Theorem C20_tcp_ok_http_ok : forall (db : list (bytes * list N)) (f : bytes),
  TcpExtract.process_frame db f <> TcpExtract.Err -> http_frame_class f <> HCErr.
Proof. exact tcp_ok_http_ok. Qed.
Print Assumptions C20_tcp_ok_http_ok.

(* satisfiable: everything enabled, matcher off: SYN, request in two segments, response *)
Example C20_concrete_example :
  ctor_ok c20_all = true /\
  (forall e, In e c20_http_trace -> http_frame_class (fst e) <> HCErr) /\
  (forall e, In e c20_http_trace -> TcpExtract.process_frame [] (fst e) <> TcpExtract.Err) /\
  map shown_mask (unified_run TcpAnalyzer.tcp_event TcpAnalyzer.tcp_state http_state (tcp_ustep [] 8)
                    (http_ustep HttpRecog.recog_req HttpRecog.recog_resp) tls_ufn c20_all ([], cache_new 8) c20_http_trace)
  = [ [true; false; false; false; false; false; false; false];
      [false; true; false; false; false; false; false; false];
      [false; true; false; false; false; true; false; false];
      [false; true; false; false; false; false; true; false] ].
Proof. exact http_c20_example. Qed.
